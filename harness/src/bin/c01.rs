//! C01 -- reading any octet string as a DNS message is total.
//!
//! T2 cases (model vs implementation):
//!   pname <lim> <pos> <hexmsg>   ParsedName::parse on a parser {pos, len=lim}
//!   skip  <lim> <pos> <hexmsg>   ParsedName::skip
//!   islice <start> <hexmsg>      Label::iter_slice(..).collect()
//!   msg <hexmsg>                 the framing transcript of a whole message
//! Oracle (implementation only): every read-side operation under catch_unwind
//! with the hang watchdog, twice; classes panic_<site>, hang, nondeterministic,
//! overrun, invalid_name, panic_xfr.
use bytes::Bytes;
use domain::base::cmp::CanonicalOrd;
use domain::base::iana::{Class, Rtype};
use domain::base::message_builder::{MessageBuilder, StaticCompressor, TreeCompressor};
use domain::base::name::{Label, Name, ParsedName, ToLabelIter, ToName};
use domain::base::opt::{AllOptData, UnknownOptData};
use domain::base::rdata::UnknownRecordData;
use domain::base::wire::ParseError;
use domain::base::zonefile_fmt::{DisplayKind, ZonefileFmt};
use domain::base::{Message, ParsedRecord, Question, RecordSection, Serial, Ttl};
use domain::net::xfr::protocol::XfrResponseInterpreter;
use domain::base::opt::Opt;
use domain::base::RecordData;
use domain::rdata::{AllRecordData, Cname, Mx, Ns, Soa, ZoneRecordData, A};
use dv_harness::*;
use octseq::Parser;
use std::collections::hash_map::DefaultHasher;
use std::fmt::Write as _;
use std::hash::{Hash, Hasher};
use std::sync::Mutex;

static LAST_PANIC: Mutex<String> = Mutex::new(String::new());
static PHASE: Mutex<&'static str> = Mutex::new("start");

fn phase(p: &'static str) { if let Ok(mut g) = PHASE.lock() { *g = p; } }

fn install_hook() {
    std::panic::set_hook(Box::new(|info| {
        let site = match info.location() {
            Some(l) => {
                let f = l.file();
                let stem = f.rsplit('/').next().unwrap_or(f).trim_end_matches(".rs");
                let dir = f.rsplit('/').nth(1).unwrap_or("");
                let ph = PHASE.lock().map(|g| *g).unwrap_or("unknown");
                let _ = l.line();
                format!("{}_{}_{}", ph, dir, stem)
            }
            None => "unknown".to_string(),
        };
        if let Ok(mut g) = LAST_PANIC.lock() { *g = site; }
    }));
}

fn last_site() -> String {
    LAST_PANIC.lock().map(|g| g.clone()).unwrap_or_default()
}

fn err_word(e: &ParseError) -> &'static str {
    match e {
        ParseError::ShortInput => "1",
        ParseError::Form(f) => match f.to_string().as_str() {
            "invalid label type" => "2",
            "long domain name" => "3",
            "too many compression pointers" => "4",
            "trailing data in option" => "5",
            "no question" => "6",
            "multiple questions" => "7",
            _ => "9",
        },
    }
}

// ------------------------------------------------------------------ T2: names

fn labels_str<'a>(it: impl Iterator<Item = &'a Label>) -> (String, bool) {
    let mut s = String::new();
    let mut last_root = false;
    let mut first = true;
    for l in it {
        last_root = l.is_root();
        if l.is_root() { continue; }
        if !first { s.push(','); }
        first = false;
        s.push_str(&hex(l.as_slice()));
    }
    if s.is_empty() { s.push('.'); }
    (s, last_root)
}

fn obs_pname(m: &[u8], pos: usize, lim: usize) -> String {
    let m2 = m.to_vec();
    let r = catch(move || {
        let m = &m2[..];
        let mut p = Parser::with_range(m, pos..lim);
        match ParsedName::parse(&mut p) {
            Err(e) => format!("Err {}", err_word(&e)),
            Ok(n) => {
                let first = n.iter().next().map(|l| l.as_slice().as_ptr() as usize);
                let start = first.map(|a| a.wrapping_sub(m.as_ptr() as usize).wrapping_sub(1)).unwrap_or(usize::MAX);
                let (ls, root) = labels_str(n.iter());
                format!("Ok {} {} {} {} {} {}", start, n.compose_len(), n.is_compressed() as u8, p.pos(), ls, root as u8)
            }
        }
    });
    r.unwrap_or_else(|_| "Panic".into())
}

fn obs_skip(m: &[u8], pos: usize, lim: usize) -> String {
    let m2 = m.to_vec();
    catch(move || {
        let mut p = Parser::with_range(&m2[..], pos..lim);
        match ParsedName::skip(&mut p) {
            Err(e) => format!("Err {}", err_word(&e)),
            Ok(()) => format!("Ok {}", p.pos()),
        }
    }).unwrap_or_else(|_| "Panic".into())
}

fn obs_islice(m: &[u8], start: usize) -> String {
    let m2 = m.to_vec();
    catch(move || {
        let mut s = String::from("Ok ");
        let mut n = 0usize;
        let mut first = true;
        for l in Label::iter_slice(&m2[..], start) {
            n += 1;
            if n > 2_000_000 { return "Endless".to_string(); }
            if !first { s.push(','); }
            first = false;
            if l.is_root() { s.push('.'); } else { s.push_str(&hex(l.as_slice())); }
        }
        if first { s.push('-'); }
        s
    }).unwrap_or_else(|_| "Panic".into())
}


// ------------------------------------------------- T2: derived name operations

fn name_start(m: &[u8], n: &ParsedName<&[u8]>) -> usize {
    n.iter().next().map(|l| (l.as_slice().as_ptr() as usize).wrapping_sub(m.as_ptr() as usize).wrapping_sub(1)).unwrap_or(usize::MAX)
}

fn obs_pops(m: &[u8], pos: usize, lim: usize) -> String {
    let m2 = m.to_vec();
    catch(move || {
        let m = &m2[..];
        let mut p = Parser::with_range(m, pos..lim);
        let n = match ParsedName::parse(&mut p) { Err(e) => return format!("Err {}", err_word(&e)), Ok(n) => n };
        let rev: Vec<String> = n.iter().rev().map(|l| if l.is_root() { ".".to_string() } else { hex(l.as_slice()) }).collect();
        let mut split = vec![];
        let mut a = n;
        while let Some(rel) = a.split_first() { split.push(hex(rel.as_slice())); if split.len() > 300 { break; } }
        let mut suf = vec![];
        for s in n.iter_suffixes() { let f = s.first(); suf.push(format!("{}:{}", s.compose_len(), if f.is_root() { ".".to_string() } else { hex(f.as_slice()) })); if suf.len() > 300 { break; } }
        // parent() directly as well
        let mut b = n; let mut parents = 0; while b.parent() { parents += 1; if parents > 300 { break; } }
        let flat = match n.as_flat_slice() { Some(f) => hex(f), None => "none".to_string() };
        format!("Ok rev={} split={} suf={} parents={} flat={}", rev.join(","), if split.is_empty() { "-".to_string() } else { split.join(",") }, suf.join(","), parents, flat)
    }).unwrap_or_else(|_| "Panic".into())
}

// ------------------------------------------------- T2: read-side calls in any order

#[derive(Clone, Copy)]
enum Obj<'a> { Q(domain::base::QuestionSection<'a, [u8]>), R(RecordSection<'a, [u8]>) }

fn typed_word(e: &ParseError) -> &'static str {
    match e {
        ParseError::ShortInput => "e1",
        ParseError::Form(f) => match f.to_string().as_str() {
            "invalid label type" => "e2",
            "long domain name" => "e3",
            "too many compression pointers" => "e4",
            _ => "e5",
        },
    }
}

// record types without a row in the C05 schema table (coq/C05/Model.v irregular_types)
const IRREGULAR: &[u16] = &[];



/// What the display of SVCB parameters iterates: every raw parameter, typed through the public
/// parse function of its key (falling back to the raw form as AllValues::parse_any does).
fn svc_obs(params: &domain::rdata::svcb::SvcParams<&[u8]>) -> String {
    use domain::rdata::svcb::value::*;
    let mut v: Vec<String> = vec![];
    for p in params.iter_raw() {
        let key = p.key().to_int();
        let val: &[u8] = p.as_slice();
        let unk = || format!("u{}:{}", key, hex(val));
        let mut ps = Parser::from_ref(val);
        let s = match key {
            0 => match Mandatory::parse(&mut ps) { Ok(x) => format!("m{}", x.iter().map(|k| k.to_int().to_string()).collect::<Vec<_>>().join(".")), Err(_) => unk() },
            1 => match Alpn::parse(&mut ps) { Ok(x) => format!("a{}", x.iter().map(|i| hex(i)).collect::<Vec<_>>().join(".")), Err(_) => unk() },
            2 => "n".to_string(),
            3 => match Port::parse(&mut ps) { Ok(x) => format!("p{}", x.port()), Err(_) => unk() },
            4 => match Ipv4Hint::parse(&mut ps) { Ok(x) => format!("4{}", x.iter().map(|a| hex(&a.octets())).collect::<Vec<_>>().join(".")), Err(_) => unk() },
            5 => match Ech::parse(&mut ps) { Ok(x) => format!("e{}", hex(x.as_slice())), Err(_) => unk() },
            6 => match Ipv6Hint::parse(&mut ps) { Ok(x) => format!("6{}", x.iter().map(|a| hex(&a.octets())).collect::<Vec<_>>().join(".")), Err(_) => unk() },
            7 => match DohPath::parse(&mut ps) { Ok(x) => format!("d{}", hex(x.as_slice())), Err(_) => unk() },
            8 => "o".to_string(),
            9 => match TlsSupportedGroups::parse(&mut ps) { Ok(x) => format!("g{}", x.iter().map(|g| g.to_string()).collect::<Vec<_>>().join(".")), Err(_) => unk() },
            _ => unk(),
        };
        v.push(s);
        if v.len() > 70_000 { break; }
    }
    if v.is_empty() { "-".to_string() } else { v.join(",") }
}

/// Control-flow skeleton of the dig-style printer's output.
fn dig_skeleton(text: &str) -> String {
    let mut out: Vec<String> = vec![];
    #[derive(PartialEq)] enum St { None, Opt, Q, Sec }
    let mut st = St::None;
    let mut opt = String::new();
    let mut seen_edns = false;
    for line in text.split('\n') {
        if line == ";; OPT PSEUDOSECTION:" { st = St::Opt; opt = "O".to_string(); seen_edns = false; continue; }
        if st == St::Opt && (line.is_empty() || line.starts_with(";; ")) { out.push(opt.clone()); st = St::None; }
        if line == ";; QUESTION SECTION:" { st = St::Q; out.push("QH".into()); continue; }
        if line == ";; ANSWER SECTION:" { st = St::Sec; out.push("S1".into()); continue; }
        if line == ";; AUTHORITY SECTION:" { st = St::Sec; out.push("S2".into()); continue; }
        if line == ";; ADDITIONAL SECTION:" { st = St::Sec; out.push("S3".into()); continue; }
        if line.is_empty() { continue; }
        match st {
            St::Opt => {
                if !seen_edns && line.starts_with("; EDNS:") { seen_edns = true; }
                else if line.starts_with("; ERROR: bad option") { opt.push('0'); }
                // lines of displayed options are not counted: option data may print raw line breaks
            }
            St::Q => { if line == "; <invalid message>" { out.push("!".into()); } else { out.push("q".into()); } }
            St::Sec => {
                if line == "; <invalid message>" { out.push("!".into()); }
                else if line.starts_with("; ") && line.ends_with("<invalid data>") { out.push("r0".into()); }
                // lines of displayed records are not counted: record data may print raw line breaks
            }
            St::None => {}
        }
    }
    if st == St::Opt { out.push(opt); }
    if out.is_empty() { "-".to_string() } else { out.join(" ") }
}

fn obs_ops_n(bytes: &[u8], ops: &str) -> (String, usize) {
    let b2 = bytes.to_vec();
    let ops = ops.to_string();
    catch(move || {
        let msg = match Message::from_slice(&b2) { Ok(m) => m, Err(_) => return ("short".to_string(), 0) };
        let mut st: Vec<Obj> = vec![];
        let mut out: Vec<String> = vec![];
        let push_q = |q: &Question<ParsedName<&[u8]>>| q_obs(q);
        for o in ops.split(',') {
            let (c, arg) = o.split_at(1);
            let i: usize = arg.parse().unwrap_or(0);
            let r = match c {
                "Q" => { let q = msg.question(); st.push(Obj::Q(q)); format!("@{}", q.pos()) }
                "A" => match msg.answer() { Ok(s) => { st.push(Obj::R(s)); format!("@{}", s.pos()) } Err(e) => format!("E{}", err_word(&e)) },
                "U" => match msg.authority() { Ok(s) => { st.push(Obj::R(s)); format!("@{}", s.pos()) } Err(e) => format!("E{}", err_word(&e)) },
                "D" => match msg.additional() { Ok(s) => { st.push(Obj::R(s)); format!("@{}", s.pos()) } Err(e) => format!("E{}", err_word(&e)) },
                "n" => match st.get_mut(i) {
                    Some(Obj::Q(q)) => match q.next() {
                        None => "end".to_string(),
                        Some(Err(e)) => format!("E{}", err_word(&e)),
                        Some(Ok(x)) => format!("{}>{}", push_q(&x), q.pos()),
                    },
                    _ => "none".to_string(),
                },
                "a" => match st.get(i).copied() {
                    Some(Obj::Q(q)) => match q.answer() { Ok(s) => { st.push(Obj::R(s)); format!("@{}", s.pos()) } Err(e) => format!("E{}", err_word(&e)) },
                    _ => "none".to_string(),
                },
                "r" => match st.get_mut(i) {
                    Some(Obj::R(s)) => match s.next() {
                        None => "end".to_string(),
                        Some(Err(e)) => format!("E{}", err_word(&e)),
                        Some(Ok(x)) => format!("r({} {} {} {} {})>{}", name_obs(&x.owner()), x.rtype().to_int(), x.class().to_int(), x.ttl().as_secs(), x.rdlen(), s.pos()),
                    },
                    _ => "none".to_string(),
                },
                "s" => match st.get(i).copied() {
                    Some(Obj::R(s)) => match s.next_section() {
                        Ok(Some(n)) => { st.push(Obj::R(n)); format!("@{}", n.pos()) }
                        Ok(None) => "end".to_string(),
                        Err(e) => format!("E{}", err_word(&e)),
                    },
                    _ => "none".to_string(),
                },
                "f" => match msg.first_question() { Some(q) => q_obs(&q), None => "noq".to_string() },
                "o" => match msg.sole_question() { Ok(q) => q_obs(&q), Err(e) => format!("E{}", err_word(&e)) },
                "e" => format!("b{}", msg.is_answer(msg) as u8),
                "c" => match msg.canonical_name() { Some(n) => format!("n:{}", name_obs(&n)), None => "n:none".to_string() },
                "S" => match msg.sections() { Ok((q, a, n, r)) => format!("s {} {} {} {}", q.pos(), a.pos(), n.pos(), r.pos()), Err(e) => format!("E{}", err_word(&e)) },
                "C" => { let c = msg.header_counts(); format!("c {} {} {} {}", c.qdcount(), c.ancount(), c.nscount(), c.arcount()) }
                "l" => { let s = obs_islice(&b2, i); format!("l:{}", s.strip_prefix("Ok ").unwrap_or(&s)) }
                "t" => {
                    let mut v = vec![];
                    for item in msg.iter() {
                        if let Ok((r, _)) = item {
                            if IRREGULAR.contains(&r.rtype().to_int()) { v.push("-".to_string()); continue; }
                            match r.to_any_record::<AllRecordData<_, _>>() { Ok(_) => v.push("ok".to_string()), Err(e) => v.push(typed_word(&e).to_string()) }
                        }
                        if v.len() > 200_000 { break; }
                    }
                    format!("t:{}", if v.is_empty() { "-".to_string() } else { v.join(",") })
                }
                "O" => match msg.opt() {
                    None => "o:none".to_string(),
                    Some(o) => {
                        let mut v = vec![];
                        for x in o.opt().iter::<AllOptData<_, _>>() { match x { Ok(_) => v.push("ok".to_string()), Err(_) => v.push("e".to_string()) } if v.len() > 70_000 { break; } }
                        format!("o:{}", if v.is_empty() { "-".to_string() } else { v.join(",") })
                    }
                },
                "L" => {
                    let mut it = arg.split('_');
                    let i: usize = it.next().and_then(|x| x.parse().ok()).unwrap_or(0);
                    let code: u32 = it.next().and_then(|x| x.parse().ok()).unwrap_or(0);
                    match st.get(i).copied() {
                        Some(Obj::R(sec)) => {
                            macro_rules! cnt { ($it:expr) => {{ let mut ok = 0u32; let mut err = 0u32; for x in $it { match x { Ok(_) => ok += 1, Err(_) => err += 1 } if ok + err > 200_000 { break; } } format!("n {} {}", ok, err) }}; }
                            match code {
                                0 => cnt!(sec.limit_to::<AllRecordData<_, _>>()),
                                65537 => cnt!(sec.limit_to_in::<AllRecordData<_, _>>()),
                                65536 => cnt!(sec.limit_to::<ZoneRecordData<_, _>>()),
                                1 => cnt!(sec.limit_to::<A>()),
                                5 => cnt!(sec.limit_to::<Cname<_>>()),
                                6 => cnt!(sec.limit_to::<Soa<_>>()),
                                15 => cnt!(sec.limit_to::<Mx<_>>()),
                                41 => cnt!(sec.limit_to::<Opt<_>>()),
                                _ => "badcode".to_string(),
                            }
                        }
                        _ => "none".to_string(),
                    }
                }
                "K" => {
                    let target = MessageBuilder::new_vec().question();
                    match msg.copy_records(target.answer(), |rr| rr.into_record::<UnknownRecordData<_>>().ok().flatten()) {
                        Ok(b) => { let m2 = b.into_message(); let c = m2.header_counts(); format!("k:{}/{}/{}", c.ancount(), c.nscount(), c.arcount()) }
                        Err(domain::base::message::CopyRecordsError::Parse(e)) => format!("k:E{}", err_word(&e)),
                        Err(_) => "k:push".to_string(),
                    }
                }
                "G" => match msg.get_last_additional::<AllRecordData<_, _>>() { Some(r) => format!("g:{}", r.rtype().to_int()), None => "g:none".to_string() },
                "V" => {
                    let mut v = vec![];
                    for item in msg.iter() {
                        if let Ok((r, _)) = item {
                            let t = r.rtype().to_int();
                            if ![16u16, 47, 50, 64, 65].contains(&t) { v.push("-".to_string()); continue; }
                            match r.to_any_record::<AllRecordData<_, _>>() {
                                Err(_) => v.push("e".to_string()),
                                Ok(rec) => v.push(match rec.data() {
                                    AllRecordData::Nsec(n) => format!("B{}/{}", n.types().iter().map(|x| x.to_int().to_string()).collect::<Vec<_>>().join("."),
                                        [1u16, 2, 46, 47, 256, 65535].iter().map(|t| if n.types().contains(Rtype::from_int(*t)) { "1" } else { "0" }).collect::<String>()),
                                    AllRecordData::Nsec3(n) => format!("B{}/{}", n.types().iter().map(|x| x.to_int().to_string()).collect::<Vec<_>>().join("."),
                                        [1u16, 2, 46, 47, 256, 65535].iter().map(|t| if n.types().contains(Rtype::from_int(*t)) { "1" } else { "0" }).collect::<String>()),
                                    AllRecordData::Svcb(x) => format!("S{}", svc_obs(x.params())),
                                    AllRecordData::Https(x) => format!("S{}", svc_obs(x.params())),
                                    AllRecordData::Txt(x) => format!("T{}", x.iter().map(|c| hex(c)).collect::<Vec<_>>().join(".")),
                                    _ => "?".to_string(),
                                }),
                            }
                        }
                        if v.len() > 200_000 { break; }
                    }
                    format!("v:{}", if v.is_empty() { "-".to_string() } else { v.join(" ") })
                }
                "P" => format!("p:{}", dig_skeleton(&format!("{}", msg.for_slice_ref().display_dig_style()))),
                _ => "badop".to_string(),
            };
            out.push(r);
        }
        (out.join(" ; "), st.len())
    }).unwrap_or_else(|_| ("Panic".into(), 0))
}

fn obs_ops(bytes: &[u8], ops: &str) -> String { obs_ops_n(bytes, ops).0 }

/// The same calls with every iterator number shifted by k (a traversal in a view that already holds k iterators).
fn shift_ops(ops: &str, k: usize) -> String {
    ops.split(',').map(|o| {
        let (c, arg) = o.split_at(1);
        match c {
            "n" | "a" | "r" | "s" => format!("{}{}", c, arg.parse::<usize>().unwrap_or(0) + k),
            "L" => { let mut it = arg.split('_'); let i: usize = it.next().and_then(|x| x.parse().ok()).unwrap_or(0); format!("L{}_{}", i + k, it.next().unwrap_or("0")) }
            _ => o.to_string(),
        }
    }).collect::<Vec<_>>().join(",")
}

fn gen_ops(r: &mut Rng) -> String {
    let n = r.range(4, 22);
    let mut live = 0u64;
    let mut v: Vec<String> = vec![];
    for k in 0..n {
        let c = if k < 2 { r.below(4) } else { r.below(30) };
        let idx = if live == 0 { 0 } else if r.chance(1, 12) { live + r.below(2) } else { r.below(live) };
        let s = match c {
            0 => { live += 1; "Q".to_string() }
            1 => { live += 1; "A".to_string() }
            2 => { live += 1; "U".to_string() }
            3 => { live += 1; "D".to_string() }
            4 | 5 | 6 => format!("n{}", idx),
            7 => { live += 1; format!("a{}", idx) }
            8 | 9 | 10 | 11 => format!("r{}", idx),
            12 | 13 => { live += 1; format!("s{}", idx) }
            14 => "f".to_string(),
            15 => "o".to_string(),
            16 => "e".to_string(),
            17 => "c".to_string(),
            18 => "S".to_string(),
            19 => "C".to_string(),
            20 => format!("l{}", r.below(40)),
            21 => "t".to_string(),
            22 => "O".to_string(),
            23 | 24 => format!("L{}_{}", idx, *r.pick(&[0u32, 65537, 65536, 1, 5, 6, 15, 41])),
            25 => "K".to_string(),
            26 => "G".to_string(),
            27 => "P".to_string(),
            _ => "V".to_string(),
        };
        v.push(s);
    }
    v.join(",")
}

// ------------------------------------------------- T2: is_answer against another message

fn obs_isans(m: &[u8], q: &[u8]) -> String {
    let (m2, q2) = (m.to_vec(), q.to_vec());
    catch(move || {
        match (Message::from_slice(&m2), Message::from_slice(&q2)) {
            (Ok(a), Ok(b)) => format!("{}", a.is_answer(b) as u8),
            _ => "short".to_string(),
        }
    }).unwrap_or_else(|_| "Panic".into())
}

/// A message related to `m`: the same question with the id / QR / QDCOUNT / letter case / a label changed.
fn related_query(r: &mut Rng, m: &[u8]) -> Vec<u8> {
    let mut q = m.to_vec();
    if q.len() < 12 { return q; }
    for _ in 0..1 + r.below(2) {
        match r.below(7) {
            0 => { q[r.below(2) as usize] ^= 1 << r.below(8); }
            1 => { q[2] ^= 0x80; }
            2 => { q[5] = q[5].wrapping_add(1); }
            3 | 4 => { for i in 12..q.len().min(80) { if q[i].is_ascii_alphabetic() && r.chance(1, 3) { q[i] ^= 0x20; } } }
            5 => { if q.len() > 14 { let i = 13 + r.below((q.len() - 13).min(40) as u64) as usize; q[i] = q[i].wrapping_add(1); } }
            _ => { q.truncate(12 + r.below((q.len() - 11) as u64) as usize); }
        }
    }
    q
}

// ------------------------------------------------- T2: XFR first-message dispatch

fn obs_xfr1(bytes: &[u8]) -> String {
    let b2 = bytes.to_vec();
    catch(move || {
        let msg = match Message::from_octets(Bytes::from(b2.clone())) { Ok(m) => m, Err(_) => return "short".to_string() };
        // the model does not decide first records of a type without schema row
        let undecided = {
            let h = msg.header(); let c = msg.header_counts();
            let pre = !msg.is_error() && h.qr() && h.opcode() == domain::base::iana::Opcode::QUERY && !h.tc() && c.ancount() != 0 && c.nscount() == 0 && c.qdcount() == 1;
            pre && matches!(msg.qtype(), Some(Rtype::AXFR) | Some(Rtype::IXFR)) && match msg.answer() {
                Ok(mut a) => match a.next() { Some(Ok(r)) => ([] as [u16; 0]).contains(&r.rtype().to_int()), _ => false },
                Err(_) => false,
            }
        };
        if undecided { return "?".to_string(); }
        let mut interp = XfrResponseInterpreter::new();
        let r = match interp.interpret_response(msg) {
            Ok(_) => "Ok".to_string(),
            Err(domain::net::xfr::protocol::Error::NotValidXfrResponse) => "10".to_string(),
            Err(domain::net::xfr::protocol::Error::ParseError(_)) => "11".to_string(),
            Err(domain::net::xfr::protocol::Error::Malformed) => "12".to_string(),
            Err(_) => "other".to_string(),
        };
        r
    }).unwrap_or_else(|_| "Panic".into())
}

// ------------------------------------------------- T2: message framing transcript

/// Framing transcript of a message (what the Coq `read_all` computes):
/// counts; questions; per record section the records (owner start/len, type,
/// class, ttl, rdlen, data position) until the first error, then what the
/// fused iterator returns; sections(); first/sole question; canonical name;
/// opt and its options; is_answer with itself.
fn name_obs(n: &ParsedName<&[u8]>) -> String {
    let (ls, root) = labels_str(n.iter());
    format!("{}/{}/{}/{}", n.compose_len(), n.is_compressed() as u8, ls, root as u8)
}

fn q_obs(q: &Question<ParsedName<&[u8]>>) -> String {
    format!("q({} {} {})", name_obs(q.qname()), q.qtype().to_int(), q.qclass().to_int())
}

fn section_obs(t: &mut String, mut sec: RecordSection<'_, [u8]>) {
    let mut k = 0;
    loop {
        let before = sec.pos();
        match sec.next() {
            None => { t.push_str(" end"); break; }
            Some(Ok(r)) => {
                let _ = write!(t, " r({} {} {} {} {} @{}>{})", name_obs(&r.owner()), r.rtype().to_int(), r.class().to_int(),
                               r.ttl().as_secs(), r.rdlen(), before, sec.pos());
            }
            Some(Err(e)) => {
                let _ = write!(t, " E{}", err_word(&e));
                // the fuse: every later call yields None
                let fused = sec.next().is_none() && sec.next().is_none();
                let _ = write!(t, " fused{}", fused as u8);
                break;
            }
        }
        k += 1;
        if k > 70_000 { t.push_str(" TOO-MANY"); break; }
    }
}

fn obs_msg(bytes: &[u8]) -> String {
    let b2 = bytes.to_vec();
    catch(move || {
        let mut t = String::new();
        let msg = match Message::from_slice(&b2) { Ok(m) => m, Err(_) => return "short".to_string() };
        let c = msg.header_counts();
        let _ = write!(t, "c {} {} {} {} |", c.qdcount(), c.ancount(), c.nscount(), c.arcount());
        // questions
        let mut qs = msg.question();
        loop {
            match qs.next() {
                None => { t.push_str(" end"); break; }
                Some(Ok(q)) => { let _ = write!(t, " {}>{}", q_obs(&q), qs.pos()); }
                Some(Err(e)) => {
                    let fused = qs.next().is_none() && qs.next().is_none();
                    let _ = write!(t, " E{} fused{}", err_word(&e), fused as u8);
                    break;
                }
            }
        }
        // sections
        t.push_str(" | an");
        match msg.answer() { Ok(s) => { let _ = write!(t, "@{}", s.pos()); section_obs(&mut t, s) } Err(e) => { let _ = write!(t, " X{}", err_word(&e)); } }
        t.push_str(" | ns");
        match msg.authority() { Ok(s) => { let _ = write!(t, "@{}", s.pos()); section_obs(&mut t, s) } Err(e) => { let _ = write!(t, " X{}", err_word(&e)); } }
        t.push_str(" | ar");
        match msg.additional() { Ok(s) => { let _ = write!(t, "@{}", s.pos()); section_obs(&mut t, s) } Err(e) => { let _ = write!(t, " X{}", err_word(&e)); } }
        t.push_str(" | secs ");
        match msg.sections() {
            Ok((q, a, n, r)) => { let _ = write!(t, "{} {} {} {}", q.pos(), a.pos(), n.pos(), r.pos()); }
            Err(e) => { let _ = write!(t, "X{}", err_word(&e)); }
        }
        t.push_str(" | fq ");
        match msg.first_question() { Some(q) => t.push_str(&q_obs(&q)), None => t.push_str("none") }
        t.push_str(" | sq ");
        match msg.sole_question() { Ok(q) => t.push_str(&q_obs(&q)), Err(e) => { let _ = write!(t, "X{}", err_word(&e)); } }
        let _ = write!(t, " | self {}", msg.is_answer(msg) as u8);
        t.push_str(" | iter");
        let mut k = 0;
        for item in msg.iter() {
            match item {
                Ok((r, s)) => { let _ = write!(t, " {}:{}", s as u8, r.rtype().to_int()); }
                Err(e) => { let _ = write!(t, " E{}", err_word(&e)); }
            }
            k += 1;
            if k > 200_000 { t.push_str(" TOO-MANY"); break; }
        }
        t.push_str(" | cn ");
        match msg.canonical_name() { Some(n) => t.push_str(&name_obs(&n)), None => t.push_str("none") }
        t.push_str(" | opt ");
        match msg.opt() {
            None => t.push_str("none"),
            Some(o) => {
                let _ = write!(t, "{} {} {}", o.udp_payload_size(), o.version(), o.dnssec_ok() as u8);
                for x in o.opt().iter::<UnknownOptData<_>>() {
                    match x { Ok(x) => { let _ = write!(t, " {}:{}", x.code().to_int(), hex(x.as_slice())); } Err(e) => { let _ = write!(t, " E{}", err_word(&e)); } }
                }
            }
        }
        t.push_str(" | sl ");
        let sl = obs_islice(&b2, 12);
        t.push_str(sl.strip_prefix("Ok ").unwrap_or(&sl));
        t
    }).unwrap_or_else(|_| "Panic".into())
}

// ------------------------------------------------------------------ the oracle

struct Tr {
    s: String,
    bad: Vec<(String, String)>,
    types: Vec<u16>,
    base: usize,
    len: usize,
}

impl Tr {
    fn within(&mut self, sl: &[u8], what: &str) {
        let a = sl.as_ptr() as usize;
        if a < self.base || a + sl.len() > self.base + self.len {
            self.bad.push(("overrun".to_string(), format!("{} slice outside the message", what)));
        }
    }
}

fn guarded<T>(t: &mut Tr, ph: &'static str, f: impl FnOnce() -> T) -> Option<T> {
    phase(ph);
    match catch_mut(f) {
        Ok(v) => Some(v),
        Err(e) => { t.bad.push((format!("panic_{}", last_site()), e)); None }
    }
}

fn hash_of<T: Hash>(x: &T) -> u64 {
    let mut h = DefaultHasher::new();
    x.hash(&mut h);
    h.finish()
}

fn ex_name(t: &mut Tr, n: &ParsedName<&[u8]>) {
    phase("name");
    let disp = format!("{}", n);
    let dbg = format!("{:?}", n);
    let labels: Vec<&Label> = n.iter().collect();
    let mut sum = 0usize;
    for (i, l) in labels.iter().enumerate() {
        sum += l.len() + 1;
        t.within(l.as_slice(), "label");
        if l.len() > 63 { t.bad.push(("invalid_name".to_string(), format!("label of {} octets", l.len()))); }
        if l.is_root() != (i + 1 == labels.len()) { t.bad.push(("invalid_name".to_string(), "root label not exactly at the end".into())); }
        let _ = write!(t.s, "{}", l);
        let _ = hash_of(l);
        let _ = (*l).cmp(labels[0]);
    }
    if labels.is_empty() { t.bad.push(("invalid_name".to_string(), "no labels".into())); }
    if sum != n.compose_len() as usize || sum > 255 {
        t.bad.push(("invalid_name".to_string(), format!("labels sum to {} but compose_len is {}", sum, n.compose_len())));
    }
    let mut back: Vec<&Label> = n.iter().rev().collect();
    back.reverse();
    if back.len() != labels.len() || back.iter().zip(labels.iter()).any(|(a, b)| a.as_slice() != b.as_slice()) {
        t.bad.push(("invalid_name".to_string(), "reverse iteration differs from forward iteration".into()));
    }
    let lc = n.label_count();
    let first = n.first().len();
    let _ = n.last();
    let mut nsuf = 0;
    for s in n.iter_suffixes() { nsuf += 1; let _ = write!(t.s, "{}", s); if nsuf > 200 { break; } }
    if nsuf != labels.len() { t.bad.push(("invalid_name".to_string(), format!("{} suffixes for {} labels", nsuf, labels.len()))); }
    let h = hash_of(n);
    let eq = n == n;
    let c = n.cmp(n);
    let cc = n.canonical_cmp(n);
    let v = n.to_vec();
    if v.as_slice().len() != n.compose_len() as usize { t.bad.push(("invalid_name".to_string(), "flattened length differs from compose_len".into())); }
    let eqv = n.name_eq(&v);
    let cv = n.name_cmp(&v);
    let canon = n.to_canonical_name::<Vec<u8>>();
    let sw = n.starts_with(n) && n.ends_with(n);
    if !eq || !eqv || c != std::cmp::Ordering::Equal || cv != std::cmp::Ordering::Equal || cc != std::cmp::Ordering::Equal || !sw {
        t.bad.push(("invalid_name".to_string(), "name is not equal to itself / its flat copy".into()));
    }
    if let Some(f) = n.as_flat_slice() { t.within(f, "flat name"); }
    let mut a = *n;
    let mut k = 0;
    while let Some(rel) = a.split_first() { k += 1; let _ = rel.len(); if k > 200 { break; } }
    let mut b = *n;
    let mut k2 = 0;
    while b.parent() { k2 += 1; if k2 > 200 { break; } }
    let _ = write!(t.s, "[n {} {} {} {} {} {} {:x} {} {} {} {}]", disp, dbg.len(), n.compose_len(), n.is_compressed(), lc, first, h,
                   canon.len(), k, k2, n.is_root());
}

fn ex_record(t: &mut Tr, r: ParsedRecord<'_, [u8]>, prev: &mut Option<u64>) {
    ex_name(t, &r.owner());
    phase("record");
    let _ = write!(t.s, "(rr {} {} {} {}", r.rtype(), r.class(), r.ttl().as_secs(), r.rdlen());
    let _ = &r == &r;
    phase("record_parse");
    match r.to_any_record::<AllRecordData<_, _>>() {
        Ok(rec) => {
            if !matches!(rec.data(), AllRecordData::Unknown(_)) { t.types.push(rec.rtype().to_int()); }
            let z = guarded(t, "record_display", || format!("{}", rec.display_zonefile(DisplayKind::Simple))).unwrap_or_default();
            let zt = guarded(t, "record_display", || format!("{}", rec.display_zonefile(DisplayKind::Tabbed))).unwrap_or_default();
            let zm = guarded(t, "record_display", || format!("{}", rec.display_zonefile(DisplayKind::Multiline))).unwrap_or_default();
            let d = guarded(t, "record_display", || format!("{} {}", rec, rec.data())).unwrap_or_default();
            let g = guarded(t, "record_debug", || format!("{:?}", rec)).unwrap_or_default();
            let h = guarded(t, "record_hash", || hash_of(&rec)).unwrap_or(0);
            let eq = guarded(t, "record_eq", || rec == rec).unwrap_or(true);
            let c = guarded(t, "record_cmp", || rec.cmp(&rec)).unwrap_or(std::cmp::Ordering::Equal);
            let cc = guarded(t, "record_canonical_cmp", || rec.canonical_cmp(&rec)).unwrap_or(std::cmp::Ordering::Equal);
            let _ = write!(t.s, " any[{} {} {} {} {} {:x} {} {:?} {:?}]", z, zt.len(), zm.len(), d.len(), g.len(), h, eq, c, cc);
            *prev = Some(h);
            let sub = guarded(t, "rdata_sub", || match rec.data() {
                AllRecordData::Nsec(n) => format!("nsec {} {} {}", n.types().iter().count(), n.types().contains(Rtype::A), n.types().iter().map(|x| x.to_int() as u32).sum::<u32>()),
                AllRecordData::Nsec3(n) => format!("nsec3 {} {} {} {}", n.types().iter().count(), n.salt(), n.next_owner(), n.types().contains(Rtype::NS)),
                AllRecordData::Svcb(x) => format!("svcb {} {} {}", x.params().iter_all().map(|v| match v { Ok(v) => format!("{}", v), Err(e) => format!("E{}", e) }).collect::<Vec<_>>().join(" "), x.params().iter_raw().count(), x.params()),
                AllRecordData::Https(x) => format!("https {} {} {}", x.params().iter_all().map(|v| match v { Ok(v) => format!("{}", v), Err(e) => format!("E{}", e) }).collect::<Vec<_>>().join(" "), x.params().iter_raw().count(), x.params()),
                AllRecordData::Txt(x) => format!("txt {} {} {}", x.iter().count(), x.iter_charstrs().map(|c| c.len()).sum::<usize>(), x.len()),
                AllRecordData::Ipseckey(x) => format!("ipseckey {} {:?}", x.gateway(), x.gateway()),
                _ => String::new(),
            }).unwrap_or_default();
            let _ = write!(t.s, " sub[{}]", sub);
        }
        Err(e) => { let _ = write!(t.s, " anyE[{}]", e); }
    }
    phase("record_parse");
    match r.to_record::<ZoneRecordData<_, _>>() {
        Ok(Some(rec)) => {
            let z = guarded(t, "record_display", || format!("{}", rec.display_zonefile(DisplayKind::Simple))).unwrap_or_default();
            let h = guarded(t, "record_hash", || hash_of(&rec)).unwrap_or(0);
            let _ = write!(t.s, " zone[{} {:x}]", z, h);
        }
        Ok(None) => t.s.push_str(" zoneNone"),
        Err(e) => { let _ = write!(t.s, " zoneE[{}]", e); }
    }
    phase("record_parse");
    match r.to_record::<UnknownRecordData<_>>() {
        Ok(Some(rec)) => { let _ = write!(t.s, " unk[{}]", rec.display_zonefile(DisplayKind::Simple)); t.within(rec.data().data(), "rdata"); }
        Ok(None) => t.s.push_str(" unkNone"),
        Err(e) => { let _ = write!(t.s, " unkE[{}]", e); }
    }
    match r.into_any_record::<AllRecordData<_, _>>() {
        Ok(rec) => { let _ = write!(t.s, " into[{}]", rec.data().rtype()); }
        Err(e) => { let _ = write!(t.s, " intoE[{}]", e); }
    }
    t.s.push(')');
}

fn ex_section(t: &mut Tr, sec: RecordSection<'_, [u8]>) {
    let mut prev = None;
    let mut n = 0;
    let mut it = sec;
    loop {
        match it.next() {
            None => break,
            Some(Ok(r)) => ex_record(t, r, &mut prev),
            Some(Err(e)) => { let _ = write!(t.s, " secE[{}]", e); }
        }
        n += 1;
        if n > 70_000 { t.bad.push(("hang".to_string(), "record iterator yields more than 65535 items".into())); break; }
    }
    macro_rules! typed {
        ($name:expr, $iter:expr) => {{
            phase("typed_iter");
            let mut ok = 0; let mut err = 0; let mut k = 0;
            for item in $iter {
                match item { Ok(rec) => { ok += 1; let _ = write!(t.s, "{}", rec.display_zonefile(DisplayKind::Simple)); } Err(_) => err += 1 }
                k += 1; if k > 70_000 { t.bad.push(("hang".to_string(), format!("{} iterator yields more than 65535 items", $name))); break; }
            }
            let _ = write!(t.s, " {}:{}/{}", $name, ok, err);
        }};
    }
    typed!("all", sec.limit_to::<AllRecordData<_, _>>());
    typed!("allin", sec.limit_to_in::<AllRecordData<_, _>>());
    typed!("zone", sec.limit_to::<ZoneRecordData<_, _>>());
    typed!("any", sec.into_records::<AllRecordData<_, _>>());
    typed!("cname", sec.limit_to::<Cname<_>>());
    typed!("soa", sec.limit_to::<Soa<_>>());
    typed!("a", sec.limit_to::<A>());
    typed!("opt", sec.limit_to::<Opt<_>>());
    typed!("unk", sec.limit_to::<UnknownRecordData<_>>());
    match sec.next_section() {
        Ok(Some(s)) => { let _ = write!(t.s, " next@{}", s.pos()); }
        Ok(None) => t.s.push_str(" nextNone"),
        Err(e) => { let _ = write!(t.s, " nextE[{}]", e); }
    }
}

/// Everything the property lists, in a fixed order.  Returns the transcript and
/// the invariant violations noticed on the way.
fn read_all(bytes: &[u8], query: &[u8]) -> (String, Vec<(String, String)>, Vec<u16>) {
    let mut t = Tr { s: String::new(), bad: vec![], types: vec![], base: bytes.as_ptr() as usize, len: bytes.len() };
    let msg = match Message::from_slice(bytes) {
        Ok(m) => m,
        Err(e) => { let _ = write!(t.s, "short[{}]", e); let _ = Message::from_octets(bytes).is_err(); return (t.s, t.bad, t.types); }
    };
    phase("header");
    let h = msg.header();
    let c = msg.header_counts();
    let _ = write!(t.s, "hdr {} {} {} {} {} {} {} {} {} {} {} {} | {} {} {} {} | {:?} {:?} {} {}", h.id(), h.qr(), h.opcode(), h.aa(), h.tc(), h.rd(), h.ra(),
                   h.z(), h.ad(), h.cd(), h.rcode(), h.flags(), c.qdcount(), c.ancount(), c.nscount(), c.arcount(),
                   msg.header_section().header().id(), msg, msg.no_error(), msg.is_error());
    phase("question"); t.s.push_str(" Q:");
    let mut n = 0;
    for q in msg.question() {
        match q {
            Ok(q) => { ex_name(&mut t, q.qname()); let _ = write!(t.s, "(q {} {} {} {:x} {})", q, q.qtype(), q.qclass(), hash_of(&q), q == q); }
            Err(e) => { let _ = write!(t.s, " qE[{}]", e); }
        }
        n += 1; if n > 70_000 { t.bad.push(("hang".to_string(), "question iterator yields more than 65535 items".into())); break; }
    }
    let _ = write!(t.s, " qeq {}", msg.question() == msg.question());
    phase("sections");
    match msg.sections() {
        Ok((q, a, ns, ar)) => { let _ = write!(t.s, " secs {} {} {} {}", q.pos(), a.pos(), ns.pos(), ar.pos()); }
        Err(e) => { let _ = write!(t.s, " secsE[{}]", e); }
    }
    t.s.push_str(" AN:");
    match msg.answer() { Ok(s) => ex_section(&mut t, s), Err(e) => { let _ = write!(t.s, "E[{}]", e); } }
    t.s.push_str(" NS:");
    match msg.authority() { Ok(s) => ex_section(&mut t, s), Err(e) => { let _ = write!(t.s, "E[{}]", e); } }
    t.s.push_str(" AR:");
    match msg.additional() { Ok(s) => ex_section(&mut t, s), Err(e) => { let _ = write!(t.s, "E[{}]", e); } }
    phase("message_iter"); t.s.push_str(" IT:");
    let mut n = 0;
    for item in msg.iter() {
        match item {
            Ok((r, s)) => { let _ = write!(t.s, " {:?}:{}", s, r.rtype()); }
            Err(e) => { let _ = write!(t.s, " E[{}]", e); }
        }
        n += 1; if n > 200_000 { t.bad.push(("hang".to_string(), "message iterator yields more than 196605 items".into())); break; }
    }
    phase("opt"); t.s.push_str(" OPT:");
    match msg.opt() {
        Some(o) => {
            let _ = write!(t.s, "{} {} {} {} {:?}", o.udp_payload_size(), o.version(), o.dnssec_ok(), o.rcode(h), o);
            let opts: Vec<_> = { let mut v = vec![]; for x in o.opt().iter::<AllOptData<_, _>>() { v.push(x); if v.len() > 70_000 { t.bad.push(("hang".to_string(), "option iterator yields more than 65535 items".into())); break; } } v };
            for opt in opts.iter() {
                match opt {
                    Err(e) => { let _ = write!(t.s, " optE[{}]", e); }
                    Ok(x) => {
                        use AllOptData::*;
                        let (ph, txt): (&'static str, Option<String>) = match x {
                            Nsid(v) => ("opt_nsid", guarded(&mut t, "opt_nsid", || format!("{} {:?} {}", v, v, v.as_slice().len()))),
                            Dau(v) => ("opt_dau", guarded(&mut t, "opt_dau", || format!("{} {:?} {}", v, v, v.iter().count()))),
                            Dhu(v) => ("opt_dhu", guarded(&mut t, "opt_dhu", || format!("{} {:?} {}", v, v, v.iter().count()))),
                            N3u(v) => ("opt_n3u", guarded(&mut t, "opt_n3u", || format!("{} {:?} {}", v, v, v.iter().count()))),
                            Expire(v) => ("opt_expire", guarded(&mut t, "opt_expire", || format!("{} {:?}", v, v))),
                            TcpKeepalive(v) => ("opt_keepalive", guarded(&mut t, "opt_keepalive", || format!("{} {:?}", v, v))),
                            Padding(v) => ("opt_padding", guarded(&mut t, "opt_padding", || format!("{} {:?}", v, v))),
                            ClientSubnet(v) => ("opt_subnet", guarded(&mut t, "opt_subnet", || format!("{} {:?} {} {} {}", v, v, v.source_prefix_len(), v.scope_prefix_len(), v.addr()))),
                            Cookie(v) => ("opt_cookie", guarded(&mut t, "opt_cookie", || format!("{} {:?}", v, v))),
                            Chain(v) => ("opt_chain", guarded(&mut t, "opt_chain", || format!("{} {:?}", v, v))),
                            KeyTag(v) => ("opt_keytag", guarded(&mut t, "opt_keytag", || format!("{} {:?} {}", v, v, v.iter().count()))),
                            ExtendedError(v) => ("opt_exterr", guarded(&mut t, "opt_exterr", || format!("{} {:?} {} {:?}", v, v, v.code(), v.text().map(|x| x.is_ok())))),
                            Other(v) => { t.within(v.as_slice(), "option data"); ("opt_other", guarded(&mut t, "opt_other", || format!("{} {} {:?}", v.code(), v, v))) }
                            _ => ("opt_unknown_variant", None),
                        };
                        let _ = write!(t.s, " {}[{}]", ph, txt.unwrap_or_default());
                    }
                }
            }
            phase("opt");
            // the typed accessors
            {
                let od = o.opt();
                let a = guarded(&mut t, "opt_nsid", || format!("{:?}", od.nsid()));
                let b = guarded(&mut t, "opt_dau", || format!("{:?} {:?} {:?}", od.dau(), od.dhu(), od.n3u()));
                let c = guarded(&mut t, "opt_expire", || format!("{:?}", od.expire()));
                let d = guarded(&mut t, "opt_keepalive", || format!("{:?}", od.tcp_keepalive()));
                let e = guarded(&mut t, "opt_subnet", || format!("{:?}", od.client_subnet()));
                let f = guarded(&mut t, "opt_cookie", || format!("{:?}", od.cookie()));
                let g = guarded(&mut t, "opt_chain", || format!("{:?}", od.chain()));
                let h = guarded(&mut t, "opt_keytag", || format!("{:?}", od.key_tag()));
                let i = guarded(&mut t, "opt_exterr", || format!("{:?}", od.extended_error()));
                let _ = write!(t.s, " acc[{:?} {:?} {:?} {:?} {:?} {:?} {:?} {:?} {:?}]", a, b, c, d, e, f, g, h, i);
            }
            phase("opt");
            let _ = write!(t.s, " {} {:x}", o.opt(), hash_of(o.opt()));
        }
        None => t.s.push_str("none"),
    }
    let _ = write!(t.s, " rcode {}", msg.opt_rcode());
    t.s.push_str(" CN:");
    phase("canonical_name");
    let cn = msg.canonical_name();
    match cn { Some(n) => ex_name(&mut t, &n), None => t.s.push_str("none") }
    phase("first_question"); t.s.push_str(" FQ:");
    match msg.first_question() { Some(q) => { ex_name(&mut t, q.qname()); let _ = write!(t.s, "{}", q); } None => t.s.push_str("none") }
    phase("question_misc");
    match msg.sole_question() { Ok(q) => { let _ = write!(t.s, " SQ:{}", q); } Err(e) => { let _ = write!(t.s, " SQ:E[{}]", e); } }
    let _ = write!(t.s, " qtype {:?} xfr {} hasA {} hasCname {}", msg.qtype(), msg.is_xfr(), msg.contains_answer::<A>(), msg.contains_answer::<Cname<_>>());
    match msg.get_last_additional::<AllRecordData<_, _>>() {
        Some(r) => { let _ = write!(t.s, " last[{}]", r.display_zonefile(DisplayKind::Simple)); }
        None => t.s.push_str(" lastNone"),
    }
    let _ = write!(t.s, " self {}", msg.is_answer(msg));
    if let Ok(q) = Message::from_slice(query) {
        let _ = write!(t.s, " ans {} {}", msg.is_answer(q), q.is_answer(msg));
    }
    phase("copy_records");
    // copy through the builder
    {
        let target = MessageBuilder::new_vec().question();
        let res = msg.copy_records(target.answer(), |rr| rr.into_record::<AllRecordData<_, ParsedName<_>>>().ok().flatten());
        match res {
            Ok(b) => { let m2 = b.into_message(); let _ = write!(t.s, " copy {}", m2.as_slice().len()); }
            Err(e) => { let _ = write!(t.s, " copyE[{}]", e); }
        }
    }
    phase("dig");
    let dig = format!("{}", msg.for_slice_ref().display_dig_style());
    let _ = write!(t.s, " DIG[{}]", dig);
    // slice label iterator at the start of every name we know of
    phase("slice_iter");
    t.s.push_str(" SL:");
    let mut starts = vec![12usize];
    if let Ok(a) = msg.answer() { starts.push(a.pos()); }
    for st in starts {
        let mut k = 0;
        for l in Label::iter_slice(bytes, st) {
            t.within(l.as_slice(), "slice label");
            let _ = write!(t.s, "{}.", l);
            k += 1; if k > 5_000_000 { t.bad.push(("hang".to_string(), "slice label iterator is endless".into())); break; }
        }
        t.s.push('/');
    }
    (t.s, t.bad, t.types)
}


// ------------------------------------------------- every way of creating the view

/// The cheap read-side calls on a view, whatever constructor produced it.
fn exercise_view(msg: &Message<[u8]>) -> String {
    let h = msg.header();
    let c = msg.header_counts();
    let _ = msg.header_section();
    let nq = msg.question().take(70_000).count();
    let nr = msg.iter().take(200_000).count();
    let fq = msg.first_question().is_some();
    let sq = msg.sole_question().is_ok();
    let cn = msg.canonical_name().is_some();
    let op = msg.opt().is_some();
    let ia = msg.is_answer(msg);
    let dig = format!("{}", msg.for_slice_ref().display_dig_style());
    format!("{} {} {} {} {} {} {} {} {} {} {}", h.id(), c.qdcount(), c.arcount(), nq, nr, fq, sq, cn, op, ia, dig.len())
}

/// Acceptance by every constructor that takes raw octets ("1" accepted / "0" refused), and the
/// constructors whose view panicked when read.
fn constructors(bytes: &[u8]) -> (String, Vec<(&'static str, String)>) {
    let mut acc = String::new();
    let mut bad: Vec<(&'static str, String)> = vec![];
    macro_rules! ctor {
        ($name:expr, $make:expr) => {{
            let b = bytes.to_vec();
            let r = catch(move || {
                let b = b;
                match $make(&b) {
                    Some(view_bytes_ok) => { let _: String = view_bytes_ok; true }
                    None => false,
                }
            });
            match r {
                Ok(true) => acc.push('1'),
                Ok(false) => acc.push('0'),
                Err(e) => { acc.push('P'); bad.push(($name, format!("{} at {}", e, last_site()))); }
            }
        }};
    }
    ctor!("from_octets_ref", |b: &Vec<u8>| Message::from_octets(&b[..]).ok().map(|m| exercise_view(m.for_slice())));
    ctor!("from_octets_vec", |b: &Vec<u8>| Message::from_octets(b.clone()).ok().map(|m| exercise_view(m.for_slice())));
    ctor!("from_octets_bytes", |b: &Vec<u8>| Message::from_octets(Bytes::from(b.clone())).ok().map(|m| exercise_view(m.for_slice())));
    ctor!("from_slice", |b: &Vec<u8>| Message::from_slice(&b[..]).ok().map(|m| exercise_view(m)));
    ctor!("try_from_octets_ref", |b: &Vec<u8>| Message::try_from_octets(&b[..]).ok().map(|m| exercise_view(m.for_slice())));
    ctor!("try_from_octets_vec", |b: &Vec<u8>| Message::try_from_octets(b.clone()).ok().map(|m| exercise_view(m.for_slice())));
    ctor!("try_from_octets_bytes", |b: &Vec<u8>| Message::try_from_octets(Bytes::from(b.clone())).ok().map(|m| exercise_view(m.for_slice())));
    (acc, bad)
}

fn oracle_msg(out: &mut Out, bytes: &[u8], query: &[u8], kind: &str) {
    {
        phase("constructor");
        let case = format!("msg {}", hex(bytes));
        out.begin(&case);
        let (_, bad) = constructors(bytes);
        if bad.is_empty() { out.check(true, "panic_view", &case, ""); }
        for (name, d) in bad.iter() { out.check(false, &format!("panic_view_{}", name), &case, d); }
    }
    let case = format!("msg {}", hex(bytes));
    out.begin(&case);
    let b1 = bytes.to_vec(); let q1 = query.to_vec();
    let r1 = catch(move || read_all(&b1, &q1));
    match r1 {
        Err(e) => {
            let site = last_site();
            out.check(false, &format!("panic_{}", site), &case, &e);
        }
        Ok((tr1, bad, types)) => {
            out.check(true, "panic", &case, "");
            for ty in types { out.count(&format!("typed_rr_{}", ty)); }
            for (cls, d) in bad.iter() { out.check(false, cls, &case, d); }
            if bad.is_empty() { out.check(true, "invariants", &case, ""); }
            // second traversal, on a fresh copy at another address
            let b2 = bytes.to_vec(); let q2 = query.to_vec();
            match catch(move || read_all(&b2, &q2)) {
                Err(e) => out.check(false, &format!("panic_{}", last_site()), &case, &format!("second traversal: {}", e)),
                Ok((tr2, _, _)) => {
                    let same = tr1 == tr2;
                    let d = if same { String::new() } else {
                        let i = tr1.bytes().zip(tr2.bytes()).position(|(a, b)| a != b).unwrap_or(0);
                        format!("transcripts differ at {}: {:?} vs {:?}", i, &tr1[i.saturating_sub(20)..(i + 40).min(tr1.len())], &tr2[i.saturating_sub(20)..(i + 40).min(tr2.len())])
                    };
                    out.check(same, "nondeterministic", &case, &d);
                }
            }
        }
    }
    out.oracle_case(&case, bytes.len() >= 12, kind);
}

fn oracle_xfr(out: &mut Out, msgs: &[Vec<u8>]) {
    let case = format!("xfr {}", msgs.iter().map(|m| hex(m)).collect::<Vec<_>>().join(" "));
    out.begin(&case);
    let ms: Vec<Vec<u8>> = msgs.to_vec();
    let r = catch(move || {
        let mut interp = XfrResponseInterpreter::new();
        let mut n = 0usize;
        for m in ms {
            let msg = match Message::from_octets(Bytes::from(m)) { Ok(m) => m, Err(_) => continue };
            match interp.interpret_response(msg) {
                Ok(it) => { for u in it { n += 1; let _ = format!("{:?}", u.is_ok()); if n > 300_000 { return n; } } }
                Err(_) => {}
            }
            let _ = interp.is_finished();
        }
        n
    });
    match r {
        Ok(n) => { out.check(n <= 300_000, "hang", &case, "XFR update iterator is endless"); }
        Err(e) => out.check(false, "panic_xfr", &case, &format!("{} at {}", e, last_site())),
    }
    out.oracle_case(&case, true, "xfr");
}

// ------------------------------------------------------------------ generators

fn rand_label(r: &mut Rng) -> Vec<u8> {
    let n = match r.below(10) { 0 => 63, 1 => 1, 2 => r.range(30, 63), _ => r.range(1, 8) } as usize;
    (0..n).map(|_| match r.below(8) { 0 => r.u8(), 1 => b'A' + (r.below(26) as u8), _ => b'a' + (r.below(6) as u8) }).collect()
}

fn rand_name_wire(r: &mut Rng, pool: &[Vec<u8>]) -> Vec<u8> {
    // labels, possibly sharing a suffix with a pooled name so compression kicks in
    let mut w = Vec::new();
    if r.chance(1, 14) {
        // a name whose wire length is close to the 255 octet limit
        let total = r.range(248, 255) as usize;
        while w.len() + 1 < total {
            let room = total - 1 - w.len();
            let l = if room <= 64 { room - 1 } else { (r.range(20, 63) as usize).min(room - 2) };
            if l == 0 { break; }
            w.push(l as u8); w.extend((0..l).map(|_| b'a' + (r.below(26) as u8)));
        }
        w.push(0);
        return w;
    }
    let k = r.below(4);
    for _ in 0..k { let l = rand_label(r); if w.len() + l.len() + 1 > 150 { break; } w.push(l.len() as u8); w.extend_from_slice(&l); }
    if !pool.is_empty() && r.chance(2, 3) {
        let p = r.pick(pool);
        if w.len() + p.len() <= 255 { w.extend_from_slice(p); return w; }
    }
    w.push(0);
    w
}

fn name_of(w: &[u8]) -> Name<Vec<u8>> { Name::from_octets(w.to_vec()).unwrap() }

const KNOWN_TYPES: &[u16] = &[1, 2, 3, 4, 5, 6, 7, 8, 9, 10, 12, 13, 14, 15, 16, 17, 28, 33, 35, 39, 41, 43, 44, 45, 46, 47, 48, 50, 51, 52,
    59, 60, 61, 62, 63, 64, 65, 250, 251, 252, 255, 257, 0, 99, 65280];

fn raw_rdata(r: &mut Rng, ty: u16, pool: &[Vec<u8>]) -> Vec<u8> {
    let nm = |r: &mut Rng| rand_name_wire(r, &[]);
    let cs = |r: &mut Rng| { let n = r.below(12) as usize; let mut v = vec![n as u8]; v.extend(r.bytes(n)); v };
    let _ = pool;
    let mut v = Vec::new();
    match ty {
        1 => v = r.bytes(4),
        28 => v = r.bytes(16),
        2 | 3 | 4 | 5 | 7 | 8 | 9 | 12 | 39 => v = nm(r),
        6 => { v = nm(r); v.extend(nm(r)); v.extend(r.bytes(20)); }
        13 => { v = cs(r); v.extend(cs(r)); }
        14 | 17 => { v = nm(r); v.extend(nm(r)); }
        15 => { v = r.bytes(2); v.extend(nm(r)); }
        16 => { for _ in 0..r.range(1, 3) { v.extend(cs(r)); } }
        33 => { v = r.bytes(6); v.extend(nm(r)); }
        35 => { v = r.bytes(4); v.extend(cs(r)); v.extend(cs(r)); v.extend(cs(r)); v.extend(nm(r)); }
        43 | 59 => { v = r.bytes(4); v.extend(r.bytes(20)); }
        44 => { v = r.bytes(2); v.extend(r.bytes(20)); }
        45 => { v = vec![10, r.below(4) as u8, r.below(3) as u8]; match v[1] { 1 => v.extend(r.bytes(4)), 2 => v.extend(r.bytes(16)), 3 => v.extend(nm(r)), _ => {} } v.extend(r.bytes(8)); }
        46 => { v = r.bytes(18); v.extend(nm(r)); v.extend(r.bytes(16)); }
        47 => { v = nm(r); v.extend(&[0, 2, 0x40, 0x01, 1, 1, 0x80]); }
        48 | 60 => { v = r.bytes(4); v.extend(r.bytes(16)); }
        50 => { v = vec![1, 0, 0, 10, 4]; v.extend(r.bytes(4)); v.push(20); v.extend(r.bytes(20)); v.extend(&[0, 1, 0x40]); }
        51 => { v = vec![1, 0, 0, 10, 4]; v.extend(r.bytes(4)); }
        52 => { v = r.bytes(3); v.extend(r.bytes(32)); }
        61 => v = r.bytes(24),
        63 => { v = r.bytes(6); v.extend(r.bytes(48)); }
        64 | 65 => {
            v = r.bytes(2); v.extend(nm(r));
            if r.chance(1, 3) { v.extend(&[0, 1, 0, 3, 2, b'h', b'2']); v.extend(&[0, 3, 0, 2, 1, 187]); v.extend(&[0, 4, 0, 4, 1, 2, 3, 4]); }
            else if r.chance(1, 2) {
                // ascending keys, values structured or random
                let mut key = 0u16;
                for _ in 0..r.below(6) {
                    if r.chance(1, 2) { key += r.below(3) as u16; }
                    let val: Vec<u8> = match (key, r.below(3)) {
                        (_, 0) => { let n = r.below(14) as usize; r.bytes(n) }
                        (0, _) => { let n = r.below(4) as usize; (0..n).flat_map(|_| (r.range(1, 8) as u16).to_be_bytes()).collect() }
                        (1, _) => { let mut a = vec![]; for _ in 0..r.below(4) { let n = r.below(5) as usize; a.push(n as u8); a.extend((0..n).map(|_| b'a' + r.below(26) as u8)); } a }
                        (2, _) => vec![],
                        (3, _) => r.bytes(2),
                        (4, _) => { let n = 4 * r.below(4) as usize; r.bytes(n) }
                        (6, _) => { let n = 16 * r.below(3) as usize; r.bytes(n) }
                        (7, _) => b"/dns-query{?dns}".to_vec(),
                        (9, _) => { let n = 2 * r.below(4) as usize; r.bytes(n) }
                        _ => { let n = r.below(10) as usize; r.bytes(n) }
                    };
                    v.extend(&key.to_be_bytes()); v.extend(&(val.len() as u16).to_be_bytes()); v.extend(val);
                    key += 1;
                }
            }
        }
        250 => { v = nm(r); v.extend(r.bytes(6)); v.extend(&[1, 44, 0, 4]); v.extend(r.bytes(4)); v.extend(r.bytes(2)); v.extend(&[0, 0, 0, 0]); }
        257 => { v = vec![r.u8(), 5]; v.extend(b"issue"); v.extend(b"ca.example"); }
        41 => { for _ in 0..r.below(4) { let n = r.below(10) as usize; v.extend(&(r.range(1, 16) as u16).to_be_bytes()); v.extend(&(n as u16).to_be_bytes()); v.extend(r.bytes(n)); } }
        _ => { let n = r.below(24) as usize; v = r.bytes(n); }
    }
    v
}

/// A well-formed message built by the library's own builder.
fn built_message(r: &mut Rng) -> Vec<u8> {
    fn fill<T: domain::base::wire::Composer + AsRef<[u8]> + AsMut<[u8]> + octseq::Truncate>(r: &mut Rng, t: T) -> Vec<u8> {
        let mut pool: Vec<Vec<u8>> = vec![];
        for _ in 0..3 { let w = rand_name_wire(r, &pool); pool.push(w); }
        let mut b = MessageBuilder::from_target(t).ok().unwrap();
        b.header_mut().set_id(r.u16());
        b.header_mut().set_qr(r.chance(3, 4));
        b.header_mut().set_rd(r.chance(1, 2));
        let mut q = b.question();
        let nq = match r.below(6) { 0 => 0, 1 => 2, _ => 1 };
        let qname = rand_name_wire(r, &pool);
        for _ in 0..nq {
            let ty = if r.chance(1, 3) { Rtype::from_int(*r.pick(&[251u16, 252, 5, 1, 255])) } else { Rtype::from_int(*r.pick(KNOWN_TYPES)) };
            let _ = q.push((name_of(&qname), ty));
        }
        pool.push(qname.clone());
        let mut a = q.answer();
        let mut cur = qname.clone();
        macro_rules! push_some { ($b:expr, $n:expr) => {{
            for _ in 0..$n {
                let owner = if r.chance(1, 3) { let mut o = cur.clone(); if r.chance(1, 2) { for b in o.iter_mut() { if b.is_ascii_alphabetic() && r.chance(1, 3) { *b ^= 0x20; } } } o } else { rand_name_wire(r, &pool) };
                let ttl = Ttl::from_secs(r.u32() >> (r.below(32) as u32));
                match r.below(9) {
                    0 => { let _ = $b.push((name_of(&owner), ttl, A::from_octets(r.u8(), r.u8(), r.u8(), r.u8()))); }
                    1 => { let tgt = rand_name_wire(r, &pool); let _ = $b.push((name_of(&owner), ttl, Cname::new(name_of(&tgt)))); cur = tgt.clone(); pool.push(tgt); }
                    2 => { let tgt = rand_name_wire(r, &pool); let _ = $b.push((name_of(&owner), ttl, Ns::new(name_of(&tgt)))); }
                    3 => { let tgt = rand_name_wire(r, &pool); let _ = $b.push((name_of(&owner), ttl, Mx::new(r.u16(), name_of(&tgt)))); }
                    4 => {
                        let m = rand_name_wire(r, &pool); let n = rand_name_wire(r, &pool);
                        let _ = $b.push((name_of(&owner), ttl, Soa::new(name_of(&m), name_of(&n), Serial(r.u32()), Ttl::from_secs(r.u32() >> 8),
                            Ttl::from_secs(7200), Ttl::from_secs(r.u32() >> 4), Ttl::from_secs(60))));
                    }
                    _ => {
                        let ty = *r.pick(KNOWN_TYPES);
                        let rd = raw_rdata(r, ty, &pool);
                        if let Ok(d) = UnknownRecordData::from_octets(Rtype::from_int(ty), rd) {
                            let cls = if r.chance(1, 8) { Class::from_int(r.u16()) } else { Class::IN };
                            let _ = $b.push((name_of(&owner), cls, ttl, d));
                        }
                    }
                }
                pool.push(owner);
            }
        }}; }
        let n = r.below(5); push_some!(a, n);
        let mut ns = a.authority();
        let n = r.below(3); push_some!(ns, n);
        let mut ar = ns.additional();
        let n = r.below(3); push_some!(ar, n);
        if r.chance(1, 2) {
            let payload = r.u16(); let dok = r.chance(1, 2);
            let nopts = r.below(4);
            let mut optdata: Vec<(u16, Vec<u8>)> = vec![];
            for _ in 0..nopts {
                if r.chance(1, 2) { optdata.push(structured_option(r)); continue; }
                let code = r.range(1, 20) as u16;
                let d: Vec<u8> = match (code, r.below(3)) {
                    (_, 0) => { let n = r.below(26) as usize; r.bytes(n) }
                    (8, _) => { let fam = r.range(1, 2) as u16; let bits = if fam == 1 { r.below(33) } else { r.below(129) } as u8; let mut d = fam.to_be_bytes().to_vec(); d.push(bits); d.push(r.below(33) as u8); d.extend(r.bytes(((bits as usize) + 7) / 8)); d }
                    (10, _) => { let n = *r.pick(&[8usize, 16, 24, 40, 7, 41]); r.bytes(n) }
                    (9, _) => { let n = *r.pick(&[0usize, 4]); r.bytes(n) }
                    (11, _) => { let n = *r.pick(&[0usize, 2]); r.bytes(n) }
                    (13, _) => rand_name_wire(r, &[]),
                    (14, _) => { let n = 2 * r.below(4) as usize; r.bytes(n) }
                    (15, _) => { let mut d = (r.below(30) as u16).to_be_bytes().to_vec(); d.extend(b"text \xff"); d }
                    (5, _) | (6, _) | (7, _) => { let n = r.below(5) as usize; r.bytes(n) }
                    _ => { let n = r.below(12) as usize; r.bytes(n) }
                };
                optdata.push((code, d));
            }
            let _ = ar.opt(|o| {
                o.set_udp_payload_size(payload);
                o.set_dnssec_ok(dok);
                for (code, d) in optdata.iter() {
                    o.push_raw_option((*code).into(), d.len() as u16, |t| t.append_slice(d))?;
                }
                Ok(())
            });
        }
        ar.finish().as_ref().to_vec()
    }
    match r.below(3) {
        0 => fill(r, Vec::new()),
        1 => fill(r, StaticCompressor::new(Vec::new())),
        _ => fill(r, TreeCompressor::new(Vec::new())),
    }
}


// ------------------------------------------------------------------ structure-aware OPT options / RDATA

/// One EDNS option with octets at / around the structural boundaries of its code.
fn structured_option(r: &mut Rng) -> (u16, Vec<u8>) {
    let code = *r.pick(&[3u16, 5, 6, 7, 8, 8, 8, 9, 10, 10, 11, 12, 13, 14, 15, 15, 16, 65001]);
    let d: Vec<u8> = match code {
        8 => {
            let fam = *r.pick(&[1u16, 1, 2, 2, 0, 3]);
            let maxp: u64 = if fam == 2 { 136 } else if r.chance(1, 2) { 40 } else { 136 };
            let prefix = r.below(maxp + 1) as u8;
            let scope = if r.chance(1, 2) { 0 } else { r.below(137) as u8 };
            let need = (prefix as usize + 7) / 8;
            let alen = match r.below(6) { 0 => need.saturating_sub(1), 1 => need + 1, 2 => 0, _ => need };
            let mut a = r.bytes(alen);
            if r.chance(1, 2) && alen == need && prefix % 8 != 0 && alen > 0 { let m = 0xFFu8 << (8 - prefix % 8); a[alen - 1] &= m; }
            let mut d = fam.to_be_bytes().to_vec(); d.push(prefix); d.push(scope); d.extend(a);
            if r.chance(1, 12) { d.truncate(r.below(4) as usize); }
            d
        }
        10 => { let n = r.range(0, 42) as usize; r.bytes(n) }
        11 => { let n = r.below(4) as usize; r.bytes(n) }
        9 => { let n = *r.pick(&[0usize, 3, 4, 5]); r.bytes(n) }
        14 => { let n = r.below(8) as usize; r.bytes(n) }
        5 | 6 | 7 => { let n = r.below(6) as usize; r.bytes(n) }
        12 => { let n = r.below(24) as usize; if r.chance(1, 2) { vec![0; n] } else { r.bytes(n) } }
        13 => match r.below(6) {
            0 => vec![0x40, 1, 0],
            1 => vec![3, b'a', b'b'],
            2 => vec![0xC0, 0],
            3 => { let mut v = vec![]; for _ in 0..5 { v.push(63); v.extend(std::iter::repeat(b'x').take(63)); } v.push(0); v }
            4 => vec![],
            _ => { let mut v = rand_name_wire(r, &[]); if r.chance(1, 3) { v.push(0); } v }
        },
        15 => match r.below(6) {
            0 => vec![],
            1 => vec![0],
            2 => (r.below(30) as u16).to_be_bytes().to_vec(),
            3 => { let mut d = (r.below(30) as u16).to_be_bytes().to_vec(); d.extend(b"some text"); d }
            4 => { let mut d = (r.u16()).to_be_bytes().to_vec(); d.extend(&[0xFF, 0xFE, b'a', 0xC3]); d }
            _ => { let mut d = (r.below(30) as u16).to_be_bytes().to_vec(); d.extend(b"nul\0inside"); d }
        },
        _ => { let n = r.below(12) as usize; r.bytes(n) }
    };
    (code, d)
}

fn put_rr(m: &mut Vec<u8>, owner: &[u8], ty: u16, class: u16, ttl: u32, rdata: &[u8], rdlen_delta: i32) {
    m.extend(owner); m.extend(&ty.to_be_bytes()); m.extend(&class.to_be_bytes()); m.extend(&ttl.to_be_bytes());
    m.extend(&((rdata.len() as i32 + rdlen_delta).max(0) as u16).to_be_bytes()); m.extend(rdata);
}

/// Header + question + an OPT record made of structured options (the framing is occasionally broken too).
fn opt_focus_message(r: &mut Rng) -> Vec<u8> {
    let mut m = vec![r.u8(), r.u8(), 0x81, 0x80, 0, 1, 0, 0, 0, 0, 0, 1];
    m.extend(b"\x01a\x00\x00\x01\x00\x01");
    let mut rd = vec![];
    for _ in 0..r.range(1, 3) {
        let (code, d) = structured_option(r);
        rd.extend(&code.to_be_bytes());
        let l = if r.chance(1, 25) { d.len() as u16 + 1 } else { d.len() as u16 };
        rd.extend(&l.to_be_bytes()); rd.extend(d);
    }
    let delta = if r.chance(1, 30) { -1 } else { 0 };
    put_rr(&mut m, &[0], 41, if r.chance(1, 2) { 1232 } else { r.u16() }, r.u32() & 0xFF01_8000, &rd, delta);
    m
}

fn bitmap_variant(r: &mut Rng) -> Vec<u8> {
    match r.below(12) {
        0 => vec![],
        1 => vec![0, 0],                                    // empty window
        2 => { let mut v = vec![0, 33]; v.extend(r.bytes(33)); v }
        3 => { let mut v = vec![0, 32]; v.extend(r.bytes(32)); v }
        4 => vec![1, 1, 0x40, 0, 1, 0x40],                  // descending windows
        5 => vec![0, 1, 0x40, 0, 1, 0x20],                  // duplicate window
        6 => vec![0, 4, 0x40, 1],                           // truncated window
        7 => vec![0, 2, 0x40, 0],                           // trailing zero octet
        8 => vec![0],                                       // lone window number
        9 => { let mut v = vec![]; for w in [0u8, 1, 255] { v.push(w); v.push(1); v.push(r.u8() | 1); } v }
        10 => vec![0, 1, 0],                                // all-zero bitmap
        _ => vec![0, 6, 0x62, 0x01, 0x80, 0x08, 0x00, 0x03],
    }
}

/// RDATA at / around the structural boundaries of a record type.
fn boundary_rdata(r: &mut Rng, ty: u16) -> Vec<u8> {
    let nm = |r: &mut Rng| rand_name_wire(r, &[]);
    let mut v: Vec<u8> = match ty {
        47 => { let mut v = nm(r); v.extend(bitmap_variant(r)); v }
        50 => {
            let mut v = vec![1, r.below(2) as u8, 0, r.below(20) as u8];
            let sl = *r.pick(&[0usize, 4, 8, 255]); v.push(sl as u8); let take = if r.chance(1, 8) { sl / 2 } else { sl }; v.extend(r.bytes(take));
            let hl = *r.pick(&[0usize, 20, 32, 255]); v.push(hl as u8); let take = if r.chance(1, 8) { hl / 2 } else { hl }; v.extend(r.bytes(take));
            v.extend(bitmap_variant(r)); v
        }
        64 | 65 => {
            let mut v = r.bytes(2); if r.chance(1, 4) { v[0] = 0; v[1] = 0; }
            v.extend(if r.chance(1, 5) { vec![0xC0, 12] } else { nm(r) });
            let mut keys: Vec<u16> = (0..r.below(5)).map(|_| *r.pick(&[0u16, 1, 2, 3, 4, 5, 6, 7, 8, 9, 10, 65280, 65535])).collect();
            if r.chance(2, 3) { keys.sort(); if r.chance(2, 3) { keys.dedup(); } }
            for k in keys {
                let val: Vec<u8> = match (k, r.below(4)) {
                    (0, 0) => vec![0, 1, 0, 3], (0, 1) => vec![0, 3, 0, 1], (0, 2) => vec![0, 1, 0], (0, _) => vec![0, 0],
                    (1, 0) => vec![0], (1, 1) => vec![5, b'h', b'2'], (1, 2) => vec![2, b'h', b'2', 0], (1, _) => vec![2, b'h', b'2', 2, b'h', b'3'],
                    (2, 0) => vec![], (2, _) => vec![1],
                    (3, 0) => vec![1], (3, 1) => vec![1, 2, 3], (3, _) => vec![1, 187],
                    (4, 0) => vec![], (4, 1) => vec![1, 2, 3], (4, 2) => vec![1, 2, 3, 4, 5], (4, _) => vec![1, 2, 3, 4],
                    (6, 0) => r.bytes(15), (6, 1) => r.bytes(17), (6, 2) => vec![], (6, _) => r.bytes(16),
                    (5, 0) => vec![], (7, 0) => vec![0xFF, 0xFE], (7, _) => b"/dns-query{?dns}".to_vec(),
                    (9, 0) => vec![0], (9, _) => vec![0, 29, 0, 23],
                    _ => { let n = r.below(6) as usize; r.bytes(n) }
                };
                v.extend(&k.to_be_bytes());
                let l = if r.chance(1, 15) { val.len() as u16 + 1 } else { val.len() as u16 };
                v.extend(&l.to_be_bytes()); v.extend(val);
            }
            if r.chance(1, 10) { let n = r.range(1, 3) as usize; v.extend(r.bytes(n)); }
            v
        }
        45 => {
            let gt = r.below(5) as u8; let alg = r.below(4) as u8;
            let mut v = vec![r.u8(), gt, alg];
            let g: Vec<u8> = match gt { 1 => r.bytes(4), 2 => r.bytes(16), 3 => nm(r), _ => vec![] };
            let take = if r.chance(1, 4) { r.below(g.len() as u64 + 1) as usize } else { g.len() };
            v.extend(&g[..take]);
            if r.chance(1, 2) { let n = r.below(6) as usize; v.extend(r.bytes(n)); }
            v
        }
        16 => match r.below(5) {
            0 => vec![],
            1 => vec![0],
            2 => vec![5, b'a', b'b'],
            3 => { let mut v = vec![255]; v.extend(r.bytes(254)); v }
            _ => vec![1, b'a', 0, 3, b'x', b'y'],
        },
        257 => match r.below(5) {
            0 => vec![0, 0],
            1 => vec![0, 0, b'v'],
            2 => vec![0, 5, b'i', b's'],
            3 => vec![128, 3, b'a', b'-', b'b', b'v'],
            _ => vec![0],
        },
        35 => { let mut v = r.bytes(4); for _ in 0..3 { let n = r.below(4) as u8; v.push(if r.chance(1, 6) { n + 9 } else { n }); v.extend(r.bytes(n as usize)); } v.extend(nm(r)); v }
        250 => {
            let mut v = nm(r); v.extend(r.bytes(8));
            let ml = r.below(6) as u16; v.extend(&(if r.chance(1, 5) { ml + 7 } else { ml }).to_be_bytes()); v.extend(r.bytes(ml as usize));
            v.extend(r.bytes(4));
            let ol = *r.pick(&[0u16, 6, 2]); v.extend(&(if r.chance(1, 5) { ol + 3 } else { ol }).to_be_bytes()); v.extend(r.bytes(ol as usize));
            v
        }
        _ => raw_rdata(r, ty, &[]),
    };
    match r.below(8) {
        0 => { let n = r.below(v.len() as u64 + 1) as usize; v.truncate(n); }
        1 => { v.push(r.u8()); }
        2 => { if !v.is_empty() { let i = r.below(v.len() as u64) as usize; v[i] = *r.pick(&[0u8, 1, 255, 63, 64, 0xC0]); } }
        _ => {}
    }
    v
}

/// Header + question + one or two records of one type with boundary RDATA.
fn rdata_focus_message(r: &mut Rng) -> Vec<u8> {
    let mut m = vec![r.u8(), r.u8(), 0x81, 0x80, 0, 1, 0, 0, 0, 0, 0, 0];
    m.extend(b"\x03foo\x07example\x00\x00\xff\x00\x01");
    let ty = if r.chance(3, 5) { *r.pick(&[47u16, 47, 50, 50, 64, 65, 64, 45, 45, 16, 257, 35, 250]) } else { *r.pick(KNOWN_TYPES) };
    let n = r.range(1, 2);
    for _ in 0..n {
        let rd = boundary_rdata(r, ty);
        let delta = match r.below(20) { 0 => -1, 1 => 1, _ => 0 };
        put_rr(&mut m, &[0xC0, 12], ty, 1, 300, &rd, delta);
    }
    m[7] = n as u8;
    m
}

/// Lenient structure scan: offsets of interesting fields.
#[derive(Default, Clone)]
struct Sites { names: Vec<usize>, ptrs: Vec<usize>, lens: Vec<usize>, rdlens: Vec<usize>, types: Vec<usize>, rdata: Vec<(usize, usize)> }

fn scan_name(m: &[u8], mut p: usize, s: &mut Sites) -> Option<usize> {
    s.names.push(p);
    loop {
        let b = *m.get(p)?;
        if b == 0 { return Some(p + 1); }
        if b >= 0xC0 { s.ptrs.push(p); return Some(p + 2); }
        if b > 63 { return None; }
        s.lens.push(p);
        p += 1 + b as usize;
    }
}

fn scan(m: &[u8]) -> Sites {
    let mut s = Sites::default();
    if m.len() < 12 { return s; }
    let qd = u16::from_be_bytes([m[4], m[5]]) as usize;
    let rest = u16::from_be_bytes([m[6], m[7]]) as usize + u16::from_be_bytes([m[8], m[9]]) as usize + u16::from_be_bytes([m[10], m[11]]) as usize;
    let mut p = 12;
    for _ in 0..qd.min(50) {
        match scan_name(m, p, &mut s) { Some(e) => { s.types.push(e); p = e + 4; } None => return s }
    }
    for _ in 0..rest.min(100) {
        match scan_name(m, p, &mut s) {
            Some(e) => {
                s.types.push(e);
                if e + 10 > m.len() { return s; }
                s.rdlens.push(e + 8);
                let rdlen = u16::from_be_bytes([m[e + 8], m[e + 9]]) as usize;
                s.rdata.push((e + 10, rdlen));
                // names inside the rdata of a few types, for pointer sites
                let ty = u16::from_be_bytes([m[e], m[e + 1]]);
                if matches!(ty, 2 | 5 | 12 | 6 | 15 | 33 | 39) && rdlen > 0 {
                    let off = match ty { 15 => 2, 33 => 6, _ => 0 };
                    let mut tmp = Sites::default();
                    if let Some(e2) = scan_name(m, e + 10 + off, &mut tmp) {
                        s.ptrs.extend(tmp.ptrs); s.lens.extend(tmp.lens); s.names.extend(tmp.names.clone());
                        if ty == 6 { let mut t2 = Sites::default(); if scan_name(m, e2, &mut t2).is_some() { s.ptrs.extend(t2.ptrs); s.names.extend(t2.names); } }
                    }
                }
                p = e + 10 + rdlen;
            }
            None => return s,
        }
    }
    s
}

fn put16(m: &mut [u8], off: usize, v: u16) { if off + 2 <= m.len() { m[off] = (v >> 8) as u8; m[off + 1] = v as u8; } }

fn mutate(r: &mut Rng, base: &[u8]) -> Vec<u8> {
    let mut m = base.to_vec();
    let rounds = 1 + r.below(3);
    for _ in 0..rounds {
        let len = m.len();
        if len < 12 { break; }
        let s = scan(&m);
        match r.below(14) {
            0 => { let off = 4 + 2 * r.below(4) as usize; let v = *r.pick(&[0u16, 1, 2, 0xFFFF, 0xFFFE, 0x100]); put16(&mut m, off, v); }
            1 if !s.ptrs.is_empty() => {
                let p = *r.pick(&s.ptrs);
                let tgt = match r.below(9) {
                    0 => p as u16,                                   // self
                    1 => (p + 2) as u16,                             // forward
                    2 => r.below(12) as u16,                         // into the header
                    3 => if let Some(&(a, n)) = s.rdata.first() { (a + r.below(n.max(1) as u64) as usize) as u16 } else { 12 },
                    4 => if s.ptrs.len() > 1 { *r.pick(&s.ptrs) as u16 } else { p.saturating_sub(2) as u16 },   // chained / cyclic
                    5 => (len as u16).wrapping_add(r.below(4) as u16).wrapping_sub(2),
                    6 => p.saturating_sub(1) as u16,
                    7 => 0x3FFF,
                    _ => r.below(len as u64 + 4) as u16,
                };
                put16(&mut m, p, 0xC000 | (tgt & 0x3FFF));
            }
            2 if !s.lens.is_empty() => { let p = *r.pick(&s.lens); if p >= len { continue; } m[p] = match r.below(5) { 0 => 0x40 + r.below(0x80) as u8, 1 => 63, 2 => 0, 3 => m[p].wrapping_add(1), _ => r.u8() }; }
            3 if !s.rdlens.is_empty() => {
                let p = *r.pick(&s.rdlens);
                if p + 2 > len { continue; }
                let old = u16::from_be_bytes([m[p], m[p + 1]]);
                let v = match r.below(6) { 0 => old.wrapping_add(1), 1 => old.wrapping_sub(1), 2 => old.wrapping_add(r.below(8) as u16), 3 => old.wrapping_sub(r.below(8) as u16), 4 => 0, _ => 0xFFFF };
                put16(&mut m, p, v);
            }
            4 => { let cut = r.below(len as u64 + 1) as usize; m.truncate(cut); }
            5 if !s.types.is_empty() => { let p = *r.pick(&s.types); let v = *r.pick(KNOWN_TYPES); put16(&mut m, p, v); }
            6 => { let i = r.below(len as u64) as usize; m[i] = r.u8(); }
            7 => { let i = r.below(len as u64) as usize; m[i] ^= 1 << r.below(8); }
            8 if !s.names.is_empty() => {
                // replace the start of a name by a pointer
                let p = *r.pick(&s.names);
                let tgt = if r.chance(1, 2) { *r.pick(&s.names) } else { r.below(len as u64) as usize };
                put16(&mut m, p, 0xC000 | (tgt as u16 & 0x3FFF));
            }
            9 if !s.rdata.is_empty() => {
                // plant a pointer (or a cycle of two) inside rdata
                let (a, n) = *r.pick(&s.rdata);
                if n >= 4 && a + n <= len { let o = a + r.below(n as u64 - 3) as usize; put16(&mut m, o, 0xC000 | ((o + 2) as u16)); put16(&mut m, o + 2, 0xC000 | (o as u16)); }
            }
            10 => { let n = r.below(6) as usize; let i = r.below(len as u64 + 1) as usize; let ins = r.bytes(n); m.splice(i..i, ins); }
            11 => { let extra = r.below(20) as usize; m.extend(r.bytes(extra)); }
            12 if !s.rdata.is_empty() => {
                let (a, n) = *r.pick(&s.rdata);
                if n > 0 && a + n <= len { let k = 1 + r.below(3.min(n as u64)) as usize; for _ in 0..k { let o = a + r.below(n as u64) as usize; m[o] = r.u8(); } }
            }
            _ => { m[2] ^= 0x80; }
        }
    }
    m
}

/// Hand-assembled: a question name of q octets and an answer whose owner is
/// `own` octets of labels followed by a pointer to the question name, so that the
/// uncompressed length is around the 255 octet limit.
fn long_via_pointer(r: &mut Rng) -> Vec<u8> {
    let mut m = vec![r.u8(), r.u8(), 0x80, 0, 0, 1, 0, 1, 0, 0, 0, 0];
    let labels = |r: &mut Rng, total: usize, m: &mut Vec<u8>| {
        let mut left = total;
        while left >= 2 { let l = (r.range(1, 63) as usize).min(left - 1); m.push(l as u8); m.extend((0..l).map(|_| b'a' + (r.below(26) as u8))); left -= l + 1; }
    };
    let q = r.range(2, 120) as usize;
    labels(r, q, &mut m); m.push(0);
    let qlen = m.len() - 12;
    m.extend(&[0, 1, 0, 1]);
    let target = 255i64 - qlen as i64 + r.range(0, 6) as i64 - 3;
    let own = target.max(2) as usize;
    labels(r, own, &mut m);
    m.extend(&[0xC0, 12]);
    m.extend(&[0, 5, 0, 1, 0, 0, 0, 60]);
    if r.chance(1, 2) { m.extend(&[0, 2, 0xC0, 12]); } else { m.extend(&[0, 0]); }
    m
}

fn raw_random(r: &mut Rng) -> Vec<u8> {
    let n = match r.below(10) { 0 => r.below(14) as usize, 1 => r.range(500, 600) as usize, _ => r.below(120) as usize };
    let mut m = r.bytes(n);
    if n >= 12 && r.chance(3, 4) {
        // plausible counts so that the sections are entered
        for off in [4usize, 6, 8, 10] { put16(&mut m, off, match r.below(5) { 0 => 0, 1 => 1, 2 => 2, 3 => 0xFFFF, _ => r.below(5) as u16 }); }
        // bias the body towards name-like bytes
        for i in 12..n { if r.chance(1, 3) { m[i] = *r.pick(&[0u8, 0, 1, 2, 3, 0xC0, 0xC0, 0x0C, 12, 13, 14, 0x40, 0x80, 63, 64]); } }
    }
    m
}

fn xfr_messages(r: &mut Rng) -> Vec<Vec<u8>> {
    let zone = rand_name_wire(r, &[]);
    let mut out = vec![];
    let nmsg = 1 + r.below(3);
    let qt = match r.below(6) { 0 => Rtype::A, 1 => Rtype::SOA, 2 | 3 => Rtype::IXFR, _ => Rtype::AXFR };
    let serial = r.u32();
    for i in 0..nmsg {
        let mut b = MessageBuilder::from_target(StaticCompressor::new(Vec::new())).ok().unwrap();
        b.header_mut().set_qr(true);
        b.header_mut().set_id(7);
        let mut q = b.question();
        if i == 0 || r.chance(1, 2) { let _ = q.push((name_of(&zone), qt)); }
        let mut a = q.answer();
        let soa = |s: u32| Soa::new(name_of(&zone), name_of(&zone), Serial(s), Ttl::from_secs(1), Ttl::from_secs(2), Ttl::from_secs(3), Ttl::from_secs(4));
        if i == 0 && r.chance(7, 8) { let _ = a.push((name_of(&zone), Ttl::from_secs(60), soa(serial))); }
        for _ in 0..r.below(5) {
            match r.below(4) {
                0 => { let _ = a.push((name_of(&zone), Ttl::from_secs(60), soa(serial.wrapping_sub(r.below(3) as u32)))); }
                1 => { let _ = a.push((name_of(&zone), Ttl::from_secs(60), Ns::new(name_of(&zone)))); }
                _ => { let _ = a.push((name_of(&zone), Ttl::from_secs(60), A::from_octets(1, 2, 3, r.u8()))); }
            }
        }
        if i + 1 == nmsg && r.chance(1, 2) { let _ = a.push((name_of(&zone), Ttl::from_secs(60), soa(serial))); }
        let bytes = a.finish().as_ref().to_vec();
        out.push(if r.chance(1, 2) { mutate(r, &bytes) } else { bytes });
    }
    out
}

// ------------------------------------------------------------------ corpus

fn corpus() -> Vec<Vec<u8>> {
    let hdr = |qd: u16, an: u16, ns: u16, ar: u16| { let mut h = vec![0u8, 7, 0x80, 0]; for c in [qd, an, ns, ar] { h.extend(&c.to_be_bytes()); } h };
    let mut v: Vec<Vec<u8>> = vec![];
    v.push(vec![]);
    for n in 0..=13usize { for fill in [0u8, 0xff, 0xc0] { v.push(vec![fill; n]); } }
    // ANCOUNT = 0xFFFF and one question (canonical_name overflow, fixed)
    { let mut m = hdr(1, 0xFFFF, 0, 0); m.extend(b"\x01a\x00\x00\x01\x00\x01"); v.push(m); }
    // self pointer as qname, pointer to itself + 2, pointer into header
    for tgt in [12u16, 14, 0, 11, 13, 0x3FFF] { let mut m = hdr(1, 0, 0, 0); m.extend(&(0xC000u16 | tgt).to_be_bytes()); m.extend(&[0, 1, 0, 1]); v.push(m); }
    // chained pointers: name at 12 = "a" root; at 19 ptr->12; at 21 ptr->19
    { let mut m = hdr(1, 1, 0, 0); m.extend(b"\x01a\x00\x00\x01\x00\x01"); m.extend(&[0xC0, 12, 0, 5, 0, 1, 0, 0, 0, 9, 0, 2, 0xC0, 19]); v.push(m); }
    // pointer cycle in rdata
    { let mut m = hdr(1, 1, 0, 0); m.extend(b"\x01a\x00\x00\x05\x00\x01"); m.extend(&[0xC0, 12, 0, 5, 0, 1, 0, 0, 0, 9, 0, 4, 0xC0, 31, 0xC0, 29]); v.push(m); }
    // label types 0x40..0xBF
    for b in [0x40u8, 0x41, 0x7F, 0x80, 0xBF] { let mut m = hdr(1, 0, 0, 0); m.extend(&[b, 1, 0, 0, 1, 0, 1]); v.push(m); }
    // names of 254, 255, 256 octets
    for total in [253usize, 254, 255, 256] {
        let mut m = hdr(1, 0, 0, 0);
        let mut left = total - 1;
        while left > 0 { let l = (left - 1).min(63); if l == 0 { m.push(0); left -= 1; continue; } m.push(l as u8); m.extend(std::iter::repeat(b'x').take(l)); left -= l + 1; }
        m.push(0); m.extend(&[0, 1, 0, 1]); v.push(m);
    }
    // long name via compression: 200 octets then pointer to a 60 octet tail
    { let mut m = hdr(1, 1, 0, 0); m.push(59); m.extend(std::iter::repeat(b'y').take(59)); m.push(0); m.extend(&[0, 1, 0, 1]);
      for _ in 0..3 { m.push(63); m.extend(std::iter::repeat(b'z').take(63)); } m.extend(&[0xC0, 12, 0, 1, 0, 1, 0, 0, 0, 0, 0, 0]); v.push(m); }
    // rdlen beyond the message, OPT with broken option, CNAME loop
    { let mut m = hdr(0, 1, 0, 0); m.extend(&[0, 0, 1, 0, 1, 0, 0, 0, 0, 0xFF, 0xFF, 1, 2, 3, 4]); v.push(m); }
    { let mut m = hdr(0, 0, 0, 1); m.extend(&[0, 0, 41, 4, 0, 0, 0, 0x80, 0, 0, 6, 0, 8, 0, 9, 1, 2]); v.push(m); }
    { let mut m = hdr(0, 0, 0, 1); m.extend(&[0, 0, 41, 4, 0, 0, 0, 0x80, 0, 0, 8, 0, 8, 0, 4, 0, 1, 33, 0]); v.push(m); }
    { let mut m = hdr(1, 2, 0, 0); m.extend(b"\x01a\x00\x00\x01\x00\x01"); m.extend(&[0xC0, 12, 0, 5, 0, 1, 0, 0, 0, 9, 0, 4, 1, b'b', 0xC0, 14]);
      m.extend(&[0xC0, 31, 0, 5, 0, 1, 0, 0, 0, 9, 0, 2, 0xC0, 12]); v.push(m); }
    v
}

fn main() {
    if let Err(e) = catch(real_main) { eprintln!("harness bug: panic {} at {}", e, last_site()); std::process::exit(101); }
}

fn real_main() {
    let a = args();
    if a.extra.len() >= 2 && a.extra[0] == "debugdig" { let b = unhex(&a.extra[1]); let m = Message::from_octets(&b[..]).unwrap(); println!("{}", m.display_dig_style()); return; }
    if a.extra.len() >= 3 && a.extra[0] == "debugops" { println!("{}", obs_ops(&unhex(&a.extra[1]), &a.extra[2])); return; }
    let mut out = Out::new(&a, "C01", 120);
    install_hook();
    let mut r = Rng::new(a.seed);
    let scale = a.scale * if a.thorough { 20 } else { 1 };
    let mut idx = 0u64;
    let query = { let mut q = vec![0u8, 7, 0, 0, 0, 1, 0, 0, 0, 0, 0, 0]; q.extend(b"\x01a\x00\x00\x01\x00\x01"); q };

    let run_msg = |out: &mut Out, r: &mut Rng, m: &[u8], kind: &str, idx: &mut u64, t2: bool| {
        *idx += 1;
        if !out.wants(*idx) { return; }
        oracle_msg(out, m, &query, kind);
        if m.len() <= 40 || *idx % 16 == 0 {
            let c = format!("ctor {}", hex(m));
            out.begin(&c);
            let (acc, _) = constructors(m);
            out.case(&c, &acc, m.len() >= 12, "ctor");
        }
        if !t2 && (kind == "rdatafocus" || kind == "optfocus") && *idx % 2 == 0 && m.len() <= 1000 {
            // typed data, display walk, typed options and the dig skeleton for every other focus message
            let ops = "t,V,O,P";
            let c = format!("ops {} {}", hex(m), ops);
            out.begin(&c);
            let o = obs_ops(m, ops);
            out.check(o != "Panic", "panic_op_sequence", &c, "a sequence of read-side calls panicked");
            out.case(&c, &o, true, "ops_focus");
        }
        if !t2 || m.len() > 1000 { return; }
        let s = scan(m);
        // name parsing at structure positions and a few random ones
        let mut positions: Vec<usize> = s.names.iter().cloned().take(4).collect();
        positions.push(12.min(m.len()));
        positions.push(r.below(m.len() as u64 + 1) as usize);
        for &p in positions.iter() {
            if p > m.len() { continue; }
            let lim = if r.chance(3, 4) { m.len() } else { p + r.below((m.len() - p) as u64 + 1) as usize };
            let c = format!("pname {} {} {}", lim, p, hex(m));
            out.begin(&c);
            let o = obs_pname(m, p, lim);
            out.case(&c, &o, o.starts_with("Ok"), "pname");
            if o.starts_with("Ok") && (kind == "corpus" || r.chance(1, 3)) {
                let c = format!("pops {} {} {}", lim, p, hex(m));
                out.begin(&c);
                let o = obs_pops(m, p, lim);
                out.check(o != "Panic", "panic_name_ops", &c, "split_first / parent / iter_suffixes / next_back / as_flat_slice panicked on a parsed name");
                out.case(&c, &o, true, "pops");
            }
            if kind == "corpus" || r.chance(1, 3) {
                let c = format!("skip {} {} {}", lim, p, hex(m));
                out.begin(&c);
                let o = obs_skip(m, p, lim);
                out.case(&c, &o, o.starts_with("Ok"), "skip");
            }
        }
        // parser limits exactly at / one short of / one beyond the end of a name
        for &p in positions.iter().take(2) {
            if p > m.len() { continue; }
            let full = obs_pname(m, p, m.len());
            let end: Option<usize> = if full.starts_with("Ok ") { full.split(' ').nth(4).and_then(|x| x.parse().ok()) } else { None };
            if let Some(e) = end {
                for lim in [e.saturating_sub(1), e, e + 1] {
                    if lim < p || lim > m.len() { continue; }
                    let c = format!("pname {} {} {}", lim, p, hex(m));
                    let o = obs_pname(m, p, lim);
                    out.case(&c, &o, o.starts_with("Ok"), "pname_boundary");
                    let c = format!("skip {} {} {}", lim, p, hex(m));
                    let o = obs_skip(m, p, lim);
                    out.case(&c, &o, o.starts_with("Ok"), "skip_boundary");
                }
            }
        }
        for st in [12usize, *positions.last().unwrap()] {
            let c = format!("islice {} {}", st, hex(m));
            out.begin(&c);
            let o = obs_islice(m, st);
            out.check(o != "Endless" && o != "Panic", "iter_slice_total", &c, &o);
            out.case(&c, &o, o.len() > 5, "islice");
        }
        // a CNAME loop with a huge ANCOUNT makes canonical_name run ANCOUNT+1 rounds: fine for the
        // implementation, minutes for the extracted model -- such messages stay oracle-only
        let long_chase = catch({ let m2 = m.to_vec(); move || match Message::from_slice(&m2) {
            Ok(msg) => msg.header_counts().ancount() > 300 && msg.first_question().is_some() && msg.answer().is_ok() && msg.canonical_name().is_none(),
            Err(_) => false } }).unwrap_or(true);
        if long_chase { out.count("msgframe_skipped_long_cname_chase"); return; }
        let c = format!("msg {}", hex(m));
        out.begin(&c);
        let o = obs_msg(m);
        out.case(&c, &o, m.len() > 12, "msgframe");
        for _ in 0..1 {
            let ops = gen_ops(r);
            let c = format!("ops {} {}", hex(m), ops);
            out.begin(&c);
            let o = obs_ops(m, &ops);
            out.check(o != "Panic", "panic_op_sequence", &c, "a sequence of read-side calls panicked");
            out.case(&c, &o, m.len() > 12, "ops");
            // a second traversal after other activity: the same calls, iterator numbers shifted
            // past the iterators the earlier activity created, must give the same results
            if o != "short" && o != "Panic" {
                let prefix = gen_ops(r);
                let (po, k) = obs_ops_n(m, &prefix);
                if po != "Panic" {
                    let both = format!("{},{}", prefix, shift_ops(&ops, k));
                    let (bo, _) = obs_ops_n(m, &both);
                    let n1 = prefix.split(',').count();
                    let tail: Vec<&str> = bo.split(" ; ").skip(n1).collect();
                    let same = tail.join(" ; ") == o;
                    out.check(same, "nondeterministic", &format!("ops {} {}", hex(m), both), "a traversal after earlier activity differs from the traversal of a fresh view");
                }
            }
        }
        {
            let q = if r.chance(1, 4) { query.clone() } else { related_query(r, m) };
            let c = format!("isans {} {}", hex(m), hex(&q));
            out.begin(&c);
            let o = obs_isans(m, &q);
            out.case(&c, &o, o == "1", "isans");
            let c = format!("isans {} {}", hex(&q), hex(m));
            let o = obs_isans(&q, m);
            out.case(&c, &o, o == "1", "isans");
        }
        if kind == "xfrmsg" || r.chance(1, 6) {
            let c = format!("xfr1 {}", hex(m));
            out.begin(&c);
            let o = obs_xfr1(m);
            out.case(&c, &o, o == "Ok" || o == "12", "xfr1");
        }
    };

    // fixed name-parsing cases: (message, pos, lim)
    let fixed: Vec<(Vec<u8>, usize, usize)> = vec![
        (vec![0xC1, 0, 0xC0, 0], 2, 4),                         // chain coming down to offset 0
        (vec![0xC0, 2, 0xC0, 0, 0xC0, 2], 4, 6),
        (b"\x03www\x07example\x03com\0\xc0\0".to_vec(), 17, 19),
        (b"\x03com\0\x03www\x07example\xC0\0".to_vec(), 5, 19),
        (b"\x03com\0\x07example\xc0\0\x03www\xc0\x05".to_vec(), 15, 21),
        (b"\x03com\0\x07example\xc0\0\x03www\xc0\x05".to_vec(), 15, 20),
        (vec![0], 0, 1), (vec![0], 0, 0), (vec![0], 1, 1), (vec![1], 0, 1), (vec![0xC0], 0, 1), (vec![0x40], 0, 1),
    ];
    for (m, p, lim) in fixed.iter() {
        idx += 1;
        if !out.wants(idx) { continue; }
        let c = format!("pname {} {} {}", lim, p, hex(m));
        out.begin(&c);
        let o = obs_pname(m, *p, *lim);
        out.case(&c, &o, o.starts_with("Ok"), "pname");
        let c = format!("skip {} {} {}", lim, p, hex(m));
        let o = obs_skip(m, *p, *lim);
        out.case(&c, &o, o.starts_with("Ok"), "skip");
    }
    // exhaustive sub-scope: two compression pointers in a 24 octet window (every pair of targets)
    {
        let base: Vec<u8> = { let mut b = vec![0u8, 7, 0x80, 0, 0, 1, 0, 0, 0, 0, 0, 0]; b.extend(&[0xC0, 0, 1, b'a', 0xC0, 0, 2, b'b', b'c', 0, 0, 1]); b };
        let stride = if a.thorough { 1 } else { 2 };
        for pb in [16usize, 14, 20] {
            for ta in (0..24u8).step_by(stride) {
                for tb in 0..24u8 {
                    idx += 1;
                    if !out.wants(idx) { continue; }
                    let mut m = base.clone();
                    m[12] = 0xC0; m[13] = ta;
                    m[pb] = 0xC0; m[pb + 1] = tb;
                    let c = format!("pname {} {} {}", m.len(), 12, hex(&m));
                    out.begin(&c);
                    let o = obs_pname(&m, 12, m.len());
                    out.case(&c, &o, o.starts_with("Ok"), "pname_two_pointers");
                    let c = format!("pname {} {} {}", m.len(), pb, hex(&m));
                    let o = obs_pname(&m, pb, m.len());
                    out.case(&c, &o, o.starts_with("Ok"), "pname_two_pointers");
                }
            }
        }
    }
    if a.thorough {
        // every octet string of length <= 2 as a name at offset 12
        let hdr = vec![0u8, 7, 0x80, 0, 0, 1, 0, 0, 0, 0, 0, 0];
        for n in 0..=2usize {
            for v in 0..(1u32 << (8 * n)) {
                idx += 1;
                if !out.wants(idx) { continue; }
                let mut m = hdr.clone();
                for k in 0..n { m.push((v >> (8 * (n - 1 - k))) as u8); }
                let c = format!("pname {} {} {}", m.len(), 12, hex(&m));
                out.begin(&c);
                let o = obs_pname(&m, 12, m.len());
                out.case(&c, &o, o.starts_with("Ok"), "pname_all_short");
                if v % 64 == 0 { oracle_msg(&mut out, &m, &query, "all_short"); }
            }
        }
    }
    for m in corpus() { run_msg(&mut out, &mut r, &m, "corpus", &mut idx, true); }
    // truncation of one built message at every offset
    {
        let mut rr = Rng::new(a.seed ^ 0x5151);
        let m = built_message(&mut rr);
        for cut in 0..=m.len() { run_msg(&mut out, &mut r, &m[..cut], "truncate", &mut idx, true); }
    }
    let n_built = 1500 * scale;
    for i in 0..n_built {
        let m = built_message(&mut r);
        run_msg(&mut out, &mut r, &m, "built", &mut idx, true);
        for _ in 0..5 { let mm = mutate(&mut r, &m); run_msg(&mut out, &mut r, &mm, "mutated", &mut idx, i % 3 == 0); }
    }
    for i in 0..2500 * scale { let m = opt_focus_message(&mut r); run_msg(&mut out, &mut r, &m, "optfocus", &mut idx, i % 8 == 0); }
    for i in 0..4000 * scale { let m = rdata_focus_message(&mut r); run_msg(&mut out, &mut r, &m, "rdatafocus", &mut idx, i % 8 == 0); }
    for _ in 0..300 * scale { let m = long_via_pointer(&mut r); run_msg(&mut out, &mut r, &m, "longptr", &mut idx, true); }
    for i in 0..4000 * scale { let m = raw_random(&mut r); run_msg(&mut out, &mut r, &m, "random", &mut idx, i % 3 == 0); }
    for _ in 0..600 * scale {
        idx += 1;
        if !out.wants(idx) { continue; }
        let ms = xfr_messages(&mut r);
        oracle_xfr(&mut out, &ms);
        if let Some(first) = ms.first() { let f = first.clone(); let t2 = idx % 2 == 0; run_msg(&mut out, &mut r, &f, "xfrmsg", &mut idx, t2); }
    }
    if a.thorough {
        // a few maximal messages
        for _ in 0..20 { let mut m = built_message(&mut r); let extra = r.bytes(65535 - m.len().min(65535)); m.extend(extra); m.truncate(65535); run_msg(&mut out, &mut r, &m, "huge", &mut idx, false); }
    }
    out.finish(&[]);
}
