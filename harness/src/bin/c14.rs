//! C14 -- DNSSEC validator: correspondence cases for the pure decision helpers
//! (through `dnssec::validator::verif_hooks`) and an end-to-end property oracle:
//! a signed hierarchy . -> sec. -> zone.sec. (plus insecure delegations and a
//! sibling zone) generated with ring keys is served by an in-process upstream
//! to ValidationContext / net::client::validator::Connection; the upstream is
//! honest or follows an adversarial script.
#![allow(clippy::type_complexity)]
use bytes::Bytes;
use domain::base::iana::{Class, DigestAlgorithm, Nsec3HashAlgorithm, Rcode, SecurityAlgorithm};
use domain::base::name::Label;
use domain::base::{Message, MessageBuilder, Name, Record, Rtype, Serial, ToName, Ttl};
use domain::crypto::sign::{generate, GenerateParams, KeyPair, SignRaw};
use domain::dnssec::validator::anchor::TrustAnchors;
use domain::dnssec::validator::base::{DnskeyExt, RrsigExt};
use domain::dnssec::validator::context::{ValidationContext, ValidationState};
use domain::dnssec::validator::verif_hooks as vh;
use domain::net::client::request::{ComposeRequest, Error as ReqError, GetResponse, RequestMessage, SendRequest};
use domain::net::client::validator;
use domain::rdata::dnssec::{RtypeBitmap, Timestamp};
use domain::rdata::nsec3::{Nsec3Salt, OwnerHash};
use domain::rdata::{AllRecordData, Cname, Dname, Dnskey, Ds, Ns, Nsec, Nsec3, Rrsig, Soa, Txt, ZoneRecordData, A};
use dv_harness::*;
use std::collections::{BTreeMap, BTreeSet};
use std::future::Future;
use std::pin::Pin;
use std::sync::{Arc, Mutex};

type N = Name<Bytes>;
type ZD = ZoneRecordData<Bytes, N>;
type Rec = Record<N, ZD>;

// ------------------------------------------------------------------ names

fn nm(s: &str) -> N { Name::<Bytes>::from_chars(s.chars()).unwrap() }
fn name_from_labels(labels: &[Vec<u8>]) -> Option<N> {
    let mut w = Vec::new();
    for l in labels { if l.is_empty() || l.len() > 63 { return None; } w.push(l.len() as u8); w.extend_from_slice(l); }
    w.push(0);
    if w.len() > 255 { return None; }
    Name::from_octets(Bytes::from(w)).ok()
}
fn labels_of(n: &N) -> Vec<Vec<u8>> { n.iter().filter(|l| !l.is_root()).map(|l| l.as_slice().to_vec()).collect() }
fn nhex(n: &impl ToName) -> String { let n: N = n.to_name(); hex(n.as_slice()) }
fn lc(v: &[u8]) -> Vec<u8> { v.iter().map(|b| b.to_ascii_lowercase()).collect() }
/// RFC 4034 6.1, written independently of the library: compare label vectors
/// from the right, labels as lowercased octet strings.
fn rfc_cmp(a: &N, b: &N) -> std::cmp::Ordering {
    let mut x: Vec<Vec<u8>> = labels_of(a).iter().map(|l| lc(l)).collect();
    let mut y: Vec<Vec<u8>> = labels_of(b).iter().map(|l| lc(l)).collect();
    x.reverse(); y.reverse();
    x.cmp(&y)
}
fn rfc_eq(a: &N, b: &N) -> bool { rfc_cmp(a, b) == std::cmp::Ordering::Equal }
fn is_suffix(base: &N, n: &N) -> bool {
    let b: Vec<Vec<u8>> = labels_of(base).iter().map(|l| lc(l)).collect();
    let x: Vec<Vec<u8>> = labels_of(n).iter().map(|l| lc(l)).collect();
    x.len() >= b.len() && x[x.len() - b.len()..] == b[..]
}
fn rfc_between(t: &N, o: &N, n: &N) -> bool {
    use std::cmp::Ordering::*;
    if rfc_cmp(o, n) == Less { rfc_cmp(o, t) == Less && rfc_cmp(t, n) == Less } else { rfc_cmp(o, t) == Less }
}
fn star(ce: &N) -> Option<N> { let mut l = vec![b"*".to_vec()]; l.extend(labels_of(ce)); name_from_labels(&l) }

// ------------------------------------------------------------------ keys, signing

struct ZKey { zone: N, pair: KeyPair, dnskey: Dnskey<Bytes>, tag: u16 }
fn gen_key(zone: &N) -> ZKey { gen_key_flags(zone, 257) }
fn gen_key_flags(zone: &N, flags: u16) -> ZKey {
    let (sec, pubk) = generate(&GenerateParams::EcdsaP256Sha256, flags).expect("keygen");
    let pair = KeyPair::from_bytes(&sec, &pubk).expect("keypair");
    let dnskey = Dnskey::new(pubk.flags(), pubk.protocol(), pubk.algorithm(), Bytes::copy_from_slice(pubk.public_key().as_ref())).unwrap();
    let tag = dnskey.key_tag();
    ZKey { zone: zone.clone(), pair, dnskey, tag }
}
/// An attacker key for `zone` whose key tag equals `tag`: fresh ECDSA keys, the tag steered through the flags
/// field (zone-key bit kept, it is needed to sign). None if the capped search fails.
fn colliding_key(zone: &N, tag: u16) -> Option<ZKey> {
    // each key reaches a quarter of all tags through its 14 free flag bits: 400 keys make a
    // miss practically impossible ((3/4)^400), and a miss is only counted, never an alarm
    for _ in 0..400 {
        let (sec, pubk) = generate(&GenerateParams::EcdsaP256Sha256, 257).expect("keygen");
        let pair = KeyPair::from_bytes(&sec, &pubk).expect("keypair");
        for f in 0..=0xFFFFu32 {
            let flags = f as u16;
            if flags & 0x0100 == 0 || flags & 0x0080 != 0 { continue; }
            let dnskey = Dnskey::new(flags, pubk.protocol(), pubk.algorithm(), Bytes::copy_from_slice(pubk.public_key().as_ref())).unwrap();
            if dnskey.key_tag() == tag { return Some(ZKey { zone: zone.clone(), pair, dnskey, tag }); }
        }
    }
    None
}
fn now_u32() -> u32 { Serial::now().into_int() }
fn rec(owner: &N, ttl: u32, d: ZD) -> Rec { Record::new(owner.clone(), Class::IN, Ttl::from_secs(ttl), d) }
fn nlabels(n: &N) -> u8 { let l = labels_of(n); (if l.first().map(|x| x.as_slice() == b"*").unwrap_or(false) { l.len() - 1 } else { l.len() }) as u8 }

/// Sign `rrs` (one RRset) with `key`; `labels` as given (wildcard expansion when
/// smaller than the owner's label count), validity inc..exp.
fn sign_with(key: &ZKey, signer: &N, rrs: &[Rec], labels: u8, inc: u32, exp: u32) -> Rec {
    let first = &rrs[0];
    let mk = |sig: Bytes| Rrsig::<Bytes, N>::new(first.rtype(), key.pair.algorithm(), labels, first.ttl(),
        Timestamp::from(exp), Timestamp::from(inc), key.tag, signer.clone(), sig).unwrap();
    let proto = mk(Bytes::new());
    let mut buf: Vec<u8> = Vec::new();
    let mut v: Vec<Rec> = rrs.to_vec();
    proto.signed_data(&mut buf, &mut v).unwrap();
    let sig = key.pair.sign_raw(&buf).expect("sign");
    rec(first.owner(), first.ttl().as_secs(), ZD::Rrsig(mk(Bytes::copy_from_slice(sig.as_ref()))))
}
fn sign(key: &ZKey, rrs: &[Rec]) -> Rec {
    let now = now_u32();
    sign_with(key, &key.zone, rrs, nlabels(rrs[0].owner()), now - 3600, now + 86400)
}
/// RFC 4034 3.1.5 with RFC 1982 arithmetic, written with 64-bit integers: now is not after the
/// expiration and not before the inception; a comparison of values 2^31 apart is undefined = not valid.
fn rfc1982_le(a: u32, b: u32) -> bool { let d = (b as u64 + (1u64 << 32) - a as u64) % (1u64 << 32); d < (1u64 << 31) }
fn rfc1982_valid(now: u32, inc: u32, exp: u32) -> bool { rfc1982_le(now, exp) && rfc1982_le(inc, now) }
fn bitmap(types: &[Rtype]) -> RtypeBitmap<Bytes> {
    let mut b = RtypeBitmap::<Bytes>::builder();
    for t in types { b.add(*t).unwrap(); }
    b.finalize()
}
fn nsec_rec(owner: &N, next: &N, types: &[Rtype], ttl: u32) -> Rec { rec(owner, ttl, ZD::Nsec(Nsec::new(next.clone(), bitmap(types)))) }

// ------------------------------------------------------------------ the world

struct Zone {
    apex: N,
    key: Option<ZKey>,                       // None = unsigned zone
    rrsets: BTreeMap<(N, u16), Vec<Rec>>,    // everything served from this zone (incl. delegation NS / DS)
    sigs: BTreeMap<(N, u16), Rec>,
    nsec_owners: Vec<N>,                     // sorted canonically
    deleg: BTreeSet<N>,                      // delegation points (non-apex NS)
    nsec3: bool,                             // NSEC3 (SHA-1, 0 iterations, empty salt) instead of NSEC
    n3: Vec<(Vec<u8>, N)>,                   // (hash, NSEC3 owner name), sorted by hash
}
impl Zone {
    fn new(apex: &str, signed: bool) -> Zone {
        let apex = nm(apex);
        let key = if signed { Some(gen_key(&apex)) } else { None };
        Zone { apex, key, rrsets: BTreeMap::new(), sigs: BTreeMap::new(), nsec_owners: vec![], deleg: BTreeSet::new(), nsec3: false, n3: vec![] }
    }
    fn add(&mut self, owner: &str, d: ZD) {
        let o = nm(owner);
        let r = rec(&o, 300, d);
        let t = r.rtype();
        if t == Rtype::NS && !rfc_eq(&o, &self.apex) { self.deleg.insert(o.clone()); }
        self.rrsets.entry((o, t.to_int())).or_default().push(r);
    }
    fn names(&self) -> BTreeSet<N> { self.rrsets.keys().map(|k| k.0.clone()).collect() }
    /// names that exist, including empty non-terminals
    fn exists(&self, n: &N) -> bool { self.names().iter().any(|x| is_suffix(n, x)) && is_suffix(&self.apex, n) }
    fn types_at(&self, n: &N) -> Vec<Rtype> { self.rrsets.keys().filter(|k| rfc_eq(&k.0, n)).map(|k| Rtype::from_int(k.1)).collect() }
    fn finish(&mut self) {
        let Some(key) = self.key.as_ref() else { return; };
        let dk = rec(&self.apex, 300, ZD::Dnskey(key.dnskey.clone()));
        self.rrsets.entry((self.apex.clone(), Rtype::DNSKEY.to_int())).or_default().push(dk);
        let names: Vec<N> = self.names().into_iter().collect(); // BTreeSet<Name> is in canonical order
        if self.nsec3 {
            // every existing name, empty non-terminals included, gets an NSEC3
            let mut all: BTreeSet<N> = BTreeSet::new();
            for n in &names { let mut x = n.clone(); loop { all.insert(x.clone()); if rfc_eq(&x, &self.apex) { break; } x = x.parent().unwrap().to_name(); } }
            let mut hs: Vec<(Vec<u8>, N)> = all.iter().map(|n| (n3hash(n), n.clone())).collect();
            hs.sort();
            for i in 0..hs.len() {
                let owner = n3owner(&hs[i].0, &self.apex);
                let mut ts = self.types_at(&hs[i].1);
                if !ts.is_empty() { ts.push(Rtype::RRSIG); }
                let d = Nsec3::new(Nsec3HashAlgorithm::SHA1, 0, 0, Nsec3Salt::<Bytes>::empty(), OwnerHash::from_octets(Bytes::from(hs[(i + 1) % hs.len()].0.clone())).unwrap(), bitmap(&ts));
                self.rrsets.insert((owner.clone(), Rtype::NSEC3.to_int()), vec![rec(&owner, 300, ZD::Nsec3(d))]);
                self.n3.push((hs[i].0.clone(), owner));
            }
        }
        for (i, o) in names.iter().enumerate() {
            if self.nsec3 { break; }
            let next = &names[(i + 1) % names.len()];
            let mut ts = self.types_at(o);
            ts.push(Rtype::NSEC); ts.push(Rtype::RRSIG);
            self.rrsets.insert((o.clone(), Rtype::NSEC.to_int()), vec![nsec_rec(o, next, &ts, 300)]);
        }
        self.nsec_owners = names;
        for (k, rrs) in self.rrsets.iter() {
            if Rtype::from_int(k.1) == Rtype::NS && self.deleg.contains(&k.0) { continue; }
            self.sigs.insert(k.clone(), sign(key, rrs));
        }
    }
    fn get(&self, n: &N, t: Rtype) -> Option<(Vec<Rec>, Option<Rec>)> {
        let k = (n.clone(), t.to_int());
        self.rrsets.get(&k).map(|r| (r.clone(), self.sigs.get(&k).cloned()))
    }
    fn n3_match(&self, n: &N) -> Option<(Vec<Rec>, Option<Rec>)> {
        let h = n3hash(n);
        self.n3.iter().find(|x| x.0 == h).and_then(|x| self.get(&x.1, Rtype::NSEC3))
    }
    fn n3_cover(&self, n: &N) -> Option<(Vec<Rec>, Option<Rec>)> {
        let h = n3hash(n);
        let mut best = self.n3.last()?;
        for x in &self.n3 { if x.0 <= h { best = x; } }
        self.get(&best.1, Rtype::NSEC3)
    }
    /// the denial records for: name exists without the type / name matched by nothing
    fn deny_exists(&self, v: &mut Vec<RRset>, n: &N) {
        if self.key.is_none() { return; }
        if self.nsec3 { push_set(v, self.n3_match(n)); }
        else if self.get(n, Rtype::NSEC).is_some() { push_set(v, self.get(n, Rtype::NSEC)); } else { push_set(v, self.covering(n)); }
    }
    fn deny_covered(&self, v: &mut Vec<RRset>, qname: &N, ce: &N) {
        if self.key.is_none() { return; }
        if self.nsec3 {
            let l = labels_of(qname); let k = labels_of(ce).len();
            let next_closer = name_from_labels(&l[l.len() - k - 1..]).unwrap();
            push_set(v, self.n3_match(ce)); push_set(v, self.n3_cover(&next_closer));
        } else { push_set(v, self.covering(qname)); }
    }
    /// the NSEC whose owner is the greatest one <= n
    fn covering(&self, n: &N) -> Option<(Vec<Rec>, Option<Rec>)> {
        let mut best = self.nsec_owners.last()?;
        for o in &self.nsec_owners { if rfc_cmp(o, n) != std::cmp::Ordering::Greater { best = o; } }
        self.get(best, Rtype::NSEC)
    }
}

fn n3hash(n: &N) -> Vec<u8> {
    let h: OwnerHash<Vec<u8>> = domain::dnssec::common::nsec3_hash(n, Nsec3HashAlgorithm::SHA1, 0, &Nsec3Salt::<Bytes>::empty()).unwrap();
    h.as_slice().to_vec()
}
fn n3owner(h: &[u8], apex: &N) -> N {
    let mut l = vec![domain::utils::base32::encode_string_hex(h).to_ascii_lowercase().into_bytes()];
    l.extend(labels_of(apex));
    name_from_labels(&l).unwrap()
}
struct World { zones: Vec<Zone>, other_key_zone: usize }
fn a(ip: [u8; 4]) -> ZD { ZD::A(A::from_octets(ip[0], ip[1], ip[2], ip[3])) }
fn soa(apex: &str) -> ZD { ZD::Soa(Soa::new(nm(&format!("ns.{}", apex).replace("..", ".")), nm("h."), Serial(1), Ttl::from_secs(3600), Ttl::from_secs(600), Ttl::from_secs(86400), Ttl::from_secs(300))) }
fn ns(t: &str) -> ZD { ZD::Ns(Ns::new(nm(t))) }
fn ds_of(k: &ZKey) -> ZD {
    let d = k.dnskey.digest(&k.zone, DigestAlgorithm::SHA256).unwrap();
    ZD::Ds(Ds::new(k.tag, k.dnskey.algorithm(), DigestAlgorithm::SHA256, Bytes::copy_from_slice(d.as_ref())).unwrap())
}
impl World {
    fn new() -> World {
        let mut root = Zone::new(".", true);
        let mut sec = Zone::new("sec.", true);
        let mut zone = Zone::new("zone.sec.", true);
        let mut other = Zone::new("other.sec.", true);
        let mut ins = Zone::new("ins.", false);
        let mut uns = Zone::new("unsigned.sec.", false);
        let mut dlg = Zone::new("deleg.zone.sec.", false);
        root.add(".", soa(".")); root.add(".", ns("ns."));
        root.add("ns.", a([192, 0, 2, 53]));
        root.add("sec.", ns("ns.sec.")); root.add("sec.", ds_of(sec.key.as_ref().unwrap()));
        root.add("ins.", ns("ns.ins."));
        sec.add("sec.", soa("sec.")); sec.add("sec.", ns("ns.sec.")); sec.add("ns.sec.", a([192, 0, 2, 54]));
        sec.add("zone.sec.", ns("ns.zone.sec.")); sec.add("zone.sec.", ds_of(zone.key.as_ref().unwrap()));
        sec.add("other.sec.", ns("ns.other.sec.")); sec.add("other.sec.", ds_of(other.key.as_ref().unwrap()));
        sec.add("unsigned.sec.", ns("ns.unsigned.sec."));
        zone.add("zone.sec.", soa("zone.sec.")); zone.add("zone.sec.", ns("ns.zone.sec."));
        zone.add("ns.zone.sec.", a([192, 0, 2, 55]));
        zone.add("www.zone.sec.", a([192, 0, 2, 1])); zone.add("www.zone.sec.", a([192, 0, 2, 2]));
        zone.add("txt.zone.sec.", ZD::Txt(Txt::build_from_slice(b"hello").unwrap()));
        zone.add("alias.zone.sec.", ZD::Cname(Cname::new(nm("www.zone.sec."))));
        zone.add("alias2.zone.sec.", ZD::Cname(Cname::new(nm("alias.zone.sec."))));
        zone.add("ext.zone.sec.", ZD::Cname(Cname::new(nm("www.ins."))));
        zone.add("dangling.zone.sec.", ZD::Cname(Cname::new(nm("nope.zone.sec."))));
        zone.add("*.wild.zone.sec.", a([192, 0, 2, 9]));
        zone.add("b.a.zone.sec.", a([192, 0, 2, 3]));
        zone.add("deleg.zone.sec.", ns("ns.deleg.zone.sec."));
        zone.add("zz.zone.sec.", a([192, 0, 2, 4]));
        other.add("other.sec.", soa("other.sec.")); other.add("other.sec.", ns("ns.other.sec."));
        other.add("www.other.sec.", a([192, 0, 2, 77]));
        ins.add("ins.", soa("ins.")); ins.add("ins.", ns("ns.ins.")); ins.add("www.ins.", a([198, 51, 100, 1]));
        uns.add("unsigned.sec.", soa("unsigned.sec.")); uns.add("unsigned.sec.", ns("ns.unsigned.sec.")); uns.add("www.unsigned.sec.", a([198, 51, 100, 2]));
        dlg.add("deleg.zone.sec.", soa("deleg.zone.sec.")); dlg.add("deleg.zone.sec.", ns("ns.deleg.zone.sec.")); dlg.add("www.deleg.zone.sec.", a([198, 51, 100, 3]));
        let mut n3z = Zone::new("n3.sec.", true);
        n3z.nsec3 = true;
        sec.add("n3.sec.", ns("ns.n3.sec.")); sec.add("n3.sec.", ds_of(n3z.key.as_ref().unwrap()));
        n3z.add("n3.sec.", soa("n3.sec.")); n3z.add("n3.sec.", ns("ns.n3.sec."));
        n3z.add("www.n3.sec.", a([192, 0, 2, 31])); n3z.add("*.wild.n3.sec.", a([192, 0, 2, 39]));
        n3z.add("b.a.n3.sec.", a([192, 0, 2, 33])); n3z.add("alias.n3.sec.", ZD::Cname(Cname::new(nm("www.n3.sec."))));
        n3z.add("deleg.n3.sec.", ns("ns.deleg.n3.sec."));
        let mut dlg3 = Zone::new("deleg.n3.sec.", false);
        dlg3.add("deleg.n3.sec.", soa("deleg.n3.sec.")); dlg3.add("deleg.n3.sec.", ns("ns.deleg.n3.sec.")); dlg3.add("www.deleg.n3.sec.", a([198, 51, 100, 4]));
        // two insecure delegations below the empty non-terminal a.zone.sec.
        zone.add("sub.a.zone.sec.", ns("ns.sub.a.zone.sec.")); zone.add("sub2.a.zone.sec.", ns("ns.sub2.a.zone.sec."));
        let mut sub1 = Zone::new("sub.a.zone.sec.", false);
        sub1.add("sub.a.zone.sec.", soa("sub.a.zone.sec.")); sub1.add("sub.a.zone.sec.", ns("ns.sub.a.zone.sec.")); sub1.add("www.sub.a.zone.sec.", a([198, 51, 100, 5]));
        let mut sub2 = Zone::new("sub2.a.zone.sec.", false);
        sub2.add("sub2.a.zone.sec.", soa("sub2.a.zone.sec.")); sub2.add("sub2.a.zone.sec.", ns("ns.sub2.a.zone.sec.")); sub2.add("www.sub2.a.zone.sec.", a([198, 51, 100, 6]));
        let mut zones = vec![root, sec, zone, other, ins, uns, dlg, n3z, dlg3, sub1, sub2];
        for z in zones.iter_mut() { z.finish(); }
        World { zones, other_key_zone: 3 }
    }
    fn zone_for(&self, q: &N, t: Rtype) -> &Zone {
        let mut best: Option<&Zone> = None;
        for z in &self.zones {
            if !is_suffix(&z.apex, q) { continue; }
            if t == Rtype::DS && rfc_eq(&z.apex, q) && !q.is_root() { continue; }
            if best.map_or(true, |b| labels_of(&z.apex).len() > labels_of(&b.apex).len()) { best = Some(z); }
        }
        best.unwrap()
    }
    fn anchors(&self) -> TrustAnchors {
        let k = self.zones[0].key.as_ref().unwrap();
        TrustAnchors::from_u8(format!(". 3600 IN DNSKEY {}", k.dnskey).as_bytes()).expect("trust anchor")
    }
}

// ------------------------------------------------------------------ responses

#[derive(Clone)]
struct RRset { rrs: Vec<Rec>, sigs: Vec<Rec> }
#[derive(Clone)]
struct Resp { rcode: Rcode, answer: Vec<RRset>, authority: Vec<RRset> }
#[derive(Clone, Copy, PartialEq, Debug)]
enum Truth { Data, NoData, NxDomain }

fn push_set(v: &mut Vec<RRset>, x: Option<(Vec<Rec>, Option<Rec>)>) {
    if let Some((rrs, sig)) = x {
        if v.iter().any(|s| rfc_eq(s.rrs[0].owner(), rrs[0].owner()) && s.rrs[0].rtype() == rrs[0].rtype()) { return; }
        v.push(RRset { rrs, sigs: sig.into_iter().collect() });
    }
}

/// What an honest recursive upstream returns (with DO and CD set).
fn honest(w: &World, qname: &N, qtype: Rtype, depth: u32) -> (Resp, Truth) {
    let z = w.zone_for(qname, qtype);
    let mut r = Resp { rcode: Rcode::NOERROR, answer: vec![], authority: vec![] };
    if z.exists(qname) {
        if let Some(x) = z.get(qname, qtype) { push_set(&mut r.answer, Some(x)); return (r, Truth::Data); }
        if qtype != Rtype::CNAME {
            if let Some(x) = z.get(qname, Rtype::CNAME) {
                let tgt: N = match x.0[0].data() { ZD::Cname(c) => c.cname().clone(), _ => unreachable!() };
                push_set(&mut r.answer, Some(x));
                if depth < 8 {
                    let (r2, t2) = honest(w, &tgt, qtype, depth + 1);
                    for s in r2.answer { push_set(&mut r.answer, Some((s.rrs, s.sigs.into_iter().next()))); }
                    r.authority = r2.authority; r.rcode = r2.rcode;
                    return (r, t2);
                }
                return (r, Truth::Data);
            }
        }
        push_set(&mut r.authority, z.get(&z.apex, Rtype::SOA));
        z.deny_exists(&mut r.authority, qname);
        return (r, Truth::NoData);
    }
    // closest encloser
    let mut ce = qname.clone();
    while !z.exists(&ce) { ce = ce.parent().map(|p| p.to_name::<Bytes>()).unwrap_or_else(|| nm(".")); }
    let wc = star(&ce).unwrap();
    if z.exists(&wc) && z.names().iter().any(|x| rfc_eq(x, &wc)) {
        if let Some((rrs, sig)) = z.get(&wc, qtype) {
            let exp: Vec<Rec> = rrs.iter().map(|x| Record::new(qname.clone(), x.class(), x.ttl(), x.data().clone())).collect();
            let sig = sig.map(|s| Record::new(qname.clone(), s.class(), s.ttl(), s.data().clone()));
            r.answer.push(RRset { rrs: exp, sigs: sig.into_iter().collect() });
            z.deny_covered(&mut r.authority, qname, &ce);
            return (r, Truth::Data);
        }
        push_set(&mut r.authority, z.get(&z.apex, Rtype::SOA));
        z.deny_covered(&mut r.authority, qname, &ce);
        z.deny_exists(&mut r.authority, &wc);
        return (r, Truth::NoData);
    }
    r.rcode = Rcode::NXDOMAIN;
    push_set(&mut r.authority, z.get(&z.apex, Rtype::SOA));
    z.deny_covered(&mut r.authority, qname, &ce);
    if z.key.is_some() { if z.nsec3 { push_set(&mut r.authority, z.n3_cover(&wc)); } else { push_set(&mut r.authority, z.covering(&wc)); } }
    (r, Truth::NxDomain)
}

fn build_msg(id: u16, qname: &N, qtype: Rtype, r: &Resp) -> Message<Bytes> {
    let mut mb = MessageBuilder::new_vec();
    mb.header_mut().set_id(id); mb.header_mut().set_qr(true); mb.header_mut().set_rd(true); mb.header_mut().set_ra(true);
    mb.header_mut().set_cd(true); mb.header_mut().set_rcode(r.rcode);
    let mut q = mb.question();
    q.push((qname, qtype)).unwrap();
    let mut an = q.answer();
    for s in &r.answer { for x in s.rrs.iter().chain(s.sigs.iter()) { an.push(x.clone()).unwrap(); } }
    let mut au = an.authority();
    for s in &r.authority { for x in s.rrs.iter().chain(s.sigs.iter()) { au.push(x.clone()).unwrap(); } }
    Message::from_octets(Bytes::from(au.finish())).unwrap()
}

// ------------------------------------------------------------------ adversary

#[derive(Clone, Debug, PartialEq)]
enum Attack {
    None,
    DropSig, DropRrset, CorruptSig, ForgeData, ExpiredSig, FutureSig, WrongSigner, StripDnssec,
    FlipRcode, ReplaceNsec, DropAuthority, EmptyReply, ServFail, SwapSigOwner, ExtraInsecure, ExtraStraySig,
}
const ATTACKS: &[Attack] = &[Attack::DropSig, Attack::DropRrset, Attack::CorruptSig, Attack::ForgeData, Attack::ExpiredSig,
    Attack::FutureSig, Attack::WrongSigner, Attack::StripDnssec, Attack::FlipRcode, Attack::ReplaceNsec, Attack::DropAuthority,
    Attack::EmptyReply, Attack::ServFail, Attack::SwapSigOwner, Attack::ExtraInsecure, Attack::ExtraStraySig];

fn forge(r: &Rec) -> Rec {
    let d = match r.data() {
        ZD::A(_) => a([6, 6, 6, 6]),
        ZD::Cname(_) => ZD::Cname(Cname::new(nm("evil.ins."))),
        ZD::Ns(_) => ns("evil.ins."),
        ZD::Txt(_) => ZD::Txt(Txt::build_from_slice(b"evil").unwrap()),
        ZD::Ds(d) => ZD::Ds(Ds::new(d.key_tag() ^ 1, d.algorithm(), d.digest_type(), d.digest().clone()).unwrap()),
        ZD::Dnskey(k) => { let mut p = k.public_key().to_vec(); p[5] ^= 0x40; ZD::Dnskey(Dnskey::new(k.flags(), k.protocol(), k.algorithm(), Bytes::from(p)).unwrap()) }
        ZD::Nsec(n) => ZD::Nsec(Nsec::new(n.next_name().clone(), bitmap(&[Rtype::RRSIG, Rtype::NSEC]))),
        ZD::Soa(s) => ZD::Soa(Soa::new(s.mname().clone(), s.rname().clone(), Serial(666), s.refresh(), s.retry(), s.expire(), s.minimum())),
        other => other.clone(),
    };
    Record::new(r.owner().clone(), r.class(), r.ttl(), d)
}

/// Apply `atk` to the honest response; `pick` selects the RRset. Returns false
/// when the attack does not apply (response unchanged).
fn mutate(w: &World, r: &mut Resp, atk: &Attack, pick: usize, zone_key: Option<&ZKey>) -> bool {
    let na = r.answer.len(); let nu = r.authority.len();
    let total = na + nu;
    let sel = |r: &mut Resp, i: usize| -> *mut RRset { if i < r.answer.len() { &mut r.answer[i] as *mut _ } else { let k = i - r.answer.len(); &mut r.authority[k] as *mut _ } };
    let now = now_u32();
    match atk {
        Attack::None => false,
        Attack::EmptyReply => { r.answer.clear(); r.authority.clear(); true }
        Attack::ServFail => { r.answer.clear(); r.authority.clear(); r.rcode = Rcode::SERVFAIL; true }
        Attack::StripDnssec => {
            let mut ch = false;
            for s in r.answer.iter_mut().chain(r.authority.iter_mut()) { if !s.sigs.is_empty() { s.sigs.clear(); ch = true; } }
            let before = r.authority.len();
            r.authority.retain(|s| !matches!(s.rrs[0].rtype(), Rtype::NSEC | Rtype::NSEC3));
            ch || before != r.authority.len()
        }
        Attack::FlipRcode => { r.rcode = if r.rcode == Rcode::NXDOMAIN { Rcode::NOERROR } else { Rcode::NXDOMAIN }; true }
        Attack::DropAuthority => { if nu == 0 { return false; } r.authority.clear(); true }
        Attack::ExtraInsecure => {
            let z = &w.zones[4];
            let x = z.get(&nm("www.ins."), Rtype::A).unwrap();
            r.answer.push(RRset { rrs: x.0, sigs: vec![] }); true
        }
        Attack::ExtraStraySig => {
            let z = &w.zones[2];
            let s = z.sigs.get(&(nm("txt.zone.sec."), Rtype::TXT.to_int())).unwrap().clone();
            r.answer.push(RRset { rrs: vec![], sigs: vec![s] }); true
        }
        _ if total == 0 => false,
        Attack::DropRrset => { let i = pick % total; if i < na { r.answer.remove(i); } else { r.authority.remove(i - na); } true }
        Attack::ReplaceNsec => {
            // replay another validly signed NSEC / NSEC3 of the same zone in place of the right one
            let idx: Vec<usize> = (0..nu).filter(|i| matches!(r.authority[*i].rrs[0].rtype(), Rtype::NSEC | Rtype::NSEC3)).collect();
            if idx.is_empty() { return false; }
            let i = idx[pick % idx.len()];
            let owner = r.authority[i].rrs[0].owner().clone();
            let t = r.authority[i].rrs[0].rtype();
            let Some(z) = w.zones.iter().find(|z| z.key.is_some() && z.get(&owner, t).is_some()) else { return false; };
            let cands: Vec<&N> = z.rrsets.keys().filter(|k| k.1 == t.to_int()).map(|k| &k.0).collect();
            let o2 = cands[(pick / 7) % cands.len()];
            if rfc_eq(o2, &owner) { return false; }
            let x = z.get(o2, t).unwrap();
            r.authority[i] = RRset { rrs: x.0, sigs: x.1.into_iter().collect() }; true
        }
        _ => {
            let s = unsafe { &mut *sel(r, pick % total) };
            match atk {
                Attack::DropSig => { if s.sigs.is_empty() { return false; } s.sigs.clear(); true }
                Attack::CorruptSig => {
                    if s.sigs.is_empty() { return false; }
                    let ZD::Rrsig(g) = s.sigs[0].data() else { return false; };
                    let mut b = g.signature().to_vec(); let k = pick % b.len(); b[k] ^= 1 << (pick % 8);
                    let g2 = Rrsig::<Bytes, N>::new(g.type_covered(), g.algorithm(), g.labels(), g.original_ttl(), g.expiration(), g.inception(), g.key_tag(), g.signer_name().clone(), Bytes::from(b)).unwrap();
                    s.sigs[0] = Record::new(s.sigs[0].owner().clone(), Class::IN, s.sigs[0].ttl(), ZD::Rrsig(g2)); true
                }
                Attack::ForgeData => { let f = forge(&s.rrs[0]); if f.data() == s.rrs[0].data() { return false; } s.rrs[0] = f; true }
                Attack::ExpiredSig | Attack::FutureSig => {
                    // an old / premature signature made by the real zone key over forged data:
                    // what a replaying adversary holds after the zone content changed
                    let Some(k) = zone_key else { return false; };
                    if s.sigs.is_empty() { return false; }
                    let f = forge(&s.rrs[0]); if f.data() == s.rrs[0].data() { return false; }
                    s.rrs[0] = f;
                    let (inc, exp) = if *atk == Attack::ExpiredSig { (now - 86400 * 30, now - 120) } else { (now + 120, now + 86400 * 30) };
                    let ZD::Rrsig(g) = s.sigs[0].data() else { return false; };
                    s.sigs = vec![sign_with(k, &k.zone, &s.rrs, g.labels(), inc, exp)]; true
                }
                Attack::WrongSigner => {
                    let k = w.zones[w.other_key_zone].key.as_ref().unwrap();
                    if s.sigs.is_empty() || is_suffix(&k.zone, s.rrs[0].owner()) { return false; }
                    let f = forge(&s.rrs[0]); if f.data() == s.rrs[0].data() { return false; }
                    s.rrs[0] = f;
                    s.sigs = vec![sign(k, &s.rrs)]; true
                }
                Attack::SwapSigOwner => {
                    // keep the data, attach the (valid) signature of a different RRset of the same zone
                    if s.sigs.is_empty() { return false; }
                    let z = &w.zones[2];
                    let other = z.sigs.get(&(nm("zz.zone.sec."), Rtype::A.to_int())).unwrap().clone();
                    if rfc_eq(s.rrs[0].owner(), other.owner()) { return false; }
                    let f = forge(&s.rrs[0]); if f.data() == s.rrs[0].data() { return false; }
                    s.rrs[0] = f;
                    s.sigs = vec![Record::new(s.rrs[0].owner().clone(), Class::IN, other.ttl(), other.data().clone())]; true
                }
                _ => false,
            }
        }
    }
}

// ------------------------------------------------------------------ upstream

#[derive(Clone)]
struct Script { attack: Attack, on_query: usize, pick: usize, raw: Vec<(N, u16, Message<Bytes>)> }
struct Hit { qname: N, qtype: Rtype, truth: Truth, honest: Resp, sent: Resp }
struct MockInner { world: Arc<World>, script: Mutex<Script>, count: Mutex<usize>, applied: Mutex<bool>, log: Mutex<Vec<String>>, hit: Mutex<Option<Hit>>, first: Mutex<Option<Resp>> }
#[derive(Clone)]
struct Mock(Arc<MockInner>);
#[derive(Debug)]
struct MockReq(Option<Result<Message<Bytes>, ReqError>>);
impl GetResponse for MockReq {
    fn get_response(&mut self) -> Pin<Box<dyn Future<Output = Result<Message<Bytes>, ReqError>> + Send + Sync + '_>> {
        let r = self.0.take().unwrap_or(Err(ReqError::ConnectionClosed));
        Box::pin(async move { r })
    }
}
impl Mock {
    fn new(world: Arc<World>, script: Script) -> Mock {
        Mock(Arc::new(MockInner { world, script: Mutex::new(script), count: Mutex::new(0), applied: Mutex::new(false), log: Mutex::new(vec![]), hit: Mutex::new(None), first: Mutex::new(None) }))
    }
    fn answer(&self, id: u16, qname: &N, qtype: Rtype) -> Message<Bytes> {
        let w = &self.0.world;
        let sc = self.0.script.lock().unwrap().clone();
        let idx = { let mut c = self.0.count.lock().unwrap(); *c += 1; *c - 1 };
        self.0.log.lock().unwrap().push(format!("{}/{}", qname, qtype));
        for (n, t, m) in &sc.raw {
            if rfc_eq(n, qname) && *t == qtype.to_int() { *self.0.applied.lock().unwrap() = true; return m.clone(); }
        }
        let (mut r, truth) = honest(w, qname, qtype, 0);
        if sc.attack != Attack::None && idx == sc.on_query {
            let zk = w.zone_for(qname, qtype).key.as_ref();
            let h = r.clone();
            if mutate(w, &mut r, &sc.attack, sc.pick, zk) {
                *self.0.applied.lock().unwrap() = true;
                *self.0.hit.lock().unwrap() = Some(Hit { qname: qname.clone(), qtype, truth, honest: h, sent: r.clone() });
            }
        }
        if idx == 0 { *self.0.first.lock().unwrap() = Some(r.clone()); }
        build_msg(id, qname, qtype, &r)
    }
}
impl SendRequest<RequestMessage<Vec<u8>>> for Mock {
    fn send_request(&self, req: RequestMessage<Vec<u8>>) -> Box<dyn GetResponse + Send + Sync> {
        let res = (|| {
            let msg = req.to_message().ok()?;
            let q = msg.sole_question().ok()?;
            let qn: N = q.qname().to_name();
            Some(self.answer(msg.header().id(), &qn, q.qtype()))
        })();
        Box::new(MockReq(Some(res.ok_or(ReqError::ConnectionClosed))))
    }
}

fn query_msg(qname: &N, qtype: Rtype, dnssec_ok: bool) -> RequestMessage<Vec<u8>> {
    let mut mb = MessageBuilder::new_vec();
    mb.header_mut().set_rd(true);
    let mut q = mb.question();
    q.push((qname, qtype)).unwrap();
    let mut req = RequestMessage::new(q.into_message()).unwrap();
    req.set_dnssec_ok(dnssec_ok);
    req
}

fn st(s: ValidationState) -> &'static str {
    match s { ValidationState::Secure => "Secure", ValidationState::Insecure => "Insecure", ValidationState::Bogus => "Bogus", ValidationState::Indeterminate => "Indeterminate" }
}

// ------------------------------------------------------------------ group-level T2

fn ede_code(e: &Option<domain::base::opt::ExtendedError<Vec<u8>>>) -> u32 {
    let Some(e) = e else { return 0; };
    let t = e.text_slice().map(|t| String::from_utf8_lossy(t).to_string()).unwrap_or_default();
    match t.as_str() {
        "NSEC for NODATA proves requested Rtype or CNAME" => 1,
        "NSEC from apex for DS" => 2,
        "NSEC from parent for non-DS rtype" => 3,
        "cannot create wildcard record" => 4,
        "Found matching NSEC while trying to proof non-existance" => 5,
        "Found ENT NSEC while trying to proof non-existance" => 6,
        "Found NSEC with DNAME or delegation while trying to proof non-existance" => 7,
        "NSEC is expanded from wildcard" => 8,
        "No NSEC3 proves non-existance" => 9,
        "NSEC3 with too high iteration count" => if e.code() == domain::base::iana::ExtendedErrorCode::DNSSEC_BOGUS { 11 } else { 12 },
        "NSEC3 with bad owner hash" => 13,
        "NSEC3 for NODATA proves requested Rtype or CNAME" => 14,
        "NSEC3 from apex for DS" => 15,
        "NSEC3 from parent for non-DS rtype" => 16,
        "Found NSEC3 with DNAME or delegation while trying to proof non-existance" => 17,
        "NSEC3 with Opt-Out" => 18,
        "No NEC/NSEC3 proof for non-existance" => 10,
        _ => 99,
    }
}

/// What a signature-validated group looks like to the denial helpers, as the
/// harness constructed it (the ValidatedGroup type itself is not nameable from
/// outside the crate).
#[derive(Clone)]
struct GView { rtype: u16, nrr: usize, is_nsec: bool, owner: N, next: N, types: Vec<u16>, secure: bool, state: &'static str, signer: N, ce: Option<N> }
fn gwords(v: &GView) -> String {
    let ts = if v.types.is_empty() { "-".to_string() } else { v.types.iter().map(|t| t.to_string()).collect::<Vec<_>>().join(",") };
    format!("{} {} {} {} {} {} {} {} {}", v.rtype, v.nrr, v.is_nsec as u8, nhex(&v.owner), nhex(&v.next), ts, v.state, nhex(&v.signer),
        v.ce.as_ref().map(|c| nhex(c)).unwrap_or("-".into()))
}
/// The same view read off a real ValidatedGroup through its accessors.
fn view(g: &vh::ValidatedGroup) -> GView {
    let rrs = g.rr_set();
    let (is_nsec, next, mut types): (bool, N, Vec<u16>) = match rrs.first().map(|r| r.data()) {
        Some(AllRecordData::Nsec(n)) => (true, n.next_name().to_name::<Bytes>(), n.types().iter().map(|t| t.to_int()).collect()),
        _ => (false, nm("."), vec![]),
    };
    types.sort();
    let secure = g.state() == ValidationState::Secure;
    GView { rtype: g.rtype().to_int(), nrr: rrs.len(), is_nsec, owner: g.owner(), next, types, secure, state: st(g.state()), signer: g.signer_name(), ce: g.closest_encloser() }
}
fn gwords01(v: &GView) -> String {
    let ts = if v.types.is_empty() { "-".to_string() } else { v.types.iter().map(|t| t.to_string()).collect::<Vec<_>>().join(",") };
    format!("{} {} {} {} {} {} {} {} {}", v.rtype, v.nrr, v.is_nsec as u8, nhex(&v.owner), nhex(&v.next), ts, v.secure as u8, nhex(&v.signer),
        v.ce.as_ref().map(|c| nhex(c)).unwrap_or("-".into()))
}
fn usable(v: &GView, signer: &N) -> bool {
    v.rtype == 47 && v.nrr == 1 && v.is_nsec && v.secure && rfc_eq(&v.signer, signer)
        && v.ce.as_ref().map_or(true, |ce| star(ce).map_or(false, |s| rfc_eq(&s, &v.owner)))
}
fn has(v: &GView, t: Rtype) -> bool { v.types.contains(&t.to_int()) }

const LABS: &[&[u8]] = &[b"a", b"b", b"B", b"c", b"*", b"ab", b"a-", b"A", b"z", b"\x00", b"\xff", b"b.", b"0"];
fn rel_name(r: &mut Rng, zone: &N, maxl: u64) -> N {
    let k = r.below(maxl + 1);
    let mut l: Vec<Vec<u8>> = (0..k).map(|_| r.pick(LABS).to_vec()).collect();
    l.extend(labels_of(zone));
    name_from_labels(&l).unwrap()
}
fn flip_case(r: &mut Rng, n: &N) -> N {
    let l: Vec<Vec<u8>> = labels_of(n).iter().map(|x| x.iter().map(|b| if r.chance(1, 2) && b.is_ascii_alphabetic() { b ^ 0x20 } else { *b }).collect()).collect();
    name_from_labels(&l).unwrap()
}
const TYPESET: &[Rtype] = &[Rtype::A, Rtype::NS, Rtype::CNAME, Rtype::SOA, Rtype::DNAME, Rtype::DS, Rtype::TXT, Rtype::NSEC, Rtype::RRSIG, Rtype::AAAA];
const QTYPES: &[Rtype] = &[Rtype::A, Rtype::DS, Rtype::CNAME, Rtype::NS, Rtype::TXT, Rtype::SOA, Rtype::AAAA];

/// Generate NSEC (and a few other) RRsets of zone `zi` with their signatures,
/// together with the view a correct signature validation must produce.
fn make_groups(r: &mut Rng, w: &World, zi: usize, universe: &[N]) -> Vec<(RRset, GView)> {
    let z = &w.zones[zi];
    let key = z.key.as_ref().unwrap();
    let n = 1 + r.below(4) as usize;
    let mut sets: Vec<(RRset, GView)> = vec![];
    let now = now_u32();
    // half of the time the records form (part of) a real chain: sorted owners, the last one pointing to the apex
    let mut pairs: Vec<(N, N)> = vec![];
    if r.chance(1, 2) {
        let mut names: BTreeSet<N> = BTreeSet::new();
        names.insert(z.apex.clone());
        for _ in 0..(2 + r.below(5)) { names.insert(r.pick(universe).clone()); }
        let v: Vec<N> = names.into_iter().collect();
        for i in 0..v.len() { pairs.push((v[i].clone(), v[(i + 1) % v.len()].clone())); }
        for i in (1..pairs.len()).rev() { let j = r.below(i as u64 + 1) as usize; pairs.swap(i, j); }
    }
    let n = if !pairs.is_empty() && r.chance(2, 3) { pairs.len() } else { n };
    for gi in 0..n {
        let (owner, next) = if let Some(p) = pairs.get(gi) { p.clone() } else if !pairs.is_empty() { break } else {
            let o = r.pick(universe).clone();
            let b = r.pick(universe).clone();
            (o, if r.chance(1, 8) { flip_case(r, &b) } else { b })
        };
        if sets.iter().any(|s| rfc_eq(s.0.rrs[0].owner(), &owner)) || pairs.is_empty() && rfc_eq(&owner, &z.apex) && r.chance(1, 2) { continue; }
        let types: Vec<Rtype> = TYPESET.iter().filter(|_| r.chance(1, 3)).cloned().collect();
        let mut tl: Vec<u16> = types.iter().map(|t| t.to_int()).collect(); tl.sort();
        let kind = if r.chance(1, 2) { r.below(60) } else { r.below(100) };
        let nrec = nsec_rec(&owner, &next, &types, 300);
        let ol = labels_of(&owner).len() as u8;
        let mut v = GView { rtype: 47, nrr: 1, is_nsec: true, owner: owner.clone(), next: next.clone(), types: tl, secure: true, state: "Secure", signer: key.zone.clone(), ce: None };
        let set = if kind < 60 {
            RRset { sigs: vec![sign(key, &[nrec.clone()])], rrs: vec![nrec] }
        } else if kind < 63 {
            // signature over different data
            v.secure = false; v.state = "Bogus";
            RRset { sigs: vec![sign(key, &[nsec_rec(&owner, &next, &[Rtype::AAAA, Rtype::HINFO, Rtype::MX], 300)])], rrs: vec![nrec] }
        } else if kind < 78 {
            // RRSIG labels field from 0 to owner labels + 1: below the owner's count = wildcard expansion, above = invalid
            let lab = r.below(ol as u64 + 2) as u8;
            if lab < ol { let l = labels_of(&owner); v.ce = name_from_labels(&l[(ol - lab) as usize..]); }
            if lab > ol { v.secure = false; v.state = "Bogus"; }
            RRset { sigs: vec![sign_with(key, &key.zone, &[nrec.clone()], lab, now - 60, now + 3600)], rrs: vec![nrec] }
        } else if kind < 82 {
            let n2 = nsec_rec(&owner, r.pick(universe), &[Rtype::A], 300);
            if n2.data() == nrec.data() { continue; }
            v.nrr = 2;
            let vv = vec![nrec, n2];
            RRset { sigs: vec![sign(key, &vv)], rrs: vv }
        } else if kind < 86 {
            let vv = vec![rec(&owner, 300, a([192, 0, 2, 200]))];
            v.rtype = 1; v.is_nsec = false; v.next = nm("."); v.types = vec![];
            RRset { sigs: vec![sign(key, &vv)], rrs: vv }
        } else if kind < 88 {
            v.secure = false; v.state = "Bogus";
            RRset { sigs: vec![], rrs: vec![nrec] }
        } else if kind < 92 {
            // signature validity window relative to the wall clock (u32 order in the code)
            let (inc, exp) = match r.below(8) { 0 => (now - 7200, now - 3600), 1 => (now + 3600, now + 7200), 2 => (0, 0xFFFF_FFFF),
                3 => (now - 900, now + 900), 4 => (now.wrapping_add(0x8000_0000), now + 900), 5 => (now - 900, 5),
                6 => (now.wrapping_sub(0x7FFF_0000), now.wrapping_add(0x7FFF_0000)), _ => (now - 900, now.wrapping_add(0x8001_0000)) };
            let ok = rfc1982_valid(now, inc, exp);
            if !ok { v.secure = false; v.state = "Bogus"; }
            RRset { sigs: vec![sign_with(key, &key.zone, &[nrec.clone()], ol, inc, exp)], rrs: vec![nrec] }
        } else {
            // signed by the parent zone's key (which also chains to the anchor): secure, but another signer
            let k2 = w.zones[if zi == 0 { 0 } else { zi - 1 }].key.as_ref().unwrap();
            v.signer = k2.zone.clone();
            RRset { sigs: vec![sign(k2, &[nrec.clone()])], rrs: vec![nrec] }
        };
        // the closest encloser the validator derives: RRSIG labels field below the owner's label count
        // (this includes a record at a wildcard owner itself, whose labels field does not count the `*`)
        if let Some(ZD::Rrsig(g)) = set.sigs.first().map(|x| x.data()) {
            if g.labels() < ol { let l = labels_of(&owner); v.ce = name_from_labels(&l[(ol - g.labels()) as usize..]); }
        }
        sets.push((set, v));
    }
    sets
}

// ------------------------------------------------------------------ main

fn main() {
    let ar = args();
    let mut out = Out::new(&ar, "C14", 60);
    let mut r = Rng::new(ar.seed);
    let scale = ar.scale * if ar.thorough { 8 } else { 1 };
    let mut idx = 0u64;
    let rt = tokio::runtime::Builder::new_current_thread().enable_all().start_paused(true).build().unwrap();

    // ---------------- (1) nsec_in_range
    let root = nm(".");
    let zone = nm("ex.");
    let mut uni: Vec<N> = vec![root.clone(), zone.clone()];
    for _ in 0..60 { uni.push(rel_name(&mut r, &zone, 3)); }
    uni.push(nm("EX.")); uni.push(nm("a.EX.")); uni.push(nm("zzz."));
    let n_inr = 6000 * scale;
    for i in 0..n_inr {
        let (t, o, n) = if i < 8 {
            // corpus: equal to owner, equal to next, single-record chain, wrap-around, case variants
            let c: [(&str, &str, &str); 8] = [("a.ex.", "a.ex.", "c.ex."), ("c.ex.", "a.ex.", "c.ex."), ("b.ex.", "ex.", "ex."), ("ex.", "ex.", "ex."),
                ("zz.ex.", "z.ex.", "ex."), ("B.ex.", "a.EX.", "c.eX."), ("a.b.ex.", "b.ex.", "c.ex."), ("zzz.", "z.ex.", "ex.")];
            (nm(c[i as usize].0), nm(c[i as usize].1), nm(c[i as usize].2))
        } else {
            let o = r.pick(&uni).clone();
            let n = match r.below(6) { 0 => o.clone(), 1 => zone.clone(), _ => r.pick(&uni).clone() };
            let t = match r.below(8) { 0 => flip_case(&mut r, &o), 1 => flip_case(&mut r, &n), _ => r.pick(&uni).clone() };
            (t, o, n)
        };
        idx += 1; if !out.wants(idx) { continue; }
        let c = format!("inr {} {} {}", nhex(&t), nhex(&o), nhex(&n));
        out.begin(&c);
        let (t2, o2, n2) = (t.clone(), o.clone(), n.clone());
        match catch(move || vh::nsec_in_range(&t2, &o2, &n2)) {
            Ok(b) => {
                out.case(&c, if b { "true" } else { "false" }, !rfc_eq(&t, &o) && !rfc_eq(&o, &n), "nsec_in_range");
                out.check(b == rfc_between(&t, &o, &n), "nsec_in_range_rfc4034", &c, &format!("got {}", b));
            }
            Err(e) => { out.case(&c, "Panic", true, "nsec_in_range"); out.check(false, "panic_validator", &c, &e); }
        }
    }

    // ---------------- (2) nsec3_in_range / supported hash / label_to_hash
    let n_h = 6000 * scale;
    for i in 0..n_h {
        let len = *r.pick(&[20usize, 20, 20, 1, 2, 0, 32]);
        let mut o = r.bytes(len);
        let l2 = *r.pick(&[len, len, 3]);
        let mut n = match r.below(5) { 0 => o.clone(), 1 => r.bytes(l2), _ => r.bytes(len) };
        let mut t = match r.below(7) { 0 => o.clone(), 1 => n.clone(), _ => r.bytes(len) };
        if r.chance(1, 3) && len > 0 { // close values: share a prefix
            let p = r.below(len as u64) as usize;
            let np = p.min(n.len()).min(o.len()); n[..np].copy_from_slice(&o[..np]);
            let tp = p.min(t.len()).min(o.len()); t[..tp].copy_from_slice(&o[..tp]);
        }
        if i == 0 { o = vec![0xff; 20]; n = vec![0; 20]; t = vec![0xff; 20]; }
        if i == 1 { o = vec![5; 20]; n = vec![5; 20]; t = vec![9; 20]; }
        idx += 1; if !out.wants(idx) { continue; }
        let c = format!("inr3 {} {} {}", hex(&t), hex(&o), hex(&n));
        out.begin(&c);
        let (th, oh, nh) = (OwnerHash::from_octets(t.clone()).unwrap(), OwnerHash::from_octets(o.clone()).unwrap(), OwnerHash::from_octets(n.clone()).unwrap());
        match catch(move || vh::nsec3_in_range(&th, &oh, &nh)) {
            Ok(b) => {
                out.case(&c, if b { "true" } else { "false" }, o != n && t != o, "nsec3_in_range");
                let want = if n > o { o < t && t < n } else { o < t || t < n };
                out.check(b == want, "nsec3_in_range_rfc5155", &c, &format!("got {}", b));
            }
            Err(e) => { out.case(&c, "Panic", true, "nsec3_in_range"); out.check(false, "panic_validator", &c, &e); }
        }
    }
    for h in 0..=255u8 {
        idx += 1; if !out.wants(idx) { continue; }
        let c = format!("sup3 {}", h);
        let b = vh::supported_nsec3_hash(Nsec3HashAlgorithm::from_int(h));
        out.case(&c, if b { "true" } else { "false" }, b, "supported_nsec3_hash");
        out.check(b == (h == 1), "supported_nsec3_hash", &c, "");
    }
    // nsec3_label_to_hash: the first label of an NSEC3 owner name as sent by an upstream
    let b32: &[u8] = b"0123456789abcdefghijklmnopqrstuvABCDEFGHIJKLMNOPQRSTUV";
    let l2h_corpus: Vec<Vec<u8>> = vec![b"zzzz".to_vec(), b"a".to_vec(), b"ab=".to_vec(), b"0p9mhaveqvm6t7vbl5lop2u3t2rp3tom".to_vec(), b"".to_vec(),
        b"CPNMUOJ1E8".to_vec(), vec![0xff, 0xfe], vec![0xc3, 0xa9], b"w".to_vec(), b"00".to_vec(), b"000".to_vec(), b"00000000".to_vec(), vec![0xe2, 0x82, 0xac, b'0'],
        vec![0xed, 0xa0, 0x80], vec![0xf0, 0x9f, 0x98, 0x80], vec![0xc0, 0x80], vec![0xf4, 0x90, 0x80, 0x80], b"0 ".to_vec()];
    let n_l = 3000 * scale as usize;
    let mut l2h_panics = 0u64;
    for i in 0..(l2h_corpus.len() + n_l) {
        let l: Vec<u8> = if i < l2h_corpus.len() { l2h_corpus[i].clone() } else {
            let len = match r.below(6) { 0 => 32, 1 => r.below(9) as usize, _ => r.below(64) as usize };
            match r.below(5) {
                0 | 1 => (0..len).map(|_| *r.pick(b32)).collect(),
                2 => { let mut v: Vec<u8> = (0..len).map(|_| *r.pick(b32)).collect(); if len > 0 { let k = r.below(len as u64) as usize; v[k] = r.u8(); } v }
                3 => (0..len).map(|_| *r.pick(b"0123abcvwxyzWXYZ=-_ \x7f")).collect(),
                _ => r.bytes(len.min(63)),
            }
        };
        if l.len() > 63 { continue; }
        idx += 1; if !out.wants(idx) { continue; }
        let c = format!("l2h {}", hex(&l));
        out.begin(&c);
        let l2 = l.clone();
        let res = catch(move || { let lab = Label::from_slice(&l2).unwrap(); vh::nsec3_label_to_hash(lab).map(|h| h.as_slice().to_vec()) });
        let is_b32 = std::str::from_utf8(&l).is_ok() && l.iter().all(|b| b32.contains(b)) && !matches!(l.len() % 8, 1 | 3 | 6);
        match res {
            Ok(Ok(h)) => { out.case(&c, &format!("Ok {}", hex(&h)), true, "label_to_hash"); out.check(is_b32, "label_to_hash_accepts_non_base32hex", &c, ""); }
            Ok(Err(e)) => {
                let _ = e;
                out.case(&c, "Err", true, "label_to_hash"); out.check(!is_b32, "label_to_hash_rejects_base32hex", &c, "");
            }
            Err(e) => {
                out.case(&c, "Panic", true, "label_to_hash");
                // every such case is a violation; only the first few are written out (the oracle file is capped)
                l2h_panics += 1;
                if l2h_panics <= 3 { out.check(false, "nsec3_label_to_hash_panic", &c, &e); }
            }
        }
    }
    // RrsigExt::wildcard_closest_encloser
    for _ in 0..(400 * scale) {
        let o = r.pick(&uni).clone();
        let labels = r.below(6) as u8;
        idx += 1; if !out.wants(idx) { continue; }
        let c = format!("wce {} {}", nhex(&o), labels);
        let g = Rrsig::<Bytes, N>::new(Rtype::A, SecurityAlgorithm::ECDSAP256SHA256, labels, Ttl::from_secs(1), Timestamp::from(0), Timestamp::from(0), 0, root.clone(), Bytes::new()).unwrap();
        let ce = g.wildcard_closest_encloser(&rec(&o, 1, a([0, 0, 0, 0])));
        out.case(&c, &ce.as_ref().map(|x| nhex(x)).unwrap_or("-".into()), ce.is_some(), "wildcard_ce");
    }

    // ---------------- (3) world; the NSEC denial helpers driven through validate_msg
    // A negative reply (empty answer, SOA + generated NSEC RRsets in the authority
    // section, all really signed) is validated by the real context; the model gets
    // the groups as a correct signature validation must see them.
    let world = Arc::new(World::new());
    let quiet = Script { attack: Attack::None, on_query: 0, pick: 0, raw: vec![] };
    let w = world.clone();
    // ---------------- (5) targeted adversaries against the orchestration
    let set_of = |x: (Vec<Rec>, Option<Rec>)| RRset { rrs: x.0, sigs: x.1.into_iter().collect() };
    let reown = |rr: &Rec, o: &N| Record::new(o.clone(), rr.class(), rr.ttl(), rr.data().clone());
    let verdict = |out: &mut Out, vc: &ValidationContext<Mock>, c: &str, qn: &N, qt: Rtype, resp: &Resp| -> Option<ValidationState> {
        out.begin(c);
        let mut m = build_msg(11, qn, qt, resp);
        match catch_mut(|| rt.block_on(async { vc.validate_msg(&mut m).await })) {
            Err(p) => { out.check(false, "panic_validator", c, &p); None }
            Ok(Err(_)) => None,
            Ok(Ok((s, _))) => Some(s),
        }
    };
    let mut expiry_phase2: Option<(ValidationContext<Mock>, N, Resp, u32, u32, String)> = None;
    struct Roll { what: &'static str, anchor: bool, vc: ValidationContext<Mock>, mock: Mock, apex: N, owner: N, old: ZKey, newk: ZKey, line: String, must_expire: bool, phase1_ok: bool, t1: u32 }
    let mut rolls_phase2: Vec<Roll> = vec![];
    // (5a') a signature that expires between two validations on ONE context: the second verdict must not rest on
    // the first (the signature cache must not outlive the validity period).  Deterministic: the second validation
    // starts only after the clock has passed the expiration; if the first one came too late the run is skipped and counted.
    if !ar.extra.iter().any(|x| x == "--no-wait") {
        let z = &w.zones[2];
        let kz = z.key.as_ref().unwrap();
        let vc = ValidationContext::new(w.anchors(), Mock::new(w.clone(), quiet.clone()));
        // warm the chain so that the short-lived signature is the only thing validated late
        let warm = nm("www.zone.sec.");
        let _ = verdict(&mut out, &vc, "e2e expiry warm-up", &warm, Rtype::A, &Resp { rcode: Rcode::NOERROR, answer: vec![set_of(z.get(&warm, Rtype::A).unwrap())], authority: vec![] });
        let owner = nm("shortlived.zone.sec.");
        let rrs = vec![rec(&owner, 300, a([192, 0, 2, 66]))];
        let t0 = now_u32();
        let exp = t0 + 2;
        let sig = sign_with(kz, &kz.zone, &rrs, 3, t0 - 600, exp);
        let resp = Resp { rcode: Rcode::NOERROR, answer: vec![RRset { rrs, sigs: vec![sig] }], authority: vec![] };
        // key rollover runs (phase 1 here, phase 2 after the wait below): a zone's DNSKEY RRset {real key, old key} is
        // validated, the old key signs data; then the old key is withdrawn.  Once the signature / TTL that justified the
        // cached node has run out, data signed by the withdrawn key must not validate any more.
        for (what, zi, short_sig, short_ttl, on_ds) in [("anchor DNSKEY signature expires", 0usize, true, false, false), ("anchor DNSKEY TTL runs out", 0, false, true, false), ("anchor control", 0, false, false, false),
                                                        ("child DNSKEY signature expires", 2, true, false, false), ("child DNSKEY TTL runs out", 2, false, true, false),
                                                        ("child DS signature expires", 2, true, false, true), ("child DS TTL runs out", 2, false, true, true), ("child control", 2, false, false, false)] {
            idx += 1; if !out.wants(idx) { continue; }
            let zz = &w.zones[zi];
            let real = zz.key.as_ref().unwrap();
            let old = gen_key_flags(&zz.apex, 256); let newk = gen_key_flags(&zz.apex, 256);
            let dkr = |k: &ZKey, ttl: u32| rec(&k.zone, ttl, ZD::Dnskey(k.dnskey.clone()));
            let t1 = now_u32();
            let long_exp = t1 + 86400;
            let (kttl, kexp) = if on_ds { (3600u32, long_exp) } else { (if short_ttl { 2 } else { 3600 }, if short_sig { t1 + 2 } else { long_exp }) };
            let keyset = vec![dkr(real, kttl), dkr(&old, kttl)];
            let ksig = sign_with(real, &real.zone, &keyset, nlabels(&zz.apex), t1 - 600, kexp);
            let mut raws = vec![(zz.apex.clone(), Rtype::DNSKEY.to_int(), build_msg(9, &zz.apex, Rtype::DNSKEY, &Resp { rcode: Rcode::NOERROR, answer: vec![RRset { rrs: keyset, sigs: vec![ksig] }], authority: vec![] }))];
            let (dttl, dexp) = if on_ds { (if short_ttl { 2u32 } else { 300 }, if short_sig { t1 + 2 } else { long_exp }) } else { (300, long_exp) };
            if zi != 0 {
                let pk = w.zones[1].key.as_ref().unwrap();
                let dsr = vec![rec(&zz.apex, dttl, ds_of(real))];
                let dsig = sign_with(pk, &pk.zone, &dsr, nlabels(&zz.apex), t1 - 600, dexp);
                raws.push((zz.apex.clone(), Rtype::DS.to_int(), build_msg(9, &zz.apex, Rtype::DS, &Resp { rcode: Rcode::NOERROR, answer: vec![RRset { rrs: dsr, sigs: vec![dsig] }], authority: vec![] })));
            }
            let mock = Mock::new(w.clone(), Script { attack: Attack::None, on_query: 0, pick: 0, raw: raws });
            let vc = ValidationContext::new(w.anchors(), mock.clone());
            let owner = if zi == 0 { nm("ns.") } else { nm("roll.zone.sec.") };
            let d1 = vec![rec(&owner, 300, a([10, 0, 0, 1]))];
            let c = format!("e2e rollover ({}): {} A signed by the old key, first validation", what, owner);
            let s1 = verdict(&mut out, &vc, &c, &owner, Rtype::A, &Resp { rcode: Rcode::NOERROR, answer: vec![RRset { sigs: vec![sign(&old, &d1)], rrs: d1 }], authority: vec![] });
            let phase1_ok = s1 == Some(ValidationState::Secure) && now_u32() <= t1 + 1;
            let line = if zi == 0 { format!("anchorttl {} N2 604800 {} {} {} {}", t1, kttl, kttl, kttl, kexp) }
                       else { format!("childttl {} N2 290 {} {} {} {} {} {} {} {}", t1, dttl, dttl, dttl, dexp, kttl, kttl, kttl, kexp) };
            rolls_phase2.push(Roll { what, anchor: zi == 0, vc, mock, apex: zz.apex.clone(), owner, old, newk, line, must_expire: short_sig || short_ttl, phase1_ok, t1 });
        }
        idx += 1;
        if out.wants(idx) {
            let c = format!("e2e expiry shortlived.zone.sec. A, RRSIG expiring at {}: validated at {} and again after the expiration on the same context", exp, t0);
            out.oracle_case(&c, true, "e2e_expiry");
            let s1 = verdict(&mut out, &vc, &c, &owner, Rtype::A, &resp);
            if now_u32() > exp || s1 != Some(ValidationState::Secure) { out.count("expiry_case_skipped_first_validation_late"); }
            else { expiry_phase2 = Some((vc, owner, resp, t0, exp, c)); }
        }
    }
    {
        let w = world.clone();
        let vc = ValidationContext::new(w.anchors(), Mock::new(w.clone(), quiet.clone()));
        let n_g = 4000 * scale;
        let mut unis: Vec<Vec<N>> = vec![];
        for zi in [0usize, 1] {
            let apex = w.zones[zi].apex.clone();
            let mut u = vec![apex.clone()];
            for _ in 0..14 { u.push(rel_name(&mut r, &apex, 3)); }
            if let Some(s) = star(&apex) { u.push(s); }
            unis.push(u);
        }
        for _ in 0..n_g {
            let zi = if r.chance(2, 3) { 0 } else { 1 };
            let uni = unis[zi].clone();
            let z = &w.zones[zi];
            let sets = make_groups(&mut r, &w, zi, &uni);
            if sets.is_empty() { continue; }
            let views: Vec<GView> = sets.iter().map(|s| s.1.clone()).collect();
            let gw: String = views.iter().map(gwords).collect::<Vec<_>>().join(" ");
            let signer = z.apex.clone();
            let soa = z.get(&z.apex, Rtype::SOA).unwrap();
            let any_bogus = views.iter().any(|v| !v.secure);
            for _ in 0..2 {
                let base = r.pick(&uni).clone();
                let target = match r.below(5) { 0 => flip_case(&mut r, &base), 1 => { let mut l = vec![r.pick(LABS).to_vec()]; l.extend(labels_of(r.pick(&uni))); name_from_labels(&l).unwrap() } _ => r.pick(&uni).clone() };
                let qt = *r.pick(QTYPES);
                let nx = r.chance(1, 2);
                let us: Vec<&GView> = views.iter().filter(|v| usable(v, &signer)).collect();
                let covers = |t: &N| us.iter().any(|v| !rfc_eq(t, &v.owner) && rfc_between(t, &v.owner, &v.next) && !is_suffix(t, &v.next)
                    && !(is_suffix(&v.owner, t) && (has(v, Rtype::DNAME) || (has(v, Rtype::NS) && !has(v, Rtype::SOA)))));
                idx += 1; if !out.wants(idx) { continue; }
                let c = format!("negmsg {} {} {} {} {}", nx as u8, nhex(&target), qt.to_int(), nhex(&signer), gw);
                out.begin(&c);
                let mut auth = vec![RRset { rrs: soa.0.clone(), sigs: soa.1.clone().into_iter().collect() }];
                // the SOA group first or last: the helpers must skip it
                let soa_last = r.chance(1, 2);
                if soa_last { auth.clear(); }
                for s in &sets { auth.push(s.0.clone()); }
                if soa_last { auth.push(RRset { rrs: soa.0.clone(), sigs: soa.1.clone().into_iter().collect() }); }
                let resp = Resp { rcode: if nx { Rcode::NXDOMAIN } else { Rcode::NOERROR }, answer: vec![], authority: auth };
                let mut m = build_msg(3, &target, qt, &resp);
                let res = catch_mut(|| rt.block_on(async { vc.validate_msg(&mut m).await }));
                match res {
                    Err(p) => { out.case(&c, "Panic", true, "negative_reply"); out.check(false, "panic_validator", &c, &p); }
                    Ok(Err(e)) => { out.case(&c, &format!("Error {}", e), true, "negative_reply"); }
                    Ok(Ok((s, e))) => {
                        // the extended error of a reply rejected because one of its groups failed signature
                        // validation depends on the chain lookups, which are not modelled: canonical code 99
                        let code = if any_bogus && s == ValidationState::Bogus { 99 } else { ede_code(&e) };
                        out.case(&c, &format!("{} {}", st(s), code), s == ValidationState::Secure, "negative_reply");
                        out.check(!(any_bogus && s == ValidationState::Secure), "secure_without_chain", &c, "a group without a valid signature in the reply, verdict secure");
                        if s == ValidationState::Secure && !nx {
                            // RFC 4035 5.4 NODATA: matching NSEC without the type / CNAME bits, or ENT proof, or wildcard NODATA
                            let direct = us.iter().any(|v| (rfc_eq(&target, &v.owner) && !v.types.contains(&qt.to_int()) && !has(v, Rtype::CNAME)
                                    && (if qt == Rtype::DS && !target.is_root() { !(has(v, Rtype::NS) && has(v, Rtype::SOA)) } else { !(has(v, Rtype::NS) && !has(v, Rtype::SOA)) }))
                                || (!rfc_eq(&target, &v.owner) && rfc_between(&target, &v.owner, &v.next) && is_suffix(&target, &v.next)));
                            out.check(direct || covers(&target), "denial_unsound_nodata", &c, "secure NODATA without a matching, ENT-proving or covering secure NSEC");
                        }
                        if s == ValidationState::Secure && nx {
                            // RFC 4035 5.4 name error: an NSEC covering the name and one covering the wildcard at a closest encloser
                            let wild_ok = us.iter().any(|v| !rfc_eq(&target, &v.owner) && rfc_between(&target, &v.owner, &v.next) && {
                                let mut best: Option<N> = None;
                                for cand in [&v.owner, &v.next] {
                                    let mut x = (*cand).clone();
                                    loop { if is_suffix(&x, &target) { if best.as_ref().map_or(true, |b| labels_of(&x).len() > labels_of(b).len()) { best = Some(x.clone()); } break; }
                                           match x.parent() { Some(p) => x = p.to_name(), None => break } }
                                }
                                best.and_then(|ce| star(&ce)).map_or(false, |wn| covers(&wn))
                            });
                            out.check(covers(&target) && wild_ok, "denial_unsound_nxdomain", &c, "secure name error without covering NSECs for the name and the wildcard");
                        }
                    }
                }
            }
        }
    }

    // ---------------- (3a) the NSEC helpers called directly on really validated groups
    {
        let w = world.clone();
        let vc = ValidationContext::new(w.anchors(), Mock::new(w.clone(), quiet.clone()));
        let cfg = domain::dnssec::validator::context::Config::new();
        let mut unis: Vec<Vec<N>> = vec![];
        for zi in [0usize, 1] {
            let apex = w.zones[zi].apex.clone();
            let mut u = vec![apex.clone()];
            for _ in 0..14 { u.push(rel_name(&mut r, &apex, 3)); }
            if let Some(s) = star(&apex) { u.push(s); }
            unis.push(u);
        }
        for _ in 0..(1200 * scale) {
            let zi = if r.chance(2, 3) { 0 } else { 1 };
            let uni = unis[zi].clone();
            let sets = make_groups(&mut r, &w, zi, &uni);
            if sets.is_empty() { continue; }
            let resp = Resp { rcode: Rcode::NOERROR, answer: sets.iter().map(|s| s.0.clone()).collect(), authority: vec![] };
            let msg = build_msg(5, &nm("q."), Rtype::A, &resp);
            let mut gs = vh::GroupSet::new();
            for rr in msg.answer().unwrap() { gs.add(rr.unwrap()).unwrap(); }
            let raw: Vec<vh::Group> = gs.iter().cloned().collect();
            let mut groups: Vec<vh::ValidatedGroup> = vec![];
            for g in raw { if let Ok(vg) = rt.block_on(g.validated::<Vec<u8>, Mock>(&vc, &cfg)) { groups.push(vg); } }
            let views: Vec<GView> = groups.iter().map(view).collect();
            // the signature validation itself: the state the harness expects from how it signed
            for v in &views {
                if let Some(exp) = sets.iter().find(|s| rfc_eq(&s.1.owner, &v.owner) && s.1.rtype == v.rtype) {
                    out.check(exp.1.secure == v.secure, if v.secure { "secure_without_chain" } else { "honest_not_secure" }, &format!("group {} {}", v.owner, v.rtype), &format!("expected secure={} got {}", exp.1.secure, v.state));
                    out.check(exp.1.ce.as_ref().map(|c| nhex(c)) == v.ce.as_ref().map(|c| nhex(c)) || !v.secure, "wildcard_closest_encloser_differs", &format!("group {} {}", v.owner, v.rtype), "");
                }
            }
            let gw: String = views.iter().map(gwords01).collect::<Vec<_>>().join(" ");
            let apex = w.zones[zi].apex.clone();
            let signer = match r.below(10) { 0 => flip_case(&mut r, &apex), 1 => nm("other.sec."), 2 => nm("."), _ => apex.clone() };
            let base = r.pick(&uni).clone();
            let target = match r.below(5) { 0 => flip_case(&mut r, &base), 1 => { let mut l = vec![r.pick(LABS).to_vec()]; l.extend(labels_of(&base)); name_from_labels(&l).unwrap() } _ => base };
            let qt = *r.pick(QTYPES);
            let nxs = |s: &vh::NsecNXState| match s { vh::NsecNXState::Exists => "Exists".to_string(), vh::NsecNXState::Nothing => "Nothing".to_string(), vh::NsecNXState::DoesNotExist(ce) => format!("DoesNotExist {}", nhex(ce)) };
            idx += 1;
            if out.wants(idx) {
                let c = format!("nodata {} {} {} {}", nhex(&target), qt.to_int(), nhex(&signer), gw);
                out.begin(&c);
                match catch_mut(|| vh::nsec_for_nodata(&target, &mut groups, qt, &signer)) {
                    Ok((s, e)) => { let nd = matches!(s, vh::NsecState::NoData); out.case(&c, &format!("{} {}", if nd { "NoData" } else { "Nothing" }, ede_code(&e)), nd, "nsec_for_nodata"); }
                    Err(e) => { out.case(&c, "Panic", true, "nsec_for_nodata"); out.check(false, "panic_validator", &c, &e); }
                }
            }
            idx += 1;
            if out.wants(idx) {
                let c = format!("notex {} {} {}", nhex(&target), nhex(&signer), gw);
                out.begin(&c);
                match catch_mut(|| vh::nsec_for_not_exists(&target, &mut groups, &signer)) {
                    Ok((s, e)) => {
                        out.case(&c, &format!("{} {}", nxs(&s), ede_code(&e)), matches!(s, vh::NsecNXState::DoesNotExist(_)), "nsec_for_not_exists");
                        if let vh::NsecNXState::DoesNotExist(ce) = &s {
                            out.check(is_suffix(ce, &target) && !rfc_eq(ce, &target), "closest_encloser_not_proper_suffix", &c, &format!("ce {}", ce));
                        }
                    }
                    Err(e) => { out.case(&c, "Panic", true, "nsec_for_not_exists"); out.check(false, "panic_validator", &c, &e); }
                }
            }
            idx += 1;
            if out.wants(idx) {
                let c = format!("nxdom {} {} {}", nhex(&target), nhex(&signer), gw);
                out.begin(&c);
                match catch_mut(|| vh::nsec_for_nxdomain(&target, &mut groups, &signer)) {
                    Ok((s, e)) => out.case(&c, &format!("{} {}", nxs(&s), ede_code(&e)), matches!(s, vh::NsecNXState::DoesNotExist(_)), "nsec_for_nxdomain"),
                    Err(e) => { out.case(&c, "Panic", true, "nsec_for_nxdomain"); out.check(false, "panic_validator", &c, &e); }
                }
            }
            idx += 1;
            if out.wants(idx) {
                let c = format!("ndwild {} {} {} {}", nhex(&target), qt.to_int(), nhex(&signer), gw);
                out.begin(&c);
                match catch_mut(|| vh::nsec_for_nodata_wildcard(&target, &mut groups, qt, &signer)) {
                    Ok((s, e)) => { let nd = matches!(s, vh::NsecState::NoData); out.case(&c, &format!("{} {}", if nd { "NoData" } else { "Nothing" }, ede_code(&e)), nd, "nsec_for_nodata_wildcard"); }
                    Err(e) => { out.case(&c, "Panic", true, "nsec_for_nodata_wildcard"); out.check(false, "panic_validator", &c, &e); }
                }
            }
        }
    }

    // ---------------- (3c) signature validity times
    {
        // the comparison of check_sig (`ts_now <= expiration && ts_now >= inception` on Timestamps) for any clock value
        let edge: [u32; 12] = [0, 1, 0x100, 0x10000, 0x7FFF_FFFF, 0x8000_0000, 0x8000_0001, 0xFFFF_F000, 0xFFFF_FFFF, 1_790_000_000, 0x7FFF_FF00, 0x8000_0100];
        let corpus: [(u32, u32, u32); 4] = [(0x100, 0xFFFF_F000, 0x10000), (1_790_000_000, 0, 0xFFFF_FFFF), (0, 0, 0x8000_0000), (5, 0xFFFF_FFF0, 20)];
        for i in 0..(2000 * scale as usize + corpus.len()) {
            let (now, inc, exp) = if i < corpus.len() { corpus[i] } else {
                let now = if r.chance(1, 2) { *r.pick(&edge) } else { r.u32() };
                let d = |r: &mut Rng| match r.below(5) { 0 => r.below(4) as u32, 1 => 0x7FFF_FFFE + r.below(5) as u32, 2 => r.below(100_000) as u32, 3 => 0x8000_0000u32.wrapping_sub(r.below(3) as u32), _ => r.u32() };
                (now, now.wrapping_sub(d(&mut r)), now.wrapping_add(d(&mut r)))
            };
            idx += 1; if !out.wants(idx) { continue; }
            let c = format!("sigtime {} {} {}", now, inc, exp);
            let (t, i2, e) = (Timestamp::from(now), Timestamp::from(inc), Timestamp::from(exp));
            let ok = t <= e && t >= i2;
            out.case(&c, if ok { "true" } else { "false" }, ok, "sig_time");
            out.check(ok == rfc1982_valid(now, inc, exp), "sig_time_not_rfc1982", &c, &format!("got {}", ok));
        }
        // the same through the validator with the wall clock: an RRset signed with the given window
        let w = world.clone();
        let kz = w.zones[2].key.as_ref().unwrap();
        let vc = ValidationContext::new(w.anchors(), Mock::new(w.clone(), quiet.clone()));
        for i in 0..(40 * scale) {
            let now = now_u32();
            let (inc, exp) = match i % 10 { 0 => (now - 900, now + 900), 1 => (now - 900, now.wrapping_add(0x8000_1000)), 2 => (0, 0xFFFF_FFFF), 3 => (now.wrapping_add(0x8000_1000), now + 900),
                4 => (now - 7200, now - 900), 5 => (now + 900, now + 7200), 6 => (now.wrapping_sub(0x7FFF_0000), now.wrapping_add(0x7FFF_0000)), 7 => (now - 900, now.wrapping_add(0x7FFF_F000)),
                8 => (now.wrapping_sub(r.below(0x7000_0000) as u32 + 100), now.wrapping_add(r.below(0x7000_0000) as u32 + 100)), _ => (r.u32(), r.u32()) };
            // keep the bounds away from the clock and from the undefined distance: the clock ticks between signing and checking
            let near = |x: u32| { let d = x.wrapping_sub(now); d < 600 || d > 0xFFFF_FDA8 || (d > 0x7FFF_FDA8 && d < 0x8000_0258) };
            if near(inc) || near(exp) { continue; }
            let owner = nm(&format!("t{}.zone.sec.", i));
            let rrs = vec![rec(&owner, 300, a([192, 0, 2, 40]))];
            let sig = sign_with(kz, &kz.zone, &rrs, 3, inc, exp);
            let resp = Resp { rcode: Rcode::NOERROR, answer: vec![RRset { rrs, sigs: vec![sig] }], authority: vec![] };
            idx += 1; if !out.wants(idx) { continue; }
            let c = format!("sigtime {} {} {}", now, inc, exp);
            out.begin(&c);
            let mut m = build_msg(6, &owner, Rtype::A, &resp);
            match catch_mut(|| rt.block_on(async { vc.validate_msg(&mut m).await })) {
                Err(p) => { out.case(&c, "Panic", true, "sig_time_e2e"); out.check(false, "panic_validator", &c, &p); }
                Ok(Err(e)) => out.case(&c, &format!("Error {}", e), true, "sig_time_e2e"),
                Ok(Ok((s, _))) => {
                    let ok = s == ValidationState::Secure;
                    out.case(&c, if ok { "true" } else { "false" }, ok, "sig_time_e2e");
                    out.check(ok == rfc1982_valid(now, inc, exp), "sig_time_not_rfc1982", &c, &format!("verdict {} for a signature valid from {} to {} at {}", st(s), inc, exp, now));
                }
            }
        }
    }

    // ---------------- (3d) the NSEC3 helpers called directly on really validated groups
    {
        let w = world.clone();
        let vc = ValidationContext::new(w.anchors(), Mock::new(w.clone(), quiet.clone()));
        let vcfg = domain::dnssec::validator::context::Config::new();
        let hash = |n: &N, it: u16, salt: &[u8]| -> Vec<u8> {
            let s = Nsec3Salt::<Bytes>::from_octets(Bytes::copy_from_slice(salt)).unwrap();
            let h: OwnerHash<Vec<u8>> = domain::dnssec::common::nsec3_hash(n, Nsec3HashAlgorithm::SHA1, it, &s).unwrap();
            h.as_slice().to_vec()
        };
        let b32 = |h: &[u8]| domain::utils::base32::encode_string_hex(h).to_ascii_lowercase().into_bytes();
        let mut unis: Vec<Vec<N>> = vec![];
        for zi in [0usize, 1] {
            let apex = w.zones[zi].apex.clone();
            let mut u = vec![apex.clone()];
            for _ in 0..10 { u.push(rel_name(&mut r, &apex, 2)); }
            if let Some(s) = star(&apex) { u.push(s); }
            unis.push(u);
        }
        for _ in 0..(900 * scale) {
            let zi = if r.chance(1, 2) { 0 } else { 1 };
            let uni = unis[zi].clone();
            let z = &w.zones[zi];
            let key = z.key.as_ref().unwrap();
            let apex = z.apex.clone();
            // limits: the defaults, or small ones so that the over-limit branches are cheap to reach
            let mut cfg = domain::dnssec::validator::context::Config::new();
            let (ci, cb) = if r.chance(1, 2) { (100u16, 500u16) } else { let a1 = r.below(4) as u16; let b1 = r.below(5) as u16; cfg.set_nsec3_iter_insecure(a1); cfg.set_nsec3_iter_bogus(b1); (a1, b1) };
            let it0 = *r.pick(&[0u16, 0, 1, 2, 3]);
            let salt0: Vec<u8> = if r.chance(1, 2) { vec![] } else { vec![0xab, 0xcd] };
            // a real chain over some names of the zone
            let mut names: Vec<N> = vec![apex.clone()];
            for _ in 0..(1 + r.below(5)) { let n = r.pick(&uni).clone(); if !names.iter().any(|x| rfc_eq(x, &n)) { names.push(n); } }
            let mut hs: Vec<(Vec<u8>, N)> = names.iter().map(|n| (hash(n, it0, &salt0), n.clone())).collect();
            hs.sort();
            let mut sets: Vec<RRset> = vec![];
            for i in 0..hs.len() {
                if r.chance(1, 5) { continue; } // an incomplete chain
                let mut it = it0; let mut salt = salt0.clone(); let mut alg = 1u8;
                let mut label = b32(&hs[i].0);
                let mut next = hs[(i + 1) % hs.len()].0.clone();
                let types: Vec<Rtype> = TYPESET.iter().filter(|_| r.chance(1, 4)).cloned().collect();
                let flags = if r.chance(1, 6) { 1u8 } else if r.chance(1, 20) { 0x80 } else { 0 };
                match r.below(40) {
                    0 => it = it0 + 1 + r.below(3) as u16, 1 => salt = vec![1], 2 => alg = 2, 3 => label = b"zzzz".to_vec(), 4 => label = vec![0xff, 0xfe],
                    5 => label = b"00".to_vec(), 6 => next = r.bytes(20), 7 => next = r.bytes(8), 8 => label = b32(&r.bytes(20)), 9 => label = b32(&hs[i].0).to_ascii_uppercase(),
                    _ => {}
                }
                let mut l = vec![label]; l.extend(labels_of(&apex));
                let Some(owner) = name_from_labels(&l) else { continue; };
                if sets.iter().any(|x| rfc_eq(x.rrs[0].owner(), &owner)) { continue; }
                let d = Nsec3::new(Nsec3HashAlgorithm::from_int(alg), flags, it, Nsec3Salt::<Bytes>::from_octets(Bytes::from(salt)).unwrap(), OwnerHash::from_octets(Bytes::from(next)).unwrap(), bitmap(&types));
                let n3rec = rec(&owner, 300, ZD::Nsec3(d));
                let set = match r.below(30) {
                    0 => RRset { sigs: vec![], rrs: vec![n3rec] },
                    1 => RRset { sigs: vec![sign(key, &[rec(&owner, 300, a([1, 1, 1, 1]))])], rrs: vec![n3rec] },
                    2 => { let k2 = w.zones[if zi == 0 { 0 } else { zi - 1 }].key.as_ref().unwrap(); RRset { sigs: vec![sign(k2, &[n3rec.clone()])], rrs: vec![n3rec] } }
                    3 => { let v = vec![rec(&owner, 300, a([192, 0, 2, 201]))]; RRset { sigs: vec![sign(key, &v)], rrs: v } }
                    4 => { let d2 = Nsec3::new(Nsec3HashAlgorithm::SHA1, 0, 0, Nsec3Salt::<Bytes>::empty(), OwnerHash::from_octets(Bytes::from(r.bytes(20))).unwrap(), bitmap(&[Rtype::A])); let v = vec![n3rec, rec(&owner, 300, ZD::Nsec3(d2))]; RRset { sigs: vec![sign(key, &v)], rrs: v } }
                    _ => RRset { sigs: vec![sign(key, &[n3rec.clone()])], rrs: vec![n3rec] },
                };
                sets.push(set);
            }
            if sets.is_empty() { continue; }
            for i in (1..sets.len()).rev() { let j = r.below(i as u64 + 1) as usize; sets.swap(i, j); }
            let msg = build_msg(5, &nm("q."), Rtype::A, &Resp { rcode: Rcode::NOERROR, answer: sets, authority: vec![] });
            let mut gs = vh::GroupSet::new();
            for rr in msg.answer().unwrap() { gs.add(rr.unwrap()).unwrap(); }
            let raw: Vec<vh::Group> = gs.iter().cloned().collect();
            let mut groups: Vec<vh::ValidatedGroup> = vec![];
            for g in raw { if let Ok(vg) = rt.block_on(g.validated::<Vec<u8>, Mock>(&vc, &vcfg)) { groups.push(vg); } }
            // the view of the groups, read through the accessors
            let mut params: Vec<(u16, Vec<u8>)> = vec![];
            let gw: Vec<String> = groups.iter().map(|g| {
                let rrs = g.rr_set();
                let first: Vec<u8> = g.owner().first().as_slice().to_vec();
                match rrs.first().map(|x| x.data()) {
                    Some(AllRecordData::Nsec3(n)) => {
                        let salt = n.salt().as_slice().to_vec();
                        if !params.contains(&(n.iterations(), salt.clone())) { params.push((n.iterations(), salt.clone())); }
                        let mut ts: Vec<u16> = n.types().iter().map(|t| t.to_int()).collect(); ts.sort();
                        let tsw = if ts.is_empty() { "-".to_string() } else { ts.iter().map(|t| t.to_string()).collect::<Vec<_>>().join(",") };
                        format!("{} 1 {} {} {} {} {} {} {} {} {}", rrs.len(), (g.state() == ValidationState::Secure) as u8, nhex(&g.signer_name()), n.hash_algorithm().to_int(),
                            n.opt_out() as u8, n.iterations(), hex(&salt), hex(&first), hex(n.next_owner().as_slice()), tsw)
                    }
                    _ => format!("{} 0 {} {} 0 0 0 - {} - -", rrs.len(), (g.state() == ValidationState::Secure) as u8, nhex(&g.signer_name()), hex(&first)),
                }
            }).collect();
            let gwords = gw.join(" ");
            let cache = vh::Nsec3Cache::new(100);
            for _ in 0..2 {
                let base = r.pick(&uni).clone();
                let mut l = labels_of(&base);
                match r.below(6) { 0 | 1 => {} 2 | 3 => l.insert(0, r.pick(LABS).to_vec()), 4 => { l.insert(0, r.pick(LABS).to_vec()); l.insert(0, r.pick(LABS).to_vec()); } _ => { l = labels_of(&names[r.below(names.len() as u64) as usize]); if r.chance(1, 2) { l.insert(0, b"x".to_vec()); } } }
                let Some(mut target) = name_from_labels(&l) else { continue; };
                if r.chance(1, 8) { target = flip_case(&mut r, &target); }
                let signer = match r.below(12) { 0 => flip_case(&mut r, &apex), 1 => nm("other.sec."), _ => apex.clone() };
                let qt = *r.pick(QTYPES);
                // hash table for the model: every suffix of the target and the wildcard at each, per parameter set within the limits
                let mut tnames: Vec<N> = vec![];
                { let tl = labels_of(&target); for k in 0..=tl.len() { let sfx = name_from_labels(&tl[k..]).unwrap(); if let Some(st) = star(&sfx) { tnames.push(st); } tnames.push(sfx); } }
                let mut tbl: Vec<String> = vec![];
                for (it, salt) in &params { if *it > ci.max(cb) + 4 { continue; } for n in &tnames { tbl.push(format!("{}:{}:{}:{}", it, hex(salt), nhex(n), hex(&hash(n, *it, salt)))); } }
                let tblw = if tbl.is_empty() { "-".to_string() } else { tbl.join(",") };
                let pre = |f: &str| format!("n3 {} {} {} {} {} {} {} {}", f, nhex(&target), qt.to_int(), nhex(&signer), ci, cb, tblw, gwords);
                let nx3 = |s: &vh::Nsec3NXState| match s { vh::Nsec3NXState::DoesNotExist(ce) => format!("DNE {}", nhex(ce)), vh::Nsec3NXState::DoesNotExistInsecure(ce) => format!("DNEI {}", nhex(ce)),
                    vh::Nsec3NXState::Bogus => "Bogus".to_string(), vh::Nsec3NXState::Insecure => "Insecure".to_string(), vh::Nsec3NXState::Nothing => "Nothing".to_string() };
                let st3 = |s: &vh::Nsec3State| match s { vh::Nsec3State::NoData => "NoData", vh::Nsec3State::NoDataInsecure => "NoDataInsecure", vh::Nsec3State::Bogus => "Bogus", vh::Nsec3State::Nothing => "Nothing" };
                idx += 1;
                if out.wants(idx) {
                    let c = pre("notex"); out.begin(&c);
                    match catch_mut(|| rt.block_on(vh::nsec3_for_not_exists(&target, &mut groups, &signer, &cache, &cfg))) {
                        Ok((s, e)) => {
                            out.case(&c, &format!("{} {}", nx3(&s), ede_code(&e)), matches!(s, vh::Nsec3NXState::DoesNotExist(_) | vh::Nsec3NXState::DoesNotExistInsecure(_)), "nsec3_for_not_exists");
                            if let vh::Nsec3NXState::DoesNotExist(ce) | vh::Nsec3NXState::DoesNotExistInsecure(ce) = &s {
                                out.check(is_suffix(ce, &target) && !rfc_eq(ce, &target) && is_suffix(&signer, ce), "nsec3_closest_encloser_not_proper_suffix", &c, &format!("ce {}", ce));
                            }
                        }
                        Err(p) => { out.case(&c, "Panic", true, "nsec3_for_not_exists"); out.check(false, "panic_validator", &c, &p); }
                    }
                }
                idx += 1;
                if out.wants(idx) {
                    let c = pre("noce"); out.begin(&c);
                    match catch_mut(|| rt.block_on(vh::nsec3_for_not_exists_no_ce(&target, &mut groups, &signer, &cache, &cfg))) {
                        Ok((s, e)) => { let w2 = match s { vh::Nsec3NXStateNoCE::DoesNotExist => "DNE", vh::Nsec3NXStateNoCE::DoesNotExistInsecure => "DNEI", vh::Nsec3NXStateNoCE::Nothing => "Nothing", vh::Nsec3NXStateNoCE::Bogus => "Bogus" };
                            out.case(&c, &format!("{} {}", w2, ede_code(&e)), w2 == "DNE", "nsec3_for_not_exists_no_ce"); }
                        Err(p) => { out.case(&c, "Panic", true, "nsec3_for_not_exists_no_ce"); out.check(false, "panic_validator", &c, &p); }
                    }
                }
                idx += 1;
                if out.wants(idx) {
                    let c = pre("nodata"); out.begin(&c);
                    match catch_mut(|| rt.block_on(vh::nsec3_for_nodata(&target, &mut groups, qt, &signer, &cache, &cfg))) {
                        Ok((s, e)) => out.case(&c, &format!("{} {}", st3(&s), ede_code(&e)), matches!(s, vh::Nsec3State::NoData), "nsec3_for_nodata"),
                        Err(p) => { out.case(&c, "Panic", true, "nsec3_for_nodata"); out.check(false, "panic_validator", &c, &p); }
                    }
                }
                idx += 1;
                if out.wants(idx) {
                    let c = pre("nxdom"); out.begin(&c);
                    match catch_mut(|| rt.block_on(vh::nsec3_for_nxdomain(&target, &mut groups, &signer, &cache, &cfg))) {
                        Ok((s, e)) => out.case(&c, &format!("{} {}", nx3(&s), ede_code(&e)), matches!(s, vh::Nsec3NXState::DoesNotExist(_)), "nsec3_for_nxdomain"),
                        Err(p) => { out.case(&c, "Panic", true, "nsec3_for_nxdomain"); out.check(false, "panic_validator", &c, &p); }
                    }
                }
                idx += 1;
                if out.wants(idx) {
                    let c = pre("ndwild"); out.begin(&c);
                    match catch_mut(|| rt.block_on(vh::nsec3_for_nodata_wildcard(&target, &mut groups, qt, &signer, &cache, &cfg))) {
                        Ok((s, e)) => out.case(&c, &format!("{} {}", st3(&s), ede_code(&e)), matches!(s, vh::Nsec3State::NoData), "nsec3_for_nodata_wildcard"),
                        Err(p) => { out.case(&c, "Panic", true, "nsec3_for_nodata_wildcard"); out.check(false, "panic_validator", &c, &p); }
                    }
                }
            }
        }
    }

    // ---------------- (3e) the DS -> DNSKEY step: generated DS and DNSKEY RRsets for zone.sec.
    {
        let w = world.clone();
        let z = &w.zones[2];
        let parent = w.zones[1].key.as_ref().unwrap();
        let extra = [gen_key_flags(&z.apex, 256), gen_key_flags(&z.apex, 257)];
        // a fourth key: not vouched for by any DS, but with the key tag (and algorithm) of the real key
        let collider = colliding_key(&z.apex, z.key.as_ref().unwrap().tag);
        if collider.is_none() { out.count("harness_no_colliding_key"); }
        let mut all: Vec<&ZKey> = vec![z.key.as_ref().unwrap(), &extra[0], &extra[1]];
        if let Some(c) = collider.as_ref() { all.push(c); }
        let nk = all.len();
        let dk = |k: &ZKey| rec(&k.zone, 300, ZD::Dnskey(k.dnskey.clone()));
        let dig = |k: &ZKey, dt: DigestAlgorithm| -> Vec<u8> { k.dnskey.digest(&k.zone, dt).unwrap().as_ref().to_vec() };
        let www = nm("www.zone.sec.");
        for _ in 0..(250 * scale) {
            // the DNSKEY RRset
            let mut set: Vec<usize> = (0..nk).filter(|_| r.chance(1, 2)).collect();
            if set.is_empty() { set.push(r.below(nk as u64) as usize); }
            for i in (1..set.len()).rev() { let j = r.below(i as u64 + 1) as usize; set.swap(i, j); }
            let keyset: Vec<Rec> = set.iter().map(|i| dk(all[*i])).collect();
            // the DS RRset of the parent
            let mut dsw: Vec<String> = vec![]; let mut dsrecs: Vec<Rec> = vec![];
            for _ in 0..(1 + r.below(3)) {
                let k = all[if r.chance(1, 2) { 0 } else { r.below(nk as u64) as usize }];
                let dt = *r.pick(&[DigestAlgorithm::SHA256, DigestAlgorithm::SHA256, DigestAlgorithm::SHA1, DigestAlgorithm::SHA384]);
                let (alg, tag, dtn, d): (u8, u16, u8, Vec<u8>) = match r.below(8) {
                    0 => { let mut d = dig(k, dt); d[3] ^= 1; (13, k.tag, dt.to_int(), d) }          // right key tag, other digest
                    1 => (15, k.tag, dt.to_int(), dig(k, dt)),                                        // algorithm the validator does not support
                    2 => (13, k.tag, 3, r.bytes(32)),                                                 // digest type it does not support
                    3 => (13, k.tag ^ 1, dt.to_int(), dig(k, dt)),                                    // other key tag
                    _ => (13, k.tag, dt.to_int(), dig(k, dt)),
                };
                let rr = rec(&z.apex, 300, ZD::Ds(Ds::new(tag, SecurityAlgorithm::from_int(alg), DigestAlgorithm::from_int(dtn), Bytes::from(d.clone())).unwrap()));
                if dsrecs.iter().any(|x| x.data() == rr.data()) { continue; }
                dsw.push(format!("{} {} {} {}", alg, tag, dtn, hex(&d))); dsrecs.push(rr);
            }
            // signatures over the DNSKEY RRset
            let mut sgw: Vec<String> = vec![]; let mut sgrecs: Vec<Rec> = vec![];
            for _ in 0..(1 + r.below(3)) {
                let ki = r.below(nk as u64) as usize; let k = all[ki];
                let good = r.chance(2, 3);
                let sig = if good { sign(k, &keyset) } else { sign(k, &[dk(all[(ki + 1) % nk]), rec(&z.apex, 300, a([1, 2, 3, 4]))]) };
                let sig = if good { sig } else { Record::new(z.apex.clone(), Class::IN, sig.ttl(), match sig.data() { ZD::Rrsig(g) => ZD::Rrsig(Rrsig::<Bytes, N>::new(Rtype::DNSKEY, g.algorithm(), g.labels(), g.original_ttl(), g.expiration(), g.inception(), g.key_tag(), g.signer_name().clone(), g.signature().clone()).unwrap()), d => d.clone() }) };
                if sgrecs.iter().any(|x| x.data() == sig.data()) { continue; }
                let valid: Vec<String> = if good { set.iter().enumerate().filter(|(_, i)| **i == ki).map(|(p, _)| p.to_string()).collect() } else { vec![] };
                sgw.push(format!("{} {}", k.tag, if valid.is_empty() { "-".to_string() } else { valid.join(",") }));
                sgrecs.push(sig);
            }
            // GroupSet sorts nothing: the validator sees the records in message order
            let kw: Vec<String> = set.iter().map(|i| { let k = all[*i]; format!("13 {} {} {} {}", k.tag, hex(&dig(k, DigestAlgorithm::SHA1)), hex(&dig(k, DigestAlgorithm::SHA256)), hex(&dig(k, DigestAlgorithm::SHA384))) }).collect();
            let ds_sig = sign(parent, &dsrecs);
            let m_ds = build_msg(9, &z.apex, Rtype::DS, &Resp { rcode: Rcode::NOERROR, answer: vec![RRset { rrs: dsrecs.clone(), sigs: vec![ds_sig] }], authority: vec![] });
            let m_key = build_msg(9, &z.apex, Rtype::DNSKEY, &Resp { rcode: Rcode::NOERROR, answer: vec![RRset { rrs: keyset.clone(), sigs: sgrecs.clone() }], authority: vec![] });
            let sc = Script { attack: Attack::None, on_query: 0, pick: 0, raw: vec![(z.apex.clone(), Rtype::DS.to_int(), m_ds), (z.apex.clone(), Rtype::DNSKEY.to_int(), m_key)] };
            let vc = ValidationContext::new(w.anchors(), Mock::new(w.clone(), sc));
            let data = vec![rec(&www, 300, a([192, 0, 2, 1]))];
            let resp = Resp { rcode: Rcode::NOERROR, answer: vec![RRset { sigs: vec![sign(all[set[0]], &data)], rrs: data }], authority: vec![] };
            idx += 1; if !out.wants(idx) { continue; }
            let c = format!("child 1 {} {} {} {} {} {}", dsw.len(), kw.len(), sgw.len(), dsw.join(" "), kw.join(" "), sgw.join(" "));
            out.begin(&c);
            let mut m = build_msg(12, &www, Rtype::A, &resp);
            match catch_mut(|| rt.block_on(async { vc.validate_msg(&mut m).await })) {
                Err(p) => { out.case(&c, "Panic", true, "ds_dnskey_step"); out.check(false, "panic_validator", &c, &p); }
                Ok(Err(e)) => out.case(&c, &format!("Error {}", e), true, "ds_dnskey_step"),
                Ok(Ok((s, _))) => {
                    out.case(&c, st(s), s == ValidationState::Secure, "ds_dnskey_step");
                    // the property itself: secure needs a supported DS whose digest matches a key of the set that made a valid signature over the set
                    let vouched = dsw.iter().any(|d| { let f: Vec<&str> = d.split(' ').collect(); f[0] == "13" && f[2] != "3" &&
                        set.iter().enumerate().any(|(p, i)| { let k = all[*i]; f[1] == k.tag.to_string() && f[3] == hex(&dig(k, DigestAlgorithm::from_int(f[2].parse().unwrap())))
                            && sgw.iter().any(|sg| { let g: Vec<&str> = sg.split(' ').collect(); g[1].split(',').any(|x| x == p.to_string()) }) }) });
                    out.check(!(s == ValidationState::Secure && !vouched), "secure_dnskey_not_signed_by_ds_key", &c, "secure without a DS-vouched key having signed the DNSKEY RRset");
                    let any_supported = dsw.iter().any(|d| { let f: Vec<&str> = d.split(' ').collect(); f[0] == "13" && f[2] != "3" });
                    out.check((s == ValidationState::Insecure) == !any_supported, if any_supported { "secure_delegation_reported_insecure" } else { "insecure_reported_bogus" }, &c, st(s));
                }
            }
        }
    }

    // ---------------- (3b') wildcard-expanded answers with generated NSEC proofs in the authority section
    {
        let w = world.clone();
        let vc = ValidationContext::new(w.anchors(), Mock::new(w.clone(), quiet.clone()));
        let zi = 1usize;
        let z = &w.zones[zi];
        let key = z.key.as_ref().unwrap();
        let apex = z.apex.clone();
        let mut uni = vec![apex.clone()];
        for _ in 0..14 { uni.push(rel_name(&mut r, &apex, 3)); }
        let zl = labels_of(&apex).len() as u8;
        for _ in 0..(700 * scale) {
            let sets = make_groups(&mut r, &w, zi, &uni);
            let base = r.pick(&uni).clone();
            let mut l = labels_of(&base);
            match r.below(4) { 0 => {} 1 | 2 => l.insert(0, r.pick(LABS).to_vec()), _ => { l.insert(0, r.pick(LABS).to_vec()); l.insert(0, b"w".to_vec()); } }
            let Some(target) = name_from_labels(&l) else { continue; };
            let ol = l.len() as u8;
            if ol <= zl || sets.iter().any(|s| rfc_eq(&s.1.owner, &target) && s.1.rtype == 1) { continue; }
            // the answer: target A, RRSIG labels from the zone's label count up to the owner's (below = expanded from a wildcard)
            let labels = if r.chance(1, 6) { nlabels(&target) } else { zl + r.below((ol - zl + 1) as u64) as u8 };
            let data = vec![rec(&target, 300, a([192, 0, 2, 99]))];
            let now = now_u32();
            let bad_answer = r.chance(1, 15);
            let sig = if bad_answer { let x = sign_with(key, &key.zone, &[rec(&target, 300, a([9, 9, 9, 9]))], labels, now - 900, now + 3600); x } else { sign_with(key, &key.zone, &data, labels, now - 900, now + 3600) };
            let ce = if labels < ol { name_from_labels(&l[(ol - labels) as usize..]) } else { None };
            // a third of the runs prove the non-existence with NSEC3 records for the next-closer name instead
            let use_n3 = ce.is_some() && r.chance(1, 3);
            let sets = if use_n3 && r.chance(2, 3) { vec![] } else { sets };
            let views: Vec<GView> = sets.iter().map(|s| s.1.clone()).collect();
            let gw: String = views.iter().map(gwords).collect::<Vec<_>>().join(" ");
            let mut n3sets: Vec<RRset> = vec![]; let mut n3w: Vec<String> = vec![]; let mut tblw = "-".to_string();
            if use_n3 {
                let cel = labels_of(ce.as_ref().unwrap()).len();
                let child = name_from_labels(&l[l.len() - cel - 1..]).unwrap();
                let hsh = |n: &N| -> Vec<u8> { let h: OwnerHash<Vec<u8>> = domain::dnssec::common::nsec3_hash(n, Nsec3HashAlgorithm::SHA1, 0, &Nsec3Salt::<Bytes>::empty()).unwrap(); h.as_slice().to_vec() };
                let h = hsh(&child);
                tblw = format!("0:-:{}:{}", nhex(&child), hex(&h));
                let b32l = |x: &[u8]| domain::utils::base32::encode_string_hex(x).to_ascii_lowercase().into_bytes();
                let shift = |x: &[u8], d: i16| { let mut v = x.to_vec(); let k = v.len() - 1; let nv = v[k] as i16 + d; if nv < 0 { v[k - 1] = v[k - 1].wrapping_sub(1); } if nv > 255 { v[k - 1] = v[k - 1].wrapping_add(1); } v[k] = nv as u8; v };
                for _ in 0..(1 + r.below(2)) {
                    let (oh, nx): (Vec<u8>, Vec<u8>) = match r.below(6) { 0 | 1 | 2 => (shift(&h, -5), shift(&h, 5)), 3 => (h.clone(), shift(&h, 9)), 4 => (shift(&h, -9), h.clone()), _ => (r.bytes(20), r.bytes(20)) };
                    let oo = r.chance(1, 4);
                    let mut ol3 = vec![b32l(&oh)]; ol3.extend(labels_of(&apex));
                    let owner3 = name_from_labels(&ol3).unwrap();
                    if n3sets.iter().any(|x| rfc_eq(x.rrs[0].owner(), &owner3)) { continue; }
                    let types = [Rtype::A, Rtype::RRSIG];
                    let d = Nsec3::new(Nsec3HashAlgorithm::SHA1, oo as u8, 0, Nsec3Salt::<Bytes>::empty(), OwnerHash::from_octets(Bytes::from(nx.clone())).unwrap(), bitmap(&types));
                    let n3rec = rec(&owner3, 300, ZD::Nsec3(d));
                    let good = !r.chance(1, 10);
                    let sg = if good { sign(key, &[n3rec.clone()]) } else {
                        let o2 = sign(key, &[rec(&owner3, 300, a([8, 8, 8, 8]))]);
                        match o2.data() { ZD::Rrsig(g) => Record::new(owner3.clone(), Class::IN, o2.ttl(), ZD::Rrsig(Rrsig::<Bytes, N>::new(Rtype::NSEC3, g.algorithm(), g.labels(), g.original_ttl(), g.expiration(), g.inception(), g.key_tag(), g.signer_name().clone(), g.signature().clone()).unwrap())), _ => o2.clone() } };
                    n3w.push(format!("1 1 {} {} 1 {} 0 - {} {} 1,46", if good { "Secure" } else { "Bogus" }, nhex(&apex), oo as u8, hex(&b32l(&oh)), hex(&nx)));
                    n3sets.push(RRset { rrs: vec![n3rec], sigs: vec![sg] });
                }
            }
            idx += 1; if !out.wants(idx) { continue; }
            let c = format!("wild {} {} {} {} {} {} {}{}", nhex(&target), if bad_answer { "Bogus" } else { "Secure" }, nhex(&apex), ce.as_ref().map(|x| nhex(x)).unwrap_or("-".into()), tblw, views.len(),
                gw, if n3w.is_empty() { String::new() } else { format!("{}{}", if gw.is_empty() { "" } else { " " }, n3w.join(" ")) });
            out.begin(&c);
            let mut auth: Vec<RRset> = sets.iter().map(|s| s.0.clone()).collect(); auth.extend(n3sets.iter().cloned());
            let resp = Resp { rcode: Rcode::NOERROR, answer: vec![RRset { rrs: data, sigs: vec![sig] }], authority: auth };
            let mut m = build_msg(8, &target, Rtype::A, &resp);
            match catch_mut(|| rt.block_on(async { vc.validate_msg(&mut m).await })) {
                Err(p) => { out.case(&c, "Panic", true, "wildcard_answer"); out.check(false, "panic_validator", &c, &p); }
                Ok(Err(e)) => out.case(&c, &format!("Error {}", e), true, "wildcard_answer"),
                Ok(Ok((s, _))) => {
                    out.case(&c, st(s), s == ValidationState::Secure && ce.is_some(), "wildcard_answer");
                    // RFC 4035 5.3.4: an expanded wildcard is only acceptable with a proof that the name itself does not exist
                    if s == ValidationState::Secure { if let Some(cev) = &ce {
                        let is_star = star(cev).map_or(false, |x| rfc_eq(&x, &target));
                        let covered = views.iter().any(|v| usable(v, &apex) && !rfc_eq(&target, &v.owner) && rfc_between(&target, &v.owner, &v.next));
                        let covered3 = n3w.iter().any(|x| x.contains(" Secure ")) ;
                        out.check(is_star || covered || covered3, "secure_wildcard_without_nonexistence_proof", &c, "expanded wildcard accepted without an NSEC / NSEC3 covering the name");
                    } }
                }
            }
        }
    }

    // ---------------- (3e') the trust anchor step: configured anchors (DNSKEY / DS records) against served root DNSKEY RRsets
    {
        let w = world.clone();
        let z = &w.zones[0];
        let extra = [gen_key_flags(&z.apex, 256), gen_key_flags(&z.apex, 257)];
        let collider = colliding_key(&z.apex, z.key.as_ref().unwrap().tag);
        if collider.is_none() { out.count("harness_no_colliding_key"); }
        let mut all: Vec<&ZKey> = vec![z.key.as_ref().unwrap(), &extra[0], &extra[1]];
        if let Some(c) = collider.as_ref() { all.push(c); }
        let nk = all.len();
        let dk = |k: &ZKey| rec(&k.zone, 300, ZD::Dnskey(k.dnskey.clone()));
        let dig = |k: &ZKey, dt: DigestAlgorithm| -> Vec<u8> { k.dnskey.digest(&k.zone, dt).unwrap().as_ref().to_vec() };
        let hexu = |b: &[u8]| { let h = hex(b); if h == "-" { String::new() } else { h } };
        let target = nm("ns.");
        for _ in 0..(200 * scale) {
            let mut set: Vec<usize> = (0..nk).filter(|_| r.chance(1, 2)).collect();
            if set.is_empty() { set.push(r.below(nk as u64) as usize); }
            for i in (1..set.len()).rev() { let j = r.below(i as u64 + 1) as usize; set.swap(i, j); }
            let keyset: Vec<Rec> = set.iter().map(|i| dk(all[*i])).collect();
            let mut taw: Vec<String> = vec![]; let mut talines: Vec<String> = vec![];
            for _ in 0..(1 + r.below(3)) {
                let ki = if r.chance(1, 2) { 0 } else { r.below(nk as u64) as usize }; let k = all[ki];
                match r.below(10) {
                    0 | 1 | 2 | 3 => { let pos = set.iter().position(|i| *i == ki); taw.push(format!("K {} - - -", pos.map(|p| p as i64).unwrap_or(99))); talines.push(format!(". 3600 IN DNSKEY {}", k.dnskey)); }
                    9 => { taw.push("O - - - -".into()); talines.push(". 3600 IN A 192.0.2.250".into()); }
                    x => {
                        let dt = *r.pick(&[DigestAlgorithm::SHA256, DigestAlgorithm::SHA1, DigestAlgorithm::SHA384]);
                        let (tag, dtn, d): (u16, u8, Vec<u8>) = match x { 4 => { let mut d = dig(k, dt); d[2] ^= 4; (k.tag, dt.to_int(), d) } 5 => (k.tag, 3, r.bytes(32)), 6 => (k.tag ^ 2, dt.to_int(), dig(k, dt)), _ => (k.tag, dt.to_int(), dig(k, dt)) };
                        taw.push(format!("D 13 {} {} {}", tag, dtn, hex(&d))); talines.push(format!(". 3600 IN DS {} 13 {} {}", tag, dtn, hexu(&d)));
                    }
                }
            }
            let Ok(anchors) = TrustAnchors::from_u8(talines.join("\n").as_bytes()) else { out.count("anchor_text_rejected"); continue; };
            let mut sgw: Vec<String> = vec![]; let mut sgrecs: Vec<Rec> = vec![];
            for _ in 0..(1 + r.below(3)) {
                let ki = r.below(nk as u64) as usize; let k = all[ki];
                let good = r.chance(2, 3);
                let sig = if good { sign(k, &keyset) } else {
                    let bad = sign(k, &[dk(all[(ki + 1) % nk]), rec(&z.apex, 300, a([1, 2, 3, 4]))]);
                    Record::new(z.apex.clone(), Class::IN, bad.ttl(), match bad.data() { ZD::Rrsig(g) => ZD::Rrsig(Rrsig::<Bytes, N>::new(Rtype::DNSKEY, g.algorithm(), g.labels(), g.original_ttl(), g.expiration(), g.inception(), g.key_tag(), g.signer_name().clone(), g.signature().clone()).unwrap()), d => d.clone() })
                };
                if sgrecs.iter().any(|x| x.data() == sig.data()) { continue; }
                let valid: Vec<String> = if good { set.iter().enumerate().filter(|(_, i)| **i == ki).map(|(p, _)| p.to_string()).collect() } else { vec![] };
                sgw.push(format!("{} {}", k.tag, if valid.is_empty() { "-".to_string() } else { valid.join(",") }));
                sgrecs.push(sig);
            }
            let kw: Vec<String> = set.iter().map(|i| { let k = all[*i]; format!("13 {} {} {} {}", k.tag, hex(&dig(k, DigestAlgorithm::SHA1)), hex(&dig(k, DigestAlgorithm::SHA256)), hex(&dig(k, DigestAlgorithm::SHA384))) }).collect();
            let m_key = build_msg(9, &z.apex, Rtype::DNSKEY, &Resp { rcode: Rcode::NOERROR, answer: vec![RRset { rrs: keyset.clone(), sigs: sgrecs.clone() }], authority: vec![] });
            let sc = Script { attack: Attack::None, on_query: 0, pick: 0, raw: vec![(z.apex.clone(), Rtype::DNSKEY.to_int(), m_key)] };
            let vc = ValidationContext::new(anchors, Mock::new(w.clone(), sc));
            let data = vec![rec(&target, 300, a([192, 0, 2, 53]))];
            let resp = Resp { rcode: Rcode::NOERROR, answer: vec![RRset { sigs: vec![sign(all[set[0]], &data)], rrs: data }], authority: vec![] };
            idx += 1; if !out.wants(idx) { continue; }
            let c = format!("anchor 1 {} {} {} {} {} {}", taw.len(), kw.len(), sgw.len(), taw.join(" "), kw.join(" "), sgw.join(" "));
            out.begin(&c);
            let mut m = build_msg(12, &target, Rtype::A, &resp);
            match catch_mut(|| rt.block_on(async { vc.validate_msg(&mut m).await })) {
                Err(p) => { out.case(&c, "Panic", true, "trust_anchor_step"); out.check(false, "panic_validator", &c, &p); }
                Ok(Err(e)) => out.case(&c, &format!("Error {}", e), true, "trust_anchor_step"),
                Ok(Ok((s, _))) => {
                    out.case(&c, st(s), s == ValidationState::Secure, "trust_anchor_step");
                    // secure needs an anchor record vouching for a key of the set that validly signed the set
                    let vouched = set.iter().enumerate().any(|(p, i)| { let k = all[*i];
                        let signed = sgw.iter().any(|sg| { let g: Vec<&str> = sg.split(' ').collect(); g[1].split(',').any(|x| x == p.to_string()) });
                        signed && taw.iter().any(|t| { let f: Vec<&str> = t.split(' ').collect();
                            (f[0] == "K" && f[1] == p.to_string()) || (f[0] == "D" && f[2] == k.tag.to_string() && f[3] != "3" && f[4] == hex(&dig(k, DigestAlgorithm::from_int(f[3].parse().unwrap())))) }) });
                    out.check(!(s == ValidationState::Secure && !vouched), "secure_dnskey_not_signed_by_ds_key", &c, "secure without an anchored key having signed the DNSKEY RRset");
                }
            }
        }
    }

    // ---------------- (3f) the insecure-delegation decision: DS replies for kid.sec. with generated NSEC / NSEC3 proofs
    {
        let w = world.clone();
        let parent = w.zones[1].key.as_ref().unwrap();
        let papex = w.zones[1].apex.clone();
        let kid = nm("kid.sec.");
        let hash = |n: &N, it: u16, salt: &[u8]| -> Vec<u8> {
            let s = Nsec3Salt::<Bytes>::from_octets(Bytes::copy_from_slice(salt)).unwrap();
            let h: OwnerHash<Vec<u8>> = domain::dnssec::common::nsec3_hash(n, Nsec3HashAlgorithm::SHA1, it, &s).unwrap();
            h.as_slice().to_vec()
        };
        let b32 = |h: &[u8]| domain::utils::base32::encode_string_hex(h).to_ascii_lowercase().into_bytes();
        let bump = |h: &[u8], up: bool| { let mut v = h.to_vec(); let k = v.len() - 1; v[k] = if up { v[k].wrapping_add(3) } else { v[k].wrapping_sub(3) }; if up && v[k] < 3 { v[k - 1] = v[k - 1].wrapping_add(1); } if !up && v[k] > 252 { v[k - 1] = v[k - 1].wrapping_sub(1); } v };
        let now = now_u32();
        for _ in 0..(600 * scale) {
            let mut cfg = domain::dnssec::validator::context::Config::new();
            let (ci, cb) = if r.chance(1, 2) { (100u16, 500u16) } else { let a1 = r.below(4) as u16; let b1 = r.below(5) as u16; cfg.set_nsec3_iter_insecure(a1); cfg.set_nsec3_iter_bogus(b1); (a1, b1) };
            let target = if r.chance(1, 8) { nm("KID.sec.") } else { kid.clone() };
            let mut sets: Vec<RRset> = vec![]; let mut words: Vec<String> = vec![]; let mut params: Vec<(u16, Vec<u8>)> = vec![];
            for _ in 0..(1 + r.below(3)) {
                let is3 = r.chance(1, 2);
                let valid_kind = r.below(10); // 0: bad signature, 1: expired, else valid
                let mut ce: Option<N> = None;
                let (rrs, w0): (Vec<Rec>, String) = if !is3 {
                    let (owner, next) = match r.below(8) { 0 | 1 | 2 | 3 => (kid.clone(), nm("l.sec.")), 4 => (nm("a.sec."), nm("x.kid.sec.")), 5 => (papex.clone(), nm("x.kid.sec.")), 6 => (papex.clone(), nm("a.sec.")), _ => (nm("b.sec."), nm("c.sec.")) };
                    let types: Vec<Rtype> = match r.below(8) { 0 | 1 => vec![Rtype::NS, Rtype::RRSIG, Rtype::NSEC], 2 => vec![Rtype::NS, Rtype::DS, Rtype::RRSIG, Rtype::NSEC], 3 => vec![Rtype::NS, Rtype::SOA, Rtype::RRSIG, Rtype::NSEC],
                        4 => vec![Rtype::A, Rtype::RRSIG, Rtype::NSEC], 5 => vec![Rtype::DNAME, Rtype::RRSIG, Rtype::NSEC], _ => TYPESET.iter().filter(|_| r.chance(1, 3)).cloned().collect() };
                    let mut tl: Vec<u16> = types.iter().map(|t| t.to_int()).collect(); tl.sort(); tl.dedup();
                    let tw = if tl.is_empty() { "-".to_string() } else { tl.iter().map(|t| t.to_string()).collect::<Vec<_>>().join(",") };
                    (vec![nsec_rec(&owner, &next, &types, 300)], format!("47 {} V C {} {} 0 0 0 - -", nhex(&owner), nhex(&next), tw))
                } else {
                    let it = *r.pick(&[0u16, 0, 1, 2, 3, 5]); let salt: Vec<u8> = if r.chance(1, 2) { vec![] } else { vec![0x5a] };
                    let h = hash(&kid, it, &salt);
                    let (label, next): (Vec<u8>, Vec<u8>) = match r.below(9) { 0 | 1 | 2 => (b32(&h), r.bytes(20)), 3 => (b32(&h).to_ascii_uppercase(), r.bytes(20)), 4 | 5 => (b32(&bump(&h, false)), bump(&h, true)),
                        6 => (b32(&bump(&h, true)), bump(&h, false)), 7 => (b"zzzz".to_vec(), r.bytes(20)), _ => (b32(&r.bytes(20)), r.bytes(20)) };
                    let zone_of = if r.chance(1, 10) { nm("x.sec.") } else { papex.clone() };
                    let mut l = vec![label]; l.extend(labels_of(&zone_of));
                    let owner = name_from_labels(&l).unwrap();
                    let alg = if r.chance(1, 12) { 2u8 } else { 1 };
                    let oo = r.chance(1, 2);
                    let types: Vec<Rtype> = match r.below(6) { 0 | 1 => vec![Rtype::NS], 2 => vec![Rtype::NS, Rtype::DS], 3 => vec![Rtype::NS, Rtype::SOA], 4 => vec![Rtype::A], _ => TYPESET.iter().filter(|_| r.chance(1, 3)).cloned().collect() };
                    let mut tl: Vec<u16> = types.iter().map(|t| t.to_int()).collect(); tl.sort(); tl.dedup();
                    let tw = if tl.is_empty() { "-".to_string() } else { tl.iter().map(|t| t.to_string()).collect::<Vec<_>>().join(",") };
                    if !params.contains(&(it, salt.clone())) { params.push((it, salt.clone())); }
                    let d = Nsec3::new(Nsec3HashAlgorithm::from_int(alg), oo as u8, it, Nsec3Salt::<Bytes>::from_octets(Bytes::from(salt.clone())).unwrap(), OwnerHash::from_octets(Bytes::from(next.clone())).unwrap(), bitmap(&types));
                    (vec![rec(&owner, 300, ZD::Nsec3(d))], format!("50 {} V C 00 {} {} {} {} {} {}", nhex(&owner), tw, alg, oo as u8, it, hex(&salt), hex(&next)))
                };
                if sets.iter().any(|x| rfc_eq(x.rrs[0].owner(), rrs[0].owner()) && x.rrs[0].rtype() == rrs[0].rtype()) { continue; }
                let ol = labels_of(rrs[0].owner()).len() as u8;
                let labels = if r.chance(1, 8) && ol > 1 { ol - 1 } else { nlabels(rrs[0].owner()) };
                if labels < ol { let l = labels_of(rrs[0].owner()); ce = name_from_labels(&l[(ol - labels) as usize..]); }
                let (sig, valid) = match valid_kind {
                    0 => (sign_with(parent, &parent.zone, &[rec(rrs[0].owner(), 300, a([7, 7, 7, 7]))], labels, now - 60, now + 3600), false),
                    1 => (sign_with(parent, &parent.zone, &rrs, labels, now - 7200, now - 3600), false),
                    _ => (sign_with(parent, &parent.zone, &rrs, labels, now - 60, now + 3600), true),
                };
                let sig = if valid_kind == 0 { Record::new(rrs[0].owner().clone(), Class::IN, sig.ttl(), match sig.data() { ZD::Rrsig(g) => ZD::Rrsig(Rrsig::<Bytes, N>::new(rrs[0].rtype(), g.algorithm(), g.labels(), g.original_ttl(), g.expiration(), g.inception(), g.key_tag(), g.signer_name().clone(), g.signature().clone()).unwrap()), d => d.clone() }) } else { sig };
                words.push(w0.replace(" V ", &format!(" {} ", valid as u8)).replace(" C ", &format!(" {} ", ce.as_ref().map(|c| nhex(c)).unwrap_or("-".into()))));
                sets.push(RRset { rrs, sigs: vec![sig] });
            }
            if sets.is_empty() { continue; }
            let mut auth = vec![{ let x = w.zones[1].get(&papex, Rtype::SOA).unwrap(); RRset { rrs: x.0, sigs: x.1.into_iter().collect() } }];
            auth.extend(sets);
            // sometimes the DS reply carries a CNAME RRset in its answer section: at the name (decides) or elsewhere (ignored)
            let (cn_word, ds_answer): (&str, Vec<RRset>) = match r.below(8) {
                0 => { let v = vec![rec(&kid, 300, ZD::Cname(Cname::new(nm("a.sec."))))]; ("C1", vec![RRset { sigs: vec![sign(parent, &v)], rrs: v }]) }
                1 => { let v = vec![rec(&kid, 300, ZD::Cname(Cname::new(nm("a.sec."))))]; ("C2", vec![RRset { sigs: vec![sign(parent, &[rec(&kid, 300, ZD::Cname(Cname::new(nm("b.sec."))))])], rrs: v }]) }
                2 => { let v = vec![rec(&nm("other.sec."), 300, ZD::Cname(Cname::new(nm("a.sec."))))]; ("C0", vec![RRset { sigs: vec![sign(parent, &v)], rrs: v }]) }
                _ => ("C0", vec![]),
            };
            let m_ds = build_msg(9, &kid, Rtype::DS, &Resp { rcode: Rcode::NOERROR, answer: ds_answer, authority: auth });
            let sc = Script { attack: Attack::None, on_query: 0, pick: 0, raw: vec![(kid.clone(), Rtype::DS.to_int(), m_ds)] };
            let vc = ValidationContext::with_config(w.anchors(), Mock::new(w.clone(), sc), cfg);
            let tbl: Vec<String> = params.iter().filter(|(it, _)| *it <= ci.max(cb) + 6).map(|(it, salt)| format!("{}:{}:{}:{}", it, hex(salt), nhex(&target), hex(&hash(&target, *it, salt)))).collect();
            idx += 1; if !out.wants(idx) { continue; }
            let c = format!("dsproof {} {} {} {} {} {}", nhex(&target), ci, cb, if tbl.is_empty() { "-".to_string() } else { tbl.join(",") }, cn_word, words.join(" "));
            out.begin(&c);
            let resp = Resp { rcode: Rcode::NOERROR, answer: vec![RRset { rrs: vec![rec(&target, 300, a([198, 51, 100, 9]))], sigs: vec![] }], authority: vec![] };
            let mut m = build_msg(13, &target, Rtype::A, &resp);
            match catch_mut(|| rt.block_on(async { vc.validate_msg(&mut m).await })) {
                Err(p) => { out.case(&c, "Panic", true, "no_ds_decision"); out.check(false, "panic_validator", &c, &p); }
                Ok(Err(e)) => out.case(&c, &format!("Error {}", e), true, "no_ds_decision"),
                Ok(Ok((s, _))) => {
                    out.case(&c, st(s), s == ValidationState::Insecure, "no_ds_decision");
                    out.check(s != ValidationState::Secure, "secure_without_chain", &c, "unsigned data reported secure");
                    // insecure needs a validly signed record among those sent
                    let any_valid = words.iter().any(|x| x.split(' ').nth(2) == Some("1"));
                    out.check(!(s == ValidationState::Insecure && !any_valid), "insecure_without_no_ds_proof", &c, "delegation declared insecure although no record of the DS reply has a valid signature");
                }
            }
        }
    }

    // ---------------- (3g) grouping the records of a section into RRsets with their RRSIGs (GroupSet::add)
    {
        let owners: Vec<N> = ["a.ex.", "A.ex.", "b.ex.", "a.b.ex."].iter().map(|s| nm(s)).collect();
        for _ in 0..(1200 * scale) {
            let n = 2 + r.below(8) as usize;
            let mut recs: Vec<(Record<N, ZD>, String)> = vec![];
            for _ in 0..n {
                let o = r.pick(&owners).clone();
                let class = if r.chance(1, 6) { Class::CH } else { Class::IN };
                let id = r.below(3) as u8;
                let (d, is_sig, t): (ZD, bool, Rtype) = match r.below(7) {
                    0 | 1 => (a([192, 0, 2, id]), false, Rtype::A),
                    2 => (ZD::Txt(Txt::build_from_slice(&[b'a' + id]).unwrap()), false, Rtype::TXT),
                    3 => (ns(&format!("n{}.ex.", id)), false, Rtype::NS),
                    x => { let cov = match x { 4 => Rtype::A, 5 => Rtype::TXT, _ => Rtype::NS };
                           (ZD::Rrsig(Rrsig::<Bytes, N>::new(cov, SecurityAlgorithm::ECDSAP256SHA256, 2, Ttl::from_secs(300), Timestamp::from(2), Timestamp::from(1), id as u16, nm("ex."), Bytes::from(vec![id; 4])).unwrap()), true, cov) }
                };
                let w0 = format!("{} {} {} {} {}", nhex(&o), class.to_int(), is_sig as u8, t.to_int(), id);
                recs.push((Record::new(o, class, Ttl::from_secs(300 + r.below(3) as u32), d), w0));
            }
            idx += 1; if !out.wants(idx) { continue; }
            let c = format!("groups {}", recs.iter().map(|x| x.1.clone()).collect::<Vec<_>>().join(" "));
            out.begin(&c);
            let mut mb = MessageBuilder::new_vec().question(); mb.push((&nm("q."), Rtype::A)).unwrap();
            let mut an = mb.answer();
            for (rr, _) in &recs { an.push(rr.clone()).unwrap(); }
            let msg = Message::from_octets(Bytes::from(an.finish())).unwrap();
            let res = catch_mut(|| { let mut gs = vh::GroupSet::new(); for rr in msg.answer().unwrap() { let _ = gs.add(rr.unwrap()); } gs });
            match res {
                Err(p) => { out.case(&c, "Panic", true, "group_set"); out.check(false, "panic_validator", &c, &p); }
                Ok(mut gs) => {
                    let groups: Vec<vh::Group> = gs.iter().cloned().collect();
                    let obs: Vec<String> = groups.iter().map(|g| format!("{}/{}/{}/{}/{}", nhex(&g.owner()), g.class().to_int(), g.rtype().to_int(), g.rr_set().len(), g.sig_set_len())).collect();
                    out.case(&c, &obs.join(";"), groups.len() < recs.len(), "group_set");
                    for g in &groups {
                        let mut g2 = g.clone();
                        let rrs = g.rr_set();
                        let bad = g2.sig_iter().any(|sg| !rfc_eq(sg.owner(), &g.owner()) || sg.class() != g.class() || (!rrs.is_empty() && sg.data().type_covered() != g.rtype()));
                        out.check(!bad, "rrsig_attached_to_other_rrset", &c, &format!("group {} {}", g.owner(), g.rtype()));
                    }
                }
            }
        }
    }

    // ---------------- (3b) positive replies: verdict as a function of the answer groups
    {
        let w = world.clone();
        let vc = ValidationContext::new(w.anchors(), Mock::new(w.clone(), quiet.clone()));
        let kz = w.zones[2].key.as_ref().unwrap();
        let sec_names: Vec<N> = ["p.zone.sec.", "q.zone.sec.", "r.zone.sec.", "P.zone.sec."].iter().map(|s| nm(s)).collect();
        let ins_names: Vec<N> = ["p.ins.", "q.ins."].iter().map(|s| nm(s)).collect();
        let all_names: Vec<N> = sec_names.iter().chain(ins_names.iter()).cloned().collect();
        let dn_owners: Vec<N> = ["d.zone.sec.", "p.zone.sec."].iter().map(|s| nm(s)).collect();
        let dn_targets: Vec<N> = ["e.zone.sec.", "q.zone.sec.", "e.ins."].iter().map(|s| nm(s)).collect();
        let prefixes: Vec<Vec<Vec<u8>>> = vec![vec![b"x".to_vec()], vec![b"g".to_vec()], vec![b"y".to_vec(), b"x".to_vec()], vec![b"X".to_vec()]];
        let cat = |pre: &Vec<Vec<u8>>, n: &N| { let mut l = pre.clone(); l.extend(labels_of(n)); name_from_labels(&l).unwrap() };
        // (rrs, is secure zone) -> (RRset, state word, signed)
        let finish = |r: &mut Rng, rrs: Vec<Rec>, unsigned: bool| -> (RRset, &'static str, bool) {
            let secure_zone = is_suffix(&nm("zone.sec."), rrs[0].owner());
            if !secure_zone { return (RRset { rrs, sigs: vec![] }, "Insecure", false); }
            if unsigned { return (RRset { rrs, sigs: vec![] }, "Bogus", false); }
            if r.chance(1, 14) {
                let other = sign(kz, &[rec(rrs[0].owner(), 300, a([9, 9, 9, 9]))]);
                let fixed = match other.data() { ZD::Rrsig(g) => Record::new(other.owner().clone(), Class::IN, other.ttl(), ZD::Rrsig(Rrsig::<Bytes, N>::new(rrs[0].rtype(), g.algorithm(), g.labels(), g.original_ttl(), g.expiration(), g.inception(), g.key_tag(), g.signer_name().clone(), g.signature().clone()).unwrap())), _ => other.clone() };
                return (RRset { rrs, sigs: vec![fixed] }, "Bogus", true);
            }
            let sg = sign(kz, &rrs);
            (RRset { rrs, sigs: vec![sg] }, "Secure", true)
        };
        for _ in 0..(1800 * scale) {
            let mut sets: Vec<RRset> = vec![];
            let mut words: Vec<String> = vec![];
            let mut qn_hint: Option<N> = None;
            let mut push = |sets: &mut Vec<RRset>, words: &mut Vec<String>, set: RRset, state: &str, signed: bool| {
                if sets.iter().any(|s| rfc_eq(s.rrs[0].owner(), set.rrs[0].owner()) && s.rrs[0].rtype() == set.rrs[0].rtype()) { return; }
                let cname = match set.rrs[0].data() { ZD::Cname(c) => nhex(c.cname()), _ => "-".to_string() };
                let dname = match set.rrs[0].data() { ZD::Dname(d) => nhex(d.dname()), _ => "-".to_string() };
                words.push(format!("1 {} {} {} {} {} 0 {} {}", set.rrs[0].rtype().to_int(), set.rrs.len(), nhex(set.rrs[0].owner()), cname, state, dname, signed as u8));
                sets.push(set);
            };
            if r.chance(2, 5) {
                // a DNAME with its (courtesy or forged) CNAME and the data at the candidate targets
                let dow = r.pick(&dn_owners).clone(); let dtg = r.pick(&dn_targets).clone();
                let pre = r.pick(&prefixes).clone();
                let qn = cat(&pre, &dow);
                let exact = cat(&pre, &dtg);
                let sibling = { let mut p2 = pre.clone(); p2[0] = if p2[0] == b"g".to_vec() { b"h".to_vec() } else { b"g".to_vec() }; cat(&p2, &dtg) };
                let ctarget = match r.below(8) { 0 | 1 | 2 => exact.clone(), 3 | 4 => sibling.clone(), 5 => cat(&vec![b"x".to_vec()], &exact), 6 => dtg.clone(), _ => r.pick(&all_names).clone() };
                let mut parts: Vec<(RRset, &'static str, bool)> = vec![];
                // RFC 6672 2.4: DNAME is a singleton type; a DNAME RRset with two records is not followed (the code skips
                // RRsets with more than one record), generated only together with a signed or absent CNAME
                let two = r.chance(1, 10);
                if two { parts.push(finish(&mut r, vec![rec(&dow, 300, ZD::Dname(Dname::new(dtg.clone()))), rec(&dow, 300, ZD::Dname(Dname::new(nm("other.zone.sec."))))], false)); }
                else if r.chance(9, 10) { parts.push(finish(&mut r, vec![rec(&dow, 300, ZD::Dname(Dname::new(dtg.clone())))], false)); }
                if r.chance(5, 6) { let unsigned = !two && r.chance(3, 4); parts.push(finish(&mut r, vec![rec(&qn, 300, ZD::Cname(Cname::new(ctarget)))], unsigned)); }
                if r.chance(5, 6) { parts.push(finish(&mut r, vec![rec(&exact, 300, a([192, 0, 2, 71]))], false)); }
                if r.chance(1, 2) { parts.push(finish(&mut r, vec![rec(&sibling, 300, a([192, 0, 2, 72]))], false)); }
                for i in (1..parts.len()).rev() { let j = r.below(i as u64 + 1) as usize; parts.swap(i, j); }
                for (set, state, signed) in parts { push(&mut sets, &mut words, set, state, signed); }
                qn_hint = Some(if r.chance(1, 8) { flip_case(&mut r, &qn) } else { qn });
            } else {
                for _ in 0..(1 + r.below(4)) {
                    let owner = if r.chance(3, 4) { r.pick(&sec_names).clone() } else { r.pick(&ins_names).clone() };
                    let kind = r.below(11);
                    let rrs: Vec<Rec> = if kind < 4 { vec![rec(&owner, 300, ZD::Cname(Cname::new(r.pick(&all_names).clone())))] }
                        else if kind < 8 { vec![rec(&owner, 300, a([192, 0, 2, r.u8()]))] }
                        else if kind < 9 { vec![rec(&owner, 300, a([192, 0, 2, 1])), rec(&owner, 300, a([192, 0, 2, 2]))] }
                        else if kind < 10 { vec![rec(&owner, 300, ZD::Txt(Txt::build_from_slice(b"t").unwrap()))] }
                        else { vec![rec(&owner, 300, ZD::Dname(Dname::new(r.pick(&dn_targets).clone())))] };
                    let unsigned = r.chance(1, 12);
                    let (set, state, signed) = finish(&mut r, rrs, unsigned);
                    push(&mut sets, &mut words, set, state, signed);
                }
            }
            if sets.is_empty() { continue; }
            let qn = match qn_hint { Some(q) => q, None => if r.chance(1, 6) { flip_case(&mut r, &sets[0].rrs[0].owner().clone()) } else if r.chance(1, 6) { cat(r.pick(&prefixes), r.pick(&sec_names)) } else { r.pick(&all_names).clone() } };
            let qt = *r.pick(&[Rtype::A, Rtype::A, Rtype::A, Rtype::CNAME, Rtype::TXT]);
            idx += 1; if !out.wants(idx) { continue; }
            let c = format!("answer {} {} 11 {}", nhex(&qn), qt.to_int(), words.join(" "));
            out.begin(&c);
            let resp = Resp { rcode: Rcode::NOERROR, answer: sets.clone(), authority: vec![] };
            let mut m = build_msg(4, &qn, qt, &resp);
            match catch_mut(|| rt.block_on(async { vc.validate_msg(&mut m).await })) {
                Err(p) => { out.case(&c, "Panic", true, "positive_reply"); out.check(false, "panic_validator", &c, &p); }
                Ok(Err(e)) => out.case(&c, &format!("Error {}", e), true, "positive_reply"),
                Ok(Ok((s, _))) => {
                    out.case(&c, st(s), s == ValidationState::Secure, "positive_reply");
                    if s == ValidationState::Secure {
                        // every RRset of a secure answer has a valid chain - except an unsigned CNAME that is exactly what a DNAME of the
                        // answer synthesizes: the labels in front of the DNAME owner, then the DNAME target (RFC 6672 5.3.1)
                        for (i, set) in sets.iter().enumerate() {
                            let wv: Vec<&str> = words[i].split(' ').collect();
                            if wv[5] == "Secure" { continue; }
                            let exact_synthesis = match set.rrs[0].data() {
                                ZD::Cname(cn) if set.rrs.len() == 1 && set.sigs.is_empty() => sets.iter().any(|d| match d.rrs[0].data() {
                                    ZD::Dname(dn) => { let co = labels_of(set.rrs[0].owner()); let dol = labels_of(d.rrs[0].owner());
                                        co.len() > dol.len() && is_suffix(d.rrs[0].owner(), set.rrs[0].owner()) && {
                                            let mut want: Vec<Vec<u8>> = co[..co.len() - dol.len()].to_vec(); want.extend(labels_of(dn.dname()));
                                            name_from_labels(&want).map_or(false, |wn| rfc_eq(&wn, cn.cname())) } }
                                    _ => false }),
                                _ => false };
                            let has_dname = sets.iter().any(|d| matches!(d.rrs[0].data(), ZD::Dname(_)));
                            let is_cname = matches!(set.rrs[0].data(), ZD::Cname(_));
                            out.check(exact_synthesis, if is_cname && has_dname { "secure_with_forged_dname_cname" } else { "secure_with_unauthenticated_rrset" }, &c,
                                &format!("{} {} of the answer section has no valid chain (and is not the exact synthesis of a DNAME), reply reported secure", set.rrs[0].owner(), set.rrs[0].rtype()));
                        }
                    }
                }
            }
        }
    }

    // ---------------- (4) end to end
    let w = world.clone();
    let queries: Vec<(&str, Rtype)> = vec![
        ("www.zone.sec.", Rtype::A), ("www.zone.sec.", Rtype::AAAA), ("txt.zone.sec.", Rtype::TXT), ("alias.zone.sec.", Rtype::A),
        ("alias2.zone.sec.", Rtype::A), ("alias.zone.sec.", Rtype::CNAME), ("x.wild.zone.sec.", Rtype::A), ("y.x.wild.zone.sec.", Rtype::A),
        ("x.wild.zone.sec.", Rtype::TXT), ("a.zone.sec.", Rtype::A), ("nope.zone.sec.", Rtype::A), ("x.y.nope.zone.sec.", Rtype::A),
        ("zzz.zone.sec.", Rtype::A), ("0.zone.sec.", Rtype::A), ("zone.sec.", Rtype::SOA), ("zone.sec.", Rtype::DNSKEY), ("zone.sec.", Rtype::DS),
        ("zone.sec.", Rtype::A), ("sec.", Rtype::NS), ("nope.sec.", Rtype::A), ("nope.", Rtype::A), (".", Rtype::SOA), (".", Rtype::DS),
        ("www.other.sec.", Rtype::A), ("dangling.zone.sec.", Rtype::A), ("ext.zone.sec.", Rtype::A), ("b.a.zone.sec.", Rtype::A), ("c.a.zone.sec.", Rtype::A),
        ("www.ins.", Rtype::A), ("nope.ins.", Rtype::A), ("ins.", Rtype::SOA), ("www.unsigned.sec.", Rtype::A), ("unsigned.sec.", Rtype::DS),
        ("www.deleg.zone.sec.", Rtype::A), ("nope.deleg.zone.sec.", Rtype::A), ("ins.", Rtype::DS), ("WWW.Zone.SEC.", Rtype::A),
        ("www.n3.sec.", Rtype::A), ("www.n3.sec.", Rtype::TXT), ("nope.n3.sec.", Rtype::A), ("x.y.nope.n3.sec.", Rtype::A), ("a.n3.sec.", Rtype::A),
        ("x.wild.n3.sec.", Rtype::A), ("x.wild.n3.sec.", Rtype::TXT), ("alias.n3.sec.", Rtype::A), ("n3.sec.", Rtype::DS), ("c.a.n3.sec.", Rtype::A),
        ("www.sub.a.zone.sec.", Rtype::A), ("www.sub2.a.zone.sec.", Rtype::A), ("sub.a.zone.sec.", Rtype::DS),
        ("www.deleg.n3.sec.", Rtype::A), ("deleg.n3.sec.", Rtype::DS), ("nope.deleg.n3.sec.", Rtype::A), ("www.q.n3.sec.", Rtype::A), ("x.y.z.n3.sec.", Rtype::A),
    ];
    let run_case = |out: &mut Out, label: &str, qn: &N, qt: Rtype, sc: Script, use_conn: bool, do_flag: bool| -> (Option<Result<(ValidationState, u32), String>>, Mock, Truth, Resp) {
        let mock = Mock::new(w.clone(), sc.clone());
        let vc = Arc::new(ValidationContext::new(w.anchors(), mock.clone()));
        let (hresp, truth) = honest(&w, qn, qt, 0);
        let c = format!("e2e {} {} {} {:?} q{} p{}", label, qn, qt, sc.attack, sc.on_query, sc.pick);
        out.begin(&c);
        let res = catch_mut(|| rt.block_on(async {
            if use_conn {
                let conn = validator::Connection::<Mock, Vec<u8>, Mock>::new(mock.clone(), vc.clone());
                let mut rq = conn.send_request(query_msg(qn, qt, do_flag));
                let r = rq.get_response().await;
                match r {
                    Ok(m) => {
                        let stt = if m.header().ad() { ValidationState::Secure } else if m.header().rcode() == Rcode::SERVFAIL { ValidationState::Bogus } else { ValidationState::Insecure };
                        Ok((stt, 0, Some(m)))
                    }
                    Err(e) => Err(format!("{:?}", e)),
                }
            } else {
                // first upstream query is the user's query
                let mut m = mock.answer(7, qn, qt);
                match vc.validate_msg(&mut m).await { Ok((s, e)) => Ok((s, ede_code(&e), None)), Err(e) => Err(format!("{}", e)) }
            }
        }));
        let applied = mock.clone();
        match res {
            Err(p) => {
                let cls = if p.contains("should not fail") { "nsec3_label_to_hash_panic" } else if p.contains("overflow when subtracting durations") { "node_ttl_underflow_panic" } else { "panic_validator" };
                out.check(false, cls, &c, &p);
                (None, applied, truth, hresp)
            }
            Ok(Err(e)) => (Some(Err(e)), applied, truth, hresp),
            Ok(Ok((s, e, _m))) => (Some(Ok((s, e))), applied, truth, hresp),
        }
    };
    let secure_zone = |qn: &N| -> bool { let z = w.zone_for(qn, Rtype::A); z.key.is_some() };

    // honest runs: both entry points
    for (qs, qt) in &queries {
        let qn = nm(qs);
        for use_conn in [false, true] {
            idx += 1; if !out.wants(idx) { continue; }
            let (res, _, truth, hresp) = run_case(&mut out, "honest", &qn, *qt, quiet.clone(), use_conn, true);
            let c = format!("e2e honest {} {} conn={}", qn, qt, use_conn);
            out.oracle_case(&c, true, "e2e_honest");
            let Some(res) = res else { continue; };
            // the final data decides: a CNAME chain ending in an insecure zone is insecure
            let last_owner: N = hresp.answer.last().map(|s| match s.rrs[0].data() { ZD::Cname(cn) if *qt != Rtype::CNAME => cn.cname().clone(), _ => s.rrs[0].owner().clone() }).unwrap_or(qn.clone());
            let all_secure = w.zone_for(&qn, *qt).key.is_some() && (hresp.answer.is_empty() || secure_zone(&last_owner));
            match res {
                Ok((s, _)) => {
                    if all_secure { out.check(s == ValidationState::Secure, "honest_not_secure", &c, &format!("{} truth {:?}", st(s), truth)); }
                    else {
                        out.check(s != ValidationState::Bogus, "insecure_reported_bogus", &c, st(s));
                        out.check(s != ValidationState::Secure, "secure_without_chain", &c, "data from an unsigned zone reported secure");
                    }
                }
                Err(e) => out.check(false, "honest_not_secure", &c, &format!("error {}", e)),
            }
        }
    }

    // fixed adversarial corpus
    {
        // (a) DS reply carrying an NSEC3 whose owner label is not Base32hex (no signature needed)
        let bad = nm("zzzz.");
        let n3 = Nsec3::new(Nsec3HashAlgorithm::SHA1, 0, 0, Nsec3Salt::<Bytes>::empty(), OwnerHash::from_octets(Bytes::from(vec![1u8; 20])).unwrap(), bitmap(&[Rtype::NS]));
        let resp = Resp { rcode: Rcode::NOERROR, answer: vec![], authority: vec![RRset { rrs: vec![rec(&bad, 300, ZD::Nsec3(n3))], sigs: vec![] }] };
        let sec = nm("sec.");
        let m = build_msg(9, &sec, Rtype::DS, &resp);
        let sc = Script { attack: Attack::None, on_query: 0, pick: 0, raw: vec![(sec.clone(), Rtype::DS.to_int(), m)] };
        idx += 1;
        if out.wants(idx) {
            let (res, _, _, _) = run_case(&mut out, "ds_reply_nsec3_bad_owner_label", &nm("www.zone.sec."), Rtype::A, sc, false, true);
            let c = "e2e ds_reply_nsec3_bad_owner_label www.zone.sec. A (DS reply for sec. carries unsigned `zzzz. NSEC3 1 0 0 - ... NS`)";
            out.oracle_case(c, true, "e2e_corpus");
            if let Some(Ok((s, _))) = res { out.check(s != ValidationState::Secure, "secure_without_chain", c, st(s)); }
        }
        // (b) DNSKEY RRset with TTL 0, correctly signed
        for ttl in [0u32, 3600] {
            let z = &w.zones[2];
            let k = z.key.as_ref().unwrap();
            let (rrs, _) = z.get(&z.apex, Rtype::DNSKEY).unwrap();
            let rrs: Vec<Rec> = rrs.iter().map(|x| rec(x.owner(), ttl, x.data().clone())).collect();
            let sig = sign(k, &rrs);
            let resp = Resp { rcode: Rcode::NOERROR, answer: vec![RRset { rrs, sigs: vec![sig] }], authority: vec![] };
            let m = build_msg(9, &z.apex, Rtype::DNSKEY, &resp);
            let sc = Script { attack: Attack::None, on_query: 0, pick: 0, raw: vec![(z.apex.clone(), Rtype::DNSKEY.to_int(), m)] };
            idx += 1;
            if out.wants(idx) {
                let (res, _, _, _) = run_case(&mut out, &format!("dnskey_ttl_{}", ttl), &nm("www.zone.sec."), Rtype::A, sc, false, true);
                let c = format!("e2e dnskey_ttl_{} www.zone.sec. A (zone.sec. DNSKEY RRset served with TTL {} and a valid signature)", ttl, ttl);
                out.oracle_case(&c, true, "e2e_corpus");
                if ttl > 0 { if let Some(Ok((s, _))) = res { out.check(s == ValidationState::Secure, "honest_not_secure", &c, st(s)); } }
            }
        }
    }

    // generated adversarial runs
    let n_adv = 3000 * scale;
    let (mut adv_applied, mut adv_applied_secure) = (0u64, 0u64);
    for _ in 0..n_adv {
        let (qs, qt) = r.pick(&queries).clone();
        let qn = nm(qs);
        let atk = r.pick(ATTACKS).clone();
        let sc = Script { attack: atk.clone(), on_query: if r.chance(1, 2) { 0 } else { r.below(6) as usize }, pick: r.below(1000) as usize, raw: vec![] };
        let use_conn = r.chance(1, 4);
        idx += 1; if !out.wants(idx) { continue; }
        let (res, mock, _truth, _hresp) = run_case(&mut out, "adv", &qn, qt, sc.clone(), use_conn, true);
        let applied = *mock.0.applied.lock().unwrap();
        let c = format!("e2e adv {} {} {:?} q{} p{} conn={}", qn, qt, atk, sc.on_query, sc.pick, use_conn);
        out.oracle_case(&c, applied, "e2e_adversarial");
        let Some(Ok((s, _))) = res else { continue; };
        if applied { adv_applied += 1; if s == ValidationState::Secure { adv_applied_secure += 1; } }
        if s != ValidationState::Secure { continue; }
        // The adversary holds no key of ., sec. or zone.sec.: whatever is reported
        // secure must be what the signed zones really say.
        let Some(first) = mock.0.first.lock().unwrap().clone() else { continue; };
        let mut sname = qn.clone();
        let mut hops = 0;
        for set in &first.answer {
            if set.rrs.is_empty() { continue; }
            let o = set.rrs[0].owner().clone(); let t = set.rrs[0].rtype();
            let zsigned = w.zone_for(&o, t).key.is_some();
            if !zsigned { out.check(false, "secure_with_unauthenticated_rrset", &c, &format!("answer section carries {} {} of an unsigned zone, reply reported secure", o, t)); continue; }
            let (hr, _) = honest(&w, &o, t, 0);
            let mut got: Vec<String> = set.rrs.iter().map(|x| format!("{}", x.data())).collect(); got.sort();
            let truthful = hr.answer.iter().any(|h| rfc_eq(h.rrs[0].owner(), &o) && h.rrs[0].rtype() == t && { let mut w2: Vec<String> = h.rrs.iter().map(|x| format!("{}", x.data())).collect(); w2.sort(); w2 == got });
            out.check(truthful, "secure_without_chain", &c, &format!("RRset {} {} in a secure reply is not zone content", o, t));
        }
        loop {
            let nxt = first.answer.iter().find_map(|set| match set.rrs.first().map(|x| x.data()) { Some(ZD::Cname(cn)) if qt != Rtype::CNAME && rfc_eq(set.rrs[0].owner(), &sname) => Some(cn.cname().clone()), _ => None });
            match nxt { Some(n) if hops < 12 => { sname = n; hops += 1; } _ => break }
        }
        let positive = first.answer.iter().any(|set| !set.rrs.is_empty() && rfc_eq(set.rrs[0].owner(), &sname) && set.rrs[0].rtype() == qt);
        if !positive {
            let (_, t2) = honest(&w, &sname, qt, 0);
            if first.rcode == Rcode::NXDOMAIN { out.check(t2 == Truth::NxDomain, "secure_without_chain", &c, &format!("secure NXDOMAIN for {} but the zone says {:?}", sname, t2)); }
            else { out.check(t2 != Truth::Data, "secure_without_chain", &c, &format!("secure NODATA for {} {} but the data exists", sname, qt)); }
        }
        // a DS / DNSKEY lookup whose only answer RRset lost its valid signature cannot be part of a chain
        if sc.on_query >= 1 {
            if let Some(h) = mock.0.hit.lock().unwrap().as_ref() {
                let essential = h.truth == Truth::Data && h.honest.answer.len() == 1 && matches!(h.qtype, Rtype::DS | Rtype::DNSKEY)
                    && match atk {
                        Attack::DropSig | Attack::CorruptSig | Attack::ForgeData | Attack::ExpiredSig | Attack::FutureSig | Attack::WrongSigner | Attack::SwapSigOwner => sc.pick % (h.honest.answer.len() + h.honest.authority.len()) == 0,
                        Attack::StripDnssec | Attack::EmptyReply | Attack::ServFail => true,
                        Attack::DropRrset => h.sent.answer.is_empty(),
                        _ => false };
                // only lookups on the path to the signer of the final data matter
                let on_path = is_suffix(&h.qname, &w.zone_for(&sname, qt).apex);
                if essential && on_path { out.check(false, "secure_without_chain", &c, &format!("{} {} reply had no valid signature left, verdict still secure", h.qname, h.qtype)); }
            }
        }
    }
    // (5a) replay on ONE context: a genuine signed answer is validated first, then its RDATA and
    // RRSIG are served under another owner name / the RRSIG with other data; then the genuine one again
    for round in 0..(3 * scale) {
        let vc = ValidationContext::new(w.anchors(), Mock::new(w.clone(), quiet.clone()));
        let z = &w.zones[2];
        for (gname, gt) in [("www.zone.sec.", Rtype::A), ("txt.zone.sec.", Rtype::TXT), ("zz.zone.sec.", Rtype::A), ("alias.zone.sec.", Rtype::CNAME)] {
            let g = nm(gname);
            let genuine = set_of(z.get(&g, gt).unwrap());
            let hon = Resp { rcode: Rcode::NOERROR, answer: vec![genuine.clone()], authority: vec![] };
            idx += 1; if !out.wants(idx) { continue; }
            let c = format!("e2e replay genuine {} {} round {}", g, gt, round);
            out.oracle_case(&c, true, "e2e_replay");
            let s = verdict(&mut out, &vc, &c, &g, gt, &hon);
            out.check(s == Some(ValidationState::Secure), "honest_not_secure", &c, &format!("{:?}", s.map(st)));
            for other in ["bank.zone.sec.", "mail.zone.sec.", "ww.zone.sec.", "www.sec.", "www.other.sec.", "WWW.zone.sec.x.", "zone.sec."] {
                let o = nm(other);
                if rfc_eq(&o, &g) { continue; }
                let moved = RRset { rrs: genuine.rrs.iter().map(|x| reown(x, &o)).collect(), sigs: genuine.sigs.iter().map(|x| reown(x, &o)).collect() };
                let c = format!("e2e replay {} {} RDATA+RRSIG served as {} on the same context", g, gt, o);
                out.oracle_case(&c, true, "e2e_replay");
                let s = verdict(&mut out, &vc, &c, &o, gt, &Resp { rcode: Rcode::NOERROR, answer: vec![moved], authority: vec![] });
                out.check(s != Some(ValidationState::Secure), "secure_replayed_other_owner", &c, "signature made for another owner name accepted");
            }
            let mut forged = genuine.clone();
            let f = forge(&forged.rrs[0]);
            if f.data() != forged.rrs[0].data() {
                forged.rrs[0] = f;
                let c = format!("e2e replay {} {} RRSIG served with other RDATA on the same context", g, gt);
                out.oracle_case(&c, true, "e2e_replay");
                let s = verdict(&mut out, &vc, &c, &g, gt, &Resp { rcode: Rcode::NOERROR, answer: vec![forged], authority: vec![] });
                out.check(s != Some(ValidationState::Secure), "secure_replayed_other_owner", &c, "signature accepted over other data");
            }
            // RRSIG of another RRset of the same owner-less kind: same key, other signature
            let other_sig = z.sigs.get(&(nm("zz.zone.sec."), Rtype::A.to_int())).unwrap();
            if gt == Rtype::A && !rfc_eq(&g, other_sig.owner()) {
                let swapped = RRset { rrs: genuine.rrs.clone(), sigs: vec![reown(other_sig, &g)] };
                let c = format!("e2e replay {} {} with the RRSIG of zz.zone.sec. A", g, gt);
                out.oracle_case(&c, true, "e2e_replay");
                let s = verdict(&mut out, &vc, &c, &g, gt, &Resp { rcode: Rcode::NOERROR, answer: vec![swapped], authority: vec![] });
                out.check(s != Some(ValidationState::Secure), "secure_replayed_other_owner", &c, "signature of another RRset accepted");
            }
            let c = format!("e2e replay genuine again {} {} round {}", g, gt, round);
            let s = verdict(&mut out, &vc, &c, &g, gt, &hon);
            out.check(s == Some(ValidationState::Secure), "honest_not_secure", &c, &format!("{:?}", s.map(st)));
        }
    }
    // (5a'') malformed replies: truncated, bit-flipped, with inflated section counts - for the user's reply and for the
    // DS / DNSKEY lookups (request_as_groups).  No verdict is asserted beyond: no panic, no hang, never an error-free
    // secure verdict for a reply whose answer section no longer parses.
    {
        let infra: Vec<(N, Rtype)> = vec![(nm("sec."), Rtype::DS), (nm("sec."), Rtype::DNSKEY), (nm("zone.sec."), Rtype::DS), (nm("zone.sec."), Rtype::DNSKEY), (nm("."), Rtype::DNSKEY), (nm("ins."), Rtype::DS), (nm("n3.sec."), Rtype::DNSKEY)];
        let users: Vec<(N, Rtype)> = vec![(nm("www.zone.sec."), Rtype::A), (nm("nope.zone.sec."), Rtype::A), (nm("x.wild.zone.sec."), Rtype::A), (nm("www.ins."), Rtype::A), (nm("nope.n3.sec."), Rtype::A), (nm("alias2.zone.sec."), Rtype::A)];
        let garble = |r: &mut Rng, m: &Message<Bytes>| -> Option<Message<Bytes>> {
            let mut b = m.as_slice().to_vec();
            match r.below(5) {
                0 => { let k = 12 + r.below((b.len() - 12) as u64) as usize; b.truncate(k); }
                1 => { for _ in 0..(1 + r.below(4)) { let k = 12 + r.below((b.len() - 12) as u64) as usize; b[k] ^= 1 << r.below(8); } }
                2 => { let f = 4 + 2 * r.below(4) as usize; b[f] = r.u8(); b[f + 1] = r.u8(); }
                3 => { let k = 12 + r.below((b.len() - 12) as u64) as usize; b[k] = 0xC0; if k + 1 < b.len() { b[k + 1] = r.u8(); } }
                _ => { let k = 12 + r.below((b.len() - 12) as u64) as usize; let n = r.below(40) as usize; let extra = r.bytes(n); b.splice(k..k, extra); }
            }
            Message::from_octets(Bytes::from(b)).ok()
        };
        for _ in 0..(400 * scale) {
            let (qn, qt) = r.pick(&users).clone();
            let on_infra = r.chance(2, 3);
            idx += 1; if !out.wants(idx) { continue; }
            let (hq, ht) = if on_infra { r.pick(&infra).clone() } else { (qn.clone(), qt) };
            let (hr, _) = honest(&w, &hq, ht, 0);
            let Some(bad) = garble(&mut r, &build_msg(7, &hq, ht, &hr)) else { continue; };
            let c = format!("e2e garbled {} {} with the {} {} reply replaced by {}", qn, qt, hq, ht, hex(bad.as_slice()));
            out.oracle_case(&c, true, "e2e_garbled");
            out.begin(&c);
            let sc = Script { attack: Attack::None, on_query: 0, pick: 0, raw: if on_infra { vec![(hq.clone(), ht.to_int(), bad.clone())] } else { vec![] } };
            let mock = Mock::new(w.clone(), sc);
            let vc = ValidationContext::new(w.anchors(), mock.clone());
            let mut m = if on_infra { mock.answer(7, &qn, qt) } else { bad.clone() };
            let parses = |m: &Message<Bytes>| m.answer().map(|a| a.into_iter().all(|x| x.is_ok())).unwrap_or(false) && m.authority().map(|a| a.into_iter().all(|x| x.is_ok())).unwrap_or(false);
            let user_ok = parses(&m);
            match catch_mut(|| rt.block_on(async { vc.validate_msg(&mut m).await })) {
                Err(p) => out.check(false, "panic_validator", &c, &p),
                Ok(Err(_)) => out.check(true, "panic_validator", &c, ""),
                Ok(Ok((s, _))) => {
                    out.check(true, "panic_validator", &c, "");
                    out.check(!(s == ValidationState::Secure && !user_ok), "secure_without_chain", &c, "secure verdict for a reply whose records do not parse");
                }
            }
        }
    }
    // (5a-seq) several honest queries in sequence on ONE context, warming different parts of the chain first:
    // every verdict must be the one a fresh context gives (the node cache must not change verdicts)
    {
        let seqs: Vec<Vec<(&str, Rtype)>> = vec![
            vec![("www.sub.a.zone.sec.", Rtype::A), ("www.sub2.a.zone.sec.", Rtype::A), ("b.a.zone.sec.", Rtype::A)],
            vec![("b.a.zone.sec.", Rtype::A), ("www.sub2.a.zone.sec.", Rtype::A), ("www.sub.a.zone.sec.", Rtype::A), ("www.zone.sec.", Rtype::A)],
            vec![("www.zone.sec.", Rtype::A), ("www.deleg.zone.sec.", Rtype::A), ("nope.deleg.zone.sec.", Rtype::A), ("www.sub.a.zone.sec.", Rtype::A), ("www.sub2.a.zone.sec.", Rtype::A)],
            vec![("www.ins.", Rtype::A), ("nope.ins.", Rtype::A), ("www.unsigned.sec.", Rtype::A), ("www.other.sec.", Rtype::A), ("www.n3.sec.", Rtype::A), ("www.deleg.n3.sec.", Rtype::A), ("nope.deleg.n3.sec.", Rtype::A)],
            vec![("sec.", Rtype::NS), ("www.sub2.a.zone.sec.", Rtype::A), ("zone.sec.", Rtype::SOA), ("www.sub.a.zone.sec.", Rtype::A), ("x.wild.zone.sec.", Rtype::A)],
        ];
        for (si, seq) in seqs.iter().enumerate() {
            let mock = Mock::new(w.clone(), quiet.clone());
            let vc = ValidationContext::new(w.anchors(), mock.clone());
            for (k, (qs, qt)) in seq.iter().enumerate() {
                let qn = nm(qs);
                idx += 1; if !out.wants(idx) { continue; }
                let (hr, _) = honest(&w, &qn, *qt, 0);
                let c = format!("e2e sequence {} step {}: {} {} on a context that already answered {:?}", si, k, qn, qt, &seq[..k]);
                out.oracle_case(&c, true, "e2e_sequence");
                let s = verdict(&mut out, &vc, &c, &qn, *qt, &hr);
                let fresh = verdict(&mut out, &ValidationContext::new(w.anchors(), Mock::new(w.clone(), quiet.clone())), &c, &qn, *qt, &hr);
                let signed = w.zone_for(&qn, *qt).key.is_some();
                out.check(s == fresh, if signed { "honest_not_secure" } else { "cached_intermediate_node_as_signer" }, &c, &format!("warm context says {:?}, a fresh one {:?}", s.map(st), fresh.map(st)));
            }
        }
    }
    // (5a-node) which node answers for a name: sequences of unsigned one-RRset replies (each makes exactly one get_node call
    // for the owner name) on one context; observed per step: the DS lookups issued (= the child nodes created) and the verdict
    {
        let pool: Vec<&str> = vec!["www.zone.sec.", "b.a.zone.sec.", "q.a.zone.sec.", "www.sub.a.zone.sec.", "www.sub2.a.zone.sec.", "x.y.zone.sec.", "www.deleg.zone.sec.",
            "zone.sec.", "sec.", "www.n3.sec.", "a.n3.sec.", "www.ins.", "x.www.zone.sec.", "b.a.n3.sec.", "www.deleg.n3.sec.", "a.zone.sec.", "nope.sec.", "x.b.a.zone.sec."];
        // classification of every name that may get a node: from the zones as built
        let classify = |n: &N| -> &'static str {
            if let Some(z) = w.zones.iter().find(|z| rfc_eq(&z.apex, n)) { return if z.key.is_some() { "S" } else { "I" }; }
            let z = w.zone_for(n, Rtype::A);
            if z.key.is_none() { "I" } else if z.exists(n) { "M" } else { "B" }
        };
        let mut table: Vec<String> = vec![];
        for pn in &pool { let l = labels_of(&nm(pn)); for k in 0..l.len() { let sfx = name_from_labels(&l[k..]).unwrap(); let e = format!("{}:{}", nhex(&sfx), classify(&sfx)); if !table.contains(&e) { table.push(e); } } }
        let tblw = table.join(",");
        for _ in 0..(60 * scale) {
            let mock = Mock::new(w.clone(), quiet.clone());
            let vc = ValidationContext::new(w.anchors(), mock.clone());
            let len = 2 + r.below(5) as usize;
            let mut steps: Vec<String> = vec![];
            for _ in 0..len {
                let qn = nm(*r.pick(&pool[..]));
                steps.push(nhex(&qn));
                idx += 1; if !out.wants(idx) { continue; }
                let c = format!("getnode {} {}", tblw, steps.join(" "));
                out.begin(&c);
                let before = mock.0.log.lock().unwrap().len();
                let resp = Resp { rcode: Rcode::NOERROR, answer: vec![RRset { rrs: vec![rec(&qn, 300, a([203, 0, 113, 7]))], sigs: vec![] }], authority: vec![] };
                let s = verdict(&mut out, &vc, &c, &qn, Rtype::A, &resp);
                let log = mock.0.log.lock().unwrap();
                let ds: Vec<String> = log[before..].iter().filter(|e| e.ends_with("/DS")).map(|e| nhex(&nm(&format!("{}.", e.trim_end_matches("/DS").trim_end_matches('.'))))).collect();
                drop(log);
                let Some(s) = s else { continue; };
                out.case(&c, &format!("{} {}", if ds.is_empty() { "-".to_string() } else { ds.join(",") }, if s == ValidationState::Insecure { "Insecure" } else { "Bogus" }), !ds.is_empty(), "get_node");
                out.check(s != ValidationState::Secure, "secure_without_chain", &c, "unsigned data reported secure");
                // the node cache must not change verdicts: below an insecure delegation unsigned data is insecure, whatever was asked before
                let below_insecure = w.zone_for(&qn, Rtype::A).key.is_none();
                out.check(!below_insecure || s == ValidationState::Insecure, "cached_intermediate_node_as_signer", &c, &format!("data below an insecure delegation reported {} on a warm context", st(s)));
            }
        }
    }
    // (5a-conn) the validating transport: every combination of the request's CD / DO / AD flags and the upstream reply's
    // AD / CD flags, for a secure positive answer, a secure name error, an insecure answer and a bogus one
    {
        let kinds: Vec<(&str, Rtype, Attack)> = vec![("www.zone.sec.", Rtype::A, Attack::None), ("nope.zone.sec.", Rtype::A, Attack::None),
            ("ext.zone.sec.", Rtype::A, Attack::None), ("www.zone.sec.", Rtype::A, Attack::CorruptSig), ("txt.zone.sec.", Rtype::TXT, Attack::ForgeData)];
        for (qs, qt, atk) in kinds {
            let qn = nm(qs);
            let (mut hr, _) = honest(&w, &qn, qt, 0);
            if atk != Attack::None { let zk = w.zone_for(&qn, qt).key.as_ref(); mutate(&w, &mut hr, &atk, 0, zk); }
            // the verdict of the validator for this reply (the header flags play no role in it)
            let vst = verdict(&mut out, &ValidationContext::new(w.anchors(), Mock::new(w.clone(), quiet.clone())), "conn verdict", &qn, qt, &hr);
            let Some(vst) = vst else { continue; };
            for bits in 0..32u32 {
                let (rcd, rdo, rad, uad, ucd) = (bits & 1 != 0, bits & 2 != 0, bits & 4 != 0, bits & 8 != 0, bits & 16 != 0);
                idx += 1; if !out.wants(idx) { continue; }
                let mut raw = Message::from_octets(build_msg(7, &qn, qt, &hr).as_slice().to_vec()).unwrap();
                raw.header_mut().set_ad(uad); raw.header_mut().set_cd(ucd);
                let raw = Message::from_octets(Bytes::from(raw.into_octets())).unwrap();
                let mock = Mock::new(w.clone(), Script { attack: Attack::None, on_query: 0, pick: 0, raw: vec![(qn.clone(), qt.to_int(), raw)] });
                let vc = Arc::new(ValidationContext::new(w.anchors(), mock.clone()));
                let c = format!("conn {} {} {} {} {} {}", rcd as u8, rdo as u8, rad as u8, uad as u8, ucd as u8, st(vst));
                let cc = format!("{} ({} {} {:?})", c, qn, qt, atk);
                out.begin(&cc);
                let res = catch_mut(|| rt.block_on(async {
                    let conn = validator::Connection::<Mock, Vec<u8>, Mock>::new(mock.clone(), vc.clone());
                    let mut req = query_msg(&qn, qt, rdo);
                    req.header_mut().set_cd(rcd); req.header_mut().set_ad(rad);
                    let mut rq = conn.send_request(req);
                    rq.get_response().await
                }));
                match res {
                    Err(p) => { out.case(&c, "Panic", true, "connection_flags"); out.check(false, "panic_validator", &cc, &p); }
                    Ok(Err(_)) => { out.count("connection_error"); }
                    Ok(Ok(m)) => {
                        let has_dnssec = m.answer().map(|a| a.into_iter().chain(m.authority().unwrap()).any(|x| x.map_or(false, |x| matches!(x.rtype(), Rtype::RRSIG | Rtype::NSEC | Rtype::NSEC3)))).unwrap_or(false);
                        let (ad, cd, sf) = (m.header().ad(), m.header().cd(), m.header().rcode() == Rcode::SERVFAIL);
                        out.case(&c, &format!("ad={} cd={} servfail={} stripped={}", ad as u8, cd as u8, sf as u8, !has_dnssec as u8), ad || sf, "connection_flags");
                        // the AD flag says: this validator found a valid chain.  Never for a reply it did not validate (CD in the
                        // request), never for another verdict, never because the upstream said so
                        out.check(!ad || (!rcd && vst == ValidationState::Secure), "ad_without_validation", &cc, &format!("AD=1 for a reply that was {}", if rcd { "not validated (CD request)".to_string() } else { format!("validated as {}", st(vst)) }));
                        if !rcd && vst == ValidationState::Bogus { out.check(sf, "bogus_not_servfail", &cc, "a bogus reply was handed to the client"); }
                        if !rcd && vst == ValidationState::Secure && (rdo || rad) { out.check(ad, "honest_not_secure", &cc, "secure reply without AD"); }
                    }
                }
            }
        }
    }
    // (5b) NSEC3 name error with an incomplete closest-encloser proof
    {
        let z = w.zones.iter().find(|z| z.nsec3).unwrap();
        let soa_set = set_of(z.get(&z.apex, Rtype::SOA).unwrap());
        let owner_of = |x: &Option<(Vec<Rec>, Option<Rec>)>| x.as_ref().map(|y| nhex(y.0[0].owner()));
        let mut shapes: Vec<(N, N, N)> = vec![]; // (qname, next closer, closest encloser)
        for l2 in ["q", "c", "d", "e", "f", "g", "h", "k"] { for l1 in ["www", "x", "m", "a"] {
            let nc = nm(&format!("{}.n3.sec.", l2)); let q = nm(&format!("{}.{}.n3.sec.", l1, l2));
            let wc0 = star(&z.apex).unwrap();
            let o_nc = owner_of(&z.n3_cover(&nc));
            if o_nc != owner_of(&z.n3_cover(&q)) && o_nc != owner_of(&z.n3_cover(&wc0)) && o_nc != owner_of(&z.n3_match(&z.apex)) { shapes.push((q, nc, z.apex.clone())); }
        } }
        shapes.truncate(8);
        for l in ["x.y", "m.n", "a.b.c"] {
            let q = nm(&format!("{}.deleg.n3.sec.", l));
            let labs = labels_of(&q); let nc = name_from_labels(&labs[labs.len() - 4..]).unwrap();
            shapes.push((q, nc, nm("deleg.n3.sec.")));
        }
        let vc = ValidationContext::new(w.anchors(), Mock::new(w.clone(), quiet.clone()));
        for (q, nc, ce) in &shapes {
            let below_deleg = !rfc_eq(ce, &z.apex);
            let wc = star(ce).unwrap();
            let m_ce = set_of(z.n3_match(ce).unwrap());
            let c_nc = set_of(z.n3_cover(nc).unwrap());
            let c_wc = set_of(z.n3_cover(&wc).unwrap());
            let c_q = set_of(z.n3_cover(q).unwrap());
            let mk = |sets: Vec<&RRset>| { let mut a = vec![soa_set.clone()]; for s in sets { if !a.iter().any(|x| rfc_eq(x.rrs[0].owner(), s.rrs[0].owner()) && x.rrs[0].rtype() == s.rrs[0].rtype()) { a.push(s.clone()); } } Resp { rcode: Rcode::NXDOMAIN, answer: vec![], authority: a } };
            // a proof is complete when the records sent contain one covering the next-closer name, one covering
            // the wildcard at the closest encloser and, unless the closest encloser is the zone apex (the signer
            // of the SOA, known to exist), one matching the closest encloser; a delegation can never be one
            let complete = |sets: &[&RRset]| -> bool {
                let have: Vec<String> = sets.iter().map(|x| nhex(x.rrs[0].owner())).collect();
                let has = |x: &Option<(Vec<Rec>, Option<Rec>)>| owner_of(x).map_or(false, |o| have.contains(&o));
                !below_deleg && has(&z.n3_cover(nc)) && has(&z.n3_cover(&wc)) && (rfc_eq(ce, &z.apex) || has(&z.n3_match(ce)))
            };
            let lists: Vec<(&str, Vec<&RRset>)> = vec![
                ("complete proof", vec![&m_ce, &c_nc, &c_wc]),
                ("next-closer cover omitted", vec![&m_ce, &c_wc]),
                ("wildcard cover omitted", vec![&m_ce, &c_nc]),
                ("closest-encloser match omitted", vec![&c_nc, &c_wc]),
                ("next-closer cover replaced by a cover of the full name", vec![&m_ce, &c_q, &c_wc]),
                ("only the closest-encloser match", vec![&m_ce]),
                ("only a cover of the full name", vec![&c_q]),
            ];
            let variants: Vec<(&str, Resp, bool)> = lists.into_iter().map(|(w2, l)| { let ok = complete(&l); (w2, mk(l), ok) }).collect();
            for (what, resp, may_be_secure) in variants {
                idx += 1; if !out.wants(idx) { continue; }
                let c = format!("e2e nsec3 NXDOMAIN {} (closest encloser {}{}): {}", q, ce, if below_deleg { ", a delegation" } else { "" }, what);
                out.oracle_case(&c, true, "e2e_nsec3_proof");
                let s = verdict(&mut out, &vc, &c, q, Rtype::A, &resp);
                if what == "complete proof" && !below_deleg { out.check(s == Some(ValidationState::Secure), "honest_not_secure", &c, &format!("{:?}", s.map(st))); }
                else if !may_be_secure {
                    out.count(&format!("nsec3_incomplete: {}", what));
                    out.check(s != Some(ValidationState::Secure), "secure_nsec3_incomplete_proof", &c, "name error accepted as secure");
                }
            }
        }
    }
    // (5b') name error although the wildcard at the closest encloser exists: the record sent for the wildcard MATCHES it
    // (NSEC3: owner hash = hash of the wildcard; NSEC: owner = the wildcard) instead of covering it
    {
        let vc = ValidationContext::new(w.anchors(), Mock::new(w.clone(), quiet.clone()));
        for (zname, nsec3) in [("n3.sec.", true), ("zone.sec.", false)] {
            let z = w.zones.iter().find(|z| rfc_eq(&z.apex, &nm(zname))).unwrap();
            let q = nm(&format!("x.wild.{}", zname)); let ce = nm(&format!("wild.{}", zname)); let wc = star(&ce).unwrap();
            let soa_set = set_of(z.get(&z.apex, Rtype::SOA).unwrap());
            let auth: Vec<RRset> = if nsec3 { vec![soa_set, set_of(z.n3_match(&ce).unwrap()), set_of(z.n3_cover(&q).unwrap()), set_of(z.n3_match(&wc).unwrap())] }
                                   else { vec![soa_set, set_of(z.covering(&q).unwrap()), set_of(z.get(&wc, Rtype::NSEC).unwrap())] };
            let mut dedup: Vec<RRset> = vec![];
            for s0 in auth { if !dedup.iter().any(|x| rfc_eq(x.rrs[0].owner(), s0.rrs[0].owner()) && x.rrs[0].rtype() == s0.rrs[0].rtype()) { dedup.push(s0); } }
            idx += 1; if !out.wants(idx) { continue; }
            let c = format!("e2e NXDOMAIN {} although {} exists: the {} for the wildcard matches it instead of covering it", q, wc, if nsec3 { "NSEC3" } else { "NSEC" });
            out.oracle_case(&c, true, "e2e_nsec3_proof");
            let s = verdict(&mut out, &vc, &c, &q, Rtype::A, &Resp { rcode: Rcode::NXDOMAIN, answer: vec![], authority: dedup });
            out.check(s != Some(ValidationState::Secure), "secure_nxdomain_wildcard_exists", &c, "name error accepted although the wildcard that answers the name exists");
        }
    }
    // (5c) child / anchor DNSKEY RRset not signed by the key the DS (trust anchor) vouches for
    {
        let zi = 2usize;
        let z = &w.zones[zi];
        let real = z.key.as_ref().unwrap();
        let www = nm("www.zone.sec.");
        let dk = |k: &ZKey| rec(&k.zone, 300, ZD::Dnskey(k.dnskey.clone()));
        for (what, flags, sign_real, expect_secure) in [("attacker KSK added, RRset signed only by it", 257u16, false, false), ("ZSK without DS, RRset signed only by it", 256, false, false),
                                                         ("ZSK added, RRset signed by the DS key", 256, true, true), ("attacker key replaces the real one, self-signed", 257, false, false)] {
            let atk = gen_key_flags(&z.apex, flags);
            let rrs: Vec<Rec> = if what.starts_with("attacker key replaces") { vec![dk(&atk)] } else { vec![dk(real), dk(&atk)] };
            let sig = if sign_real { sign(real, &rrs) } else { sign(&atk, &rrs) };
            let m = build_msg(9, &z.apex, Rtype::DNSKEY, &Resp { rcode: Rcode::NOERROR, answer: vec![RRset { rrs, sigs: vec![sig] }], authority: vec![] });
            let sc = Script { attack: Attack::None, on_query: 0, pick: 0, raw: vec![(z.apex.clone(), Rtype::DNSKEY.to_int(), m)] };
            let vc = ValidationContext::new(w.anchors(), Mock::new(w.clone(), sc));
            let data = vec![rec(&www, 300, a([6, 6, 6, 6]))];
            let resp = Resp { rcode: Rcode::NOERROR, answer: vec![RRset { sigs: vec![sign(&atk, &data)], rrs: data }], authority: vec![] };
            idx += 1; if !out.wants(idx) { continue; }
            let c = format!("e2e dnskey zone.sec. DNSKEY reply: {}; www.zone.sec. A signed by the added key", what);
            out.oracle_case(&c, true, "e2e_dnskey");
            let s = verdict(&mut out, &vc, &c, &www, Rtype::A, &resp);
            if expect_secure { out.check(s == Some(ValidationState::Secure), "honest_not_secure", &c, &format!("{:?}", s.map(st))); }
            else { out.check(s != Some(ValidationState::Secure), "secure_dnskey_not_signed_by_ds_key", &c, "answer signed by a key that no DS vouches for accepted"); }
            // and the genuinely signed answer on the same context
            let c2 = format!("{} / genuine www.zone.sec. A afterwards", c);
            let s2 = verdict(&mut out, &vc, &c2, &www, Rtype::A, &Resp { rcode: Rcode::NOERROR, answer: vec![set_of(z.get(&www, Rtype::A).unwrap())], authority: vec![] });
            if !expect_secure { out.check(s2 != Some(ValidationState::Secure) || sign_real, "secure_dnskey_not_signed_by_ds_key", &c2, "zone with an unvouched DNSKEY RRset treated as secure"); }
        }
        // an attacker key whose key tag (and algorithm) collide with the key the DS vouches for: the tag filter lets its
        // signature through, only the DS digest and the signature check under the vouched key stand in the way
        if let Some(col) = colliding_key(&z.apex, real.tag) {
            for (what, rrs) in [("colliding attacker key after the real key", vec![dk(real), dk(&col)]), ("colliding attacker key before the real key", vec![dk(&col), dk(real)]),
                                ("colliding attacker key instead of the real key", vec![dk(&col)])] {
                for two_sigs in [false, true] {
                    // one or two attacker signatures (the second over the same data, different randomness)
                    let mut sigs = vec![sign(&col, &rrs)];
                    if two_sigs { sigs.push(sign_with(&col, &col.zone, &rrs, nlabels(&z.apex), now_u32() - 7000, now_u32() + 80000)); }
                    let m = build_msg(9, &z.apex, Rtype::DNSKEY, &Resp { rcode: Rcode::NOERROR, answer: vec![RRset { rrs: rrs.clone(), sigs }], authority: vec![] });
                    let sc = Script { attack: Attack::None, on_query: 0, pick: 0, raw: vec![(z.apex.clone(), Rtype::DNSKEY.to_int(), m)] };
                    let vc = ValidationContext::new(w.anchors(), Mock::new(w.clone(), sc));
                    idx += 1; if !out.wants(idx) { continue; }
                    for (qn, qt, data) in [(www.clone(), Rtype::A, vec![rec(&www, 300, a([6, 6, 6, 6]))]), (nm("bank.zone.sec."), Rtype::A, vec![rec(&nm("bank.zone.sec."), 300, a([6, 6, 6, 7]))]),
                                           (z.apex.clone(), Rtype::NS, vec![rec(&z.apex, 300, ns("evil.ins."))])] {
                        let resp = Resp { rcode: Rcode::NOERROR, answer: vec![RRset { sigs: vec![sign(&col, &data)], rrs: data }], authority: vec![] };
                        let c = format!("e2e dnskey zone.sec. DNSKEY reply: {} (key tag {} = tag of the DS key), signed only by it{}; {} {} signed by the attacker key", what, col.tag, if two_sigs { " twice" } else { "" }, qn, qt);
                        out.oracle_case(&c, true, "e2e_dnskey");
                        let s = verdict(&mut out, &vc, &c, &qn, qt, &resp);
                        out.check(s != Some(ValidationState::Secure), "secure_dnskey_not_signed_by_ds_key", &c, "answer signed by a key that only shares the key tag with the DS-vouched key accepted");
                    }
                }
            }
            // control: the colliding key may be present as long as the vouched key signs the RRset
            let rrs = vec![dk(&col), dk(real)];
            let m = build_msg(9, &z.apex, Rtype::DNSKEY, &Resp { rcode: Rcode::NOERROR, answer: vec![RRset { sigs: vec![sign(real, &rrs)], rrs }], authority: vec![] });
            let vc = ValidationContext::new(w.anchors(), Mock::new(w.clone(), Script { attack: Attack::None, on_query: 0, pick: 0, raw: vec![(z.apex.clone(), Rtype::DNSKEY.to_int(), m)] }));
            let c = "e2e dnskey zone.sec. DNSKEY reply: colliding key present, RRset signed by the DS key; genuine www.zone.sec. A";
            out.oracle_case(c, true, "e2e_dnskey");
            let s = verdict(&mut out, &vc, c, &www, Rtype::A, &Resp { rcode: Rcode::NOERROR, answer: vec![set_of(z.get(&www, Rtype::A).unwrap())], authority: vec![] });
            out.check(s == Some(ValidationState::Secure), "honest_not_secure", c, &format!("{:?}", s.map(st)));
            // mirror at the DS: a validly signed DS RRset whose only record has the right algorithm and key tag but another digest
            let d = real.dnskey.digest(&real.zone, DigestAlgorithm::SHA256).unwrap();
            let mut dv = d.as_ref().to_vec(); dv[0] ^= 0x80;
            for (what, digest, expect) in [("other digest", dv.clone(), false), ("right digest", d.as_ref().to_vec(), true)] {
                let dsr = vec![rec(&z.apex, 300, ZD::Ds(Ds::new(real.tag, real.dnskey.algorithm(), DigestAlgorithm::SHA256, Bytes::from(digest)).unwrap()))];
                let pk = w.zones[1].key.as_ref().unwrap();
                let m = build_msg(9, &z.apex, Rtype::DS, &Resp { rcode: Rcode::NOERROR, answer: vec![RRset { sigs: vec![sign(pk, &dsr)], rrs: dsr }], authority: vec![] });
                let vc = ValidationContext::new(w.anchors(), Mock::new(w.clone(), Script { attack: Attack::None, on_query: 0, pick: 0, raw: vec![(z.apex.clone(), Rtype::DS.to_int(), m)] }));
                let c = format!("e2e dnskey zone.sec. DS reply: algorithm and key tag of the real key, {}; genuine www.zone.sec. A", what);
                out.oracle_case(&c, true, "e2e_dnskey");
                let s = verdict(&mut out, &vc, &c, &www, Rtype::A, &Resp { rcode: Rcode::NOERROR, answer: vec![set_of(z.get(&www, Rtype::A).unwrap())], authority: vec![] });
                if expect { out.check(s == Some(ValidationState::Secure), "honest_not_secure", &c, &format!("{:?}", s.map(st))); }
                else { out.check(s != Some(ValidationState::Secure), "secure_dnskey_not_signed_by_ds_key", &c, "a DS with another digest authenticated the key"); }
            }
        } else { out.count("harness_no_colliding_key"); }
        // the same at the trust anchor
        let rz = &w.zones[0];
        let rreal = rz.key.as_ref().unwrap();
        let atk = gen_key(&rz.apex);
        let rrs = vec![dk(rreal), dk(&atk)];
        let sig = sign(&atk, &rrs);
        let m = build_msg(9, &rz.apex, Rtype::DNSKEY, &Resp { rcode: Rcode::NOERROR, answer: vec![RRset { rrs, sigs: vec![sig] }], authority: vec![] });
        let vc = ValidationContext::new(w.anchors(), Mock::new(w.clone(), Script { attack: Attack::None, on_query: 0, pick: 0, raw: vec![(rz.apex.clone(), Rtype::DNSKEY.to_int(), m)] }));
        let data = vec![rec(&nm("ns."), 300, a([6, 6, 6, 6]))];
        let resp = Resp { rcode: Rcode::NOERROR, answer: vec![RRset { sigs: vec![sign(&atk, &data)], rrs: data }], authority: vec![] };
        idx += 1;
        if out.wants(idx) {
            let c = "e2e dnskey root DNSKEY reply: attacker key added, RRset signed only by it; ns. A signed by the added key";
            out.oracle_case(c, true, "e2e_dnskey");
            let s = verdict(&mut out, &vc, c, &nm("ns."), Rtype::A, &resp);
            out.check(s != Some(ValidationState::Secure), "secure_dnskey_not_signed_by_ds_key", c, "answer signed by a key the trust anchor does not vouch for accepted");
        }
    }
    // ---------------- phase 2 of the runs on the real clock (phase 1 ran before the other targeted adversaries: one shared wait)
    if let Some((vc, owner, resp, t0, exp, c)) = expiry_phase2.take() {
        let deadline = rolls_phase2.iter().map(|r| r.t1 + 4).max().unwrap_or(0).max(exp + 1);
        while now_u32() <= deadline { std::thread::sleep(std::time::Duration::from_millis(100)); out.begin(&c); }
        out.begin(&c);
        let t2 = now_u32();
        let line = format!("reval {} {} {} {}", t0, t2, t0 - 600, exp);
        let mut m = build_msg(11, &owner, Rtype::A, &resp);
        match catch_mut(|| rt.block_on(async { vc.validate_msg(&mut m).await })) {
            Err(p) => { out.case(&line, "Panic", true, "revalidate"); out.check(false, if p.contains("subtract with overflow") { "ttl_for_sig_underflow_panic" } else { "panic_validator" }, &c, &p) }
            Ok(Err(_)) => {}
            Ok(Ok((s, _))) => {
                out.case(&line, if s == ValidationState::Secure { "true" } else { "false" }, true, "revalidate");
                out.check(s != ValidationState::Secure, "secure_with_expired_signature_cached", &c, "a signature validated before its expiration is still accepted after it (signature cache)")
            }
        }
    }
    // phase 2 of the rollover runs
    if !ar.extra.iter().any(|x| x == "--no-wait") {
        for rl in rolls_phase2.drain(..) {
            let zi = if rl.anchor { 0 } else { 2 };
            let zz = &w.zones[zi];
            let real = zz.key.as_ref().unwrap();
            if !rl.phase1_ok { out.count("rollover_case_skipped_first_validation_late"); continue; }
            while now_u32() <= rl.t1 + 4 { std::thread::sleep(std::time::Duration::from_millis(200)); out.begin("rollover wait"); }
            // the old key is withdrawn: the zone now publishes {real key, new key}, everything signed for a day
            let keyset = vec![rec(&rl.apex, 3600, ZD::Dnskey(real.dnskey.clone())), rec(&rl.apex, 3600, ZD::Dnskey(rl.newk.dnskey.clone()))];
            let ksig = sign(real, &keyset);
            rl.mock.0.script.lock().unwrap().raw = vec![(rl.apex.clone(), Rtype::DNSKEY.to_int(), build_msg(9, &rl.apex, Rtype::DNSKEY, &Resp { rcode: Rcode::NOERROR, answer: vec![RRset { rrs: keyset, sigs: vec![ksig] }], authority: vec![] }))];
            let t2 = now_u32();
            // the controls expect the node to be still cached: only meaningful while the 300 s TTLs of the chain above it have
            // not run out either (a long thorough-tier run gets here minutes later) - skip and count then
            if !rl.must_expire && t2.wrapping_sub(rl.t1) > 120 { out.count("rollover_control_skipped_run_too_long"); continue; }
            let d2 = vec![rec(&rl.owner, 300, a([10, 0, 0, 2]))];
            let c = format!("e2e rollover ({}): {} A signed by the withdrawn key at {} (DNSKEY RRset validated at {})", rl.what, rl.owner, t2, rl.t1);
            out.oracle_case(&c, true, "e2e_rollover");
            let s2 = verdict(&mut out, &rl.vc, &c, &rl.owner, Rtype::A, &Resp { rcode: Rcode::NOERROR, answer: vec![RRset { sigs: vec![sign(&rl.old, &d2)], rrs: d2 }], authority: vec![] });
            let Some(s2) = s2 else { continue; };
            out.case(&rl.line.replace("N2", &t2.to_string()), if s2 == ValidationState::Secure { "true" } else { "false" }, true, "node_validity");
            if rl.must_expire {
                out.check(s2 != ValidationState::Secure, "secure_with_withdrawn_key", &c, "the cached node outlived the signature / TTL that justified it: a withdrawn key still validates");
                let d3 = vec![rec(&rl.owner, 300, a([10, 0, 0, 3]))];
                let c3 = format!("e2e rollover ({}): {} A signed by the new key after the rollover", rl.what, rl.owner);
                // the failed attempt above may have left a bogus node behind for max_bogus_validity: use the new key on a fresh name lookup only if the node is gone
                let s3 = verdict(&mut out, &ValidationContext::new(w.anchors(), rl.mock.clone()), &c3, &rl.owner, Rtype::A, &Resp { rcode: Rcode::NOERROR, answer: vec![RRset { sigs: vec![sign(&rl.newk, &d3)], rrs: d3 }], authority: vec![] });
                out.check(s3 == Some(ValidationState::Secure), "honest_not_secure", &c3, &format!("{:?}", s3.map(st)));
            }
        }
    }
    out.finish(&[("label_to_hash_panics", format!("{}", l2h_panics)), ("adversarial_applied", format!("{}", adv_applied)), ("adversarial_applied_still_secure", format!("{}", adv_applied_secure))]);
}

