//! Shared plumbing of the correspondence/oracle harness.
//!
//! Every harness binary `cXX` generates cases from one SplitMix64 state,
//! runs the implementation in /repo on them and writes
//!   cases.txt   one case per line, in the syntax the OCaml model driver reads
//!   impl.txt    the implementation's canonical observation, one line per case
//!   oracle.txt  property-oracle failures: `FAIL <class> <case> :: <detail>`
//!   stats.json  counts, distribution, samples
use std::collections::{BTreeMap, HashSet};
use std::fmt::Write as _;
use std::fs::File;
use std::io::{BufWriter, Write};
use std::panic::{self, AssertUnwindSafe, UnwindSafe};
use std::path::PathBuf;
use std::sync::atomic::{AtomicU64, Ordering};
use std::sync::{Arc, Mutex};

pub struct Rng(pub u64);
impl Rng {
    pub fn new(seed: u64) -> Self { Rng(seed.wrapping_mul(0x9E3779B97F4A7C15) ^ 0xD1B54A32D192ED03) }
    pub fn next(&mut self) -> u64 {
        self.0 = self.0.wrapping_add(0x9E3779B97F4A7C15);
        let mut z = self.0;
        z = (z ^ (z >> 30)).wrapping_mul(0xBF58476D1CE4E5B9);
        z = (z ^ (z >> 27)).wrapping_mul(0x94D049BB133111EB);
        z ^ (z >> 31)
    }
    pub fn below(&mut self, n: u64) -> u64 { if n == 0 { 0 } else { self.next() % n } }
    pub fn range(&mut self, lo: u64, hi: u64) -> u64 { lo + self.below(hi - lo + 1) }
    pub fn chance(&mut self, num: u64, den: u64) -> bool { self.below(den) < num }
    pub fn pick<'a, T>(&mut self, xs: &'a [T]) -> &'a T { &xs[self.below(xs.len() as u64) as usize] }
    pub fn bytes(&mut self, n: usize) -> Vec<u8> { (0..n).map(|_| self.next() as u8).collect() }
    pub fn u32(&mut self) -> u32 { self.next() as u32 }
    pub fn u16(&mut self) -> u16 { self.next() as u16 }
    pub fn u8(&mut self) -> u8 { self.next() as u8 }
    pub fn fork(&mut self) -> Rng { Rng(self.next()) }
}

pub fn hex(b: &[u8]) -> String {
    if b.is_empty() { return "-".to_string(); }
    let mut s = String::with_capacity(b.len() * 2);
    for x in b { write!(s, "{:02x}", x).unwrap(); }
    s
}

pub fn unhex(s: &str) -> Vec<u8> {
    if s == "-" { return vec![]; }
    (0..s.len() / 2).map(|i| u8::from_str_radix(&s[2 * i..2 * i + 2], 16).unwrap()).collect()
}

/// Run `f`, turning a panic into `Err(message)`.
pub fn catch<T>(f: impl FnOnce() -> T + UnwindSafe) -> Result<T, String> {
    match panic::catch_unwind(f) {
        Ok(v) => Ok(v),
        Err(e) => Err(if let Some(s) = e.downcast_ref::<&str>() { s.to_string() }
                      else if let Some(s) = e.downcast_ref::<String>() { s.clone() }
                      else { "panic".to_string() }),
    }
}
pub fn catch_mut<T>(f: impl FnOnce() -> T) -> Result<T, String> { catch(AssertUnwindSafe(f)) }

pub struct Args {
    pub seed: u64,
    pub thorough: bool,
    pub out: PathBuf,
    pub only: Option<u64>,
    pub scale: u64,
    pub extra: Vec<String>,
}

pub fn args() -> Args {
    let mut a = Args { seed: 1, thorough: false, out: PathBuf::from("."), only: None, scale: 1, extra: vec![] };
    let v: Vec<String> = std::env::args().collect();
    let mut i = 1;
    while i < v.len() {
        match v[i].as_str() {
            "--seed" => { a.seed = v[i + 1].parse().unwrap(); i += 1; }
            "--tier" => { a.thorough = v[i + 1] == "thorough"; i += 1; }
            "--out" => { a.out = PathBuf::from(&v[i + 1]); i += 1; }
            "--only" => { a.only = Some(v[i + 1].parse().unwrap()); i += 1; }
            "--scale" => { a.scale = v[i + 1].parse().unwrap(); i += 1; }
            x => a.extra.push(x.to_string()),
        }
        i += 1;
    }
    a
}

/// Output collector.  One `case` call per evaluated case.
pub struct Out {
    cases: BufWriter<File>,
    imp: BufWriter<File>,
    oracle: BufWriter<File>,
    dir: PathBuf,
    pub n: u64,
    seen: HashSet<u64>,
    pub nontrivial: u64,
    pub dist: BTreeMap<String, u64>,
    samples: Vec<String>,
    pub oracle_fail: u64,
    pub oracle_checks: u64,
    heartbeat: Arc<AtomicU64>,
    current: Arc<Mutex<String>>,
    only: Option<u64>,
}

fn fnv(s: &str) -> u64 {
    let mut h = 0xcbf29ce484222325u64;
    for b in s.bytes() { h ^= b as u64; h = h.wrapping_mul(0x100000001b3); }
    h
}

impl Out {
    pub fn new(a: &Args, prop: &'static str, hang_secs: u64) -> Out {
        std::fs::create_dir_all(&a.out).unwrap();
        // silence the default panic printer: panics are observations here
        panic::set_hook(Box::new(|_| {}));
        let heartbeat = Arc::new(AtomicU64::new(0));
        let current = Arc::new(Mutex::new(String::new()));
        {
            // hang watchdog: if no case completes for `hang_secs`, record the
            // case that is running as an oracle failure and exit(3).
            let hb = heartbeat.clone();
            let cur = current.clone();
            let dir = a.out.clone();
            std::thread::spawn(move || {
                let mut last = hb.load(Ordering::SeqCst);
                let mut idle = 0u64;
                loop {
                    std::thread::sleep(std::time::Duration::from_millis(500));
                    let now = hb.load(Ordering::SeqCst);
                    if now == last { idle += 1; } else { idle = 0; last = now; }
                    if idle >= hang_secs * 2 {
                        let c = cur.lock().map(|c| c.clone()).unwrap_or_default();
                        let mut f = std::fs::OpenOptions::new().create(true).append(true)
                            .open(dir.join("hang.txt")).unwrap();
                        writeln!(f, "FAIL hang {} :: no progress for {}s in {}", c, hang_secs, prop).unwrap();
                        std::process::exit(3);
                    }
                }
            });
        }
        Out {
            cases: BufWriter::new(File::create(a.out.join("cases.txt")).unwrap()),
            imp: BufWriter::new(File::create(a.out.join("impl.txt")).unwrap()),
            oracle: BufWriter::new(File::create(a.out.join("oracle.txt")).unwrap()),
            dir: a.out.clone(),
            n: 0, seen: HashSet::new(), nontrivial: 0, dist: BTreeMap::new(), samples: vec![],
            oracle_fail: 0, oracle_checks: 0, heartbeat, current, only: a.only,
        }
    }
    /// Announce the case about to run (for the hang watchdog).
    pub fn begin(&mut self, case: &str) {
        if let Ok(mut c) = self.current.lock() { c.clear(); c.push_str(case); }
        self.heartbeat.fetch_add(1, Ordering::SeqCst);
    }
    pub fn wants(&self, idx: u64) -> bool { self.only.map_or(true, |o| o == idx) }
    /// Record one case for the correspondence check.
    pub fn case(&mut self, case: &str, observed: &str, nontrivial: bool, kind: &str) {
        debug_assert!(!case.contains('\n') && !observed.contains('\n'));
        writeln!(self.cases, "{}", case).unwrap();
        writeln!(self.imp, "{}", observed).unwrap();
        self.n += 1;
        *self.dist.entry(kind.to_string()).or_insert(0) += 1;
        if self.seen.insert(fnv(case)) && nontrivial { self.nontrivial += 1; }
        if self.samples.len() < 6 && (self.n % 97 == 1 || self.samples.len() < 2) {
            let mut c = case.to_string(); if c.len() > 300 { c.truncate(300); c.push_str("..."); }
            let mut o = observed.to_string(); if o.len() > 300 { o.truncate(300); o.push_str("..."); }
            self.samples.push(format!("{} => {}", c, o));
        }
        self.heartbeat.fetch_add(1, Ordering::SeqCst);
    }
    /// A case evaluated by the oracle only (no model counterpart).
    pub fn oracle_case(&mut self, case: &str, nontrivial: bool, kind: &str) {
        self.n += 1;
        *self.dist.entry(kind.to_string()).or_insert(0) += 1;
        if self.seen.insert(fnv(case)) && nontrivial { self.nontrivial += 1; }
        if self.samples.len() < 6 && self.n % 193 == 1 {
            let mut c = case.to_string(); if c.len() > 300 { c.truncate(300); c.push_str("..."); }
            self.samples.push(c);
        }
        self.heartbeat.fetch_add(1, Ordering::SeqCst);
    }
    pub fn count(&mut self, kind: &str) { *self.dist.entry(kind.to_string()).or_insert(0) += 1; }
    /// Property oracle verdict on the implementation.
    pub fn check(&mut self, ok: bool, class: &str, case: &str, detail: &str) {
        self.oracle_checks += 1;
        if !ok {
            self.oracle_fail += 1;
            if self.oracle_fail <= 200 {
                let mut c = case.to_string(); if c.len() > 4000 { c.truncate(4000); c.push_str("..."); }
                writeln!(self.oracle, "FAIL {} {} :: {}", class, c, detail.replace('\n', " ")).unwrap();
            }
        }
    }
    pub fn finish(mut self, extra: &[(&str, String)]) {
        self.cases.flush().unwrap(); self.imp.flush().unwrap(); self.oracle.flush().unwrap();
        let mut s = String::new();
        s.push_str("{\n");
        write!(s, " \"evaluations\": {},\n \"distinct\": {},\n \"distinct_nontrivial\": {},\n \"oracle_checks\": {},\n \"oracle_failures\": {},\n",
            self.n, self.seen.len(), self.nontrivial, self.oracle_checks, self.oracle_fail).unwrap();
        s.push_str(" \"distribution\": {");
        let mut first = true;
        for (k, v) in &self.dist { if !first { s.push(','); } first = false; write!(s, "{}: {}", json_str(k), v).unwrap(); }
        s.push_str("},\n \"samples\": [");
        let mut first = true;
        for x in &self.samples { if !first { s.push(','); } first = false; s.push_str(&json_str(x)); }
        s.push_str("]");
        for (k, v) in extra { write!(s, ",\n {}: {}", json_str(k), v).unwrap(); }
        s.push_str("\n}\n");
        std::fs::write(self.dir.join("stats.json"), s).unwrap();
    }
}

pub fn json_str(s: &str) -> String {
    let mut o = String::from("\"");
    for c in s.chars() {
        match c {
            '"' => o.push_str("\\\""),
            '\\' => o.push_str("\\\\"),
            '\n' => o.push_str("\\n"),
            c if (c as u32) < 0x20 => { write!(o, "\\u{:04x}", c as u32).unwrap(); }
            c => o.push(c),
        }
    }
    o.push('"');
    o
}
