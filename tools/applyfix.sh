#!/bin/sh
# tools/applyfix.sh <diff> "<commit message>"  -- apply to /repo, run the pinned suite, commit
set -e
cd /repo
git apply "$1"
R=$(cargo test --workspace --no-fail-fast --offline 2>&1 | grep -E "^test result" | head -1)
echo "$R"
case "$R" in *"171 passed; 0 failed"*) ;; *) echo "PINNED SUITE NOT GREEN - reverting"; git checkout -- .; exit 1;; esac
git commit -qam "$2"
git log --oneline | head -1
