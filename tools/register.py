#!/usr/bin/env python3
"""tools/register.py Cxx  -- add/refresh the MANIFEST.json entry of a property from tools/meta/Cxx.json
(fields: level (category), level_text, level_note, technique, design_ref)."""
import json, os, sys
V = os.path.dirname(os.path.dirname(os.path.abspath(__file__)))
def main():
    pid = sys.argv[1]
    meta = json.load(open(os.path.join(V, "tools", "meta", pid + ".json")))
    m = json.load(open(os.path.join(V, "MANIFEST.json")))
    m["checks"] = [c for c in m["checks"] if c["property_id"] != pid]
    m["not_applicable"] = [c for c in m.get("not_applicable", []) if c["property_id"] != pid]
    m["checks"].append({
        "property_id": pid,
        "quick_cmd": "./check %s --tier quick" % pid,
        "thorough_cmd": "./check %s --tier thorough" % pid,
        "evidence_file": "evidence/%s.json" % pid,
        "replay_cmd_template": "./check %s --replay {path}" % pid,
        "engine": "coq-proof+correspondence",
        "level_claimed": {"category": ("proof" if str(meta.get("level", "proof")).lower().startswith("proof") else meta.get("level")),
                          "text": meta.get("level_text", "Coq theorems over a Gallina model of the anchored code, tied to /repo by T1 (source-extracted constants) and T2 (extracted model vs implementation), see DESIGN.md"),
                          "design_ref": meta.get("design_ref", "DESIGN.md section 6/" + pid)},
        "level_note": meta.get("level_note", "Trusted: Coq kernel, T1 extractor, ExtrOcamlBasic extraction + OCaml driver, Rust harness; see evidence coverage.trusted_base and coverage.not_modelled"),
        "technique": meta.get("technique", "Coq proof over Gallina model + T1 source extraction + T2 extracted-model differential testing + implementation oracle"),
    })
    m["checks"].sort(key=lambda c: c["property_id"])
    for e in m.get("engines", []):
        e["serves_properties"] = [c["property_id"] for c in m["checks"]]
    json.dump(m, open(os.path.join(V, "MANIFEST.json"), "w"), indent=1)
    print("registered", pid)
main()
