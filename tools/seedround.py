#!/usr/bin/env python3
"""tools/seedround.py <round-tag> <outdir-pattern> [-j N] Cxx ...

Confirm and file the seeded changes a seeding agent left in
<outdir-pattern % cxx>/<i>/ (patch.diff, demo.rs, notes.md): for each, run
tools/muttest.py with the demonstration (pinned suite with the patch,
demonstration fails with / passes without, then `./check Cxx` on the mutated
scratch copy) and store everything as seeded/Cxx-<round-tag>-<i>/ through
tools/seedsave.py.  A change that does not meet the seeding contract is filed
with that noted in meta.json ("confirmed") so that it is not counted."""
import json, os, re, subprocess, sys
from concurrent.futures import ThreadPoolExecutor

V = os.path.dirname(os.path.dirname(os.path.abspath(__file__)))


def known_features():
    s = open("/repo/Cargo.toml").read()
    sec = s[s.index("[features]"):]
    sec = sec[:sec.index("\n[", 1)] if "\n[" in sec[1:] else sec
    return set(re.findall(r"^([A-Za-z0-9_\-]+)\s*=", sec, re.M))


KNOWN_FEATURES = known_features()


def one(job):
    prop, tag, src, i = job
    sid = "%s-%s-%s" % (prop, tag, i)
    notes = ""
    if os.path.exists(os.path.join(src, "notes.md")):
        notes = open(os.path.join(src, "notes.md")).read()
    feats = None
    m = re.search(r"^\W*features\W*:\W*`?([A-Za-z0-9_,\- ]+)`?", notes, re.M | re.I)
    if m:
        f = m.group(1).strip().strip("`").replace(" ", "")
        toks = [t for t in f.split(",") if t]
        if toks and all(t in KNOWN_FEATURES for t in toks):
            feats = ",".join(toks)
    cmd = [sys.executable, os.path.join(V, "tools", "muttest.py"), prop, os.path.join(src, "patch.diff"),
           "--demo", os.path.join(src, "demo.rs")]
    if feats:
        cmd += ["--features", feats]
    p = subprocess.run(cmd, stdout=subprocess.PIPE, stderr=subprocess.STDOUT)
    out = p.stdout.decode("utf-8", "replace")
    os.makedirs(os.path.join(V, "build", "reseed"), exist_ok=True)
    mj = os.path.join(V, "build", "reseed", sid + ".json")
    try:
        j = json.loads(out[out.index("{"):])
    except Exception:
        j = dict(error="unparsable muttest output", tail=out[-1500:])
    j["features"] = feats
    json.dump(j, open(mj, "w"), indent=1)
    if "error" in j:
        return sid, "INFRA " + str(j.get("error"))[:200]
    q = subprocess.run([sys.executable, os.path.join(V, "tools", "seedsave.py"), sid, prop, src, mj], stdout=subprocess.PIPE)
    dw = j.get("demo_with_patch", {}).get("rc")
    dwo = j.get("demo_without_patch", {}).get("rc")
    suite = (j.get("suite_with_patch") or {})
    ok = (suite.get("passed") == 171 and suite.get("failed") == 0 and dw not in (0, None) and dwo == 0)
    rp = j.get("replay") or {}
    return sid, "%s contract=%s kind=%s class=%s" % ("caught" if j.get("violation") else "MISSED", "ok" if ok else
                                                      "NOT-MET(suite=%s demo_with=%s demo_without=%s)" % (suite, dw, dwo),
                                                      rp.get("kind"), rp.get("oracle_class"))


def main():
    a = sys.argv[1:]
    tag, pat = a[0], a[1]
    a = a[2:]
    jobs = 3
    if a and a[0] == "-j":
        jobs = int(a[1]); a = a[2:]
    work = []
    for prop in a:
        d = pat % prop.lower()
        for i in sorted(os.listdir(d)):
            if os.path.exists(os.path.join(d, i, "patch.diff")):
                work.append((prop, tag, os.path.join(d, i), i))
    with ThreadPoolExecutor(max_workers=jobs) as ex:
        for sid, msg in ex.map(one, work):
            print(sid, msg, flush=True)


if __name__ == "__main__":
    main()
