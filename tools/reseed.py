#!/usr/bin/env python3
"""tools/reseed.py [-j N] [Cxx ...]   re-run the seeded changes of the given properties
(default: all) through tools/muttest.py against the current /repo HEAD and the current
/verif tree, N at a time, and append the outcome to seeded/<id>/meta.json under "reruns".
A patch that no longer applies to HEAD (the code it touched was repaired since) is
recorded as such. Prints one line per seed and a summary."""
import json, os, subprocess, sys, time
from concurrent.futures import ThreadPoolExecutor

VERIF = os.path.dirname(os.path.dirname(os.path.abspath(__file__)))


def head(path):
    return subprocess.run(["git", "-C", path, "rev-parse", "--short", "HEAD"], stdout=subprocess.PIPE).stdout.decode().strip()


def one(sid):
    d = os.path.join(VERIF, "seeded", sid)
    meta = json.load(open(os.path.join(d, "meta.json")))
    t0 = time.time()
    p = subprocess.run([sys.executable, os.path.join(VERIF, "tools", "muttest.py"), meta["property"],
                        os.path.join(d, "patch.diff"), "--skip-tests"], stdout=subprocess.PIPE, stderr=subprocess.STDOUT)
    out = p.stdout.decode("utf-8", "replace")
    r = dict(when=time.strftime("%Y-%m-%dT%H:%M:%S"), repo_head=head("/repo"), verif_head=head(VERIF), rc=p.returncode,
             wall_s=round(time.time() - t0))
    try:
        j = json.loads(out[out.index("{"):])
        if "error" in j:
            r["result"] = "not-applicable" if "does not apply" in j["error"] else "infrastructure"
            r["error"] = j["error"][-300:]
        else:
            r["violation"] = j.get("violation")
            r["no_failing_input_found"] = j.get("no_failing_input_found")
            rp = j.get("replay") or {}
            r["replay_kind"] = rp.get("kind")
            r["oracle_class"] = rp.get("oracle_class")
            r["broken"] = [b[:200] for b in rp.get("broken", [])][:4]
            r["result"] = "caught" if j.get("violation") else "missed"
            if not j.get("violation"):
                r["check_output_tail"] = j.get("check_output", "")[-600:]
    except Exception as e:  # noqa
        r["result"] = "infrastructure"
        r["error"] = (str(e) + " | " + out[-400:])
    return sid, r


def main():
    a = sys.argv[1:]
    jobs = 4
    if a and a[0] == "-j":
        jobs = int(a[1]); a = a[2:]
    ids = sorted(os.listdir(os.path.join(VERIF, "seeded")))
    ids = [i for i in ids if os.path.exists(os.path.join(VERIF, "seeded", i, "meta.json"))]
    if a and a[0] == "--ids":
        ids = [i for i in ids if i in a[1:]]
    elif a:
        ids = [i for i in ids if i.split("-")[0] in a]
    tally = {}
    with ThreadPoolExecutor(max_workers=jobs) as ex:
        for sid, r in ex.map(one, ids):
            mp = os.path.join(VERIF, "seeded", sid, "meta.json")
            meta = json.load(open(mp))
            meta.setdefault("reruns", []).append(r)
            json.dump(meta, open(mp, "w"), indent=1)
            tally[r["result"]] = tally.get(r["result"], 0) + 1
            print("%-10s %-15s %s %s" % (sid, r["result"], r.get("replay_kind") or "", r.get("oracle_class") or r.get("error", "")[:100]), flush=True)
    print("SUMMARY", json.dumps(tally))


if __name__ == "__main__":
    main()
