#!/usr/bin/env python3
"""./check Cxx [--tier quick|thorough] [--replay FILE]

One pipeline for every property (DESIGN.md section 3):
  1. T1   tools/gen/*.py regenerate coq/*/Gen.v from /repo's working tree
  2. Coq  make the property's targets (full .vo), collect Print Assumptions,
          grep for forbidden vernacular, count closed obligations
  3. ML   compile the extracted model + driver
  4. Rust cargo build the harness bin against /repo (cfg domain_verif)
  5. T2   run harness (implementation + property oracle) and driver (model),
          diff line by line
  6. verdict, replay file, evidence/Cxx.json
"""
import fcntl
import hashlib
import json
import os
import re
import subprocess
import sys
import time

VERIF = os.path.dirname(os.path.dirname(os.path.abspath(__file__)))
REPO = os.environ.get("VERIF_REPO", "/repo")
BUILD = os.path.join(VERIF, "build")
COQ = os.path.join(VERIF, "coq")
FORBIDDEN = re.compile(
    r"\b(Admitted|admit|Axiom|Axioms|Parameter|Parameters|Conjecture|Conjectures)\b"
    r"|Unset\s+Guard|bypass_check|Admit\s+Obligations|type-in-type|impredicative-set|Unset\s+Universe|Unset\s+Positivity|native_compute")
SECTION_ONLY = re.compile(r"^\s*(?:Local\s+|Global\s+)?(Hypothesis|Hypotheses|Variable|Variables|Context)\b")
STD_TRUSTED = [
    "Coq 8.16.1 kernel (coqc, full .vo build; vm_compute used, native_compute not used)",
    "axioms: none expected; every property theorem's Print Assumptions output is checked on each run against coq/ASSUMPTIONS.allow",
    "T1 extractor tools/gen/*.py (anchored regular expressions over the Rust source; failure to match = alarm)",
    "extraction: ExtrOcamlBasic only (its Extract Inductive for bool, option, unit, prod, list, sumbool, sumor); no Extract Constant; N/positive/nat/comparison stay Coq inductives; OCaml 4.13.1 ocamlopt; hand-written model/common*.ml and model/<id>/driver.ml (case parsing, printing)",
    "Rust harness (generators, canonicalisation of observations, implementation-side property oracle, catch_unwind, hang watchdog); rustc, octseq, bytes, tokio, ring and other dependencies of /repo",
    "the Gallina model is a hand transcription of the anchored Rust code; the tie to /repo is T1 (generated constants/tables/operators) + T2 (differential execution on generated cases), both re-run on every check",
]


def sh(cmd, cwd=None, timeout=None, env=None, inp=None):
    e = dict(os.environ)
    e["CARGO_NET_OFFLINE"] = "true"
    if env:
        e.update(env)
    try:
        p = subprocess.run(cmd, cwd=cwd, shell=isinstance(cmd, str), stdout=subprocess.PIPE,
                           stderr=subprocess.STDOUT, timeout=timeout, env=e, input=inp)
        return p.returncode, p.stdout.decode("utf-8", "replace")
    except subprocess.TimeoutExpired as ex:
        out = ex.stdout.decode("utf-8", "replace") if ex.stdout else ""
        return 124, out + "\nTIMEOUT after %ss" % timeout


class Lock:
    def __init__(self, name):
        os.makedirs(BUILD, exist_ok=True)
        self.path = os.path.join(BUILD, name)

    def __enter__(self):
        self.f = open(self.path, "w")
        fcntl.flock(self.f, fcntl.LOCK_EX)

    def __exit__(self, *a):
        fcntl.flock(self.f, fcntl.LOCK_UN)
        self.f.close()


def all_props():
    return sorted(d for d in os.listdir(COQ) if re.fullmatch(r"C\d\d", d) and os.path.isdir(os.path.join(COQ, d)))


def run_t1(log):
    """Run every extractor (write-if-changed).  Returns {prop: (ok, message)}."""
    res = {}
    gd = os.path.join(VERIF, "tools", "gen")
    for f in sorted(os.listdir(gd)):
        m = re.fullmatch(r"(C\d\d)\.py", f)
        if not m:
            continue
        rc, out = sh([sys.executable, os.path.join(gd, f)], timeout=120, env={"VERIF_REPO": REPO, "VERIF_DIR": VERIF})
        res[m.group(1)] = (rc == 0, out.strip())
        log.append("[T1] " + out.strip())
    return res


def coq_files():
    files = []
    for d in ["Base"] + all_props():
        p = os.path.join(COQ, d)
        for f in sorted(os.listdir(p)):
            if f.endswith(".v"):
                files.append(d + "/" + f)
    return files


def ensure_makefile():
    files = coq_files()
    text = "-Q . DV\n" + "\n".join(files) + "\n"
    cp = os.path.join(COQ, "_CoqProject")
    old = open(cp).read() if os.path.exists(cp) else ""
    if old != text or not os.path.exists(os.path.join(COQ, "Makefile")):
        with open(cp, "w") as f:
            f.write(text)
        rc, out = sh("coq_makefile -f _CoqProject -o Makefile", cwd=COQ, timeout=120)
        if rc != 0:
            raise RuntimeError("coq_makefile failed: " + out)


def enclosing_lemma(path, line):
    try:
        src = open(path).read().split("\n")
    except OSError:
        return None
    for i in range(min(line, len(src)) - 1, -1, -1):
        m = re.match(r"\s*(?:Local\s+|Global\s+)?(Theorem|Lemma|Example|Corollary|Fact|Definition|Fixpoint|Program Fixpoint|Equations|Check)\s+([A-Za-z0-9_']+)", src[i])
        if m:
            return m.group(2)
    return None


def coq_build(prop, log, tier):
    """Returns dict(ok, props_ok, model_ok, broken=[...], theorems=[...], assumptions=[...], obligations, discharged)"""
    r = dict(ok=False, model_ok=False, broken=[], theorems=[], axioms={}, obligations=0, discharged=0, log="")
    ensure_makefile()
    pdir = os.path.join(COQ, prop)
    targets = []
    for f in ("Props", "Extract"):
        if os.path.exists(os.path.join(pdir, f + ".v")):
            targets.append("%s/%s.vo" % (prop, f))
    # always recompile Props.v so that Print Assumptions output is in the log
    for ext in (".vo", ".vok", ".vos", ".glob"):
        try:
            os.remove(os.path.join(pdir, "Props" + ext))
        except OSError:
            pass
    os.makedirs(os.path.join(BUILD, "ml", prop), exist_ok=True)
    budget = 3000 if tier == "thorough" else 1500
    # two phases, so that the Print Assumptions output parsed below is that of this
    # property's Props.v alone: (1) everything Props.v requires plus Extract.vo (an imported
    # development's own Props.vo may be rebuilt here and prints its own blocks),
    # (2) Props.vo by itself
    deps = []
    rc_p, out_p = sh(["coqdep", "-Q", ".", "DV", "%s/Props.v" % prop], cwd=COQ, timeout=120)
    if rc_p == 0 and ":" in out_p:
        deps = [w for w in out_p.split("\n")[0].split(":", 1)[1].split() if w.endswith(".vo")]
    phase1 = [t for t in targets if not t.endswith("/Props.vo")] + deps
    out1 = ""
    rc1 = 0
    if phase1:
        rc1, out1 = sh(["timeout", str(budget), "make", "-k", "-j16"] + phase1, cwd=COQ, timeout=budget + 30)
    rc2, out_props = sh(["timeout", str(budget), "make", "-k", "%s/Props.vo" % prop], cwd=COQ, timeout=budget + 30)
    rc = rc1 or rc2
    out = out1 + "\n" + out_props
    r["log"] = out
    log.append("[coq] make %s -> rc=%d" % (" ".join(targets), rc))
    for m in re.finditer(r'File "\./([^"]+)", line (\d+), characters [\d-]+:\n(Error[^\n]*(?:\n[^\n]+){0,6})', out):
        name = enclosing_lemma(os.path.join(COQ, m.group(1)), int(m.group(2)))
        r["broken"].append("%s:%s %s -- %s" % (m.group(1), m.group(2), name or "?", " ".join(m.group(3).split())[:300]))
    if rc != 0 and not r["broken"]:
        r["broken"].append("coq build failed: " + " ".join(out.strip().split("\n")[-3:])[:400])
    r["model_ok"] = os.path.exists(os.path.join(pdir, "Extract.vo")) and not any(
        ("/Model" in b or "/Extract" in b or "/Gen" in b) and b.startswith(prop) for b in r["broken"])
    # theorems in Props.v and their assumptions
    psrc = open(os.path.join(pdir, "Props.v")).read()
    r["theorems"] = re.findall(r"^Theorem\s+([A-Za-z0-9_']+)", psrc, re.M)
    n_print = len(re.findall(r"^Print Assumptions\s+([A-Za-z0-9_']+)", psrc, re.M))
    if n_print != len(r["theorems"]):
        r["broken"].append("%s/Props.v: %d theorems but %d Print Assumptions" % (prop, len(r["theorems"]), n_print))
    # parse assumption blocks in order
    blocks = re.findall(r"(Closed under the global context|Axioms:\n(?:.+\n?)+?(?=\n\S|\Z|COQC|make))", out_props)
    allow = load_allow()
    if os.path.exists(os.path.join(pdir, "Props.vo")):
        if len(blocks) != len(r["theorems"]):
            r["broken"].append("%s/Props.v: expected %d Print Assumptions blocks, saw %d" % (prop, len(r["theorems"]), len(blocks)))
        for th, b in zip(r["theorems"], blocks):
            if b.startswith("Closed"):
                r["axioms"][th] = []
            else:
                names = re.findall(r"^([A-Za-z0-9_'.]+)\s*:", b, re.M)
                r["axioms"][th] = names
                for ax in names:
                    if ax not in allow.get(prop, set()) and ax not in allow.get("*", set()):
                        r["broken"].append("theorem %s depends on axiom %s which is not in coq/ASSUMPTIONS.allow" % (th, ax))
    # forbidden vernacular: every file of this property plus the transitive
    # dependency closure (coqdep) of its Props.v / Extract.v
    scan = [os.path.join(pdir, f) for f in os.listdir(pdir) if f.endswith(".v")]
    roots = [os.path.join(prop, f + ".v") for f in ("Props", "Extract") if os.path.exists(os.path.join(pdir, f + ".v"))]
    rc_d, out_d = sh(["coqdep", "-Q", ".", "DV", "-sort"] + roots, cwd=COQ, timeout=300)
    closure = [os.path.join(COQ, w) for w in out_d.split() if w.endswith(".v") and os.path.exists(os.path.join(COQ, w))] if rc_d == 0 else []
    if not closure:
        closure = [os.path.join(COQ, "Base", f) for f in os.listdir(os.path.join(COQ, "Base")) if f.endswith(".v")]
        for d in dep_props(prop):
            closure += [os.path.join(COQ, d, f) for f in os.listdir(os.path.join(COQ, d)) if f.endswith(".v")]
    for c in closure:
        if c not in scan:
            scan.append(c)
    built_closure = set(closure) | set(os.path.join(pdir, f) for f in os.listdir(pdir) if f.endswith(".v") and os.path.join(pdir, f) in closure)
    for p in scan:
        src = strip_coq_comments(open(p).read())
        depth = 0
        for i, line in enumerate(src.split("\n")):
            if re.match(r"^\s*Section\s+\w+\s*\.", line):
                depth += 1
            elif re.match(r"^\s*End\s+\w+\s*\.", line) and depth > 0:
                depth -= 1
            if FORBIDDEN.search(line) or (depth == 0 and SECTION_ONLY.search(line)):
                r["broken"].append("forbidden vernacular in %s:%d: %s" % (os.path.relpath(p, COQ), i + 1, line.strip()[:120]))
    # obligations: closed lemmas in this property's files (and files it depends on)
    total = 0
    done = 0
    for p in scan:
        if p.endswith("Gen.v"):
            continue
        if p not in built_closure:
            continue   # a file of this directory that Props/Extract do not depend on (scratch, notes)
        src = strip_coq_comments(open(p).read())
        k = len(re.findall(r"^\s*(?:Local\s+|Global\s+)?(?:Theorem|Lemma|Example|Corollary|Fact)\s", src, re.M))
        total += k
        if os.path.exists(p[:-2] + ".vo") and os.path.getmtime(p[:-2] + ".vo") >= os.path.getmtime(p):
            done += k
    r["obligations"] = total
    r["discharged"] = done
    r["ok"] = (rc == 0 and not r["broken"])
    return r


def dep_props(prop):
    """other property directories this property's files import"""
    deps = set()
    pdir = os.path.join(COQ, prop)
    todo = [prop]
    while todo:
        q = todo.pop()
        qd = os.path.join(COQ, q)
        for f in os.listdir(qd):
            if f.endswith(".v"):
                for m in re.finditer(r"\b(C\d\d)\.[A-Z]", open(os.path.join(qd, f)).read()):
                    d = m.group(1)
                    if d != prop and d not in deps and os.path.isdir(os.path.join(COQ, d)):
                        deps.add(d)
                        todo.append(d)
    return sorted(deps)


def strip_coq_comments(s):
    out = []
    depth = 0
    i = 0
    n = len(s)
    instr = False
    while i < n:
        if not instr and s.startswith("(*", i):
            depth += 1
            i += 2
        elif not instr and depth > 0 and s.startswith("*)", i):
            depth -= 1
            i += 2
        else:
            c = s[i]
            if depth == 0:
                if c == '"':
                    instr = not instr
                out.append(c)
            elif c == "\n":
                out.append(c)
            i += 1
    return "".join(out)


def load_allow():
    allow = {}
    p = os.path.join(COQ, "ASSUMPTIONS.allow")
    if os.path.exists(p):
        for line in open(p):
            line = line.split("#")[0].strip()
            if line:
                a, b = line.split()[:2]
                allow.setdefault(a, set()).add(b)
    return allow


def ml_build(prop, log):
    d = os.path.join(BUILD, "ml", prop)
    model = os.path.join(d, "model.ml")
    if not os.path.exists(model):
        return False, "no extracted model"
    msrc = open(model).read()
    parts = ["open Model\n", open(os.path.join(VERIF, "model", "common.ml")).read()]
    if re.search(r"^type nat =", msrc, re.M):
        parts.append(open(os.path.join(VERIF, "model", "common_nat.ml")).read())
    if re.search(r"^type comparison =", msrc, re.M):
        parts.append(open(os.path.join(VERIF, "model", "common_cmp.ml")).read())
    if re.search(r"^type 'a outcome =", msrc, re.M):
        parts.append(open(os.path.join(VERIF, "model", "common_outcome.ml")).read())
    parts.append(open(os.path.join(VERIF, "model", prop, "driver.ml")).read())
    drv = "".join(parts)
    h = hashlib.sha256((msrc + drv).encode()).hexdigest()
    stamp = os.path.join(d, "driver.sha")
    exe = os.path.join(d, "driver")
    if os.path.exists(exe) and os.path.exists(stamp) and open(stamp).read() == h:
        return True, "cached"
    with open(os.path.join(d, "driver.ml"), "w") as f:
        f.write(drv)
    rc, out = sh("ocamlfind ocamlopt -w -a model.mli model.ml driver.ml -o driver", cwd=d, timeout=600)
    log.append("[ml] build %s rc=%d %s" % (prop, rc, out.strip()[-400:]))
    if rc != 0 or not os.path.exists(exe):
        return False, out[-800:]
    with open(stamp, "w") as f:
        f.write(h)
    return True, "built"


def cargo_build(prop, log, release=False):
    hd = os.path.join(VERIF, "harness")
    lock_src = os.path.join(REPO, "Cargo.lock")
    lock_dst = os.path.join(hd, "Cargo.lock")
    if not os.path.exists(lock_dst):
        import shutil
        shutil.copy(lock_src, lock_dst)
    cmd = ["cargo", "build", "--offline", "--bin", prop.lower()]
    if release:
        cmd.append("--release")
    rc, out = sh(cmd, cwd=hd, timeout=1800)
    if rc != 0 and "Cargo.lock" in out:
        import shutil
        shutil.copy(lock_src, lock_dst)
        rc, out = sh(cmd, cwd=hd, timeout=1800)
    log.append("[cargo] build %s rc=%d" % (prop, rc))
    exe = os.path.join(BUILD, "target", "release" if release else "debug", prop.lower())
    return rc == 0 and os.path.exists(exe), out[-3000:], exe


def run_harness(prop, exe, seed, tier, outdir, extra=(), only=None, budget=1500):
    os.makedirs(outdir, exist_ok=True)
    for f in ("cases.txt", "impl.txt", "oracle.txt", "stats.json", "hang.txt", "model.txt"):
        try:
            os.remove(os.path.join(outdir, f))
        except OSError:
            pass
    cmd = [exe, "--seed", str(seed), "--tier", tier, "--out", outdir] + list(extra)
    if only is not None:
        cmd += ["--only", str(only)]
    rc, out = sh(cmd, cwd=VERIF, timeout=budget)
    return rc, out


def run_driver(prop, outdir):
    exe = os.path.join(BUILD, "ml", prop, "driver")
    cases = os.path.join(outdir, "cases.txt")
    with open(cases, "rb") as f:
        data = f.read()
    try:
        p = subprocess.run([exe], input=data, stdout=subprocess.PIPE, stderr=subprocess.PIPE, timeout=1500,
                           preexec_fn=lambda: __import__("resource").setrlimit(__import__("resource").RLIMIT_STACK, (__import__("resource").RLIM_INFINITY, __import__("resource").RLIM_INFINITY)))
    except subprocess.TimeoutExpired:
        return False, "model driver timed out"
    with open(os.path.join(outdir, "model.txt"), "wb") as f:
        f.write(p.stdout)
    if p.returncode != 0:
        return False, "model driver exit %d: %s" % (p.returncode, p.stderr.decode("utf-8", "replace")[-400:])
    return True, ""


def diff_streams(outdir, limit=20):
    cases = open(os.path.join(outdir, "cases.txt"), errors="replace").read().split("\n")
    imp = open(os.path.join(outdir, "impl.txt"), errors="replace").read().split("\n")
    mod = open(os.path.join(outdir, "model.txt"), errors="replace").read().split("\n")
    if cases and cases[-1] == "":
        cases.pop()
    if imp and imp[-1] == "":
        imp.pop()
    if mod and mod[-1] == "":
        mod.pop()
    dis = []
    n = len(cases)
    if len(imp) != n or len(mod) != n:
        dis.append(dict(index=-1, case="<stream length>", impl=str(len(imp)), model=str(len(mod))))
        n = min(len(cases), len(imp), len(mod))
    total = 0
    for i in range(n):
        if imp[i] != mod[i]:
            total += 1
            if len(dis) < limit:
                dis.append(dict(index=i + 1, case=cases[i], impl=imp[i], model=mod[i]))
    return n, total, dis


def load_known():
    p = os.path.join(VERIF, "known_findings.json")
    if not os.path.exists(p):
        return []
    return json.load(open(p)).get("findings", [])


def parse_oracle(outdir):
    fails = []
    for name in ("oracle.txt", "hang.txt"):
        p = os.path.join(outdir, name)
        if os.path.exists(p):
            for line in open(p, errors="replace"):
                m = re.match(r"FAIL (\S+) (.*?) :: (.*)$", line.rstrip("\n"))
                if m:
                    fails.append(dict(cls=m.group(1), case=m.group(2), detail=m.group(3)))
    return fails


def write_replay(prop, payload):
    d = os.path.join(VERIF, "replays")
    os.makedirs(d, exist_ok=True)
    k = 1
    while os.path.exists(os.path.join(d, "%s-%d.json" % (prop, k))):
        k += 1
    p = os.path.join(d, "%s-%d.json" % (prop, k))
    with open(p, "w") as f:
        json.dump(payload, f, indent=1)
    return os.path.relpath(p, VERIF)


def coqchk(prop, log):
    mods = []
    for f in ("Props",):
        mods.append("DV.%s.%s" % (prop, f))
    rc, out = sh(["timeout", "1500", "coqchk", "-silent", "-o", "-Q", ".", "DV"] + mods, cwd=COQ, timeout=1600)
    log.append("[coqchk] rc=%d" % rc)
    return rc, out


def main():
    t0 = time.time()
    argv = sys.argv[1:]
    if not argv:
        print(__doc__)
        sys.exit(2)
    prop = argv[0]
    tier = os.environ.get("VERIF_TIER", "quick")
    replay = None
    i = 1
    while i < len(argv):
        if argv[i] == "--tier":
            tier = argv[i + 1]
            i += 1
        elif argv[i] == "--replay":
            replay = argv[i + 1]
            i += 1
        i += 1
    if tier not in ("quick", "thorough"):
        tier = "quick"
    seed = int(os.environ.get("VERIF_SEED", "1") or "1")
    meta_p = os.path.join(VERIF, "tools", "meta", prop + ".json")
    meta = json.load(open(meta_p)) if os.path.exists(meta_p) else {}
    log = []
    only = None
    if replay:
        rp = json.load(open(replay if os.path.isabs(replay) else os.path.join(VERIF, replay)))
        seed = rp.get("seed", seed)
        tier = rp.get("tier", tier)
        only = rp.get("index")
        print("replaying %s: seed=%s tier=%s index=%s" % (replay, seed, tier, only))
        print(json.dumps(rp, indent=1)[:3000])

    problems = []   # things that break the proof/tie: (kind, text)
    with Lock("coq.lock"):
        t1 = run_t1(log)
        for p_, (ok, msg) in t1.items():
            if not ok and (p_ == prop or p_ in dep_props(prop)):
                problems.append(("T1", msg))
        cq = coq_build(prop, log, tier)
        for b in cq["broken"]:
            problems.append(("coq", b))
        ml_ok, ml_msg = (False, "model did not build")
        if cq["model_ok"]:
            ml_ok, ml_msg = ml_build(prop, log)
            if not ml_ok:
                problems.append(("ml", "extracted model/driver failed to compile: " + ml_msg))
        chk = None
        if tier == "thorough" and cq["ok"] and not replay:
            rc, out = coqchk(prop, log)
            chk = dict(rc=rc, tail=out.strip()[-600:])
            if rc != 0:
                problems.append(("coqchk", "coqchk failed: " + out[-300:]))
            m_ax = re.search(r"\* Axioms:(.*?)\n\s*\n\* ", out, re.S)
            ax_txt = m_ax.group(1).strip() if m_ax else "?"
            chk["axioms"] = ax_txt
            if ax_txt != "<none>":
                allow = load_allow()
                for ax in re.findall(r"([A-Za-z_][A-Za-z0-9_'.]*)", ax_txt):
                    short = ax.split(".")[-1]
                    if short not in allow.get(prop, set()) and short not in allow.get("*", set()) and ax not in allow.get(prop, set()):
                        problems.append(("coqchk", "coqchk reports axiom %s not in coq/ASSUMPTIONS.allow" % ax))

    ok_cargo, cargo_out, exe = cargo_build(prop, log)
    outdir = os.path.join(BUILD, "run", "%s-%s" % (prop, tier))
    stats = {}
    oracle_fails = []
    release_stats = None
    n_cases = n_dis = 0
    dis = []
    t2_ran = False
    if not ok_cargo:
        problems.append(("cargo", "harness does not build against /repo: " + cargo_out[-1500:]))
    else:
        budget = 3000 if tier == "thorough" else 900
        rc, hout = run_harness(prop, exe, seed, tier, outdir, only=only, budget=budget)
        oracle_fails = parse_oracle(outdir)
        if rc == 3:
            pass  # hang recorded in hang.txt
        elif rc != 0:
            problems.append(("harness", "harness exited %d: %s" % (rc, hout[-800:])))
        sp = os.path.join(outdir, "stats.json")
        if os.path.exists(sp):
            stats = json.load(open(sp))
        if ml_ok and os.path.exists(os.path.join(outdir, "cases.txt")) and rc in (0,):
            okd, msg = run_driver(prop, outdir)
            if not okd:
                problems.append(("T2", msg))
            else:
                t2_ran = True
                n_cases, n_dis, dis = diff_streams(outdir)
                if n_dis or (dis and dis[0]["index"] == -1):
                    problems.append(("T2", "%d of %d cases: model and implementation disagree; first: %s" % (
                        n_dis, n_cases, json.dumps(dis[0])[:600])))
        # release-mode pass (wrap-around changes control flow instead of panicking)
        if meta.get("release_pass") and tier == "thorough" and not replay:
            okr, rout, rexe = cargo_build(prop, log, release=True)
            if okr:
                rdir = outdir + "-release"
                rc2, _ = run_harness(prop, rexe, seed + 7, tier, rdir, budget=budget)
                oracle_fails += parse_oracle(rdir)
                try:
                    rs = json.load(open(os.path.join(rdir, "stats.json")))
                    release_stats = dict(ran=True, harness_rc=rc2, evaluations=rs.get("evaluations"),
                                         oracle_checks=rs.get("oracle_checks"), oracle_failures=rs.get("oracle_failures"))
                except Exception:
                    release_stats = dict(ran=True, harness_rc=rc2, stats="unreadable")
                if rc2 not in (0, 3):
                    problems.append(("harness", "release-profile harness run ended with rc=%s" % rc2))
            else:
                problems.append(("cargo", "release-profile harness does not build"))

    # classify oracle failures
    known = [k for k in load_known() if k.get("property") == prop]
    known_classes = {k["class"]: k for k in known if k.get("status") == "known"}
    new_fail = [f for f in oracle_fails if f["cls"] not in known_classes]
    seen_known = {}
    for f in oracle_fails:
        if f["cls"] in known_classes and f["cls"] not in seen_known:
            seen_known[f["cls"]] = f

    # if the proof or the tie is broken but the oracle is silent, widen the search once
    widened = False
    if problems and not new_fail and ok_cargo and not replay:
        widened = True
        wdir = outdir + "-wide"
        rc, hout = run_harness(prop, exe, seed + 1000003, "thorough" if meta.get("widen_thorough", True) else tier, wdir,
                               extra=["--scale", str(meta.get("widen_scale", 3))], budget=1200)
        more = [f for f in parse_oracle(wdir) if f["cls"] not in known_classes]
        new_fail += more

    violations = 0
    lines = []
    for cls, f in seen_known.items():
        lines.append("KNOWN-FINDING: property=%s %s [%s] e.g. %s" % (prop, known_classes[cls]["what"], cls, f["case"][:160]))
    # every listed finding gets its line; one this run's cases did not reproduce says so
    not_seen = [c for c in known_classes if c not in seen_known]
    if ok_cargo and not replay:
        for cls in not_seen:
            lines.append("KNOWN-FINDING: property=%s %s [%s] (listed; not reproduced by the cases of this run)" % (
                prop, known_classes[cls]["what"], cls))
    replay_path = None
    if new_fail or problems:
        violations = max(1, len(new_fail))
        payload = dict(property=prop, seed=seed, tier=tier, repo_head=git_head(),
                       broken=[("%s: %s" % p) for p in problems])
        if new_fail:
            f = new_fail[0]
            payload.update(kind="failing-input", oracle_class=f["cls"], case=f["case"], detail=f["detail"],
                           more=[x for x in new_fail[1:6]])
        elif dis and dis[0]["index"] != -1:
            # a model/implementation disagreement is a concrete input on which the
            # verified model and the code differ; it is the replay, but the property
            # oracle did not fail on it
            payload.update(kind="correspondence-disagreement", index=dis[0]["index"], case=dis[0]["case"],
                           impl=dis[0]["impl"], model=dis[0]["model"], more=dis[1:6])
        else:
            payload.update(kind="no-failing-input-found")
        replay_path = write_replay(prop, payload)
        tail = "" if new_fail else " no-failing-input-found"
        lines.append("VIOLATION property=%s replay=%s%s" % (prop, replay_path, tail))

    wall = time.time() - t0
    # evidence
    samples = list(stats.get("samples", []))[:6]
    if not samples:
        samples = ["theorem " + t for t in cq["theorems"][:5]] or ["(no cases ran)"]
    cov = dict(
        obligations=cq["obligations"], discharged=cq["discharged"] if cq["ok"] else min(cq["discharged"], max(cq["obligations"] - 1, 0)),
        checker_cmd="make -C coq %s/Props.vo %s/Extract.vo (coqc 8.16.1, full .vo)%s; Print Assumptions per theorem; ./check %s" % (
            prop, prop, "; coqchk -o -silent DV.%s.Props" % prop if tier == "thorough" else "", prop),
        trusted_base=STD_TRUSTED + meta.get("trusted_base", []),
        theorems=[dict(name=t, axioms=cq["axioms"].get(t)) for t in cq["theorems"]],
        t1={k: v[1] for k, v in t1.items() if k == prop or k in dep_props(prop)},
        evaluations=int(stats.get("evaluations", 0)),
        distinct_nontrivial=int(stats.get("distinct_nontrivial", 0)),
        rule=meta.get("rule", "cases generated from one SplitMix64 state seeded by VERIF_SEED; distinct by FNV hash of the case line; non-trivial as tagged by the harness"),
        samples=samples,
        correspondence=dict(ran=t2_ran, cases=n_cases, disagreements=n_dis),
        oracle=dict(checks=stats.get("oracle_checks", 0), failures=len(oracle_fails), known_finding_hits=len(oracle_fails) - len(new_fail) if not widened else None,
                    known_classes_reproduced=sorted(seen_known), known_classes_not_reproduced=sorted(not_seen)),
        distribution=stats.get("distribution", {}),
        modelled=meta.get("modelled", []),
        not_modelled=meta.get("not_modelled", []),
        widened_search=widened,
        problems=[("%s: %s" % p)[:500] for p in problems],
    )
    for k, v in stats.items():
        if k not in ("evaluations", "distinct", "distinct_nontrivial", "oracle_checks", "oracle_failures", "distribution", "samples"):
            cov[k] = v
    if chk:
        cov["coqchk"] = chk
    if release_stats:
        cov["release"] = release_stats
    ev = dict(property_id=prop, tier=tier, seed=seed, level=norm_level(meta.get("level", "proof")), coverage=cov,
              assumptions=meta.get("assumptions", []) + ["see coverage.trusted_base"],
              wall_s=round(wall, 2), violations=violations)
    if not replay:
        os.makedirs(os.path.join(VERIF, "evidence"), exist_ok=True)
        with open(os.path.join(VERIF, "evidence", prop + ".json"), "w") as f:
            json.dump(ev, f, indent=1)
    with open(os.path.join(BUILD, "last-%s.log" % prop), "w") as f:
        f.write("\n".join(log) + "\n\n" + cq.get("log", "")[-20000:])
    for l in lines:
        print(l)
    print("%s %s: theorems=%d obligations=%d/%d t2_cases=%d disagreements=%d oracle_checks=%s oracle_failures=%d problems=%d wall=%.1fs" % (
        prop, tier, len(cq["theorems"]), cov["discharged"], cov["obligations"], n_cases, n_dis,
        stats.get("oracle_checks", 0), len(oracle_fails), len(problems), wall))
    for p in problems[:8]:
        print("  problem: %s: %s" % (p[0], p[1][:400]))
    sys.exit(1 if violations else 0)


def norm_level(l):
    l = str(l).lower()
    for k in ("proof", "model_checking", "translation_validation", "exploration", "fault_enumeration"):
        if l.startswith(k):
            return k
    return "other"


def git_head():
    rc, out = sh(["git", "-C", REPO, "rev-parse", "HEAD"], timeout=20)
    return out.strip()


if __name__ == "__main__":
    main()
