#!/usr/bin/env python3
"""setup: build the whole framework from files on disk (offline).
T1 extractors -> coq make (all) -> OCaml drivers -> cargo build of all harness bins."""
import os, sys, shutil
sys.path.insert(0, os.path.dirname(os.path.abspath(__file__)))
import check as C

def main():
    log = []
    with C.Lock("coq.lock"):
        C.run_t1(log)
        C.ensure_makefile()
        for p in C.all_props():
            os.makedirs(os.path.join(C.BUILD, "ml", p), exist_ok=True)
        rc, out = C.sh(["timeout", "3000", "make", "-k", "-j16"], cwd=C.COQ, timeout=3100)
        print(out[-3000:])
        print("[setup] coq make rc=%d" % rc)
        for p in C.all_props():
            if os.path.exists(os.path.join(C.VERIF, "model", p, "driver.ml")):
                ok, msg = C.ml_build(p, log)
                print("[setup] ml %s: %s %s" % (p, ok, msg[-200:]))
    hd = os.path.join(C.VERIF, "harness")
    shutil.copy(os.path.join(C.REPO, "Cargo.lock"), os.path.join(hd, "Cargo.lock"))
    rc2, out = C.sh(["cargo", "build", "--offline", "--bins"], cwd=hd, timeout=3000)
    print(out[-2000:])
    print("[setup] cargo rc=%d" % rc2)
    # setup never fails the run: each check rebuilds what it needs and reports
    sys.exit(0)

if __name__ == "__main__":
    main()
