#!/usr/bin/env python3
"""tools/seedsave.py <seed-id> <property> <srcdir with patch.diff demo.rs notes.md> <muttest.json>"""
import json, os, shutil, sys
V = os.path.dirname(os.path.dirname(os.path.abspath(__file__)))
sid, prop, src, mj = sys.argv[1:5]
d = os.path.join(V, "seeded", sid)
os.makedirs(d, exist_ok=True)
for f in ("patch.diff", "demo.rs", "notes.md"):
    if os.path.exists(os.path.join(src, f)):
        shutil.copy(os.path.join(src, f), os.path.join(d, f))
r = json.load(open(mj))
notes = open(os.path.join(src, "notes.md")).read() if os.path.exists(os.path.join(src, "notes.md")) else ""
rp = r.get("replay", {})
meta = {
 "id": sid, "property": prop,
 "what_it_needs_to_manifest": notes[:1500],
 "confirmed": {
   "pinned_suite_with_patch": r.get("suite_with_patch"),
   "demo_fails_with_patch": (r.get("demo_with_patch", {}).get("rc") not in (0, None)),
   "demo_passes_without_patch": (r.get("demo_without_patch", {}).get("rc") == 0),
   "ran": "tools/muttest.py %s seeded/%s/patch.diff --demo seeded/%s/demo.rs (scratch worktree of /repo + scratch copy of /verif; removed afterwards)" % (prop, sid, sid)},
 "check_result": {"violation": r.get("violation"), "no_failing_input_found": r.get("no_failing_input_found"),
                  "replay_kind": rp.get("kind"), "oracle_class": rp.get("oracle_class"), "case": (rp.get("case") or "")[:300],
                  "broken": rp.get("broken"), "check_wall_s": r.get("check_wall_s")},
}
json.dump(meta, open(os.path.join(d, "meta.json"), "w"), indent=1)
print(sid, "caught" if r.get("violation") else "MISSED")
