#!/usr/bin/env python3
"""T1 extractor for C05: the field lists of the straight-line record data types.

For every record type named in the rdata_types! invocation of src/rdata/mod.rs
whose parse / compose_rdata / compose_canonical_rdata bodies are straight lines
it reads
  * the sequence of `X::parse(parser)` / `parser.parse_*` calls in `parse`,
  * the sequence of compose / append_* calls in `compose_rdata` (helper methods
    compose_head / compose_fixed inlined; the can_compress() branch gives the
    compress flag, the other branch must be the same list uncompressed),
  * the same for `compose_canonical_rdata` (compose_canonical = lower-cased),
  * whether `rdlen` answers None when compress is set,
  * the leading LongRecordData::check_len in parse and in the constructor,
and writes them to coq/C05/Gen.v in the schema language of coq/C05/Schema.v.
Name-only types come from the name_type_* macros of src/rdata/macros.rs.
Types whose bodies do not fit (type bitmaps, SVCB parameters, IPSECKEY gateway,
OPT) are listed as irregular; for them only the name handling of the
canonical form is extracted.  Any body that stops matching raises GenError."""
import re, sys, os
sys.path.insert(0, os.path.dirname(os.path.abspath(__file__)))
from rs import *

IRREGULAR = {"Ipseckey"}

# Rust type -> field kind
NUM = {"u8": "U8", "u16": "U16", "u32": "U32", "Serial": "U32", "Ttl": "U32",
       "Timestamp": "U32", "Rtype": "U16", "SecurityAlgorithm": "U8",
       "DigestAlgorithm": "U8", "Nsec3HashAlgorithm": "U8", "SshfpAlgorithm": "U8",
       "SshfpType": "U8", "TlsaCertificateUsage": "U8", "TlsaSelector": "U8",
       "TlsaMatchingType": "U8", "CaaFlags": "U8", "TsigRcode": "U16",
       "Time48": "U48", "ZonemdScheme": "U8", "ZonemdAlgorithm": "U8"}
OTHER = {"Ipv4Addr": "V4", "Ipv6Addr": "V6", "ParsedName": "NAME", "CharStr": "CharStr",
         "CaaTag": "CaaTagStr", "Nsec3Salt": "Len8Bytes", "OwnerHash": "Len8Bytes",
         "RtypeBitmap": "Bitmap", "SvcParams": "SvcParamsF"}
FIXED = {"U8": 1, "U16": 2, "U32": 4, "U48": 6, "V4": 4, "V6": 16}
WIDTH = {"U8": 1, "U16": 2, "U32": 4, "U48": 6}


def kind_of_type(t, what):
    t = t.strip()
    base = re.match(r"\w+", t).group(0)
    if base in NUM:
        return NUM[base]
    if base in OTHER:
        return OTHER[base]
    if base in ("N", "Name"):
        return "NAME"
    if base in ("Octs", "O"):
        return "BYTES"
    raise GenError("%s: unknown field type %r" % (what, t))


def skip_angle(s, i):
    """s[i] == '<': index after the matching '>' (-> arrows are skipped)."""
    depth = 0
    while i < len(s):
        if s[i] == "<":
            depth += 1
        elif s[i] == ">" and s[i - 1] != "-":
            depth -= 1
            if depth == 0:
                return i + 1
        i += 1
    raise GenError("unbalanced <>")


def impls(src):
    """[(self_type_name, trait_or_None, body)] of all impl blocks."""
    out = []
    for m in re.finditer(r"(?m)^impl\b", src):
        i = m.end()
        while src[i].isspace():
            i += 1
        if src[i] == "<":
            i = skip_angle(src, i)
        j = src.find("{", i)
        # the header may contain a where clause with braces? no: find first '{' at angle depth 0
        depth = 0
        j = i
        while True:
            c = src[j]
            if c == "<":
                depth += 1
            elif c == ">" and src[j - 1] != "-":
                depth -= 1
            elif c == "{" and depth == 0:
                break
            j += 1
        header = " ".join(src[i:j].split())
        header = header.split(" where ")[0]
        trait = None
        if " for " in header:
            trait, header = header.split(" for ", 1)
            trait = re.match(r"[\w:]+", trait.strip()).group(0).split("::")[-1]
        name = re.match(r"[\w:$]+", header.strip())
        if not name:
            continue
        out.append((name.group(0).split("::")[-1], trait, block_from(src, j)))
    return out


def find_fn(imps, tname, fname, trait="any"):
    found = []
    for name, tr, body in imps:
        if name != tname:
            continue
        if trait != "any" and tr != trait:
            continue
        if re.search(r"\bfn\s+" + fname + r"\b", body):
            try:
                found.append(fn_body(body, fname))
            except GenError:
                pass
    if len(found) != 1:
        raise GenError("%s::%s: expected one definition, found %d" % (tname, fname, len(found)))
    return found[0]


def struct_fields(src, tname):
    m = re.search(r"\bpub struct " + tname + r"\b[^{;(]*\{", src)
    if not m:
        m2 = re.search(r"\bpub struct " + tname + r"\b[^{;(]*\(([^)]*)\)", src)
        if m2:
            return {"0": m2.group(1).replace("pub ", "").strip()}
        raise GenError("struct %s not found" % tname)
    body = block_from(src, m.end() - 1)
    body = re.sub(r"#\[[^\]]*\]", "", body)
    fields = {}
    for fm in re.finditer(r"(?:pub(?:\([^)]*\))?\s+)?(\w+)\s*:\s*([^,]+),", body + ","):
        fields[fm.group(1)] = fm.group(2).strip()
    return fields


# ---------------------------------------------------------------- parse side
def parse_list(body, what, consts):
    """-> (fields, long) from the body of `fn parse`."""
    long_ = None
    lets = dict((m.group(1), m.group(2)) for m in
                re.finditer(r"let\s+(\w+)\s*=\s*(.*?);", body, re.S))
    m = re.search(r"LongRecordData::check_len\(\s*((?:[^()]|\(\))*?)\s*\)\?", body)
    if m:
        arg = m.group(1).strip()
        if arg == "parser.remaining()":
            long_ = 0
        elif arg in lets:
            rhs = " ".join(lets[arg].split())
            if rhs == "parser.remaining()":
                long_ = 0
            else:
                mm = re.match(r"match parser\.remaining\(\)\.checked_sub\((\d+)\) \{ Some\(len\) => len, None => return Err\(ParseError::ShortInput\), \}", rhs)
                if not mm:
                    raise GenError("%s: unrecognised length computation %r" % (what, rhs))
                long_ = int(mm.group(1))
        else:
            raise GenError("%s: unrecognised check_len argument %r" % (what, arg))
    if re.search(r"CharStr::skip\(\s*&mut tmp\s*\)", body):
        # Txt::parse: everything that remains, validated as character strings
        one(r"let text = parser\.parse_octets\(len\)\?;", body, what + " text")
        one(r"while tmp\.remaining\(\) != 0 \{\s*CharStr::skip\(&mut tmp\)\?\s*\}", body, what + " loop")
        return ["CharStrs"], long_
    toks = []
    pat = re.compile(r"(\w+)::parse\(\s*parser\s*\)|parser\.(parse_u8)\(\)|parser\s*\.\s*parse_octets\(\s*((?:[^()]|\(\))*?)\s*\)")
    for m in pat.finditer(body):
        if m.group(1):
            t = m.group(1)
            if t in NUM:
                toks.append((NUM[t], m.start()))
            elif t in OTHER:
                toks.append((OTHER[t], m.start()))
            else:
                raise GenError("%s: unknown parsed type %s" % (what, t))
        elif m.group(2):
            toks.append(("U8", m.start()))
        else:
            arg = " ".join(m.group(3).split())
            arg = re.sub(r" as usize$", "", arg)
            src = "parser.remaining()" if arg == "parser.remaining()" else " ".join(lets.get(arg, "?").split())
            if src == "parser.remaining()" or src.startswith("match parser.remaining().checked_sub("):
                mn = 0
                mm = re.search(r"if\s+" + re.escape(arg) + r"\s*<\s*(\w+)\s*\{\s*return Err\(ParseError::ShortInput\);\s*\}", body)
                if mm:
                    c = mm.group(1)
                    mn = consts[c] if c in consts else num(c)
                toks.append(("Rest" if mn == 0 else "FRest %d" % mn, m.start()))
            elif re.fullmatch(r"u16::parse\(parser\)\?", src):
                # the u16 token recorded for this let becomes the length prefix
                idx = [i for i, (k, p) in enumerate(toks) if k == "U16" and body[p:].startswith("u16::parse") and
                       re.search(r"let\s+" + re.escape(arg) + r"\s*=\s*$", body[:p].rstrip() + " ") is not None]
                cand = [i for i, (k, p) in enumerate(toks) if k == "U16" and
                        re.search(r"let\s+" + re.escape(arg) + r"\s*=\s*$", body[:p])]
                if len(cand) != 1:
                    raise GenError("%s: length prefix of %s not found" % (what, arg))
                del toks[cand[0]]
                toks.append(("Len16Bytes", m.start()))
            else:
                raise GenError("%s: parse_octets(%s): unknown length source %r" % (what, arg, src))
    if not toks:
        raise GenError("%s: no parse calls recognised" % what)
    return [k for k, _ in toks], long_


# -------------------------------------------------------------- compose side
def stmts(body):
    """split a straight-line body into statements (top-level ';' / tail expr)."""
    out, depth, cur = [], 0, []
    for c in body:
        if c in "({[":
            depth += 1
        elif c in ")}]":
            depth -= 1
        if c == ";" and depth == 0:
            out.append("".join(cur).strip())
            cur = []
        else:
            cur.append(c)
    tail = "".join(cur).strip()
    if tail:
        out.append(tail)
    return [" ".join(s.split()) for s in out if s.strip()]


def compose_list(imps, tname, fname, fields, what, compress_branch=True):
    body = find_fn(imps, tname, fname, "any")
    return compose_body(imps, tname, body, fields, what, compress_branch)


ORDER = []   # struct field names in the order compose statements mention them


def note(f):
    if not ORDER or ORDER[-1] != f:
        ORDER.append(f)


def new_params(imps, tname):
    """parameter names of the inherent `fn new`, or None"""
    for name, tr, body in imps:
        if name == tname and tr is None:
            m = re.search(r"\bfn\s+new\s*\((.*?)\)\s*->", body, re.S)
            if m:
                return re.findall(r"(\w+)\s*:", m.group(1))
    return None


def compose_body(imps, tname, body, fields, what, compress_branch):
    out = []
    ss = stmts(body)
    i = 0
    pending_len16 = None
    while i < len(ss):
        s = ss[i]
        s = re.sub(r"\?$", "", s).strip()
        m = re.fullmatch(r"if target\.can_compress\(\) \{([^{}]*)\} else \{([^{}]*)\}\s*(.*)", s)
        if m:
            if m.group(3):
                ss.insert(i + 1, m.group(3))
            a = compose_body(imps, tname, m.group(1), fields, what, compress_branch)
            b = compose_body(imps, tname, m.group(2), fields, what, compress_branch)
            if [("NameU" if k == "NameC" else k) for k in a] != b:
                raise GenError("%s: the two can_compress() branches write different fields" % what)
            out += a if compress_branch else b
            i += 1
            continue
        m = re.fullmatch(r"self\.(compose_head|compose_fixed|compose_rdata)\(target\)", s)
        if m:
            out += compose_list(imps, tname, m.group(1), fields, what, compress_branch)
            i += 1
            continue
        m = re.fullmatch(r"target\.append_compressed_name\(&self\.(\$?\w+)\)", s)
        if m:
            fkind(fields, m.group(1), "NAME", what)
            out.append("NameC")
            i += 1
            continue
        m = re.fullmatch(r"self\.(\$?\w+)\.compose_canonical\(target\)", s)
        if m:
            fkind(fields, m.group(1), "NAME", what)
            out.append("NameL")
            i += 1
            continue
        m = re.fullmatch(r"self\.(\$?\w+)\.compose\(target\)", s)
        if m:
            k = fkind(fields, m.group(1), None, what)
            out.append("NameU" if k == "NAME" else k)
            i += 1
            continue
        m = re.fullmatch(r"target\.append_slice\(&\[self\.(\w+)(\.into\(\))?\]\)", s)
        if m:
            k = fkind(fields, m.group(1), "U8", what)
            out.append("U8")
            i += 1
            continue
        m = re.fullmatch(r"target\.append_slice\(&self\.(\w+)\.into_int\(\)\.to_be_bytes\(\)\)", s)
        if m:
            out.append(fkind(fields, m.group(1), "U32", what))
            i += 1
            continue
        m = re.fullmatch(r"target\.append_slice\(&self\.(\w+)(\(\))?\.octets\(\)\)", s)
        if m:
            k = fkind(fields, m.group(1), None, what)
            if k not in ("V4", "V6"):
                raise GenError("%s: .octets() of a %s" % (what, k))
            out.append(k)
            i += 1
            continue
        m = re.fullmatch(r"u16::try_from\(self\.(\w+)\.as_ref\(\)\.len\(\)\) \.expect\(\"[^\"]*\"\) \.compose\(target\)", s)
        if m:
            pending_len16 = m.group(1)
            i += 1
            continue
        m = re.fullmatch(r"target\.append_slice\(self\.(\w+)\.as_ref\(\)\)", s)
        if m:
            fkind(fields, m.group(1), "BYTES", what)
            if pending_len16 is not None:
                if pending_len16 != m.group(1):
                    raise GenError("%s: length prefix of %s followed by %s" % (what, pending_len16, m.group(1)))
                out.append("Len16Bytes")
                pending_len16 = None
            else:
                out.append("Rest")
            i += 1
            continue
        raise GenError("%s: unrecognised compose statement %r" % (what, s))
    if pending_len16 is not None:
        raise GenError("%s: dangling length prefix" % what)
    return out


def fkind(fields, f, expect, what):
    note(f)
    if f not in fields:
        raise GenError("%s: no struct field %s" % (what, f))
    k = kind_of_type(fields[f], what + "." + f)
    if expect is not None and k != expect:
        raise GenError("%s: field %s is a %s, expected %s" % (what, f, k, expect))
    return k


def rdlen_none(imps, tname, what):
    body = " ".join(find_fn(imps, tname, "rdlen", "ComposeRecordData").split())
    if re.match(r"if compress \{ None \} else \{ Some\(", body):
        return True
    if "compress" in re.sub(r"_compress", "", body):
        raise GenError("%s: rdlen uses `compress` in an unrecognised way" % what)
    return False


def rdlen_shape(body, fields, written, what):
    """(sum of the constant terms, number of length terms) of an rdlen body; the
    fields whose length is added must be exactly the variable-length fields
    that compose writes."""
    t = re.sub(r'"[^"]*"', '""', body)
    t = re.sub(r"_compress|compress", " ", t)
    fixed = 0
    def mul(m):
        nonlocal fixed
        ty = m.group(2)
        if ty not in NUM:
            raise GenError("%s: COMPOSE_LEN of unknown type %s" % (what, ty))
        fixed += int(m.group(1)) * WIDTH[NUM[ty]]
        return " "
    t = re.sub(r"\b(\d+)\s*\*\s*(\w+)::COMPOSE_LEN", mul, t)
    def cl(m):
        nonlocal fixed
        ty = m.group(1)
        if ty not in NUM:
            raise GenError("%s: COMPOSE_LEN of unknown type %s" % (what, ty))
        fixed += WIDTH[NUM[ty]]
        return " "
    t = re.sub(r"\b(\w+)::COMPOSE_LEN", cl, t)
    names = []
    def var(m):
        names.append(m.group(1))
        return " "
    t = re.sub(r"self\s*\.\s*(\$?\w+)\s*\.\s*compose_len\(\)", var, t)
    t = re.sub(r"self\s*\.\s*(\w+)\s*\.\s*as_ref\(\)\s*\.\s*len\(\)", var, t)
    t = re.sub(r"self\s*\.\s*(\w+)\s*\.\s*len\(\)", var, t)
    for m in re.finditer(r"(?<![\w.])(\d+)(?![\w.])", t):
        fixed += int(m.group(1))
    if re.search(r"self\s*\.", t):
        raise GenError("%s: unrecognised term in rdlen: %r" % (what, " ".join(t.split())))
    expect = [f for f in written if kind_of_type(fields[f], what) not in FIXED]
    if sorted(names) != sorted(expect):
        raise GenError("%s: rdlen adds the lengths of %s, compose writes the variable-length fields %s" % (what, names, expect))
    return fixed, len(names)


def ctor_checks(imps, tname, what):
    for fname in ("new", "from_octets"):
        try:
            body = find_fn(imps, tname, fname, None)
        except GenError:
            continue
        if "LongRecordData::check_len" in body:
            return True
        m = re.search(tname + r"::check_slice\(", body)
        if m:
            cs = find_fn(imps, tname, "check_slice", None)
            if "LongRecordData::check_len" in cs:
                return True
    return False


# ------------------------------------------------------------------ assembly
def coq_field(k, compress=False, lower=False):
    if k == "NAME":
        return ("NameC %s" if compress else "NameU %s") % ("true" if lower else "false")
    return k


def merge(tname, pl, cl, kl):
    """parse list, compose list, canonical list -> schema fields (strings)"""
    def erase(k):
        if k in ("NameC", "NameU", "NameL", "NAME"):
            return "NAME"
        if k in ("CharStrs",) or k.startswith("FRest") or k == "Rest":
            return "REST"
        return k
    if [erase(k) for k in pl] != [erase(k) for k in cl]:
        raise GenError("%s: parse reads %s but compose_rdata writes %s" % (tname, pl, cl))
    if [erase(k) for k in pl] != [erase(k) for k in kl]:
        raise GenError("%s: parse reads %s but compose_canonical_rdata writes %s" % (tname, pl, kl))
    out = []
    for p, c, k in zip(pl, cl, kl):
        if p == "NAME":
            out.append(coq_field("NAME", c == "NameC", k == "NameL"))
        else:
            if c not in (p, "Rest") or (c == "Rest" and erase(p) != "REST"):
                raise GenError("%s: field kinds differ: parse %s, compose %s" % (tname, p, c))
            out.append(p)
    return out


def build():
    mod = strip_comments(read("src/rdata/mod.rs"))
    inv = one(r"rdata_types!\s*\{", mod, "rdata_types! invocation")
    inv_body = block_from(mod, inv.end() - 1)
    types = []     # (module, TypeName)
    for mm in re.finditer(r"(\w+)::\{", inv_body):
        blk = block_from(inv_body, mm.end() - 1)
        for tm in re.finditer(r"\b([A-Z]\w*)\s*(?:<[^>]*>)?\s*,?", re.sub(r"\b(zone|pseudo)\b", "", blk)):
            types.append((mm.group(1), tm.group(1)))
    if len(types) < 30:
        raise GenError("rdata_types!: only %d types recognised" % len(types))
    rt = strip_comments(read("src/base/iana/rtype.rs"))
    codes = dict((m.group(1), int(m.group(2))) for m in re.finditer(r"\(\s*(\w+)\s*=>\s*(\d+)\s*,", rt))
    macros = strip_comments(read("src/rdata/macros.rs"))

    def module_sources(module):
        p = os.path.join(REPO, "src/rdata", module)
        if os.path.isdir(p):
            return [strip_comments(read(os.path.join("src/rdata", module, f)))
                    for f in sorted(os.listdir(p)) if f.endswith(".rs")]
        return [strip_comments(read("src/rdata/%s.rs" % module))]

    rows, parse_rows, compose_rows, canon_rows = [], [], [], []
    none_types, lower_types, name_types, all_types = [], [], [], []
    shapes = []
    for module, tname in types:
        mnem = tname.upper()
        if mnem not in codes:
            raise GenError("no Rtype code for %s" % tname)
        code = codes[mnem]
        all_types.append(code)
        srcs = module_sources(module)
        # name-only types generated by a macro
        macro_use = None
        for s in srcs:
            m = re.search(r"(name_type\w*)!\s*\{\s*\(\s*" + tname + r"\s*,\s*(\w+)\s*,", s)
            if m:
                macro_use = (m.group(1), m.group(2))
        if macro_use:
            if macro_use[1] != mnem:
                raise GenError("%s declared with Rtype %s" % (tname, macro_use[1]))
            mm = one(r"macro_rules!\s+" + macro_use[0] + r"\s*\{", macros, "macro " + macro_use[0])
            mbody = block_from(macros, mm.end() - 1)
            base = block_from(macros, one(r"macro_rules!\s+name_type_base\s*\{", macros, "name_type_base").end() - 1)
            one(r"ParsedName::parse\(parser\)\.map\(Self::new\)", fn_body(base, "parse"), "name_type_base parse")
            fields = {"$field": "N"}
            imps_m = [("T", "ComposeRecordData", mbody)]
            cl = compose_body(imps_m, "T", fn_body(mbody, "compose_rdata"), fields, tname + " compose_rdata", True)
            kl = compose_body(imps_m, "T", fn_body(mbody, "compose_canonical_rdata"), fields, tname + " canonical", True)
            pl = ["NAME"]
            none = re.match(r"if compress \{ None \} else \{ Some\(", " ".join(fn_body(mbody, "rdlen").split())) is not None
            long_, ctor = None, False
            shape = rdlen_shape(fn_body(mbody, "rdlen"), fields, ["$field"], tname + "::rdlen")
        else:
            src = None
            iname = tname
            for s in srcs:
                if re.search(r"\bpub struct " + tname + r"\b", s):
                    src = s
                am = re.search(r"\bpub type " + tname + r"\s*<[^>]*>\s*=\s*(\w+)\s*<", s)
                if am:
                    src, iname = s, am.group(1)
            if src is None:
                raise GenError("struct %s not found in module %s" % (tname, module))
            imps = impls(src)
            fields = struct_fields(src, iname)
            if tname in IRREGULAR:
                # only the name handling of the canonical form
                kb = find_fn(imps, iname, "compose_canonical_rdata", "ComposeRecordData")
                pb = find_fn(imps, iname, "parse", None)
                has_name = "ParsedName::parse" in pb or "IpseckeyGateway::parse" in pb
                if has_name:
                    name_types.append(code)
                if ".compose_canonical(" in kb:
                    lower_types.append(code)
                elif "self.compose_rdata(target)" not in " ".join(kb.split()) and has_name:
                    cb = find_fn(imps, iname, "compose_rdata", "ComposeRecordData")
                    if ".compose_canonical(" in cb:
                        lower_types.append(code)
                continue
            consts = dict((m.group(1), num(m.group(2))) for m in
                          re.finditer(r"const\s+(\w+)\s*:\s*usize\s*=\s*(\d+)\s*;", src))
            pl, long_ = parse_list(find_fn(imps, iname, "parse", None), tname + "::parse", consts)
            params = new_params(imps, iname)
            del ORDER[:]
            cl = compose_list(imps, iname, "compose_rdata", fields, tname + "::compose_rdata", True)
            order_c = list(ORDER)
            del ORDER[:]
            kl = compose_list(imps, iname, "compose_canonical_rdata", fields, tname + "::compose_canonical_rdata", False)
            order_k = list(ORDER)
            # parse passes its results to new() positionally, so the order in which
            # compose writes the struct fields must be the parameter order of new()
            if params is not None:
                def dedup(xs):
                    o = []
                    for x in xs:
                        if x not in o:
                            o.append(x)
                    return o
                if dedup(order_c) != params or dedup(order_k) != params:
                    raise GenError("%s: compose writes fields %s / %s but new() takes %s" % (tname, order_c, order_k, params))
            none = rdlen_none(imps, iname, tname + "::rdlen")
            ctor = ctor_checks(imps, iname, tname)
            shape = rdlen_shape(find_fn(imps, iname, "rdlen", "ComposeRecordData"), fields,
                                [f for f in dict.fromkeys(order_c)], tname + "::rdlen")
        merged = merge(tname, pl, cl, kl)
        if none != any(c == "NameC" for c in cl):
            raise GenError("%s: rdlen(compress) = None does not match use of append_compressed_name" % tname)
        if none:
            none_types.append(code)
        if "NAME" in pl:
            name_types.append(code)
        if any(k == "NameL" for k in kl):
            lower_types.append(code)
        rows.append((code, tname, merged, long_, ctor))
        shapes.append((code, shape))
        parse_rows.append((code, [coq_field(k) for k in pl]))
    # UnknownRecordData
    rd = strip_comments(read("src/base/rdata.rs"))
    uimps = impls(rd)
    pl, long_ = parse_list(find_fn(uimps, "UnknownRecordData", "parse_any_rdata", None), "Unknown::parse_any_rdata", {})
    ufields = struct_fields(rd, "UnknownRecordData")
    cl = compose_list(uimps, "UnknownRecordData", "compose_rdata", ufields, "Unknown::compose_rdata", True)
    kl = compose_list(uimps, "UnknownRecordData", "compose_canonical_rdata", ufields, "Unknown::compose_canonical_rdata", False)
    unknown = (merge("Unknown", pl, cl, kl), long_, ctor_checks(uimps, "UnknownRecordData", "Unknown"))
    ushape = rdlen_shape(find_fn(uimps, "UnknownRecordData", "rdlen", "ComposeRecordData"), ufields, ["data"], "Unknown::rdlen")
    one(r"if len > usize::from\(u16::MAX\) \{\s*Err\(Self\(\(\)\)\)", fn_body(rd, "check_len", after="impl LongRecordData"), "LongRecordData::check_len bound")
    # Opt is added by the macro itself
    one(r"Opt::RTYPE\s*=>", macros, "Opt arm of parse_any_rdata")
    all_types.append(codes["OPT"])
    one(r"_ =>\s*\{\s*Ok\(AllRecordData::Unknown\(\s*UnknownRecordData::parse_any_rdata\(", macros, "Unknown fallback of parse_any_rdata")
    # AllRecordData / ZoneRecordData ==: which of the two variants that the macro adds itself
    # (Opt, Unknown) have a match arm (everything else falls to `_ => false`)
    def eq_arms(enum):
        hdr = one(r"impl<O, OO, N, NN> PartialEq<" + enum + r"<OO, NN>>\s*for " + enum + r"<O, N>", macros, enum + " PartialEq impl")
        body = fn_body(macros[hdr.end():], "eq")
        one(r"(?:\(_, _\)|_)\s*=>\s*false", body, enum + "::eq fallback arm")
        def arm(var):
            return re.search(r"&" + enum + r"::" + var + r"\(ref \w+\),\s*&" + enum + r"::" + var + r"\(ref \w+\)\s*\)\s*=>\s*\{\s*\w+\.eq\(\w+\)", body) is not None
        return arm("Opt"), arm("Unknown")
    all_opt, all_unk = eq_arms("AllRecordData")
    _, zone_unk = eq_arms("ZoneRecordData")
    # Opt::push_raw_option: does the length check count the four header octets of the option?
    optsrc = strip_comments(read("src/base/opt/mod.rs"))
    pro = fn_body(optsrc, "push_raw_option", after="impl<Octs: Composer> Opt<Octs>")
    chk = one(r"LongOptData::check_len\((.*?)\)\?;", pro, "Opt::push_raw_option length check")
    arg = " ".join(chk.group(1).split())
    if arg == "self.octets .as_ref() .len() .saturating_add(usize::from(option_len)),":
        push_hdr = False
    elif arg == "self.octets .as_ref() .len() .saturating_add(usize::from( OptionCode::COMPOSE_LEN + u16::COMPOSE_LEN, )) .saturating_add(usize::from(option_len)),":
        push_hdr = True
    else:
        raise GenError("Opt::push_raw_option: unrecognised length check %r" % arg)
    one(r"code\.compose\(&mut self\.octets\)\?;\s*option_len\.compose\(&mut self\.octets\)\?;\s*op\(&mut self\.octets\)\?;", pro, "Opt::push_raw_option framing")
    one(r"if len > usize::from\(u16::MAX\) \{\s*Err\(Self\(\(\)\)\)", fn_body(optsrc, "check_len", after="impl LongOptData"), "LongOptData::check_len bound")
    # TxtBuilder: every append checks the octets written so far plus the octets it is about to
    # write (the slice; for a whole character string its length octet and its content) against
    # LongRecordData::check_len's bound
    txtsrc = strip_comments(read("src/rdata/rfc1035/txt.rs"))
    tb_after = "impl<Builder: OctetsBuilder + AsRef<[u8]> + AsMut<[u8]>> TxtBuilder<Builder>"
    def txt_append_check(fname):
        body = fn_body(txtsrc, fname, after=tb_after)
        m = one(r"LongRecordData::check_append_len\((.*?)\)\?;", " ".join(body.split()), "TxtBuilder::%s length check" % fname)
        return " ".join(m.group(1).split()), " ".join(body.split())
    a_slice, b_slice = txt_append_check("builder_append_slice")
    if a_slice != "self.builder.as_ref().len(), slice.len(),":
        raise GenError("TxtBuilder::builder_append_slice: unrecognised length check %r" % a_slice)
    one(r"\)\?; self\.builder\.append_slice\(slice\)\?; Ok\(\(\)\)$", b_slice, "TxtBuilder::builder_append_slice writes the slice it checked")
    a_cs, b_cs = txt_append_check("append_charstr")
    if a_cs == "self.builder.as_ref().len(), usize::from(s.compose_len()),":
        txt_cs_full = True
    elif a_cs in ("self.builder.as_ref().len(), s.len(),", "self.builder.as_ref().len(), s.as_slice().len(),"):
        txt_cs_full = False
    else:
        raise GenError("TxtBuilder::append_charstr: unrecognised length check %r" % a_cs)
    one(r"^self\.close_charstr\(\); LongRecordData::check_append_len\(", b_cs, "TxtBuilder::append_charstr closes the open string before the check")
    one(r"\)\?; s\.compose\(&mut self\.builder\)\?; Ok\(\(\)\)$", b_cs, "TxtBuilder::append_charstr writes the string it checked")
    bsrc = strip_comments(read("src/base/rdata.rs"))
    one(r"if len > usize::from\(u16::MAX\) \{\s*Err\(Self\(\(\)\)\)", fn_body(bsrc, "check_len", after="impl LongRecordData"), "LongRecordData::check_len bound")
    one(r"^Self::check_len\(len\.checked_add\(extra_len\)\.ok_or\(Self\(\(\)\)\)\?\)$", " ".join(fn_body(bsrc, "check_append_len", after="impl LongRecordData").split()), "LongRecordData::check_append_len")
    if sum(1 for _ in re.finditer(r"self\.builder\s*\.append_slice\(|compose\(&mut self\.builder\)", fn_body(txtsrc, "append_slice", after=tb_after) + fn_body(txtsrc, "append_u8", after=tb_after))) != 0:
        raise GenError("TxtBuilder::append_slice / append_u8 write to the builder without the length check")
    # constants of the structural checks (type bitmap, SVCB parameters, EDNS option shapes)
    dn = strip_comments(read("src/rdata/dnssec.rs"))
    fo = fn_body(dn, "from_octets", after="impl<Octs> RtypeBitmap<Octs>")
    m1 = one(r"let len = \(data\[1\] as usize\) \+ (\d+);", fo, "RtypeBitmap::from_octets block length")
    m2 = one(r"if len == (\d+) \{\s*return Err\(RtypeBitmapErrorEnum::BadRtypeBitmap", fo, "RtypeBitmap empty block")
    m3 = one(r"if len > (\d+) \{\s*return Err\(RtypeBitmapErrorEnum::BadRtypeBitmap", fo, "RtypeBitmap long block")
    one(r"if data\.len\(\) < 2 \{\s*return Err\(RtypeBitmapErrorEnum::ShortInput", fo, "RtypeBitmap short header")
    one(r"if data\.len\(\) < len \{\s*return Err\(RtypeBitmapErrorEnum::ShortInput", fo, "RtypeBitmap short block")
    sp = strip_comments(read("src/rdata/svcb/params.rs"))
    one(r"if key <= last_key \{\s*Err\(ParseError::form_error\(", fn_body(sp, "check_slice"), "SvcParams key order")
    ck = strip_comments(read("src/base/opt/cookie.rs"))
    c1 = one(r"pub struct ClientCookie\(\[u8; (\d+)\]\);", ck, "ClientCookie size")
    c2 = one(r"pub struct ServerCookie\(Array<(\d+)>\);", ck, "ServerCookie capacity")
    c3 = one(r"if parser\.remaining\(\) < (\d+) \{\s*return Err\(ParseError::form_error\(\"short server cookie\"\)\)", ck, "ServerCookie minimum")
    sn = strip_comments(read("src/base/opt/subnet.rs"))
    snp = fn_body(sn, "parse", after="impl ClientSubnet")
    s1 = one(r"(\d+) => \{\s*let mut buf = \[0; 4\];", snp, "subnet IPv4 family")
    s2 = one(r"(\d+) => \{\s*let mut buf = \[0; 16\];", snp, "subnet IPv6 family")
    one(r"usize::from\(bits\)\.div_ceil\(8\)", fn_body(sn, "prefix_bytes"), "subnet prefix_bytes")
    if len(re.findall(r"if modified \{\s*return Err", snp)) != 1 or len(re.findall(r"if parser\.remaining\(\) != 0 \{\s*return Err", snp)) != 2:
        raise GenError("ClientSubnet::parse: mask / trailing address checks changed")
    kt = strip_comments(read("src/base/opt/keytag.rs"))
    one(r"else if len % 2 == 1 \{\s*Err\(", fn_body(kt, "check_len"), "KeyTag even length")
    al = strip_comments(read("src/base/opt/algsig.rs"))
    one(r"if !slice\.len\(\)\.is_multiple_of\(usize::from\(u16::COMPOSE_LEN\)\) \{\s*return Err", fn_body(al, "check_slice"), "Understood even length")
    one(r"if parser\.remaining\(\) == 0 \{\s*Ok\(Expire::new\(None\)\)\s*\} else \{\s*u32::parse\(parser\)", fn_body(strip_comments(read("src/base/opt/expire.rs")), "parse"), "Expire::parse")
    ka = strip_comments(read("src/base/opt/keepalive.rs"))
    one(r"if parser\.remaining\(\) == 0 \{\s*Ok\(Self::new\(None\)\)\s*\} else \{\s*IdleTimeout::parse\(parser\)", fn_body(ka, "parse", after="impl TcpKeepalive"), "TcpKeepalive::parse")
    one(r"u16::parse\(parser\)\.map\(Self\)", fn_body(ka, "parse", after="impl IdleTimeout"), "IdleTimeout::parse")
    ik = strip_comments(read("src/rdata/ipseckey.rs"))
    one(r"if len_key == 0 && algorithm != IpseckeyAlgorithm::NONE \{\s*return Err\(ParseError::ShortInput\);", ik, "Ipseckey empty key")
    gwp = " ".join(fn_body(ik, "parse", after="IpseckeyGateway<ParsedName<Octs>> {").split())
    if "let name = ParsedName::parse(parser)?; if name.is_compressed() { return Err(ParseError::Form" in gwp:
        ipseckey_consumed = False
    elif ("let start = parser.pos(); let name = ParsedName::parse(parser)?; if name.is_compressed() || parser.pos() - start != usize::from(name.compose_len()) { return Err(ParseError::Form" in gwp):
        ipseckey_consumed = True
    else:
        raise GenError("IpseckeyGateway::parse: unrecognised compressed-name check")
    gws = [one(r"IpseckeyGatewayType::%s => Some\((\d+)\)" % k, ik, "Ipseckey gateway %s" % k).group(1) for k in ("NONE", "IPV4", "IPV6")]
    # IPSECKEY rows, one per gateway type
    ikp = " ".join(find_fn(impls(ik), "Ipseckey", "parse", None).split())
    one(r"let precedence = parser\.parse_u8\(\)\?; let gateway_type = IpseckeyGatewayType::parse\(parser\)\?; "
        r"let algorithm = IpseckeyAlgorithm::parse\(parser\)\?; let gateway = IpseckeyGateway::parse\(parser, gateway_type\)\?; "
        r"let len_key = parser\.remaining\(\);", ikp, "Ipseckey::parse field order")
    one(r"let key = parser\.parse_octets\(len_key\)\?; Ok\(Self \{ precedence, gateway_type, algorithm, gateway, key, \}\)", ikp, "Ipseckey::parse key")
    ikc = [re.sub(r"\?$", "", x) for x in stmts(find_fn(impls(ik), "Ipseckey", "compose_rdata", "ComposeRecordData"))]
    if ikc != ["target.append_slice(&[self.precedence])", "target.append_slice(&[self.gateway_type.into()])",
               "target.append_slice(&[self.algorithm.into()])", "self.gateway.compose_rdata(target)",
               "target.append_slice(self.key.as_ref())"]:
        raise GenError("Ipseckey::compose_rdata: unrecognised statements %r" % ikc)
    one(r"self\.compose_rdata\(target\)", find_fn(impls(ik), "Ipseckey", "compose_canonical_rdata", "ComposeRecordData"), "Ipseckey canonical = wire")
    gwc = " ".join(find_fn(impls(ik), "IpseckeyGateway", "compose_rdata", None).split())
    one(r"IpseckeyGateway::None => \(\), IpseckeyGateway::Ipv4\(a\) => a\.compose_rdata\(target\)\?, "
        r"IpseckeyGateway::Ipv6\(aaaa\) => aaaa\.compose_rdata\(target\)\?, IpseckeyGateway::Name\(n\) => n\.compose\(target\)\?,", gwc, "IpseckeyGateway::compose_rdata")
    one(r"IpseckeyGatewayType::IPV4 => \{ IpseckeyGateway::Ipv4\(A::parse\(parser\)\?\) \}", gwp, "gateway IPv4 parse")
    one(r"IpseckeyGatewayType::IPV6 => \{ IpseckeyGateway::Ipv6\(Aaaa::parse\(parser\)\?\) \}", gwp, "gateway IPv6 parse")
    one(r"IpseckeyGatewayType::NAME => None,", gwp, "gateway NAME has no fixed length")
    one(r"_ => \{ return Err\(ParseError::Form\(FormError::new\( \"Unknown IPSECKEY gateway type\", \)\)\); \}", gwp, "unknown gateway type")
    ian = strip_comments(read("src/base/iana/ipseckey.rs"))
    gt = ian[ian.index("IpseckeyGatewayType"):] if "IpseckeyGatewayType" in ian else ""
    gcodes = dict((m.group(1), int(m.group(2))) for m in re.finditer(r"\(\s*(\w+)\s*=>\s*(\d+)\s*,", ian[ian.index("IpseckeyGatewayType, u8"):]))
    size_kind = {0: [], 4: ["V4"], 16: ["V6"]}
    ips_rows = []
    for name, sz in zip(("NONE", "IPV4", "IPV6"), gws):
        ips_rows.append((gcodes[name], size_kind[num(sz)]))
    ips_rows.append((gcodes["NAME"], ["NameU false"]))
    ips_rows.sort()
    check_consts = [num(m1.group(1)), num(m2.group(1)), num(m3.group(1)), num(c1.group(1)), num(c2.group(1)), num(c3.group(1)),
                    num(s1.group(1)), num(s2.group(1))] + [num(g) for g in gws]
    # the helpers behind `name.compose_canonical(target)`: every label goes through
    # Label::compose_canonical, which lower-cases every octet.  A helper that keeps a label's
    # case (skips the first label, stops early, copies an octet unchanged) does not match.
    canon_impls = 0
    namedir = os.path.join(REPO, "src/base/name")
    for fn in sorted(os.listdir(namedir)):
        if not fn.endswith(".rs"):
            continue
        src_n = strip_comments(read(os.path.join("src/base/name", fn)))
        for mm in re.finditer(r"\bfn\s+compose_canonical\s*<", src_n):
            j = src_n.index("{", src_n.index("->", mm.end()))
            body = " ".join(block_from(src_n, j).split())
            if fn == "label.rs":
                if body != ("target.append_slice(&[self.len() as u8])?; for ch in self.into_iter() { "
                            "target.append_slice(&[ch.to_ascii_lowercase()])?; } Ok(())"):
                    raise GenError("Label::compose_canonical: unrecognised body %r" % body)
            else:
                if body != "for label in self.iter_labels() { label.compose_canonical(target)?; } Ok(())":
                    raise GenError("%s: compose_canonical of a name type: unrecognised body %r" % (fn, body))
            canon_impls += 1
    if canon_impls < 3:
        raise GenError("compose_canonical helpers: only %d found" % canon_impls)
    rows.sort()
    parse_rows.sort()

    def sch(fields, long_, ctor):
        return "mkS [%s] %s %s PNone" % ("; ".join(fields), "None" if long_ is None else "(Some %d%%N)" % long_,
                                         "true" if ctor else "false")
    L = []
    L.append(("schema_src", "list (N * schema)",
              "[ " + "\n  ; ".join("(%d%%N, %s) (* %s *)" % (c, sch(f, l, k), t) for c, t, f, l, k in rows) + " ]"))
    L.append(("unknown_src", "schema", sch(*unknown)))
    L.append(("rdlen_none_src", "list N", nl(sorted(none_types))))
    L.append(("rdlen_shape_src", "list (N * (N * N))",
              "[" + "; ".join("(%d%%N, (%d%%N, %d%%N))" % (c, sh[0], sh[1]) for c, sh in sorted(shapes)) + "]"))
    L.append(("rdlen_shape_unknown_src", "N * N", "(%d%%N, %d%%N)" % ushape))
    L.append(("lower_types_src", "list N", nl(sorted(lower_types))))
    L.append(("name_types_src", "list N", nl(sorted(name_types))))
    L.append(("all_types_src", "list N", nl(sorted(all_types))))
    b = lambda x: "true" if x else "false"
    L.append(("all_eq_has_opt_arm", "bool", b(all_opt)))
    L.append(("all_eq_has_unknown_arm", "bool", b(all_unk)))
    L.append(("zone_eq_has_unknown_arm", "bool", b(zone_unk)))
    L.append(("opt_push_counts_header", "bool", b(push_hdr)))
    # bitmap: header octets, empty block, longest block; cookie: client, server capacity, server minimum;
    # subnet: IPv4 / IPv6 family; IPSECKEY gateway sizes none / IPv4 / IPv6
    L.append(("check_consts_src", "list N", nl(check_consts)))
    L.append(("ipseckey_checks_consumed", "bool", b(ipseckey_consumed)))
    L.append(("canonical_helpers_lower_all_labels", "bool", "true"))
    L.append(("txt_limit_src", "N", "65535%N"))
    L.append(("txt_charstr_check_counts_length_octet", "bool", b(txt_cs_full)))
    L.append(("ipseckey_src", "list (N * schema)",
              "[" + "; ".join("(%d%%N, mkS [%s] None false (PIpseckey %d%%N))" % (g, "; ".join(["U8", "U8", "U8"] + gw + ["Rest"]), g)
                              for g, gw in ips_rows) + "]"))
    return L


def nl(xs):
    return "[" + "; ".join("%d%%N" % x for x in xs) + "]"


def emit_c05(defs):
    verif = os.environ.get("VERIF_DIR", os.path.dirname(os.path.dirname(os.path.dirname(os.path.abspath(__file__)))))
    lines = ["(* GENERATED by tools/gen/C05.py from /repo/src/rdata/*.rs, src/rdata/macros.rs, src/base/rdata.rs, src/base/iana/rtype.rs -- do not edit *)",
             "From Coq Require Import NArith List.", "From DV Require Import C05.Schema.", "Import ListNotations."]
    for name, ty, val in defs:
        lines.append("Definition %s : %s := %s." % (name, ty, val))
    write_if_changed(os.path.join(verif, "coq", "C05", "Gen.v"), "\n".join(lines) + "\n")


if __name__ == "__main__":
    try:
        defs = build()
    except GenError as e:
        verif = os.environ.get("VERIF_DIR", os.path.dirname(os.path.dirname(os.path.dirname(os.path.abspath(__file__)))))
        write_if_changed(os.path.join(verif, "coq", "C05", "Gen.v"),
                         "(* T1 extraction failed: %s *)\n" % str(e).replace("*)", "* )"))
        print("T1-FAIL C05: %s" % e)
        sys.exit(2)
    emit_c05(defs)
    print("T1-OK C05: %d items (%d schema rows)" % (len(defs), defs[0][2].count("mkS")))
