#!/usr/bin/env python3
"""T1 extractor for C01: literals and operators at the anchored sites of the
read side: base/name/parsed.rs (LabelType::parse, ParsedName::parse_ref / skip,
ParsedNameIter::get_label), base/name/label.rs (Label::split_from,
SliceLabelsIter::next, iter_slice), base/message.rs (canonical_name loop bound,
sole_question arms, section count selection), base/header.rs (count offsets,
header sizes), base/record.rs (fixed part of a record header)."""
import re, sys, os
sys.path.insert(0, os.path.dirname(os.path.abspath(__file__)))
from rs import *

NUM = r"(0x[0-9A-Fa-f_]+|\d[\d_]*)"

def N(v):
    return "%d%%N" % v

def B(v):
    return "true" if v else "false"

def label_ranges(body, what, defs, pfx, with_ext):
    """`0..=0x3F`, (`0x40..=0x7F`,) `0xC0..=0xFF` match arms and the
    `res | ((ltype & 0x3F) << 8)` pointer expression."""
    m = one(r"\b0\s*\.\.=\s*" + NUM + r"\s*=>", body, what + " normal arm")
    defs.append((pfx + "normal_max", "N", N(num(m.group(1)))))
    if with_ext:
        m = one(NUM + r"\s*\.\.=\s*" + NUM + r"\s*=>\s*\{\s*return\s+Err\(\s*SplitLabelError::BadType\(\s*LabelTypeError::Extended",
                body, what + " extended arm")
        defs.append((pfx + "ext_min", "N", N(num(m.group(1)))))
        defs.append((pfx + "ext_max", "N", N(num(m.group(2)))))
    ms = [m for m in re.finditer(NUM + r"\s*\.\.=\s*" + NUM + r"\s*=>", body)]
    ptr = [m for m in ms if num(m.group(2)) == 0xFF or num(m.group(1)) >= 0x80]
    if len(ptr) != 1:
        raise GenError("%s: expected one pointer arm, found %d" % (what, len(ptr)))
    defs.append((pfx + "ptr_min", "N", N(num(ptr[0].group(1)))))
    defs.append((pfx + "ptr_max", "N", N(num(ptr[0].group(2)))))
    m = one(r"\|\s*\(\s*\(\s*\(?\s*(?:usize::from\(\s*\w+\s*\)|\(?\s*\w+\s+as\s+\w+\s*\)?)\s*\)?\s*&\s*" + NUM + r"\s*\)\s*<<\s*(\d+)\s*\)",
            body, what + " pointer expression")
    defs.append((pfx + "ptr_mask", "N", N(num(m.group(1)))))
    defs.append((pfx + "ptr_shift", "N", N(num(m.group(2)))))

def build():
    defs = []
    ps = strip_comments(read("src/base/name/parsed.rs"))

    # --- LabelType::parse
    lt = fn_body(ps, "parse", after="impl LabelType")
    label_ranges(lt, "LabelType::parse", defs, "lt_", False)
    if len(re.findall(r"parser\.parse_u8\(\)\?", lt)) != 2:
        raise GenError("LabelType::parse: expected two parse_u8()? calls")
    one(r"_\s*=>\s*Err\(\s*ParseError::Form\(\s*FormError::new\(\s*\"invalid label type\"", lt, "LabelType::parse bad label arm")

    # --- LabelType::peek, split_first / parent, as_flat_slice, next_back
    pk = fn_body(ps, "peek", after="impl LabelType")
    label_ranges(pk, "LabelType::peek", defs, "pk_", False)
    one(r"parser\.peek\(\s*1\s*\)\?\[0\]", pk, "peek first octet")
    one(r"parser\.peek\(\s*2\s*\)\?\[1\]", pk, "peek second octet")
    roots = []
    plus = []
    for fn in ("split_first", "parent"):
        b = fn_body(ps, fn, after="impl<Octs: AsRef<[u8]>> ParsedName<Octs>")
        m = one(r"if\s+self\.name_len\s*==\s*(\d+)\s*\{\s*return\s+(?:None|false)\s*;", b, fn + " root test")
        roots.append(int(m.group(1)))
        m = one(r"LabelType::Normal\(\s*label_len\s*\)\s*=>\s*break\s+label_len\s*\+\s*(\d+)\s*,", b, fn + " label length")
        plus.append(int(m.group(1)))
        one(r"LabelType::Normal\(\s*0\s*\)\s*=>\s*\{\s*unreachable!\(\)", b, fn + " unreachable arm")
        one(r"LabelType::peek\(\s*&parser\s*\)\.unwrap\(\)", b, fn + " peek unwrap")
        one(r"parser\.seek\(\s*pos\s*\)\.unwrap\(\)", b, fn + " seek unwrap")
    if len(set(roots)) != 1 or len(set(plus)) != 1:
        raise GenError("split_first and parent disagree on constants")
    defs.append(("name_root_len", "N", N(roots[0])))
    defs.append(("first_label_plus", "N", N(plus[0])))
    fs = fn_body(ps, "as_flat_slice", after="impl<Octs: AsRef<[u8]>> ToName for ParsedName<Octs>")
    one(r"if\s+self\.compressed\s*\{\s*None\s*\}\s*else\s*\{\s*Some\(\s*&self\.octets\.as_ref\(\)\s*\[\s*self\.pos\s*\.\.\s*self\.pos\s*\+\s*usize::from\(\s*self\.name_len\s*\)\s*\]",
        fs, "as_flat_slice range")
    nb = fn_body(ps, "next_back", after="impl<'a> DoubleEndedIterator for ParsedNameIter<'a>")
    one(r"if\s+tmp\.len\s*==\s*0\s*\{\s*break\s+label\s*;", nb, "next_back stop test")
    one(r"self\.len\s*-=\s*label\.compose_len\(\)\s*;", nb, "next_back len decrement")

    # --- ParsedName::parse_ref
    pr = fn_body(ps, "parse_ref", after="impl<'a, Octs: AsRef<[u8]> + ?Sized> ParsedName<&'a Octs>")
    ms = re.findall(r"if\s+name_len\s*(>=|>|==|<=|<)\s*" + NUM + r"\s*\{\s*return\s+Err\(\s*ParsedDnameError::LongName", pr)
    if len(ms) != 2:
        raise GenError("parse_ref: expected two long-name checks, found %d" % len(ms))
    if ms[0] != ms[1]:
        raise GenError("parse_ref: the two long-name checks differ: %r" % (ms,))
    defs.append(("parse_long_ge", "bool", B(ms[0][0] == ">=")))
    defs.append(("parse_long_gt", "bool", B(ms[0][0] == ">")))
    defs.append(("parse_long_limit", "N", N(num(ms[0][1]))))
    if len(re.findall(r"name_len\s*\+=\s*label_len\s*\+\s*1\s*;", pr)) != 2:
        raise GenError("parse_ref: expected two `name_len += label_len + 1`")
    if len(re.findall(r"name_len\s*\+=\s*1\s*;", pr)) != 2:
        raise GenError("parse_ref: expected two `name_len += 1` (root)")
    if len(re.findall(r"parser\.advance\(\s*usize::from\(\s*label_len\s*\)\s*\)\?", pr)) != 2:
        raise GenError("parse_ref: expected two advance(label_len)?")
    m = one(r"if\s+ptr\s*(>=|>|==|<=|<)\s*parser\.pos\(\)\s*-\s*" + NUM + r"\s*\{\s*return\s+Err\(\s*ParsedDnameError::ExcessiveCompression",
            pr, "parse_ref pointer check")
    defs.append(("ptr_check_ge", "bool", B(m.group(1) == ">=")))
    defs.append(("ptr_back", "N", N(num(m.group(2)))))
    one(r"if\s+name_len\s*==\s*0\s*\{\s*pos\s*=\s*ptr\s*;\s*compressed\s*=\s*false\s*;\s*\}", pr, "parse_ref first-label restart")
    one(r"parser\.seek\(\s*ptr\s*\)\?", pr, "parse_ref seek")
    one(r"LabelType::Compressed\(\s*new_ptr\s*\)\s*=>\s*\{\s*ptr\s*=\s*new_ptr\s*;\s*compressed\s*=\s*true\s*;\s*break\s*;", pr, "parse_ref phase two pointer arm")

    # --- ParsedName::skip
    sk = fn_body(ps, "skip", after="impl ParsedName<()>")
    ms = re.findall(r"if\s+len\s*(>=|>|==|<=|<)\s*" + NUM + r"\s*\{\s*return\s+Err\(\s*ParsedDnameError::LongName", sk)
    if len(ms) != 2 or ms[0] != ms[1]:
        raise GenError("skip: expected two identical long-name checks, found %r" % (ms,))
    defs.append(("skip_long_gt", "bool", B(ms[0][0] == ">")))
    defs.append(("skip_long_ge", "bool", B(ms[0][0] == ">=")))
    defs.append(("skip_long_limit", "N", N(num(ms[0][1]))))
    one(r"Ok\(\s*LabelType::Compressed\(\s*_\s*\)\s*\)\s*=>\s*return\s+Ok\(\(\)\)", sk, "skip pointer arm")

    # --- ParsedNameIter::get_label
    gl = fn_body(ps, "get_label", after="impl<'a> ParsedNameIter<'a>")
    label_ranges(gl, "get_label", defs, "gl_", False)
    one(r"_\s*=>\s*panic!\(\s*\"bad label\"\s*\)", gl, "get_label bad label panic")
    one(r"self\.len\s*-=\s*res\.compose_len\(\)\s*;", gl, "get_label len decrement")
    nx = fn_body(ps, "next", after="impl<'a> Iterator for ParsedNameIter<'a>")
    one(r"if\s+self\.len\s*==\s*0\s*\{\s*return\s+None\s*;\s*\}", nx, "ParsedNameIter::next stop test")

    # --- label.rs
    ls = strip_comments(read("src/base/name/label.rs"))
    sf = fn_body(ls, "split_from", after="impl Label")
    label_ranges(sf, "Label::split_from", defs, "sf_", True)
    m = one(r"if\s+slice\.len\(\)\s*(<|<=)\s*" + NUM + r"\s*\{\s*return\s+Err\(\s*SplitLabelError::ShortInput\s*\)\s*;\s*\}\s*let\s+res\s*=\s*slice\[1\]",
            sf, "split_from pointer length check")
    defs.append(("sf_ptr_need", "N", N(num(m.group(2)) if m.group(1) == "<" else num(m.group(2)) + 1)))
    one(r"if\s+slice\.len\(\)\s*<\s*end\s*\{\s*return\s+Err\(\s*SplitLabelError::ShortInput", sf, "split_from label length check")
    it = fn_body(ls, "iter_slice", after="impl Label")
    one(r"SliceLabelsIter\s*\{\s*slice\s*,\s*start\s*,\s*segment\s*:\s*start\s*,?\s*\}", it, "iter_slice initial segment")
    sn = fn_body(ls, "next", after="impl<'a> Iterator for SliceLabelsIter<'a>")
    m = one(r"if\s+pos\s*(>=|>|==|<=|<)\s*self\.(segment|start)\s*\{", sn, "SliceLabelsIter pointer check")
    defs.append(("sl_reject_ge", "bool", B(m.group(1) == ">=")))
    defs.append(("sl_reject_gt", "bool", B(m.group(1) == ">")))
    defs.append(("sl_check_segment", "bool", B(m.group(2) == "segment")))
    m = one(r"self\.start\s*=\s*pos\s*;\s*(self\.segment\s*=\s*pos\s*;)?\s*continue", sn, "SliceLabelsIter pointer follow")
    defs.append(("sl_updates_segment", "bool", B(m.group(1) is not None)))
    one(r"if\s+self\.start\s*>=\s*self\.slice\.len\(\)\s*\{\s*return\s+None", sn, "SliceLabelsIter entry test")

    # --- message.rs
    ms_ = strip_comments(read("src/base/message.rs"))
    # --- every constructor over raw octets goes through check_slice (HeaderSection size)
    cs = fn_body(ms_, "check_slice", after="impl Message<[u8]>")
    one(r"if\s+slice\.len\(\)\s*<\s*mem::size_of::<HeaderSection>\(\)\s*\{\s*Err\(\s*ShortMessage", cs, "Message::check_slice")
    fo_ = fn_body(ms_, "from_octets", after="impl<Octs> Message<Octs>")
    one(r"^\s*Message::check_slice\(\s*octets\.as_ref\(\)\s*\)\?\s*;\s*Ok\(\s*unsafe\s*\{\s*Self::from_octets_unchecked\(\s*octets\s*\)\s*\}\s*\)\s*$", fo_, "Message::from_octets")
    tf = fn_body(ms_, "try_from_octets", after="impl<Octs> Message<Octs>")
    # either through check_slice or by comparing with the size of the whole header section
    if not re.search(r"Message::check_slice\(\s*octets\.as_ref\(\)\s*\)|\.len\(\)\s*<\s*mem::size_of::<HeaderSection>\(\)", tf):
        raise GenError("Message::try_from_octets: no length check against the header section")
    if re.search(r"size_of::<Header>\(\)|size_of::<HeaderCounts>\(\)", tf):
        raise GenError("Message::try_from_octets: length compared with a part of the header section")
    fs_ = fn_body(ms_, "from_slice", after="impl Message<[u8]>")
    one(r"^\s*Message::check_slice\(\s*slice\s*\)\?\s*;\s*Ok\(\s*unsafe\s*\{\s*Self::from_slice_unchecked\(\s*slice\s*\)\s*\}\s*\)\s*$", fs_, "Message::from_slice")
    k = len(re.findall(r"pub\s+(?:unsafe\s+)?fn\s+\w+\s*\([^)]*\)\s*->\s*Result<\s*&?Self\s*,", ms_[:ms_.find("impl<Octs: ?Sized> Message<Octs>")]))
    if k != 3:
        raise GenError("message.rs: expected three checking constructors before the accessors, found %d" % k)
    defs.append(("checking_constructors", "N", N(k)))
    cn = fn_body(ms_, "canonical_name")
    m = re.search(r"for\s+_\s+in\s+0\s*\.\.\s*(.*?)\{", cn, re.S)
    if not m:
        raise GenError("canonical_name: loop header not found")
    bound = " ".join(m.group(1).split())
    mm = re.fullmatch(r"(u32|u64|usize)::from\(\s*self\.header_counts\(\)\.ancount\(\)\s*\)\s*\+\s*(\d+)", bound)
    if mm:
        defs.append(("canon_wide", "bool", "true"))
        defs.append(("canon_extra", "N", N(int(mm.group(2)))))
    else:
        mm = re.fullmatch(r"self\.header_counts\(\)\.ancount\(\)\s*\+\s*(\d+)", bound)
        if not mm:
            raise GenError("canonical_name: unrecognised loop bound %r" % bound)
        defs.append(("canon_wide", "bool", "false"))
        defs.append(("canon_extra", "N", N(int(mm.group(1)))))
    sq = fn_body(ms_, "sole_question")
    m = one(r"match\s+self\.header_counts\(\)\.qdcount\(\)\s*\{\s*(\d+)\s*=>\s*return\s+Err\(\s*ParseError::form_error\(\s*\"no question\"\s*\)\s*\)\s*,\s*(\d+)\s*=>\s*\{\s*\}\s*,?\s*_\s*=>\s*return\s+Err",
            sq, "sole_question arms")
    defs.append(("sole_none", "N", N(int(m.group(1)))))
    defs.append(("sole_one", "N", N(int(m.group(2)))))
    sc = fn_body(ms_, "count", after="impl Section")
    m = one(r"Section::Answer\s*=>\s*counts\.(\w+)\(\)\s*,\s*Section::Authority\s*=>\s*counts\.(\w+)\(\)\s*,\s*Section::Additional\s*=>\s*counts\.(\w+)\(\)",
            sc, "Section::count")
    hs = strip_comments(read("src/base/header.rs"))
    offs = {}
    for nm in ("qdcount", "ancount", "nscount", "arcount"):
        b = fn_body(hs, nm, after="impl HeaderCounts")
        offs[nm] = int(one(r"^\s*self\.get_u16\(\s*(\d+)\s*\)\s*$", b, "HeaderCounts::" + nm).group(1))
    hsz = int(one(r"pub struct Header\s*\{[^}]*?inner:\s*\[u8;\s*(\d+)\]", hs, "Header size").group(1))
    csz = int(one(r"pub struct HeaderCounts\s*\{[^}]*?inner:\s*\[u8;\s*(\d+)\]", hs, "HeaderCounts size").group(1))
    ssz = int(one(r"pub struct HeaderSection\s*\{[^}]*?inner:\s*\[u8;\s*(\d+)\]", hs, "HeaderSection size").group(1))
    if hsz + csz != ssz:
        raise GenError("header sizes inconsistent")
    defs.append(("header_len", "N", N(ssz)))
    defs.append(("qd_off", "N", N(hsz + offs["qdcount"])))
    defs.append(("an_off", "N", N(hsz + offs[m.group(1)])))
    defs.append(("ns_off", "N", N(hsz + offs[m.group(2)])))
    defs.append(("ar_off", "N", N(hsz + offs[m.group(3)])))
    # fuse: `Ok(count) if count > 0` in the three next functions
    k = len(re.findall(r"Ok\(\s*count\s*\)\s*if\s+count\s*>\s*0\s*=>", ms_))
    if k != 3:
        raise GenError("message.rs: expected three `Ok(count) if count > 0` guards, found %d" % k)
    k = len(re.findall(r"self\.count\s*=\s*Err\(\s*err\s*\)\s*;\s*Some\(\s*Err\(\s*err\s*\)\s*\)", ms_))
    if k != 3:
        raise GenError("message.rs: expected three error fuses, found %d" % k)
    k = len(re.findall(r"self\.count\s*=\s*Ok\(\s*count\s*-\s*1\s*\)\s*;", ms_))
    if k != 3:
        raise GenError("message.rs: expected three count decrements, found %d" % k)

    # --- XFR first-message dispatch
    xs = strip_comments(read("src/net/xfr/protocol/interpreter.rs"))
    cr = fn_body(xs, "check_response")
    one(r"if\s+resp\.is_error\(\)\s*\|\|\s*!resp_header\.qr\(\)\s*\|\|\s*resp_header\.opcode\(\)\s*!=\s*Opcode::QUERY\s*\|\|\s*resp_header\.tc\(\)\s*\|\|\s*resp_counts\.ancount\(\)\s*==\s*0\s*\|\|\s*resp_counts\.nscount\(\)\s*!=\s*0\s*\{\s*return\s+Err\(\s*Error::NotValidXfrResponse",
        cr, "check_response header conditions")
    one(r"\(\s*first_message\s*&&\s*qdcount\s*!=\s*1\s*\)\s*\|\|\s*\(\s*!first_message\s*&&\s*qdcount\s*>\s*1\s*\)", cr, "check_response qdcount")
    inn = fn_body(xs, "new", after="impl Inner")
    one(r"Some\(\s*Rtype::AXFR\s*\)\s*=>\s*XfrType::Axfr\s*,\s*Some\(\s*Rtype::IXFR\s*\)\s*=>\s*XfrType::Ixfr\s*,\s*_\s*=>\s*return\s+Err\(\s*Error::NotValidXfrResponse", inn, "Inner::new qtype dispatch")
    one(r"let\s+Some\(\s*Ok\(\s*record\s*\)\s*\)\s*=\s*records\.next\(\)\s*else\s*\{\s*return\s+Err\(\s*Error::Malformed", inn, "Inner::new first record")
    one(r"let\s+ZoneRecordData::Soa\(\s*soa\s*\)\s*=\s*record\.into_data\(\)\s*else\s*\{\s*return\s+Err\(\s*Error::NotValidXfrResponse", inn, "Inner::new SOA test")
    defs.append(("xfr_dispatch_shape", "bool", "true"))

    # --- dig printer control flow, get_last_additional, RecordIter
    dg = strip_comments(read("src/base/dig_printer.rs"))
    fm = fn_body(dg, "fmt", after="impl<Octs: AsRef<[u8]>> fmt::Display for DigPrinter")
    one(r"let\s+section\s*=\s*questions\.answer\(\)\.unwrap\(\)\s*;", fm, "dig answer().unwrap()")
    if len(re.findall(r"let\s+section\s*=\s*section\.next_section\(\)\.unwrap\(\)\.unwrap\(\)\s*;", fm)) != 2:
        raise GenError("dig printer: expected two next_section().unwrap().unwrap()")
    if len(re.findall(r"writeln!\(\s*f\s*,\s*\"; <invalid message>\"\s*\)\?\s*;\s*return\s+Ok\(\(\)\)\s*;", fm)) != 4:
        raise GenError("dig printer: expected four early returns on an invalid item")
    m = one(r"if\s+counts\.arcount\(\)\s*>\s*(\d+)\s*\|\|\s*\(\s*opt\.is_none\(\)\s*&&\s*counts\.arcount\(\)\s*>\s*(\d+)\s*\)", fm, "dig additional condition")
    defs.append(("dig_ar_with_opt_gt", "N", N(int(m.group(1)))))
    defs.append(("dig_ar_without_opt_gt", "N", N(int(m.group(2)))))
    ms2 = re.findall(r"if\s+counts\.(qdcount|ancount|nscount)\(\)\s*>\s*(\d+)\s*\{", fm)
    if [x[0] for x in ms2] != ["qdcount", "ancount", "nscount"] or len(set(x[1] for x in ms2)) != 1:
        raise GenError("dig printer: section guards changed: %r" % (ms2,))
    defs.append(("dig_section_gt", "N", N(int(ms2[0][1]))))
    one(r"if\s+item\.rtype\(\)\s*!=\s*Rtype::OPT\s*\{\s*write_record_item", fm, "dig OPT filter")
    gl = fn_body(ms_, "get_last_additional")
    m = one(r"match\s+section\.count\s*\{\s*Err\(_\)\s*=>\s*return\s+None\s*,\s*Ok\((\d+)\)\s*=>\s*return\s+None\s*,\s*Ok\((\d+)\)\s*=>\s*break\s*,", gl, "get_last_additional arms")
    defs.append(("last_none", "N", N(int(m.group(1)))))
    defs.append(("last_one", "N", N(int(m.group(2)))))
    ri = fn_body(ms_, "next", after="impl<'a, Octs, Data> Iterator for RecordIter<'a, Octs, Data>")
    one(r"if\s+self\.in_only\s*&&\s*record\.class\(\)\s*!=\s*Class::IN\s*\{\s*continue\s*;", ri, "RecordIter in_only filter")
    one(r"Ok\(Some\(record\)\)\s*=>\s*return\s+Some\(Ok\(record\)\)\s*,\s*Err\(err\)\s*=>\s*return\s+Some\(Err\(err\)\)\s*,\s*Ok\(None\)\s*=>\s*\{\s*\}", ri, "RecordIter arms")
    cp = fn_body(ms_, "copy_records")
    if len(re.findall(r"let\s+rr\s*=\s*rr\?\s*;", cp)) != 3 or len(re.findall(r"source\.next_section\(\)\?\.unwrap\(\)", cp)) != 2:
        raise GenError("copy_records: loop shape changed")

    # --- display-time iteration of checked structures: every unwrap / expect / index site
    def sites(body):
        return len(re.findall(r"\.unwrap\(\)|\.expect\(|unreachable!|panic!|todo!|unimplemented!", body))
    def expect_sites(what, body, n):
        k = sites(body)
        if k != n:
            raise GenError("%s: %d unwrap/expect/panic sites, the model has %d" % (what, k, n))
        return k
    dn = strip_comments(read("src/rdata/dnssec.rs"))
    bc = fn_body(dn, "contains", after="impl<Octs: AsRef<[u8]>> RtypeBitmap<Octs>")
    defs.append(("sites_bitmap_contains", "N", N(expect_sites("RtypeBitmap::contains", bc, 1))))
    one(r"read_window\(\s*data\s*\)\.unwrap\(\)", bc, "contains read_window unwrap")
    bi = impl_body(dn, r"impl<'a> RtypeBitmapIter<'a>\s*\{")
    expect_sites("RtypeBitmapIter::{new,advance}", bi, 0)
    nidx = len(re.findall(r"(?:self\.)?data\[[^\]]+\]", bi))
    defs.append(("index_sites_bitmap_iter", "N", N(nidx)))
    if nidx != 9:
        raise GenError("RtypeBitmapIter::{new,advance}: %d slice/index sites, the model has 9" % nidx)
    m = one(r"self\.bit\s*==\s*(\d+)", bi, "bitmap iter bit wrap")
    defs.append(("bitmap_bits", "N", N(int(m.group(1)))))
    bn = fn_body(dn, "next", after="impl Iterator for RtypeBitmapIter<'_>")
    expect_sites("RtypeBitmapIter::next", bn, 0)
    fo = fn_body(dn, "from_octets", after="impl<Octs> RtypeBitmap<Octs>")
    m = one(r"if\s+len\s*==\s*(\d+)\s*\{\s*return\s+Err.*?if\s+len\s*>\s*(\d+)\s*\{\s*return\s+Err", fo, "bitmap window length checks")
    defs.append(("bitmap_len_empty", "N", N(int(m.group(1)))))
    defs.append(("bitmap_len_max", "N", N(int(m.group(2)))))
    tx = strip_comments(read("src/rdata/rfc1035/txt.rs"))
    tn = fn_body(tx, "next", after="impl<'a> Iterator for TxtCharStrIter<'a>")
    defs.append(("sites_txt_iter", "N", N(expect_sites("TxtCharStrIter::next", tn, 1))))
    sp = strip_comments(read("src/rdata/svcb/params.rs"))
    d1 = fn_body(sp, "fmt", after="impl<Octs: AsRef<[u8]> + ?Sized> fmt::Display for SvcParams<Octs>")
    d2 = fn_body(sp, "fmt", after="impl<Octs: AsRef<[u8]> + ?Sized> ZonefileFmt for SvcParams<Octs>")
    defs.append(("sites_svc_display", "N", N(expect_sites("Display for SvcParams", d1, 3))))
    expect_sites("ZonefileFmt for SvcParams", d2, 3)
    ir = fn_body(sp, "iter_raw")
    expect_sites("SvcParams::iter_raw", ir, 1)
    sv = strip_comments(read("src/rdata/svcb/value.rs"))
    pa = fn_body(sv, "parse_any")
    defs.append(("sites_svc_parse_any", "N", N(expect_sites("AllValues::parse_any", pa, 2))))
    tot = 0
    for nm, n in (("MandatoryIter", 1), ("AlpnIter", 2), ("Ipv4HintIter", 1), ("Ipv6HintIter", 1), ("TlsSupportedGroupsIter", 1)):
        mm = re.search(r"Iterator\s+for\s+%s<" % nm, sv)
        if not mm:
            raise GenError("impl Iterator for %s not found" % nm)
        b = fn_body(sv[mm.start():], "next")
        tot += expect_sites(nm + "::next", b, n)
    defs.append(("sites_svc_value_iters", "N", N(tot)))
    for nm in ("Mandatory", "Alpn", "Ipv4Hint", "Ipv6Hint", "TlsSupportedGroups", "DohPath", "Ech"):
        b = fn_body(sv, "fmt", after="fmt::Display for %s<Octs>" % nm)
        expect_sites("Display for " + nm, b, 0)
    keys = strip_comments(read("src/base/iana/svcb.rs"))
    want = {"MANDATORY": 0, "ALPN": 1, "NO_DEFAULT_ALPN": 2, "PORT": 3, "IPV4HINT": 4, "ECH": 5, "IPV6HINT": 6, "DOHPATH": 7, "OHTTP": 8, "TLS_SUPPORTED_GROUPS": 9}
    for kname, kval in want.items():
        mm = re.search(r"\(\s*%s\s*=>\s*(\d+)" % kname, keys)
        if not mm or int(mm.group(1)) != kval:
            raise GenError("SvcParamKey::%s is not %d" % (kname, kval))
    defs.append(("svc_keys_checked", "N", N(len(want))))

    # --- record.rs: fixed part skipped by parse_rdlen
    rs_ = strip_comments(read("src/base/record.rs"))
    rl = fn_body(rs_, "parse_rdlen")
    one(r"ParsedName::skip\(\s*parser\s*\)\?\s*;\s*parser\.advance\(\s*\(\s*Rtype::COMPOSE_LEN\s*\+\s*Class::COMPOSE_LEN\s*\+\s*u32::COMPOSE_LEN\s*\)\s*\.into\(\)\s*,?\s*\)\?\s*;\s*u16::parse\(\s*parser\s*\)",
        rl, "parse_rdlen shape")
    defs.append(("rr_fixed_skip", "N", N(2 + 2 + 4)))
    pi = fn_body(rs_, "parse_into_any_record")
    m = one(r"if\s+parser\.remaining\(\)\s*(>|>=|!=)\s*0\s*\{\s*return\s+Err", pi, "parse_into_any_record trailing data check")
    defs.append(("trailing_check", "bool", "true"))
    return defs

if __name__ == "__main__":
    main("C01", "/repo/src/base/name/parsed.rs, name/label.rs, message.rs, header.rs, record.rs", build)
