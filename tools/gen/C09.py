#!/usr/bin/env python3
"""T1 extractor for C09: operators, constants and step structure of the version
store (zonetree/in_memory/versioned.rs) and of the reader/writer protocol
(nodes.rs, write.rs).  The emitted operators/flags select the branches of coq/C09/Model.v; further
structural patterns are only checked.  A pattern that no longer matches raises
GenError (no Gen.v, the Coq build fails)."""
import re, sys, os
sys.path.insert(0, os.path.dirname(os.path.abspath(__file__)))
from rs import *

def flat(s):
    return re.sub(r"\s+", " ", s).strip()

CMP = {"<=": 0, "<": 1, "==": 2, ">=": 3, ">": 4, "!=": 5}

def build():
    defs = []
    vs = strip_comments(read("src/zonetree/in_memory/versioned.rs"))
    imp = impl_body(vs, r"impl<T>\s+Versioned<T>\s*\{")

    # ---- Versioned::get
    g = flat(fn_body(imp, "get"))
    m = one(r"self\.data\.iter\(\)(\.rev\(\))?\.find_map\(\|item\| \{ if item\.0 (<=|<|==|>=|>|!=) version \{ Some\(item\.1\.as_ref\(\)\) \} else \{ None \} \}\)", g, "Versioned::get scan")
    defs.append(("get_scans_newest_first", "bool", "true" if m.group(1) else "false"))
    defs.append(("get_cmp_op", "N", "%d%%N" % CMP[m.group(2)]))
    one(r"res\.flatten\(\)$", g, "Versioned::get flatten")

    # ---- Versioned::update
    u = flat(fn_body(imp, "update"))
    m = one(r"^if let Some\(last\) = self\.data\.last_mut\(\) \{ if last\.0 (==|!=|<=|<|>=|>) version \{ last\.1 = Some\(value\); return; \} \} self\.data\.push\(\(version, Some\(value\)\)\);?$", u, "Versioned::update")
    defs.append(("update_same_cmp_op", "N", "%d%%N" % CMP[m.group(1)]))

    # ---- Versioned::rollback
    r = flat(fn_body(imp, "rollback"))
    m = one(r"^if self\.data\.last\(\)\.map\(\|item\| item\.0\) (==|!=) Some\(version\) \{ self\.data\.pop\(\); \}$", r, "Versioned::rollback")
    defs.append(("rollback_cmp_op", "N", "%d%%N" % CMP[m.group(1)]))

    # ---- Versioned::remove
    rm = flat(fn_body(imp, "remove"))
    m = one(r"^let len = self\.data\.len\(\); if let Some\(last\) = self\.data\.last_mut\(\) \{ "
            r"if last\.1\.(is_none|is_some)\(\) \{ return; \} "
            r"if last\.0 (==|!=|<=|<|>=|>) version \{ if len (==|!=|<=|<|>=|>) (\d+) \{ let _ = self\.data\.pop\(\); \} else \{ last\.1 = None; \} return; \} \} "
            r"if (!?)self\.data\.is_empty\(\) \{ self\.data\.push\(\(version, None\)\) \}$", rm, "Versioned::remove")
    defs.append(("remove_noop_when_last_is_marker", "bool", "true" if m.group(1) == "is_none" else "false"))
    defs.append(("remove_same_cmp_op", "N", "%d%%N" % CMP[m.group(2)]))
    defs.append(("remove_pop_len_op", "N", "%d%%N" % CMP[m.group(3)]))
    defs.append(("remove_pop_len", "N", "%d%%N" % num(m.group(4))))
    defs.append(("remove_marker_only_when_nonempty", "bool", "true" if m.group(5) == "!" else "false"))

    # ---- Version ordering is the derived one over Serial
    one(r"#\[derive\(\s*Clone,\s*Copy,\s*Debug,\s*Deserialize,\s*Eq,\s*Hash,\s*PartialEq,\s*PartialOrd,\s*Serialize,?\s*\)\]\s*pub struct Version\(Serial\);", vs, "Version derives PartialOrd over Serial")
    defs.append(("version_order_is_serial", "bool", "true"))

    # ---- nodes.rs: reader pins current, writer = current.next() under the mutex
    nd = strip_comments(read("src/zonetree/in_memory/nodes.rs"))
    zs = impl_body(nd, r"impl ZoneStore for ZoneApex\s*\{")
    rd = flat(fn_body(zs, "read"))
    one(r"^let \(version, marker\) = self\.versions\(\)\.read\(\)\.current\(\)\.clone\(\); Box::new\(ReadZone::new\(self, version, marker\)\)$", rd, "ZoneApex::read pins current")
    defs.append(("reader_pins_current", "bool", "true"))
    wr = flat(fn_body(zs, "write"))
    m = one(r"let lock = self\.update_lock\.clone\(\)\.lock_owned\(\)\.await; let version = self\.versions\(\)\.read\(\)\.current\(\)\.0(\.next\(\))?;", wr, "ZoneApex::write version under the mutex")
    defs.append(("writer_version_is_next", "bool", "true" if m.group(1) else "false"))
    defs.append(("writer_takes_mutex", "bool", "true"))

    def parts(body, what, names):
        out = []
        for n in names:
            out.append(len(re.findall(r"self\.%s(?:\.write\(\))?\.%s\(version\)" % (n, what), body)) == 1)
        return out
    za = impl_body(nd, r"impl ZoneApex\s*\{")
    zn = impl_body(nd, r"impl ZoneNode\s*\{")
    a_rb = parts(flat(fn_body(za, "rollback")), "rollback", ["rrsets", "children"])
    a_ra = parts(flat(fn_body(za, "remove_all")), "remove_all", ["rrsets", "children"])
    n_rb = parts(flat(fn_body(zn, "rollback")), "rollback", ["rrsets", "special", "children"])
    nra = flat(fn_body(zn, "remove_all"))
    n_ra = [len(re.findall(r"self\.rrsets\.remove_all\(version\)", nra)) == 1,
            len(re.findall(r"self\.special\.write\(\)\.remove\(version\)", nra)) == 1,
            len(re.findall(r"self\.children\.remove_all\(version\)", nra)) == 1]
    b = lambda x: "true" if x else "false"
    defs += [("apex_rollback_rrsets", "bool", b(a_rb[0])), ("apex_rollback_children", "bool", b(a_rb[1])),
             ("apex_remove_all_rrsets", "bool", b(a_ra[0])), ("apex_remove_all_children", "bool", b(a_ra[1])),
             ("node_rollback_rrsets", "bool", b(n_rb[0])), ("node_rollback_special", "bool", b(n_rb[1])),
             ("node_rollback_children", "bool", b(n_rb[2])),
             ("node_remove_all_rrsets", "bool", b(n_ra[0])), ("node_remove_all_special", "bool", b(n_ra[1])),
             ("node_remove_all_children", "bool", b(n_ra[2]))]
    nr = impl_body(nd, r"impl NodeRrsets\s*\{")
    one(r"^self\.rrsets \.write\(\) \.values_mut\(\) \.for_each\(\|rrset\| rrset\.rollback\(version\)\);?$", flat(fn_body(nr, "rollback")), "NodeRrsets::rollback covers every type")
    one(r"^self\.rrsets \.write\(\) \.values_mut\(\) \.for_each\(\|rrset\| rrset\.remove\(version\)\);?$", flat(fn_body(nr, "remove_all")), "NodeRrsets::remove_all covers every type")
    m = one(r"^if rrset\.is_empty\(\) \{ self\.remove_rtype\(rrset\.rtype\(\), version\); \} else \{ self\.rrsets \.write\(\) \.entry\(rrset\.rtype\(\)\) \.or_default\(\) \.update\(rrset, version\); \}$", flat(fn_body(nr, "update")), "NodeRrsets::update")
    defs.append(("update_empty_rrset_is_remove", "bool", "true"))
    nc = impl_body(nd, r"impl NodeChildren\s*\{")
    one(r"^self\.children \.read\(\) \.values\(\) \.for_each\(\|item\| item\.rollback\(version\)\)$", flat(fn_body(nc, "rollback")), "NodeChildren::rollback visits every child, removes none")

    # ---- write.rs: open sets dirty, publish, Drop rolls back
    ws = strip_comments(read("src/zonetree/in_memory/write.rs"))
    dr = flat(fn_body(ws, "drop", after="impl Drop for WriteZone"))
    one(r"^(?:if self\._lock\.is_some\(\) \{ \*self\.writable_version\.write\(\) = None; \} )?if self\.dirty\.swap\(false, Ordering::SeqCst\) \{ self\.apex\.rollback\(self\.new_version\); \}$", dr, "WriteZone::drop")
    defs.append(("drop_rolls_back_when_dirty", "bool", "true"))
    op = flat(fn_body(ws, "open", after="impl WritableZone for WriteZone"))
    one(r"if let Ok\(write_node\) = &new_apex \{ \*self\.diff\.lock\(\)\.unwrap\(\) = write_node\.diff\(\); self\.dirty\.store\(true, Ordering::SeqCst\); (?:\*self\.writable_version\.write\(\) = Some\(self\.new_version\); )?\}", op, "WriteZone::open sets dirty")
    defs.append(("open_sets_dirty", "bool", "true"))
    pb = flat(fn_body(ws, "publish_new_zone_version"))
    one(r"\.update_current\(self\.new_version\);", pb, "publish: update_current(new_version)")
    one(r"self\.new_version = self\.new_version\.next\(\);", pb, "publish: new_version.next()")
    one(r"self\.dirty\.store\(false, Ordering::SeqCst\);", pb, "publish clears dirty")
    defs.append(("publish_sets_current_to_new", "bool", "true"))
    defs.append(("publish_advances_new_version", "bool", "true"))
    defs.append(("publish_clears_dirty", "bool", "true"))
    cl = flat(fn_body(ws, "clone", after="impl Clone for WriteZone"))
    one(r"dirty: Default::default\(\),", cl, "WriteZone::clone is never dirty")
    cm = flat(fn_body(ws, "commit", after="impl WritableZone for WriteZone"))
    one(r"self\.publish_new_zone_version\(\);", cm, "commit publishes")
    one(r"let old_soa_rr = self\.apex\.get_soa\(self\.last_published_version\(\)\); let mut new_soa_rr = self\.apex\.get_soa\(self\.new_version\); if bump_soa_serial && old_soa_rr\.is_some\(\) && \(new_soa_rr\.is_none\(\) \|\| new_soa_rr == old_soa_rr\) \{ self\.bump_soa_serial\(&old_soa_rr\); new_soa_rr = self\.apex\.get_soa\(self\.new_version\); \}", cm, "commit: SOA bump condition")
    bs = flat(fn_body(ws, "bump_soa_serial"))
    one(r"let new_soa_serial = old_soa\.serial\(\)\.add\(1\);", bs, "bump_soa_serial adds 1")
    one(r"self\.apex \.rrsets\(\) \.update\(new_soa_shared_rrset\.clone\(\), self\.new_version\);$", bs, "bump_soa_serial stores at new_version")
    one(r"^self\.published_versions\.read\(\)\.current\(\)\.0$", flat(fn_body(ws, "last_published_version")), "last_published_version = current")
    defs.append(("commit_bumps_soa", "bool", "true"))
    wn = impl_body(ws, r"impl WriteNode\s*\{")
    uc = flat(fn_body(wn, "update_child"))
    one(r"\.with_or_default\(label, \|node, created\| (?:\{ )?\(node\.clone\(\), created\)(?: \})?\)", uc, "update_child creates the node")
    one(r"if created \{ node\.make_regular\(\)\?; \}", uc, "update_child make_regular on creation")
    defs.append(("update_child_creates_node", "bool", "true"))
    ur = flat(fn_body(wn, "update_rrset"))
    one(r"rrsets\.update\(new_rrset, self\.zone\.new_version\); self\.check_nx_domain\(\)\?; Ok\(\(\)\)$", ur, "update_rrset writes at new_version")
    rr = flat(fn_body(wn, "remove_rrset"))
    one(r"rrsets\.remove_rtype\(rtype, self\.zone\.new_version\); self\.check_nx_domain\(\)\?; Ok\(\(\)\)$", rr, "remove_rrset writes at new_version")
    mr = flat(fn_body(wn, "make_regular"))
    one(r"^(?:let _writable = self\.writable\(\)\?; )?if let Either::Right\(ref node\) = self\.node \{ node\.update_special\(self\.zone\.new_version, None\); self\.check_nx_domain\(\)\?; \} Ok\(\(\)\)$", mr, "make_regular")
    cn = flat(fn_body(wn, "check_nx_domain"))
    one(r"Some\(Special::NxDomain\) => \{ if !node\.rrsets\(\)\.is_empty\(self\.zone\.new_version\) \{ Some\(false\) \} else \{ None \} \} "
        r"None => \{ if node\.rrsets\(\)\.is_empty\(self\.zone\.new_version\) \{ Some\(true\) \} else \{ None \} \} _ => None,", cn, "check_nx_domain decision")
    one(r"if new_nxdomain \{ node\.update_special\( self\.zone\.new_version, Some\(Special::NxDomain\), \); \} else \{ node\.update_special\(self\.zone\.new_version, None\); \}", cn, "check_nx_domain update")
    defs.append(("nx_marker_follows_emptiness", "bool", "true"))
    # ---- ZoneVersions (clean_versions has no caller; modelled for the marker discipline)
    zv = impl_body(ws, r"impl ZoneVersions\s*\{")
    cv = flat(fn_body(zv, "clean_versions"))
    m = one(r"^let mut max_version = None; self\.all\.retain\(\|item\| \{ if item\.1\.strong_count\(\) (>|>=|==|!=|<|<=) (\d+) \{ true \} else \{ match max_version \{ Some\(old\) => \{ if item\.0 (>|>=|<|<=) old \{ max_version = Some\(item\.0\) \} \} None => max_version = Some\(item\.0\), \} false \} \}\); max_version$", cv, "ZoneVersions::clean_versions")
    defs.append(("clean_alive_cmp_op", "N", "%d%%N" % CMP[m.group(1)]))
    defs.append(("clean_alive_bound", "N", "%d%%N" % num(m.group(2))))
    defs.append(("clean_max_cmp_op", "N", "%d%%N" % CMP[m.group(3)]))
    one(r"^let marker = Arc::new\(VersionMarker\); .*?self\.current = \(version, marker\.clone\(\)\); marker$", flat(fn_body(zv, "update_current")), "ZoneVersions::update_current makes a new marker")
    one(r"self\.all\.push\(\(version, Arc::downgrade\(&marker\)\)\)$", flat(fn_body(zv, "push_version")), "ZoneVersions::push_version appends a weak marker")
    one(r"^let marker = Arc::new\(VersionMarker\); let weak_marker = Arc::downgrade\(&marker\); ZoneVersions \{ current: \(Version::default\(\), marker\), all: vec!\[\(Version::default\(\), weak_marker\)\], \}$", flat(fn_body(ws, "default", after="impl Default for ZoneVersions")), "ZoneVersions::default")
    one(r"let marker = self \.published_versions \.write\(\) \.update_current\(self\.new_version\); self\.published_versions \.write\(\) \.push_version\(self\.new_version, marker\);", pb, "publish: update_current then push_version of the same version and marker")

    # ---- does a WriteNode check that its session is still the live one?
    one(r"new_version: self\.new_version,", cl, "WriteZone::clone keeps the version of the handle")
    n_guard = len(re.findall(r"\bfn writable\b", wn))
    n_calls = len(re.findall(r"let _writable = self\.writable\(\)\?;", wn))
    if n_guard == 0 and n_calls == 0:
        defs.append(("stale_handle_rejected", "bool", "false"))
    elif n_guard == 1 and n_calls == 7:
        one(r"if \*guard == Some\(self\.zone\.new_version\) \{ Ok\(guard\) \} else \{ Err\(", flat(fn_body(wn, "writable")), "WriteNode::writable compares with the live version")
        one(r"\*self\.writable_version\.write\(\) = None;", pb, "publish retires the handles")
        one(r"if self\._lock\.is_some\(\) \{ \*self\.writable_version\.write\(\) = None; \}", dr, "drop retires the handles")
        one(r"\*self\.writable_version\.write\(\) = Some\(self\.new_version\);", op, "open enables the handles")
        defs.append(("stale_handle_rejected", "bool", "true"))
    else:
        raise GenError("WriteNode::writable guard: %d definitions, %d call sites (expected 0/0 or 1/7)" % (n_guard, n_calls))

    # ---- node existence is derived from versioned data (nodes.rs ZoneNode::exists, read.rs)
    ex = flat(fn_body(zn, "exists"))
    m = one(r"^(!?)self\.rrsets\.is_empty\(version\) \|\| self\.with_special\(version, \|special\| \{ matches!\( special, Some\(Special::Cut\(_\)\) \| Some\(Special::Cname\(_\)\) \) \}\) \|\| self\.children\.any_exists\(version\)$", ex, "ZoneNode::exists")
    if m.group(1) != "!":
        raise GenError("ZoneNode::exists no longer tests !rrsets.is_empty(version)")
    defs.append(("exists_counts_rrsets", "bool", "true"))
    defs.append(("exists_counts_cname", "bool", "true"))
    defs.append(("exists_counts_children", "bool", "true"))
    one(r"^self\.children \.read\(\) \.values\(\) \.any\(\|item\| item\.exists\(version\)\)$", flat(fn_body(nc, "any_exists")), "NodeChildren::any_exists")
    ie = flat(fn_body(nr, "is_empty"))
    one(r"^let rrsets = self\.rrsets\.read\(\); if rrsets\.is_empty\(\) \{ return true; \} for value in rrsets\.values\(\) \{ if value\.get\(version\)\.is_some\(\) \{ return false; \} \} true$", ie, "NodeRrsets::is_empty")
    rs = strip_comments(read("src/zonetree/in_memory/read.rs"))
    rz = impl_body(rs, r"impl ReadZone\s*\{", nth=1)
    qc = flat(fn_body(rz, "query_children"))
    one(r"let answer = children\.with\(label, \|node\| \{ node\.filter\(\|node\| node\.exists\(self\.version\)\) \.map\(\|node\| self\.query_node\(node, qname, qtype, walk\.clone\(\)\)\) \}\); if let Some\(answer\) = answer \{ return answer; \}", qc, "query_children step 1 follows existing children only")
    one(r"children\.with\(Label::wildcard\(\), \|node\| \{ match node\.filter\(\|node\| node\.exists\(self\.version\)\) \{ Some\(node\) => \{ self\.query_node_here_but_not_below\(node, qtype, walk\) \} None => NodeAnswer::nx_domain\(\), \} \}\)$", qc, "query_children step 2 wildcard must exist")
    defs.append(("query_follows_only_existing_children", "bool", "true"))
    hb = flat(fn_body(rz, "query_node_here_but_not_below"))
    one(r"Some\(Special::Cname\(cname\)\) => NodeAnswer::cname\(cname\.clone\(\)\), Some\(Special::NxDomain\) \| None => \{ self\.query_rrsets\(node\.rrsets\(\), qtype, walk\) \}", hb, "query_node_here_but_not_below arms")
    defs.append(("nx_marker_answers_like_regular", "bool", "true"))
    hab = flat(fn_body(rz, "query_node_here_and_below"))
    one(r"Some\(Special::Cut\(cut\)\) => \{ if walk\.enabled\(\) \{ walk\.op\(&cut\.ns, true\); if let Some\(ds\) = &cut\.ds \{ walk\.op\(ds, true\); \} for glue_rec in &cut\.glue \{ walk\.op_glue_rec\(glue_rec\); \} NodeAnswer::no_data\(\) \} else \{ NodeAnswer::authority\(", hab, "here_and_below: a cut ends the descent (walk: NS, DS, glue; query: referral)")
    one(r"Some\(Special::Cname\(cname\)\) => \{ if walk\.enabled\(\) \{ .*? walk\.op\(&SharedRrset::new\(rrset\), false\); \} self\.query_children\( node\.children\(\), label, qname, qtype, walk, \) \}", hab, "here_and_below: CNAME is emitted by walk and the children are visited")
    one(r"Some\(Special::NxDomain\) \| None => self\.query_children\( node\.children\(\), label, qname, qtype, walk, \),", hab, "here_and_below: marker/regular nodes descend")
    qn = flat(fn_body(rz, "query_node"))
    one(r"^if walk\.enabled\(\) \{ self\.query_rrsets\(node\.rrsets\(\), qtype, walk\.clone\(\)\); self\.query_node_here_and_below\( node, Label::root\(\), qname, qtype, walk, \) \} else if let Some\(label\) = qname\.next\(\) \{ self\.query_node_here_and_below\(node, label, qname, qtype, walk\) \} else \{ self\.query_node_here_but_not_below\(node, qtype, walk\) \}$", qn, "query_node dispatch")
    qac = flat(fn_body(rz, "query_at_cut"))
    one(r"^match qtype \{ Rtype::DS => \{ if let Some\(rrset\) = cut\.ds\.as_ref\(\) \{ NodeAnswer::data\(rrset\.clone\(\)\) \} else \{ NodeAnswer::no_data\(\) \} \} _ => NodeAnswer::authority\(", qac, "query_at_cut")
    one(r"Some\(Special::Cut\(cut\)\) => self\.query_at_cut\(cut, qtype\),", hb, "here_but_not_below: cut")
    one(r"else if qtype == Rtype::ANY \{ let guard = rrsets\.iter\(\); guard \.iter\(\) \.find_map\(\|\(_rtype, rrset\)\| rrset\.get\(self\.version\)\) \.map\(\|rrset\| NodeAnswer::data\(rrset\.clone\(\)\)\) \.unwrap_or_else\(NodeAnswer::no_data\) \}", flat(fn_body(rz, "query_rrsets")), "ANY answers with some RRset of the version")
    mzc = flat(fn_body(wn, "make_zone_cut"))
    one(r"node\.update_special\( self\.zone\.new_version, Some\(Special::Cut\(cut\)\), \);", mzc, "make_zone_cut writes at new_version")
    mcn = flat(fn_body(wn, "make_cname"))
    one(r"node\.update_special\( self\.zone\.new_version, Some\(Special::Cname\(cname\)\), \);", mcn, "make_cname writes at new_version")
    one(r"^self\.children \.read\(\) \.values\(\) \.for_each\(\|item\| item\.remove_all\(version\)\)$", flat(fn_body(nc, "remove_all")), "NodeChildren::remove_all visits every child")
    one(r"^for child in self\.children\.read\(\)\.iter\(\) \{ \(op\)\(walk\.clone\(\), child\) \}$", flat(fn_body(nc, "walk")), "NodeChildren::walk visits every child")
    one(r"^let lock = self\.children\.upgradable_read\(\); if let Some\(node\) = lock\.get\(label\) \{ return op\(node, false\); \} let mut lock = RwLockUpgradableReadGuard::upgrade\(lock\); lock\.insert\(label\.into\(\), Default::default\(\)\); let lock = RwLockWriteGuard::downgrade\(lock\); op\(lock\.get\(label\)\.unwrap\(\), true\)$", flat(fn_body(nc, "with_or_default")), "NodeChildren::with_or_default")
    wk = flat(fn_body(rs, "walk", after="impl ReadableZone for ReadZone"))
    one(r"let walk = WalkState::new\(op, self\.apex\.name\(\)\.clone\(\)\); self\.query_rrsets\(self\.apex\.rrsets\(\), Rtype::ANY, walk\.clone\(\)\); self\.query_below_apex\(Label::root\(\), iter::empty\(\), Rtype::ANY, walk\);$", wk, "ReadZone::walk: apex RRsets, then every child")
    one(r"if walk\.enabled\(\) \{ children\.walk\(walk, \|walk, \(label, node\)\| \{ walk\.push\(\*label\); self\.query_node\( node, core::iter::empty\(\), qtype, walk\.clone\(\), \); walk\.pop\(\); \}\); return NodeAnswer::no_data\(\); \}", qc, "query_children in walk mode visits every child node")
    rd2 = flat(fn_body(rs, "query", after="impl ReadableZone for ReadZone"))
    one(r"self\.query_below_apex\(label, qname, qtype, WalkState::DISABLED\) \} else \{ self\.query_rrsets\(self\.apex\.rrsets\(\), qtype, WalkState::DISABLED\) \}", rd2, "ReadZone::query dispatch")
    qr = flat(fn_body(rz, "query_rrsets"))
    one(r"match rrsets\.get\(qtype, self\.version\) \{ Some\(rrset\) => NodeAnswer::data\(rrset\), None => NodeAnswer::no_data\(\), \}", qr, "query_rrsets reads at the pinned version")
    one(r"if let Some\(shared_rrset\) = rrset\.get\(self\.version\) \{ walk\.op\(shared_rrset, false\); \}", qr, "walk reads at the pinned version")
    return defs

if __name__ == "__main__":
    main("C09", "/repo/src/zonetree/in_memory/{versioned,nodes,write,read}.rs", build)
