#!/usr/bin/env python3
"""T1 extractor for C04: what the equality / ordering / hashing code of labels,
names, character strings, records and a few record data types actually
compares and feeds, read from the Rust source:

  base/name/label.rs   split_from ranges, PartialEq / Ord / Hash for Label,
                       composed_cmp, lowercase_composed_cmp
  base/name/traits.rs  ToName / ToRelativeName name_eq (flat fast path +
                       iterator path), name_cmp (next_back loop and its arms),
                       composed_cmp, lowercase_composed_cmp
  base/name/{absolute,relative,parsed}.rs  Hash impls, as_flat_slice
  base/charstr.rs      PartialEq / Ord / CanonicalOrd / Hash for CharStr
  base/record.rs       field lists of Eq / Ord / CanonicalOrd / Hash of Record
                       and RecordHeader
  rdata/*.rs           field order of canonical_cmp for the schema instances
                       (A, AAAA, MX, SOA, SRV, DS, DNSKEY, TXT, NSEC)

Field codes: owner=1 class=2 ttl=3 data=4 rtype=5 rdlen=6."""
import re, sys, os
sys.path.insert(0, os.path.dirname(os.path.abspath(__file__)))
from rs import *

FIELD = {"owner": 1, "class": 2, "ttl": 3, "data": 4, "rtype": 5, "rdlen": 6}
CMP = {"Less": "Lt", "Greater": "Gt", "Equal": "Eq"}


def nlist(xs):
    return "[" + "; ".join("%d" % x for x in xs) + "]%N"


def bool_(b):
    return "true" if b else "false"


def impl_after(src, header_regex, what):
    ms = list(re.finditer(header_regex, src, re.S))
    if len(ms) != 1:
        raise GenError("%s: expected exactly one impl header %r, found %d" % (what, header_regex, len(ms)))
    i = src.find("{", ms[0].end() - 1)
    return block_from(src, i)


def trait_body(src, trait, what):
    m = one(r"pub\s+trait\s+%s\s*:\s*ToLabelIter\s*\{" % trait, src, what)
    return block_from(src, m.end() - 1)


def fields_cmp_chain(body, what, allow=r"[a-z_]+"):
    """`match self.X.cmp(&other.X) {...}` chain followed by a final
    `self.Y.cmp(&other.Y)`; returns list of (field, method, rhs_owner, rhs_field)."""
    out = []
    rx = re.compile(r"self\.(%s)(\(\))?\s*\.\s*(cmp|partial_cmp|canonical_cmp|name_cmp|composed_cmp|lowercase_composed_cmp)\(\s*&\s*(self|other)\.(%s)(\(\))?\s*\)" % (allow, allow))
    for m in rx.finditer(body):
        out.append((m.group(1), m.group(3), m.group(4), m.group(5)))
    if not out:
        raise GenError("%s: no comparison chain found" % what)
    return out


def straight_chain(chain, what):
    """every step compares self.f with other.f; returns [(field, method)]"""
    res = []
    for f, meth, who, g in chain:
        if who != "other" or f != g:
            raise GenError("%s: step compares self.%s with %s.%s" % (what, f, who, g))
        res.append((f, meth))
    return res


def build():
    defs = []
    # ------------------------------------------------------------ label.rs
    lab = strip_comments(read("src/base/name/label.rs"))
    sf = fn_body(lab, "split_from", after="impl Label")
    m = one(r"0\s*\.\.=\s*(0x[0-9A-Fa-f]+|\d+)\s*=>\s*\(head as usize\)\s*\+\s*1", sf, "split_from normal label range")
    defs.append(("split_normal_max", "N", "%d%%N" % num(m.group(1))))
    m = one(r"(0x[0-9A-Fa-f]+)\s*\.\.=\s*(0x[0-9A-Fa-f]+)\s*=>\s*\{\s*return\s+Err\(\s*SplitLabelError::BadType\(\s*LabelTypeError::Extended", sf, "split_from extended range")
    defs.append(("split_ext_lo", "N", "%d%%N" % num(m.group(1))))
    defs.append(("split_ext_hi", "N", "%d%%N" % num(m.group(2))))
    m = one(r"(0x[0-9A-Fa-f]+)\s*\.\.=\s*0xFF\s*=>\s*\{\s*if\s+slice\.len\(\)\s*<\s*2", sf, "split_from pointer range")
    defs.append(("split_ptr_lo", "N", "%d%%N" % num(m.group(1))))
    one(r"let\s+res\s*=\s*res\s*\|\s*\(\(\(head as u16\)\s*&\s*0x3F\)\s*<<\s*8\)", sf, "split_from pointer value")

    eqb = impl_after(lab, r"impl<T:\s*AsRef<\[u8\]>\s*\+\s*\?Sized>\s*PartialEq<T>\s*for\s+Label\s*\{", "PartialEq for Label")
    m = one(r"self\.as_slice\(\)\s*\.\s*(eq_ignore_ascii_case|eq)\(\s*other\.as_ref\(\)\s*\)|self\.as_slice\(\)\s*(==)\s*other\.as_ref\(\)", eqb, "Label::eq")
    defs.append(("label_eq_ignores_case", "bool", bool_(m.group(1) == "eq_ignore_ascii_case")))

    ordb = impl_after(lab, r"impl\s+Ord\s+for\s+Label\s*\{", "Ord for Label")
    m = one(r"self\.as_slice\(\)\s*\.iter\(\)\s*(\.map\(u8::to_ascii_lowercase\))?\s*\.cmp\(\s*other\.as_slice\(\)\.iter\(\)\s*(\.map\(u8::to_ascii_lowercase\))?\s*\)", ordb, "Label::cmp")
    defs.append(("label_cmp_lowers_self", "bool", bool_(m.group(1) is not None)))
    defs.append(("label_cmp_lowers_other", "bool", bool_(m.group(2) is not None)))
    pob = impl_after(lab, r"impl\s+PartialOrd\s+for\s+Label\s*\{", "PartialOrd for Label")
    one(r"Some\(\s*self\.cmp\(\s*other\s*\)\s*\)", pob, "Label::partial_cmp delegates to cmp")

    hb = impl_after(lab, r"impl\s+hash::Hash\s+for\s+Label\s*\{", "Hash for Label")
    items = []
    for m in re.finditer(r"\(self\.len\(\) as u8\)\.hash\(state\)|for\s+c\s+in\s+self\.iter\(\)\s*\{\s*c(\.to_ascii_lowercase\(\))?\.hash\(state\);?\s*\}", hb):
        if m.group(0).startswith("(self.len()"):
            items.append(1)
        else:
            items.append(2 if m.group(1) else 3)
    if len(re.findall(r"\.hash\(state\)", hb)) != len(items):
        raise GenError("Hash for Label: unrecognised feed")
    defs.append(("label_hash_items", "list N", nlist(items)))

    for fname, tag in (("composed_cmp", "label_composed"), ("lowercase_composed_cmp", "label_lc_composed")):
        b = fn_body(lab, fname, after="impl Label")
        m = re.search(r"match\s+self\.0\.len\(\)\.cmp\(\s*&other\.0\.len\(\)\s*\)\s*\{\s*cmp::Ordering::Equal\s*=>\s*\{\s*\}\s*,?\s*other\s*=>\s*return\s+other\s*,?\s*\}", b)
        defs.append((tag + "_len_first", "bool", bool_(m is not None)))
        rest = b[m.end():] if m else b
        m2 = one(r"^\s*(self\.0\.cmp\(\s*other\.as_ref\(\)\s*\)|self\.cmp\(\s*other\s*\))\s*$", rest, "Label::%s tail" % fname)
        # 0: raw octets ([u8]::cmp), 1: Label::cmp (lower-cased)
        defs.append((tag + "_tail_is_label_cmp", "bool", bool_(m2.group(1).startswith("self.cmp"))))

    # ------------------------------------------------------------ traits.rs
    tr = strip_comments(read("src/base/name/traits.rs"))
    for trait, pfx in (("ToName", "name"), ("ToRelativeName", "relname")):
        tb = trait_body(tr, trait, "trait " + trait)
        ne = fn_body(tb, "name_eq")
        m = one(r"if\s+let\s+\(Some\(left\),\s*Some\(right\)\)\s*=\s*\(\s*self\.as_flat_slice\(\),\s*other\.as_flat_slice\(\)\s*\)\s*\{\s*left\.(eq_ignore_ascii_case|eq)\(right\)\s*\}\s*else\s*\{\s*self\.iter_labels\(\)\.eq\(\s*other\.iter_labels\(\)\s*\)\s*\}", ne, "%s::name_eq" % trait)
        defs.append((pfx + "_eq_flat_ignores_case", "bool", bool_(m.group(1) == "eq_ignore_ascii_case")))
        nc = fn_body(tb, "name_cmp")
        one(r"match\s+\(\s*self_iter\.next_back\(\),\s*other_iter\.next_back\(\)\s*\)", nc, "%s::name_cmp walks from the back" % trait)
        one(r"\(Some\(left\),\s*Some\(right\)\)\s*=>\s*match\s+left\.cmp\(right\)\s*\{\s*cmp::Ordering::Equal\s*=>\s*\{\s*\}\s*,?\s*res\s*=>\s*return\s+res\s*,?\s*\}", nc, "%s::name_cmp label step" % trait)
        for key, pat in (("none_some", r"\(None,\s*Some\(_\)\)"), ("some_none", r"\(Some\(_\),\s*None\)"), ("none_none", r"\(None,\s*None\)")):
            m = one(pat + r"\s*=>\s*return\s+cmp::Ordering::(Less|Greater|Equal)\s*,", nc, "%s::name_cmp arm %s" % (trait, key))
            defs.append(("%s_cmp_arm_%s" % (pfx, key), "comparison", CMP[m.group(1)]))
    tb = trait_body(tr, "ToName", "trait ToName")
    cc = fn_body(tb, "composed_cmp")
    m = one(r"if\s+let\s+\(Some\(left\),\s*Some\(right\)\)\s*=\s*\(\s*self\.as_flat_slice\(\),\s*other\.as_flat_slice\(\)\s*\)\s*\{\s*return\s+left\.cmp\(right\);\s*\}", cc, "composed_cmp flat path")
    defs.append(("composed_cmp_has_flat_path", "bool", "true"))
    for fname, meth, tag in (("composed_cmp", "composed_cmp", "composed"), ("lowercase_composed_cmp", "lowercase_composed_cmp", "lc_composed")):
        b = fn_body(tb, fname)
        one(r"match\s+\(\s*self_iter\.next\(\),\s*other_iter\.next\(\)\s*\)", b, "%s walks from the front" % fname)
        one(r"\(Some\(left\),\s*Some\(right\)\)\s*=>\s*\{?\s*match\s+left\.%s\(right\)\s*\{\s*cmp::Ordering::Equal\s*=>\s*\{\s*\}\s*,?\s*other\s*=>\s*return\s+other\s*,?\s*\}" % meth, b, "%s label step" % fname)
        m = one(r"\(None,\s*None\)\s*=>\s*return\s+cmp::Ordering::(Less|Greater|Equal)\s*,", b, "%s end arm" % fname)
        defs.append(("%s_arm_none_none" % tag, "comparison", CMP[m.group(1)]))
        one(r"_\s*=>\s*\{\s*unreachable!\(\)\s*\}", b, "%s mismatch arm" % fname)
    if "as_flat_slice" in fn_body(tb, "lowercase_composed_cmp"):
        raise GenError("lowercase_composed_cmp gained a flat path")
    # label.compose / compose_canonical order: length octet, then octets
    lcmp = fn_body(lab, "compose_canonical", after="impl Label")
    one(r"target\.append_slice\(&\[self\.len\(\) as u8\]\)\?;\s*for\s+ch\s+in\s+self\.into_iter\(\)\s*\{\s*target\.append_slice\(&\[ch\.to_ascii_lowercase\(\)\]\)\?;\s*\}", lcmp, "Label::compose_canonical")
    defs.append(("label_compose_canonical_lowers", "bool", "true"))

    # ------------------------------------------- Hash / as_flat_slice of names
    for rel, ty, tag in (("src/base/name/absolute.rs", "Name", "name"), ("src/base/name/relative.rs", "RelativeName", "relname"), ("src/base/name/parsed.rs", "ParsedName", "parsed")):
        s = strip_comments(read(rel))
        hb = impl_after(s, r"impl<Octs:\s*AsRef<\[u8\]>(?:\s*\+\s*\?Sized)?>\s*hash::Hash\s+for\s+%s<Octs>\s*\{" % ty, "Hash for " + ty)
        one(r"for\s+item\s+in\s+self\.iter\(\)\s*\{\s*item\.hash\(state\);?\s*\}", hb, "Hash for %s feeds every label" % ty)
        if len(re.findall(r"\.hash\(state\)", hb)) != 1:
            raise GenError("Hash for %s feeds something besides the labels" % ty)
        defs.append(("%s_hash_is_labels" % tag, "bool", "true"))
    ps = strip_comments(read("src/base/name/parsed.rs"))
    fb = fn_body(ps, "as_flat_slice", after="ToName for ParsedName")
    one(r"if\s+self\.compressed\s*\{\s*None\s*\}\s*else\s*\{\s*Some\(\s*&self\.octets\.as_ref\(\)\s*\[self\.pos\.\.self\.pos\s*\+\s*usize::from\(self\.name_len\)\],?\s*\)\s*\}", fb, "ParsedName::as_flat_slice")
    defs.append(("parsed_flat_iff_uncompressed", "bool", "true"))
    # parent / split_first: the `compressed` flag must survive unchanged (a
    # suffix of a compressed name may itself still contain pointers)
    keeps = []
    for fn in ("split_first", "parent"):
        pb = fn_body(ps, fn, after="impl<Octs: AsRef<[u8]>> ParsedName<Octs>")
        one(r"LabelType::Compressed\(pos\)\s*=>\s*\{\s*parser\.seek\(pos\)\.unwrap\(\);\s*\}", pb, "%s follows pointers" % fn)
        one(r"LabelType::Normal\(label_len\)\s*=>\s*break\s+label_len\s*\+\s*1", pb, "%s label length" % fn)
        asg = re.findall(r"self\.compressed\s*=\s*([^;]+);", pb)
        if not asg:
            keeps.append(True)
        elif all(a.strip() == "false" for a in asg):
            keeps.append(False)
        else:
            raise GenError("%s assigns self.compressed = %r" % (fn, asg))
        if "compressed" in pb and not asg:
            raise GenError("%s mentions `compressed` in an unrecognised way" % fn)
    defs.append(("split_first_keeps_compressed_flag", "bool", bool_(keeps[0])))
    defs.append(("parent_keeps_compressed_flag", "bool", bool_(keeps[1])))
    sb_ = fn_body(ps, "next", after="Iterator for ParsedSuffixIter")
    one(r"let\s+res\s*=\s*name\.deref_octets\(\);\s*if\s+!name\.parent\(\)\s*\{\s*self\.name\s*=\s*None;?\s*\}\s*Some\(res\)", sb_, "ParsedSuffixIter::next is parent()")
    defs.append(("suffix_iter_is_parent", "bool", "true"))
    # the operator impls of the three name types are the trait functions
    for rel, ty, tag, has_canon in (("src/base/name/absolute.rs", "Name", "name", True), ("src/base/name/relative.rs", "RelativeName", "relname", False),
                                    ("src/base/name/parsed.rs", "ParsedName", "parsed", True)):
        src_ = strip_comments(read(rel))
        g = r"impl<Octs(?::\s*AsRef<\[u8\]>(?:\s*\+\s*\?Sized)?)?(?:,\s*N)?>\s*"
        one(r"^\s*self\.name_eq\(\s*other\s*\)\s*$", fn_body(impl_after(src_, g + r"PartialEq<N>\s*for\s+%s<Octs>\s*where[^{]*\{" % ty, "PartialEq for " + ty), "eq"), ty + "::eq is name_eq")
        one(r"^\s*Some\(\s*self\.name_cmp\(\s*other\s*\)\s*\)\s*$", fn_body(impl_after(src_, g + r"PartialOrd<N>\s*for\s+%s<Octs>\s*where[^{]*\{" % ty, "PartialOrd for " + ty), "partial_cmp"), ty + "::partial_cmp is name_cmp")
        ob_ = fn_body(impl_after(src_, g + r"Ord\s+for\s+%s<Octs>\s*\{" % ty, "Ord for " + ty), "cmp")
        defs.append(("%s_ord_is_name_cmp" % tag, "bool", bool_(re.fullmatch(r"\s*self\.name_cmp\(\s*other\s*\)\s*", ob_) is not None)))
        if has_canon:
            one(r"^\s*self\.name_cmp\(\s*other\s*\)\s*$", fn_body(impl_after(src_, g + r"CanonicalOrd<N>\s*for\s+%s<Octs>\s*where[^{]*\{" % ty, "CanonicalOrd for " + ty), "canonical_cmp"), ty + "::canonical_cmp is name_cmp")
    # the host byte order (std hashes an Ipv4Addr as u32::from_ne_bytes(octets)):
    # read from the compiler the harness is built with
    import subprocess
    cfg = subprocess.run(["rustc", "--print", "cfg"], stdout=subprocess.PIPE, stderr=subprocess.DEVNULL, timeout=60).stdout.decode()
    me = re.search(r'target_endian="(little|big)"', cfg)
    if not me:
        raise GenError("rustc --print cfg does not report target_endian")
    defs.append(("host_little_endian", "bool", bool_(me.group(1) == "little")))
    # ASCII lower-casing is std's: the only calls used on the compared octets
    used = set(re.findall(r"\b(to_ascii_lowercase|eq_ignore_ascii_case|make_ascii_lowercase|to_ascii_uppercase|to_lowercase|to_uppercase)\b", lab + strip_comments(read("src/base/charstr.rs"))))
    if not used <= {"to_ascii_lowercase", "eq_ignore_ascii_case", "make_ascii_lowercase"}:
        raise GenError("label.rs / charstr.rs use another case mapping: %r" % sorted(used))
    defs.append(("case_mapping_is_std_ascii_lowercase", "bool", "true"))
    # UncertainName: == only within one variant, Hash over the labels
    un = strip_comments(read("src/base/name/uncertain.rs"))
    ub = fn_body(impl_after(un, r"impl<Octets,\s*Other>\s*PartialEq<UncertainName<Other>>\s*for\s+UncertainName<Octets>\s*where[^{]*\{", "PartialEq for UncertainName"), "eq")
    one(r"\(Absolute\(l\),\s*Absolute\(r\)\)\s*=>\s*l\.eq\(r\)\s*,\s*\(Relative\(l\),\s*Relative\(r\)\)\s*=>\s*l\.eq\(r\)\s*,\s*_\s*=>\s*false", ub, "UncertainName::eq arms")
    uh = fn_body(impl_after(un, r"impl<Octets:\s*AsRef<\[u8\]>>\s*hash::Hash\s+for\s+UncertainName<Octets>\s*\{", "Hash for UncertainName"), "hash")
    one(r"for\s+item\s+in\s+self\.iter_labels\(\)\s*\{\s*item\.hash\(state\);?\s*\}", uh, "UncertainName::hash feeds every label")
    defs.append(("uncertain_eq_same_variant_only", "bool", "true"))
    ch = strip_comments(read("src/base/name/chain.rs"))
    if re.search(r"fn\s+as_flat_slice", ch):
        raise GenError("Chain gained as_flat_slice")
    one(r"ChainIter\(\s*self\.left\.iter_labels\(\)\.chain\(\s*self\.right\.iter_labels\(\)\s*\)\s*\)", ch, "Chain::iter_labels")
    defs.append(("chain_is_left_then_right", "bool", "true"))

    # ---------------------------------------------------------- charstr.rs
    cs = strip_comments(read("src/base/charstr.rs"))
    b = impl_after(cs, r"impl<T,\s*U>\s*PartialEq<U>\s*for\s+CharStr<T>\s*where[^{]*\{", "PartialEq for CharStr")
    m = one(r"self\.as_slice\(\)\.(eq_ignore_ascii_case|eq)\(\s*other\.as_ref\(\)\s*\)", b, "CharStr::eq")
    defs.append(("charstr_eq_ignores_case", "bool", bool_(m.group(1) == "eq_ignore_ascii_case")))
    b = impl_after(cs, r"impl<T:\s*AsRef<\[u8\]>\s*\+\s*\?Sized>\s*Ord\s+for\s+CharStr<T>\s*\{", "Ord for CharStr")
    m = one(r"self\.0\s*\.as_ref\(\)\s*\.iter\(\)\s*(\.map\(u8::to_ascii_lowercase\))?\s*\.cmp\(\s*other\.0\.as_ref\(\)\.iter\(\)(\.map\(u8::to_ascii_lowercase\))?\s*\)", b, "CharStr::cmp")
    defs.append(("charstr_cmp_lowers_self", "bool", bool_(m.group(1) is not None)))
    defs.append(("charstr_cmp_lowers_other", "bool", bool_(m.group(2) is not None)))
    b = impl_after(cs, r"impl<T,\s*U>\s*CanonicalOrd<CharStr<U>>\s*for\s+CharStr<T>\s*where[^{]*\{", "CanonicalOrd for CharStr")
    m = re.search(r"match\s+self\.0\.as_ref\(\)\.len\(\)\.cmp\(\s*&other\.0\.as_ref\(\)\.len\(\)\s*\)\s*\{\s*cmp::Ordering::Equal\s*=>\s*\{\s*\}\s*,?\s*other\s*=>\s*return\s+other\s*,?\s*\}", b)
    defs.append(("charstr_canonical_len_first", "bool", bool_(m is not None)))
    one(r"self\.as_slice\(\)\.cmp\(\s*other\.as_slice\(\)\s*\)", b, "CharStr::canonical_cmp tail is raw octets")
    defs.append(("charstr_canonical_tail_raw", "bool", "true"))
    b = impl_after(cs, r"impl<T:\s*AsRef<\[u8\]>\s*\+\s*\?Sized>\s*hash::Hash\s+for\s+CharStr<T>\s*\{", "Hash for CharStr")
    m = one(r"self\.0\s*\.as_ref\(\)\s*\.iter\(\)\s*(\.map\(u8::to_ascii_lowercase\))?\s*\.for_each\(\|ch\|\s*ch\.hash\(state\)\)", b, "CharStr::hash")
    defs.append(("charstr_hash_lowers", "bool", bool_(m.group(1) is not None)))

    # ----------------------------------------------------------- record.rs
    rc = strip_comments(read("src/base/record.rs"))
    b = impl_after(rc, r"impl<N,\s*NN,\s*D,\s*DD>\s*PartialEq<Record<NN,\s*DD>>\s*for\s+Record<N,\s*D>\s*where[^{]*\{", "PartialEq for Record")
    fs = re.findall(r"self\.([a-z_]+)\s*==\s*other\.([a-z_]+)", b)
    if not fs or any(x != y for x, y in fs) or len(fs) != len(re.findall(r"==", b)):
        raise GenError("Record::eq: unrecognised field comparison")
    defs.append(("record_eq_fields", "list N", nlist([FIELD[x] for x, _ in fs])))
    b = impl_after(rc, r"impl<Name,\s*Data>\s*hash::Hash\s+for\s+Record<Name,\s*Data>\s*where[^{]*\{", "Hash for Record")
    fs = re.findall(r"self\.([a-z_]+)\.hash\(state\)", b)
    if len(fs) != len(re.findall(r"\.hash\(state\)", b)):
        raise GenError("Record::hash: unrecognised feed")
    defs.append(("record_hash_fields", "list N", nlist([FIELD[x] for x in fs])))
    b = impl_after(rc, r"impl<N,\s*D>\s*Ord\s+for\s+Record<N,\s*D>\s*where[^{]*\{", "Ord for Record")
    ch_ = straight_chain(fields_cmp_chain(b, "Record::cmp"), "Record::cmp")
    if any(mth != "cmp" for _, mth in ch_):
        raise GenError("Record::cmp uses another method than cmp")
    defs.append(("record_cmp_fields", "list N", nlist([FIELD[x] for x, _ in ch_])))
    b = impl_after(rc, r"impl<N,\s*NN,\s*D,\s*DD>\s*PartialOrd<Record<NN,\s*DD>>\s*for\s+Record<N,\s*D>\s*where[^{]*\{", "PartialOrd for Record")
    ch_ = straight_chain(fields_cmp_chain(b, "Record::partial_cmp"), "Record::partial_cmp")
    if any(mth != "partial_cmp" for _, mth in ch_):
        raise GenError("Record::partial_cmp uses another method than partial_cmp")
    defs.append(("record_partial_fields", "list N", nlist([FIELD[x] for x, _ in ch_])))
    b = impl_after(rc, r"impl<N,\s*NN,\s*D,\s*DD>\s*CanonicalOrd<Record<NN,\s*DD>>\s*for\s+Record<N,\s*D>\s*where[^{]*\{", "CanonicalOrd for Record")
    ch_ = straight_chain(fields_cmp_chain(b, "Record::canonical_cmp"), "Record::canonical_cmp")
    want = {"class": "cmp", "owner": "name_cmp", "rtype": "cmp", "data": "canonical_cmp"}
    for f, mth in ch_:
        if want.get(f) != mth:
            raise GenError("Record::canonical_cmp compares %s with %s" % (f, mth))
    defs.append(("record_canonical_fields", "list N", nlist([FIELD[x] for x, _ in ch_])))

    b = impl_after(rc, r"impl<Name,\s*NName>\s*PartialEq<RecordHeader<NName>>\s*for\s+RecordHeader<Name>\s*where[^{]*\{", "PartialEq for RecordHeader")
    fs = re.findall(r"self\.([a-z_]+)\s*(?:==|\.name_eq\(&)\s*other\.([a-z_]+)", b)
    if not fs or any(x != y for x, y in fs) or len(fs) != len(re.findall(r"==|name_eq", b)):
        raise GenError("RecordHeader::eq: unrecognised field comparison")
    defs.append(("header_eq_fields", "list N", nlist([FIELD[x] for x, _ in fs])))
    b = impl_after(rc, r"impl<Name:\s*hash::Hash>\s*hash::Hash\s+for\s+RecordHeader<Name>\s*\{", "Hash for RecordHeader")
    fs = re.findall(r"self\.([a-z_]+)\.hash\(state\)", b)
    if len(fs) != len(re.findall(r"\.hash\(state\)", b)):
        raise GenError("RecordHeader::hash: unrecognised feed")
    defs.append(("header_hash_fields", "list N", nlist([FIELD[x] for x in fs])))
    b = impl_after(rc, r"impl<Name:\s*ToName>\s*Ord\s+for\s+RecordHeader<Name>\s*\{", "Ord for RecordHeader")
    ch_ = straight_chain(fields_cmp_chain(b, "RecordHeader::cmp"), "RecordHeader::cmp")
    if [mth for _, mth in ch_] != ["name_cmp", "cmp", "cmp", "cmp", "cmp"][:len(ch_)]:
        raise GenError("RecordHeader::cmp methods changed: %r" % (ch_,))
    defs.append(("header_cmp_fields", "list N", nlist([FIELD[x] for x, _ in ch_])))
    b = impl_after(rc, r"impl<Name,\s*NName>\s*PartialOrd<RecordHeader<NName>>\s*for\s+RecordHeader<Name>\s*where[^{]*\{", "PartialOrd for RecordHeader")
    ch_ = straight_chain(fields_cmp_chain(b, "RecordHeader::partial_cmp"), "RecordHeader::partial_cmp")
    if [mth for _, mth in ch_] != ["name_cmp", "partial_cmp", "partial_cmp", "partial_cmp", "partial_cmp"][:len(ch_)]:
        raise GenError("RecordHeader::partial_cmp methods changed: %r" % (ch_,))
    defs.append(("header_partial_fields", "list N", nlist([FIELD[x] for x, _ in ch_])))

    b = impl_after(rc, r"impl<'o,\s*Octs,\s*Other>\s*PartialEq<ParsedRecord<'o,\s*Other>>\s*for\s+ParsedRecord<'_,\s*Octs>\s*where[^{]*\{", "PartialEq for ParsedRecord")
    one(r"self\.header\s*==\s*other\.header\s*&&\s*self\s*\.data\s*\.peek\(self\.header\.rdlen\(\) as usize\)\s*\.eq\(&other\.data\.peek\(other\.header\.rdlen\(\) as usize\)\)", fn_body(b, "eq"), "ParsedRecord::eq")
    defs.append(("parsed_record_eq_is_header_and_rdata_octets", "bool", "true"))
    # ------------------------------------------------ record data: field order
    # schema field kinds: 1 = fixed-width integer / octets compared with cmp,
    # 2 = name compared with lowercase_composed_cmp, 3 = name compared with
    # composed_cmp (case kept), 4 = char-string canonical_cmp, 5 = final octets,
    # 6 = Serial::canonical_cmp / Timestamp (u32)
    def rdata_chain(rel, header, what):
        s = strip_comments(read(rel))
        b = impl_after(s, header, what)
        return fields_cmp_chain(fn_body(b, "canonical_cmp"), what)

    def emit_chain(tag, chain, kinds, what):
        got = []
        for f, mth, who, g in chain:
            if f not in kinds:
                raise GenError("%s: unexpected field %s" % (what, f))
            k, meths = kinds[f]
            if mth not in meths:
                raise GenError("%s: field %s compared with %s" % (what, f, mth))
            got.append((f, who == "other" and g == f))
        if [f for f, _ in got] != list(kinds.keys()):
            raise GenError("%s: field order %s, expected %s" % (what, [f for f, _ in got], list(kinds.keys())))
        return got

    ch_ = rdata_chain("src/rdata/rfc1035/mx.rs", r"impl<N:\s*ToName,\s*NN:\s*ToName>\s*CanonicalOrd<Mx<NN>>\s*for\s+Mx<N>\s*\{", "Mx::canonical_cmp")
    emit_chain("mx", ch_, {"preference": (1, ("cmp",)), "exchange": (2, ("lowercase_composed_cmp",))}, "Mx::canonical_cmp")
    defs.append(("mx_fields_ok", "bool", bool_(all(w == "other" and f == g for f, _, w, g in ch_))))
    ch_ = rdata_chain("src/rdata/rfc1035/soa.rs", r"impl<N:\s*ToName,\s*NN:\s*ToName>\s*CanonicalOrd<Soa<NN>>\s*for\s+Soa<N>\s*\{", "Soa::canonical_cmp")
    emit_chain("soa", ch_, {"mname": (2, ("lowercase_composed_cmp",)), "rname": (2, ("lowercase_composed_cmp",)), "serial": (6, ("canonical_cmp",)),
                            "refresh": (1, ("cmp",)), "retry": (1, ("cmp",)), "expire": (1, ("cmp",)), "minimum": (1, ("cmp",))}, "Soa::canonical_cmp")
    defs.append(("soa_fields_ok", "bool", bool_(all(w == "other" and f == g for f, _, w, g in ch_))))
    ch_ = rdata_chain("src/rdata/srv.rs", r"impl<N:\s*ToName,\s*NN:\s*ToName>\s*CanonicalOrd<Srv<NN>>\s*for\s+Srv<N>\s*\{", "Srv::canonical_cmp")
    emit_chain("srv", ch_, {"priority": (1, ("cmp",)), "weight": (1, ("cmp",)), "port": (1, ("cmp",)), "target": (2, ("lowercase_composed_cmp",))}, "Srv::canonical_cmp")
    defs.append(("srv_fields_ok", "bool", bool_(all(w == "other" and f == g for f, _, w, g in ch_))))
    dn = strip_comments(read("src/rdata/dnssec.rs"))
    b = impl_after(dn, r"impl<Octs,\s*Other>\s*CanonicalOrd<Ds<Other>>\s*for\s+Ds<Octs>\s*where[^{]*\{", "Ds::canonical_cmp")
    fs = re.findall(r"self\.([a-z_]+)(?:\.as_ref\(\))?\.cmp\(\s*&?\s*other\.([a-z_]+)", fn_body(b, "canonical_cmp"))
    if fs != [("key_tag", "key_tag"), ("algorithm", "algorithm"), ("digest_type", "digest_type"), ("digest", "digest")]:
        raise GenError("Ds::canonical_cmp field order changed: %r" % fs)
    defs.append(("ds_fields_ok", "bool", "true"))
    b = impl_after(dn, r"impl<Octs,\s*Other>\s*CanonicalOrd<Dnskey<Other>>\s*for\s+Dnskey<Octs>\s*where[^{]*\{", "Dnskey::canonical_cmp")
    fs = re.findall(r"self\.([a-z_]+)(?:\.as_ref\(\))?\.cmp\(\s*&?\s*other\.([a-z_]+)", fn_body(b, "canonical_cmp"))
    if fs != [("flags", "flags"), ("protocol", "protocol"), ("algorithm", "algorithm"), ("public_key", "public_key")]:
        raise GenError("Dnskey::canonical_cmp field order changed: %r" % fs)
    defs.append(("dnskey_fields_ok", "bool", "true"))
    # NSEC: next_name with composed_cmp (case kept, RFC 6840 5.1), then types
    b = impl_after(dn, r"impl<O,\s*OO,\s*N,\s*NN>\s*CanonicalOrd<Nsec<OO,\s*NN>>\s*for\s+Nsec<O,\s*N>\s*where[^{]*\{", "Nsec::canonical_cmp")
    cb = fn_body(b, "canonical_cmp")
    one(r"match\s+self\.next_name\.composed_cmp\(\s*&other\.next_name\s*\)", cb, "Nsec::canonical_cmp next_name")
    m = one(r"self\.types\.(?:cmp|canonical_cmp)\(\s*&(self|other)\.types\s*\)\s*$", cb, "Nsec::canonical_cmp types")
    defs.append(("nsec_canonical_types_vs_other", "bool", bool_(m.group(1) == "other")))
    b = impl_after(dn, r"impl<O,\s*N>\s*Ord\s+for\s+Nsec<O,\s*N>\s*where[^{]*\{", "Ord for Nsec")
    cb = fn_body(b, "cmp")
    one(r"match\s+self\.next_name\.name_cmp\(\s*&other\.next_name\s*\)", cb, "Nsec::cmp next_name")
    m = one(r"self\.types\.cmp\(\s*&(self|other)\.types\s*\)\s*$", cb, "Nsec::cmp types")
    defs.append(("nsec_cmp_types_vs_other", "bool", bool_(m.group(1) == "other")))
    # SVCB / HTTPS: priority, target (which comparison?), params
    sv = strip_comments(read("src/rdata/svcb/rdata.rs"))
    b = impl_after(sv, r"impl<Variant,\s*OtherVariant,\s*Octs,\s*OtherOcts,\s*Name,\s*OtherName>\s*CanonicalOrd<SvcbRdata<OtherVariant,\s*OtherOcts,\s*OtherName>>\s*for\s+SvcbRdata<Variant,\s*Octs,\s*Name>\s*where[^{]*\{", "SvcbRdata::canonical_cmp")
    cb = fn_body(b, "canonical_cmp")
    one(r"match\s+self\.priority\.cmp\(\s*&other\.priority\s*\)", cb, "Svcb::canonical_cmp priority")
    m = one(r"match\s+self\.target\.(name_cmp|composed_cmp|lowercase_composed_cmp)\(\s*&other\.target\s*\)", cb, "Svcb::canonical_cmp target")
    if m.group(1) == "lowercase_composed_cmp":
        raise GenError("Svcb::canonical_cmp lower-cases the target")
    defs.append(("svcb_canonical_target_composed", "bool", bool_(m.group(1) == "composed_cmp")))
    one(r"self\.params\.canonical_cmp\(\s*&other\.params\s*\)\s*$", cb, "Svcb::canonical_cmp params")
    cr = fn_body(sv, "compose_canonical_rdata", after="ComposeRecordData")
    one(r"^\s*self\.compose_rdata\(target\)\s*$", cr, "Svcb canonical form is the plain form")
    # IPSECKEY: precedence, gateway type, algorithm, gateway, key.  A gateway
    # name: canonical name order (IpseckeyGateway::partial_cmp) or octets?
    ik = strip_comments(read("src/rdata/ipseckey.rs"))
    b = impl_after(ik, r"impl<Octs,\s*OtherOcts,\s*N,\s*OtherName>\s*CanonicalOrd<Ipseckey<OtherOcts,\s*OtherName>>\s*for\s+Ipseckey<Octs,\s*N>\s*where[^{]*\{", "Ipseckey::canonical_cmp")
    cb = fn_body(b, "canonical_cmp")
    order = re.findall(r"self\.(precedence|gateway_type|algorithm)\.cmp\(\s*&other\.(precedence|gateway_type|algorithm)\s*\)", cb)
    if order != [("precedence", "precedence"), ("gateway_type", "gateway_type"), ("algorithm", "algorithm")]:
        raise GenError("Ipseckey::canonical_cmp leading fields changed: %r" % (order,))
    one(r"self\.key\.as_ref\(\)\.cmp\(\s*other\.key\.as_ref\(\)\s*\)\s*$", cb, "Ipseckey::canonical_cmp key")
    uses_partial = re.search(r"\.partial_cmp\(", cb) is not None
    composed = re.search(r"IpseckeyGateway::Name\((\w+)\),\s*IpseckeyGateway::Name\((\w+)\)\)\s*=>\s*\{?\s*Some\(\s*\1\.composed_cmp\(\2\)\s*\)", cb) is not None
    if not uses_partial and not composed:
        raise GenError("Ipseckey::canonical_cmp: unrecognised gateway comparison")
    gp = impl_after(ik, r"impl<N,\s*OtherName>\s*PartialOrd<IpseckeyGateway<OtherName>>\s*for\s+IpseckeyGateway<N>\s*where[^{]*\{", "PartialOrd for IpseckeyGateway")
    one(r"\(IpseckeyGateway::Name\(n\),\s*IpseckeyGateway::Name\(o\)\)\s*=>\s*\{\s*Some\(n\.name_cmp\(o\)\)\s*\}", gp, "IpseckeyGateway::partial_cmp name arm")
    defs.append(("ipseckey_gateway_name_composed", "bool", bool_(composed)))
    cr = fn_body(ik, "compose_canonical_rdata", after="ComposeRecordData for Ipseckey")
    one(r"^\s*self\.compose_rdata\(target\)\s*$", cr, "Ipseckey canonical form is the plain form")
    hb = impl_after(ik, r"impl<N:\s*hash::Hash>\s*hash::Hash\s+for\s+IpseckeyGateway<N>\s*\{", "Hash for IpseckeyGateway")
    m = one(r"IpseckeyGateway::None\s*=>\s*(todo!\(\)|unimplemented!\(\)|\(\)|\{\s*\})\s*,", hb, "IpseckeyGateway::hash None arm")
    defs.append(("ipseckey_hash_none_panics", "bool", bool_(m.group(1).startswith(("todo", "unimpl")))))
    # UnknownRecordData: does == look at the type?  ZoneRecordData hashes it.
    ur = strip_comments(read("src/base/rdata.rs"))
    b = impl_after(ur, r"impl<Octs,\s*Other>\s*PartialEq<UnknownRecordData<Other>>\s*for\s+UnknownRecordData<Octs>\s*where[^{]*\{", "PartialEq for UnknownRecordData")
    eb = fn_body(b, "eq")
    one(r"self\.data\.as_ref\(\)\.eq\(\s*other\.data\.as_ref\(\)\s*\)", eb, "UnknownRecordData::eq data")
    defs.append(("unknown_eq_compares_rtype", "bool", bool_(re.search(r"self\.rtype\s*==\s*other\.rtype", eb) is not None)))
    b = impl_after(ur, r"impl<Octs,\s*Other>\s*CanonicalOrd<UnknownRecordData<Other>>\s*for\s+UnknownRecordData<Octs>\s*where[^{]*\{", "CanonicalOrd for UnknownRecordData")
    cb = fn_body(b, "canonical_cmp")
    one(r"self\.data\.as_ref\(\)\.cmp\(\s*other\.data\.as_ref\(\)\s*\)\s*$", cb, "UnknownRecordData::canonical_cmp data")
    defs.append(("unknown_canonical_compares_rtype", "bool", bool_(re.search(r"self\.rtype\.cmp\(\s*&other\.rtype\s*\)", cb) is not None)))
    mc = strip_comments(read("src/rdata/macros.rs"))
    one(r"ZoneRecordData::Unknown\(ref inner\)\s*=>\s*\{\s*inner\.rtype\(\)\.hash\(state\);\s*inner\.data\(\)\.as_ref\(\)\.hash\(state\);\s*\}", mc, "ZoneRecordData::hash Unknown arm")
    defs.append(("zone_unknown_hash_feeds_rtype", "bool", "true"))
    # the remaining chain-shaped canonical_cmp impls: field order and method
    def chain_of(rel, ty, expect):
        src = strip_comments(read(rel))
        hdr = r"impl<[^>]*>\s*CanonicalOrd<%s<[^>]*>>\s*for\s+%s<[^>]*>\s*(?:where[^{]*)?\{" % (ty, ty)
        body = fn_body(impl_after(src, hdr, "%s::canonical_cmp" % ty), "canonical_cmp")
        rx = re.compile(r"self\.([a-z_]+)((?:\.into_int\(\)|\.as_ref\(\))*)\s*\.\s*(cmp|canonical_cmp|name_cmp|composed_cmp|lowercase_composed_cmp|partial_cmp)\(\s*&?\s*(self|other)\.([a-z_]+)")
        got = []
        for m in rx.finditer(body):
            if m.group(4) != "other" or m.group(1) != m.group(5):
                raise GenError("%s::canonical_cmp compares self.%s with %s.%s" % (ty, m.group(1), m.group(4), m.group(5)))
            got.append((m.group(1), m.group(3)))
        if got != expect:
            raise GenError("%s::canonical_cmp chain is %r, expected %r" % (ty, got, expect))
        defs.append(("%s_fields_ok" % ty.lower(), "bool", "true"))
    C, CC, LC = "cmp", "canonical_cmp", "lowercase_composed_cmp"
    chain_of("src/rdata/tlsa.rs", "Tlsa", [("usage", C), ("selector", C), ("matching_type", C), ("data", C)])
    chain_of("src/rdata/sshfp.rs", "Sshfp", [("algorithm", C), ("fingerprint_type", C), ("fingerprint", C)])
    chain_of("src/rdata/zonemd.rs", "Zonemd", [("serial", C), ("scheme", C), ("algo", C), ("digest", C)])
    chain_of("src/rdata/cds.rs", "Cdnskey", [("flags", C), ("protocol", C), ("algorithm", C), ("public_key", C)])
    chain_of("src/rdata/cds.rs", "Cds", [("key_tag", C), ("algorithm", C), ("digest_type", C), ("digest", C)])
    chain_of("src/rdata/rp.rs", "Rp", [("mbox", LC), ("txt", LC)])
    chain_of("src/rdata/rfc1035/minfo.rs", "Minfo", [("rmailbx", LC), ("emailbx", LC)])
    chain_of("src/rdata/rfc1035/hinfo.rs", "Hinfo", [("cpu", CC), ("os", CC)])
    chain_of("src/rdata/openpgpkey.rs", "Openpgpkey", [("key", C)])
    chain_of("src/rdata/dnssec.rs", "Rrsig", [("type_covered", C), ("algorithm", C), ("labels", C), ("original_ttl", C), ("expiration", CC),
                                               ("inception", CC), ("key_tag", C), ("signer_name", LC), ("signature", C)])
    chain_of("src/rdata/nsec3.rs", "Nsec3", [("hash_algorithm", C), ("flags", C), ("iterations", C), ("salt", CC), ("next_owner", CC), ("types", CC)])
    chain_of("src/rdata/nsec3.rs", "Nsec3param", [("hash_algorithm", C), ("flags", C), ("iterations", C), ("salt", CC)])
    chain_of("src/rdata/caa.rs", "Caa", [("flags", C), ("tag", CC), ("value", C)])
    chain_of("src/rdata/naptr.rs", "Naptr", [("order", C), ("preference", C), ("flags", CC), ("services", CC), ("regexp", CC), ("replacement", LC)])
    # length-prefixed pieces: length first, then octets
    n3 = strip_comments(read("src/rdata/nsec3.rs"))
    for ty in ("Nsec3Salt", "OwnerHash"):
        b = impl_after(n3, r"impl<T,\s*U>\s*CanonicalOrd<%s<U>>\s*for\s+%s<T>\s*where[^{]*\{" % (ty, ty), "%s::canonical_cmp" % ty)
        one(r"match\s+self\.0\.as_ref\(\)\.len\(\)\.cmp\(\s*&other\.0\.as_ref\(\)\.len\(\)\s*\)\s*\{\s*Ordering::Equal\s*=>\s*\{\s*\}\s*,?\s*other\s*=>\s*return\s+other\s*,?\s*\}\s*self\.as_slice\(\)\.cmp\(\s*other\.as_slice\(\)\s*\)", b, "%s::canonical_cmp is length first" % ty)
    defs.append(("nsec3_pieces_len_first", "bool", "true"))
    # name-only types: lowercase_composed_cmp of the single field
    mac = strip_comments(read("src/rdata/macros.rs"))
    for mname in ("name_type_well_known", "name_type_canonical"):
        mm = one(r"macro_rules!\s+%s\s*\{" % mname, mac, mname)
        body = block_from(mac, mm.end() - 1)
        one(r"fn\s+canonical_cmp\(&self,\s*other:\s*&\$target<NN>\)\s*->\s*Ordering\s*\{\s*self\.\$field\.lowercase_composed_cmp\(&other\.\$field\)\s*\}", body, "%s canonical_cmp" % mname)
        one(r"fn\s+compose_canonical_rdata<Target>\([^)]*\)\s*->\s*Result<\(\),\s*Target::AppendError>\s*where[^{]*\{\s*self\.\$field\.compose_canonical\(target\)\s*\}", body, "%s compose_canonical_rdata" % mname)
    defs.append(("name_types_lowercase", "bool", "true"))
    # TSIG: algorithm as is, time, fudge, MAC (length first), id, error, other (length first)
    ts = strip_comments(read("src/rdata/tsig.rs"))
    b = impl_after(ts, r"impl<O,\s*OO,\s*N,\s*NN>\s*CanonicalOrd<Tsig<OO,\s*NN>>\s*for\s+Tsig<O,\s*N>\s*where[^{]*\{", "Tsig::canonical_cmp")
    cb = fn_body(b, "canonical_cmp")
    steps = re.findall(r"self\.([a-z_]+)((?:\.as_ref\(\))?(?:\.len\(\))?)\s*\.(cmp|composed_cmp|lowercase_composed_cmp|name_cmp)\(\s*&?\s*other\.([a-z_]+)((?:\.as_ref\(\))?(?:\.len\(\))?)", cb)
    want = [("algorithm", "", "composed_cmp"), ("time_signed", "", "cmp"), ("fudge", "", "cmp"), ("mac", ".as_ref().len()", "cmp"), ("mac", ".as_ref()", "cmp"),
            ("original_id", "", "cmp"), ("error", "", "cmp"), ("other", ".as_ref().len()", "cmp"), ("other", ".as_ref()", "cmp")]
    got = [(f, sfx, mth) for f, sfx, mth, g, sfx2 in steps]
    if got != want or any(f != g or a != c for f, a, _, g, c in steps) or len(re.findall(r"\.(?:cmp|composed_cmp|name_cmp|lowercase_composed_cmp|canonical_cmp)\(", cb)) != len(want):
        raise GenError("Tsig::canonical_cmp chain changed: %r" % (got,))
    one(r"^\s*self\.compose_rdata\(target\)\s*$", fn_body(ts, "compose_canonical_rdata", after="ComposeRecordData for Tsig"), "Tsig canonical form is the plain form")
    defs.append(("tsig_fields_ok", "bool", "true"))
    # OPT: the option octets
    op = strip_comments(read("src/base/opt/mod.rs"))
    b = impl_after(op, r"impl<Octs,\s*Other>\s*CanonicalOrd<Opt<Other>>\s*for\s+Opt<Octs>\s*where[^{]*\{", "Opt::canonical_cmp")
    one(r"self\.octets\.as_ref\(\)\.cmp\(\s*other\.octets\.as_ref\(\)\s*\)", b, "Opt::canonical_cmp is octets order")
    defs.append(("opt_canonical_is_octets_cmp", "bool", "true"))
    # IPSECKEY address gateways: A / Aaaa order (derived: the address)
    one(r"\(IpseckeyGateway::Ipv4\(a\),\s*IpseckeyGateway::Ipv4\(o\)\)\s*=>\s*\{\s*a\.partial_cmp\(o\)\s*\}", gp, "IpseckeyGateway::partial_cmp ipv4 arm")
    one(r"\(IpseckeyGateway::Ipv6\(aaaa\),\s*IpseckeyGateway::Ipv6\(o\)\)\s*=>\s*\{\s*aaaa\.partial_cmp\(o\)\s*\}", gp, "IpseckeyGateway::partial_cmp ipv6 arm")
    one(r"\(IpseckeyGateway::None,\s*IpseckeyGateway::None\)\s*=>\s*\{\s*Some\(Ordering::Equal\)\s*\}", gp, "IpseckeyGateway::partial_cmp none arm")
    for rel, ty in (("src/rdata/rfc1035/a.rs", "A"), ("src/rdata/aaaa.rs", "Aaaa")):
        src_ = strip_comments(read(rel))
        mm = one(r"#\[derive\(([^)]*)\)\]\s*(?:#\[[^\]]*\]\s*)*pub\s+struct\s+%s\s*\{\s*addr:\s*Ipv[46]Addr,?\s*\}" % ty, src_, "struct " + ty)
        ds = [x.strip() for x in mm.group(1).split(",")]
        for tr in ("PartialEq", "Eq", "PartialOrd", "Ord", "Hash"):
            if tr not in ds:
                raise GenError("%s no longer derives %s" % (ty, tr))
    defs.append(("addr_types_derive_order", "bool", "true"))
    # AllRecordData::eq: is there an arm for the Unknown and for the Opt variant?
    ab = impl_after(mac, r"impl<O,\s*OO,\s*N,\s*NN>\s*PartialEq<AllRecordData<OO,\s*NN>>\s*for\s+AllRecordData<O,\s*N>\s*where[^{]*\{", "PartialEq for AllRecordData")
    eb = fn_body(ab, "eq")
    one(r"\(_,\s*_\)\s*=>\s*false", eb, "AllRecordData::eq fallback arm")
    for var in ("Unknown", "Opt"):
        has = re.search(r"&AllRecordData::%s\(ref (\w+)\),\s*&AllRecordData::%s\(ref (\w+)\)\s*\)\s*=>\s*\{\s*\1\.eq\(\2\)\s*\}" % (var, var), eb) is not None
        defs.append(("all_record_data_eq_has_%s_arm" % var.lower(), "bool", bool_(has)))
    # ---- per type tables: struct field kinds and the field lists of
    # PartialEq / Ord / CanonicalOrd / Hash (indices into the struct order).
    # kinds: 1 u8, 2 u16, 3 u32, 4 name (canonical form lower-cased),
    # 5 name kept as is, 6 CharStr, 7 octets, 8 octets with a length octet in
    # wire form (salt, owner hash), 9 type bitmap octets
    KIND_TYPES = {
        1: {"u8", "SecurityAlgorithm", "DigestAlgorithm", "TlsaCertificateUsage", "TlsaSelector", "TlsaMatchingType",
            "SshfpAlgorithm", "SshfpType", "Nsec3HashAlgorithm", "CaaFlags", "ZonemdScheme", "ZonemdAlgorithm",
            "IpseckeyGatewayType", "IpseckeyAlgorithm"},
        2: {"u16", "Rtype", "TsigRcode"},
        3: {"u32", "Ttl", "Timestamp", "Serial"},
        4: {"N", "Name"}, 5: {"N", "Name", "IpseckeyGateway<N>"},
        6: {"CharStr<Octs>", "CaaTag<Octs>"},
        7: {"Octs", "SvcParams<Octs>"}, 8: {"Nsec3Salt<Octs>", "OwnerHash<Octs>"}, 9: {"RtypeBitmap<Octs>"},
        10: {"IpseckeyGateway<N>"}, 11: {"IpseckeyGateway<N>"}, 12: {"Time48"}, 13: {"Octs"},
    }
    def strip_attrs(t):
        out = []; i = 0
        while i < len(t):
            if t.startswith("#[", i):
                d = 0; j = i + 1
                while j < len(t):
                    if t[j] == "[": d += 1
                    elif t[j] == "]":
                        d -= 1
                        if d == 0: break
                    elif t[j] == '"':
                        j += 1
                        while t[j] != '"': j += 2 if t[j] == "\\" else 1
                    j += 1
                i = j + 1
            else:
                out.append(t[i]); i += 1
        return "".join(out)
    def idx_list(names, order, what):
        for n_ in names:
            if n_ not in order:
                raise GenError("%s: unknown field %s" % (what, n_))
        return [order.index(n_) for n_ in names]
    def type_table(rel, ty, code, kinds, skip=(), drop=None):
        src = strip_comments(read(rel))
        m = one(r"pub\s+struct\s+%s<[^{]*\{" % ty, src, "struct %s" % ty)
        body = strip_attrs(block_from(src, m.end() - 1))
        flds = re.findall(r"(?:pub(?:\([a-z]+\))?\s+)?([a-z_][a-z_0-9]*)\s*:\s*([^,\n]+?)\s*,", body)
        flds = [(f, t) for f, t in flds if f not in skip]
        order = [f for f, _ in flds]
        if len(order) != len(kinds):
            raise GenError("struct %s has fields %r, expected %d" % (ty, order, len(kinds)))
        for (f, t), k in zip(flds, kinds):
            if t not in KIND_TYPES[k]:
                raise GenError("struct %s: field %s has type %s, not of kind %d" % (ty, f, t, k))
        gen = r"impl<[^{;]*?>\s*(?:[a-z]+::)?"
        # PartialEq
        eb = fn_body(impl_after(src, gen + r"PartialEq<%s<[^>]*>>\s*for\s+%s<[^>]*>\s*(?:where[^{]*)?\{" % (ty, ty), "PartialEq for " + ty), "eq")
        es = re.findall(r"self\.([a-z_]+)(?:\.as_ref\(\)|\.into_int\(\))*\s*(?:==\s*|\.eq\(\s*&?\s*|\.name_eq\(\s*&\s*)other\.([a-z_]+)", eb)
        if any(a != b_ for a, b_ in es) or len(es) != len(re.findall(r"==|\.eq\(|\.name_eq\(", eb)):
            raise GenError("%s::eq: unrecognised comparison" % ty)
        # Hash
        hdr = gen + r"Hash\s+for\s+%s<[^>]*>\s*(?:where[^{]*)?\{" % ty
        if re.search(hdr, src, re.S):
            hb = fn_body(impl_after(src, hdr, "Hash for " + ty), "hash")
            hs = re.findall(r"self\.([a-z_]+)(?:\.as_ref\(\)|\.into_int\(\))*\.hash\(state\)", hb)
            if len(hs) != len(re.findall(r"\.hash\(state\)", hb)):
                raise GenError("%s::hash: unrecognised feed" % ty)
        else:
            before = src[max(0, m.start() - 600):m.start()]
            ds = re.findall(r"#\[derive\(([^)]*)\)\]", before)
            if not ds or "Hash" not in [x.strip() for x in ds[-1].split(",")]:
                raise GenError("%s: neither a Hash impl nor derive(Hash)" % ty)
            hs = list(order)   # derive: every field, in declaration order
        # CanonicalOrd and Ord
        rx = re.compile(r"(?:u32::from\()?self\.([a-z_]+)\)?((?:\s*\.into_int\(\)|\s*\.as_ref\(\))*)\s*\.\s*(cmp|canonical_cmp|name_cmp|composed_cmp|lowercase_composed_cmp|partial_cmp|gwcanon)\(\s*&?\s*(?:u32::from\()?(self|other)\.([a-z_]+)")
        lenrx = re.compile(r"match\s+self\.([a-z_]+)\.as_ref\(\)\.len\(\)\.cmp\(\s*&other\.\1\.as_ref\(\)\.len\(\)\s*\)\s*\{\s*Ordering::Equal\s*=>\s*\{\s*\}\s*,?\s*other\s*=>\s*return\s+other\s*,?\s*\}")
        gwrx = re.compile(r"let\s+gateway_cmp\s*=\s*match\s*\(&self\.gateway,\s*&other\.gateway\)\s*\{\s*\(IpseckeyGateway::Name\(n\),\s*IpseckeyGateway::Name\(o\)\)\s*=>\s*\{\s*Some\(n\.composed_cmp\(o\)\)\s*\}\s*\(gateway,\s*other\)\s*=>\s*gateway\.partial_cmp\(other\),?\s*\};\s*match\s+gateway_cmp")
        def chain(body, what):
            body = gwrx.sub("match self.gateway.gwcanon(&other.gateway)", lenrx.sub("", body))
            got = []
            for mm in rx.finditer(body):
                if mm.group(4) != "other" or mm.group(1) != mm.group(5):
                    raise GenError("%s compares self.%s with %s.%s" % (what, mm.group(1), mm.group(4), mm.group(5)))
                got.append((mm.group(1), mm.group(3)))
            return got
        cb = fn_body(impl_after(src, gen + r"CanonicalOrd<%s<[^>]*>>\s*for\s+%s<[^>]*>\s*(?:where[^{]*)?\{" % (ty, ty), "CanonicalOrd for " + ty), "canonical_cmp")
        cs = chain(cb, ty + "::canonical_cmp")
        for (f, meth), k in zip(cs, [kinds[order.index(f)] for f, _ in cs]):
            want = {4: "lowercase_composed_cmp", 5: ("composed_cmp", "gwcanon"), 6: "canonical_cmp", 8: "canonical_cmp", 9: ("canonical_cmp", "cmp"),
                    7: ("cmp", "canonical_cmp"), 10: "gwcanon", 11: "gwcanon"}.get(k, "cmp")
            if meth != want and meth not in (want if isinstance(want, tuple) else ()) and not (k == 3 and meth == "canonical_cmp"):
                raise GenError("%s::canonical_cmp: field %s (kind %d) compared with %s" % (ty, f, k, meth))
        ob = fn_body(impl_after(src, gen + r"Ord\s+for\s+%s<[^>]*>\s*(?:where[^{]*)?\{" % ty, "Ord for " + ty), "cmp")
        if re.search(r"self\.canonical_cmp\(\s*other\s*\)", ob):
            os_ = [f for f, _ in cs]
        else:
            os_ = [f for f, _ in chain(ob, ty + "::cmp")]
        # ---- comparison modes of every step of Ord, PartialOrd and CanonicalOrd:
        # 1 integer order, 2 serial number arithmetic (Serial / Timestamp
        # partial_cmp), 3 name_cmp, 4 lowercase_composed_cmp, 5 composed_cmp,
        # 6 CharStr cmp (lower-cased octets), 7 length first then octets,
        # 8 plain octet order
        ftype = dict(flds)
        def mode(f, meth, raw, what, lenf=False):
            k = kinds[order.index(f)]
            t = ftype[f]
            if k in (1, 2, 3):
                if t in ("Serial", "Timestamp"):
                    if "into_int()" in raw or "u32::from(" in raw or meth == "canonical_cmp":
                        return 1
                    if meth == "partial_cmp":
                        return 2
                    raise GenError("%s: %s of type %s compared with %s" % (what, f, t, meth))
                if meth in ("cmp", "partial_cmp"):
                    return 1
            elif k in (4, 5) and meth in ("name_cmp", "lowercase_composed_cmp", "composed_cmp"):
                return {"name_cmp": 3, "lowercase_composed_cmp": 4, "composed_cmp": 5}[meth]
            elif k == 6:
                return {"cmp": 6, "partial_cmp": 6, "canonical_cmp": 7}.get(meth) or _bad(what, f, meth)
            elif k in (7, 9):
                if meth in ("cmp", "partial_cmp", "canonical_cmp"):
                    return 8
            elif k == 8:
                return {"cmp": 8, "partial_cmp": 8, "canonical_cmp": 7}.get(meth) or _bad(what, f, meth)
            elif k in (10, 11):
                if meth in ("partial_cmp", "gwcanon"):
                    return 8
            elif k == 12:
                if meth in ("cmp", "partial_cmp"):
                    return 1
            elif k == 13:
                if meth in ("cmp", "partial_cmp"):
                    return 7 if lenf else 8
            if k == 5 and meth == "partial_cmp" and t == "IpseckeyGateway<N>":
                return 3          # IpseckeyGateway::partial_cmp: Name arm is name_cmp (anchored above)
            if k == 5 and meth == "gwcanon":
                return 5
            _bad(what, f, meth)
        def _bad(what, f, meth):
            raise GenError("%s: field %s compared with %s" % (what, f, meth))
        def steps(body, what):
            out_ = []
            lenfields = set(lenrx.findall(body))
            body = gwrx.sub("match self.gateway.gwcanon(&other.gateway)", lenrx.sub("", body))
            for mm in rx.finditer(body):
                if mm.group(4) != "other" or mm.group(1) != mm.group(5):
                    raise GenError("%s compares self.%s with %s.%s" % (what, mm.group(1), mm.group(4), mm.group(5)))
                out_.append((order.index(mm.group(1)), mode(mm.group(1), mm.group(3), mm.group(0), what, mm.group(1) in lenfields)))
            if len(out_) != len(re.findall(r"\.(?:cmp|partial_cmp|canonical_cmp|name_cmp|composed_cmp|lowercase_composed_cmp|gwcanon)\(", body)):
                raise GenError("%s: a comparison step was not recognised" % what)
            return out_
        c_steps = steps(cb, ty + "::canonical_cmp")
        o_steps = c_steps if re.search(r"self\.canonical_cmp\(\s*other\s*\)", ob) else steps(ob, ty + "::cmp")
        phdr = gen + r"PartialOrd<%s<[^>]*>>\s*for\s+%s<[^>]*>\s*(?:where[^{]*)?\{" % (ty, ty)
        pb_ = fn_body(impl_after(src, phdr, "PartialOrd for " + ty), "partial_cmp")
        if re.fullmatch(r"\s*Some\(\s*self\.canonical_cmp\(\s*other\s*\)\s*\)\s*", pb_):
            p_steps = c_steps
        elif re.fullmatch(r"\s*Some\(\s*self\.cmp\(\s*other\s*\)\s*\)\s*", pb_):
            p_steps = o_steps
        else:
            p_steps = steps(pb_, ty + "::partial_cmp")
        def plist(st):
            return "[" + "; ".join("(%d, %d)" % x for x in st) + "]%N"
        ord_rows.append("(%d, (%s, %s, %s))" % (code, plist(o_steps), plist(p_steps), plist(c_steps)))
        row = "(%d, (%s, (%s, %s, %s, %s)))" % (code, nlist(kinds), nlist(idx_list([a for a, _ in es], order, ty + "::eq")),
              nlist(idx_list(os_, order, ty + "::cmp")), nlist(idx_list([f for f, _ in cs], order, ty + "::canonical_cmp")),
              nlist(idx_list(hs, order, ty + "::hash")))
        if drop is not None:
            # a variant without that field (IPSECKEY without gateway): remove the index and renumber
            d = order.index(drop)
            fix = lambda l: [i - (1 if i > d else 0) for i in l if i != d]
            fixs = lambda st: [(i - (1 if i > d else 0), md) for i, md in st if i != d]
            ord_rows[-1] = "(%d, (%s, %s, %s))" % (code, plist(fixs(o_steps)), plist(fixs(p_steps)), plist(fixs(c_steps)))
            ks = [k for i, k in enumerate(kinds) if i != d]
            row = "(%d, (%s, (%s, %s, %s, %s)))" % (code, nlist(ks), nlist(fix(idx_list([a for a, _ in es], order, ty))), nlist(fix(idx_list(os_, order, ty))),
                  nlist(fix(idx_list([f for f, _ in cs], order, ty))), nlist(fix(idx_list(hs, order, ty))))
        return row
    ord_rows = []
    rows = [
        type_table("src/rdata/rfc1035/mx.rs", "Mx", 15, [2, 4]),
        type_table("src/rdata/rfc1035/soa.rs", "Soa", 6, [4, 4, 3, 3, 3, 3, 3]),
        type_table("src/rdata/srv.rs", "Srv", 33, [2, 2, 2, 4]),
        type_table("src/rdata/rfc1035/hinfo.rs", "Hinfo", 13, [6, 6]),
        type_table("src/rdata/rfc1035/minfo.rs", "Minfo", 14, [4, 4]),
        type_table("src/rdata/rp.rs", "Rp", 17, [4, 4]),
        type_table("src/rdata/tlsa.rs", "Tlsa", 52, [1, 1, 1, 7]),
        type_table("src/rdata/sshfp.rs", "Sshfp", 44, [1, 1, 7]),
        type_table("src/rdata/zonemd.rs", "Zonemd", 63, [3, 1, 1, 7]),
        type_table("src/rdata/dnssec.rs", "Ds", 43, [2, 1, 1, 7]),
        type_table("src/rdata/cds.rs", "Cds", 59, [2, 1, 1, 7]),
        type_table("src/rdata/dnssec.rs", "Dnskey", 48, [2, 1, 1, 7]),
        type_table("src/rdata/cds.rs", "Cdnskey", 60, [2, 1, 1, 7]),
        type_table("src/rdata/dnssec.rs", "Rrsig", 46, [2, 1, 1, 3, 3, 3, 2, 4, 7]),
        type_table("src/rdata/dnssec.rs", "Nsec", 47, [5, 9]),
        type_table("src/rdata/nsec3.rs", "Nsec3", 50, [1, 1, 2, 8, 8, 9]),
        type_table("src/rdata/nsec3.rs", "Nsec3param", 51, [1, 1, 2, 8]),
        type_table("src/rdata/caa.rs", "Caa", 257, [1, 6, 7]),
        type_table("src/rdata/naptr.rs", "Naptr", 35, [2, 2, 6, 6, 6, 4]),
        type_table("src/rdata/tsig.rs", "Tsig", 250, [5, 12, 2, 13, 2, 2, 13]),
        type_table("src/rdata/svcb/rdata.rs", "SvcbRdata", 64, [2, 5, 7], skip=("marker",)),
        type_table("src/rdata/svcb/rdata.rs", "SvcbRdata", 65, [2, 5, 7], skip=("marker",)),
        # IPSECKEY by gateway variant: pseudo codes 45000 + gateway type
        type_table("src/rdata/ipseckey.rs", "Ipseckey", 45000, [1, 1, 1, 5, 7], drop="gateway"),
        type_table("src/rdata/ipseckey.rs", "Ipseckey", 45001, [1, 1, 1, 10, 7]),
        type_table("src/rdata/ipseckey.rs", "Ipseckey", 45002, [1, 1, 1, 11, 7]),
        type_table("src/rdata/ipseckey.rs", "Ipseckey", 45003, [1, 1, 1, 5, 7]),
    ]
    # single-field types: A / AAAA (all traits derived or `self.cmp(other)`, anchored above), TXT, OPT
    def single(code, kind):
        rows.append("(%d, ([%d]%%N, ([0]%%N, [0]%%N, [0]%%N, [0]%%N)))" % (code, kind))
        ord_rows.append("(%d, ([(0, 8)]%%N, [(0, 8)]%%N, [(0, 8)]%%N))" % code)
    single(1, 10); single(28, 11)
    txs = strip_comments(read("src/rdata/rfc1035/txt.rs"))
    for tr, meth in (("PartialEq<Txt<Other>>", "eq"), ("PartialOrd<Txt<Other>>", "partial_cmp")):
        one(r"^\s*self\.0\.as_ref\(\)\.%s\(\s*other\.0\.as_ref\(\)\s*\)\s*$" % meth, fn_body(impl_after(txs, r"impl<Octs,\s*Other>\s*%s\s*for\s+Txt<Octs>\s*where[^{]*\{" % re.escape(tr), tr + " for Txt"), meth), "Txt::" + meth)
    one(r"^\s*self\.0\.as_ref\(\)\.cmp\(\s*other\.0\.as_ref\(\)\s*\)\s*$", fn_body(impl_after(txs, r"impl<Octs:\s*AsRef<\[u8\]>>\s*Ord\s+for\s+Txt<Octs>\s*\{", "Ord for Txt"), "cmp"), "Txt::cmp")
    single(16, 7)
    ops_ = strip_comments(read("src/base/opt/mod.rs"))
    for tr, meth in (("PartialEq<Opt<Other>>", "eq"), ("PartialOrd<Opt<Other>>", "partial_cmp")):
        one(r"^\s*self\.octets\.as_ref\(\)\.%s\(\s*other\.octets\.as_ref\(\)\s*\)\s*$" % meth, fn_body(impl_after(ops_, r"impl<Octs,\s*Other>\s*%s\s*for\s+Opt<Octs>\s*where[^{]*\{" % re.escape(tr), tr + " for Opt"), meth), "Opt::" + meth)
    one(r"^\s*self\.octets\.as_ref\(\)\.cmp\(\s*other\.octets\.as_ref\(\)\s*\)\s*$", fn_body(impl_after(ops_, r"impl<Octs:\s*AsRef<\[u8\]>\s*\+\s*\?Sized>\s*Ord\s+for\s+Opt<Octs>\s*\{", "Ord for Opt"), "cmp"), "Opt::cmp")
    single(41, 7)
    defs.append(("rd_table", "list (N * (list N * (list N * list N * list N * list N)))", "[" + "; ".join(rows) + "]%N"))
    defs.append(("rd_ord_table", "list (N * (list (N * N) * list (N * N) * list (N * N)))", "[" + "; ".join(ord_rows) + "]%N"))
    # the inner types the modes rely on
    for ty in ("Nsec3Salt", "OwnerHash"):
        for tr, meth in (("PartialOrd<U>", "partial_cmp"), ("Ord", "cmp")):
            hdr_ = (r"impl<T,\s*U>\s*PartialOrd<U>\s*for\s+%s<T>\s*where[^{]*\{" % ty) if tr.startswith("Partial") else (r"impl<T:\s*AsRef<\[u8\]>\s*\+\s*\?Sized>\s*Ord\s+for\s+%s<T>\s*\{" % ty)
            one(r"^\s*self\.0\.as_ref\(\)\.%s\(\s*other(?:\.0)?\.as_ref\(\)\s*\)\s*$" % meth, fn_body(impl_after(n3, hdr_, "%s for %s" % (tr, ty)), meth), "%s::%s is plain octet order" % (ty, meth))
    ca = strip_comments(read("src/rdata/caa.rs"))
    one(r"^\s*self\.0\.cmp\(\s*&other\.0\s*\)\s*$", fn_body(impl_after(ca, r"impl<O:\s*AsRef<\[u8\]>>\s*Ord\s+for\s+CaaTag<O>\s*\{", "Ord for CaaTag"), "cmp"), "CaaTag::cmp is CharStr::cmp")
    one(r"^\s*self\.0\.partial_cmp\(\s*&other\.0\s*\)\s*$", fn_body(impl_after(ca, r"impl<Octs,\s*OtherOcts>\s*PartialOrd<CaaTag<OtherOcts>>\s*for\s+CaaTag<Octs>\s*where[^{]*\{", "PartialOrd for CaaTag"), "partial_cmp"), "CaaTag::partial_cmp is CharStr::partial_cmp")
    for tr, meth in (("PartialOrd", "partial_cmp"), ("Ord", "cmp"), ("CanonicalOrd", "canonical_cmp")):
        hdr_ = r"impl<O:\s*AsRef<\[u8\]>>\s*Ord\s+for\s+RtypeBitmap<O>\s*\{" if tr == "Ord" else r"impl<O,\s*OO>\s*%s<RtypeBitmap<OO>>\s*for\s+RtypeBitmap<O>\s*where[^{]*\{" % tr
        m2 = "cmp" if tr == "CanonicalOrd" else meth
        one(r"^\s*self\.0\.as_ref\(\)\.%s\(\s*other\.0\.as_ref\(\)\s*\)\s*$" % m2, fn_body(impl_after(dn, hdr_, "%s for RtypeBitmap" % tr), meth), "RtypeBitmap::%s is octet order" % meth)
    cpo = fn_body(impl_after(cs, r"impl<T,\s*U>\s*PartialOrd<U>\s*for\s+CharStr<T>\s*where[^{]*\{", "PartialOrd for CharStr"), "partial_cmp")
    one(r"\.map\(u8::to_ascii_lowercase\)\s*\.partial_cmp\(\s*other\.as_ref\(\)\.iter\(\)\.map\(u8::to_ascii_lowercase\)\s*\)", cpo, "CharStr::partial_cmp lower-cases both sides")
    defs.append(("ord_inner_types_ok", "bool", "true"))
    # PartialOrd against Ord where they are written separately and Ord is the
    # canonical order: serial number arithmetic / plain octet order of
    # length-prefixed pieces / name order in partial_cmp would disagree with cmp
    zm = strip_comments(read("src/rdata/zonemd.rs"))
    pb = fn_body(impl_after(zm, r"impl<Octs,\s*Other>\s*PartialOrd<Zonemd<Other>>\s*for\s+Zonemd<Octs>\s*where[^{]*\{", "PartialOrd for Zonemd"), "partial_cmp")
    m = one(r"match\s+self\.serial(\.into_int\(\))?\.partial_cmp\(\s*&other\.serial(\.into_int\(\))?\s*\)", pb, "Zonemd::partial_cmp serial step")
    if (m.group(1) is None) != (m.group(2) is None):
        raise GenError("Zonemd::partial_cmp compares a Serial with an integer")
    defs.append(("zonemd_partial_serial_arith", "bool", bool_(m.group(1) is None)))
    pb = fn_body(impl_after(dn, r"impl<N,\s*NN,\s*O,\s*OO>\s*PartialOrd<Rrsig<OO,\s*NN>>\s*for\s+Rrsig<O,\s*N>\s*where[^{]*\{", "PartialOrd for Rrsig"), "partial_cmp")
    if re.fullmatch(r"\s*Some\(\s*self\.canonical_cmp\(\s*other\s*\)\s*\)\s*", pb):
        defs.append(("rrsig_partial_serial_arith", "bool", "false"))
    else:
        one(r"match\s+self\.expiration\.partial_cmp\(\s*&other\.expiration\s*\)", pb, "Rrsig::partial_cmp expiration step")
        one(r"match\s+self\.inception\.partial_cmp\(\s*&other\.inception\s*\)", pb, "Rrsig::partial_cmp inception step")
        defs.append(("rrsig_partial_serial_arith", "bool", "true"))
    ob = fn_body(impl_after(dn, r"impl<O:\s*AsRef<\[u8\]>,\s*N:\s*ToName>\s*Ord\s+for\s+Rrsig<O,\s*N>\s*\{", "Ord for Rrsig"), "cmp")
    one(r"^\s*self\.canonical_cmp\(\s*other\s*\)\s*$", ob, "Rrsig::cmp is canonical_cmp")
    pb = fn_body(impl_after(n3, r"impl<Octs,\s*Other>\s*PartialOrd<Nsec3<Other>>\s*for\s+Nsec3<Octs>\s*where[^{]*\{", "PartialOrd for Nsec3"), "partial_cmp")
    if re.fullmatch(r"\s*Some\(\s*self\.canonical_cmp\(\s*other\s*\)\s*\)\s*", pb):
        defs.append(("nsec3_partial_len_first", "bool", "true"))
    else:
        one(r"match\s+self\.salt\.partial_cmp\(\s*&other\.salt\s*\)", pb, "Nsec3::partial_cmp salt step")
        sp = fn_body(impl_after(n3, r"impl<T,\s*U>\s*PartialOrd<U>\s*for\s+Nsec3Salt<T>\s*where[^{]*\{", "PartialOrd for Nsec3Salt"), "partial_cmp")
        one(r"^\s*self\.0\.as_ref\(\)\.partial_cmp\(\s*other\.as_ref\(\)\s*\)\s*$", sp, "Nsec3Salt::partial_cmp is plain octet order")
        defs.append(("nsec3_partial_len_first", "bool", "false"))
    ob = fn_body(impl_after(n3, r"impl<Octs:\s*AsRef<\[u8\]>>\s*Ord\s+for\s+Nsec3<Octs>\s*\{", "Ord for Nsec3"), "cmp")
    one(r"^\s*self\.canonical_cmp\(\s*other\s*\)\s*$", ob, "Nsec3::cmp is canonical_cmp")
    # Hash of the types outside rd_table: every struct field, in declaration order
    def hash_all(rel, ty, code, skip=()):
        src = strip_comments(read(rel))
        m_ = one(r"pub\s+struct\s+%s<[^{]*\{" % ty, src, "struct %s" % ty)
        body = strip_attrs(block_from(src, m_.end() - 1))
        order = [f for f, _ in re.findall(r"(?:pub(?:\([a-z]+\))?\s+)?([a-z_][a-z_0-9]*)\s*:\s*([^,\n]+?)\s*,", body) if f not in skip]
        hb = fn_body(impl_after(src, r"impl<[^{;]*?>\s*(?:[a-z]+::)?Hash\s+for\s+%s<[^>]*>\s*(?:where[^{]*)?\{" % ty, "Hash for " + ty), "hash")
        hs = re.findall(r"self\.([a-z_]+)(?:\.as_ref\(\)|\.into_int\(\))*\.hash\(state\)", hb)
        if len(hs) != len(re.findall(r"\.hash\(state\)", hb)):
            raise GenError("%s::hash: unrecognised feed" % ty)
        return "(%d, (%d, %s))" % (code, len(order), nlist(idx_list(hs, order, ty + "::hash")))
    extra = [hash_all("src/rdata/tsig.rs", "Tsig", 250), hash_all("src/rdata/svcb/rdata.rs", "SvcbRdata", 64, skip=("marker",)),
             hash_all("src/rdata/ipseckey.rs", "Ipseckey", 45)]
    one(r"^\s*self\.octets\.as_ref\(\)\.hash\(state\)\s*$", fn_body(impl_after(op, r"impl<Octs:\s*AsRef<\[u8\]>\s*\+\s*\?Sized>\s*hash::Hash\s+for\s+Opt<Octs>\s*\{", "Hash for Opt"), "hash"), "Opt::hash")
    extra.append("(41, (1, [0]%N))")
    defs.append(("rd_extra_hash", "list (N * (N * list N))", "[" + "; ".join(extra) + "]%N"))
    tx = strip_comments(read("src/rdata/rfc1035/txt.rs"))
    one(r"^\s*self\.0\.as_ref\(\)\.hash\(state\)\s*$", fn_body(impl_after(tx, r"impl<Octs:\s*AsRef<\[u8\]>>\s*hash::Hash\s+for\s+Txt<Octs>\s*\{", "Hash for Txt"), "hash"), "Txt::hash")
    b = impl_after(tx, r"impl<Octs,\s*Other>\s*CanonicalOrd<Txt<Other>>\s*for\s+Txt<Octs>\s*where[^{]*\{", "Txt::canonical_cmp")
    one(r"self\.0\.as_ref\(\)\.cmp\(\s*other\.0\.as_ref\(\)\s*\)", b, "Txt::canonical_cmp is wire octets order")
    defs.append(("txt_canonical_is_wire_cmp", "bool", "true"))
    for rel, ty in (("src/rdata/rfc1035/a.rs", "A"), ("src/rdata/aaaa.rs", "Aaaa")):
        s = strip_comments(read(rel))
        b = impl_after(s, r"impl\s+CanonicalOrd\s+for\s+%s\s*\{" % ty, "%s::canonical_cmp" % ty)
        one(r"self\.cmp\(\s*other\s*\)|self\.addr\.octets\(\)\.cmp\(\s*&other\.addr\.octets\(\)\s*\)|self\.addr\.cmp\(\s*&other\.addr\s*\)", b, "%s::canonical_cmp" % ty)
    defs.append(("addr_canonical_is_addr_cmp", "bool", "true"))
    return defs


if __name__ == "__main__":
    main("C04", "/repo/src/base/name/{label,traits,absolute,relative,parsed,chain}.rs, base/charstr.rs, base/record.rs, rdata/{rfc1035,dnssec,srv,aaaa}", build)
