#!/usr/bin/env python3
"""T1 extractor for C08: record-type / rcode constants, the wildcard label, the
NodeAnswer constructor table (rcode, add_soa, authoritative), and the shape of
the branches the model transcribes (read.rs, write.rs, builder.rs, update.rs,
parsed.rs)."""
import re, sys, os
sys.path.insert(0, os.path.dirname(os.path.abspath(__file__)))
from rs import *

def b(x):
    return "true" if x else "false"

def build():
    defs = []
    # ---- record types
    rt = strip_comments(read("src/base/iana/rtype.rs"))
    vals = {}
    for nm in ("A", "NS", "CNAME", "SOA", "AAAA", "DS", "ANY"):
        m = one(r"\(\s*%s\s*=>\s*(\d+)\s*,\s*\"%s\"\s*\)" % (nm, nm), rt, "Rtype::%s" % nm)
        vals[nm] = num(m.group(1))
        defs.append(("rt_%s" % nm.lower(), "N", "%d%%N" % vals[nm]))
    g = fn_body(rt, "is_glue")
    m = one(r"^\s*matches!\(\s*\*self\s*,\s*((?:Rtype::\w+\s*\|?\s*)+)\)\s*$", g, "Rtype::is_glue")
    glue = [x.strip().replace("Rtype::", "") for x in m.group(1).split("|")]
    for x in glue:
        if x not in vals:
            raise GenError("is_glue names a type the model does not know: %s" % x)
    defs.append(("glue_types", "list N", "[" + "; ".join("%d%%N" % vals[x] for x in glue) + "]"))
    # ---- rcodes
    rc = strip_comments(read("src/base/iana/rcode.rs"))
    for nm in ("NOERROR", "NXDOMAIN"):
        m = one(r"impl Rcode \{.*?pub const %s: Self = Self\((\d+)\);" % nm, rc, "Rcode::%s" % nm)
        vals[nm] = num(m.group(1))
        defs.append(("rc_%s" % nm.lower(), "N", "%d%%N" % vals[nm]))
    # ---- wildcard label: encoded as 1 followed by its octets in base 256
    lb = strip_comments(read("src/base/name/label.rs"))
    w = fn_body(lb, "wildcard")
    m = one(r"from_slice_unchecked\(\s*b\"([^\"]*)\"\s*\)", w, "Label::wildcard")
    enc = 1
    for ch in m.group(1).encode():
        enc = enc * 256 + ch
    defs.append(("wild_label", "N", "%d%%N" % enc))
    # ---- read.rs
    rd = strip_comments(read("src/zonetree/in_memory/read.rs"))
    na = impl_body(rd, r"impl NodeAnswer\s*\{")
    for ctor, how in (("data", r"Answer::new\(Rcode::(\w+)\)"), ("no_data", r"Answer::new\(Rcode::(\w+)\)"),
                      ("cname", r"Answer::new\(Rcode::(\w+)\)"), ("nx_domain", r"Answer::new\(Rcode::(\w+)\)"),
                      ("authority", r"Answer::with_authority\(Rcode::(\w+)\s*,")):
        body = fn_body(na, ctor)
        m = one(how, body, "NodeAnswer::%s rcode" % ctor)
        if m.group(1) not in vals:
            raise GenError("NodeAnswer::%s uses rcode %s" % (ctor, m.group(1)))
        s = one(r"add_soa:\s*(true|false)\s*,", body, "NodeAnswer::%s add_soa" % ctor).group(1)
        au = one(r"authoritative:\s*(true|false)\s*,", body, "NodeAnswer::%s authoritative" % ctor).group(1)
        defs.append(("na_%s" % ctor, "N * bool * bool", "(%d%%N, %s, %s)" % (vals[m.group(1)], s, au)))
    one(r"answer\.add_answer\(rrset\)", fn_body(na, "data"), "NodeAnswer::data content")
    one(r"answer\.add_cname\(rr\)", fn_body(na, "cname"), "NodeAnswer::cname content")
    one(r"answer\.set_additional\(additional\)", fn_body(na, "authority"), "NodeAnswer::authority additional")
    ia = fn_body(na, "into_answer")
    one(r"^\s*if\s+self\.add_soa\s*\{\s*if\s+let\s+Some\(soa\)\s*=\s*zone\.apex\.get_soa\(zone\.version\)\s*\{\s*self\.answer\.set_authority\(AnswerAuthority::new\(\s*zone\.apex\.name\(\)\.clone\(\)\s*,\s*Some\(soa\)\s*,\s*None\s*,\s*None\s*,?\s*\)\)\s*\}\s*\}\s*self\.answer\.set_authoritative\(self\.authoritative\);\s*self\.answer\s*$", ia, "NodeAnswer::into_answer")
    defs.append(("soa_added_when_flag_and_present", "bool", "true"))
    qr = fn_body(rd, "query_rrsets")
    m = one(r"else\s+if\s+qtype\s*==\s*Rtype::(\w+)\s*\{", qr, "query_rrsets ANY test")
    defs.append(("any_type", "N", "%d%%N" % vals[m.group(1)]))
    one(r"\.iter\(\)\s*\.find_map\(\|\(_rtype,\s*rrset\)\|\s*rrset\.get\(self\.version\)\)\s*\.map\(\|rrset\|\s*NodeAnswer::data\(rrset\.clone\(\)\)\)\s*\.unwrap_or_else\(NodeAnswer::no_data\)", qr, "query_rrsets ANY picks the first live RRset")
    defs.append(("any_first_live", "bool", "true"))
    one(r"match\s+rrsets\.get\(qtype,\s*self\.version\)\s*\{\s*Some\(rrset\)\s*=>\s*NodeAnswer::data\(rrset\)\s*,\s*None\s*=>\s*NodeAnswer::no_data\(\)\s*,?\s*\}", qr, "query_rrsets by type")
    qc = fn_body(rd, "query_at_cut")
    m = one(r"match\s+qtype\s*\{\s*Rtype::(\w+)\s*=>\s*\{\s*if\s+let\s+Some\(rrset\)\s*=\s*cut\.ds\.as_ref\(\)\s*\{\s*NodeAnswer::data\(rrset\.clone\(\)\)\s*\}\s*else\s*\{\s*NodeAnswer::no_data\(\)\s*\}\s*\}\s*_\s*=>\s*NodeAnswer::authority\(", qc, "query_at_cut")
    defs.append(("cut_answers_type", "N", "%d%%N" % vals[m.group(1)]))
    one(r"AnswerAuthority::new\(\s*cut\.name\.clone\(\)\s*,\s*None\s*,\s*Some\(cut\.ns\.clone\(\)\)\s*,\s*cut\.ds\.as_ref\(\)\.cloned\(\)\s*,?\s*\)\s*,\s*AnswerAdditional::new\(cut\.glue\.clone\(\)\)", qc, "query_at_cut referral")
    hb = fn_body(rd, "query_node_here_but_not_below")
    one(r"Some\(Special::Cut\(cut\)\)\s*=>\s*self\.query_at_cut\(cut,\s*qtype\)\s*,\s*Some\(Special::Cname\(cname\)\)\s*=>\s*NodeAnswer::cname\(cname\.clone\(\)\)\s*,\s*Some\(Special::NxDomain\)\s*\|\s*None\s*=>\s*\{\s*self\.query_rrsets\(node\.rrsets\(\),\s*qtype,\s*walk\)\s*\}", hb, "query_node_here_but_not_below arms")
    defs.append(("marker_answers_like_unmarked", "bool", "true"))
    ha = fn_body(rd, "query_node_here_and_below")
    one(r"Some\(Special::NxDomain\)\s*\|\s*None\s*=>\s*self\.query_children\(", ha, "here_and_below: marked and unmarked nodes descend")
    if len(re.findall(r"Special::NxDomain", ha)) != 1:
        raise GenError("here_and_below mentions the NxDomain marker elsewhere")
    defs.append(("marker_descends_like_unmarked", "bool", "true"))
    one(r"Some\(Special::Cname\(cname\)\)\s*=>\s*\{\s*if\s+walk\.enabled\(\)\s*\{.*?\}\s*self\.query_children\(", ha, "here_and_below Cname arm descends")
    one(r"Some\(Special::Cut\(cut\)\)\s*=>\s*\{\s*if\s+walk\.enabled\(\)\s*\{.*?\}\s*else\s*\{\s*NodeAnswer::authority\(", ha, "here_and_below Cut arm refers")
    # walk mode
    one(r"Some\(Special::Cut\(cut\)\)\s*=>\s*\{\s*if\s+walk\.enabled\(\)\s*\{\s*walk\.op\(&cut\.ns,\s*true\);\s*if\s+let\s+Some\(ds\)\s*=\s*&cut\.ds\s*\{\s*walk\.op\(ds,\s*true\);\s*\}\s*for\s+glue_rec\s+in\s+&cut\.glue\s*\{\s*walk\.op_glue_rec\(glue_rec\);\s*\}\s*NodeAnswer::no_data\(\)\s*\}", ha, "walk at a cut: NS, DS, glue, no descent")
    one(r"if\s+walk\.enabled\(\)\s*\{\s*let\s+mut\s+rrset\s*=\s*Rrset::new\(Rtype::CNAME,\s*cname\.ttl\(\)\);\s*rrset\.push_data\(cname\.data\(\)\.clone\(\)\);\s*walk\.op\(&SharedRrset::new\(rrset\),\s*false\);\s*\}", ha, "walk at a CNAME")
    one(r"if\s+walk\.enabled\(\)\s*\{\s*self\.query_rrsets\(node\.rrsets\(\),\s*qtype,\s*walk\.clone\(\)\);\s*self\.query_node_here_and_below\(\s*node,\s*Label::root\(\),\s*qname,\s*qtype,\s*walk,?\s*\)\s*\}", fn_body(rd, "query_node"), "query_node in walk mode")
    one(r"if\s+walk\.enabled\(\)\s*\{\s*let\s+guard\s*=\s*rrsets\.iter\(\);\s*for\s+\(_rtype,\s*rrset\)\s+in\s+guard\.iter\(\)\s*\{\s*if\s+let\s+Some\(shared_rrset\)\s*=\s*rrset\.get\(self\.version\)\s*\{\s*walk\.op\(shared_rrset,\s*false\);\s*\}\s*\}\s*NodeAnswer::no_data\(\)\s*\}", fn_body(rd, "query_rrsets"), "query_rrsets in walk mode")
    wk = fn_body(rd, "walk", after="impl ReadableZone for ReadZone")
    one(r"self\.query_rrsets\(self\.apex\.rrsets\(\),\s*Rtype::ANY,\s*walk\.clone\(\)\);\s*self\.query_below_apex\(Label::root\(\),\s*iter::empty\(\),\s*Rtype::ANY,\s*walk\);\s*$", wk, "ReadZone::walk")
    ws = strip_comments(read("src/zonetree/walk.rs"))
    one(r"let\s+owner\s*=\s*rec\.owner\(\)\.to_owned\(\);\s*let\s+rrset:\s*Rrset\s*=\s*rec\.clone\(\)\.into\(\);\s*let\s+rrset\s*=\s*SharedRrset::new\(rrset\);\s*\(inner\.op\)\(owner,\s*&rrset,\s*true\);", fn_body(ws, "op_glue_rec"), "WalkState::op_glue_rec")
    one(r"for\s+label\s+in\s+labels\.iter\(\)\.rev\(\)\s*\{\s*dname\.append_label\(label\.as_slice\(\)\)\.unwrap\(\);\s*\}\s*let\s+owner\s*=\s*dname\.append_origin\(&inner\.apex_name\)\.unwrap\(\);\s*\(inner\.op\)\(owner,\s*rrset,\s*at_zone_cut\);", fn_body(ws, "op"), "WalkState::op owner from the label stack")
    defs.append(("walk_cut_reports_ns_ds_glue_no_descent", "bool", "true"))
    ch = fn_body(rd, "query_children")
    one(r"if\s+walk\.enabled\(\)\s*\{\s*children\.walk\(walk,\s*\|walk,\s*\(label,\s*node\)\|\s*\{\s*walk\.push\(\*label\);\s*self\.query_node\(\s*node,\s*core::iter::empty\(\),\s*qtype,\s*walk\.clone\(\),?\s*\);\s*walk\.pop\(\);\s*\}\);\s*return\s+NodeAnswer::no_data\(\);\s*\}", ch, "query_children in walk mode visits every child")
    one(r"let\s+answer\s*=\s*children\.with\(label,\s*\|node\|\s*\{\s*node\.filter\(\|node\|\s*node\.exists\(self\.version\)\)\s*\.map\(\|node\|\s*self\.query_node\(node,\s*qname,\s*qtype,\s*walk\.clone\(\)\)\)\s*\}\);\s*if\s+let\s+Some\(answer\)\s*=\s*answer\s*\{\s*return\s+answer;\s*\}\s*children\.with\(Label::wildcard\(\),\s*\|node\|\s*\{\s*match\s+node\.filter\(\|node\|\s*node\.exists\(self\.version\)\)\s*\{\s*Some\(node\)\s*=>\s*\{\s*self\.query_node_here_but_not_below\(node,\s*qtype,\s*walk\)\s*\}\s*None\s*=>\s*NodeAnswer::nx_domain\(\)\s*,\s*\}\s*\}\)", ch, "query_children: existing exact child, else existing wildcard child, else NXDOMAIN")
    defs.append(("children_exact_then_wildcard", "bool", "true"))
    defs.append(("children_filtered_by_exists", "bool", "true"))
    qn = fn_body(rd, "query_node")
    one(r"else\s+if\s+let\s+Some\(label\)\s*=\s*qname\.next\(\)\s*\{\s*self\.query_node_here_and_below\(node,\s*label,\s*qname,\s*qtype,\s*walk\)\s*\}\s*else\s*\{\s*self\.query_node_here_but_not_below\(node,\s*qtype,\s*walk\)\s*\}", qn, "query_node")
    q = fn_body(rd, "query", after="impl ReadableZone for ReadZone")
    one(r"let\s+answer\s*=\s*if\s+let\s+Some\(label\)\s*=\s*qname\.next\(\)\s*\{\s*self\.query_below_apex\(label,\s*qname,\s*qtype,\s*WalkState::DISABLED\)\s*\}\s*else\s*\{\s*self\.query_rrsets\(self\.apex\.rrsets\(\),\s*qtype,\s*WalkState::DISABLED\)\s*\}\s*;\s*Ok\(answer\.into_answer\(self\)\)", q, "ReadZone::query")
    nd = strip_comments(read("src/zonetree/in_memory/nodes.rs"))
    gs = fn_body(nd, "get_soa")
    m = one(r"\.get\(Rtype::(\w+),\s*version\)\s*\.and_then\(\|rrset\|\s*rrset\.first\(\)\)", gs, "ZoneApex::get_soa")
    defs.append(("soa_type", "N", "%d%%N" % vals[m.group(1)]))
    up = fn_body(nd, "update", after="impl NodeRrsets")
    one(r"if\s+rrset\.is_empty\(\)\s*\{\s*self\.remove_rtype\(rrset\.rtype\(\),\s*version\);\s*\}\s*else\s*\{", up, "NodeRrsets::update removes on empty")
    defs.append(("empty_rrset_update_removes", "bool", "true"))
    ex = fn_body(nd, "exists", after="impl ZoneNode")
    one(r"^\s*!self\.rrsets\.is_empty\(version\)\s*\|\|\s*self\.with_special\(version,\s*\|special\|\s*\{\s*matches!\(\s*special,\s*Some\(Special::Cut\(_\)\)\s*\|\s*Some\(Special::Cname\(_\)\)\s*\)\s*\}\)\s*\|\|\s*self\.children\.any_exists\(version\)\s*$", ex, "ZoneNode::exists")
    one(r"^\s*self\.children\s*\.read\(\)\s*\.values\(\)\s*\.any\(\|item\|\s*item\.exists\(version\)\)\s*$", fn_body(nd, "any_exists"), "NodeChildren::any_exists")
    defs.append(("exists_is_own_data_or_special_or_child", "bool", "true"))
    ra = fn_body(nd, "remove_all", after="impl ZoneNode")
    one(r"^\s*self\.rrsets\.remove_all\(version\);\s*self\.special\.write\(\)\.remove\(version\);\s*self\.children\.remove_all\(version\);\s*$", ra, "ZoneNode::remove_all")
    # ---- write.rs
    wr = strip_comments(read("src/zonetree/in_memory/write.rs"))
    wn = impl_body(wr, r"impl WriteNode\s*\{")
    uc = fn_body(wn, "update_child")
    one(r"if\s+created\s*\{\s*node\.make_regular\(\)\?;\s*\}", uc, "update_child marks created nodes regular")
    mr = fn_body(wn, "make_regular")
    one(r"^\s*if\s+let\s+Either::Right\(ref\s+node\)\s*=\s*self\.node\s*\{\s*node\.update_special\(self\.zone\.new_version,\s*None\);\s*self\.check_nx_domain\(\)\?;\s*\}\s*Ok\(\(\)\)\s*$", mr, "make_regular")
    cn = fn_body(wn, "check_nx_domain")
    m1 = one(r"Some\(Special::NxDomain\)\s*=>\s*\{\s*if\s+(!?)node\.rrsets\(\)\.is_empty\(self\.zone\.new_version\)\s*\{\s*Some\((true|false)\)\s*\}\s*else\s*\{\s*None\s*\}\s*\}", cn, "check_nx_domain NxDomain arm")
    m2 = one(r"None\s*=>\s*\{\s*if\s+(!?)node\.rrsets\(\)\.is_empty\(self\.zone\.new_version\)\s*\{\s*Some\((true|false)\)\s*\}\s*else\s*\{\s*None\s*\}\s*\}\s*_\s*=>\s*None\s*,", cn, "check_nx_domain None arm")
    one(r"if\s+new_nxdomain\s*\{\s*node\.update_special\(\s*self\.zone\.new_version,\s*Some\(Special::NxDomain\),?\s*\);\s*\}\s*else\s*\{\s*node\.update_special\(self\.zone\.new_version,\s*None\);\s*\}", cn, "check_nx_domain effect")
    one(r"Either::Left\(_\)\s*=>\s*return\s+Ok\(\(\)\)", cn, "check_nx_domain skips the apex")
    # marked & (nonempty xor negation) -> clear ; unmarked & empty -> mark
    defs.append(("nx_marked_clears_when_nonempty", "bool", b(m1.group(1) == "!" and m1.group(2) == "false")))
    defs.append(("nx_unmarked_sets_when_empty", "bool", b(m2.group(1) == "" and m2.group(2) == "true")))
    ur = fn_body(wn, "update_rrset")
    one(r"rrsets\.update\(new_rrset,\s*self\.zone\.new_version\);\s*self\.check_nx_domain\(\)\?;\s*Ok\(\(\)\)\s*$", ur, "update_rrset tail")
    rr = fn_body(wn, "remove_rrset")
    one(r"rrsets\.remove_rtype\(rtype,\s*self\.zone\.new_version\);\s*self\.check_nx_domain\(\)\?;", rr, "remove_rrset tail")
    for f, sp in (("make_zone_cut", r"Some\(Special::Cut\(cut\)\)"), ("make_cname", r"Some\(Special::Cname\(cname\)\)")):
        body = fn_body(wn, f)
        one(r"Either::Left\(_\)\s*=>\s*Err\(WriteApexError::NotAllowed\)\s*,\s*Either::Right\(ref\s+node\)\s*=>\s*\{\s*node\.update_special\(\s*self\.zone\.new_version,\s*%s,?\s*\);\s*Ok\(\(\)\)\s*\}" % sp, body, f)
    defs.append(("write_special_ops_do_not_touch_marker_check", "bool", "true"))
    # ---- builder.rs
    bd = strip_comments(read("src/zonetree/in_memory/builder.rs"))
    one(r"node\.update_special\(Version::default\(\),\s*Some\(Special::Cut\(cut\)\)\);", fn_body(bd, "insert_zone_cut"), "insert_zone_cut")
    one(r"let\s+cut\s*=\s*ZoneCut\s*\{\s*name:\s*name\.to_bytes\(\)\s*,\s*ns\s*,\s*ds\s*,\s*glue\s*,\s*\}", fn_body(bd, "insert_zone_cut"), "insert_zone_cut cut name")
    one(r"node\.update_special\(Version::default\(\),\s*Some\(Special::Cname\(cname\)\)\);", fn_body(bd, "insert_cname"), "insert_cname")
    one(r"Ok\(node\)\s*=>\s*node\.rrsets\(\)\.update\(rrset,\s*Version::default\(\)\)\s*,\s*Err\(apex\)\s*=>\s*apex\.rrsets\(\)\.update\(rrset,\s*Version::default\(\)\)", fn_body(bd, "insert_rrset"), "insert_rrset")
    defs.append(("builder_never_marks_nxdomain", "bool", b("NxDomain" not in bd)))
    # ---- update.rs
    us = strip_comments(read("src/zonetree/update.rs"))
    ad = fn_body(us, "add_record_to_rrset")
    one(r"let\s+mut\s+rrset\s*=\s*Rrset::new\(rec\.rtype\(\),\s*rec\.ttl\(\)\);", ad, "add_record ttl")
    one(r"rrset\.push_data\(data\);\s*if\s+let\s+Some\(existing_rrset\)\s*=\s*tree_node\.get_rrset\(rtype\)\.await\?\s*\{\s*for\s+existing_data\s+in\s+existing_rrset\.data\(\)\s*\{\s*rrset\.push_data\(existing_data\.clone\(\)\);\s*\}\s*\}\s*tree_node\.update_rrset\(SharedRrset::new\(rrset\)\)\.await\?;", ad, "add_record: new record first, then the existing ones, update_rrset")
    de = fn_body(us, "delete_record_from_rrset")
    one(r"if\s+existing_data\s*!=\s*data\s*\{\s*rrset\.push_data\(existing_data\.clone\(\)\);\s*\}", de, "delete_record filter")
    one(r"if\s+rrset\.is_empty\(\)\s*\{\s*tree_node\.remove_rrset\(rrset\.rtype\(\)\)\.await\?;\s*\}\s*else\s*\{\s*tree_node\.update_rrset\(SharedRrset::new\(rrset\)\)\.await\?;\s*\}", de, "delete_record tail")
    defs.append(("updater_stores_plain_rrsets_only", "bool", b("make_zone_cut" not in us.split("mod tests")[0] and "make_cname" not in us.split("mod tests")[0])))
    ap = fn_body(us, "apply")
    one(r"ZoneUpdate::BeginBatchDelete\(old_soa\)\s*=>\s*\{\s*self\.check_soa_serial\(&old_soa\)\.await\?;\s*let\s+diff\s*=\s*self\.write\.commit\(\)\.await\?;\s*self\.write\.reopen\(\)\.await\?;", ap, "BeginBatchDelete: serial check, then commit and reopen")
    cs = fn_body(us, "check_soa_serial")
    one(r"let\s+ZoneRecordData::Soa\(soa\)\s*=\s*soa\.data\(\)\s*else\s*\{\s*return\s+Err\(Error::NotSoaRecord\);\s*\};\s*let\s+zone_soa\s*=\s*self\.write\.root\(\)\.get_rrset\(Rtype::SOA\)\.await\?;\s*let\s+zone_serial\s*=\s*zone_soa\.as_ref\(\)\.and_then\(\|rrset\|\s*\{\s*match\s+rrset\.data\(\)\.first\(\)\s*\{\s*Some\(ZoneRecordData::Soa\(zone_soa\)\)\s*=>\s*\{\s*Some\(zone_soa\.serial\(\)\)\s*\}\s*_\s*=>\s*None\s*,\s*\}\s*\}\);\s*if\s+zone_serial\s*(!=|==)\s*Some\(soa\.serial\(\)\)\s*\{\s*return\s+Err\(Error::SoaMismatch\);\s*\}\s*Ok\(\(\)\)\s*$", cs, "check_soa_serial")
    m = re.search(r"if\s+zone_serial\s*(!=|==)\s*Some\(soa\.serial\(\)\)", cs)
    defs.append(("batch_delete_checks_serial", "bool", b(m.group(1) == "!=")))
    one(r"if\s+self\.state\s*==\s*ZoneUpdaterState::Finished\s*\{\s*return\s+Err\(Error::Finished\);\s*\}", ap, "apply after Finished")
    # ---- parsed.rs
    ps = strip_comments(read("src/zonetree/parsed.rs"))
    ins = fn_body(ps, "insert", after="impl Zonefile")
    one(r"Rtype::NS\s*\|\s*Rtype::DS\s+if\s+record\.owner\(\)\s*!=\s*zone_apex\s*=>", ins, "Zonefile::insert cut classification")
    one(r"Rtype::CNAME\s*=>\s*\{", ins, "Zonefile::insert cname classification")
    tf = fn_body(ps, "try_from", after="TryFrom<Zonefile> for ZoneBuilder")
    one(r"if\s+let\s+ZoneRecordData::Ns\(ns\)\s*=\s*rdata\s*\{\s*glue\.append\(\s*&mut\s+zonefile\.normal\.collect_glue\(ns\.nsdname\(\)\)\s*,?\s*\);\s*\}", tf, "glue collection per NS target")
    defs.append(("zonefile_classifies_ns_ds_below_apex_and_cname", "bool", "true"))
    # ---- answer.rs: the builder script of Answer::to_message (model: ToMessage.to_message_ops)
    an = strip_comments(read("src/zonetree/answer.rs"))
    tm = fn_body(an, "to_message")
    one(r"let\s+question\s*=\s*message\.sole_question\(\)\.unwrap\(\);\s*let\s+qname\s*=\s*question\.qname\(\);\s*let\s+qclass\s*=\s*question\.qclass\(\);\s*let\s+mut\s+builder\s*=\s*builder\.start_answer\(message,\s*self\.rcode\)\.unwrap\(\);\s*if\s+self\.authoritative\s*\{\s*builder\.header_mut\(\)\.set_aa\(true\);\s*\}", tm, "to_message: start_answer, AA")
    P = lambda args: r"builder\s*\.push\(" + args + r"\)"
    a_item = r"\(qname,\s*qclass,\s*answer\.ttl\(\),\s*item\)"
    a_cname = r"\(qname,\s*qclass,\s*cname\.ttl\(\),\s*cname\.data\(\)\)"
    au = lambda ttl, d: r"\(\s*authority\.owner\.clone\(\),\s*qclass,\s*" + ttl + r"\.ttl\(\),\s*" + d + r",?\s*\)"
    unwrapping = len(re.findall(r"\.unwrap\(\)", tm))
    if "truncated" not in tm:
        # every push is unwrapped
        one(r"AnswerContent::Data\(ref\s+answer\)\s*=>\s*\{\s*for\s+item\s+in\s+answer\.data\(\)\s*\{\s*" + P(a_item) + r"\s*\.unwrap\(\);\s*\}\s*\}\s*AnswerContent::Cname\(ref\s+cname\)\s*=>\s*" + P(a_cname) + r"\s*\.unwrap\(\)\s*,\s*AnswerContent::NoData\s*=>\s*\{\s*\}", tm, "to_message: answer section")
        one(r"let\s+mut\s+builder\s*=\s*builder\.authority\(\);\s*if\s+let\s+Some\(authority\)\s*=\s*self\.authority\.as_ref\(\)\s*\{\s*if\s+let\s+Some\(soa\)\s*=\s*authority\.soa\.as_ref\(\)\s*\{\s*" + P(au("soa", r"soa\.data\(\)")) + r"\s*\.unwrap\(\);\s*\}\s*if\s+let\s+Some\(ns\)\s*=\s*authority\.ns\.as_ref\(\)\s*\{\s*for\s+item\s+in\s+ns\.data\(\)\s*\{\s*" + P(au("ns", "item")) + r"\s*\.unwrap\(\)\s*\}\s*\}\s*if\s+let\s+Some\(ref\s+ds\)\s*=\s*authority\.ds\s*\{\s*for\s+item\s+in\s+ds\.data\(\)\s*\{\s*" + P(au("ds", "item")) + r"\s*\.unwrap\(\)\s*\}\s*\}\s*\}", tm, "to_message: authority section SOA, NS, DS")
        one(r"let\s+mut\s+builder\s*=\s*builder\.additional\(\);\s*if\s+let\s+Some\(additional\)\s*=\s*self\.additional\.as_ref\(\)\s*\{\s*for\s+item\s+in\s+&additional\.required\s*\{\s*builder\.push\(item\)\.unwrap\(\);\s*\}\s*for\s+item\s+in\s+&additional\.discardable\s*\{\s*if\s+builder\.push\(item\)\.is_err\(\)\s*\{\s*break;\s*\}\s*\}\s*\}\s*builder\s*$", tm, "to_message: additional section")
        defs.append(("to_message_truncates", "bool", "false"))
    else:
        # a failed push stops the section, later sections are skipped, TC is set at the end
        fail_break = r"\s*\.is_err\(\)\s*\{\s*truncated\s*=\s*true;\s*break;\s*\}"
        fail = r"\s*\.is_err\(\)\s*\{\s*truncated\s*=\s*true;\s*\}"
        if unwrapping != 2:
            raise GenError("to_message: expected exactly the two unwraps of sole_question and start_answer, found %d" % unwrapping)
        one(r"let\s+mut\s+truncated\s*=\s*false;\s*match\s+self\.content\s*\{\s*AnswerContent::Data\(ref\s+answer\)\s*=>\s*\{\s*for\s+item\s+in\s+answer\.data\(\)\s*\{\s*if\s+" + P(a_item) + fail_break + r"\s*\}\s*\}\s*AnswerContent::Cname\(ref\s+cname\)\s*=>\s*\{\s*if\s+" + P(a_cname) + fail + r"\s*\}\s*AnswerContent::NoData\s*=>\s*\{\s*\}", tm, "to_message: answer section (truncating)")
        one(r"let\s+mut\s+builder\s*=\s*builder\.authority\(\);\s*if\s+let\s+Some\(authority\)\s*=\s*self\.authority\.as_ref\(\)\.filter\(\|_\|\s*!truncated\)\s*\{\s*if\s+let\s+Some\(soa\)\s*=\s*authority\.soa\.as_ref\(\)\s*\{\s*if\s+" + P(au("soa", r"soa\.data\(\)")) + fail + r"\s*\}\s*if\s+let\s+Some\(ns\)\s*=\s*authority\.ns\.as_ref\(\)\.filter\(\|_\|\s*!truncated\)\s*\{\s*for\s+item\s+in\s+ns\.data\(\)\s*\{\s*if\s+" + P(au("ns", "item")) + fail_break + r"\s*\}\s*\}\s*if\s+let\s+Some\(ds\)\s*=\s*authority\.ds\.as_ref\(\)\.filter\(\|_\|\s*!truncated\)\s*\{\s*for\s+item\s+in\s+ds\.data\(\)\s*\{\s*if\s+" + P(au("ds", "item")) + fail_break + r"\s*\}\s*\}\s*\}", tm, "to_message: authority section (truncating)")
        one(r"let\s+mut\s+builder\s*=\s*builder\.additional\(\);\s*if\s+let\s+Some\(additional\)\s*=\s*self\.additional\.as_ref\(\)\.filter\(\|_\|\s*!truncated\)\s*\{\s*for\s+item\s+in\s+&additional\.required\s*\{\s*if\s+builder\.push\(item\)\.is_err\(\)\s*\{\s*truncated\s*=\s*true;\s*break;\s*\}\s*\}\s*if\s+!truncated\s*\{\s*for\s+item\s+in\s+&additional\.discardable\s*\{\s*if\s+builder\.push\(item\)\.is_err\(\)\s*\{\s*break;\s*\}\s*\}\s*\}\s*\}\s*if\s+truncated\s*\{\s*builder\.header_mut\(\)\.set_tc\(true\);\s*\}\s*builder\s*$", tm, "to_message: additional section, TC (truncating)")
        defs.append(("to_message_truncates", "bool", "true"))
    mb = strip_comments(read("src/base/message_builder.rs"))
    sa = fn_body(mb, "start_answer")
    one(r"header\.set_id\(msg\.header\(\)\.id\(\)\);\s*header\.set_qr\(true\);\s*header\.set_opcode\(msg\.header\(\)\.opcode\(\)\);\s*header\.set_rd\(msg\.header\(\)\.rd\(\)\);\s*header\.set_rcode\(rcode\);\s*\}\s*let\s+mut\s+builder\s*=\s*self\.question\(\);\s*for\s+item\s+in\s+msg\.question\(\)\.flatten\(\)\s*\{\s*builder\.push\(item\)\?;\s*\}\s*Ok\(builder\.answer\(\)\)\s*$", sa, "MessageBuilder::start_answer")
    defs.append(("to_message_script_anchored", "bool", "true"))
    # ---- tree.rs
    tr = strip_comments(read("src/zonetree/tree.rs"))
    zs = impl_body(tr, r"impl ZoneSetNode\s*\{")
    fz = fn_body(zs, "find_zone")
    one(r"^\s*if\s+let\s+Some\(label\)\s*=\s*qname\.next\(\)\s*\{\s*if\s+let\s+Some\(node\)\s*=\s*self\.children\.get\(label\)\s*\{\s*if\s+let\s+Some\(zone\)\s*=\s*node\.find_zone\(qname\)\s*\{\s*return\s+Some\(zone\);\s*\}\s*\}\s*\}\s*self\.zone\.as_ref\(\)\s*$", fz, "ZoneSetNode::find_zone")
    one(r"^\s*match\s+apex_name\.next\(\)\s*\{\s*Some\(label\)\s*=>\s*self\.children\.get\(label\)\?\.get_zone\(apex_name\)\s*,\s*None\s*=>\s*self\.zone\.as_ref\(\)\s*,\s*\}\s*$", fn_body(zs, "get_zone"), "ZoneSetNode::get_zone")
    one(r"^\s*if\s+let\s+Some\(label\)\s*=\s*apex_name\.next\(\)\s*\{\s*self\.children\s*\.entry\(label\.into\(\)\)\s*\.or_default\(\)\s*\.insert_zone\(apex_name,\s*zone\)\s*\}\s*else\s+if\s+self\.zone\.is_some\(\)\s*\{\s*Err\(ZoneTreeModificationError::ZoneExists\)\s*\}\s*else\s*\{\s*self\.zone\s*=\s*Some\(zone\);\s*Ok\(\(\)\)\s*\}\s*$", fn_body(zs, "insert_zone"), "ZoneSetNode::insert_zone")
    cl = strip_comments(read("src/base/iana/class.rs"))
    m = one(r"\(\s*IN\s*=>\s*(\d+)\s*,\s*\"IN\"\s*\)", cl, "Class::IN")
    defs.append(("class_in", "N", "%d%%N" % num(m.group(1))))
    ro = impl_body(tr, r"impl Roots\s*\{")
    one(r"^\s*if\s+class\s*==\s*Class::IN\s*\{\s*Some\(&self\.in_\)\s*\}\s*else\s*\{\s*self\.others\.get\(&class\)\s*\}\s*$", fn_body(ro, "get"), "Roots::get")
    one(r"^\s*if\s+class\s*==\s*Class::IN\s*\{\s*&mut\s+self\.in_\s*\}\s*else\s*\{\s*self\.others\.entry\(class\)\.or_default\(\)\s*\}\s*$", fn_body(ro, "get_or_insert"), "Roots::get_or_insert")
    zt = impl_body(tr, r"impl ZoneTree\s*\{")
    one(r"self\.roots\.get\(class\)\?\.find_zone\(qname\.iter_labels\(\)\.rev\(\)\)", fn_body(zt, "find_zone"), "ZoneTree::find_zone")
    one(r"self\.roots\.get_or_insert\(zone\.class\(\)\)\.insert_zone\(", fn_body(zt, "insert_zone"), "ZoneTree::insert_zone")
    one(r"if\s+let\s+Some\(root\)\s*=\s*self\.roots\.get_mut\(class\)\s*\{\s*root\.remove_zone\(apex_name\.iter_labels\(\)\.rev\(\)\)\s*\}\s*else\s*\{\s*Err\(ZoneTreeModificationError::ZoneDoesNotExist\)\s*\}", fn_body(zt, "remove_zone"), "ZoneTree::remove_zone")
    rz = fn_body(zs, "remove_zone")
    old = re.search(r"^\s*match\s+apex_name\.next\(\)\s*\{\s*Some\(label\)\s*=>\s*\{\s*if\s+self\.children\.remove\(label\)\.is_none\(\)\s*\{\s*return\s+Err\(ZoneTreeModificationError::ZoneDoesNotExist\);\s*\}\s*\}\s*None\s*=>\s*\{\s*self\.zone\s*=\s*None;\s*\}\s*\}\s*Ok\(\(\)\)\s*$", rz, re.S)
    new = re.search(r"^\s*match\s+apex_name\.next\(\)\s*\{\s*Some\(label\)\s*=>\s*match\s+self\.children\.get_mut\(label\)\s*\{\s*Some\(node\)\s*=>\s*node\.remove_zone\(apex_name\)\s*,\s*None\s*=>\s*Err\(ZoneTreeModificationError::ZoneDoesNotExist\)\s*,\s*\}\s*,\s*None\s*=>\s*\{\s*if\s+self\.zone\.take\(\)\.is_none\(\)\s*\{\s*Err\(ZoneTreeModificationError::ZoneDoesNotExist\)\s*\}\s*else\s*\{\s*Ok\(\(\)\)\s*\}\s*\}\s*\}\s*$", rz, re.S)
    if not old and not new:
        raise GenError("ZoneSetNode::remove_zone has neither of the two known shapes")
    defs.append(("zremove_recursive", "bool", b(bool(new))))
    return defs

if __name__ == "__main__":
    main("C08", "/repo/src/zonetree/in_memory/{read,nodes,write,builder}.rs, zonetree/{update,parsed}.rs, base/iana/{rtype,rcode}.rs, base/name/label.rs", build)
