#!/usr/bin/env python3
"""T1 extractor for C18: alphabets / decode tables, marker constants, guard
constants and the shift/mask expressions of utils/base{16,32,64}.rs.

Expressions (`(chunk[0] & 0x03) << 4 | ...`) are parsed with a tiny
recursive-descent parser for the u8 operator subset  | & << >>  and emitted as
Coq functions over N; `<<` on u8 drops the bits above bit 7, which is written
out as `N.land (N.shiftl a k) 255`."""
import re, sys, os
sys.path.insert(0, os.path.dirname(os.path.abspath(__file__)))
from rs import *

# ------------------------------------------------------------ expression parser

TOK = re.compile(r"\s*(<<|>>|\||&|\(|\)|0x[0-9A-Fa-f_]+|\d[\d_]*|(?:self\.)?[a-z_]+\[\d+\])")

def tokenize(s, what):
    out = []
    i = 0
    s = s.strip()
    while i < len(s):
        m = TOK.match(s, i)
        if not m:
            raise GenError("%s: cannot tokenise %r at %r" % (what, s, s[i:i + 12]))
        out.append(m.group(1))
        i = m.end()
    return out

class P:
    """Rust precedence: << >> bind tighter than &, which binds tighter than |."""
    def __init__(self, toks, var, what):
        self.t = toks; self.i = 0; self.var = var; self.what = what; self.used = set()
    def peek(self):
        return self.t[self.i] if self.i < len(self.t) else None
    def eat(self, x=None):
        t = self.peek()
        if t is None or (x is not None and t != x):
            raise GenError("%s: parse error, expected %r got %r" % (self.what, x, t))
        self.i += 1
        return t
    def p_or(self):
        a = self.p_and()
        while self.peek() == "|":
            self.eat(); b = self.p_and(); a = "(N.lor %s %s)" % (a, b)
        return a
    def p_and(self):
        a = self.p_shift()
        while self.peek() == "&":
            self.eat(); b = self.p_shift(); a = "(N.land %s %s)" % (a, b)
        return a
    def p_shift(self):
        a = self.p_atom()
        while self.peek() in ("<<", ">>"):
            op = self.eat(); b = self.p_atom()
            a = "(N.land (N.shiftl %s %s) 255)" % (a, b) if op == "<<" else "(N.shiftr %s %s)" % (a, b)
        return a
    def p_atom(self):
        t = self.eat()
        if t == "(":
            a = self.p_or(); self.eat(")"); return a
        m = re.fullmatch(r"(?:self\.)?([a-z_]+)\[(\d+)\]", t)
        if m:
            if m.group(1) != self.var:
                raise GenError("%s: unexpected array %r (want %r)" % (self.what, m.group(1), self.var))
            self.used.add(int(m.group(2)))
            return "x%s" % m.group(2)
        if re.fullmatch(r"0x[0-9A-Fa-f_]+|\d[\d_]*", t):
            return "%d" % num(t)
        raise GenError("%s: unexpected token %r" % (self.what, t))

def expr_fn(text, var, arity, what):
    p = P(tokenize(text, what), var, what)
    body = p.p_or()
    if p.peek() is not None:
        raise GenError("%s: trailing tokens in %r" % (what, text))
    if any(k >= arity for k in p.used):
        raise GenError("%s: index out of the modelled array in %r" % (what, text))
    args = " ".join("x%d" % k for k in range(arity))
    ty = " -> ".join(["N"] * (arity + 1))
    return ty, "fun %s => %s" % (args, body)

# ------------------------------------------------------------------- helpers

def nlist(xs):
    return "[" + "; ".join("%d" % x for x in xs) + "]%N"

def const_array(src, name, what):
    m = one(r"const\s+%s\s*:\s*\[\s*([^;\]]+);\s*(\d+)\s*\]\s*=\s*\[(.*?)\]\s*;" % name, src, what)
    return m.group(1).strip(), int(m.group(2)), m.group(3)

def u8_table(src, name, n):
    ty, ln, body = const_array(src, name, name)
    if ty != "u8" or ln != n:
        raise GenError("%s: type/length changed (%s; %d)" % (name, ty, ln))
    vals = [num(x) for x in re.findall(r"0x[0-9A-Fa-f]+|\d+", body)]
    if len(vals) != n:
        raise GenError("%s: %d entries, expected %d" % (name, len(vals), n))
    return vals

def char_table(src, name, n):
    ty, ln, body = const_array(src, name, name)
    if ty != "char" or ln != n:
        raise GenError("%s: type/length changed (%s; %d)" % (name, ty, ln))
    vals = [ord(x) for x in re.findall(r"'(.)'", body)]
    if len(vals) != n:
        raise GenError("%s: %d entries, expected %d" % (name, len(vals), n))
    return vals

def const_num(src, name, ty):
    m = one(r"const\s+%s\s*:\s*%s\s*=\s*(0x[0-9A-Fa-f_]+|\d[\d_]*|'.')\s*;" % (name, ty), src, name)
    v = m.group(1)
    return ord(v[1]) if v.startswith("'") else num(v)

def skeleton(body, pats, want, what):
    """Order of the control-relevant tokens in a function body."""
    rx = re.compile("|".join("(?P<g%d>%s)" % (i, v) for i, (k, v) in enumerate(pats)), re.S)
    got = "".join(pats[int(m.lastgroup[1:])][0] for m in rx.finditer(body))
    if got != want:
        raise GenError("%s: control skeleton changed: %s (expected %s)" % (what, got, want))

def write_exprs(body, what):
    return [m.group(1) for m in re.finditer(r"f\.write_char\(\s*ch\((.*?)\)\s*\)\s*\?\s*;", body, re.S)]

NUM = r"(0x[0-9A-Fa-f_]+|\d[\d_]*)"

# --------------------------------------------------------------------- base64

def build64(defs):
    src = strip_comments(read("src/utils/base64.rs"))
    src = src.split("mod test")[0]
    defs.append(("b64_decode_tab", "list N", nlist(u8_table(src, "DECODE_ALPHABET", 128))))
    defs.append(("b64_encode_tab", "list N", nlist(char_table(src, "ENCODE_ALPHABET", 64))))
    pad = const_num(src, "PAD", "char")
    padm = const_num(src, "PAD_MARKER", "u8")
    eof = const_num(src, "EOF_MARKER", "usize")
    defs.append(("b64_pad", "N", "%d%%N" % pad))
    defs.append(("b64_pad_marker", "N", "%d%%N" % padm))
    defs.append(("b64_eof_marker", "N", "%d%%N" % eof))
    # display
    disp = fn_body(src, "display")
    one(r"bytes\.as_ref\(\)\.chunks\(\s*3\s*\)", disp, "base64 display chunks(3)")
    one(r"ENCODE_ALPHABET\[\s*i\s+as\s+usize\s*\]", disp, "base64 display ch()")
    arms = {}
    for k in (1, 2, 3):
        m = one(r"\b%d\s*=>\s*\{(.*?)\}" % k, disp, "base64 display arm %d" % k)
        items = re.findall(r"f\.write_char\(\s*(ch\(.*?\)|'.')\s*\)\s*\?\s*;", m.group(1), re.S)
        if len(items) != 4:
            raise GenError("base64 display arm %d: %d writes" % (k, len(items)))
        want_pads = 3 - k
        for j, it in enumerate(items):
            if j < 4 - want_pads:
                mm = re.fullmatch(r"ch\((.*)\)", it, re.S)
                if not mm:
                    raise GenError("base64 display arm %d item %d is not ch(..)" % (k, j))
                ty, fn = expr_fn(mm.group(1), "chunk", 3, "base64 display %d/%d" % (k, j))
                defs.append(("b64_e%d_%d" % (k, j), ty, fn))
            elif it != "'='":
                raise GenError("base64 display arm %d item %d: expected '='" % (k, j))
    defs.append(("b64_disp_pad", "N", "%d%%N" % ord("=")))
    # Decoder::push / finalize
    imp = impl_body(src, r"impl<Builder:\s*OctetsBuilder>\s*Decoder<Builder>")
    fin = fn_body(imp, "finalize")
    # Decoder::push is either the decoding step itself (errors other than the
    # end-marker TrailingInput are not recorded) or a wrapper that makes every
    # error final and delegates to `push_char` (pending/C18-base64-decoder.diff)
    if re.search(r"\bfn\s+push_char\b", imp):
        wrapper = fn_body(imp, "push")
        one(r"^\s*if\s+let\s+Err\(err\)\s*=\s*self\.target\s*\{\s*return\s+Err\(err\);\s*\}\s*"
            r"let\s+res\s*=\s*self\.push_char\(ch\);\s*"
            r"if\s+let\s+Err\(err\)\s*=\s*res\s*\{\s*self\.target\s*=\s*Err\(err\);\s*\}\s*res\s*$",
            wrapper, "Decoder::push sticky wrapper")
        push = fn_body(imp, "push_char")
        defs.append(("b64_push_sticky", "bool", "true"))
    else:
        push = fn_body(imp, "push")
        defs.append(("b64_push_sticky", "bool", "false"))
    m = one(r"if\s+self\.next\s*==\s*%s\s*\{\s*self\.target\s*=\s*Err\(DecodeError::TrailingInput\);\s*return\s+Err\(DecodeError::TrailingInput\);\s*\}" % NUM, push, "Decoder::push eof check")
    defs.append(("b64_push_eof", "N", "%d%%N" % num(m.group(1))))
    m = one(r"if\s+ch\s*==\s*PAD\s*\{\s*if\s+self\.next\s*<\s*%s\s*\{\s*return\s+Err\(DecodeError::IllegalChar\(ch\)\);\s*\}\s*%s\s*\}" % (NUM, NUM), push, "Decoder::push pad branch")
    defs.append(("b64_push_pad_min", "N", "%d%%N" % num(m.group(1))))
    defs.append(("b64_push_pad_val", "N", "%d%%N" % num(m.group(2))))
    m = one(r"if\s+ch\s*>\s*\(\s*%s\s+as\s+char\s*\)\s*\{\s*return\s+Err\(DecodeError::IllegalChar\(ch\)\);\s*\}\s*let\s+val\s*=\s*DECODE_ALPHABET\[ch\s+as\s+usize\];\s*if\s+val\s*==\s*%s\s*\{\s*return\s+Err\(DecodeError::IllegalChar\(ch\)\);\s*\}" % (NUM, NUM), push, "Decoder::push lookup")
    defs.append(("b64_ascii_max", "N", "%d%%N" % num(m.group(1))))
    defs.append(("b64_illegal_val", "N", "%d%%N" % num(m.group(2))))
    one(r"self\.buf\[self\.next\]\s*=\s*val;\s*self\.next\s*\+=\s*1;", push, "Decoder::push store")
    m = one(r"if\s+self\.next\s*==\s*%s\s*\{\s*let\s+target\s*=\s*self\.target\.as_mut\(\)\.unwrap\(\);" % NUM, push, "Decoder::push group size")
    defs.append(("b64_group", "N", "%d%%N" % num(m.group(1))))
    octs = re.findall(r"\.append_slice\(\s*&\[(.*?)\]\s*\)", push, re.S)
    if len(octs) != 3:
        raise GenError("Decoder::push: %d append_slice calls" % len(octs))
    for j, e in enumerate(octs):
        ty, fn = expr_fn(e, "buf", 4, "Decoder::push octet %d" % j)
        defs.append(("b64_oct%d" % j, ty, fn))
    skeleton(push, [("a", r"\.append_slice"), ("c", r"if\s+self\.buf\[2\]\s*!=\s*0x80"), ("d", r"if\s+self\.buf\[3\]\s*!=\s*0x80"),
                    ("e", r"if\s+self\.buf\[2\]\s*==\s*0x80\s*\{\s*return\s+Err\(DecodeError::TrailingInput\);"),
                    ("z", r"self\.next\s*=\s*0\b(?!x)"), ("f", r"self\.next\s*=\s*0xF0")],
             "acadeazf", "Decoder::push group handling")
    m = one(r"if\s+next\s*&\s*%s\s*!=\s*0\s*\{\s*Err\(DecodeError::ShortInput\)\s*\}\s*else\s*\{\s*Ok\(bytes\.freeze\(\)\)" % NUM, fin, "Decoder::finalize")
    defs.append(("b64_fin_mask", "N", "%d%%N" % num(m.group(1))))
    one(r"target\.and_then\(", fin, "Decoder::finalize target first")
    # SymbolConverter
    conv = impl_body(src, r"impl\s+SymbolConverter")
    pc = fn_body(conv, "process_char")
    one(r"if\s+self\.next\s*==\s*EOF_MARKER\s*\{\s*return\s+Err\(Error::custom\(\"trailing Base 64 data\"\)\);", pc, "converter eof check")
    m = one(r"if\s+ch\s*==\s*PAD\s*\{\s*if\s+self\.next\s*<\s*%s\s*\{\s*return\s+Err\(Error::custom\(\"illegal Base 64 data\"\)\);\s*\}\s*PAD_MARKER\s*\}" % NUM, pc, "converter pad branch")
    defs.append(("b64_conv_pad_min", "N", "%d%%N" % num(m.group(1))))
    m = one(r"if\s+ch\s*>\s*\(\s*%s\s+as\s+char\s*\)\s*\{\s*return\s+Err\(Error::custom\(\"illegal Base 64 data\"\)\);\s*\}\s*let\s+val\s*=\s*DECODE_ALPHABET\[ch\s+as\s+usize\];\s*if\s+val\s*==\s*%s\s*\{" % (NUM, NUM), pc, "converter lookup")
    defs.append(("b64_conv_ascii_max", "N", "%d%%N" % num(m.group(1))))
    defs.append(("b64_conv_illegal_val", "N", "%d%%N" % num(m.group(2))))
    m = one(r"self\.input\[self\.next\]\s*=\s*val;\s*self\.next\s*\+=\s*1;\s*if\s+self\.next\s*==\s*%s\s*\{" % NUM, pc, "converter group size")
    defs.append(("b64_conv_group", "N", "%d%%N" % num(m.group(1))))
    for j in range(3):
        m = one(r"self\.output\[%d\]\s*=\s*(.*?);" % j, pc, "converter output %d" % j)
        ty, fn = expr_fn(m.group(1), "input", 4, "converter output %d" % j)
        defs.append(("b64_conv_oct%d" % j, ty, fn))
    skeleton(pc, [("0", r"self\.output\[0\]\s*="), ("1", r"self\.output\[1\]\s*="), ("2", r"self\.output\[2\]\s*="),
                  ("p", r"if\s+self\.input\[2\]\s*==\s*PAD_MARKER"), ("q", r"if\s+self\.input\[3\]\s*==\s*PAD_MARKER"),
                  ("E", r"self\.next\s*=\s*EOF_MARKER"), ("Z", r"self\.next\s*=\s*0\b"),
                  ("a", r"Ok\(Some\(&self\.output\[\.\.1\]\)\)"), ("b", r"Ok\(Some\(&self\.output\[\.\.2\]\)\)"),
                  ("c", r"Ok\(Some\(&self\.output\)\)"), ("x", r"Err\(Error::custom\(\"illegal Base 64 data\"\)\)"), ("n", r"Ok\(None\)")],
             "xxx0pqEax1qEb2Zcn", "converter group handling")
    tail = fn_body(src, "process_tail", after="for SymbolConverter")
    m = one(r"if\s+self\.next\s*&\s*%s\s*!=\s*0\s*\{\s*Err\(" % NUM, tail, "converter process_tail")
    defs.append(("b64_conv_fin_mask", "N", "%d%%N" % num(m.group(1))))

# --------------------------------------------------------------------- base32

def build32(defs):
    src = strip_comments(read("src/utils/base32.rs"))
    src = src.split("mod test")[0]
    defs.append(("b32_decode_tab", "list N", nlist(u8_table(src, "DECODE_HEX_ALPHABET", 128))))
    defs.append(("b32_encode_tab", "list N", nlist(char_table(src, "ENCODE_HEX_ALPHABET", 32))))
    disp = fn_body(src, "display_hex")
    one(r"bytes\.as_ref\(\)\.chunks\(\s*5\s*\)", disp, "base32 display chunks(5)")
    one(r"ENCODE_HEX_ALPHABET\[\s*i\s+as\s+usize\s*\]", disp, "base32 display ch()")
    skeleton(disp, [("w", r"f\.write_char\(ch\("), ("1", r"if\s+chunk\.len\(\)\s*==\s*1\s*\{"), ("2", r"if\s+chunk\.len\(\)\s*==\s*2\s*\{"),
                    ("3", r"if\s+chunk\.len\(\)\s*==\s*3\s*\{"), ("4", r"if\s+chunk\.len\(\)\s*==\s*4\s*\{"), ("b", r"break\s*;")],
             "w1wbww2wbw3wbww4wbww", "base32 display_hex")
    ex = write_exprs(disp, "base32 display")
    names = ["b32_e0", "b32_e1_last", "b32_e1", "b32_e2", "b32_e3_last", "b32_e3", "b32_e4_last", "b32_e4", "b32_e5", "b32_e6_last", "b32_e6", "b32_e7"]
    if len(ex) != len(names):
        raise GenError("base32 display: %d write_char(ch(..)) calls" % len(ex))
    for n, e in zip(names, ex):
        ty, fn = expr_fn(e, "chunk", 5, n)
        defs.append((n, ty, fn))
    imp = impl_body(src, r"impl<Builder:\s*OctetsBuilder>\s*Decoder<Builder>")
    push = fn_body(imp, "push")
    fin = fn_body(imp, "finalize")
    m = one(r"if\s+ch\s*>\s*\(\s*%s\s+as\s+char\s*\)\s*\{\s*self\.target\s*=\s*Err\(DecodeError::IllegalChar\(ch\)\);\s*return\s+Err\(DecodeError::IllegalChar\(ch\)\);\s*\}\s*let\s+val\s*=\s*self\.alphabet\[ch\s+as\s+usize\];\s*if\s+val\s*==\s*%s\s*\{\s*self\.target\s*=\s*Err\(DecodeError::IllegalChar\(ch\)\);\s*return\s+Err\(DecodeError::IllegalChar\(ch\)\);\s*\}" % (NUM, NUM), push, "base32 push lookup")
    defs.append(("b32_ascii_max", "N", "%d%%N" % num(m.group(1))))
    defs.append(("b32_illegal_val", "N", "%d%%N" % num(m.group(2))))
    m = one(r"self\.buf\[self\.next\]\s*=\s*val;\s*self\.next\s*\+=\s*1;\s*if\s+self\.next\s*==\s*%s\s*\{\s*self\.octet_0\(\);\s*self\.octet_1\(\);\s*self\.octet_2\(\);\s*self\.octet_3\(\);\s*self\.octet_4\(\);\s*self\.next\s*=\s*0;\s*\}\s*match\s+self\.target\s*\{\s*Ok\(_\)\s*=>\s*Ok\(\(\)\),\s*Err\(err\)\s*=>\s*Err\(err\),\s*\}" % NUM, push, "base32 push group")
    defs.append(("b32_group", "N", "%d%%N" % num(m.group(1))))
    one(r"alphabet:\s*&DECODE_HEX_ALPHABET", fn_body(src, "new_hex"), "Decoder::new_hex alphabet")
    for j in range(5):
        b = fn_body(imp, "octet_%d" % j)
        m = one(r"let\s+ch\s*=\s*(.*?);\s*self\.append\(ch\)", b, "octet_%d" % j)
        ty, fn = expr_fn(m.group(1), "buf", 8, "octet_%d" % j)
        defs.append(("b32_oct%d" % j, ty, fn))
    one(r"if\s+let\s+Err\(err\)\s*=\s*self\.target\s*\{\s*return\s+Err\(err\);\s*\}\s*match\s+self\.next\s*\{", fin, "base32 finalize target first")
    m = one(r"0\s*=>\s*\{\s*\}\s*((?:\d+\s*\|\s*)*\d+)\s*=>\s*return\s+Err\(DecodeError::ShortInput\)\s*,", fin, "base32 finalize short set")
    defs.append(("b32_fin_short", "list N", nlist([int(x) for x in re.findall(r"\d+", m.group(1))])))
    partial = []
    for m in re.finditer(r"(\d+)\s*=>\s*\{((?:\s*self\.octet_\d\(\);)+)\s*\}", fin):
        ks = [int(x) for x in re.findall(r"octet_(\d)", m.group(2))]
        if ks != list(range(len(ks))):
            raise GenError("base32 finalize arm %s: octets %r" % (m.group(1), ks))
        partial.append((int(m.group(1)), len(ks)))
    if len(partial) != 4:
        raise GenError("base32 finalize: %d partial arms" % len(partial))
    defs.append(("b32_fin_partial", "list (N * N)", "[" + "; ".join("(%d, %d)" % p for p in partial) + "]%N"))
    one(r"_\s*=>\s*unreachable!\(\)", fin, "base32 finalize unreachable arm")
    # converter
    conv = impl_body(src, r"impl\s+SymbolConverter")
    pc = fn_body(conv, "process_char")
    m = one(r"if\s+ch\s*>\s*\(\s*%s\s+as\s+char\s*\)\s*\{\s*return\s+Err\(Error::custom\(\"illegal Base 32 data\"\)\);\s*\}\s*let\s+val\s*=\s*self\.alphabet\[ch\s+as\s+usize\];\s*if\s+val\s*==\s*%s\s*\{\s*return\s+Err" % (NUM, NUM), pc, "base32 converter lookup")
    defs.append(("b32_conv_ascii_max", "N", "%d%%N" % num(m.group(1))))
    defs.append(("b32_conv_illegal_val", "N", "%d%%N" % num(m.group(2))))
    m = one(r"self\.input\[self\.next\]\s*=\s*val;\s*self\.next\s*\+=\s*1;\s*if\s+self\.next\s*==\s*%s\s*\{\s*self\.output\s*=\s*\[(.*?)\]\s*;\s*self\.next\s*=\s*0;\s*Ok\(Some\(&self\.output\)\)\s*\}\s*else\s*\{\s*Ok\(None\)" % NUM, pc, "base32 converter group")
    defs.append(("b32_conv_group", "N", "%d%%N" % num(m.group(1))))
    items = [x.strip() for x in m.group(2).split(",") if x.strip()]
    if len(items) != 5:
        raise GenError("base32 converter output array: %d items" % len(items))
    for j, e in enumerate(items):
        ty, fn = expr_fn(e, "input", 8, "base32 converter output %d" % j)
        defs.append(("b32_conv_oct%d" % j, ty, fn))
    one(r"alphabet:\s*&DECODE_HEX_ALPHABET", impl_body(src, r"impl\s+Default\s+for\s+SymbolConverter"), "converter alphabet")
    tail = fn_body(src, "process_tail", after="for SymbolConverter")
    m = one(r"match\s+self\.next\s*\{\s*0\s*=>\s*return\s+Ok\(None\)\s*,\s*((?:\d+\s*\|\s*)*\d+)\s*=>\s*return\s+Err\(Error::custom\(\"short Base 32 input\"\)\)\s*,\s*_\s*=>\s*\{\s*\}\s*\}", tail, "base32 process_tail short set")
    defs.append(("b32_tail_short", "list N", nlist([int(x) for x in re.findall(r"\d+", m.group(1))])))
    for j in range(4):
        m = one(r"self\.output\[%d\]\s*=\s*(.*?);" % j, tail, "base32 process_tail output %d" % j)
        ty, fn = expr_fn(m.group(1), "input", 8, "base32 process_tail output %d" % j)
        defs.append(("b32_tail_oct%d" % j, ty, fn))
    skeleton(tail, [("0", r"self\.output\[0\]\s*="), ("1", r"self\.output\[1\]\s*="), ("2", r"self\.output\[2\]\s*="), ("3", r"self\.output\[3\]\s*="),
                    ("a", r"if\s+self\.next\s*==\s*2\s*\{\s*return\s+Ok\(Some\(&self\.output\[0\.\.1\]\)\);"),
                    ("b", r"if\s+self\.next\s*==\s*4\s*\{\s*return\s+Ok\(Some\(&self\.output\[0\.\.2\]\)\);"),
                    ("c", r"if\s+self\.next\s*==\s*5\s*\{\s*return\s+Ok\(Some\(&self\.output\[0\.\.3\]\)\);"),
                    ("d", r"Ok\(Some\(&self\.output\[0\.\.4\]\)\)\s*$")],
             "0a1b2c3d", "base32 process_tail")

# --------------------------------------------------------------------- base16

def build16(defs):
    src = strip_comments(read("src/utils/base16.rs"))
    src = src.split("mod test")[0]
    m = one(r"const\s+ENCODE_ALPHABET\s*:\s*\[\s*&str\s*;\s*256\s*\]\s*=\s*\[(.*?)\]\s*;", src, "base16 ENCODE_ALPHABET")
    strs = re.findall(r"\"([^\"]*)\"", m.group(1))
    if len(strs) != 256 or any(len(s) != 2 for s in strs):
        raise GenError("base16 ENCODE_ALPHABET: not 256 two-character strings")
    defs.append(("b16_encode_tab", "list (N * N)", "[" + "; ".join("(%d, %d)" % (ord(s[0]), ord(s[1])) for s in strs) + "]%N"))
    disp = fn_body(src, "display")
    one(r"for\s+&octet\s+in\s+octets\.as_ref\(\)\s*\{\s*f\.write_str\(ENCODE_ALPHABET\[usize::from\(octet\)\]\)\?;\s*\}", disp, "base16 display")
    imp = impl_body(src, r"impl<Builder:\s*OctetsBuilder>\s*Decoder<Builder>")
    push = fn_body(imp, "push")
    fin = fn_body(imp, "finalize")
    m = one(r"let\s+value\s*=\s*match\s+ch\.to_digit\(\s*(\d+)\s*\)\s*\{\s*Some\(value\)\s*=>\s*value\s+as\s+u8\s*,\s*None\s*=>\s*\{\s*self\.target\s*=\s*Err\(DecodeError::IllegalChar\(ch\)\);\s*return\s+Err\(DecodeError::IllegalChar\(ch\)\);\s*\}\s*\}\s*;", push, "base16 push digit")
    defs.append(("b16_radix", "N", "%d%%N" % num(m.group(1))))
    m = one(r"if\s+let\s+Some\(upper\)\s*=\s*self\.buf\.take\(\)\s*\{\s*self\.append\(\s*upper\s*\|\s*value\s*\);\s*\}\s*else\s*\{\s*self\.buf\s*=\s*Some\(\s*value\s*<<\s*(\d+)\s*\)\s*\}\s*match\s+self\.target\s*\{\s*Ok\(_\)\s*=>\s*Ok\(\(\)\),\s*Err\(err\)\s*=>\s*Err\(err\),\s*\}", push, "base16 push combine")
    defs.append(("b16_shift", "N", "%d%%N" % num(m.group(1))))
    one(r"^\s*if\s+self\.buf\.is_some\(\)\s*\{\s*return\s+Err\(DecodeError::ShortInput\);\s*\}\s*self\.target\.map\(FreezeBuilder::freeze\)\s*$", fin, "base16 finalize")
    ps = fn_body(src, "process_symbol", after="for SymbolConverter")
    m = one(r"\.to_digit\(\s*(\d+)\s*\)\s*\.ok_or_else\(", ps, "base16 converter digit")
    defs.append(("b16_conv_radix", "N", "%d%%N" % num(m.group(1))))
    m = one(r"if\s+self\.pending\s*\{\s*self\.buf\[0\]\s*\|=\s*symbol\s+as\s+u8;\s*self\.pending\s*=\s*false;\s*Ok\(Some\(&self\.buf\)\)\s*\}\s*else\s*\{\s*self\.buf\[0\]\s*=\s*\(symbol\s*<<\s*(\d+)\)\s*as\s+u8;\s*self\.pending\s*=\s*true;\s*Ok\(None\)\s*\}", ps, "base16 converter combine")
    defs.append(("b16_conv_shift", "N", "%d%%N" % num(m.group(1))))
    tail = fn_body(src, "process_tail", after="for SymbolConverter")
    one(r"^\s*if\s+self\.pending\s*\{\s*Err\(Error::custom\(\"uneven number of hex digits\"\)\)\s*\}\s*else\s*\{\s*Ok\(None\)\s*\}\s*$", tail, "base16 process_tail")

# ------------------------------------------------ users: nsec3.rs and scan.rs

def build_users(defs):
    src = strip_comments(read("src/rdata/nsec3.rs"))
    src = src.split("mod test")[0]
    maxes = re.findall(r"pub\s+const\s+MAX_LEN\s*:\s*usize\s*=\s*(\d+)\s*;", src)
    if len(maxes) != 2:
        raise GenError("nsec3.rs: expected two MAX_LEN constants, found %d" % len(maxes))
    defs.append(("nsec3_salt_max", "N", "%d%%N" % int(maxes[0])))
    defs.append(("nsec3_hash_max", "N", "%d%%N" % int(maxes[1])))
    for ty, tag in (("Nsec3Salt", "salt"), ("OwnerHash", "hash")):
        m = one(r"pub\s+fn\s+from_octets\(octets:\s*Octs\)\s*->\s*Result<Self,\s*%sError>[^{]*\{\s*if\s+octets\.as_ref\(\)\.len\(\)\s*(>=|>)\s*%s::MAX_LEN\s*\{\s*Err\(" % (ty, ty), src, "%s::from_octets" % ty)
        defs.append(("nsec3_%s_limit_inclusive" % tag, "bool", "true" if m.group(1) == ">" else "false"))
    # Nsec3Salt: FromStr and Display
    fs = fn_body(src, "from_str", after="str::FromStr for Nsec3Salt")
    m = one(r"^\s*if\s+s\s*==\s*\"(.)\"\s*\{\s*Ok\(unsafe\s*\{\s*Self::from_octets_unchecked\(Octs::Builder::empty\(\)\.freeze\(\)\)\s*\}\)\s*\}\s*else\s*\{\s*"
            r"base16::decode\(s\)\s*\.map_err\(Nsec3SaltFromStrError::DecodeError\)\s*\.and_then\(\|octets\|\s*\{\s*Self::from_octets\(octets\)\s*\.map_err\(Nsec3SaltFromStrError::Nsec3SaltError\)\s*\}\)\s*\}\s*$",
            fs, "Nsec3Salt::from_str")
    defs.append(("nsec3_salt_empty_char", "N", "%d%%N" % ord(m.group(1))))
    dsp = fn_body(src, "fmt", after="fmt::Display for Nsec3Salt")
    m = one(r"if\s+s\.is_empty\(\)\s*\{\s*f\.write_char\('(.)'\)\s*\}\s*else\s*\{\s*base16::display\(s,\s*f\)\s*\}\s*$", dsp, "Display for Nsec3Salt")
    defs.append(("nsec3_salt_empty_display", "N", "%d%%N" % ord(m.group(1))))
    # Nsec3Salt::scan: '-' handling, delegation to base16, length accounting (fix) or not
    sc = fn_body(src, "scan", after="impl<Octs> Nsec3Salt<Octs>")
    m = one(r"if\s+self\.0\.is_none\(\)\s*\{\s*match\s+symbol\s*\{\s*EntrySymbol::Symbol\(symbol\)\s*if\s+symbol\.into_char\(\)\s*==\s*Ok\('(.)'\)\s*=>\s*\{\s*self\.0\s*=\s*Some\(None\);\s*return\s+Ok\(None\);\s*\}\s*_\s*=>\s*\{\s*self\.0\s*=\s*Some\(Some\(base16::SymbolConverter::new\(\)\)\);\s*\}\s*\}\s*\}", sc, "Nsec3Salt::scan first symbol")
    defs.append(("nsec3_salt_scan_empty_char", "N", "%d%%N" % ord(m.group(1))))
    one(r"Some\(None\)\s*=>\s*Err\(Error::custom\(\"illegal NSEC3 salt\"\)\)", sc, "Nsec3Salt::scan data after '-'")
    counted = re.search(r"Some\(Some\(base16\)\)\s*=>\s*\{\s*let\s+res\s*=\s*base16\.process_symbol\(symbol\)\?;\s*if\s+let\s+Some\(data\)\s*=\s*res\s*\{\s*self\.1\s*\+=\s*data\.len\(\);\s*if\s+self\.1\s*>\s*Nsec3Salt::MAX_LEN\s*\{\s*return\s+Err\(", sc)
    plain = re.search(r"Some\(Some\(base16\)\)\s*=>\s*base16\.process_symbol\(symbol\)\s*,", sc)
    if bool(counted) == bool(plain):
        raise GenError("Nsec3Salt::scan: cannot tell whether the converter limits the length")
    one(r"scanner\s*\.convert_token\(Converter::default\(\)\)\s*\.map\(\|res\|\s*unsafe\s*\{\s*Self::from_octets_unchecked\(res\)\s*\}\)\s*$", sc, "Nsec3Salt::scan result")
    defs.append(("nsec3_salt_scan_limited", "bool", "true" if counted else "false"))
    # OwnerHash
    fs = fn_body(src, "from_str", after="str::FromStr for OwnerHash")
    unchecked = re.search(r"^\s*base32::decode_hex\(s\)\s*\.map\(\|octets\|\s*unsafe\s*\{\s*Self::from_octets_unchecked\(octets\)\s*\}\)\s*$", fs)
    checked = re.search(r"^\s*base32::decode_hex\(s\)\.and_then\(\|octets\|\s*\{\s*Self::from_octets\(octets\)\s*\.map_err\(\|_\|\s*base32::DecodeError::ShortBuf\)\s*\}\)\s*$", fs)
    if bool(unchecked) == bool(checked):
        raise GenError("OwnerHash::from_str: unrecognised shape")
    defs.append(("nsec3_hash_from_str_limited", "bool", "true" if checked else "false"))
    dsp = fn_body(src, "fmt", after="fmt::Display for OwnerHash")
    one(r"^\s*base32::display_hex\(self\.as_slice\(\),\s*f\)\s*$", dsp, "Display for OwnerHash")
    sc = fn_body(src, "scan", after="impl<Octs> OwnerHash<Octs>")
    plain = re.search(r"^\s*scanner\s*\.convert_token\(base32::SymbolConverter::new\(\)\)\s*\.map\(\|octets\|\s*unsafe\s*\{\s*Self::from_octets_unchecked\(octets\)\s*\}\)\s*$", sc)
    counted = (re.search(r"\*len\s*\+=\s*data\.len\(\);\s*if\s+\*len\s*>\s*OwnerHash::MAX_LEN\s*\{\s*return\s+Err\(", sc)
               and re.search(r"let\s+data\s*=\s*self\.0\.process_symbol\(symbol\)\?;\s*Self::check\(&mut\s+self\.1,\s*data\)", sc)
               and re.search(r"process_tail\(&mut\s+self\.0\)\?;\s*Self::check\(&mut\s+self\.1,\s*data\)", sc)
               and re.search(r"\.convert_token\(Converter\(base32::SymbolConverter::new\(\),\s*0\)\)", sc))
    if bool(plain) == bool(counted):
        raise GenError("OwnerHash::scan: unrecognised shape")
    defs.append(("nsec3_hash_scan_limited", "bool", "true" if counted else "false"))

    # base/scan.rs: Symbol::from_chars, Symbol::into_char, IterScanner entry points
    sc = strip_comments(read("src/base/scan.rs"))
    fc = fn_body(sc, "from_chars", after="impl Symbol")
    one(r"if\s+ch\s*!=\s*'\\\\'\s*\{\s*return\s+Ok\(Some\(Symbol::Char\(ch\)\)\);\s*\}", fc, "Symbol::from_chars plain char")
    one(r"Some\(ch\)\s+if\s+ch\.is_ascii_digit\(\)\s*=>\s*\{\s*let\s+ch\s*=\s*ch\.to_digit\(10\)\.unwrap\(\)\s*\*\s*100;", fc, "Symbol::from_chars decimal escape")
    if len(re.findall(r"ch\.to_digit\(10\)\s*\{\s*Some\(ch\)\s*=>\s*ch(?:\s*\*\s*10)?\s*,\s*None\s*=>\s*return\s+Err\(bad_escape\(\)\)", fc)) != 2:
        raise GenError("Symbol::from_chars: second/third digit handling changed")
    m = one(r"let\s+res\s*=\s*ch\s*\+\s*ch2\s*\+\s*ch3;\s*if\s+res\s*>\s*%s\s*\{\s*return\s+Err\(bad_escape\(\)\);\s*\}\s*Ok\(Some\(Symbol::DecimalEscape\(res\s+as\s+u8\)\)\)" % NUM, fc, "Symbol::from_chars decimal limit")
    defs.append(("sym_decimal_max", "N", "%d%%N" % num(m.group(1))))
    m = one(r"let\s+ch\s*=\s*u8::try_from\(ch\)\.map_err\(\|_\|\s*bad_escape\(\)\)\?;\s*if\s+ch\s*<\s*%s\s*\|\|\s*ch\s*>\s*%s\s*\{\s*Err\(bad_escape\(\)\)\s*\}\s*else\s*\{\s*Ok\(Some\(Symbol::SimpleEscape\(ch\)\)\)" % (NUM, NUM), fc, "Symbol::from_chars simple escape")
    defs.append(("sym_simple_min", "N", "%d%%N" % num(m.group(1))))
    defs.append(("sym_simple_max", "N", "%d%%N" % num(m.group(2))))
    ic = fn_body(sc, "into_char", after="impl Symbol")
    m = one(r"Symbol::Char\(ch\)\s*=>\s*Ok\(ch\)\s*,\s*Symbol::SimpleEscape\(ch\)\s+if\s+ch\s*>=\s*%s\s*&&\s*ch\s*<\s*%s\s*=>\s*\{\s*Ok\(ch\.into\(\)\)\s*\}\s*_\s*=>\s*Err\(" % (NUM, NUM), ic, "Symbol::into_char")
    defs.append(("sym_char_min", "N", "%d%%N" % num(m.group(1))))
    defs.append(("sym_char_lim", "N", "%d%%N" % num(m.group(2))))
    io = fn_body(sc, "into_octet", after="impl Symbol")
    m = one(r"Symbol::Char\(ch\)\s*=>\s*\{\s*if\s+ch\.is_ascii\(\)\s*&&\s*ch\s*>=\s*'\\u\{([0-9A-Fa-f]+)\}'\s*&&\s*ch\s*<=\s*'\\u\{([0-9A-Fa-f]+)\}'\s*\{\s*Ok\(ch\s+as\s+u8\)\s*\}\s*else\s*\{\s*Err\(", io, "Symbol::into_octet char range")
    defs.append(("sym_octet_min", "N", "%d%%N" % int(m.group(1), 16)))
    defs.append(("sym_octet_max", "N", "%d%%N" % int(m.group(2), 16)))
    one(r"Symbol::SimpleEscape\(ch\)\s*\|\s*Symbol::DecimalEscape\(ch\)\s*=>\s*Ok\(ch\)", io, "Symbol::into_octet escapes")
    cs = strip_comments(read("src/base/charstr.rs"))
    m = one(r"pub\s+const\s+MAX_LEN\s*:\s*usize\s*=\s*(\d+)\s*;", cs, "CharStr::MAX_LEN")
    defs.append(("charstr_max", "N", "%d%%N" % int(m.group(1))))
    one(r"if\s+self\.0\.as_ref\(\)\.len\(\)\s*\+\s*slice\.len\(\)\s*>\s*CharStr::MAX_LEN\s*\{\s*return\s+Err\(ShortBuf\);\s*\}", cs, "CharStrBuilder::append_slice limit")
    it = impl_body(sc, r"impl<Iter,\s*Item,\s*Octets>\s*Scanner\s+for\s+IterScanner<Iter,\s*Octets>")
    # the other token-reading methods: symbol loop, then symbols.ok()? (or not: pre-fix)
    others = []
    for fn, body_rx in (
        ("scan_symbols", r"op\(sym\)\?;"),
        ("scan_entry_symbols", r"op\(sym\.into\(\)\)\?;"),
        ("scan_octets", r"match\s+sym\.into_octet\(\)\s*\{\s*Ok\(ch\)\s*=>\s*res\.append_slice\(&\[ch\]\)\.map_err\(Into::into\)\?,\s*Err\(_\)\s*=>\s*return\s+Err\(StrError::custom\(\"bad symbol\"\)\),\s*\}"),
        ("scan_charstr", r"match\s+sym\.into_octet\(\)\s*\{\s*Ok\(ch\)\s*=>\s*res\.append_slice\(&\[ch\]\)\?,\s*Err\(_\)\s*=>\s*return\s+Err\(StrError::custom\(\"bad symbol\"\)\),\s*\}"),
        ("scan_string", r"match\s+sym\.into_char\(\)\s*\{\s*Ok\(ch\)\s*=>\s*res\s*\.append_slice\(ch\.encode_utf8\(&mut\s+buf\)\.as_bytes\(\)\)\s*\.map_err\(Into::into\)\?,\s*Err\(_\)\s*=>\s*return\s+Err\(StrError::custom\(\"bad symbol\"\)\),\s*\}"),
    ):
        b = fn_body(it, fn)
        new = re.search(r"let\s+mut\s+symbols\s*=\s*Symbols::new\(token\.as_ref\(\)\.chars\(\)\);\s*for\s+sym\s+in\s+&mut\s+symbols\s*\{\s*" + body_rx + r"\s*\}\s*symbols\.ok\(\)\?;", b)
        old = re.search(r"for\s+sym\s+in\s+Symbols::new\(token\.as_ref\(\)\.chars\(\)\)\s*\{\s*" + body_rx + r"\s*\}", b)
        if bool(new) == bool(old):
            raise GenError("IterScanner::%s: unrecognised symbol loop" % fn)
        others.append(bool(new))
    b = fn_body(it, "scan_name")
    new = re.search(r"let\s+mut\s+symbols\s*=\s*Symbols::new\(token\.as_ref\(\)\.chars\(\)\);\s*let\s+name\s*=\s*Name::from_symbols\(&mut\s+symbols\)\s*\.map_err\(\|_\|\s*StrError::custom\(\"invalid domain name\"\)\)\?;\s*symbols\.ok\(\)\?;\s*Ok\(name\)\s*$", b)
    old = re.search(r"Name::from_symbols\(Symbols::new\(token\.as_ref\(\)\.chars\(\)\)\)\s*\.map_err\(", b)
    if bool(new) == bool(old):
        raise GenError("IterScanner::scan_name: unrecognised shape")
    others.append(bool(new))
    if len(set(others)) != 1:
        raise GenError("IterScanner: the token-reading methods differ in escape checking: %r" % others)
    one(r"op\(EntrySymbol::EndOfToken\)\?;", fn_body(it, "scan_entry_symbols"), "scan_entry_symbols EndOfToken")
    one(r"^\s*let\s+res\s*=\s*self\.scan_string\(\)\?;\s*if\s+res\.is_ascii\(\)\s*\{\s*op\(&res\)\s*\}\s*else\s*\{\s*Err\(StrError::custom\(\"non-ASCII characters\"\)\)\s*\}\s*$", fn_body(it, "scan_ascii_str"), "scan_ascii_str")
    one(r"while\s+self\.iter\.peek\(\)\.is_some\(\)\s*\{\s*self\.scan_charstr\(\)\?\.compose\(&mut\s+res\)\.map_err\(Into::into\)\?;\s*\}", fn_body(it, "scan_charstr_entry"), "scan_charstr_entry")
    m = one(r"Some\(token\)\s+if\s+token\.as_ref\(\)\s*==\s*\"(\\\\.)\"\s*=>\s*Ok\(true\),\s*_\s*=>\s*Ok\(false\)", fn_body(it, "scan_opt_unknown_marker"), "scan_opt_unknown_marker")
    mk = m.group(1).encode().decode("unicode_escape")
    defs.append(("unknown_marker", "list N", nlist([ord(x) for x in mk])))
    others_flag = others[0]
    flags = []
    for fn in ("convert_token", "convert_entry"):
        b = fn_body(it, fn)
        old = re.search(r"for\s+sym\s+in\s+Symbols::new\(token\.as_ref\(\)\.chars\(\)\)\s*\{\s*if\s+let\s+Some\(data\)\s*=\s*convert\.process_symbol\(sym(?:\.into\(\))?\)\?\s*\{\s*res\.append_slice\(data\)\.map_err\(Into::into\)\?;\s*\}\s*\}", b)
        new = re.search(r"let\s+mut\s+symbols\s*=\s*Symbols::new\(token\.as_ref\(\)\.chars\(\)\);\s*for\s+sym\s+in\s+&mut\s+symbols\s*\{\s*if\s+let\s+Some\(data\)\s*=\s*convert\.process_symbol\(sym(?:\.into\(\))?\)\?\s*\{\s*res\.append_slice\(data\)\.map_err\(Into::into\)\?;\s*\}\s*\}\s*symbols\.ok\(\)\?;", b)
        if bool(old) == bool(new):
            raise GenError("IterScanner::%s: unrecognised symbol loop" % fn)
        one(r"if\s+let\s+Some\(data\)\s*=\s*convert\.process_tail\(\)\?\s*\{\s*res\.append_slice\(data\)\.map_err\(Into::into\)\?;\s*\}\s*Ok\(<Octets\s+as\s+FromBuilder>::from_builder\(res\)\)\s*$", b, "IterScanner::%s tail" % fn)
        flags.append(bool(new))
    if flags[0] != flags[1]:
        raise GenError("IterScanner: convert_token and convert_entry differ in escape checking")
    if flags[0] != others_flag:
        raise GenError("IterScanner: convert_* and the other token-reading methods differ in escape checking")
    defs.append(("iter_scanner_checks_escapes", "bool", "true" if flags[0] else "false"))
    one(r"for\s+token\s+in\s+&mut\s+self\.iter\s*\{", fn_body(it, "convert_entry"), "IterScanner::convert_entry token loop")

    # the encode_string / encode_display wrappers are `display`
    for f, disp, es, ed in (("src/utils/base64.rs", "display", "encode_string", "encode_display"),
                            ("src/utils/base32.rs", "display_hex", "encode_string_hex", "encode_display_hex"),
                            ("src/utils/base16.rs", "display", "encode_string", "encode_display")):
        c = strip_comments(read(f)).split("mod test")[0]
        one(r"let\s+mut\s+res\s*=\s*String::with_capacity\([^;]*\);\s*%s\(bytes,\s*&mut\s+res\)\.unwrap\(\);\s*res\s*$" % disp, fn_body(c, es), "%s %s" % (f, es))
        one(r"fn\s+fmt\(&self,\s*f:\s*&mut\s+fmt::Formatter<'_>\)\s*->\s*fmt::Result\s*\{\s*%s\(self\.0,\s*f\)\s*\}\s*\}\s*Display\(octets\.as_ref\(\)\)\s*$" % disp, fn_body(c, ed), "%s %s" % (f, ed))
    one(r"^\s*decode\(s\)\s*$", fn_body(strip_comments(read("src/utils/base16.rs")), "decode_vec"), "base16 decode_vec")
    # the serde submodules: human readable = the text codec, otherwise raw octets
    for f, enc, dec in (("src/utils/base64.rs", r"encode_display", r"super::decode"),
                        ("src/utils/base32.rs", r"super::encode_display_hex", r"super::decode_hex"),
                        ("src/utils/base16.rs", r"super::encode_display", r"super::decode")):
        c = strip_comments(read(f)).split("mod test")[0]
        sm = impl_body(c, r"pub\s+mod\s+serde")
        one(r"if\s+serializer\.is_human_readable\(\)\s*\{\s*serializer\.collect_str\(&%s\(octets\)\)\s*\}\s*else\s*\{\s*octets\.serialize_octets\(serializer\)\s*\}\s*$" % enc, fn_body(sm, "serialize"), "%s serde::serialize" % f)
        one(r"%s\(v\)\.map_err\(E::custom\)\s*$" % dec, fn_body(sm, "visit_str"), "%s serde visit_str" % f)
        one(r"if\s+deserializer\.is_human_readable\(\)\s*\{\s*deserializer\.deserialize_str\(Visitor\(Octets::visitor\(\)\)\)\s*\}\s*else\s*\{\s*Octets::deserialize_with_visitor\(", fn_body(sm, "deserialize"), "%s serde::deserialize" % f)
    defs.append(("serde_modules_use_codecs", "bool", "true"))
    # the complete list of functions of the three modules: a new entry point (a
    # fast path, an encode-into-builder, another alphabet) must be modelled first
    expected = {
        "src/utils/base64.rs": ["decode", "display", "ch", "encode_string", "encode_display", "fmt", "serialize", "deserialize",
                                "expecting", "visit_str", "visit_borrowed_bytes", "visit_byte_buf", "new", "finalize", "push", "push_char",
                                "default", "new", "process_char", "process_symbol", "process_tail", "from", "fmt"],
        "src/utils/base32.rs": ["decode_hex", "display_hex", "ch", "encode_string_hex", "encode_display_hex", "fmt", "serialize", "deserialize",
                                "expecting", "visit_str", "visit_borrowed_bytes", "visit_byte_buf", "new_hex", "finalize", "push",
                                "octet_0", "octet_1", "octet_2", "octet_3", "octet_4", "append", "default", "new", "process_char",
                                "process_symbol", "process_tail"],
        "src/utils/base16.rs": ["decode", "decode_vec", "display", "encode_string", "encode_display", "fmt", "serialize", "deserialize",
                                "expecting", "visit_str", "visit_borrowed_bytes", "visit_byte_buf", "new", "finalize", "push", "append",
                                "default", "new", "process_symbol", "process_tail"],
    }
    for f, want in expected.items():
        c = strip_comments(read(f)).split("mod test")[0]
        got = re.findall(r"\bfn\s+([a-z_0-9]+)", c)
        if got != want:
            raise GenError("%s: the list of functions changed: %r (expected %r)" % (f, got, want))
    defs.append(("codec_entry_points_as_listed", "bool", "true"))
    # Nsec3Salt / OwnerHash serde: human readable = Display / FromStr, otherwise octets through from_octets
    n3 = strip_comments(read("src/rdata/nsec3.rs")).split("mod test")[0]
    for ty in ("Nsec3Salt", "OwnerHash"):
        ser = fn_body(n3, "serialize", after="serde::Serialize for %s" % ty)
        one(r"^\s*if\s+serializer\.is_human_readable\(\)\s*\{\s*serializer\.serialize_newtype_struct\(\s*\"%s\",\s*&format_args!\(\"\{\}\",\s*self\),?\s*\)\s*\}\s*else\s*\{\s*serializer\.serialize_newtype_struct\(\s*\"%s\",\s*&self\.0\.as_serialized_octets\(\),?\s*\)\s*\}\s*$" % (ty, ty), ser, "%s serialize" % ty)
        de = fn_body(n3, "deserialize", after="serde::Deserialize<'de> for %s" % ty)
        one(r"%s::from_str\(v\)\.map_err\(E::custom\)" % ty, de, "%s visit_str" % ty)
        if len(re.findall(r"%s::from_octets\(octets\)\.map_err\(E::custom\)" % ty, de)) != 2:
            raise GenError("%s deserialize: octets must go through from_octets" % ty)
    defs.append(("nsec3_serde_uses_text_entry_points", "bool", "true"))
    defs.append(("encode_wrappers_are_display", "bool", "true"))
    # bounded builders: how a failing append_slice is handled
    c64 = strip_comments(read("src/utils/base64.rs")).split("mod test")[0]
    imp = impl_body(c64, r"impl<Builder:\s*OctetsBuilder>\s*Decoder<Builder>")
    pb = fn_body(imp, "push_char") if re.search(r"\bfn\s+push_char\b", imp) else fn_body(imp, "push")
    if len(re.findall(r"\.append_slice\(\s*&\[.*?\]\s*\)\s*\.map_err\(Into::into\)\?;", pb, re.S)) != 3:
        raise GenError("base64 push: append_slice(..).map_err(Into::into)? expected three times")
    for f in ("src/utils/base32.rs", "src/utils/base16.rs"):
        c = strip_comments(read(f)).split("mod test")[0]
        imp = impl_body(c, r"impl<Builder:\s*OctetsBuilder>\s*Decoder<Builder>")
        one(r"^\s*let\s+target\s*=\s*match\s+self\.target\.as_mut\(\)\s*\{\s*Ok\(target\)\s*=>\s*target,\s*Err\(_\)\s*=>\s*return,\s*\};\s*if\s+let\s+Err\(err\)\s*=\s*target\.append_slice\(&\[value\]\)\s*\{\s*self\.target\s*=\s*Err\(err\.into\(\)\.into\(\)\);\s*\}\s*$", fn_body(imp, "append"), "%s Decoder::append" % f)
    defs.append(("shortbuf_paths_as_modelled", "bool", "true"))

def build():
    defs = []
    build64(defs)
    build32(defs)
    build16(defs)
    build_users(defs)
    # the decode convenience functions: push each char with `?`, then finalize
    for f, fn in (("src/utils/base64.rs", "decode"), ("src/utils/base32.rs", "decode_hex"), ("src/utils/base16.rs", "decode")):
        b = fn_body(strip_comments(read(f)), fn)
        one(r"for\s+ch\s+in\s+s\.chars\(\)\s*\{\s*decoder\.push\(ch\)\?;\s*\}\s*decoder\.finalize\(\)\s*$", b, "%s %s loop" % (f, fn))
    defs.append(("decode_is_push_try_finalize", "bool", "true"))
    return defs

if __name__ == "__main__":
    main("C18", "/repo/src/utils/base64.rs, base32.rs, base16.rs, rdata/nsec3.rs, base/scan.rs", build)
