#!/usr/bin/env python3
"""T1 extractor for C17: constants, operators and match arms of
Serial::{add,partial_cmp,canonical_cmp} and Version::next."""
import re, sys, os
sys.path.insert(0, os.path.dirname(os.path.abspath(__file__)))
from rs import *

def build():
    src = strip_comments(read("src/base/serial.rs"))
    defs = []
    add = fn_body(src, "add", after="impl Serial")
    m = one(r"assert!\(\s*other\s*(<=|<)\s*(0x[0-9A-Fa-f_]+|\d[\d_]*)\s*\)", add, "Serial::add guard")
    defs.append(("add_max", "N", "%d%%N" % num(m.group(2))))
    defs.append(("add_guard_is_le", "bool", "true" if m.group(1) == "<=" else "false"))
    m = one(r"Serial\(\s*self\.0\.(wrapping_add\(\s*other\s*\)|checked_add|saturating_add)", add, "Serial::add result")
    if not m.group(1).startswith("wrapping_add"):
        raise GenError("Serial::add no longer wraps")
    defs.append(("add_wraps", "bool", "true"))
    pc = fn_body(src, "partial_cmp", after="PartialOrd for Serial")
    one(r"match\s+self\.0\.cmp\(\s*&other\.0\s*\)", pc, "partial_cmp scrutinee")
    m = one(r"Ordering::Equal\s*=>\s*(Some\([^)]*\)|None)\s*,\s*Ordering::Less\s*=>", pc, "Equal arm")
    defs.append(("arm_eq", "option comparison", cmp_of(m.group(1))))
    halves = []
    for tag, key, nxt in (("lt", "Less", "Ordering::Greater"), ("gt", "Greater", None)):
        pat = r"Ordering::%s\s*=>\s*\{\s*let\s+sub\s*=\s*(other|self)\.0\s*-\s*(other|self)\.0\s*;\s*match\s+sub\.cmp\(\s*&(0x[0-9A-Fa-f_]+|\d[\d_]*)\s*\)\s*\{(.*?)\}\s*\}" % key
        m = one(pat, pc, "partial_cmp %s branch" % key)
        if m.group(1) == m.group(2):
            raise GenError("degenerate subtraction in %s branch" % key)
        halves.append(num(m.group(3)))
        if tag == "lt":
            defs.append(("lt_sub_other_minus_self", "bool", "true" if m.group(1) == "other" else "false"))
        else:
            defs.append(("gt_sub_self_minus_other", "bool", "true" if m.group(1) == "self" else "false"))
        arms = m.group(4)
        for a, k in (("lt", "Less"), ("gt", "Greater"), ("eq", "Equal")):
            mm = one(r"Ordering::%s\s*=>\s*(Some\([^)]*\)|None)\s*," % k, arms, "inner arm %s/%s" % (key, k))
            defs.append(("arm_%s_%s" % (tag, a), "option comparison", cmp_of(mm.group(1))))
    if halves[0] != halves[1]:
        raise GenError("the two branches compare against different constants")
    defs.insert(0, ("half", "N", "%d%%N" % halves[0]))
    cc = fn_body(src, "canonical_cmp", after="CanonicalOrd for Serial")
    one(r"^\s*self\.0\.cmp\(\s*&other\.0\s*\)\s*$", cc, "Serial::canonical_cmp")
    defs.append(("canonical_is_u32_cmp", "bool", "true"))
    vs = strip_comments(read("src/zonetree/in_memory/versioned.rs"))
    nx = fn_body(vs, "next", after="impl Version")
    m = one(r"Version\(\s*self\.0\.add\(\s*(\d+)\s*\)\s*\)", nx, "Version::next")
    defs.append(("version_next_addend", "N", "%d%%N" % num(m.group(1))))
    ts = strip_comments(read("src/rdata/dnssec.rs"))
    tp = fn_body(ts, "partial_cmp", after="PartialOrd for Timestamp")
    one(r"^\s*self\.0\.partial_cmp\(\s*&other\.0\s*\)\s*$", tp, "Timestamp::partial_cmp delegates to Serial")
    # call sites that decide "which is newer" with these comparisons
    gs = strip_comments(read("src/dnssec/validator/group.rs"))
    m = one(r"if\s+!\(\s*ts_now\s*<=\s*rrsig\.expiration\(\)\s*&&\s*ts_now\s*>=\s*rrsig\.inception\(\)\s*\)\s*\{\s*return\s+false\s*;",
            gs, "validator signature time check uses the serial order of Timestamp (<=, >=)")
    if "canonical_gt" in gs or "canonical_lt" in gs:
        raise GenError("validator group.rs compares times with canonical (plain u32) order")
    defs.append(("sig_time_uses_serial_order", "bool", "true"))
    xs = strip_comments(read("src/net/server/middleware/xfr/service.rs"))
    one(r"if\s+query_serial\s*>=\s*soa\.serial\(\)\s*\{", xs, "IXFR up-to-date test is `query_serial >= soa.serial()` on Serial")
    defs.append(("ixfr_uptodate_is_serial_ge", "bool", "true"))
    zt = strip_comments(read("src/zonetree/types.rs"))
    one(r"if\s+start_serial\s*==\s*end_serial\s*\|\|\s*end_serial\s*<\s*start_serial\s*\{", zt, "diff builder serial range check")
    defs.append(("diff_range_rejects_eq_or_serial_lt", "bool", "true"))
    # date notation: both parsers cast the epoch seconds to u32 (wraps mod 2^32)
    casts = re.findall(r"Self\(\s*Serial\(\s*time\.as_second\(\)\s+as\s+u32\s*\)\s*\)", ts)
    if len(casts) != 2:
        raise GenError("Timestamp date notation: expected two `Serial(time.as_second() as u32)` sites (scan and from_str), found %d" % len(casts))
    if "clamp(" in ts[ts.find("impl Timestamp"):ts.find("impl fmt::Display for Timestamp")]:
        raise GenError("Timestamp date notation clamps instead of wrapping")
    defs.append(("date_cast_wraps", "bool", "true"))
    # Serial from a point in time (jiff / chrono): seconds since the epoch cast to u32 (wraps mod 2^32)
    fj = impl_body(src, r"impl\s+From<jiff::Timestamp>\s+for\s+Serial")
    one(r"Self\(\s*value\.as_second\(\)\s+as\s+u32\s*\)", fj, "From<jiff::Timestamp> for Serial is `Self(value.as_second() as u32)`")
    fc = impl_body(src, r"impl<T:\s*TimeZone>\s+From<DateTime<T>>\s+for\s+Serial")
    one(r"Self\(\s*value\.timestamp\(\)\s+as\s+u32\s*\)", fc, "From<chrono::DateTime> for Serial is `Self(value.timestamp() as u32)`")
    for body in (fj, fc):
        if re.search(r"clamp\(|saturating|min\(|max\(|try_from|try_into", body):
            raise GenError("Serial from a point in time clamps / checks instead of wrapping")
    defs.append(("from_time_cast_wraps", "bool", "true"))
    # commit(true): the SOA serial is bumped with Serial::add(1) exactly when the writer left the
    # SOA alone (absent in the new version, or EQUAL to the published one) - no ordering of SOA
    # records or serials decides it
    wz = strip_comments(read("src/zonetree/in_memory/write.rs"))
    one(r"if\s+bump_soa_serial\s*&&\s*old_soa_rr\.is_some\(\)\s*&&\s*\(\s*new_soa_rr\.is_none\(\)\s*\|\|\s*new_soa_rr\s*==\s*old_soa_rr\s*\)\s*\{\s*self\.bump_soa_serial\(&old_soa_rr\);",
        wz, "commit(): bump condition `new_soa_rr.is_none() || new_soa_rr == old_soa_rr`")
    m = one(r"let\s+new_soa_serial\s*=\s*old_soa\.serial\(\)\.add\((\d+)\)\s*;", fn_body(wz, "bump_soa_serial"),
            "bump_soa_serial(): `old_soa.serial().add(1)`")
    defs.append(("commit_bump_addend", "N", str(num(m.group(1)))))
    defs.append(("commit_bumps_iff_soa_untouched", "bool", "true"))
    # the derived comparison operators must not be overridden
    pc_impl = impl_body(src, r"impl\s+cmp::PartialOrd\s+for\s+Serial")
    for op in ("lt", "le", "gt", "ge"):
        if re.search(r"\bfn\s+%s\b" % op, pc_impl):
            raise GenError("PartialOrd for Serial overrides `%s` (operators must derive from partial_cmp)" % op)
    tp_impl = impl_body(ts, r"impl\s+cmp::PartialOrd\s+for\s+Timestamp")
    for op in ("lt", "le", "gt", "ge"):
        if re.search(r"\bfn\s+%s\b" % op, tp_impl):
            raise GenError("PartialOrd for Timestamp overrides `%s`" % op)
    defs.append(("operators_derive_from_partial_cmp", "bool", "true"))
    # whole SOA records order their serial as a plain u32 (Soa's derived-style
    # comparison); code deciding "which version is newer" must therefore compare
    # Serial values, never Soa values: no ordering comparison on SOA records in
    # the transfer interpreter / iterator / zone updater
    for rel in ("src/net/xfr/protocol/interpreter.rs", "src/net/xfr/protocol/iterator.rs", "src/zonetree/update.rs"):
        body = strip_comments(read(rel))
        body = body.split("#[cfg(test)]")[0]
        for m in re.finditer(r"\b(\w*soa\w*)\s*(<=|>=|<|>)\s*&?\s*(?:self\.)?(\w*soa\w*)\b", body):
            raise GenError("%s orders SOA records with `%s %s %s` (Soa compares serials as plain u32; RFC 1982 needs Serial comparison)" % (rel, m.group(1), m.group(2), m.group(3)))
        if re.search(r"\bsoa\w*\.(?:partial_cmp|cmp|canonical_cmp)\(", body):
            raise GenError("%s orders SOA records with a comparison method" % rel)
    defs.append(("transfer_code_never_orders_soa_records", "bool", "true"))
    return defs

if __name__ == "__main__":
    main("C17", "/repo/src/base/serial.rs, zonetree/in_memory/versioned.rs, rdata/dnssec.rs", build)
