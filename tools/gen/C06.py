#!/usr/bin/env python3
"""T1 extractor for C06: the escape tables of the writers (Display for Label,
Symbol::{from_octet,quoted_from_octet,display_from_octet}, Display for Symbol),
the reader's character classes (Symbol::is_word_char, into_octet,
SourceBuf::next_item), the separators of the three zone-file writers, the field
order of Record's ZonefileFmt, the RFC 3597 generic form, and the mnemonic
tables of Rtype and Class."""
import re, sys, os
sys.path.insert(0, os.path.dirname(os.path.abspath(__file__)))
from rs import *

ESC = {"n": 10, "t": 9, "r": 13, "\\": 92, "'": 39, '"': 34, "0": 0}

def charlit(s):
    """value of the inside of a Rust char / byte literal"""
    if len(s) == 1:
        return ord(s)
    if s[0] == "\\" and len(s) == 2 and s[1] in ESC:
        return ESC[s[1]]
    m = re.fullmatch(r"\\x([0-9a-fA-F]{2})", s)
    if m:
        return int(m.group(1), 16)
    m = re.fullmatch(r"\\u\{([0-9a-fA-F]+)\}", s)
    if m:
        return int(m.group(1), 16)
    raise GenError("unrecognised char literal %r" % s)

LIT = r"(?:\\.|\\x[0-9a-fA-F]{2}|\\u\{[0-9a-fA-F]+\}|[^'\\])"

def nlist(xs):
    return "[" + "; ".join("%d%%N" % x for x in xs) + "]"

def coq_str(s):
    return nlist([ord(c) for c in s])

def enc_table(body, what):
    """`if ch == b'x' || ... { escape } else if !(LO..HI).contains(&ch) { decimal } else { plain }`"""
    m = one(r"^\s*(?:for\s+ch\s+in\s+self\.iter\(\)\s*\{\s*)?if\s+((?:ch\s*==\s*b'" + LIT + r"'\s*(?:\|\|)?\s*)+)\{(.*?)\}\s*else\s+if\s+!\(\s*(0x[0-9A-Fa-f]+|\d+)\s*\.\.\s*(=?)\s*(0x[0-9A-Fa-f]+|\d+)\s*\)\s*\.contains\(\s*&ch\s*\)\s*\{(.*?)\}\s*else\s*\{(.*)\}", body, what)
    esc = [charlit(x) for x in re.findall(r"ch\s*==\s*b'(" + LIT + r")'", m.group(1))]
    lo, hi = num(m.group(3)), num(m.group(5)) + (1 if m.group(4) else 0)
    return esc, lo, hi, m.group(2), m.group(6), m.group(7)


# ---------------------------------------------------------------- per-type presentation schemas

W_U8, W_U16, W_U32, W_NAME, W_CSTR, W_B16, W_B64, W_WORD, W_CSTRS, W_TYPES, W_SALT, W_B32, W_RTYPE, W_QUOTED, W_IP4, W_GATEWAY, W_DOT = 1, 2, 3, 4, 5, 6, 7, 8, 9, 10, 11, 12, 13, 14, 15, 16, 17
R_U8, R_U16, R_U32, R_NAME, R_CSTR, R_B16REST, R_B64REST, R_OCTETS, R_CSTRS, R_TIMESTAMP, R_TYPES, R_SALT, R_ENUM8, R_RTYPE, R_B32TOKEN, R_IP4, R_GATEWAY, R_DOT = 1, 2, 3, 4, 5, 6, 7, 8, 9, 10, 11, 12, 13, 14, 15, 16, 17, 18

REGULAR = [  # struct, file
    ("A", "src/rdata/rfc1035/a.rs"), ("Aaaa", "src/rdata/aaaa.rs"), ("Soa", "src/rdata/rfc1035/soa.rs"),
    ("Hinfo", "src/rdata/rfc1035/hinfo.rs"), ("Minfo", "src/rdata/rfc1035/minfo.rs"), ("Mx", "src/rdata/rfc1035/mx.rs"),
    ("Txt", "src/rdata/rfc1035/txt.rs"), ("Rp", "src/rdata/rp.rs"), ("Srv", "src/rdata/srv.rs"), ("Naptr", "src/rdata/naptr.rs"),
    ("Ds", "src/rdata/dnssec.rs"), ("Dnskey", "src/rdata/dnssec.rs"), ("Rrsig", "src/rdata/dnssec.rs"),
    ("Cds", "src/rdata/cds.rs"), ("Cdnskey", "src/rdata/cds.rs"), ("Sshfp", "src/rdata/sshfp.rs"), ("Tlsa", "src/rdata/tlsa.rs"),
    ("Zonemd", "src/rdata/zonemd.rs"), ("Openpgpkey", "src/rdata/openpgpkey.rs"),
    ("Nsec", "src/rdata/dnssec.rs"), ("Nsec3", "src/rdata/nsec3.rs"), ("Nsec3param", "src/rdata/nsec3.rs"), ("Caa", "src/rdata/caa.rs"),
]

def call_args(body, start):
    """body[start] == '(' ; returns (argument text, index after the closing paren)"""
    depth, i = 0, start
    while i < len(body):
        c = body[i]
        if c == '"':
            i += 1
            while body[i] != '"':
                i += 2 if body[i] == "\\" else 1
        elif c == "(":
            depth += 1
        elif c == ")":
            depth -= 1
            if depth == 0:
                return body[start + 1:i], i + 1
        i += 1
    raise GenError("unbalanced call")

def decimal_enums():
    """iana types whose presentation is a decimal number (+ a comment in the multi-line form)"""
    out = {}
    d = os.path.join(REPO, "src/base/iana")
    for fn in sorted(os.listdir(d)):
        if not fn.endswith(".rs") or fn == "macros.rs":
            continue
        src = strip_comments(read("src/base/iana/" + fn))
        for m in re.finditer(r"int_enum_zonefile_fmt_decimal!\(\s*(\w+)\s*,", src):
            t = m.group(1)
            w = re.search(r"int_enum_str_decimal!\(\s*%s\s*,\s*(u8|u16)\s*\)" % t, src)
            if not w:
                raise GenError("decimal enum %s has no int_enum_str_decimal" % t)
            out[t] = w.group(1)
    mac = strip_comments(read("src/base/iana/macros.rs"))
    body = mac[mac.index("macro_rules! int_enum_zonefile_fmt_decimal"):mac.index("macro_rules! int_enum_zonefile_fmt_with_decimal")]
    one(r"p\.write_token\(self\.to_int\(\)\)\?;\s*if let Some\(mnemonic\) = self\.to_mnemonic_str\(\)\s*\{\s*p\.write_comment\(format_args!", body, "decimal enum ZonefileFmt")
    body = mac[mac.index("macro_rules! int_enum_str_decimal"):mac.index("macro_rules! int_enum_str_with_decimal")]
    one(r"fn from_str\(s: &str\)[^{]*\{\s*s\.parse\(\)\.map\(\$ianatype::from_int\)", body, "decimal enum FromStr")
    one(r'write!\(f,\s*"\{\}",\s*self\.to_int\(\)\)', body, "decimal enum Display")
    return out

def struct_fields(src, name):
    if re.search(r"pub struct %s\s*(?:<[^>{(]*>)?\s*\(" % name, src):
        return {}
    m = one(r"pub struct %s\s*(?:<[^>{]*>)?\s*\{" % name, src, "struct " + name)
    body = block_from(src, m.end() - 1)
    body = re.sub(r"#\[[^\]]*\]", "", re.sub(r"#\[cfg_attr\((?:[^()]|\([^()]*\))*\)\]", "", body))
    return dict((f, t.strip()) for f, t in re.findall(r"(?:pub(?:\([a-z]+\))?\s+)?(\w+)\s*:\s*([^,\n]+),", body))

def enclosing_impl(src, pos):
    i = src.rfind("\nimpl", 0, pos)
    m = re.match(r"\nimpl\s*(?:<[^{]*?>)?\s*(\w+)", src[i:])
    return m.group(1) if m else None

def uint_kind(t):
    return {"u8": W_U8, "u16": W_U16, "u32": W_U32}.get(t)

def type_schema(name, path, enums, codes):
    src = strip_comments(read(path))
    fields = struct_fields(src, name)
    # ---- writer
    hdr = [m for m in re.finditer(r"impl\s*<[^{]*?ZonefileFmt\s+for\s+%s\s*<|impl\s+ZonefileFmt\s+for\s+%s\s*\{" % (name, name), src)]
    if len(hdr) != 1:
        raise GenError("ZonefileFmt for %s: %d impls" % (name, len(hdr)))
    body = fn_body(src, "fmt", after=hdr[0].group(0))
    block = bool(re.search(r"p\.block\(\|p\|", body))
    wf = []   # [kind, cflag, ctext]
    if re.search(r"for\s+\w+\s+in\s+self\.iter_charstrs\(\)\s*\{\s*p\.write_token\(\w+\.display_quoted\(\)\)\?;\s*\}", body):
        wf.append([W_CSTRS, 0, ""])
    else:
        for m in re.finditer(r"p\.(write_token|write_show|write_comment)\(", body):
            raw, _ = call_args(body, m.end() - 1)
            raw = raw.strip()
            arg = re.sub(r"\s+", "", raw)
            what = m.group(1)
            if what == "write_comment":
                lit = re.fullmatch(r'"([^"\\]*)"', raw)
                if wf and wf[-1][1] == 2 and lit:
                    wf[-1][1], wf[-1][2] = 3, lit.group(1)      # a dynamic comment, then a static one
                    continue
                if not wf or wf[-1][1] != 0:
                    raise GenError("%s: comment without a token / unsupported second comment" % name)
                wf[-1][1], wf[-1][2] = (1, lit.group(1)) if lit else (2, "")
                continue
            f = re.fullmatch(r"&?self\.(\w+)", arg)
            if what == "write_show":
                if not f:
                    raise GenError("%s: write_show(%s)" % (name, arg))
                t = fields.get(f.group(1))
                if t in ("Ttl", "Timestamp"):
                    wf.append([W_U32, 0, ""])
                elif t in enums:
                    wf.append([W_U8 if enums[t] == "u8" else W_U16, 2, ""])
                elif t == "Rtype":
                    wf.append([W_RTYPE, 0, ""])
                elif t and t.startswith("RtypeBitmap<"):
                    wf.append([W_TYPES, 0, ""])
                elif t and t.startswith("Nsec3Salt<"):
                    wf.append([W_SALT, 2, ""])      # a block of its own with a (dynamic) comment
                elif t and t.startswith("IpseckeyGateway<"):
                    wf.append([W_GATEWAY, 0, ""])   # resolved by the gateway type, see ipseckey_gateways
                else:
                    raise GenError("%s: write_show of field type %r" % (name, t))
                continue
            if re.fullmatch(r"self\.\w+\.fmt_with_dot\(\)", arg):
                wf.append([W_NAME, 0, ""])
            elif re.fullmatch(r"self\.\w+\.display_quoted\(\)", arg):
                wf.append([W_CSTR, 0, ""])
            elif re.fullmatch(r"base16::encode_display\(&self\.\w+\)", arg):
                wf.append([W_B16, 0, ""])
            elif re.fullmatch(r"base64::encode_display\(&self\.\w+\)", arg):
                wf.append([W_B64, 0, ""])
            elif re.fullmatch(r"base32::encode_display_hex\(&self\.\w+\)", arg):
                wf.append([W_B32, 0, ""])
            elif re.fullmatch(r"DisplayQuoted::from_slice\(self\.\w+\.as_ref\(\)\)", arg):
                wf.append([W_QUOTED, 0, ""])
            elif f:
                t = fields.get(f.group(1))
                if uint_kind(t):
                    wf.append([uint_kind(t), 0, ""])
                elif t == "Serial":
                    wf.append([W_U32, 0, ""])
                elif t == "Ipv4Addr":
                    wf.append([W_IP4, 0, ""])
                elif t == "Ipv6Addr":
                    wf.append([W_WORD, 0, ""])
                elif t in enums:
                    wf.append([W_U8 if enums[t] == "u8" else W_U16, 0, ""])
                elif t == "CaaFlags":
                    wf.append([W_U8, 0, ""])
                elif t and t.startswith("CaaTag<"):
                    wf.append([W_WORD, 0, ""])
                else:
                    raise GenError("%s: write_token of field type %r" % (name, t))
            else:
                raise GenError("%s: write_token(%s)" % (name, arg))
    # ---- reader
    scans = [m for m in re.finditer(r"pub fn scan\s*<", src) if enclosing_impl(src, m.start()) == name]
    if len(scans) != 1:
        raise GenError("scan of %s: %d candidates" % (name, len(scans)))
    i = src.find("->", scans[0].end())
    body = block_from(src, src.find("{", i))
    rk = []
    body = body.replace("IpseckeyGateway::scan(scanner, gateway_type)", "IpseckeyGatewayByType::scan(scanner)")
    pat = r"(\w+)::scan\(scanner\)|scanner\.(scan_name|scan_charstr|scan_octets|scan_charstr_entry)\(\)|scanner\.convert_entry\(base(16|64)::SymbolConverter::new\(\)\)"
    for m in re.finditer(pat, body):
        if m.group(1):
            t = m.group(1)
            k = {"u8": R_U8, "u16": R_U16, "u32": R_U32, "Serial": R_U32, "Ttl": R_U32, "Timestamp": R_TIMESTAMP, "Rtype": R_RTYPE,
                 "IpseckeyGatewayByType": R_GATEWAY, "RtypeBitmap": R_TYPES, "Nsec3Salt": R_SALT, "OwnerHash": R_B32TOKEN, "CaaFlags": R_U8, "CaaTag": R_CSTR}.get(t)
            if k is None and t in enums:
                k = R_ENUM8
            if k is None:
                raise GenError("%s: %s::scan" % (name, t))
            rk.append(k)
        elif m.group(2):
            rk.append({"scan_name": R_NAME, "scan_charstr": R_CSTR, "scan_octets": R_OCTETS, "scan_charstr_entry": R_CSTRS}[m.group(2)])
        else:
            rk.append(R_B16REST if m.group(3) == "16" else R_B64REST)
    if name == "A":
        one(r"let\s+token\s*=\s*scanner\.scan_octets\(\)\?;\s*let\s+token\s*=\s*str::from_utf8\(token\.as_ref\(\)\)[^;]*;\s*A::from_str\(token\)", body, "A::scan")
        one(r"Ipv4Addr::from_str\(s\)\.map\(A::new\)", src, "A::from_str")
        rk = [R_IP4 if k == R_OCTETS else k for k in rk]
    if "scanner" in re.sub(pat, "", body).replace("scanner: &mut S", ""):
        raise GenError("%s: scan uses the scanner in a way the extractor does not know" % name)
    code = codes.get(name.upper())
    if code is None:
        raise GenError("no rtype code for %s" % name)
    return code, block, wf, rk

def name_types(codes):
    """record types declared through the name_type_* macros: one name"""
    mac = strip_comments(read("src/rdata/macros.rs"))
    base = mac[mac.index("macro_rules! name_type_base"):mac.index("macro_rules! name_type_well_known")]
    one(r"p\.write_token\(self\.\$field\.fmt_with_dot\(\)\)", base, "name type ZonefileFmt")
    one(r"pub fn scan<[^{]*\{\s*scanner\.scan_name\(\)\.map\(Self::new\)", base, "name type scan")
    out = []
    for path in ("src/rdata/rfc1035/name.rs", "src/rdata/dname.rs"):
        src = strip_comments(read(path))
        for m in re.finditer(r"name_type_\w+!\s*\{\s*(?:#\[[^\]]*\]\s*)*\(\s*(\w+)\s*,\s*(\w+)\s*,", src):
            code = codes.get(m.group(2))
            if code is None:
                raise GenError("no rtype code for %s" % m.group(2))
            out.append((code, False, [[W_NAME, 0, ""]], [R_NAME]))
    if len(out) != 9:
        raise GenError("expected 9 single-name record types, found %d" % len(out))
    return out

def schemas(codes):
    enums = decimal_enums()
    ser = strip_comments(read("src/base/serial.rs"))
    one(r"pub fn scan<S: Scanner>\(scanner: &mut S\)[^{]*\{\s*u32::scan\(scanner\)\.map\(Into::into\)", ser, "Serial::scan")
    one(r'impl fmt::Display for Serial\s*\{\s*fn fmt[^{]*\{\s*write!\(f,\s*"\{\}",\s*self\.0\)', ser, "Serial Display")
    ds = strip_comments(read("src/rdata/dnssec.rs"))
    one(r"impl ZonefileFmt for Timestamp\s*\{\s*fn fmt[^{]*\{\s*p\.write_token\(self\.0\)", ds, "Timestamp ZonefileFmt")
    one(r"if\s+token\.len\(\)\s*<=\s*10\s*\{\s*let\s+time\s*=\s*token\.parse::<u32>\(\)", ds, "Timestamp scan decimal form")
    # RtypeBitmap: one token per type; scan: types to the end of the entry
    one(r"impl<Octs: AsRef<\[u8\]>> ZonefileFmt for RtypeBitmap<Octs>\s*\{\s*fn fmt[^{]*\{\s*for\s+rtype\s+in\s+self\s*\{\s*p\.write_token\(rtype\)\?;\s*\}\s*Ok\(\(\)\)", ds, "RtypeBitmap ZonefileFmt")
    one(r"while\s+scanner\.continues\(\)\s*\{\s*builder\s*\.add\(Rtype::scan\(scanner\)\?\)", ds, "RtypeBitmap::scan")
    n3 = strip_comments(read("src/rdata/nsec3.rs"))
    body = fn_body(n3, "fmt", after="ZonefileFmt for Nsec3Salt<Octs>")
    one(r'^\s*p\.block\(\|p\|\s*\{\s*if\s+self\.as_slice\(\)\.is_empty\(\)\s*\{\s*p\.write_token\("-"\)\?;\s*\}\s*else\s*\{\s*p\.write_token\(base16::encode_display\(self\)\)\?;\s*\}\s*p\.write_comment\(format_args!\(', body, "Nsec3Salt ZonefileFmt")
    one(r"symbol\.into_char\(\)\s*==\s*Ok\('-'\)", n3, "Nsec3Salt::scan dash")
    body = n3[n3.index("impl<Octs> OwnerHash<Octs>"):]
    body = fn_body(body, "scan")
    one(r"base32::SymbolConverter::new\(\)", body, "OwnerHash::scan uses the Base 32 converter")
    one(r"scanner\s*\.convert_token\(", body, "OwnerHash::scan reads one token")
    caa = strip_comments(read("src/rdata/caa.rs"))
    one(r'impl fmt::Display for CaaFlags\s*\{\s*fn fmt[^{]*\{\s*write!\(f,\s*"\{\}",\s*self\.0\)', caa, "CaaFlags Display")
    one(r"Ok\(CaaFlags\(u8::scan\(scanner\)\?\)\)", caa, "CaaFlags scan")
    one(r"let\s+octets\s*=\s*CharStr::scan\(scanner\)\?;\s*CaaTag::check_slice\(octets\.as_slice\(\)\)", caa, "CaaTag scan")
    one(r"octets\.iter\(\)\.any\(\|e\|\s*!e\.is_ascii_alphanumeric\(\)\)", caa, "CaaTag charset")
    all_ = name_types(codes) + [type_schema(n, p, enums, codes) for n, p in REGULAR]
    all_.sort()
    def fld(f):
        return "(%d%%N, (%d%%N, %s))" % (f[0], f[1], coq_str(f[2]))
    def sch(x):
        c, b, wf, rk = x
        return "(%d%%N, (%s, ([%s], %s)))" % (c, "true" if b else "false", "; ".join(fld(f) for f in wf), nlist(rk))
    # IPSECKEY: the gateway field's kind depends on the gateway type
    ipk = type_schema("Ipseckey", "src/rdata/ipseckey.rs", enums, codes)
    isrc = strip_comments(read("src/rdata/ipseckey.rs"))
    one(r"let\s+precedence\s*=\s*u8::scan\(scanner\)\?;\s*let\s+gateway_type\s*=\s*u8::scan\(scanner\)\?\.into\(\);\s*let\s+algorithm\s*=\s*u8::scan\(scanner\)\?\.into\(\);\s*let\s+gateway\s*=\s*IpseckeyGateway::scan\(scanner,\s*gateway_type\)\?;", isrc, "Ipseckey::scan order")
    one(r"if\s+key\.as_ref\(\)\.is_empty\(\)\s*&&\s*algorithm\s*!=\s*IpseckeyAlgorithm::NONE\s*\{\s*return\s+Err", isrc, "Ipseckey::scan key rule")
    wbody = fn_body(isrc, "fmt", after="ZonefileFmt for IpseckeyGateway<N>")
    rbody = fn_body(isrc, "scan", after="impl<N> IpseckeyGateway<N>") if "impl<N> IpseckeyGateway<N>" in isrc else None
    if rbody is None:
        m = one(r"pub fn scan<S: Scanner<Name = N>>\(\s*scanner: &mut S,\s*gateway_type: IpseckeyGatewayType,", isrc, "IpseckeyGateway::scan")
        rbody = block_from(isrc, isrc.find("{", isrc.find("->", m.end())))
    warm = {"None": (r'IpseckeyGateway::None\s*=>\s*p\.write_token\("\."\)\?', W_DOT),
            "Ipv4": (r"IpseckeyGateway::Ipv4\(a\)\s*=>\s*p\.write_show\(a\)\?", W_IP4),
            "Ipv6": (r"IpseckeyGateway::Ipv6\(aaaa\)\s*=>\s*p\.write_show\(aaaa\)\?", W_WORD),
            "Name": (r"IpseckeyGateway::Name\(n\)\s*=>\s*p\.write_token\(n\.fmt_with_dot\(\)\)\?", W_NAME)}
    rarm = {"None": (r'IpseckeyGatewayType::NONE\s*=>\s*\{\s*scanner\.scan_ascii_str\(\|s\|\s*\{\s*if\s+s\s*==\s*"\."\s*\{\s*Ok\(Self::None\)', R_DOT),
            "Ipv4": (r"IpseckeyGatewayType::IPV4\s*=>\s*Self::Ipv4\(A::scan\(scanner\)\?\)", R_IP4),
            "Ipv6": (r"IpseckeyGatewayType::IPV6\s*=>\s*Self::Ipv6\(Aaaa::scan\(scanner\)\?\)", R_OCTETS),
            "Name": (r"IpseckeyGatewayType::NAME\s*=>\s*Self::Name\(scanner\.scan_name\(\)\?\)", R_NAME)}
    gsrc = strip_comments(read("src/base/iana/ipseckey.rs"))
    gws = []
    for nm, const in (("None", "NONE"), ("Ipv4", "IPV4"), ("Ipv6", "IPV6"), ("Name", "NAME")):
        one(warm[nm][0], wbody, "IpseckeyGateway fmt " + nm)
        one(rarm[nm][0], rbody, "IpseckeyGateway scan " + nm)
        m = one(r"IpseckeyGatewayType, u8;.*?\(%s\s*=>\s*(\d+)," % const, gsrc, "gateway type " + const)
        gws.append("(%s%%N, (%d%%N, %d%%N))" % (m.group(1), warm[nm][1], rarm[nm][1]))
    afmt = strip_comments(read("src/rdata/aaaa.rs"))
    one(r"impl ZonefileFmt for Aaaa\s*\{\s*fn fmt[^{]*\{\s*p\.write_token\(self\.addr\)", afmt, "Aaaa ZonefileFmt")
    return ("[" + ";\n  ".join(sch(x) for x in all_) + "]", sch(ipk), "[" + "; ".join(gws) + "]")

def build():
    defs = []
    # ---- Display for Label
    lab = strip_comments(read("src/base/name/label.rs"))
    body = fn_body(lab, "fmt", after="impl fmt::Display for Label")
    esc, lo, hi, b_esc, b_dec, b_plain = enc_table(body, "Display for Label")
    one(r'write!\(\s*f\s*,\s*"\\\\\{\}"\s*,\s*ch as char\s*\)', b_esc, "Label simple escape format")
    one(r'write!\(\s*f\s*,\s*"\\\\\{:03\}"\s*,\s*ch\s*\)', b_dec, "Label decimal escape format")
    one(r'write!\(\s*f\s*,\s*"\{\}"\s*,\s*\(?ch as char\)?\s*\)', b_plain, "Label plain format")
    defs += [("label_esc", "list N", nlist(esc)), ("label_plain_lo", "N", "%d%%N" % lo), ("label_plain_hi", "N", "%d%%N" % hi)]
    # ---- Symbol tables
    scan = strip_comments(read("src/base/scan.rs"))
    los, his = set(), set()
    for fn, name in (("from_octet", "from_octet_esc"), ("quoted_from_octet", "quoted_esc"), ("display_from_octet", "display_esc")):
        body = fn_body(scan, fn, after="impl Symbol")
        esc, lo, hi, b_esc, b_dec, b_plain = enc_table(body, "Symbol::" + fn)
        one(r"Symbol::SimpleEscape\(ch\)", b_esc, fn + " escape arm")
        one(r"Symbol::DecimalEscape\(ch\)", b_dec, fn + " decimal arm")
        one(r"Symbol::Char\(ch as char\)", b_plain, fn + " plain arm")
        defs.append((name, "list N", nlist(esc)))
        los.add(lo); his.add(hi)
    if len(los) != 1 or len(his) != 1:
        raise GenError("Symbol::*from_octet use different printable ranges")
    defs += [("sym_plain_lo", "N", "%d%%N" % los.pop()), ("sym_plain_hi", "N", "%d%%N" % his.pop())]
    # Display for Symbol
    body = fn_body(scan, "fmt", after="impl fmt::Display for Symbol")
    one(r'Symbol::Char\(ch\)\s*=>\s*write!\(f,\s*"\{\}",\s*ch\)', body, "Symbol display Char")
    one(r'Symbol::SimpleEscape\(ch\)\s*=>\s*write!\(f,\s*"\\\\\{\}",\s*ch as char\)', body, "Symbol display SimpleEscape")
    one(r'Symbol::DecimalEscape\(ch\)\s*=>\s*write!\(f,\s*"\\\\\{:03\}",\s*ch\)', body, "Symbol display DecimalEscape")
    defs.append(("sym_display_checked", "bool", "true"))
    # is_word_char
    body = fn_body(scan, "is_word_char", after="impl Symbol")
    m = one(r"Symbol::Char\(ch\)\s*=>\s*\{((?:\s*(?:&&)?\s*ch\s*!=\s*'" + LIT + r"')+)\s*\}\s*_\s*=>\s*true", body, "is_word_char")
    defs.append(("word_excl", "list N", nlist([charlit(x) for x in re.findall(r"ch\s*!=\s*'(" + LIT + r")'", m.group(1))])))
    # into_octet
    body = fn_body(scan, "into_octet", after="impl Symbol")
    m = one(r"ch\.is_ascii\(\)\s*&&\s*ch\s*>=\s*'(" + LIT + r")'\s*&&\s*ch\s*<=\s*'(" + LIT + r")'", body, "into_octet range")
    defs += [("octet_lo", "N", "%d%%N" % charlit(m.group(1))), ("octet_hi", "N", "%d%%N" % charlit(m.group(2)))]
    one(r"Symbol::SimpleEscape\(ch\)\s*\|\s*Symbol::DecimalEscape\(ch\)\s*=>\s*Ok\(ch\)", body, "into_octet escapes")
    # from_slice_index: escape discipline
    body = fn_body(scan, "from_slice_index", after="impl Symbol")
    one(r"if\s+c1\s*==\s*b'\\\\'", body, "from_slice_index backslash")
    one(r"if\s+c2\.is_ascii_control\(\)\s*\{[^}]*bad_escape\(\)[^}]*\}\s*else\s+if\s+!c2\.is_ascii_digit\(\)\s*\{[^}]*Symbol::SimpleEscape\(c2\)", body, "from_slice_index simple escape")
    one(r"\(u32::from\(c2 - b'0'\)\s*\*\s*100\)\s*\+\s*\(u32::from\(c3 - b'0'\)\s*\*\s*10\)\s*\+\s*\(u32::from\(c4 - b'0'\)\)", body, "from_slice_index decimal value")
    one(r"if\s+c1\s*<\s*128\s*\{\s*return\s+Ok\(Some\(\(Symbol::Char\(c1\.into\(\)\),\s*pos\)\)\);", body, "from_slice_index ascii")
    defs.append(("ascii_limit", "N", "128%N"))
    # ---- reader: next_item character classes
    inp = strip_comments(read("src/zonefile/inplace.rs"))
    body = fn_body(inp, "next_item", after="impl SourceBuf")
    m = one(r"if\s+matches!\(\s*ch\s*,\s*((?:b'" + LIT + r"'\s*\|?\s*)+)\)\s*\{\s*self\.has_space\s*=\s*true;", body, "next_item white space")
    defs.append(("ws_chars", "list N", nlist([charlit(x) for x in re.findall(r"b'(" + LIT + r")'", m.group(1))])))
    order = re.findall(r"else\s+if\s+ch\s*==\s*b'(" + LIT + r")'\s*\{", body)
    vals = [charlit(x) for x in order]
    # order in the source: '\r' (dead), '(', ')', ';', '\n', '"'
    want = [13, 40, 41, 59, 10, 34]
    if vals != want:
        raise GenError("next_item dispatch order changed: %r" % vals)
    defs += [("ch_open", "N", "40%N"), ("ch_close", "N", "41%N"), ("ch_comment", "N", "59%N"), ("ch_lf", "N", "10%N"), ("ch_quote", "N", "34%N")]
    one(r"if\s+self\.parens\s*>\s*0\s*\{\s*self\.parens\s*-=\s*1;", body, "next_item closing paren")
    one(r"else\s+if\s+ch\s*==\s*b'\('\s*\{\s*self\.parens\s*\+=\s*1;", body, "next_item opening paren counts")
    one(r"parens:\s*usize,", inp, "parens is a counter")
    defs.append(("parens_is_counter", "bool", "true"))
    one(r"if\s+self\.parens\s*==\s*0\s*\{\s*self\.cat\s*=\s*ItemCat::LineFeed;", body, "next_item line feed")
    # convert_label / scan_name limits
    body = fn_body(inp, "convert_label", after="impl EntryScanner")
    m = one(r"let\s+latest\s*=\s*\*write\s*\+\s*(\d+)\s*;", body, "convert_label latest")
    defs.append(("label_latest", "N", "%d%%N" % num(m.group(1))))
    if len(re.findall(r"if\s+\*write\s*>=\s*latest", body)) != 2:
        raise GenError("convert_label length checks changed")
    body = fn_body(inp, "scan_name", after="impl Scanner for EntryScanner")
    one(r"if\s+write\s*==\s*start\s*\+\s*1\s*\{\s*return\s+Err\(EntryError::bad_name\(\)\);", body, "scan_name rejects an empty label")
    defs.append(("scan_name_rejects_empty_label", "bool", "true"))
    m = one(r"if\s+write\s*>\s*(\d+)\s*\{\s*return\s+Err\(EntryError::bad_name\(\)\)", body, "scan_name length check")
    defs.append(("name_write_max", "N", "%d%%N" % num(m.group(1))))
    one(r"self\.zonefile\.buf\.require_token\(\)\?;\s*if\s+self\.zonefile\.buf\.skip_at_token\(\)\?\s*\{\s*return\s+RelativeName::empty_bytes\(\)\s*\.chain\(self\.zonefile\.origin\(\)\?\)", body, "scan_name free standing @")
    defs.append(("scan_name_at_is_origin", "bool", "true"))
    # next_ascii_symbol: the fast path of scan_octets / convert_label / convert_charstr
    body = fn_body(inp, "next_ascii_symbol", after="impl SourceBuf")
    m = one(r"ItemCat::Unquoted\s*=>\s*\{\s*if\s+ch\s*<\s*(0x[0-9A-Fa-f]+)\s*\|\|\s*ch\s*>\s*(0x[0-9A-Fa-f]+)((?:\s*\|\|\s*ch\s*==\s*b'" + LIT + r"')+)\s*\{\s*return\s+Ok\(None\);", body, "next_ascii_symbol unquoted")
    defs += [("fast_lo", "N", "%d%%N" % num(m.group(1))), ("fast_hi", "N", "%d%%N" % num(m.group(2))),
             ("fast_unquoted_excl", "list N", nlist([charlit(x) for x in re.findall(r"b'(" + LIT + r")'", m.group(3))]))]
    m = one(r"ItemCat::Quoted\s*=>\s*\{\s*if\s+ch\s*==\s*b'\"'\s*\{\s*self\.start\s*\+=\s*1;\s*self\.cat\s*=\s*ItemCat::None;\s*return\s+Ok\(None\);\s*\}\s*else\s+if\s+ch\s*<\s*(0x[0-9A-Fa-f]+)\s*\|\|\s*ch\s*>\s*(0x[0-9A-Fa-f]+)\s*\|\|\s*ch\s*==\s*b'\\\\'\s*\{\s*return\s+Ok\(None\);", body, "next_ascii_symbol quoted")
    if (num(m.group(1)), num(m.group(2))) != (0x21, 0x7F):
        raise GenError("next_ascii_symbol quoted range changed")
    body = fn_body(inp, "scan_octets", after="impl Scanner for EntryScanner")
    one(r"let\s+is_quoted\s*=\s*self\.zonefile\.buf\.cat\s*==\s*ItemCat::Quoted;\s*while\s+self\.zonefile\.buf\.next_ascii_symbol\(\)\?\.is_some\(\)\s*\{\}\s*if\s+self\.zonefile\.buf\.cat\s*==\s*ItemCat::None\s*\{", body, "scan_octets fast phase")
    one(r"while\s+let\s+Some\(sym\)\s*=\s*self\.zonefile\.buf\.next_symbol\(\)\?\s*\{\s*self\.zonefile\.buf\.buf\[write\]\s*=\s*sym\.into_octet\(\)\?;", body, "scan_octets slow phase")
    body = fn_body(inp, "scan_charstr_entry", after="impl Scanner for EntryScanner")
    one(r"let\s+mut\s+write\s*=\s*0;\s*loop\s*\{\s*self\.convert_charstr\(&mut write\)\?;\s*if\s+self\.zonefile\.buf\.is_line_feed\(\)\s*\{\s*break;", body, "scan_charstr_entry reads char-strings up to the line feed")
    body = fn_body(inp, "convert_charstr", after="impl EntryScanner")
    one(r"^\s*self\.zonefile\.buf\.require_token\(\)\?;\s*let\s+start\s*=\s*\*write;", body, "convert_charstr requires a token")
    defs.append(("charstr_entry_requires_token", "bool", "true"))
    m = one(r"let\s+latest\s*=\s*\*write\s*\+\s*(\d+)\s*;", body, "convert_charstr latest")
    defs.append(("charstr_latest", "N", "%d%%N" % num(m.group(1))))
    if len(re.findall(r"if\s+\*write\s*>\s*latest", body)) != 2:
        raise GenError("convert_charstr length checks changed")
    body = fn_body(inp, "_scan_entry", after="impl<'a> EntryScanner")
    one(r"peek_symbol\(\)\s*==\s*Some\(Symbol::Char\('\$'\)\)", body, "control entry test")
    defs.append(("ch_dollar", "N", "36%N"))
    body = fn_body(inp, "skip_at_token", after="impl SourceBuf")
    one(r"self\.peek_symbol\(\)\s*!=\s*Some\(Symbol::Char\('@'\)\)", body, "at token test")
    defs.append(("ch_at", "N", "64%N"))
    body = fn_body(inp, "skip_unknown_marker", after="impl SourceBuf")
    one(r"sym\s*!=\s*Symbol::SimpleEscape\(b'#'\)", body, "unknown marker test")
    defs.append(("ch_hash", "N", "35%N"))
    # ---- the three writers
    zf = strip_comments(read("src/base/zonefile_fmt.rs"))
    simple = impl_body(zf, r"impl<W: fmt::Write> FormatWriter for SimpleWriter<W>")
    m = one(r"if\s+!self\.first\s*\{\s*self\.writer\.write_char\('(" + LIT + r")'\)\?;\s*\}\s*self\.first\s*=\s*false;\s*self\.writer\.write_fmt\(args\)\?;", fn_body(simple, "fmt_token"), "SimpleWriter::fmt_token")
    defs.append(("simple_sep", "N", "%d%%N" % charlit(m.group(1))))
    for f in ("begin_block", "end_block", "fmt_comment"):
        one(r"^\s*Ok\(\(\)\)\s*$", fn_body(simple, f), "SimpleWriter::%s is a no-op" % f)
    tab = impl_body(zf, r"impl<W: fmt::Write> FormatWriter for TabbedWriter<W>")
    m = one(r"if\s+!self\.first\s*\{\s*let\s+c\s*=\s*if\s+self\.blocks\s*==\s*0\s*\{\s*'(" + LIT + r")'\s*\}\s*else\s+if\s+self\.first_block\s*\{\s*self\.first_block\s*=\s*false;\s*'(" + LIT + r")'\s*\}\s*else\s*\{\s*'(" + LIT + r")'\s*\};\s*self\.writer\.write_char\(c\)\?;\s*\}\s*self\.first\s*=\s*false;\s*self\.first_block\s*=\s*false;", fn_body(tab, "fmt_token"), "TabbedWriter::fmt_token")
    defs += [("tab_sep_outer", "N", "%d%%N" % charlit(m.group(1))), ("tab_sep_first", "N", "%d%%N" % charlit(m.group(2))), ("tab_sep_inner", "N", "%d%%N" % charlit(m.group(3)))]
    one(r"self\.blocks\s*\+=\s*1;\s*if\s+self\.blocks\s*==\s*1\s*\{\s*self\.first_block\s*=\s*true;\s*\}", fn_body(tab, "begin_block"), "TabbedWriter::begin_block")
    one(r"^\s*self\.blocks\s*-=\s*1;\s*Ok\(\(\)\)\s*$", fn_body(tab, "end_block"), "TabbedWriter::end_block")
    one(r"^\s*Ok\(\(\)\)\s*$", fn_body(tab, "fmt_comment"), "TabbedWriter::fmt_comment is a no-op")
    ml = impl_body(zf, r"impl<W: fmt::Write> FormatWriter for MultiLineWriter<W>")
    m = one(r'if\s+!self\.first\s*\{\s*self\.write_str\("([^"]*)"\)\?;\s*\}\s*self\.first\s*=\s*false;\s*self\.write_fmt\(args\)\?;', fn_body(ml, "fmt_token"), "MultiLineWriter::fmt_token")
    defs.append(("ml_sep", "list N", coq_str(m.group(1))))
    m = one(r'self\.fmt_token\(format_args!\("([^"]*)"\)\)\?;\s*self\.block_indent\s*=\s*Some\(self\.current_column\s*\+\s*(\d+)\);', fn_body(ml, "begin_block"), "MultiLineWriter::begin_block")
    defs += [("ml_open", "list N", coq_str(m.group(1))), ("ml_indent_extra", "N", "%d%%N" % num(m.group(2)))]
    m = one(r'self\.block_indent\s*=\s*None;\s*self\.fmt_token\(format_args!\("([^"]*)"\)\)', fn_body(ml, "end_block"), "MultiLineWriter::end_block")
    defs.append(("ml_close", "list N", coq_str(m.group(1))))
    m = one(r'if\s+self\.block_indent\.is_some\(\)\s*\{\s*write!\(self\.writer,\s*"((?:\\.|[^"\\])*)\{\}",\s*args\)\?;\s*self\.newline\(\)\s*\}\s*else\s*\{\s*Ok\(\(\)\)\s*\}', fn_body(ml, "fmt_comment"), "MultiLineWriter::fmt_comment")
    pre = m.group(1).replace("\\t", "\t")
    defs.append(("ml_comment_pre", "list N", coq_str(pre)))
    nl = fn_body(ml, "newline")
    one(r"self\.writer\.write_char\('\\n'\)\?;\s*self\.current_column\s*=\s*0;\s*if\s+let\s+Some\(x\)\s*=\s*self\.block_indent\s*\{\s*for\s+_\s+in\s+0\.\.x\s*\{\s*self\.write_str\(\" \"\)\?;\s*\}\s*\}\s*self\.first\s*=\s*true;", nl, "MultiLineWriter::newline")
    one(r"self\.current_column\s*\+=\s*x\.len\(\);\s*self\.writer\.write_str\(x\)", impl_body(zf, r"impl<W: fmt::Write> fmt::Write for MultiLineWriter<W>"), "MultiLineWriter::write_str")
    # ---- Record: order of the fields
    rec = strip_comments(read("src/base/record.rs"))
    body = fn_body(rec, "fmt", after="ZonefileFmt for Record<Name, Data>")
    one(r"^\s*p\.write_token\(self\.owner\.fmt_with_dot\(\)\)\?;\s*p\.write_show\(self\.ttl\)\?;\s*p\.write_show\(self\.class\)\?;\s*p\.write_show\(self\.data\.rtype\(\)\)\?;\s*p\.write_show\(&self\.data\)\s*$", body, "Record field order")
    defs.append(("record_order_owner_ttl_class_type", "bool", "true"))
    one(r"^\s*p\.write_token\(self\.as_secs\(\)\)\s*$", fn_body(rec, "fmt", after="impl ZonefileFmt for Ttl"), "Ttl is written in decimal")
    # fmt_with_dot
    tr = strip_comments(read("src/base/name/traits.rs"))
    body = fn_body(tr, "fmt", after="fmt::Display for DisplayWithDot")
    one(r'if\s+first\.is_root\(\)\s*\{\s*f\.write_str\("\."\)\s*\}\s*else\s*\{\s*write!\(f,\s*"\{\}",\s*first\)\?;\s*for\s+label\s+in\s+labels\s*\{\s*write!\(f,\s*"\.\{\}",\s*label\)\?\s*\}', body, "fmt_with_dot")
    defs.append(("ch_dot", "N", "46%N"))
    # ---- generic form (RFC 3597)
    rd = strip_comments(read("src/base/rdata.rs"))
    body = fn_body(rd, "fmt", after="ZonefileFmt for UnknownRecordData<Octs>")
    one(r'write!\(f,\s*"\\\\# \{\}",\s*self\.0\.len\(\)\)\?;\s*for\s+ch\s+in\s+self\.0\s*\{\s*write!\(f,\s*" \{:02x\}",\s*\*ch\)\?', body, "generic form text")
    defs.append(("generic_lower_hex_with_spaces", "bool", "true"))
    body = fn_body(rd, "scan_without_marker", after="impl<Octs> UnknownRecordData<Octs>")
    one(r"let\s+len\s*=\s*u16::scan\(scanner\)\?;\s*let\s+data\s*=\s*scanner\.convert_entry\(base16::SymbolConverter::new\(\)\)\?;\s*if\s+data\.as_ref\(\)\.len\(\)\s*!=\s*usize::from\(len\)", body, "generic form reader")
    # ---- SVCB key charset (inclusive ranges)
    sv = strip_comments(read("src/rdata/svcb/params.rs"))
    body = fn_body(sv, "allowed_key_charset")
    one(r"^\s*\(0x61\.\.=0x7A\)\.contains\(&ch\)\s*\|\|\s*\(0x30\.\.=0x39\)\.contains\(&ch\)\s*\|\|\s*0x2D\s*==\s*ch\s*$", body, "SvcParamKey charset a-z 0-9 -")
    defs.append(("svcb_key_charset_inclusive", "bool", "true"))
    # ---- SVCB values written with escapes (dohpath, unknown keys): from_octet plus parentheses
    body = fn_body(sv, "fmt", after="fmt::Display for UnknownSvcParam<Octs>")
    one(r"for\s+&ch\s+in\s+slice\s*\{\s*if\s+ch\s*==\s*b'\('\s*\|\|\s*ch\s*==\s*b'\)'\s*\{\s*write!\(f,\s*\"\\\\\{\}\",\s*ch as char\)\?;\s*\}\s*else\s*\{\s*Symbol::from_octet\(ch\)\.fmt\(f\)\?;", body, "UnknownSvcParam Display escapes")
    svv = strip_comments(read("src/rdata/svcb/value.rs"))
    body = fn_body(svv, "fmt", after="fmt::Display for DohPath<Octs>")
    one(r"for\s+&ch\s+in\s+self\.as_slice\(\)\s*\{\s*if\s+ch\s*==\s*b'\('\s*\|\|\s*ch\s*==\s*b'\)'\s*\{\s*write!\(f,\s*\"\\\\\{\}\",\s*ch as char\)\?;\s*\}\s*else\s*\{\s*fmt::Display::fmt\(\s*&crate::base::scan::Symbol::from_octet\(ch\),", body, "DohPath Display escapes")
    defs.append(("svcb_values_escaped_with_parens", "bool", "true"))
    # ---- unsigned scanner
    body = scan[scan.index("macro_rules! impl_scan_unsigned"):scan.index("impl_scan_unsigned!(u8)")]
    one(r"res\s*=\s*res\.checked_mul\(10\)\.ok_or_else", body, "unsigned scan checked_mul")
    one(r"let\s+digit\s*=\s*ch\.into_digit\(10\)", body, "unsigned scan digit")
    one(r"res\s*=\s*res\.checked_add\(digit\)\.ok_or_else", body, "unsigned scan checked_add")
    defs.append(("uint_scan_add_checked", "bool", "true"))
    # ---- mnemonic tables
    def mnemonics(path, what):
        src = strip_comments(read(path))
        xs = re.findall(r"\(\s*([A-Z0-9_]+)\s*=>\s*(0x[0-9A-Fa-f]+|\d+)\s*,\s*\"([^\"]+)\"\s*\)", src)
        if len(xs) < 4:
            raise GenError("mnemonic table of %s not found" % what)
        return [(num(v), s) for (_, v, s) in xs]
    rts = mnemonics("src/base/iana/rtype.rs", "Rtype")
    cls = mnemonics("src/base/iana/class.rs", "Class")
    one(r'int_enum_str_with_prefix!\(Rtype,\s*"TYPE",\s*b"TYPE",\s*u16', strip_comments(read("src/base/iana/rtype.rs")), "Rtype prefix")
    one(r'int_enum_str_with_prefix!\(Class,\s*"CLASS",\s*b"CLASS",\s*u16', strip_comments(read("src/base/iana/class.rs")), "Class prefix")
    def table(xs):
        return "[" + "; ".join("(%d%%N, %s)" % (v, coq_str(s)) for v, s in xs) + "]"
    codes = dict((m, v) for v, m in rts)
    n3s = strip_comments(read("src/rdata/nsec3.rs"))
    m = one(r"impl Nsec3Salt<\(\)>\s*\{\s*pub const MAX_LEN: usize = (\d+);", n3s, "Nsec3Salt::MAX_LEN")
    defs.append(("nsec3_salt_max", "N", "%d%%N" % num(m.group(1))))
    m = one(r"impl OwnerHash<\(\)>\s*\{\s*pub const MAX_LEN: usize = (\d+);", n3s, "OwnerHash::MAX_LEN")
    defs.append(("nsec3_hash_max", "N", "%d%%N" % num(m.group(1))))
    ts, ipk, gws = schemas(codes)
    defs.append(("type_schemas", "list (N * (bool * (list (N * (N * list N)) * list N)))", ts))
    defs.append(("ipseckey_schema", "N * (bool * (list (N * (N * list N)) * list N))", ipk))
    defs.append(("ipseckey_gateways", "list (N * (N * N))", gws))
    svm = mnemonics("src/base/iana/svcb.rs", "SvcParamKey")
    one(r'int_enum_str_with_prefix!\(SvcParamKey,\s*"key",\s*b"key",\s*u16', strip_comments(read("src/base/iana/svcb.rs")), "SvcParamKey prefix")
    defs += [("svc_mnemonics", "list (N * list N)", table(svm)), ("svc_prefix", "list N", coq_str("key"))]
    defs += [("rtype_mnemonics", "list (N * list N)", table(rts)), ("class_mnemonics", "list (N * list N)", table(cls)),
             ("rtype_prefix", "list N", coq_str("TYPE")), ("class_prefix", "list N", coq_str("CLASS"))]
    return defs

if __name__ == "__main__":
    main("C06", "/repo/src/base/{name/label,scan,zonefile_fmt,record,rdata,name/traits}.rs, zonefile/inplace.rs, base/iana/{rtype,class}.rs", build)
