#!/usr/bin/env python3
"""T1 extractor for C20 (client cache): configuration constants (default / min /
max of every DefMinMax), the expiry comparison in Value::get_response, the
DNSSEC types stripped by remove_dnssec, the alternate keys and header edits of
the lookup cascade, which configuration field caps which response class in
`validity`, the OPT exclusion and the zero-validity guard of cache_insert."""
import re, sys, os
sys.path.insert(0, os.path.dirname(os.path.abspath(__file__)))
from rs import *

FIELDS = ["max_validity", "transport_failure_duration", "misc_error_duration",
          "max_nxdomain_validity", "max_nodata_validity", "max_delegation_validity"]
ADDO = {"Do": 0, "Ad": 1, "None": 2}


def secs(expr):
    """Duration::from_secs(<product of integer literals>) -> int"""
    m = re.fullmatch(r"\s*Duration::from_secs\(\s*([0-9_ *]+?)\s*\)\s*", expr, re.S)
    if not m:
        raise GenError("unrecognised duration %r" % expr)
    v = 1
    for f in m.group(1).split("*"):
        v *= num(f.strip())
    return v


def rtype_code(rt, name):
    m = one(r"\(\s*%s\s*=>\s*(\d+)\s*," % re.escape(name), rt, "Rtype::%s" % name)
    return int(m.group(1))


def build():
    src = strip_comments(read("src/net/client/cache.rs"))
    rt = strip_comments(read("src/base/iana/rtype.rs"))
    cfgsrc = strip_comments(read("src/utils/config.rs"))
    defs = []

    # --- DefMinMax constants -------------------------------------------------
    one(r"cmp::max\(\s*self\.min\s*,\s*cmp::min\(\s*self\.max\s*,\s*value\s*\)\s*\)",
        fn_body(cfgsrc, "limit"), "DefMinMax::limit = max(min, min(max, value))")
    m = one(r"const\s+MAX_CACHE_ENTRIES\s*:\s*DefMinMax<u64>\s*=\s*DefMinMax::new\(\s*([\d_]+)\s*,\s*([\d_]+)\s*,\s*([\d_]+)\s*,?\s*\)\s*;",
            src, "MAX_CACHE_ENTRIES")
    defs.append(("entries_def", "N", "%d%%N" % num(m.group(1))))
    consts = {}
    for cname, tag in (("MAX_VALIDITY", "maxv"), ("TRANSPORT_FAILURE_DURATION", "tf"),
                       ("MISC_ERROR_DURATION", "misc"), ("MAX_NXDOMAIN_VALIDITY", "nx"),
                       ("MAX_NODATA_VALIDITY", "nodata"), ("MAX_DELEGATION_VALIDITY", "deleg")):
        m = one(r"const\s+%s\s*:\s*DefMinMax<Duration>\s*=\s*DefMinMax::new\(\s*(Duration::from_secs\([^)]*\))\s*,\s*(Duration::from_secs\([^)]*\))\s*,\s*(Duration::from_secs\([^)]*\))\s*,?\s*\)\s*;" % cname,
                src, cname)
        d, lo, hi = secs(m.group(1)), secs(m.group(2)), secs(m.group(3))
        consts[cname] = tag
        defs.append((tag + "_def", "N", "%d%%N" % d))
        defs.append((tag + "_min", "N", "%d%%N" % lo))
        defs.append((tag + "_max", "N", "%d%%N" % hi))
    # setters clamp with the matching constant, Default uses the matching default
    setters = {"max_validity": "MAX_VALIDITY", "transport_failure_duration": "TRANSPORT_FAILURE_DURATION",
               "misc_error_duration": "MISC_ERROR_DURATION", "max_nxdomain_validity": "MAX_NXDOMAIN_VALIDITY",
               "max_nodata_validity": "MAX_NODATA_VALIDITY", "max_delegation_validity": "MAX_DELEGATION_VALIDITY"}
    dflt = fn_body(src, "default", after="impl Default for Config")
    for f, c in setters.items():
        b = fn_body(src, "set_" + f, after="impl Config")
        one(r"^\s*self\.%s\s*=\s*%s\.limit\(\s*value\s*\)\s*;?\s*$" % (f, c), b, "Config::set_%s clamps with %s" % (f, c))
        one(r"\b%s\s*:\s*%s\.default\(\)" % (f, c), dflt, "Config::default %s" % f)
    m = one(r"\bcache_truncated\s*:\s*(true|false)\b", dflt, "Config::default cache_truncated")
    defs.append(("cache_truncated_def", "bool", m.group(1)))

    # --- Value::get_response: expiry comparison, seconds ---------------------
    gr = fn_body(src, "get_response", after="impl Value")
    m = one(r"let\s+elapsed\s*=\s*self\.created_at\.elapsed\(\)\s*;\s*if\s+elapsed\s*(>=|>|<=|<|==|!=)\s*self\.valid_for\s*\{\s*return\s+None\s*;\s*\}", gr,
            "get_response expiry test")
    if m.group(1) not in (">", ">="):
        raise GenError("get_response expiry operator is %r (expected > or >=)" % m.group(1))
    defs.append(("expired_is_gt", "bool", "true" if m.group(1) == ">" else "false"))
    one(r"let\s+secs\s*=\s*elapsed\.as_secs\(\)\s*as\s+u32\s*;\s*let\s+response\s*=\s*decrement_ttl\(\s*orig_qname\s*,\s*&self\.response\s*,\s*secs\s*\)", gr,
        "get_response passes elapsed whole seconds (as u32) to decrement_ttl")
    defs.append(("secs_cast_bits", "N", "32%N"))

    # --- is_dnssec -------------------------------------------------------------
    isd = fn_body(src, "is_dnssec")
    names = re.findall(r"rtype\s*==\s*Rtype::([A-Z0-9]+)", isd)
    if not names or re.sub(r"rtype\s*==\s*Rtype::[A-Z0-9]+|\|\||\s", "", isd) != "":
        raise GenError("is_dnssec is not a disjunction of rtype == Rtype::X")
    defs.append(("dnssec_types", "list N", "[" + "; ".join("%d%%N" % rtype_code(rt, n) for n in names) + "]"))
    for n in ("OPT", "SOA", "NS"):
        defs.append(("rtype_" + n.lower(), "N", "%d%%N" % rtype_code(rt, n)))
    m = one(r"\(\s*IN\s*=>\s*(\d+)\s*,", strip_comments(read("src/base/iana/class.rs")), "Class::IN")
    defs.append(("class_in", "N", "%s%%N" % m.group(1)))

    # --- cascade ---------------------------------------------------------------
    def code(name):
        if name not in ADDO:
            raise GenError("unknown AdDo variant %s" % name)
        return "%d%%N" % ADDO[name]
    cl = fn_body(src, "cache_lookup")
    one(r"^\s*self\.cache_lookup_rd_do_ad\(\s*key\s*\)\.await\s*$", cl, "cache_lookup -> cache_lookup_rd_do_ad")
    rd = fn_body(src, "cache_lookup_rd_do_ad")
    one(r"let\s+opt_value\s*=\s*self\.cache_lookup_do_ad\(\s*key\s*\)\.await\?\s*;\s*if\s+opt_value\.is_some\(\)\s*\|\|\s*key\.rd\s*\{\s*return\s+Ok\(\s*opt_value\s*\)\s*;\s*\}",
        rd, "rd step: exact lookup first, stop if found or RD set")
    m = one(r"alt_key\.rd\s*=\s*(true|false)\s*;\s*let\s+opt_value\s*=\s*self\.cache_lookup_do_ad\(\s*&alt_key\s*\)\.await\?\s*;", rd, "rd step alternate key")
    defs.append(("alt_rd", "bool", m.group(1)))
    m = one(r"update_header\(\s*value\s*,\s*&self\.config\s*,\s*\|_hdr\|\s*true\s*,\s*\|hdr\|\s*hdr\.set_rd\(\s*(true|false)\s*\)\s*,?\s*\)\?\s*;\s*self\.cache_insert\(\s*key\.clone\(\)\s*,\s*value\.clone\(\)\s*\)\.await\s*;\s*return\s+Ok\(\s*Some\(\s*value\s*\)\s*\)",
            rd, "rd step: clear RD unconditionally, insert under the query key")
    defs.append(("rd_fix_sets", "bool", m.group(1)))
    do = fn_body(src, "cache_lookup_do_ad")
    one(r"let\s+opt_value\s*=\s*self\.cache_lookup_ad\(\s*key\s*\)\.await\?\s*;\s*if\s+opt_value\.is_some\(\)\s*\|\|\s*key\.addo\.dnssec_ok\(\)\s*\{\s*return\s+Ok\(\s*opt_value\s*\)\s*;\s*\}\s*if\s+is_dnssec\(\s*key\.qtype\s*\)\s*\{\s*return\s+Ok\(\s*None\s*\)\s*;\s*\}",
        do, "do step: exact lookup, stop if found or DO set, then refuse DNSSEC qtypes")
    m = one(r"alt_key\.addo\s*=\s*AdDo::(\w+)\s*;\s*let\s+opt_value\s*=\s*self\.cache\.get\(\s*&alt_key\s*\)\.await\s*;", do, "do step alternate key")
    defs.append(("alt_do", "N", code(m.group(1))))
    m = one(r"let\s+(value|Ok\(value\))\s*=\s*update_message\(\s*value\s*,\s*&self\.config\s*,\s*\|_hdr\|\s*true\s*,\s*\|msg\|\s*remove_dnssec\(\s*msg\s*,\s*key\.addo\.ad\(\)\s*\)\s*,?\s*\)\s*(\?|else\s*\{\s*return\s+Ok\(\s*None\s*\)\s*;\s*\})\s*;\s*self\.cache_insert\(\s*key\.clone\(\)\s*,\s*value\.clone\(\)\s*\)\.await\s*;\s*return\s+Ok\(\s*Some\(\s*value\s*\)\s*\)",
            do, "do step: remove_dnssec(msg, key.addo.ad()), insert under the query key")
    if (m.group(1) == "value") != (m.group(2) == "?"):
        raise GenError("do step: inconsistent error handling around update_message")
    # what happens when the cached message cannot be rewritten: `?` fails the request, let-else is a miss
    defs.append(("strip_failure_is_miss", "bool", "false" if m.group(2) == "?" else "true"))
    # the other two rewrites (header edits) propagate with `?`
    # remove_dnssec converts every record before the is_dnssec test
    rmb = fn_body(src, "remove_dnssec")
    if len(re.findall(r"\.into_record::<AllRecordData<_,\s*ParsedName<_>>>\(\)\?\s*\.expect\(\s*\"record expected\"\s*\)\s*;\s*if\s+is_dnssec\(", rmb)) != 3:
        raise GenError("remove_dnssec: expected into_record()? before the is_dnssec test in three sections")
    defs.append(("strip_parses_all_records", "bool", "true"))
    ad = fn_body(src, "cache_lookup_ad")
    one(r"let\s+opt_value\s*=\s*self\.cache\.get\(\s*key\s*\)\.await\s*;\s*if\s+opt_value\.is_some\(\)\s*\|\|\s*key\.addo\.ad\(\)\s*\{\s*return\s+Ok\(\s*opt_value\s*\)\s*;\s*\}",
        ad, "ad step: exact lookup, stop if found or AD/DO set")
    m = one(r"alt_key\.addo\s*=\s*AdDo::(\w+)\s*;\s*let\s+opt_value\s*=\s*self\.cache\.get\(\s*&alt_key\s*\)\.await\s*;", ad, "ad step alternate key")
    defs.append(("alt_ad", "N", code(m.group(1))))
    m = one(r"update_header\(\s*value\s*,\s*&self\.config\s*,\s*\|hdr\|\s*hdr\.ad\(\)\s*,\s*\|hdr\|\s*hdr\.set_ad\(\s*(true|false)\s*\)\s*,?\s*\)\?\s*;\s*self\.cache_insert\(\s*key\.clone\(\)\s*,\s*value\.clone\(\)\s*\)\.await\s*;\s*return\s+Ok\(\s*Some\(\s*value\s*\)\s*\)",
            ad, "ad step: clear AD when set, insert under the query key")
    defs.append(("ad_fix_sets", "bool", m.group(1)))
    # AdDo helpers
    ib = impl_body(src, r"impl\s+AdDo\s*\{")
    one(r"if\s+dnssec_ok\s*\{\s*AdDo::Do\s*\}\s*else\s+if\s+ad\s*\{\s*AdDo::Ad\s*\}\s*else\s*\{\s*AdDo::None\s*\}", fn_body(ib, "new"), "AdDo::new")
    one(r"AdDo::Ad\s*\|\s*AdDo::Do\s*=>\s*true\s*,\s*AdDo::None\s*=>\s*false", fn_body(ib, "ad"), "AdDo::ad")
    one(r"AdDo::Do\s*=>\s*true\s*,\s*AdDo::Ad\s*\|\s*AdDo::None\s*=>\s*false", fn_body(ib, "dnssec_ok"), "AdDo::dnssec_ok")
    # request: DO implies AD in the key; only QUERY/IN is cached
    gi = fn_body(src, "get_response_impl")
    one(r"if\s+dnssec_ok\s*&&\s*!ad\s*\{\s*ad\s*=\s*true\s*;\s*\}", gi, "DO forces AD in the key")
    one(r"if\s+!\(\s*opcode\s*==\s*Opcode::QUERY\s*&&\s*qclass\s*==\s*Class::IN\s*\)", gi, "only QUERY / IN is cached")
    one(r"Key::new\(\s*qname\s*,\s*qclass\s*,\s*qtype\s*,\s*ad\s*,\s*cd\s*,\s*dnssec_ok\s*,\s*rd\s*\)", gi, "Key::new argument order")
    one(r"addo\s*:\s*AdDo::new\(\s*ad\s*,\s*dnssec_ok\s*\)\s*,\s*cd\s*,\s*rd\s*,", fn_body(src, "new", after="impl Key"), "Key::new fields")

    # --- remove_dnssec -----------------------------------------------------------
    rm = fn_body(src, "remove_dnssec")
    one(r"if\s+!ad\s*\{\s*target\.header_mut\(\)\.set_ad\(\s*false\s*\)\s*;\s*\}", rm, "remove_dnssec clears AD iff !ad")
    if len(re.findall(r"if\s+is_dnssec\(\s*rr\.rtype\(\)\s*\)\s*\{\s*continue\s*;\s*\}", rm)) != 3:
        raise GenError("remove_dnssec: expected the is_dnssec skip in all three sections")
    defs.append(("strip_sections", "N", "3%N"))

    # --- validity ----------------------------------------------------------------
    va = fn_body(src, "validity")
    m = one(r"let\s+Ok\(msg\)\s*=\s*response\s+else\s*\{\s*return\s+Ok\(\s*config\.(\w+)\s*\)\s*;\s*\}", va, "validity: transport failure")
    defs.append(("cap_failure", "N", "%d%%N" % FIELDS.index(m.group(1))))
    one(r"if\s+msg\.header\(\)\.tc\(\)\s*&&\s*!config\.cache_truncated\s*\{\s*return\s+Ok\(\s*Duration::ZERO\s*\)\s*;\s*\}", va, "validity: truncated")
    m = one(r"let\s+mut\s+min_val\s*=\s*config\.(\w+)\s*;", va, "validity: base cap")
    defs.append(("cap_base", "N", "%d%%N" % FIELDS.index(m.group(1))))
    one(r"NoErrorType::Answer\s*=>\s*\(\)\s*,", va, "validity: answer is not capped further")
    for tag, pat in (("nodata", r"NoErrorType::NoData\s*=>\s*\{\s*min_val\s*=\s*min\(\s*min_val\s*,\s*config\.(\w+)\s*\)\s*;?\s*\}"),
                     ("deleg", r"NoErrorType::Delegation\s*=>\s*\{\s*min_val\s*=\s*min\(\s*min_val\s*,\s*config\.(\w+)\s*\)\s*;?\s*\}"),
                     ("nx", r"OptRcode::NXDOMAIN\s*=>\s*\{\s*min_val\s*=\s*min\(\s*min_val\s*,\s*config\.(\w+)\s*\)\s*;?\s*\}"),
                     ("misc", r"_\s*=>\s*\{\s*min_val\s*=\s*min\(\s*min_val\s*,\s*config\.(\w+)\s*\)\s*;?\s*\}")):
        m = one(pat, va, "validity: cap for " + tag)
        defs.append(("cap_" + tag, "N", "%d%%N" % FIELDS.index(m.group(1))))
    one(r"NoErrorType::NoErrorWeird\s*=>\s*\{\s*min_val\s*=\s*Duration::ZERO\s*;?\s*\}", va, "validity: weird NOERROR is not cached")
    mins = re.findall(r"min_val\s*=\s*min\(\s*min_val\s*,\s*Duration::from_secs\(\s*rr\.ttl\(\)\.as_secs\(\)\s*as\s+u64\s*\)\s*\)\s*;", va)
    if len(mins) != 3:
        raise GenError("validity: expected min over rr.ttl() in three sections, found %d" % len(mins))
    one(r"if\s+rr\.rtype\(\)\s*!=\s*Rtype::OPT\s*\{\s*min_val\s*=", va, "validity: OPT excluded in additional")
    defs.append(("ttl_min_sections", "N", "3%N"))

    # --- decrement_ttl -------------------------------------------------------------
    de = fn_body(src, "decrement_ttl")
    subs = re.findall(r"rr\.set_ttl\(\s*rr\.ttl\(\)\s*-\s*amount\s*\)\s*;", de)
    if len(subs) != 3:
        raise GenError("decrement_ttl: expected three `rr.ttl() - amount`, found %d" % len(subs))
    one(r"if\s+rr\.rtype\(\)\s*!=\s*Rtype::OPT\s*\{\s*rr\.set_ttl\(", de, "decrement_ttl: OPT excluded in additional")
    one(r"\*target\.header_mut\(\)\s*=\s*source\.header\(\)\s*;", de, "decrement_ttl copies the header")
    if len(re.findall(r"\.into_record::<AllRecordData<_,\s*ParsedName<_>>>\(\)\?", de)) != 3:
        raise GenError("decrement_ttl: expected into_record::<AllRecordData>()? in three sections")
    defs.append(("decrement_parses_all_records", "bool", "true"))
    one(r"let\s+opt_ce\s*=\s*self\.cache_lookup\(\s*&key\s*\)\.await\?\s*;", gi, "a lookup error fails the request")
    one(r"Arc::new\(\s*Value::new\(\s*response\.clone\(\)\s*,\s*&self\.config\s*,\s*\)\?\s*\)\s*;\s*self\.cache_insert\(\s*key\s*,\s*value\s*\)\.await\s*;\s*return\s+response\s*;", gi,
        "forwarded: Value::new(..)? then insert then pass the response through")
    one(r"if\s+let\s+Some\(response\)\s*=\s*opt_response\s*\{\s*return\s+response\s*;\s*\}", gi, "served: whatever get_response produced (incl. an error) is returned")
    defs.append(("lookup_error_fails_request", "bool", "true"))
    # which error a parse failure becomes: From<ParseError> for Error
    rq = strip_comments(read("src/net/client/request.rs"))
    m = one(r"impl\s+From<ParseError>\s+for\s+Error\s*\{\s*fn\s+from\(\s*_\s*:\s*ParseError\s*\)\s*->\s*Self\s*\{\s*Self::(\w+)\s*\}", rq, "From<ParseError> for Error")
    parse_variant = m.group(1)
    # the class of a response is decided by the EXTENDED rcode: header rcode | OPT ext-rcode << 4
    m = re.search(r"match\s+msg\.(opt_rcode\(\)|header\(\)\.rcode\(\))\s*\{\s*OptRcode::NOERROR\s*=>|match\s+msg\.(header\(\)\.rcode\(\))\s*\{", va)
    if not m:
        raise GenError("validity: rcode scrutinee not recognised")
    defs.append(("validity_uses_opt_rcode", "bool", "true" if m.group(1) == "opt_rcode()" else "false"))
    rcs = strip_comments(read("src/base/iana/rcode.rs"))
    m = one(r"fn\s+from_parts\(\s*rcode:\s*Rcode,\s*ext:\s*u8\s*\)\s*->\s*OptRcode\s*\{\s*OptRcode\(\(u16::from\(ext\)\s*<<\s*(\d+)\)\s*\|\s*u16::from\(rcode\.to_int\(\)\)\)\s*\}", rcs, "OptRcode::from_parts")
    defs.append(("opt_rcode_shift", "N", "%s%%N" % m.group(1)))
    ms = strip_comments(read("src/base/message.rs"))
    one(r"self\.opt\(\)\s*\.map\(\|opt\|\s*opt\.rcode\(self\.header\(\)\)\)\s*\.unwrap_or_else\(\|\|\s*self\.header\(\)\.rcode\(\)\.into\(\)\)", fn_body(ms, "opt_rcode"), "Message::opt_rcode")
    one(r"section\.limit_to::<Opt<_>>\(\)\.next\(\)\s*\{\s*Some\(Ok\(rr\)\)\s*=>\s*Some\(OptRecord::from\(rr\)\)\s*,\s*_\s*=>\s*None", fn_body(ms, "opt"), "Message::opt takes the first OPT record of the additional section")
    # RequestMessage: to_message and append_message are the same serialisation (append_message_impl),
    # which drops an OPT record of the base message and appends the RequestMessage's own
    ib = impl_body(rq, r"impl<Octs:\s*AsRef<\[u8\]>\s*\+\s*Debug\s*\+\s*Octets>\s*RequestMessage<Octs>\s*\{")
    tm = " ".join(fn_body(ib, "to_message_impl").split())
    ok_tm = re.fullmatch(r'let target = MessageBuilder::from_target\(StaticCompressor::new\(Vec::new\(\)\)\) \.expect\("[^"]*"\); let target = self\.append_message_impl\(target\)\?; let result = target\.as_builder\(\)\.clone\(\); let msg = Message::from_octets\(result\.finish\(\)\.into_target\(\)\)\.expect\( "[^"]*", \); Ok\(msg\)', tm) is not None
    cb = impl_body(rq, r"impl<Octs:\s*AsRef<\[u8\]>\s*\+\s*Debug\s*\+\s*Octets\s*\+\s*Send\s*\+\s*Sync>\s*ComposeRequest\s*for\s*RequestMessage<Octs>\s*\{")
    am = " ".join(fn_body(cb, "append_message").split())
    ok_am = re.fullmatch(r"let target = MessageBuilder::from_target\(target\) \.map_err\(\|_\| CopyRecordsError::Push\(PushError::ShortBuf\)\)\?; let builder = self\.append_message_impl\(target\)\?; Ok\(builder\)", am) is not None
    ok_t = re.fullmatch(r"self\.to_message_impl\(\)", " ".join(fn_body(cb, "to_message").split())) is not None
    defs.append(("request_one_serialisation", "bool", "true" if (ok_tm and ok_am and ok_t) else "false"))
    ai = fn_body(ib, "append_message_impl")
    drop = len(re.findall(r"if\s+rr\.rtype\(\)\s*!=\s*Rtype::OPT\s*\{\s*let\s+rr\s*=\s*rr\s*\.into_record::<UnknownRecordData<_>>\(\)\?\s*\.expect\(\"record expected\"\);\s*target\.push\(rr\)\?;\s*\}", ai)) == 1
    own = len(re.findall(r"if\s+let\s+Some\(opt\)\s*=\s*self\.opt\.as_ref\(\)\s*\{\s*target\.push\(opt\.as_record\(\)\)\?;\s*\}", ai)) == 1
    hdr = len(re.findall(r"\*target\.header_mut\(\)\s*=\s*self\.header\s*;", ai)) == 1
    defs.append(("request_base_opt_dropped", "bool", "true" if (drop and own and hdr) else "false"))
    one(r"fn\s+new\([^)]*\)\s*->\s*Result<Self,\s*Error>\s*\{[\s\S]*?Ok\(Self\s*\{\s*msg,\s*header,\s*opt:\s*None,\s*\}\)", ib, "RequestMessage::new starts without an OPT record of its own")
    defs.append(("parse_error_is_message_parse_error", "bool", "true" if parse_variant == "MessageParseError" else "false"))
    ttlsrc = strip_comments(read("src/base/record.rs"))
    sb = fn_body(ttlsrc, "sub", after="impl core::ops::Sub for Ttl")
    one(r"self\.checked_sub\(\s*rhs\s*\)\s*\.expect\(", sb, "Ttl - Ttl panics on underflow")
    defs.append(("ttl_sub_checked", "bool", "true"))

    # --- cache_insert / prepare_for_insert -----------------------------------------
    ci = fn_body(src, "cache_insert")
    one(r"^\s*if\s+value\.valid_for\.is_zero\(\)\s*\{\s*return\s*;\s*\}", ci, "cache_insert skips zero validity")
    defs.append(("insert_skips_zero", "bool", "true"))
    one(r"update_header\(\s*value\s*,\s*config\s*,\s*\|hdr\|\s*hdr\.aa\(\)\s*,\s*\|hdr\|\s*hdr\.set_aa\(\s*false\s*\)\s*\)", fn_body(src, "prepare_for_insert"),
        "prepare_for_insert clears AA")
    # derived values keep the creation time
    nv = fn_body(src, "new_from_value_and_response")
    one(r"created_at\s*:\s*val\.created_at\s*,\s*valid_for\s*:\s*validity\(\s*&response\s*,\s*config\s*\)\?\s*,", nv, "derived value keeps created_at, recomputes validity")

    # --- classify_no_error ------------------------------------------------------------
    cn = fn_body(src, "classify_no_error")
    one(r"if\s+rr\.rtype\(\)\s*==\s*qtype\s*&&\s*rr\.class\(\)\s*==\s*qclass\s*\{\s*return\s+Ok\(\s*NoErrorType::Answer\s*\)\s*;\s*\}", cn, "classify: answer")
    one(r"if\s+rr\.class\(\)\s*==\s*qclass\s*&&\s*rr\.rtype\(\)\s*==\s*Rtype::SOA\s*\{\s*return\s+Ok\(\s*NoErrorType::NoData\s*\)\s*;\s*\}\s*if\s+rr\.class\(\)\s*==\s*qclass\s*&&\s*rr\.rtype\(\)\s*==\s*Rtype::NS\s*\{\s*found_ns\s*=\s*true\s*;\s*\}",
        cn, "classify: SOA -> NoData, NS -> delegation")
    one(r"if\s+found_ns\s*\{\s*return\s+Ok\(\s*NoErrorType::Delegation\s*\)\s*;\s*\}\s*Ok\(\s*NoErrorType::NoErrorWeird\s*\)", cn, "classify: tail")
    m = re.search(r"question_section\.next\(\)\s*\.expect\(", cn)
    defs.append(("classify_expects_question", "bool", "true" if m else "false"))
    return defs


if __name__ == "__main__":
    main("C20", "/repo/src/net/client/cache.rs, net/client/request.rs, utils/config.rs, base/iana/rtype.rs, base/record.rs", build)
