#!/usr/bin/env python3
"""T1 extractor for C15: guards, operators and constants of
net/client/stream.rs Queries::{insert,insert_at,try_remove,drain} and
demux_reply, net/client/request.rs RequestMessage::is_answer,
net/client/dgram.rs handle_request_impl (attempt count, deadline loop, retry
configuration limits) and net/client/dgram_stream.rs (TC fallback rule).

Guards are emitted as Coq functions over N so that the model uses exactly the
comparison the source has now; structural facts (which branch yields which
result) are emitted as booleans that Model.v branches on."""
import re, sys, os
sys.path.insert(0, os.path.dirname(os.path.abspath(__file__)))
from rs import *

def cmp_fn(op, a, b):
    """Coq boolean expression over N for the Rust comparison `a op b`."""
    return {">": "(%s <? %s)%%N" % (b, a), ">=": "(%s <=? %s)%%N" % (b, a),
            "<": "(%s <? %s)%%N" % (a, b), "<=": "(%s <=? %s)%%N" % (a, b),
            "==": "(%s =? %s)%%N" % (a, b), "!=": "(negb (%s =? %s))%%N" % (a, b)}[op]

OP = r"(>=|<=|==|!=|>|<)"
NUMBER = r"(0x[0-9A-Fa-f_]+|\d[\d_]*)"

def limit_of(tok):
    t = tok.replace(" ", "")
    if t in ("u16::MAXasusize", "usize::from(u16::MAX)", "u16::MAX.into()"):
        return 65535
    return num(t)

def dur(expr, what):
    m = re.fullmatch(r"\s*Duration::from_(secs|millis)\(\s*" + NUMBER + r"\s*\)\s*", expr)
    if not m:
        raise GenError("%s: unrecognised duration %r" % (what, expr))
    return num(m.group(2)) * (1000 if m.group(1) == "secs" else 1)

def build():
    defs = []
    st = strip_comments(read("src/net/client/stream.rs"))
    qi = st.find("impl<T> Queries<T>")
    if qi < 0:
        raise GenError("impl<T> Queries<T> not found")
    q = impl_body(st, r"impl<T>\s+Queries<T>\s*\{")

    # ---- Queries::insert
    ins = fn_body(q, "insert")
    m = one(r"if\s+" + NUMBER + r"\s*\*\s*self\.count\s*" + OP + r"\s*(u16::MAX\s+as\s+usize|" + NUMBER[1:-1] + r")\s*\{\s*return\s+Err\(req\);\s*\}",
            ins, "Queries::insert full guard")
    mul, op, lim = num(m.group(1)), m.group(2), limit_of(m.group(3))
    defs.append(("ins_full", "N -> bool", "fun count => " + cmp_fn(op, "%d * count" % mul, "%d" % lim)))
    m = one(r"let\s+idx\s*=\s*if\s+self\.vec\.len\(\)\s*" + OP + r"\s*" + NUMBER + r"\s*\*\s*self\.count\s*\{", ins,
            "Queries::insert scan guard")
    defs.append(("ins_scan", "N -> N -> bool", "fun len count => " + cmp_fn(m.group(1), "len", "%d * count" % num(m.group(2)))))
    one(r"for\s+idx\s+in\s+self\.curr\s*\.\.\s*self\.vec\.len\(\)\s*\{\s*if\s+self\.vec\[idx\]\.is_none\(\)\s*\{\s*found\s*=\s*Some\(idx\);\s*break;",
        ins, "Queries::insert scan loop starts at curr and stops at the first empty slot")
    defs.append(("ins_scan_from_curr", "bool", "true"))
    one(r"Some\(idx\)\s*=>\s*\{\s*self\.vec\[idx\]\s*=\s*Some\(req\);\s*idx\s*\}", ins, "Queries::insert reuse arm")
    one(r"None\s*=>\s*\{\s*let\s+idx\s*=\s*self\.vec\.len\(\);\s*self\.vec\.push\(Some\(req\)\);\s*idx\s*\}", ins,
        "Queries::insert append arm")
    m = one(r"self\.count\s*\+=\s*" + NUMBER + r";\s*if\s+idx\s*" + OP + r"\s*self\.curr\s*\{\s*self\.curr\s*\+=\s*" + NUMBER + r";\s*\}",
            ins, "Queries::insert count/curr update")
    defs.append(("ins_count_inc", "N", "%d%%N" % num(m.group(1))))
    defs.append(("ins_bump", "N -> N -> bool", "fun idx curr => " + cmp_fn(m.group(2), "idx", "curr")))
    defs.append(("ins_curr_inc", "N", "%d%%N" % num(m.group(3))))
    one(r"u16::try_from\(idx\)\.expect\(", ins, "Queries::insert index conversion to u16")
    defs.append(("idx_limit", "N", "65536%N"))

    # ---- Queries::insert_at
    ia = fn_body(q, "insert_at")
    m = one(r"self\.vec\[id\]\s*=\s*Some\(req\);\s*self\.count\s*\+=\s*" + NUMBER + r";\s*if\s+id\s*" + OP +
            r"\s*self\.curr\s*\{\s*self\.curr\s*\+=\s*" + NUMBER + r";\s*\}", ia, "Queries::insert_at body")
    defs.append(("insat_count_inc", "N", "%d%%N" % num(m.group(1))))
    defs.append(("insat_bump", "N -> N -> bool", "fun id curr => " + cmp_fn(m.group(2), "id", "curr")))
    defs.append(("insat_curr_inc", "N", "%d%%N" % num(m.group(3))))

    # ---- Queries::try_remove
    tr = fn_body(q, "try_remove")
    one(r"let\s+res\s*=\s*self\.vec\.get_mut\(usize::from\(index\)\)\?\.take\(\)\?;", tr, "Queries::try_remove lookup")
    m = one(r"self\.count\s*=\s*self\.count\.(saturating_sub|wrapping_sub|checked_sub)\(\s*" + NUMBER + r"\s*\)", tr,
            "Queries::try_remove count update")
    if m.group(1) != "saturating_sub":
        raise GenError("Queries::try_remove no longer uses saturating_sub")
    defs.append(("rem_count_dec", "N", "%d%%N" % num(m.group(2))))
    m = one(r"self\.curr\s*=\s*cmp::(min|max)\(\s*self\.curr\s*,\s*index\.into\(\)\s*\)", tr, "Queries::try_remove curr update")
    defs.append(("rem_curr", "N -> N -> N", "N.min" if m.group(1) == "min" else "N.max"))

    # ---- Queries::drain
    dr = fn_body(q, "drain")
    one(r"self\.vec\.drain\(\s*\.\.\s*\)\.flatten\(\)", dr, "Queries::drain drains the whole vector")
    m1 = one(r"self\.count\s*=\s*" + NUMBER + r"\s*;", dr, "Queries::drain count reset")
    m2 = one(r"self\.curr\s*=\s*" + NUMBER + r"\s*;", dr, "Queries::drain curr reset")
    defs.append(("drain_count", "N", "%d%%N" % num(m1.group(1))))
    defs.append(("drain_curr", "N", "%d%%N" % num(m2.group(1))))

    # ---- demux_reply bookkeeping
    dm = fn_body(st, "demux_reply")
    one(r"let\s+id\s*=\s*answer\.header\(\)\.id\(\);", dm, "demux_reply takes the ID from the answer header")
    one(r"match\s+query_vec\.try_remove\(id\)\s*\{\s*Some\(req\)\s*=>\s*req\s*,\s*None\s*=>\s*\{\s*return;\s*\}\s*\}", dm,
        "demux_reply looks the request up by ID and ignores unknown IDs")
    one(r"ReqSingleMulti::Single\(msg\)\s*=>\s*msg\.is_answer\(answer\.for_slice\(\)\)", dm, "demux_reply checks is_answer")
    one(r"\}\s*\{\s*Ok\(answer\)\s*\}\s*else\s*\{\s*Err\(Error::WrongReplyForQuery\)\s*\}", dm, "demux_reply result arms")
    one(r"if\s+req\.sender\.is_stream\(\)\s*\{\s*if\s+send_eof\s*\{\s*_\s*=\s*req\.sender\.send_eof\(\)\.await;\s*\}\s*else\s*\{\s*query_vec\.insert_at\(id,\s*\(req,\s*opt_xfr_data\)\);\s*\}\s*\}",
        dm, "demux_reply re-inserts an unfinished multi-response request at the same ID")
    defs.append(("demux_single_removed", "bool", "true"))
    one(r"status\.state\s*=\s*if\s+status\.idle_timeout\.is_zero\(\)\s*\{\s*ConnState::IdleTimeout\s*\}\s*else\s*\{\s*ConnState::Idle\(Instant::now\(\)\)\s*\}",
        dm, "demux_reply idle transition")
    i_reset = [m.start() for m in re.finditer(r"status\.state\s*=\s*ConnState::Active\(Some\(Instant::now\(\)\)\);", dm)]
    i_lookup = dm.find("query_vec.try_remove(id)")
    if len(i_reset) != 1 or i_lookup < 0:
        raise GenError("demux_reply: expected exactly one response-timer reset and the ID lookup")
    defs.append(("timer_reset_requires_known_id", "bool", "true" if i_reset[0] > i_lookup else "false"))
    # keepalive / idle timeout
    i_opts = dm.find("Self::handle_opts(&opts, status)")
    if i_opts < 0 or i_opts > i_lookup:
        raise GenError("demux_reply: the EDNS options are no longer handled before the ID lookup")
    one(r"if\s+let\s+Some\(opts\)\s*=\s*answer\.opt\(\)\s*\{\s*Self::handle_opts\(&opts,\s*status\);\s*\}", dm, "demux_reply handles the options of every reply")
    hk = fn_body(st, "handle_keepalive")
    one(r"^\s*if\s+let\s+Some\(value\)\s*=\s*opt_value\.timeout\(\)\s*\{\s*let\s+value_dur\s*=\s*Duration::from\(value\);\s*status\.idle_timeout\s*=\s*value_dur;\s*\}\s*$", hk,
        "handle_keepalive replaces the idle timeout only when the option carries one")
    ho = fn_body(st, "handle_opts")
    one(r"for\s+option\s+in\s+opts\.opt\(\)\.iter\(\)\.flatten\(\)\s*\{\s*if\s+let\s+AllOptData::TcpKeepalive\(tcpkeepalive\)\s*=\s*option\s*\{\s*Self::handle_keepalive\(tcpkeepalive,\s*status\);\s*\}\s*\}", ho, "handle_opts")
    ka = strip_comments(read("src/base/opt/keepalive.rs"))
    m = one(r"impl\s+From<IdleTimeout>\s+for\s+Duration\s*\{\s*fn\s+from\(src:\s*IdleTimeout\)\s*->\s*Self\s*\{\s*Duration::from_millis\(u64::from\(src\.0\)\s*\*\s*" + NUMBER + r"\)\s*\}", ka, "IdleTimeout unit")
    defs.append(("keepalive_units_ms", "N", "%d%%N" % num(m.group(1))))
    m = one(r"const\s+IDLE_TIMEOUT:\s*DefMinMax<Duration>\s*=\s*DefMinMax::new\(\s*([^,]+),\s*([^,]+),\s*([^,]+),?\s*\)", st, "stream IDLE_TIMEOUT")
    if m.group(2).strip() != "Duration::ZERO":
        raise GenError("IDLE_TIMEOUT minimum is no longer zero")
    defs.append(("idle_timeout_default_ms", "N", "%d%%N" % dur(m.group(1), "IDLE_TIMEOUT default")))
    defs.append(("idle_timeout_max_ms", "N", "%d%%N" % dur(m.group(3), "IDLE_TIMEOUT max")))
    runb = fn_body(st, "run", after="impl<Stream, Req, ReqMulti> Transport<Stream, Req, ReqMulti>\nwhere")
    m = one(r"ConnState::Idle\(instant\)\s*=>\s*\{\s*let\s+elapsed\s*=\s*instant\.elapsed\(\);\s*if\s+elapsed\s*" + OP + r"\s*status\.idle_timeout\s*\{\s*status\.state\s*=\s*ConnState::IdleTimeout;\s*break;\s*\}\s*Some\(status\.idle_timeout\s*-\s*elapsed\)", runb, "Transport::run idle test")
    defs.append(("run_idle_fires", "N -> N -> bool", "fun elapsed idle => " + cmp_fn(m.group(1), "elapsed", "idle")))
    one(r"Some\(self\.config\.response_timeout\s*-\s*elapsed\)", runb, "Transport::run sleeps for the remaining response time")
    er = fn_body(st, "error")
    one(r"for\s+\(mut\s+req,\s*_\)\s+in\s+query_vec\.drain\(\)\s*\{\s*_\s*=\s*req\.sender\.send\(Err\(error\.clone\(\)\)\)\.await;\s*\}", er,
        "Transport::error drains every waiter")
    irq = fn_body(st, "insert_req")
    one(r"hdr\.set_id\(index\);", irq, "insert_req uses the table index as message ID")
    arm_now = r"status\.state\s*=\s*ConnState::Active\(Some\(Instant::now\(\)\)\);"
    guarded = re.findall(r"ConnState::Active\(timer\)\s*=>\s*\{\s*if\s+timer\.is_none\(\)\s*\{\s*" + arm_now + r"\s*\}\s*\}", irq)
    unguarded = re.findall(r"ConnState::Active\([^)]*\)\s*(?:\|\s*ConnState::Idle\(_\)\s*)?=>\s*\{\s*" + arm_now + r"\s*\}", irq)
    if len(guarded) == 1 and not unguarded:
        defs.append(("insreq_arms_timer_only_if_none", "bool", "true"))
    elif len(unguarded) == 1 and not guarded:
        defs.append(("insreq_arms_timer_only_if_none", "bool", "false"))
    else:
        raise GenError("insert_req: cannot tell how the Active arm treats a running response timer")
    if len(re.findall(arm_now, irq)) != (2 if guarded else (1 if "ConnState::Idle(_)" in (re.search(r"ConnState::Active\([^)]*\)[^=]*=>", irq).group(0)) else 2)):
        raise GenError("insert_req: unexpected number of response-timer assignments")
    for stt, err in (("IdleTimeout", r"Error::StreamIdleTimeout"), ("ReadTimeout", r"Error::StreamReadTimeout")):
        one(r"ConnState::%s\s*=>\s*\{\s*_\s*=\s*req\.sender\.send\(Err\(%s\)\);\s*return;\s*\}" % (stt, err), irq,
            "insert_req gate for %s" % stt)
    for stt in ("ReadError", "WriteError"):
        one(r"ConnState::%s\(error\)\s*=>\s*\{\s*_\s*=\s*req\.sender\.send\(Err\(error\.clone\(\)\)\);\s*return;\s*\}" % stt, irq,
            "insert_req gate for %s" % stt)
    one(r"Err\(\(mut\s+req,\s*_\)\)\s*=>\s*\{\s*_\s*=\s*req\s*\.sender\s*\.send\(Err\(Error::StreamTooManyOutstandingQueries\)\);\s*return;\s*\}",
        irq, "insert_req full table")
    one(r"if\s+let\s+Some\(\(mut\s+req,\s*_\)\)\s*=\s*query_vec\.try_remove\(index\)\s*\{\s*_\s*=\s*req\.sender\.send\(Err\(err\)\);\s*\}", irq,
        "insert_req takes the request out again when it cannot be converted")

    # ---- the two octet length prefix of the stream framing (base/message_builder.rs StreamTarget)
    mbs = strip_comments(read("src/base/message_builder.rs"))
    us = fn_body(mbs, "update_shim")
    if re.search(r"match\s+u16::try_from\(self\.target\.as_ref\(\)\.len\(\)\s*-\s*2\)\s*\{\s*Ok\(len\)\s*=>\s*\{[^{}]*copy_from_slice\(&len\.to_be_bytes\(\)\);\s*Ok\(\(\)\)\s*\}\s*Err\(_\)\s*=>\s*Err\(ShortBuf\),?\s*\}", us):
        maxlen = 65535
    else:
        m = re.search(r"if\s+len\s*(>=|>)\s*(?:Self::)?(\w+|" + NUMBER[1:-1] + r")\s*\{\s*return\s+Err\(ShortBuf\);", us)
        if not m:
            raise GenError("StreamTarget::update_shim: cannot tell the largest message it accepts")
        lim = m.group(2)
        if not re.fullmatch(NUMBER[1:-1], lim):
            mm = re.search(r"const\s+" + re.escape(lim) + r":\s*usize\s*=\s*" + NUMBER + r"\s*;", mbs)
            if not mm:
                raise GenError("StreamTarget::update_shim: limit constant %s not found" % lim)
            lim = mm.group(1)
        maxlen = num(lim) - (1 if m.group(1) == ">=" else 0)
    defs.append(("stream_max_message_len", "N", "%d%%N" % maxlen))
    cq = fn_body(st, "convert_query")
    if len(re.findall(r"\.map_err\(\|_\|\s*Error::StreamLongMessage\)\?", cq)) != 2:
        raise GenError("convert_query: a message that does not fit the framing must fail with StreamLongMessage")

    # ---- stream::Config response timeouts
    m = one(r"const\s+RESPONSE_TIMEOUT:\s*DefMinMax<Duration>\s*=\s*DefMinMax::new\(\s*([^,]+),\s*([^,]+),\s*([^,]+),?\s*\)", st, "stream RESPONSE_TIMEOUT")
    defs.append(("stream_timeout_default_ms", "N", "%d%%N" % dur(m.group(1), "RESPONSE_TIMEOUT default")))
    defs.append(("stream_timeout_min_ms", "N", "%d%%N" % dur(m.group(2), "RESPONSE_TIMEOUT min")))
    defs.append(("stream_timeout_max_ms", "N", "%d%%N" % dur(m.group(3), "RESPONSE_TIMEOUT max")))
    cfg = impl_body(st, r"impl\s+Config\s*\{")
    srt = fn_body(cfg, "set_response_timeout")
    one(r"self\.response_timeout\s*=\s*RESPONSE_TIMEOUT\.limit\(timeout\);", srt, "set_response_timeout assigns response_timeout")
    a_single = len(re.findall(r"self\.single_response_timeout\s*=\s*(?:self\.response_timeout|RESPONSE_TIMEOUT\.limit\(timeout\))\s*;", srt))
    a_stream = len(re.findall(r"self\.streaming_response_timeout\s*=\s*(?:self\.response_timeout|RESPONSE_TIMEOUT\.limit\(timeout\))\s*;", srt))
    if len(re.findall(r"self\.\w+\s*=", srt)) != 1 + a_single + a_stream:
        raise GenError("set_response_timeout has an assignment the extractor does not understand")
    defs.append(("set_rt_assigns_single", "bool", "true" if a_single == 1 else "false"))
    defs.append(("set_rt_assigns_streaming", "bool", "true" if a_stream == 1 else "false"))
    sst = fn_body(cfg, "set_streaming_response_timeout")
    one(r"^\s*self\.streaming_response_timeout\s*=\s*RESPONSE_TIMEOUT\.limit\(timeout\);\s*$", sst, "set_streaming_response_timeout")
    dflt = fn_body(st, "default", after="impl Default for Config")
    for f in ("response_timeout", "single_response_timeout", "streaming_response_timeout"):
        one(r"\b%s:\s*RESPONSE_TIMEOUT\.default\(\)" % f, dflt, "Config::default %s" % f)
    run = fn_body(st, "run", after="impl<Stream, Req, ReqMulti> Transport<Stream, Req, ReqMulti>\nwhere")
    one(r"if\s+req\.sender\.is_stream\(\)\s*\{\s*self\.config\.response_timeout\s*=\s*self\.config\.streaming_response_timeout;\s*\}\s*else\s*\{\s*self\.config\.response_timeout\s*=\s*self\.config\.single_response_timeout;\s*\}",
        run, "Transport::run selects the timeout by request kind")
    defs.append(("run_selects_timeout_by_kind", "bool", "true"))
    # every *_response_timeout field the run loop reads (other than the working copy it assigns
    # itself) must be written by set_response_timeout
    reads = set(re.findall(r"self\.config\.(\w*response_timeout)\b(?!\s*=[^=])", run))
    writes_in_run = set(re.findall(r"self\.config\.(\w*response_timeout)\s*=[^=]", run))
    written = set(re.findall(r"self\.(\w*response_timeout)\s*=[^=]", srt))
    need = reads - writes_in_run
    if not need:
        raise GenError("Transport::run no longer reads a per-kind response timeout")
    defs.append(("set_rt_covers_run_reads", "bool", "true" if need <= written else "false"))
    fields = set(re.findall(r"^\s*(\w*response_timeout):\s*Duration,", impl_body(st, r"pub\s+struct\s+Config\s*\{"), re.M))
    defs.append(("cfg_response_timeout_fields", "N", "%d%%N" % len(fields)))
    m = one(r"if\s+elapsed\s*" + OP + r"\s*self\.config\.response_timeout\s*\{\s*Self::error\(\s*Error::StreamReadTimeout,", run, "Transport::run read timeout test")
    defs.append(("run_timeout_fires", "N -> N -> bool", "fun elapsed timeout => " + cmp_fn(m.group(1), "elapsed", "timeout")))
    lim = fn_body(strip_comments(read("src/utils/config.rs")), "limit")
    one(r"^\s*cmp::max\(\s*self\.min\s*,\s*cmp::min\(\s*self\.max\s*,\s*value\s*\)\s*\)\s*$", lim, "DefMinMax::limit")
    defs.append(("defminmax_limit", "N -> N -> N -> N", "fun lo hi v => N.max lo (N.min hi v)"))

    # ---- RequestMessage::is_answer
    rq = strip_comments(read("src/net/client/request.rs"))
    ia_ = fn_body(rq, "is_answer", after="ComposeRequest\n    for RequestMessage<Octs>")
    m = one(r"if\s+(!?)answer_header\.qr\(\)\s*\|\|\s*answer_header\.id\(\)\s*" + OP + r"\s*self\.header\.id\(\)\s*\{", ia_,
            "is_answer QR/ID rejection")
    defs.append(("isans_reject", "bool -> N -> N -> bool",
                 "fun qr aid rid => orb (%s) %s" % ("negb qr" if m.group(1) == "!" else "qr", cmp_fn(m.group(2), "aid", "rid"))))
    m = one(r"if\s+answer_header\.rcode\(\)\s*" + OP + r"\s*Rcode::NOERROR\s*&&\s*answer_hcounts\.qdcount\(\)\s*==\s*0\s*&&\s*answer_hcounts\.ancount\(\)\s*==\s*0\s*"
            r"&&\s*answer_hcounts\.nscount\(\)\s*==\s*0\s*&&\s*answer_hcounts\.arcount\(\)\s*==\s*0\s*\{\s*return\s+true;\s*\}", ia_,
            "is_answer header-only error acceptance")
    defs.append(("isans_hdr_only", "N -> N -> N -> N -> N -> bool",
                 "fun rcode qd an ns ar => andb %s (andb (qd =? 0)%%N (andb (an =? 0)%%N (andb (ns =? 0)%%N (ar =? 0)%%N)))" % cmp_fn(m.group(1), "rcode", "0")))
    m = one(r"if\s+answer_hcounts\.qdcount\(\)\s*" + OP + r"\s*self\.msg\.header_counts\(\)\.qdcount\(\)\s*\{[^{}]*\bfalse\s*\}\s*else\s*\{\s*let\s+res\s*=\s*answer\.question\(\)\s*(==|!=)\s*self\.msg\.for_slice\(\)\.question\(\);",
            ia_, "is_answer question comparison")
    defs.append(("isans_qd_reject", "N -> N -> bool", "fun aqd rqd => " + cmp_fn(m.group(1), "aqd", "rqd")))
    defs.append(("isans_q_equal", "bool", "true" if m.group(2) == "==" else "false"))

    # ---- RequestMessageMulti::is_answer: same tests plus the AXFR empty-question rule
    im = fn_body(rq, "is_answer", after="ComposeRequestMulti\n    for RequestMessageMulti<Octs>")
    m2 = one(r"if\s+(!?)answer_header\.qr\(\)\s*\|\|\s*answer_header\.id\(\)\s*" + OP + r"\s*self\.header\.id\(\)\s*\{", im, "multi is_answer QR/ID rejection")
    m1 = one(r"if\s+(!?)answer_header\.qr\(\)\s*\|\|\s*answer_header\.id\(\)\s*" + OP + r"\s*self\.header\.id\(\)\s*\{", ia_, "is_answer QR/ID rejection")
    if m1.groups() != m2.groups():
        raise GenError("single and multi is_answer differ in the QR/ID test")
    one(r"if\s+answer_header\.rcode\(\)\s*!=\s*Rcode::NOERROR\s*&&\s*answer_hcounts\.qdcount\(\)\s*==\s*0\s*&&\s*answer_hcounts\.ancount\(\)\s*==\s*0\s*"
        r"&&\s*answer_hcounts\.nscount\(\)\s*==\s*0\s*&&\s*answer_hcounts\.arcount\(\)\s*==\s*0\s*\{\s*return\s+true;\s*\}", im, "multi is_answer header-only rule")
    if not re.search(r"rcode\(\)\s*!=\s*Rcode::NOERROR", ia_):
        raise GenError("single is_answer header-only rule differs from the multi one")
    one(r"if\s+self\.msg\.qtype\(\)\s*==\s*Some\(Rtype::AXFR\)\s*&&\s*answer_hcounts\.qdcount\(\)\s*==\s*0\s*\{\s*true\s*\}\s*else\s+if\s+answer_hcounts\.qdcount\(\)\s*!=\s*self\.msg\.header_counts\(\)\.qdcount\(\)\s*\{[^{}]*\bfalse\s*\}\s*else\s*\{\s*let\s+res\s*=\s*answer\.question\(\)\s*==\s*self\.msg\.for_slice\(\)\.question\(\);",
        im, "multi is_answer AXFR rule and question comparison")
    defs.append(("multi_axfr_rule", "bool", "true"))

    # ---- check_stream anchors (the transcription itself is tied by the demux T2)
    cs = fn_body(st, "check_stream")
    ret_err = r"xfr_state\s*=\s*XFRState::Error;\s*return\s*\(false,\s*xfr_state,\s*false\);"
    one(r"XFRState::AXFRInit\s*\|\s*XFRState::IXFRInit\s*=>\s*\{\s*if\s+!msg\.is_answer\(answer\.for_slice\(\)\)\s*\{\s*" + ret_err + r"\s*\}\s*\}", cs, "check_stream first-response check")
    one(r"XFRState::Done\s*=>\s*\{\s*" + ret_err + r"\s*\}\s*XFRState::Error\s*=>\s*\{\s*return\s*\(false,\s*xfr_state,\s*false\);\s*\}", cs, "check_stream Done/Error on entry")
    one(r"if\s+answer\.header\(\)\.rcode\(\)\s*!=\s*Rcode::NOERROR\s*\{\s*if\s+!msg\.is_answer\(answer\.for_slice\(\)\)\s*\{\s*" + ret_err + r"\s*\}\s*return\s*\(true,\s*xfr_state,\s*true\);\s*\}", cs, "check_stream error response")
    if len(re.findall(r"if\s+serial\s*==\s*soa\.serial\(\)\s*\{\s*xfr_state\s*=\s*XFRState::Done;\s*continue;\s*\}", cs)) != 3:
        raise GenError("check_stream: expected three serial comparisons that end the transfer")
    if len(re.findall(r"xfr_state\s*=\s*XFRState::Error;\s*return\s*\(true,\s*xfr_state,\s*false\);", cs)) != 2:
        raise GenError("check_stream: expected two parse-error returns (true, Error, false)")
    one(r"XFRState::IXFRFirstSoa\(_\)\s*=>\s*\{\s*xfr_state\s*=\s*XFRState::Done;\s*return\s*\(true,\s*xfr_state,\s*true\);\s*\}\s*XFRState::Done\s*=>\s*return\s*\(true,\s*xfr_state,\s*true\),", cs, "check_stream final states")
    one(r"\(false,\s*xfr_state,\s*true\)\s*$", cs, "check_stream continues the stream")
    one(r"xfr_state\s*=\s*XFRState::AXFRFirstSoa\(serial\);\s*\}\s*XFRState::IXFRFirstDiffSoa", cs, "check_stream IXFR falls back to AXFR format")
    defs.append(("check_stream_anchored", "bool", "true"))
    one(r"if\s+qtype\s*==\s*Rtype::AXFR\s*\{\s*Some\(XFRState::AXFRInit\)\s*\}\s*else\s+if\s+qtype\s*==\s*Rtype::IXFR\s*\{\s*Some\(XFRState::IXFRInit\)\s*\}", irq, "insert_req initial XFR state")

    # ---- Message::is_answer (base) - same shape without the header-only rule
    bm = strip_comments(read("src/base/message.rs"))
    mi = fn_body(bm, "is_answer")
    one(r"if\s+!self\.header\(\)\.qr\(\)\s*\|\|\s*self\.header\(\)\.id\(\)\s*!=\s*query\.header\(\)\.id\(\)\s*\|\|\s*self\.header_counts\(\)\.qdcount\(\)\s*!=\s*query\.header_counts\(\)\.qdcount\(\)\s*\{\s*false\s*\}\s*else\s*\{\s*self\.question\(\)\s*==\s*query\.question\(\)\s*\}",
        mi, "Message::is_answer")
    defs.append(("base_is_answer_shape", "bool", "true"))

    # ---- dgram receive loop
    dg = strip_comments(read("src/net/client/dgram.rs"))
    hr = fn_body(dg, "handle_request_impl")
    m = one(r"for\s+_\s+in\s+" + NUMBER + r"\s*\.\.\s*" + NUMBER + r"\s*\+\s*self\.state\.config\.max_retries\s*\{", hr, "dgram attempt loop")
    if num(m.group(1)) != 0:
        raise GenError("dgram attempt loop no longer starts at 0")
    defs.append(("dgram_attempts", "N -> N", "fun max_retries => (%d + max_retries)%%N" % num(m.group(2))))
    one(r"let\s+deadline\s*=\s*Instant::now\(\)\s*\+\s*self\.state\.config\.read_timeout;", hr, "dgram deadline")
    m = one(r"while\s+deadline\s*" + OP + r"\s*Instant::now\(\)\s*\{", hr, "dgram receive loop condition")
    defs.append(("dgram_loop_cond", "N -> N -> bool", "fun deadline now => " + cmp_fn(m.group(1), "deadline", "now")))
    one(r"match\s+timeout_at\(deadline,\s*sock\.recv\(&mut\s+buf\)\)\.await\s*\{", hr, "dgram recv under timeout_at(deadline)")
    one(r"Err\(_\)\s*=>\s*\{[^{}]*break;\s*\}", hr, "dgram timeout breaks the receive loop")
    one(r"Err\(old_buf\)\s*=>\s*\{[^{}]*buf\s*=\s*old_buf;\s*continue;\s*\}", hr, "dgram garbage is skipped")
    m = one(r"if\s+(!?)request\.is_answer\(answer\.for_slice\(\)\)\s*\{[^{}]*buf\s*=\s*answer\.into_octets\(\);\s*continue;\s*\}", hr,
            "dgram non-answers are skipped")
    defs.append(("dgram_skip_if_not_answer", "bool", "true" if m.group(1) == "!" else "false"))
    one(r"return\s+Ok\(answer\.octets_into\(\)\);\s*\}\s*\}\s*Err\(QueryError::timeout\(\)\.into\(\)\)", hr, "dgram result")
    one(r"request\.header_mut\(\)\.set_random_id\(\);", hr, "dgram picks a fresh random ID per attempt")
    U8 = r"(0x[0-9A-Fa-f_]+|\d[\d_]*|u8::MAX|u8::MIN)"
    def u8v(t):
        return 255 if t == "u8::MAX" else 0 if t == "u8::MIN" else num(t)
    m = one(r"const\s+MAX_RETRIES:\s*DefMinMax<u8>\s*=\s*DefMinMax::new\(\s*" + U8 + r"\s*,\s*" + U8 + r"\s*,\s*" + U8 + r"\s*\)", dg,
            "dgram MAX_RETRIES")
    defs.append(("dgram_retries_default", "N", "%d%%N" % u8v(m.group(1))))
    defs.append(("dgram_retries_max", "N", "%d%%N" % u8v(m.group(3))))
    m = one(r"const\s+READ_TIMEOUT:\s*DefMinMax<Duration>\s*=\s*DefMinMax::new\(\s*([^,]+),\s*([^,]+),\s*([^,]+),?\s*\)", dg, "dgram READ_TIMEOUT")
    defs.append(("dgram_timeout_default_ms", "N", "%d%%N" % dur(m.group(1), "READ_TIMEOUT default")))
    defs.append(("dgram_timeout_min_ms", "N", "%d%%N" % dur(m.group(2), "READ_TIMEOUT min")))
    defs.append(("dgram_timeout_max_ms", "N", "%d%%N" % dur(m.group(3), "READ_TIMEOUT max")))

    # ---- multi_stream: connection reuse, forced reconnect, back-off after a failed connect
    ms = strip_comments(read("src/net/client/multi_stream.rs"))
    mrun = fn_body(ms, "run", after="impl<Remote, Req: ComposeRequest> Transport<Remote, Req>")
    m = one(r"if\s+let\s+SingleConnState3::Err\(error_state\)\s*=\s*&self\.conn_state\s*\{\s*if\s+error_state\.timer\.elapsed\(\)\s*" + OP + r"\s*error_state\.timeout\s*\{\s*let\s+resp\s*=\s*ChanResp::Err\(error_state\.error\.clone\(\)\);\s*_\s*=\s*chan\.send\(resp\);\s*continue;\s*\}\s*\}", mrun,
            "multi_stream back-off test")
    defs.append(("ms_backoff_active", "N -> N -> bool", "fun elapsed timeout => " + cmp_fn(m.group(1), "elapsed", "timeout")))
    m = one(r"if\s+let\s+Some\(id\)\s*=\s*opt_id\s*\{\s*if\s+id\s*" + OP + r"\s*self\.conn_id\s*\{\s*self\.conn_id\s*\+=\s*" + NUMBER + r";\s*self\.conn_state\s*=\s*SingleConnState3::None;\s*\}\s*\}", mrun,
            "multi_stream forced reconnect")
    defs.append(("ms_stale", "N -> N -> bool", "fun id conn_id => " + cmp_fn(m.group(1), "id", "conn_id")))
    defs.append(("ms_id_inc", "N", "%d%%N" % num(m.group(2))))
    one(r"if\s+let\s+SingleConnState3::Some\(conn\)\s*=\s*&self\.conn_state\s*\{\s*let\s+resp\s*=\s*ChanResp::Ok\(ChanRespOk\s*\{\s*id:\s*self\.conn_id,\s*conn:\s*conn\.clone\(\),\s*\}\);\s*_\s*=\s*chan\.send\(resp\);\s*\}\s*else\s*\{\s*opt_chan\s*=\s*Some\(chan\);\s*stream_fut\s*=\s*Box::pin\(self\.stream\.connect\(\)\);\s*do_stream\s*=\s*true;\s*\}",
        mrun, "multi_stream reuse or connect")
    one(r"SingleConnState3::None\s*=>\s*self\.conn_state\s*=\s*SingleConnState3::Err\(ErrorState\s*\{\s*error:\s*error\.clone\(\),\s*retries:\s*0,\s*timer:\s*Instant::now\(\),\s*timeout:\s*retry_time\(0\),\s*\}\)", mrun,
        "multi_stream first connect failure")
    one(r"SingleConnState3::Err\(error_state\)\s*=>\s*\{\s*self\.conn_state\s*=\s*SingleConnState3::Err\(ErrorState\s*\{\s*error:\s*error_state\.error\.clone\(\),\s*retries:\s*error_state\.retries\s*\+\s*1,\s*timer:\s*Instant::now\(\),\s*timeout:\s*retry_time\(\s*error_state\.retries\s*\+\s*1\),\s*\}\);\s*\}", mrun,
        "multi_stream repeated connect failure")
    one(r"SingleConnState3::Some\(_\)\s*=>\s*panic!\(\"Illegal Some state\"\)", mrun, "multi_stream Some state on connect failure")
    rt_ = fn_body(ms, "retry_time")
    m = one(r"let\s+to_secs\s*=\s*if\s+retries\s*" + OP + r"\s*" + NUMBER + r"\s*\{\s*" + NUMBER + r"\s*\}\s*else\s*\{\s*" + NUMBER + r"\s*<<\s*retries\s*\};\s*let\s+to_usecs\s*=\s*to_secs\s*\*\s*" + NUMBER + r";", rt_, "retry_time")
    if num(m.group(5)) != 1000000:
        raise GenError("retry_time no longer computes in microseconds")
    defs.append(("ms_retry_cap_ms", "N -> N", "fun retries => (if %s then %d * 1000 else N.shiftl %d retries * 1000)%%N" % (cmp_fn(m.group(1), "retries", "%d" % num(m.group(2))), num(m.group(3)), num(m.group(4)))))
    one(r"let\s+rnd:\s*f64\s*=\s*random\(\);\s*let\s+to_usecs\s*=\s*to_usecs\s+as\s+f64\s*\*\s*rnd;", rt_, "retry_time random factor in [0,1)")

    # ---- multi_stream Request: one response-timeout budget per request
    mreq = fn_body(ms, "get_response", after="impl<Req: ComposeRequest + Clone + 'static> Request<Req>")
    mnew = fn_body(ms, "new", after="impl<Req> Request<Req>")
    one(r"start:\s*Instant::now\(\),", mnew, "multi_stream Request::new starts the clock")
    defs.append(("ms_start_fixed", "bool", "true" if len(re.findall(r"self\.start\s*=", mreq)) == 0 else "false"))
    m = one(r"let\s+elapsed\s*=\s*self\.start\.elapsed\(\);\s*if\s+elapsed\s*" + OP + r"\s*self\.conn\.response_timeout\s*\{\s*return\s+Err\(Error::StreamReadTimeout\);\s*\}\s*let\s+remaining\s*=\s*self\.conn\.response_timeout\s*-\s*elapsed;", mreq,
            "multi_stream Request budget test")
    defs.append(("ms_budget_spent", "N -> N -> bool", "fun elapsed timeout => " + cmp_fn(m.group(1), "elapsed", "timeout")))
    awaits = len(re.findall(r"\.await", mreq))
    guarded = len(re.findall(r"timeout\(\s*remaining\s*,", mreq))
    defs.append(("ms_all_awaits_bounded", "bool", "true" if awaits == guarded == 4 else "false"))
    m = one(r"Err\(Error::ConnectionClosed\)\s*=>\s*\{\s*self\.delayed_retry_count\s*\+=\s*1;\s*if\s+self\.delayed_retry_count\s*==\s*" + NUMBER + r"\s*\{\s*self\.state\s*=\s*QueryState::RequestConn;\s*\}\s*else\s*\{", mreq,
            "multi_stream immediate retry after the first ConnectionClosed")
    defs.append(("ms_immediate_retry_at", "N", "%d%%N" % num(m.group(1))))
    one(r"Err\(Error::WrongReplyForQuery\)\s*=>\s*\{\s*return\s+Err\(Error::WrongReplyForQuery\);\s*\}", mreq, "multi_stream returns WrongReplyForQuery")

    # ---- redundant: which results are returned at once, which are deferred
    rd = strip_comments(read("src/net/client/redundant.rs"))
    gr_ = fn_body(rd, "get_response", after="impl<Req: Clone + Send + Sync + 'static> Query<Req>")
    if len(re.findall(r"if\s+self\.config\.defer_transport_error\s*\{\s*if\s+self\.deferred_transport_error\.is_none\(\)\s*\{\s*self\.deferred_transport_error\s*=\s*Some\(err\.clone\(\)\);\s*\}", gr_)) != 2:
        raise GenError("redundant: deferring of transport errors changed")
    if len(re.findall(r"if\s+skip\(msg,\s*&self\.config\)\s*\{\s*if\s+self\.deferred_reply\.is_none\(\)\s*\{\s*self\.deferred_reply\s*=\s*Some\(msg\.clone\(\)\);\s*\}", gr_)) != 2:
        raise GenError("redundant: deferring of replies changed")
    if len(re.findall(r"if\s+ind\s*\+\s*1\s*<\s*self\.conn_rt\.len\(\)\s*\{\s*QueryState::Probe\(ind\s*\+\s*1\)\s*\}\s*else\s*\{\s*QueryState::Wait\s*\}", gr_)) != 3:
        raise GenError("redundant: advancing to the next upstream changed")
    if len(re.findall(r"if\s+res\.0\s*==\s*ind\s*\{", gr_)) != 2:
        raise GenError("redundant: current-upstream test changed")
    i1 = gr_.find("if self.deferred_reply.is_some()"); i2 = gr_.find("if self.deferred_transport_error.is_some()")
    if i1 < 0 or i2 < 0:
        raise GenError("redundant: final choice between deferred reply and deferred error not found")
    defs.append(("red_prefers_reply", "bool", "true" if i1 < i2 else "false"))
    one(r"if\s+self\.conn_rt\.is_empty\(\)\s*\{\s*return\s+Err\(Error::NoTransportAvailable\);\s*\}\s*self\.state\s*=\s*QueryState::Probe\(0\);", gr_, "redundant starts with the first upstream")
    sk = fn_body(rd, "skip")
    one(r"if\s+!config\.defer_refused\s*&&\s*!config\.defer_servfail\s*\{\s*return\s+false;\s*\}", sk, "redundant skip short cut")
    one(r"if\s+let\s+OptRcode::REFUSED\s*=\s*opt_rcode\s*\{\s*if\s+config\.defer_refused\s*\{\s*return\s+true;\s*\}\s*\}\s*if\s+let\s+OptRcode::SERVFAIL\s*=\s*opt_rcode\s*\{\s*if\s+config\.defer_servfail\s*\{\s*return\s+true;\s*\}\s*\}\s*false", sk, "redundant skip")
    defs.append(("red_skip", "bool -> bool -> N -> bool", "fun defer_refused defer_servfail rcode => orb (andb defer_refused (rcode =? 5)%N) (andb defer_servfail (rcode =? 2)%N)"))

    # ---- load_balancer: the locally generated SERVFAIL and the burst gate
    lb = strip_comments(read("src/net/client/load_balancer.rs"))
    sf = fn_body(lb, "serve_fail")
    copied = len(re.findall(r"\*target\.header_mut\(\)\s*=\s*msg\.header\(\);", sf)) == 1
    id_set = len(re.findall(r"\.set_id\(\s*(?:msg\.header\(\)|request_header|source\.header\(\))\.id\(\)\s*\)", sf)) >= 1
    defs.append(("lb_local_id", "N -> N", "fun rid => rid" if (copied or id_set) else "fun _ => 0%N"))
    if copied and not re.search(r"set_qr\(", sf):
        defs.append(("lb_local_qr", "bool -> bool", "fun rqr => rqr"))
    elif re.search(r"set_qr\(\s*true\s*\)", sf):
        defs.append(("lb_local_qr", "bool -> bool", "fun _ => true"))
    elif not copied and not re.search(r"set_qr\(", sf):
        defs.append(("lb_local_qr", "bool -> bool", "fun _ => false"))
    else:
        raise GenError("serve_fail: cannot tell how the QR bit of the local answer is set")
    one(r"set_rcode\(Rcode::SERVFAIL\);", sf, "serve_fail RCODE")
    defs.append(("lb_local_rcode", "N", "2%N"))
    qcopy = re.search(r"let\s+source\s*=\s*source\.question\(\);\s*let\s+mut\s+target\s*=\s*target\.question\(\);\s*for\s+rr\s+in\s+source\s*\{\s*target\.push\(rr\?\)\.expect\(\"should not fail\"\);\s*\}", sf)
    defs.append(("lb_local_copies_question", "bool", "true" if qcopy else "false"))
    ri = fn_body(lb, "request_impl")
    one(r"if\s+conn_rt\.is_empty\(\)\s*\{\s*return\s+serve_fail\(&request_msg\.to_message\(\)\.unwrap\(\)\);\s*\}", ri, "load_balancer answers locally when no upstream is usable")
    lrun = fn_body(lb, "run", after="impl<Req: Clone + Send + Sync + 'static> Transport<Req>")
    m = one(r"if\s+conn_stats\[i\]\.burst\s*" + OP + r"\s*max_burst\s*\{\s*tmp_conn_rt\.swap_remove\(i\);\s*\}", lrun, "load_balancer burst gate")
    defs.append(("lb_over_burst", "N -> N -> bool", "fun burst max_burst => " + cmp_fn(m.group(1), "burst", "max_burst")))
    m = one(r"conn_stats\[ind\]\.burst\s*\+=\s*" + NUMBER + r";", lrun, "load_balancer burst count")
    defs.append(("lb_burst_inc", "N", "%d%%N" % num(m.group(1))))
    m = one(r"if\s+conn_stats\[i\]\.burst_start\.elapsed\(\)\s*" + OP + r"\s*conn_stats\[i\]\.burst_interval\s*\{\s*conn_stats\[i\]\.burst_start\s*=\s*Instant::now\(\);\s*conn_stats\[i\]\.burst\s*=\s*0;\s*\}", lrun, "load_balancer burst interval reset")
    defs.append(("lb_interval_over", "N -> N -> bool", "fun elapsed interval => " + cmp_fn(m.group(1), "elapsed", "interval")))

    # ---- dgram_stream TC fallback
    ds = strip_comments(read("src/net/client/dgram_stream.rs"))
    gr = fn_body(ds, "get_response_impl")
    m = one(r"QueryState::GetUdpResponse\(request\)\s*=>\s*\{\s*let\s+response\s*=\s*request\.get_response\(\)\.await\?;\s*if\s+(!?)response\.header\(\)\.tc\(\)\s*\{\s*self\.state\s*=\s*QueryState::StartTcpRequest;\s*continue;\s*\}\s*return\s+Ok\(response\);\s*\}",
            gr, "dgram_stream TC rule")
    defs.append(("tc_falls_back_when_set", "bool", "true" if m.group(1) == "" else "false"))
    one(r"QueryState::StartTcpRequest\s*=>\s*\{\s*let\s+msg\s*=\s*self\.request_msg\.clone\(\);\s*let\s+request\s*=\s*self\.tcp_conn\.send_request\(msg\);", gr,
        "dgram_stream sends the same request over the stream")
    one(r"QueryState::GetTcpResponse\(query\)\s*=>\s*\{\s*let\s+response\s*=\s*query\.get_response\(\)\.await\?;\s*return\s+Ok\(response\);\s*\}", gr,
        "dgram_stream returns the stream result")
    return defs

if __name__ == "__main__":
    main("C15", "/repo/src/net/client/{stream,request,dgram,dgram_stream}.rs, base/message.rs", build)
