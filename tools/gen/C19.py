#!/usr/bin/env python3
"""T1 extractor for C19: literals and comparison operators of the new-API
name decoder (NameBuf / RevNameBuf parse_segment, split/parse_message_bytes),
of the new NameCompressor and Name::build_in_message, and - as a cross-check
of the shared Base/PName.v transcription - of the old ParsedName::parse_ref."""
import re, sys, os
sys.path.insert(0, os.path.dirname(os.path.abspath(__file__)))
from rs import *

NUM = r"(0x[0-9A-Fa-f_]+|\d[\d_]*)"

def b(x):
    return "true" if x else "false"

def N(v):
    return "%d%%N" % v

def segment_items(src, tag, bufexpr, what):
    """parse_segment of absolute.rs / reversed.rs"""
    d = []
    body = fn_body(src, "parse_segment")
    one(r"\[\s*0\s*,\s*ref\s+rest\s*@\s*\.\.\s*\]\s*=>", body, what + " root arm")
    m = one(r"\[\s*l\s*,\s*\.\.\s*\]\s*if\s+l\s*(<=|<)\s*" + NUM + r"\s*=>", body, what + " label arm")
    d.append((tag + "_label_bound", "N", N(num(m.group(2)))))
    d.append((tag + "_label_bound_strict", "bool", b(m.group(1) == "<")))
    m = one(r"if\s+bytes\.len\(\)\s*(<=|<)\s*" + NUM + r"\s*\+\s*l\s+as\s+usize", body, what + " short label test")
    d.append((tag + "_short_strict", "bool", b(m.group(1) == "<")))
    d.append((tag + "_short_add", "N", N(num(m.group(2)))))
    m = one(bufexpr + r"\s*(<=|<)\s*" + NUM + r"\s*\+\s*l\b", body, what + " length cap")
    gi = m.lastindex
    d.append((tag + "_cap_strict", "bool", b(m.group(gi - 1) == "<")))
    d.append((tag + "_cap_slack", "N", N(num(m.group(gi)))))
    if gi == 3:
        d.append((tag + "_cap_total", "N", N(num(m.group(1)))))
    m = one(r"\[\s*hi\s*,\s*lo\s*,\s*ref\s+rest\s*@\s*\.\.\s*\]\s*if\s+hi\s*(>=|>)\s*" + NUM + r"\s*=>", body, what + " pointer arm")
    d.append((tag + "_ptr_tag", "N", N(num(m.group(2)))))
    d.append((tag + "_ptr_tag_ge", "bool", b(m.group(1) == ">=")))
    one(r"u16::from_be_bytes\(\s*\[\s*hi\s*,\s*lo\s*\]\s*\)", body, what + " pointer is big endian hi,lo")
    m = one(r"Some\(\s*pointer\s*&\s*" + NUM + r"\s*\)", body, what + " pointer mask")
    d.append((tag + "_ptr_mask", "N", N(num(m.group(1)))))
    # the arms must come in this order: root, label, pointer, catch-all
    order = [body.find("[0, ref rest"), body.find("[l, ..]"), body.find("[hi, lo,"), body.find("_ => return Err(ParseError)")]
    if -1 in order or order != sorted(order):
        raise GenError(what + ": match arms reordered")
    return d

def follow_items(src, tag, implhdr, fname, what):
    d = []
    body = fn_body(src, fname, after=implhdr)
    one(r"contents\.get\(\s*start\s*\.\.\s*\)\.ok_or\(ParseError\)\?\s*;\s*let\s*\(\s*mut\s+pointer\s*,\s*rest\s*\)\s*=\s*parse_segment", body, what + " first segment")
    m = one(r"start\.checked_sub\(\s*" + NUM + r"\s*\)\.ok_or\(ParseError\)\?", body, what + " header offset")
    d.append((tag + "_hdr", "N", N(num(m.group(1)))))
    m = one(r"if\s+start\s*(>=|>|<=|<)\s*old_start\s*\{\s*return\s+Err\(ParseError\)", body, what + " backward rule")
    if m.group(1) not in (">=", ">"):
        raise GenError(what + ": backward rule operator " + m.group(1))
    d.append((tag + "_rule_ge", "bool", b(m.group(1) == ">=")))
    one(r"let\s+mut\s+old_start\s*=\s*start\s*;", body, what + " old_start initial")
    one(r"old_start\s*=\s*start\s*;\s*continue", body, what + " old_start update")
    if fname == "split_message_bytes":
        one(r"let\s+orig_end\s*=\s*contents\.len\(\)\s*-\s*rest\.len\(\)\s*;", body, what + " orig_end")
    else:
        one(r"if\s*!\s*rest\.is_empty\(\)\s*\{\s*return\s+Err\(ParseError\)", body, what + " parse must cover range")
    return d

def build():
    defs = []
    ab = strip_comments(read("src/new/base/name/absolute.rs"))
    rv = strip_comments(read("src/new/base/name/reversed.rs"))
    defs += segment_items(ab, "nb", NUM + r"\s*-\s*buffer\.size", "NameBuf parse_segment")
    defs += follow_items(ab, "nb_split", "SplitMessageBytes<'a> for NameBuf", "split_message_bytes", "NameBuf::split_message_bytes")
    defs += follow_items(ab, "nb_parse", "ParseMessageBytes<'a> for NameBuf", "parse_message_bytes", "NameBuf::parse_message_bytes")
    defs += segment_items(rv, "rb", r"buffer\.offset", "RevNameBuf parse_segment")
    defs += follow_items(rv, "rb_split", "SplitMessageBytes<'a> for RevNameBuf", "split_message_bytes", "RevNameBuf::split_message_bytes")
    defs += follow_items(rv, "rb_parse", "ParseMessageBytes<'a> for RevNameBuf", "parse_message_bytes", "RevNameBuf::parse_message_bytes")
    m = one(r"const\s+fn\s+empty\(\)\s*->\s*Self\s*\{\s*Self\s*\{\s*offset\s*:\s*" + NUM, rv, "RevNameBuf::empty offset")
    defs.append(("rb_empty_offset", "N", N(num(m.group(1)))))
    # the uncompressed parser Name::split_bytes_by_ref
    sbr = fn_body(ab, "split_bytes_by_ref", after="unsafe impl SplitBytesZC for Name")
    m = one(r"while\s+offset\s*(<=|<)\s*" + NUM + r"\s*\{", sbr, "Name::split_bytes_by_ref loop bound")
    defs.append(("name_flat_bound", "N", N(num(m.group(2)))))
    defs.append(("name_flat_strict", "bool", b(m.group(1) == "<")))
    one(r"\[\s*l\s*@\s*1\s*\.\.=\s*63\s*,\s*ref\s+rest\s*@\s*\.\.\s*\]\s*if\s+rest\.len\(\)\s*>=\s*l\s+as\s+usize\s*=>\s*\{\s*offset\s*\+=\s*1\s*\+\s*l\s+as\s+usize\s*;", sbr, "Name::split_bytes_by_ref label arm")
    one(r"\[\s*0\s*,\s*\.\.\s*\]\s*=>\s*\{\s*let\s*\(name,\s*rest\)\s*=\s*bytes\.split_at\(\s*offset\s*\+\s*1\s*\)", sbr, "Name::split_bytes_by_ref root arm")
    # Name::build_in_message: the pointer that is written
    bim = fn_body(ab, "build_in_message", after="impl BuildInMessage for Name")
    m = one(r"let\s+addr\s*=\s*\(\s*addr\s*\+\s*" + NUM + r"\s*\)\.to_be_bytes\(\)", bim, "Name::build_in_message pointer")
    defs.append(("bim_ptr_add", "N", N(num(m.group(1)))))
    one(r"compressor\.compress_name\(\s*&contents\[\s*\.\.\s*start\s*\]\s*,\s*self\s*\)", bim, "build_in_message passes contents[..start]")
    # compressor
    cp = strip_comments(read("src/new/base/name/compressor.rs"))
    for tag, fn in (("cn", "compress_name"), ("cr", "compress_revname")):
        body = fn_body(cp, fn, after="impl NameCompressor")
        m = one(r"let\s+mut\s+parent\s*=\s*" + NUM + r"u8\s*;", body, fn + " no-parent marker")
        defs.append((tag + "_no_parent", "N", N(num(m.group(1)))))
        m = one(r"if\s+use_pos\s*(<=|<)\s*" + NUM + r"\s*\+\s*" + NUM + r"\s*\{", body, fn + " last_use bound")
        defs.append((tag + "_use_strict", "bool", b(m.group(1) == "<")))
        defs.append((tag + "_use_bound", "N", N(num(m.group(2)) + num(m.group(3)))))
        m = one(r"let\s+use_pos\s*=\s*use_pos\.max\(\s*" + NUM + r"\s*\)", body, fn + " use_pos floor")
        defs.append((tag + "_use_floor", "N", N(num(m.group(1)))))
        m = one(r"if\s*!\s*name\.is_empty\(\)\s*&&\s*contents\.len\(\)\s*(?:\+\s*" + NUM + r"\s*)?(<=|<)\s*" + NUM + r"\s*\{", body, fn + " registration bound")
        defs.append((tag + "_reg_add", "N", N(num(m.group(1)) if m.group(1) else 0)))
        defs.append((tag + "_reg_strict", "bool", b(m.group(2) == "<")))
        defs.append((tag + "_reg_bound", "N", N(num(m.group(3)))))
        # is a looked-up offset checked against the 14-bit pointer range (header included)?
        mm = re.findall(r"if\s+usize::from\(offset\)\s*\+\s*" + NUM + r"\s*(>=|>)\s*" + NUM, body)
        if len(mm) > 1:
            raise GenError(fn + ": several pointer range checks")
        defs.append((tag + "_range_check", "bool", b(len(mm) == 1)))
        defs.append((tag + "_range_add", "N", N(num(mm[0][0]) if mm else 0)))
        defs.append((tag + "_range_ge", "bool", b(mm[0][1] == ">=" if mm else True)))
        defs.append((tag + "_range_bound", "N", N(num(mm[0][2]) if mm else 0)))
        one(r"\(\s*0usize\s*\.\.\s*32\s*\)\s*\.min_by_key\(\s*\|&i\|\s*self\.last_use\[i\]\s*\)", body, fn + " eviction = first minimum of last_use over 32 slots")
    lk = fn_body(cp, "lookup_entry_for_name", after="impl NameCompressor")
    one(r"for\s+i\s+in\s+0\s*\.\.\s*32\s*\{", lk, "lookup slots")
    one(r"if\s+self\.hash\[i\]\s*!=\s*hash\s*\|\|\s*self\.parent\[i\]\s*!=\s*parent\s*\{\s*continue", lk, "lookup filter hash/parent")
    defs.append(("cmp_slots", "N", N(32)))
    # does the lookup verify where an entry attaches to its parent?  (absent in
    # the pinned code: finding new_compressor_bad_pointer)
    att = re.findall(r"if\s+let\s+Some\(offset\)\s*=\s*parent_offset\s*\{\s*let\s+pointer\s*=\s*offset\.wrapping_add\(\s*" + NUM + r"\s*\)\.to_be_bytes\(\)\s*;\s*if\s+contents\.get\(\s*pos\s*\+\s*len\s*\.\.\s*pos\s*\+\s*len\s*\+\s*2\s*\)\s*!=\s*Some\(&pointer\[\.\.\]\)\s*\{\s*continue", lk)
    if not att and re.search(r"parent_offset", lk):
        raise GenError("lookup_entry_for_name mentions parent_offset in an unknown way")
    defs.append(("cmp_checks_attach", "bool", b(len(att) == 1)))
    defs.append(("cmp_attach_add", "N", N(num(att[0]) if att else 0)))
    # entry is a byte-wise proper suffix of name: cut there (pinned code) or walk to a label boundary?
    cut = re.search(r"if\s+name\.len\(\)\s*>\s*entry\.len\(\)\s*\{.*?let\s+rest\s*=\s*&name\[\s*\.\.\s*name\.len\(\)\s*-\s*entry\.len\(\)\s*\]\s*;\s*let\s+hash\s*=\s*Self::hash_label\(Self::last_label\(rest\)\)", lk, re.S)
    walk = re.search(r"None\s+if\s+name\.len\(\)\s*>\s*entry\.len\(\)\s*=>\s*\{\s*entry\.len\(\)\s*\}", lk)
    if bool(cut) == bool(walk):
        raise GenError("lookup_entry_for_name: proper-suffix branch not recognised")
    defs.append(("cmp_aligns_suffix", "bool", b(bool(walk))))
    # what is compared, and with which folding: the whole wire octets of name and
    # entry (length octets included), from the end, after u8::to_ascii_lowercase
    one(r"let\s+suffix_len\s*=\s*core::iter::zip\(\s*name\.iter\(\)\.rev\(\)\.map\(u8::to_ascii_lowercase\)\s*,\s*entry\.iter\(\)\.rev\(\)\.map\(u8::to_ascii_lowercase\)\s*,?\s*\)\s*\.position\(\|\(a,\s*b\)\|\s*a\s*!=\s*b\)\s*;", lk, "lookup_entry_for_name suffix comparison (fold = u8::to_ascii_lowercase over all wire octets)")
    defs.append(("cmp_fold_is_ascii_lowercase", "bool", "true"))
    one(r"let\s+entry\s*=\s*contents\s*\.get\(\s*pos\s*\.\.\s*pos\s*\+\s*len\s*\)", lk, "lookup_entry_for_name entry slice")
    lr = fn_body(cp, "lookup_entry_for_revname", after="impl NameCompressor")
    ms = re.findall(r"\|\|\s*!\s*entry\[\s*entry\.len\(\)\s*-\s*(first|label)\.as_wire\(\)\.len\(\)\s*\.\.\s*\]\s*\.eq_ignore_ascii_case\(\s*(first|label)\.as_wire\(\)\s*\)", lr)
    if sorted(ms) != [("first", "first"), ("label", "label")]:
        raise GenError("lookup_entry_for_revname: label comparisons are not the two eq_ignore_ascii_case(as_wire) tests: %r" % (ms,))
    defs.append(("rev_fold_is_eq_ignore_ascii_case", "bool", "true"))
    # Bytes.lower in the model is u8::to_ascii_lowercase; hash_label folds with | 0x20 (only a filter)
    # an unused slot (len == 0) that passes the hash/parent filter: debug_assert (pinned) or skipped?
    flags = []
    for nm, body in (("name", lk), ("revname", lr)):
        a = re.search(r"debug_assert_ne!\(\s*len\s*,\s*0\s*\)\s*;", body)
        k = re.search(r"if\s+len\s*==\s*0\s*\{\s*continue\s*;\s*\}", body)
        if bool(a) == bool(k):
            raise GenError("lookup_entry_for_%s: treatment of len == 0 not recognised" % nm)
        flags.append(bool(k))
    if flags[0] != flags[1]:
        raise GenError("the two lookups treat len == 0 differently")
    defs.append(("cmp_skips_unused", "bool", b(flags[0])))
    hl = fn_body(cp, "hash_label", after="impl NameCompressor")
    for nm in ("SEED1", "SEED2", "M"):
        m = one(r"const\s+%s\s*:\s*u64\s*=\s*" % nm + NUM + r"\s*;", hl, "hash_label " + nm)
        defs.append(("hash_" + nm.lower(), "N", N(num(m.group(1)))))
    m = one(r"\(\s*multiply_mix\(\s*s\.0\s*,\s*s\.1\s*\)\s*>>\s*(\d+)\s*\)\s*as\s+u16", hl, "hash_label final shift")
    defs.append(("hash_shift", "N", N(num(m.group(1)))))
    # EDNS record: prefix, order and types of the fixed fields (parse and build), option framing
    ed = strip_comments(read("src/new/edns/mod.rs"))
    sb = fn_body(ed, "split_bytes", after="SplitBytes<'a> for EdnsRecord<D>")
    m = one(r"bytes\.strip_prefix\(\s*&\[\s*(\d+)\s*,\s*(\d+)\s*,\s*(\d+)\s*\]\s*\)\.ok_or\(ParseError\)\?", sb, "EdnsRecord::split_bytes prefix")
    defs.append(("edns_prefix", "list N", "[%s]" % "; ".join("%d%%N" % int(x) for x in m.groups())))
    seq = re.findall(r"let\s*\(&?(\w+)\s*,\s*rest\)\s*=\s*<\s*&?\s*([\w<>, ]+?)\s*>::split_bytes\(rest\)\?\s*;", sb)
    want_a = [("max_udp_payload", "U16"), ("ext_rcode", "u8"), ("version", "u8"), ("flags", "EdnsFlags"), ("data", "SizePrefixed<U16, D>")]
    want_b = [("max_udp_payload", "U16"), ("version", "u8"), ("ext_rcode", "u8"), ("flags", "EdnsFlags"), ("data", "SizePrefixed<U16, D>")]
    seq = [(a, b_.replace(" ", "").replace("SizePrefixed<U16,D>", "SizePrefixed<U16, D>")) for a, b_ in seq]
    if seq == want_a: parse_ext_first = True
    elif seq == want_b: parse_ext_first = False
    else: raise GenError("EdnsRecord::split_bytes field sequence not recognised: %r" % (seq,))
    bb = fn_body(ed, "build_bytes", after="BuildBytes for EdnsRecord<D>")
    one(r"bytes\s*=\s*\[\s*0\s*,\s*0\s*,\s*41\s*\]\.as_slice\(\)\.build_bytes\(bytes\)\?", bb, "EdnsRecord::build_bytes prefix")
    bseq = re.findall(r"bytes\s*=\s*self\.(\w+)\.build_bytes\(bytes\)\?", bb)
    if bseq == [x for x, _ in want_a]: build_ext_first = True
    elif bseq == [x for x, _ in want_b]: build_ext_first = False
    else: raise GenError("EdnsRecord::build_bytes field sequence not recognised: %r" % (bseq,))
    if parse_ext_first != build_ext_first:
        raise GenError("EdnsRecord: split_bytes and build_bytes order ext_rcode / version differently")
    defs.append(("edns_ext_before_version", "bool", b(parse_ext_first)))
    st = one(r"pub\s+struct\s+EdnsFlags\s*\{\s*inner\s*:\s*(\w+)\s*,", ed, "EdnsFlags representation")
    if st.group(1) != "U16": raise GenError("EdnsFlags is not a U16")
    # TryFrom<Record>: ttl = [ext_rcode, version, flags_hi, flags_lo]
    one(r"let\s*\[\s*ext_rcode\s*,\s*version\s*,\s*flags_hi\s*,\s*flags_lo\s*\]\s*=\s*value\.ttl\.value\.get\(\)\.to_be_bytes\(\)", ed, "TryFrom<Record> for EdnsRecord: ttl octet order")
    one(r"u32::from_be_bytes\(\s*\[\s*value\.ext_rcode\s*,\s*value\.version\s*,\s*flags_hi\s*,\s*flags_lo\s*,?\s*\]\s*\)", ed, "From<EdnsRecord> for Record: ttl octet order")
    # MessageParser::next: sections, counts, the EDNS special case, fusing
    mp = strip_comments(read("src/new/base/parse/message.rs"))
    nx = fn_body(mp, "next", after="impl<'a> Iterator for MessageParser<'a>")
    one(r"^\s*while\s+self\.remaining_items\s*==\s*0\s*\{\s*if\s+self\.section\s*<\s*3\s*\{\s*self\.section\s*\+=\s*1\s*;\s*let\s+counts\s*=\s*self\.message\.header\.counts\s*;\s*let\s+count\s*=\s*counts\.as_array\(\)\[self\.section\s+as\s+usize\]\s*;\s*self\.remaining_items\s*=\s*count\.get\(\)\s*;\s*\}\s*else\s*\{\s*return\s+None\s*;\s*\}\s*\}", nx, "MessageParser::next begins with the section/count bookkeeping (no earlier exit)")
    one(r"self\.remaining_items\s*-=\s*1\s*;\s*let\s+remaining\s*=\s*&self\.message\.contents\[self\.offset\.\.\]\s*;", nx, "MessageParser::next consumes one announced item")
    m = one(r"(\d)\s+if\s+remaining\.starts_with\(\s*&\[\s*0\s*,\s*0\s*,\s*41\s*\]\s*\)\s*=>\s*\{?\s*parse_variant\(self,\s*MessageItem::Edns\)", nx, "MessageParser::next EDNS arm")
    defs.append(("mp_edns_section", "N", N(int(m.group(1)))))
    arms = re.findall(r"(\d)\s*=>\s*parse_variant\(self,\s*MessageItem::(\w+)\)", nx)
    if arms != [("0", "Question"), ("1", "Answer"), ("2", "Authority"), ("3", "Additional")]:
        raise GenError("MessageParser::next section arms: %r" % (arms,))
    one(r"if\s+item\.is_err\(\)\s*\{\s*self\.section\s*=\s*3\s*;\s*self\.remaining_items\s*=\s*0\s*;\s*\}\s*Some\(item\)", nx, "MessageParser::next fuses on error")
    fm = fn_body(mp, "for_message", after="impl<'a> MessageParser<'a>")
    one(r"offset\s*:\s*0\s*,\s*section\s*:\s*0\s*,\s*remaining_items\s*:\s*message\.header\.counts\.questions\.get\(\)", fm, "MessageParser::for_message initial state")
    # the old codec's view of the same octets: OptRecord::from_record
    oo = strip_comments(read("src/base/opt/mod.rs"))
    fr = fn_body(oo, "from_record", after="impl<Octs> OptRecord<Octs>")
    m1 = one(r"ext_rcode\s*:\s*\(\s*record\.ttl\(\)\.as_secs\(\)\s*>>\s*(\d+)\s*\)\s*as\s+u8", fr, "OptRecord::from_record ext_rcode")
    m2 = one(r"version\s*:\s*\(\s*record\.ttl\(\)\.as_secs\(\)\s*>>\s*(\d+)\s*\)\s*as\s+u8", fr, "OptRecord::from_record version")
    one(r"flags\s*:\s*record\.ttl\(\)\.as_secs\(\)\s*as\s+u16", fr, "OptRecord::from_record flags")
    one(r"udp_payload_size\s*:\s*record\.class\(\)\.to_int\(\)", fr, "OptRecord::from_record udp size")
    defs.append(("old_opt_ext_shift", "N", N(int(m1.group(1)))))
    defs.append(("old_opt_ver_shift", "N", N(int(m2.group(1)))))
    od = strip_comments(read("src/new/rdata/edns.rs"))
    pb = fn_body(od, "parse_bytes_by_ref", after="ParseBytesZC for Opt")
    m = one(r"if\s+bytes\.len\(\)\s*>\s*" + NUM + r"\s*\{\s*return\s+Err\(ParseError\)", pb, "Opt: size bound")
    defs.append(("edns_opt_max", "N", N(num(m.group(1)))))
    one(r"while\s+offset\s*<\s*bytes\.len\(\)\s*\{\s*offset\s*\+=\s*2\s*;\s*let\s+size\s*=\s*bytes\.get\(\s*offset\s*\.\.\s*offset\s*\+\s*2\s*\)\.ok_or\(ParseError\)\?\s*;\s*let\s+size\s*:\s*usize\s*=\s*u16::from_be_bytes\(\[size\[0\],\s*size\[1\]\]\)\.into\(\)\s*;\s*offset\s*\+=\s*2\s*;\s*let\s+_\s*=\s*bytes\.get\(\s*offset\s*\.\.\s*offset\s*\+\s*size\s*\)\.ok_or\(ParseError\)\?\s*;\s*offset\s*\+=\s*size\s*;", pb, "Opt: option framing loop")
    # old reader (cross-check of Base/PName.v)
    pr = fn_body(strip_comments(read("src/base/name/parsed.rs")), "parse_ref", after="impl<'a, Octs: Octets + ?Sized> ParsedName<&'a Octs>")
    ms = list(re.finditer(r"if\s+name_len\s*(>=|>)\s*" + NUM + r"\s*\{\s*return\s+Err\(ParsedDnameError::LongName", pr))
    if len(ms) != 2 or len(set((x.group(1), num(x.group(2))) for x in ms)) != 1:
        raise GenError("old parse_ref: expected two identical name_len caps")
    defs.append(("old_cap", "N", N(num(ms[0].group(2)))))
    defs.append(("old_cap_ge", "bool", b(ms[0].group(1) == ">=")))
    m = one(r"if\s+ptr\s*(>=|>)\s*parser\.pos\(\)\s*-\s*" + NUM + r"\s*\{\s*return\s+Err\(ParsedDnameError::ExcessiveCompression", pr, "old pointer rule")
    defs.append(("old_ptr_ge", "bool", b(m.group(1) == ">=")))
    defs.append(("old_ptr_back", "N", N(num(m.group(2)))))
    return defs

if __name__ == "__main__":
    main("C19", "/repo/src/new/base/name/{absolute,reversed,compressor}.rs, src/base/name/parsed.rs", build)
