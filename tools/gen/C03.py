#!/usr/bin/env python3
"""T1 extractor for C03: limits, comparison operators, statement order and
tables of NameBuilder (base/name/builder.rs), Label::MAX_LEN, Name::MAX_LEN,
the validators (check_slice, Label::split_from), Chain::new and the escaping
rule of Display for Label.

Comparison operators are emitted as `<site>_ge : bool` (true for `>=`, false
for `>`), limits as nat.  Statement shapes that the hand model transcribes are
matched exactly; any other shape raises GenError (no Gen.v, the model does not
build, the check names the item)."""
import re, sys, os
sys.path.insert(0, os.path.dirname(os.path.abspath(__file__)))
from rs import *

NUM = r"(0x[0-9A-Fa-f_]+|\d[\d_]*)"

def build():
    defs = []
    def nat(name, v): defs.append((name, "nat", "%d%%nat" % v))
    def nn(name, v): defs.append((name, "N", "%d%%N" % v))
    def boo(name, v): defs.append((name, "bool", "true" if v else "false"))
    def ge(op): return op == ">="

    lab = strip_comments(read("src/base/name/label.rs"))
    m = one(r"pub const MAX_LEN: usize = " + NUM + r";", lab, "Label::MAX_LEN")
    label_max = num(m.group(1)); nat("label_max", label_max)
    ab = strip_comments(read("src/base/name/absolute.rs"))
    m = one(r"pub const MAX_LEN: usize = " + NUM + r";", ab, "Name::MAX_LEN")
    name_max = num(m.group(1)); nat("name_max", name_max)

    def lim(tok):
        if tok == "Label::MAX_LEN": return label_max
        if tok == "Name::MAX_LEN": return name_max
        return num(tok)
    LIM = r"(Label::MAX_LEN|Name::MAX_LEN|0x[0-9A-Fa-f_]+|\d[\d_]*)"

    src = strip_comments(read("src/base/name/builder.rs"))
    imp = "impl<Builder> NameBuilder<Builder>\nwhere\n    Builder: OctetsBuilder + AsRef<[u8]> + AsMut<[u8]>"
    if imp not in src:
        raise GenError("NameBuilder impl header with AsMut<[u8]> bound not found")

    # ---- push
    b = fn_body(src, "push", after=imp)
    m = one(r"^\s*let len = self\.len\(\);\s*if len (>=|>) " + LIM + r" \{\s*return Err\(PushError::LongName\);\s*\}", b, "push total check")
    boo("push_total_ge", ge(m.group(1))); nat("push_total_lim", lim(m.group(2)))
    m = one(r"if let Some\(head\) = self\.head \{\s*if len - head (>=|>) " + LIM + r" \{\s*return Err\(PushError::LongLabel\);\s*\}\s*self\._append_slice\(&\[ch\]\)\?;\s*\} else \{", b, "push label check")
    boo("push_label_ge", ge(m.group(1))); nat("push_label_lim", lim(m.group(2)))
    m = one(r"\} else \{\s*if len (>=|>) " + LIM + r" \{\s*return Err\(PushError::LongName\);\s*\}\s*(self\.head = Some\(len\);\s*self\._append_slice\(&\[0, ch\]\)\?;|self\._append_slice\(&\[0, ch\]\)\?;\s*self\.head = Some\(len\);)\s*\}\s*Ok\(\(\)\)\s*$", b, "push new-label branch")
    boo("push_new_ge", ge(m.group(1))); nat("push_new_lim", lim(m.group(2)))
    boo("push_head_first", m.group(3).startswith("self.head"))

    # ---- append_slice
    b = fn_body(src, "append_slice", after=imp)
    one(r"^\s*if slice\.is_empty\(\) \{\s*return Ok\(\(\)\);\s*\}", b, "append_slice empty shortcut")
    m = one(r"if let Some\(head\) = self\.head \{\s*if self\.len\(\) - head - " + NUM + r" \+ slice\.len\(\) (>=|>) " + LIM + r" \{\s*return Err\(PushError::LongLabel\);\s*\}\s*"
            r"if self\.len\(\) \+ slice\.len\(\) (>=|>) " + LIM + r" \{\s*return Err\(PushError::LongName\);\s*\}\s*\} else \{", b, "append_slice in-label checks")
    nat("asl_in_label_sub", num(m.group(1)))
    boo("asl_in_label_ge", ge(m.group(2))); nat("asl_in_label_lim", lim(m.group(3)))
    boo("asl_in_total_ge", ge(m.group(4))); nat("asl_in_total_lim", lim(m.group(5)))
    m = one(r"\} else \{\s*if slice\.len\(\) (>=|>) " + LIM + r" \{\s*return Err\(PushError::LongLabel\);\s*\}\s*"
            r"if self\.len\(\) \+ slice\.len\(\) (>=|>) " + LIM + r" \{\s*return Err\(PushError::LongName\);\s*\}\s*"
            r"let head = self\.len\(\);\s*let mut buf = \[" + NUM + r"u8; Label::MAX_LEN \+ 1\];\s*buf\[1\.\.=slice\.len\(\)\]\.copy_from_slice\(slice\);\s*"
            r"self\._append_slice\(&buf\[\.\.=slice\.len\(\)\]\)\?;\s*self\.head = Some\(head\);\s*return Ok\(\(\)\);\s*\}\s*self\._append_slice\(slice\)\s*$", b, "append_slice new-label branch")
    nn("asl_placeholder", num(m.group(5)))
    boo("asl_new_label_ge", ge(m.group(1))); nat("asl_new_label_lim", lim(m.group(2)))
    boo("asl_new_total_ge", ge(m.group(3))); nat("asl_new_total_lim", lim(m.group(4)))

    # ---- end_label
    b = fn_body(src, "end_label", after=imp)
    m = one(r"^\s*if let Some\(head\) = self\.head \{\s*let len = self\.len\(\) - head - " + NUM + r";\s*self\.builder\.as_mut\(\)\[head\] = len as u8;\s*self\.head = None;\s*\}\s*$", b, "end_label")
    nat("end_label_sub", num(m.group(1)))

    # ---- append_label
    b = fn_body(src, "append_label", after=imp)
    one(r"^\s*let head = self\.head;\s*self\.end_label\(\);\s*if let Err\(err\) = self\.append_slice\(label\) \{\s*self\.head = head;\s*return Err\(err\);\s*\}\s*self\.end_label\(\);\s*Ok\(\(\)\)\s*$", b, "append_label shape")
    boo("append_label_restores_head", True)

    # ---- append_dec_u8_label
    b = fn_body(src, "append_dec_u8_label", after=imp)
    m = one(r"^\s*self\.end_label\(\);\s*let hecto = value / " + NUM + r";\s*if hecto > 0 \{\s*self\.push\(hecto \+ b'0'\)\?;\s*\}\s*"
            r"let deka = \(value / " + NUM + r"\) % " + NUM + r";\s*if hecto > 0 \|\| deka > 0 \{\s*self\.push\(deka \+ b'0'\)\?;\s*\}\s*"
            r"self\.push\(value % " + NUM + r" \+ b'0'\)\?;\s*self\.end_label\(\);\s*Ok\(\(\)\)\s*$", b, "append_dec_u8_label")
    nn("dec_hundred", num(m.group(1))); nn("dec_ten_a", num(m.group(2))); nn("dec_ten_b", num(m.group(3))); nn("dec_ten_c", num(m.group(4)))

    # ---- append_hex_digit_label
    b = fn_body(src, "append_hex_digit_label", after=imp)
    m = one(r"match nibble & " + NUM + r" \{(.*?)_ => unreachable!\(\),\s*\}", b, "hex_digit table")
    nn("hex_mask", num(m.group(1)))
    tab = {}
    for mm in re.finditer(r"(\d+) => b'(.)',", m.group(2)):
        tab[int(mm.group(1))] = ord(mm.group(2))
    if sorted(tab) != list(range(16)):
        raise GenError("hex_digit table does not have arms 0..15")
    defs.append(("hex_table", "list N", "[" + "; ".join("%d%%N" % tab[i] for i in range(16)) + "]"))
    one(r"self\.end_label\(\);\s*self\.push\(hex_digit\(nibble\)\)\?;\s*self\.end_label\(\);\s*Ok\(\(\)\)\s*$", b, "append_hex_digit_label shape")

    # ---- append_name
    b = fn_body(src, "append_name", after=imp)
    m = one(r"^\s*let head = self\.head(\.take\(\))?;\s*self\.end_label\(\);\s*if self\.len\(\) \+ usize::from\(name\.compose_len\(\)\) (>=|>) " + LIM + r" \{\s*self\.head = head;\s*return Err\(PushNameError::LongName\);\s*\}\s*"
            r"let mut buf = Array::<" + NUM + r">::new\(\);\s*for label in name\.iter_labels\(\) \{\s*if label\.compose\(&mut buf\)\.is_err\(\) \{\s*self\.head = head;\s*return Err\(PushNameError::LongName\);\s*\}\s*\}\s*"
            r"if self\.builder\.append_slice\(buf\.as_slice\(\)\)\.is_err\(\) \{\s*self\.head = head;\s*return Err\(PushNameError::ShortBuf\);\s*\}\s*Ok\(\(\)\)\s*$", b, "append_name")
    nat("append_name_tmp_cap", num(m.group(4)))
    if m.group(1):
        raise GenError("append_name takes the head before end_label")
    boo("append_name_ge", ge(m.group(2))); nat("append_name_lim", lim(m.group(3)))

    # ---- finish / into_name / append_origin
    b = fn_body(src, "finish", after=imp)
    one(r"^\s*self\.end_label\(\);\s*unsafe \{ RelativeName::from_octets_unchecked\(self\.builder\.freeze\(\)\) \}\s*$", b, "finish")
    b = fn_body(src, "into_name", after=imp)
    m = one(r"^\s*self\.end_label\(\);\s*self\._append_slice\(&\[" + NUM + r"\]\)\?;\s*Ok\(unsafe \{ Name::from_octets_unchecked\(self\.builder\.freeze\(\)\) \}\)\s*$", b, "into_name")
    nn("into_name_root", num(m.group(1)))
    b = fn_body(src, "append_origin", after=imp)
    m = one(r"^\s*self\.end_label\(\);\s*if self\.len\(\) \+ usize::from\(origin\.compose_len\(\)\) (>=|>) " + LIM + r" \{\s*return Err\(PushNameError::LongName\);\s*\}\s*"
            r"for label in origin\.iter_labels\(\) \{\s*label\s*\.compose\(&mut self\.builder\)\s*\.map_err\(\|_\| PushNameError::ShortBuf\)\?;\s*\}\s*Ok\(unsafe \{ Name::from_octets_unchecked\(self\.builder\.freeze\(\)\) \}\)\s*$", b, "append_origin")
    boo("append_origin_ge", ge(m.group(1))); nat("append_origin_lim", lim(m.group(2)))

    # ---- Label::compose is two appends (length octet, then content)
    b = fn_body(lab, "compose", after="impl Label")
    one(r"^\s*target\.append_slice\(&\[self\.len\(\) as u8\]\)\?;\s*target\.append_slice\(self\.as_slice\(\)\)\s*$", b, "Label::compose")
    boo("label_compose_two_appends", True)

    extra(defs, lab, ab, src, label_max, name_max, lim, LIM)
    return defs


def extra(defs, lab, ab, src, label_max, name_max, lim, LIM):
    """validators, Label::split_from, Chain::new"""
    def nat(name, v): defs.append((name, "nat", "%d%%nat" % v))
    def nn(name, v): defs.append((name, "N", "%d%%N" % v))
    def boo(name, v): defs.append((name, "bool", "true" if v else "false"))
    def ge(op): return op == ">="
    # ---- Label::split_from
    b = fn_body(lab, "split_from", after="impl Label")
    m = one(r"let end = match head \{\s*0\.\.=" + NUM + r" => \(head as usize\) \+ " + NUM + r",\s*" + NUM + r"\.\.=" + NUM + r" => \{\s*return Err\(SplitLabelError::BadType\(\s*LabelTypeError::Extended\(head\),?\s*\)\);\s*\}\s*"
            + NUM + r"\.\.=" + NUM + r" => \{\s*if slice\.len\(\) < " + NUM + r" \{\s*return Err\(SplitLabelError::ShortInput\);\s*\}", b, "split_from label type ranges")
    g = [num(x) for x in m.groups()]
    nn("split_normal_hi", g[0]); nat("split_end_add", g[1]); nn("split_ext_lo", g[2]); nn("split_ext_hi", g[3])
    nn("split_ptr_lo", g[4]); nn("split_ptr_hi", g[5]); nat("split_ptr_min_len", g[6])
    one(r"if slice\.len\(\) < end \{\s*return Err\(SplitLabelError::ShortInput\);\s*\}\s*let \(left, right\) = slice\.split_at\(end\);\s*let \(_, label_data\) = left\.split_at\(1\);", b, "split_from split")
    # ---- Label::from_slice
    b = fn_body(lab, "from_slice", after="impl Label")
    m = one(r"^\s*if slice\.len\(\) (>=|>) " + LIM + r" \{\s*Err\(LongLabelError\(\(\)\)\)", b, "Label::from_slice")
    boo("label_from_slice_ge", ge(m.group(1))); nat("label_from_slice_lim", lim(m.group(2)))
    # ---- Name::check_slice
    b = fn_body(ab, "check_slice", after="impl Name<[u8]>")
    m = one(r"^\s*if slice\.len\(\) (>=|>) " + LIM + r" \{\s*return Err\(NameError\(DnameErrorEnum::LongName\)\);\s*\}\s*loop \{\s*let \(label, tail\) = Label::split_from\(slice\)\?;\s*"
            r"if label\.is_root\(\) \{\s*if tail\.is_empty\(\) \{\s*break;\s*\} else \{\s*return Err\(NameError\(DnameErrorEnum::TrailingData\)\);\s*\}\s*\}\s*"
            r"if tail\.is_empty\(\) \{\s*return Err\(NameError\(DnameErrorEnum::RelativeName\)\);\s*\}\s*slice = tail;\s*\}\s*Ok\(\(\)\)\s*$", b, "Name::check_slice")
    boo("check_abs_ge", ge(m.group(1))); nat("check_abs_lim", lim(m.group(2)))
    # ---- RelativeName::check_slice
    rel = strip_comments(read("src/base/name/relative.rs"))
    b = fn_body(rel, "check_slice", after="impl RelativeName<[u8]>")
    m = one(r"^\s*if slice\.len\(\) (>=|>) " + LIM + r" \{\s*return Err\(RelativeNameError\(RelativeNameErrorEnum::LongName\)\);\s*\}\s*while !slice\.is_empty\(\) \{", b, "RelativeName::check_slice limit")
    boo("check_rel_ge", ge(m.group(1))); nat("check_rel_lim", lim(m.group(2)))
    one(r"if label\.is_root\(\) \{\s*return Err\(RelativeNameError\(\s*RelativeNameErrorEnum::AbsoluteName,?\s*\)\);\s*\}\s*slice = tail;\s*\}\s*Ok\(\(\)\)\s*$", b, "RelativeName::check_slice loop")
    # ---- Chain::new
    ch = strip_comments(read("src/base/name/chain.rs"))
    b = fn_body(ch, "new", after="impl<L: ToLabelIter, R: ToLabelIter> Chain<L, R>")
    m = one(r"^\s*if usize::from\(left\.compose_len\(\) \+ right\.compose_len\(\)\)\s*(>=|>) " + LIM + r"\s*\{\s*Err\(LongChainError\(\(\)\)\)\s*\} else \{\s*Ok\(Chain \{ left, right \}\)\s*\}\s*$", b, "Chain::new")
    boo("chain_ge", ge(m.group(1))); nat("chain_lim", lim(m.group(2)))
    text_items(defs, lab, src)
    message_zonefile_items(defs, ab, lim, LIM)
    slicing_items(defs, ab)
    uncertain_items(defs, lim, LIM)
    serde_const_items(defs, ab)
    reverse_items(defs, ab)


def message_zonefile_items(defs, ab, lim, LIM):
    """names read from messages (ParsedName::parse_ref, Name::parse) and from
    zone-file text (scan_name / convert_label): the length literals and
    operators at every site"""
    def nat(name, v): defs.append((name, "nat", "%d%%nat" % v))
    def boo(name, v): defs.append((name, "bool", "true" if v else "false"))
    def ge(op): return op == ">="
    pa = strip_comments(read("src/base/name/parsed.rs"))
    b = fn_body(pa, "parse_ref", after="impl<'a, Octs: AsRef<[u8]> + ?Sized> ParsedName<&'a Octs>")
    ms = list(re.finditer(r"LabelType::Normal\(label_len\) => \{\s*parser\.advance\(usize::from\(label_len\)\)\?;\s*name_len \+= label_len \+ 1;\s*if name_len (>=|>) " + LIM + r" \{\s*return Err\(ParsedDnameError::LongName\.into\(\)\);\s*\}\s*\}", b, re.S))
    if len(ms) != 2:
        raise GenError("parse_ref: expected the name length check in both phases, found %d" % len(ms))
    for tag, m in zip(("phase1", "phase2"), ms):
        boo("parse_ref_%s_ge" % tag, ge(m.group(1))); nat("parse_ref_%s_lim" % tag, lim(m.group(2)))
    if len(re.findall(r"LabelType::Normal\(0\) => \{\s*name_len \+= 1;\s*return Ok\(ParsedName \{", b)) != 2:
        raise GenError("parse_ref: root label arms changed")
    b = fn_body(ab, "parse_name_len", after="impl<Octs> Name<Octs>")
    m = one(r"if len (>=|>) " + LIM + r" \{\s*Err\(NameError\(DnameErrorEnum::LongName\)\.into\(\)\)", b, "Name::parse_name_len limit")
    boo("name_parse_ge", ge(m.group(1))); nat("name_parse_lim", lim(m.group(2)))
    one(r"let mut tmp = parser\.peek_all\(\);\s*loop \{\s*if tmp\.is_empty\(\) \{\s*return Err\(ParseError::ShortInput\);\s*\}\s*let \(label, tail\) = Label::split_from\(tmp\)\?;\s*tmp = tail;\s*if label\.is_root\(\) \{\s*break;\s*\}\s*\}\s*parser\.remaining\(\) - tmp\.len\(\)", b, "Name::parse_name_len loop")
    zf = strip_comments(read("src/zonefile/inplace.rs"))
    b = fn_body(zf, "convert_label")
    m = one(r"let start = \*write;\s*\*write \+= 1;\s*let latest = \*write \+ " + NUM + r";", b, "convert_label latest")
    nat("zf_label_latest_add", num(m.group(1)))
    ms = list(re.finditer(r"\*write \+= 1;\s*if \*write (>=|>) latest \{\s*return Err\(EntryError::bad_name\(\)\);\s*\}", b, re.S))
    if len(ms) != 2:
        raise GenError("convert_label: expected the label length check on the fast and the slow path, found %d" % len(ms))
    boo("zf_label_fast_ge", ge(ms[0].group(1))); boo("zf_label_slow_ge", ge(ms[1].group(1)))
    b = fn_body(zf, "scan_name")
    m = one(r"if write (>=|>) " + NUM + r" \{\s*return Err\(EntryError::bad_name\(\)\);\s*\}", b, "scan_name length check")
    boo("zf_name_ge", ge(m.group(1))); nat("zf_name_lim", num(m.group(2)))
    m = one(r"if write == start \+ " + NUM + r" \{\s*return Err\(EntryError::bad_name\(\)\);\s*\}\s*if write (?:>=|>) ", b, "scan_name empty-label test (two consecutive dots)")
    nat("zf_empty_label_add", num(m.group(1)))
    if len(re.findall(r"\.chain\(", b)) != 5:
        raise GenError("scan_name: expected 5 chain() constructions (every exit goes through Chain::new)")


def slicing_items(defs, ab):
    """is_label_start / check_bounds / split / truncate / parent / into_relative /
    strip_suffix of Name and RelativeName: shapes pinned, constants emitted"""
    def nat(name, v): defs.append((name, "nat", "%d%%nat" % v))
    def boo(name, v): defs.append((name, "bool", "true" if v else "false"))
    rel = strip_comments(read("src/base/name/relative.rs"))
    HEAD = r"^\s*if index == 0 \{\s*return true;\s*\}\s*let mut tmp = self\.as_slice\(\);\s*while !tmp\.is_empty\(\) \{\s*let \(label, tail\) = Label::split_from\(tmp\)\.unwrap\(\);\s*let len = label\.len\(\) \+ " + NUM + r";\s*"
    TAIL = r"\s*index -= len;\s*tmp = tail;\s*\}\s*false\s*$"
    b = fn_body(ab, "is_label_start", after="impl<Octs: AsRef<[u8]> + ?Sized> Name<Octs>")
    m = one(HEAD + r"if index < len \|\| len == " + NUM + r" \{\s*return false;\s*\} else if index == len \{\s*return true;\s*\}" + TAIL, b, "Name::is_label_start")
    nat("ils_len_add", num(m.group(1))); nat("ils_root_len", num(m.group(2)))
    b = fn_body(rel, "is_label_start", after="impl<Octs: AsRef<[u8]> + ?Sized> RelativeName<Octs>")
    m = one(HEAD + r"match index\.cmp\(&len\) \{\s*Ordering::Less => return false,\s*Ordering::Equal => return true,\s*_ => \{\}\s*\}" + TAIL, b, "RelativeName::is_label_start")
    if num(m.group(1)) != defs[-2][2] and ("%d%%nat" % num(m.group(1))) != defs[-2][2]:
        raise GenError("RelativeName::is_label_start adds a different constant to the label length")
    CB = (r"^\s*match bounds\.start_bound\(\)\.cloned\(\) \{\s*Bound::Included\(idx\) => self\.check_index\(idx\),\s*Bound::Excluded\(_\) => \{\s*panic!\(\"excluded lower bounds not supported\"\);\s*\}\s*Bound::Unbounded => \{\}\s*\}\s*"
          r"match bounds\.end_bound\(\)\.cloned\(\) \{\s*Bound::Included\(idx\) => self\s*\.check_index\(idx\.checked_add\(1\)\.expect\(\"end bound too big\"\)\),\s*Bound::Excluded\(idx\) => self\.check_index\(idx\),\s*Bound::Unbounded => \{")
    b = fn_body(ab, "check_bounds", after="impl<Octs: AsRef<[u8]> + ?Sized> Name<Octs>")
    one(CB + r"\s*panic!\(\"unbounded end bound \(results in absolute name\)\"\)\s*\}\s*\}\s*$", b, "Name::check_bounds")
    b = fn_body(rel, "check_bounds", after="impl<Octs: AsRef<[u8]> + ?Sized> RelativeName<Octs>")
    one(CB + r"\}\s*\}\s*$", b, "RelativeName::check_bounds")
    for src_, nm in ((ab, "Name"), (rel, "RelativeName")):
        b = fn_body(src_, "check_index")
        one(r"^\s*if !self\.is_label_start\(index\) \{\s*panic!\(\"index not at start of a label\"\);\s*\}\s*$", b, nm + "::check_index")
        for f, arg in (("split", "mid"), ("truncate", "len"), ("slice", "&range"), ("range", "&range")):
            b = fn_body(src_, f, after="fn check_bounds")
            chk = "check_bounds" if arg.startswith("&") else "check_index"
            one(r"^\s*self\." + chk + r"\(" + re.escape(arg) + r"\);", b, "%s::%s checks its index first" % (nm, f))
    for f in ("slice_from", "range_from"):
        b = fn_body(ab, f, after="fn check_bounds")
        one(r"^\s*self\.check_index\(begin\);", b, "Name::%s checks its index first" % f)
    b = fn_body(ab, "split_first", after="fn check_bounds")
    one(r"^\s*if self\.compose_len\(\) == 1 \{\s*return None;\s*\}\s*let label = self\.iter\(\)\.next\(\)\.unwrap\(\);\s*Some\(\(label, self\.split\(label\.len\(\) \+ 1\)\.1\)\)\s*$", b, "Name::split_first")
    b = fn_body(rel, "split_first", after="fn check_bounds")
    one(r"^\s*if self\.is_empty\(\) \{\s*return None;\s*\}\s*let label = self\.iter\(\)\.next\(\)\?;\s*Some\(\(label, self\.split\(label\.len\(\) \+ 1\)\.1\)\)\s*$", b, "RelativeName::split_first")
    b = fn_body(ab, "into_relative")
    m = one(r"^\s*let len = self\.0\.as_ref\(\)\.len\(\) - " + NUM + r";\s*self\.0\.truncate\(len\);", b, "Name::into_relative")
    nat("into_relative_sub", num(m.group(1)))
    b = fn_body(ab, "strip_suffix", after="fn check_bounds")
    one(r"^\s*if self\.ends_with\(base\) \{\s*let len = self\.0\.as_ref\(\)\.len\(\) - usize::from\(base\.compose_len\(\)\);\s*Ok\(self\.truncate\(len\)\)\s*\} else \{\s*Err\(self\)\s*\}\s*$", b, "Name::strip_suffix")
    b = fn_body(rel, "strip_suffix", after="fn check_bounds")
    one(r"^\s*if self\.ends_with\(base\) \{\s*let idx = self\.0\.as_ref\(\)\.len\(\) - usize::from\(base\.compose_len\(\)\);\s*self\.0\.truncate\(idx\);\s*Ok\(\(\)\)\s*\} else \{", b, "RelativeName::strip_suffix")
    boo("slicing_shapes_pinned", True)


def uncertain_items(defs, lim, LIM):
    """UncertainName::is_slice_absolute (from_octets / from_slice) and
    Chain::new_uncertain"""
    def nat(name, v): defs.append((name, "nat", "%d%%nat" % v))
    def boo(name, v): defs.append((name, "bool", "true" if v else "false"))
    def ge(op): return op == ">="
    un = strip_comments(read("src/base/name/uncertain.rs"))
    b = fn_body(un, "is_slice_absolute")
    m = one(r"^\s*(?:let len = slice\.len\(\);\s*if len|if slice\.len\(\)) (>=|>) " + LIM + r" \{\s*return Err\(UncertainDnameErrorEnum::LongName\.into\(\)\);\s*\}\s*loop \{\s*let \(label, tail\) = Label::split_from\(slice\)\?;\s*"
            r"if label\.is_root\(\) \{\s*if tail\.is_empty\(\) \{\s*return Ok\(true\);\s*\} else \{\s*return Err\(UncertainDnameErrorEnum::TrailingData\.into\(\)\);\s*\}\s*\}\s*"
            r"if tail\.is_empty\(\) \{\s*(?:if len (>=|>) " + LIM + r"(?: - (\d+))? \{\s*return Err\(UncertainDnameErrorEnum::LongName\.into\(\)\);\s*\}\s*)?return Ok\(false\);\s*\}\s*slice = tail;\s*\}\s*$", b, "UncertainName::is_slice_absolute")
    boo("uncertain_ge", ge(m.group(1))); nat("uncertain_lim", lim(m.group(2)))
    if m.group(3):
        boo("uncertain_rel_checked", True); boo("uncertain_rel_ge", ge(m.group(3)))
        nat("uncertain_rel_lim", lim(m.group(4)) - (int(m.group(5)) if m.group(5) else 0))
    else:
        boo("uncertain_rel_checked", False); boo("uncertain_rel_ge", False); nat("uncertain_rel_lim", 0)
    ch = strip_comments(read("src/base/name/chain.rs"))
    b = fn_body(ch, "new_uncertain")
    m = one(r"^\s*if let UncertainName::Relative\(ref name\) = left \{\s*if usize::from\(name\.compose_len\(\) \+ right\.compose_len\(\)\)\s*(>=|>) " + LIM + r"\s*\{\s*return Err\(LongChainError\(\(\)\)\);\s*\}\s*\}\s*Ok\(Chain \{ left, right \}\)\s*$", b, "Chain::new_uncertain")
    boo("chain_unc_ge", ge(m.group(1))); nat("chain_unc_lim", lim(m.group(2)))


def rust_bytes(lit):
    """b"..." literal with \\0 and \\xHH escapes -> list of ints"""
    out = []
    i = 0
    while i < len(lit):
        if lit[i] == "\\":
            if lit[i + 1] == "x":
                out.append(int(lit[i + 2:i + 4], 16)); i += 4
            elif lit[i + 1] == "0":
                out.append(0); i += 2
            else:
                raise GenError("unsupported escape in byte literal %r" % lit)
        else:
            out.append(ord(lit[i])); i += 1
    return out


def serde_const_items(defs, ab):
    """human-readable serde of the three name kinds, Display for UncertainName,
    and the constant names (root, empty, wildcard)"""
    def boo(name, v): defs.append((name, "bool", "true" if v else "false"))
    def lst(name, v): defs.append((name, "list N", "[" + "; ".join("%d%%N" % x for x in v) + "]"))
    rel = strip_comments(read("src/base/name/relative.rs"))
    un = strip_comments(read("src/base/name/uncertain.rs"))
    # serialize: the Display text
    for src_, nm in ((ab, "Name"), (rel, "RelativeName"), (un, "UncertainName")):
        one(r"if serializer\.is_human_readable\(\) \{\s*serializer\s*\.serialize_newtype_struct\(\s*\"" + nm + r"\",\s*&format_args!\(\"\{\}\", self\),?\s*\)", src_, nm + " human-readable Serialize")
    # deserialize from a string
    one(r"fn visit_str<E: serde::de::Error>\(\s*self,\s*v: &str,\s*\) -> Result<Self::Value, E> \{\s*Name::from_str\(v\)\.map_err\(E::custom\)\s*\}", ab, "Name visit_str")
    one(r"fn visit_str<E: serde::de::Error>\(\s*self,\s*v: &str,\s*\) -> Result<Self::Value, E> \{\s*use core::str::FromStr;\s*UncertainName::from_str\(v\)\.map_err\(E::custom\)\s*\}", un, "UncertainName visit_str")
    m = one(r"fn visit_str<E: serde::de::Error>\(\s*self,\s*v: &str,\s*\) -> Result<Self::Value, E> \{\s*(?:(let mut builder = NameBuilder::<Octs::Builder>::new\(\);\s*builder\.append_chars\(v\.chars\(\)\)\.map_err\(E::custom\)\?;\s*Ok\(builder\.finish\(\)\))|(RelativeName::from_chars\(v\.chars\(\)\)\.map_err\(E::custom\)))\s*\}", rel, "RelativeName visit_str")
    boo("serde_rel_checks_absolute", m.group(2) is not None)
    # UncertainName::from_chars: does it special-case the single dot (root)?
    b = fn_body(un, "from_chars")
    TAILP = r"\s*if builder\.in_label\(\) \|\| builder\.is_empty\(\) \{\s*Ok\(builder\.finish\(\)\.into\(\)\)\s*\} else \{\s*Ok\(builder\.into_name\(\)\?\.into\(\)\)\s*\}\s*$"
    HEADP = r"^\s*let mut builder =\s*NameBuilder::<<Octets as FromBuilder>::Builder>::new\(\);\s*"
    m_old = re.search(HEADP + r"builder\.append_chars\(chars\)\?;" + TAILP, b, re.S)
    m_new = re.search(HEADP + r"let root = Symbols::with\(chars\.into_iter\(\), \|symbols\| \{\s*match symbols\.next\(\) \{\s*Some\(Symbol::Char\('\.'\)\) => \{\s*if symbols\.next\(\)\.is_some\(\) \{\s*Err\(FromStrError::empty_label\(\)\)\s*\} else \{\s*Ok\(true\)\s*\}\s*\}\s*"
                      r"Some\(first\) => \{\s*builder\.push_symbol\(first\)\?;\s*builder\.append_symbols\(symbols\)\?;\s*Ok\(false\)\s*\}\s*None => Ok\(false\),\s*\}\s*\}\)\?;\s*"
                      r"if root \{\s*return Name::from_symbols\(core::iter::once\(Symbol::Char\('\.'\)\)\)\s*\.map\(Into::into\);\s*\}" + TAILP, b, re.S)
    if (m_old is None) == (m_new is None):
        raise GenError("UncertainName::from_chars: neither known shape matches")
    boo("uncertain_from_chars_root_special", m_new is not None)
    # Display for UncertainName
    b = fn_body(un, "fmt", after="fmt::Display for UncertainName")
    m = one(r"^\s*match \*self \{\s*UncertainName::Absolute\(ref name\) => \{\s*(?:(write!\(f, \"\{\}\.\", name\))|(if name\.is_root\(\) \{\s*name\.fmt\(f\)\s*\} else \{\s*write!\(f, \"\{\}\.\", name\)\s*\}))\s*\}\s*UncertainName::Relative\(ref name\) => name\.fmt\(f\),\s*\}\s*$", b, "Display for UncertainName")
    boo("uncertain_display_root_special", m.group(2) is not None)
    # Display for RelativeName: labels joined by dots
    b = fn_body(rel, "fmt", after="fmt::Display for RelativeName")
    one(r"^\s*let mut iter = self\.iter\(\);\s*match iter\.next\(\) \{\s*Some\(label\) => label\.fmt\(f\)\?,\s*None => return Ok\(\(\)\),\s*\}\s*for label in iter \{\s*f\.write_str\(\"\.\"\)\?;\s*label\.fmt\(f\)\?;\s*\}\s*Ok\(\(\)\)\s*$", b, "Display for RelativeName")
    # constants
    m = one(r"pub fn root\(\) -> Self\s*where\s*Octs: From<&'static \[u8\]>,\s*\{\s*unsafe \{ Self::from_octets_unchecked\(b\"([^\"]*)\"\.as_ref\(\)\.into\(\)\) \}", ab, "Name::root")
    lst("const_root", rust_bytes(m.group(1)))
    m = one(r"pub fn root_slice\(\) -> &'static Self \{\s*unsafe \{ Self::from_slice_unchecked\(\"([^\"]*)\"\.as_ref\(\)\) \}", ab, "Name::root_slice")
    lst("const_root_slice", rust_bytes(m.group(1)))
    m = one(r"pub fn empty\(\) -> Self\s*where\s*Octs: From<&'static \[u8\]>,\s*\{\s*unsafe \{ RelativeName::from_octets_unchecked\(b\"([^\"]*)\"\.as_ref\(\)\.into\(\)\) \}", rel, "RelativeName::empty")
    lst("const_empty", rust_bytes(m.group(1)))
    m = one(r"pub fn wildcard\(\) -> Self\s*where\s*Octs: From<&'static \[u8\]>,\s*\{\s*unsafe \{\s*RelativeName::from_octets_unchecked\(b\"([^\"]*)\"\.as_ref\(\)\.into\(\)\)\s*\}", rel, "RelativeName::wildcard")
    lst("const_wildcard", rust_bytes(m.group(1)))
    m = one(r"pub fn empty_slice\(\) -> &'static Self \{\s*unsafe \{ Self::from_slice_unchecked\(b\"([^\"]*)\"\) \}", rel, "RelativeName::empty_slice")
    lst("const_empty_slice", rust_bytes(m.group(1)))
    m = one(r"pub fn wildcard_slice\(\) -> &'static Self \{\s*unsafe \{ Self::from_slice_unchecked\(b\"([^\"]*)\"\) \}", rel, "RelativeName::wildcard_slice")
    lst("const_wildcard_slice", rust_bytes(m.group(1)))
    m = one(r"builder\s*\.append_slice\(b\"([^\"]*)\"\)\s*\.map_err\(\|_\| FromStrError::ShortBuf\)\?;", ab, "from_symbols root octets")
    lst("const_from_symbols_root", rust_bytes(m.group(1)))


def byte_lit(t):
    t = t.strip()
    m = re.fullmatch(r"b'(\\?.)'", t)
    if not m:
        raise GenError("not a byte literal: %r" % t)
    c = m.group(1)
    return ord(c[-1]) if len(c) == 2 else ord(c)


def text_items(defs, lab, src):
    """Display for Label (escape set), Symbol::from_chars / into_octet ranges,
    push_symbol special symbols"""
    def nn(name, v): defs.append((name, "N", "%d%%N" % v))
    # ---- Display for Label
    b = fn_body(lab, "fmt", after="impl fmt::Display for Label")
    m = one(r"^\s*for ch in self\.iter\(\) \{\s*if ((?:ch == b'\\?.'\s*(?:\|\|)?\s*)+)\{\s*write!\(f, \"\\\\\{\}\", ch as char\)\?;\s*\} else if !\((0x[0-9A-Fa-f]+)\.\.(0x[0-9A-Fa-f]+)\)\.contains\(&ch\) \{\s*write!\(f, \"\\\\\{:03\}\", ch\)\?;\s*\} else \{\s*write!\(f, \"\{\}\", \(ch as char\)\)\?;\s*\}\s*\}\s*Ok\(\(\)\)\s*$", b, "Display for Label")
    specials = [byte_lit(x) for x in re.findall(r"ch == (b'\\?.')", m.group(1))]
    defs.append(("display_simple_escaped", "list N", "[" + "; ".join("%d%%N" % x for x in specials) + "]"))
    nn("display_plain_lo", num(m.group(2))); nn("display_plain_hi_excl", num(m.group(3)))
    # ---- Symbol::from_chars
    sc = strip_comments(read("src/base/scan.rs"))
    b = fn_body(sc, "from_chars", after="impl Symbol {")
    m = one(r"let res = ch \+ ch2 \+ ch3;\s*if res > " + NUM + r" \{\s*return Err\(bad_escape\(\)\);", b, "decimal escape limit")
    nn("sym_dec_max", num(m.group(1)))
    m = one(r"if ch < (0x[0-9A-Fa-f]+) \|\| ch > (0x[0-9A-Fa-f]+) \{\s*Err\(bad_escape\(\)\)\s*\} else \{\s*Ok\(Some\(Symbol::SimpleEscape\(ch\)\)\)", b, "simple escape range")
    nn("sym_simple_lo", num(m.group(1))); nn("sym_simple_hi", num(m.group(2)))
    one(r"if ch != '\\\\' \{\s*return Ok\(Some\(Symbol::Char\(ch\)\)\);", b, "backslash test")
    b = fn_body(sc, "into_octet", after="impl Symbol {")
    m = one(r"Symbol::Char\(ch\) => \{\s*if ch\.is_ascii\(\) && ch >= '\\u\{([0-9A-Fa-f]+)\}' && ch <= '\\u\{([0-9A-Fa-f]+)\}' \{\s*Ok\(ch as u8\)", b, "into_octet range")
    nn("octet_char_lo", int(m.group(1), 16)); nn("octet_char_hi", int(m.group(2), 16))
    # ---- push_symbol
    b = fn_body(src, "push_symbol", after="impl<Builder> NameBuilder<Builder>\nwhere")
    one(r"^\s*if matches!\(sym, Symbol::Char\('\.'\)\) \{\s*if !self\.in_label\(\) \{\s*return Err\(PresentationErrorEnum::EmptyLabel\.into\(\)\);\s*\}\s*self\.end_label\(\);\s*Ok\(\(\)\)\s*\} else if matches!\(sym, Symbol::SimpleEscape\(b'\['\)\)\s*&& !self\.in_label\(\)\s*\{\s*Err\(LabelFromStrErrorEnum::BinaryLabel\.into\(\)\)\s*\} else \{\s*self\.push\(sym\.into_octet\(\)\?\)\.map_err\(Into::into\)\s*\}\s*$", b, "push_symbol")
    nn("sym_dot", ord(".")); nn("sym_bracket", ord("["))
    # ---- OwnedLabel::from_chars and parse_escape
    b = fn_body(lab, "from_chars", after="impl OwnedLabel")
    m = one(r"while let Some\(ch\) = chars\.next\(\) \{\s*if res\[0\] as usize (>=|>) (Label::MAX_LEN|\d+) \{\s*return Err\(LabelFromStrErrorEnum::LongLabel\.into\(\)\);\s*\}\s*"
            r"let ch = match ch \{\s*'(.)'\.\.='(.)' \| '(.)'\.\.='(.)' \| '(.)'\.\.='(.)' => ch as u8,\s*'\\\\' => parse_escape\(&mut chars, res\[0\] > 0\)\?,\s*_ => return Err\(BadSymbol::non_ascii\(\)\.into\(\)\),\s*\};\s*"
            r"res\[\(res\[0\] as usize\) \+ 1\] = ch;\s*res\[0\] \+= 1;\s*\}\s*Ok\(OwnedLabel\(res\)\)\s*$", b, "OwnedLabel::from_chars")
    defs.append(("olabel_full_ge", "bool", "true" if m.group(1) == ">=" else "false"))
    defs.append(("olabel_full_lim", "nat", "%d%%nat" % (63 if m.group(2) == "Label::MAX_LEN" else int(m.group(2)))))
    rs = [ord(m.group(i)) for i in range(3, 9)]
    defs.append(("olabel_plain_ranges", "list (N * N)", "[" + "; ".join("(%d%%N, %d%%N)" % (rs[i], rs[i + 1]) for i in (0, 2, 4)) + "]"))
    b = fn_body(src, "parse_escape")
    m = one(r"if v > " + NUM + r" \{\s*return Err\(SymbolCharsError::bad_escape\(\)\.into\(\)\);\s*\}\s*Ok\(v as u8\)\s*\} else if ch == '\[' \{\s*if in_label \{\s*Ok\(b'\['\)\s*\} else \{\s*Err\(LabelFromStrErrorEnum::BinaryLabel\.into\(\)\)\s*\}\s*\} else \{\s*Ok\(ch as u8\)\s*\}\s*$", b, "parse_escape")
    nn("escape_dec_max", num(m.group(1)))


def reverse_items(defs, ab):
    """Name::reverse_from_addr: the builder sequence of both arms (order of the
    decimal labels, item then item >> 4 over the reversed octets, the two
    suffix labels, into_name) and the suffix label literals"""
    b = fn_body(ab, "reverse_from_addr")
    LBL = r'builder\.append_label\(b"([^"\\]*)"\)\?;\s*'
    m = one(r"^\s*let mut builder =\s*NameBuilder::<<Octs as FromBuilder>::Builder>::new\(\);\s*match addr \{\s*"
            r"IpAddr::V4\(addr\) => \{\s*let \[a, b, c, d\] = addr\.octets\(\);\s*builder\.append_dec_u8_label\(d\)\?;\s*"
            r"builder\.append_dec_u8_label\(c\)\?;\s*builder\.append_dec_u8_label\(b\)\?;\s*builder\.append_dec_u8_label\(a\)\?;\s*"
            + LBL + LBL + r"\}", b, "reverse_from_addr IPv4 arm")
    v4 = (m.group(1), m.group(2))
    m = one(r"IpAddr::V6\(addr\) => \{\s*for &item in addr\.octets\(\)\.iter\(\)\.rev\(\) \{\s*builder\.append_hex_digit_label\(item\)\?;\s*"
            r"builder\.append_hex_digit_label\(item >> 4\)\?;\s*\}\s*" + LBL + LBL + r"\}\s*\}\s*builder\.into_name\(\)\s*$", b, "reverse_from_addr IPv6 arm")
    v6 = (m.group(1), m.group(2))
    def lit(name, t): defs.append((name, "list N", "[" + "; ".join("%d%%N" % ord(c) for c in t) + "]"))
    lit("rev_v4_label1", v4[0]); lit("rev_v4_label2", v4[1])
    lit("rev_v6_label1", v6[0]); lit("rev_v6_label2", v6[1])


if __name__ == "__main__":
    main("C03", "/repo/src/base/name/{builder,label,absolute,relative,chain}.rs", build)
