#!/usr/bin/env python3
"""T1 extractor for C13: type-bitmap layout constants (rdata/dnssec.rs
split_rtype / RtypeBitmapBuilder / from_octets), the record types the NSEC and
NSEC3 generators add or filter on (sign/denial/nsec.rs, nsec3.rs,
sign/records.rs), the opt-out flag bit (rdata/nsec3.rs) and the iteration
structure of nsec3_hash (dnssec/common.rs)."""
import re, sys, os
sys.path.insert(0, os.path.dirname(os.path.abspath(__file__)))
from rs import *

NUM = r"(0x[0-9A-Fa-f_]+|0b[01_]+|\d[\d_]*)"

def rtypes():
    src = strip_comments(read("src/base/iana/rtype.rs"))
    tab = {}
    for m in re.finditer(r"\(\s*([A-Z0-9_]+)\s*=>\s*(\d+)\s*,", src):
        tab[m.group(1)] = int(m.group(2))
    if len(tab) < 40:
        raise GenError("rtype table: only %d entries parsed" % len(tab))
    return tab

def build():
    defs = []
    RT = rtypes()
    def rt(name, what):
        if name not in RT:
            raise GenError("%s: unknown Rtype::%s" % (what, name))
        return RT[name]
    def N(v): return "%d%%N" % v
    def NL(vs): return "[" + "; ".join(N(v) for v in vs) + "]"
    def B(b): return "true" if b else "false"

    # ---------------------------------------------------------- type bitmap
    ds = strip_comments(read("src/rdata/dnssec.rs"))
    sp = fn_body(ds, "split_rtype")
    m = one(r"\(\s*rtype\s*>>\s*" + NUM + r"\s*\)\s*as\s+u8\s*,", sp, "split_rtype window")
    defs.append(("bm_window_shift", "N", N(num(m.group(1)))))
    m = one(r"\(\s*\(\s*rtype\s*&\s*" + NUM + r"\s*\)\s*>>\s*" + NUM + r"\s*\)\s*as\s+usize\s*,", sp, "split_rtype octet")
    defs.append(("bm_low_mask", "N", N(num(m.group(1)))))
    defs.append(("bm_octet_shift", "N", N(num(m.group(2)))))
    m = one(NUM + r"\s*>>\s*\(\s*rtype\s*&\s*" + NUM + r"\s*\)", sp, "split_rtype bit mask")
    defs.append(("bm_top_bit", "N", N(num(m.group(1)))))
    defs.append(("bm_bit_mask", "N", N(num(m.group(2)))))

    bld = impl_body(ds, r"impl<Builder>\s+RtypeBitmapBuilder<Builder>\s+where\s+Builder:\s*OctetsBuilder\s*\+\s*AsRef<\[u8\]>\s*\+\s*AsMut<\[u8\]>\s*,?\s*\{")
    add = fn_body(bld, "add")
    one(r"let\s+block\s*=\s*self\.get_block\(\s*block\s*\)\?\s*;", add, "add: get_block")
    m = one(r"if\s*\(\s*block\[(\d+)\]\s*as\s+usize\s*\)\s*<\s*\(\s*octet\s*\+\s*(\d+)\s*\)\s*\{\s*block\[(\d+)\]\s*=\s*\(\s*octet\s*\+\s*(\d+)\s*\)\s*as\s+u8\s*;?\s*\}", add, "add: length update")
    if not (m.group(1) == m.group(3) == "1" and m.group(2) == m.group(4)):
        raise GenError("add: length octet update changed")
    defs.append(("bm_len_index", "N", N(int(m.group(1)))))
    defs.append(("bm_len_plus", "N", N(int(m.group(2)))))
    m = one(r"block\[\s*octet\s*\+\s*(\d+)\s*\]\s*\|=\s*bit\s*;", add, "add: bit set")
    defs.append(("bm_header", "N", N(int(m.group(1)))))
    gb = fn_body(bld, "get_block")
    sizes = set(int(x) for x in re.findall(r"\[\s*0\s*;\s*(\d+)\s*\]", gb))
    sizes |= set(int(x) for x in re.findall(r"pos\s*\+=\s*(\d+)", gb))
    sizes |= set(int(x) for x in re.findall(r"pos\s*\.\.\s*pos\s*\+\s*(\d+)", gb))
    if len(sizes) != 1:
        raise GenError("get_block: block size not uniform: %r" % sorted(sizes))
    blk = sizes.pop()
    defs.append(("bm_block_size", "N", N(blk)))
    arms = re.findall(r"Ordering::(Equal|Greater|Less)\s*=>", gb)
    if arms != ["Equal", "Greater", "Less"]:
        raise GenError("get_block: arms changed: %r" % arms)
    one(r"match\s+self\.buf\.as_ref\(\)\[pos\]\.cmp\(\s*&block\s*\)", gb, "get_block scrutinee")
    fin = fn_body(bld, "finalize")
    m = one(r"step_by\(\s*(\d+)\s*\)", fin, "finalize step")
    if int(m.group(1)) != blk:
        raise GenError("finalize: step %s differs from block size %d" % (m.group(1), blk))
    m = one(r"let\s+chunk_len\s*=\s*\(\s*self\.buf\.as_ref\(\)\[\s*src_pos\s*\+\s*(\d+)\s*\]\s*as\s+usize\s*\)\s*\+\s*(\d+)\s*;", fin, "finalize chunk_len")
    if m.group(1) != "1":
        raise GenError("finalize: length octet index changed")
    defs.append(("bm_chunk_plus", "N", N(int(m.group(2)))))
    fo = fn_body(ds, "from_octets", after="impl<Octs> RtypeBitmap<Octs>")
    m = one(r"let\s+len\s*=\s*\(\s*data\[1\]\s*as\s+usize\s*\)\s*\+\s*(\d+)\s*;", fo, "from_octets len")
    defs.append(("bm_parse_header", "N", N(int(m.group(1)))))
    m2 = one(r"if\s+len\s*>\s*(\d+)\s*\{", fo, "from_octets upper bound")
    m3 = one(r"if\s+len\s*==\s*(\d+)\s*\{", fo, "from_octets empty window")
    defs.append(("bm_parse_max_chunk", "N", N(int(m2.group(1)))))
    defs.append(("bm_parse_empty_chunk", "N", N(int(m3.group(1)))))
    ct = fn_body(ds, "contains", after="impl<Octs: AsRef<[u8]>> RtypeBitmap<Octs>")
    one(r"if\s+window_num\s*==\s*block\s*\{\s*return\s*!\(\s*window\.len\(\)\s*<=\s*octet\s*\|\|\s*window\[octet\]\s*&\s*mask\s*==\s*0\s*\)\s*;", ct, "contains test")

    # ---------------------------------------------------------- records.rs
    rs_ = strip_comments(read("src/dnssec/sign/records.rs"))
    zc = fn_body(rs_, "is_zone_cut")
    m = one(r"self\.owner\(\)\.ne\(\s*apex\s*\)\s*&&\s*self\.records\(\)\.any\(\s*\|record\|\s*record\.rtype\(\)\s*==\s*Rtype::(\w+)\s*\)", zc, "is_zone_cut")
    defs.append(("rt_NS", "N", N(rt(m.group(1), "is_zone_cut"))))
    iz = fn_body(rs_, "is_in_zone")
    one(r"^\s*self\.owner\(\)\.ends_with\(\s*&apex\s*\)\s*$", iz, "is_in_zone")
    sb = fn_body(rs_, "skip_before")
    one(r"if\s+apex\s*==\s*first\s*\|\|\s*first\.ends_with\(\s*apex\s*\)\s*\{\s*break\s*;", sb, "skip_before test")
    ri = fn_body(rs_, "next", after="for RecordsIter<'a, N, D>")
    one(r"if\s*!record\.owner\(\)\.name_eq\(\s*first\.owner\(\)\s*\)\s*\{\s*break", ri, "RecordsIter grouping")
    oi = fn_body(rs_, "next", after="for OwnerRrsIter<'a, N, D>")
    one(r"if\s+record\.rtype\(\)\s*!=\s*first\.rtype\(\)\s*\{\s*break", oi, "OwnerRrsIter grouping")

    # ---------------------------------------------------------- nsec.rs
    ns = strip_comments(read("src/dnssec/sign/denial/nsec.rs"))
    g = fn_body(ns, "generate_nsecs")
    m = one(r"bitmap\.add\(Rtype::(\w+)\)\.unwrap\(\);\s*if\s+config\.assume_dnskeys_will_be_added\s*&&\s*owner_rrs\.owner\(\)\s*==\s*apex_owner\s*\{\s*bitmap\.add\(Rtype::(\w+)\)\.unwrap\(\);\s*\}\s*bitmap\.add\(Rtype::(\w+)\)\.unwrap\(\);", g, "generate_nsecs fixed types")
    defs.append(("nsec_fixed_a", "N", N(rt(m.group(1), "nsec fixed"))))
    defs.append(("nsec_apex_cfg", "N", N(rt(m.group(2), "nsec apex"))))
    defs.append(("nsec_fixed_b", "N", N(rt(m.group(3), "nsec fixed"))))
    if len(re.findall(r"bitmap\.add\(", g)) != 4:
        raise GenError("generate_nsecs: number of bitmap.add calls changed")
    m = one(r"if\s+cut\.is_none\(\)\s*\|\|\s*matches!\(\s*rrset\.rtype\(\)\s*,\s*([^)]*)\)\s*\{\s*bitmap\.add\(\s*rrset\.rtype\(\)\s*\)\.unwrap\(\)", g, "generate_nsecs cut filter")
    cut_types = [rt(x.strip().replace("Rtype::", ""), "nsec cut filter") for x in m.group(1).split("|")]
    defs.append(("nsec_cut_types", "list N", NL(cut_types)))
    m = one(r"if\s+rrset\.rtype\(\)\s*==\s*Rtype::(\w+)\s*\{\s*if\s+rrset\.len\(\)\s*>\s*(\d+)\s*\{\s*return\s+Err", g, "generate_nsecs SOA")
    defs.append(("rt_SOA", "N", N(rt(m.group(1), "SOA"))))
    defs.append(("soa_max_len", "nat", "%d%%nat" % int(m.group(2))))
    one(r"if\s+let\s+Some\(ref\s+cut\)\s*=\s*cut\s*\{\s*if\s+owner_rrs\.owner\(\)\.ends_with\(\s*cut\s*\)\s*\{\s*continue\s*;", g, "generate_nsecs below-cut skip")
    one(r"if\s*!owner_rrs\.is_in_zone\(\s*apex_owner\s*\)\s*\{\s*break\s*;", g, "generate_nsecs out-of-zone break")
    one(r"cut\s*=\s*if\s+owner_rrs\.is_zone_cut\(\s*apex_owner\s*\)\s*\{\s*Some\(\s*name\.clone\(\)\s*\)\s*\}\s*else\s*\{\s*None\s*\}\s*;", g, "generate_nsecs cut update")
    one(r"Nsec::new\(\s*name\.clone\(\)\s*,\s*bitmap\s*\)", g, "generate_nsecs next = current name")
    one(r"Nsec::new\(\s*apex_owner\.clone\(\)\s*,\s*bitmap\s*\)", g, "generate_nsecs last next = apex")

    # ---------------------------------------------------------- nsec3.rs
    n3 = strip_comments(read("src/dnssec/sign/denial/nsec3.rs"))
    g3 = fn_body(n3, "generate_nsec3s")
    one(r"config\.params\.opt_out_flag\(\)\s*&&\s*config\.opt_out_exclude_owner_names_of_unsigned_delegations\s*;", g3, "nsec3 opt-out exclusion condition")
    m = one(r"let\s+has_ds\s*=\s*owner_rrs\.records\(\)\.any\(\s*\|rec\|\s*rec\.rtype\(\)\s*==\s*Rtype::(\w+)\s*\)\s*;", g3, "nsec3 has_ds")
    defs.append(("rt_DS", "N", N(rt(m.group(1), "has_ds"))))
    one(r"if\s+exclude_owner_names_of_unsigned_delegations\s*&&\s*cut\.is_some\(\)\s*&&\s*!has_ds\s*\{", g3, "nsec3 opt-out skip")
    m = one(r"if\s+cut\.is_none\(\)\s*\|\|\s*has_ds\s*\{\s*bitmap\.add\(Rtype::(\w+)\)\.unwrap\(\);", re.sub(r"trace!\((?:[^()]|\([^()]*\))*\);", "", g3), "nsec3 RRSIG")
    defs.append(("nsec3_auth_type", "N", N(rt(m.group(1), "nsec3 rrsig"))))
    g3n = re.sub(r"(?:trace|debug)!\((?:[^()]|\([^()]*\))*\);", "", g3)
    m = one(r"if\s+cut\.is_none\(\)\s*\|\|\s*matches!\(\s*rrset\.rtype\(\)\s*,\s*([^)]*)\)\s*\{\s*bitmap\.add\(\s*rrset\.rtype\(\)\s*\)\.unwrap\(\)", g3n, "nsec3 cut filter")
    cut3 = [rt(x.strip().replace("Rtype::", ""), "nsec3 cut filter") for x in m.group(1).split("|")]
    defs.append(("nsec3_cut_types", "list N", NL(cut3)))
    m = one(r"if\s+distance_to_apex\s*==\s*0\s*\{\s*bitmap\.add\(Rtype::(\w+)\)\.unwrap\(\);\s*if\s+config\.assume_dnskeys_will_be_added\s*\{\s*bitmap\.add\(Rtype::(\w+)\)\.unwrap\(\);", g3n, "nsec3 apex types")
    defs.append(("nsec3_apex_always", "N", N(rt(m.group(1), "nsec3 apex"))))
    defs.append(("nsec3_apex_cfg", "N", N(rt(m.group(2), "nsec3 apex"))))
    if len(re.findall(r"bitmap\.add\(", g3n)) != 4:
        raise GenError("generate_nsec3s: number of bitmap.add calls changed")
    m = one(r"if\s+rrset\.rtype\(\)\s*==\s*Rtype::(\w+)\s*\{\s*if\s+rrset\.len\(\)\s*>\s*(\d+)\s*\{\s*return\s+Err", g3n, "generate_nsec3s SOA")
    if rt(m.group(1), "SOA3") != RT["SOA"] or int(m.group(2)) != 1:
        raise GenError("generate_nsec3s: SOA rule differs from generate_nsecs")
    one(r"for\s+n\s+in\s+\(\s*1\s*\.\.=\s*distance\s*-\s*1\s*\)\.rev\(\)", g3n, "nsec3 ENT loop bounds")
    one(r"name\.iter_labels\(\)\.skip\(\s*n\s*\)", g3n, "nsec3 ENT skip")
    one(r"rev_label_it\.take\(\s*distance_to_apex\s*-\s*n\s*\)", g3n, "nsec3 ENT take")
    one(r"if\s+distance_to_apex\s*>\s*last_nent_distance_to_apex\s*\{", g3n, "nsec3 ENT condition")
    one(r"if\s*!only_one_nsec3\s*&&\s*nsec3\.owner\(\)\s*==\s*next_nsec3\.owner\(\)\s*\{\s*if\s+nsec3\.data\(\)\.next_owner\(\)\s*!=\s*next_nsec3\.data\(\)\.next_owner\(\)\s*\{\s*Err\(Nsec3HashError::CollisionDetected\)", g3n, "nsec3 collision check")
    p3 = strip_comments(read("src/rdata/nsec3.rs"))
    m = one(r"const\s+NSEC3_OPT_OUT_FLAG_MASK\s*:\s*u8\s*=\s*" + NUM + r"\s*;", p3, "opt-out mask")
    defs.append(("opt_out_mask", "N", N(num(m.group(1)))))
    oo = fn_body(p3, "opt_out_flag")
    one(r"^\s*self\.flags\s*&\s*NSEC3_OPT_OUT_FLAG_MASK\s*==\s*NSEC3_OPT_OUT_FLAG_MASK\s*$", oo, "opt_out_flag")

    # ---------------------------------------------------------- nsec3_hash
    cm = strip_comments(read("src/dnssec/common.rs"))
    h = fn_body(cm, "nsec3_hash")
    m = one(r"if\s+algorithm\s*!=\s*Nsec3HashAlgorithm::(\w+)\s*\{\s*return\s+Err\(Nsec3HashError::UnsupportedAlgorithm\)", h, "nsec3_hash algorithm check")
    ia = strip_comments(read("src/base/iana/nsec3.rs"))
    ma = one(r"\(\s*%s\s*=>\s*(\d+)\s*," % re.escape(m.group(1)), ia, "Nsec3HashAlgorithm value")
    defs.append(("nsec3_alg_sha1", "N", N(int(ma.group(1)))))
    one(r"owner\.compose_canonical\(\s*&mut\s+canonical_owner\s*\)\?\s*;", h, "nsec3_hash canonical owner")
    m = one(r"DigestBuilder::new\(DigestType::(\w+)\);\s*ctx\.update\(\s*canonical_owner\.as_ref\(\)\s*\);\s*ctx\.update\(\s*salt\.as_slice\(\)\s*\);\s*let\s+mut\s+h\s*=\s*ctx\.finish\(\);", h, "nsec3_hash first round")
    if m.group(1) != "Sha1":
        raise GenError("nsec3_hash: digest is %s" % m.group(1))
    m = one(r"for\s+_\s+in\s+(\d+)\s*\.\.\s*iterations\s*\{\s*let\s+mut\s+ctx\s*=\s*DigestBuilder::new\(DigestType::(\w+)\);\s*ctx\.update\(\s*h\.as_ref\(\)\s*\);\s*ctx\.update\(\s*salt\.as_slice\(\)\s*\);\s*h\s*=\s*ctx\.finish\(\);\s*\}", h, "nsec3_hash iteration loop")
    if m.group(2) != "Sha1":
        raise GenError("nsec3_hash: iteration digest is %s" % m.group(2))
    defs.append(("hash_iter_from", "N", N(int(m.group(1)))))
    defs.append(("hash_salt_after_data", "bool", B(True)))
    # the canonical form: only ToName's default compose_canonical exists (no representation
    # overrides it) and Label::compose_canonical lower-cases every octet
    tr = strip_comments(read("src/base/name/traits.rs"))
    tn = impl_body(tr, r"pub\s+trait\s+ToName\s*:\s*ToLabelIter\s*\{")
    one(r"^\s*for\s+label\s+in\s+self\.iter_labels\(\)\s*\{\s*label\.compose_canonical\(\s*target\s*\)\?\s*;\s*\}\s*Ok\(\(\)\)\s*$", fn_body(tn, "compose_canonical"), "ToName::compose_canonical default")
    for f in ("absolute.rs", "parsed.rs", "chain.rs", "relative.rs", "uncertain.rs"):
        src_f = strip_comments(read("src/base/name/" + f))
        if re.search(r"fn\s+compose_canonical\s*<", src_f):
            raise GenError("base/name/%s overrides compose_canonical" % f)
    lb = strip_comments(read("src/base/name/label.rs"))
    one(r"target\.append_slice\(\s*&\[\s*self\.len\(\)\s+as\s+u8\s*\]\s*\)\?\s*;\s*for\s+ch\s+in\s+self\.into_iter\(\)\s*\{\s*target\.append_slice\(\s*&\[\s*ch\.to_ascii_lowercase\(\)\s*\]\s*\)\?\s*;\s*\}", fn_body(lb, "compose_canonical"), "Label::compose_canonical lower-cases")
    defs.append(("hash_owner_lowercased", "bool", B(True)))
    # ---------------------------------------------------------- TTL / class of the generated records
    n_expect = len(re.findall(r"Rrset::check_ttls\(&slice\)\.expect\(", rs_))
    if n_expect == 3:
        ct = fn_body(rs_, "check_ttls")
        m = one(r"if\s+first\.rtype\(\)\s*==\s*Rtype::(\w+)\s*\{\s*return\s+Ok\(\(\)\)\s*;", ct, "check_ttls exemption")
        defs.append(("rrsig_ttl_exempt", "N", N(rt(m.group(1), "check_ttls"))))
        one(r"let\s+first_ttl\s*=\s*first\.ttl\(\)\s*;\s*if\s+slice\.iter\(\)\.any\(\s*\|r\|\s*r\.ttl\(\)\s*!=\s*first_ttl\s*\)\s*\{\s*return\s+Err\(SigningError::MultipleTtlValues\)", ct, "check_ttls comparison")
        defs.append(("rrset_new_expects_ttls", "bool", B(True)))
    elif n_expect == 0 and "check_ttls" not in rs_ and not re.search(r"TTLs should be the same", rs_):
        # Rrset::new no longer looks at the TTLs
        for ctor in ("new", "new_from_refs", "new_from_owned"):
            body = fn_body(rs_, ctor, after="impl<'a, N, D> Rrset<'a, N, D>")
            if re.search(r"expect\(|unwrap\(|panic!|assert", body):
                raise GenError("Rrset::%s: unexpected panic site" % ctor)
        defs.append(("rrsig_ttl_exempt", "N", N(RT["RRSIG"])))
        defs.append(("rrset_new_expects_ttls", "bool", B(False)))
    else:
        raise GenError("Rrset::new*: check_ttls is expect()ed in %d of the three constructors" % n_expect)
    one(r"nsec_ttl\s*=\s*Some\(\s*min\(\s*soa_data\.minimum\(\)\s*,\s*soa_rr\.ttl\(\)\s*\)\s*\)\s*;\s*zone_class\s*=\s*Some\(\s*rrset\.class\(\)\s*\)\s*;", g, "generate_nsecs ttl/class")
    defs.append(("ttl_is_min", "bool", B(True)))
    if len(re.findall(r"zone_class\.unwrap\(\)\s*,\s*nsec_ttl\.unwrap\(\)", g)) != 2:
        raise GenError("generate_nsecs: Record::new(.., zone_class.unwrap(), nsec_ttl.unwrap(), ..) sites changed")
    one(r"nsec3_ttl\s*=\s*Some\(\s*min\(\s*soa_data\.minimum\(\)\s*,\s*soa_rr\.ttl\(\)\s*\)\s*\)\s*;", g3n, "generate_nsec3s ttl")
    one(r"nsec3param_ttl\s*=\s*match\s+config\.nsec3param_ttl_mode\s*\{\s*Nsec3ParamTtlMode::Fixed\(ttl\)\s*=>\s*Some\(ttl\)\s*,\s*Nsec3ParamTtlMode::Soa\s*=>\s*Some\(\s*soa_rr\.ttl\(\)\s*\)\s*,\s*Nsec3ParamTtlMode::SoaMinimum\s*=>\s*Some\(\s*soa_data\.minimum\(\)\s*\)\s*,?\s*\}", g3n, "nsec3param ttl modes")
    mk = fn_body(n3, "mk_nsec3")
    cl = strip_comments(read("src/base/iana/class.rs"))
    mfix = re.findall(r"Ok\(Record::new\(\s*owner_name\s*,\s*Class::(\w+)\s*,\s*ttl\s*,\s*nsec3\s*\)\)", mk)
    mvar = re.findall(r"Ok\(Record::new\(\s*owner_name\s*,\s*class\s*,\s*ttl\s*,\s*nsec3\s*\)\)", mk)
    if len(mfix) == 1 and not mvar:
        # every NSEC3 and the NSEC3PARAM record get a fixed class
        m2 = one(r"Class::(\w+)\s*,\s*nsec3param_ttl\s*,\s*config\.params\.clone\(\)", g3n, "nsec3param class")
        if mfix[0] != m2.group(1):
            raise GenError("NSEC3 and NSEC3PARAM classes differ")
        mc = one(r"\(\s*%s\s*=>\s*(\d+)\s*," % re.escape(mfix[0]), cl, "Class value")
        defs.append(("nsec3_class", "N", N(int(mc.group(1)))))
        defs.append(("nsec3_class_fixed", "bool", B(True)))
        extra = r""
        pclass = r"Class::\w+"
    elif len(mvar) == 1 and not mfix:
        # the class of the SOA RRset, as in generate_nsecs
        one(r"zone_class\s*=\s*Some\(\s*rrset\.class\(\)\s*\)\s*;", g3n, "generate_nsec3s zone_class")
        one(r"class\s*:\s*Class\s*,\s*\)\s*->\s*Result<Record<N,\s*Nsec3<Octs>>", n3, "mk_nsec3 class parameter")
        if re.search(r"Class::IN", strip_comments(g3n)) or re.search(r"Class::IN", mk):
            raise GenError("generate_nsec3s: Class::IN still used next to zone_class")
        defs.append(("nsec3_class", "N", N(1)))
        defs.append(("nsec3_class_fixed", "bool", B(False)))
        extra = r"\s*,\s*zone_class\.unwrap\(\)"
        pclass = r"zone_class\.unwrap\(\)"
    else:
        raise GenError("mk_nsec3: class of the NSEC3 record not recognised")
    # the parameters handed to every NSEC3 and to the NSEC3PARAM record
    calls = re.findall(r"mk_nsec3\(\s*&name\s*,\s*config\.params\.hash_algorithm\(\)\s*,\s*config\.params\.flags\(\)\s*,\s*config\.params\.iterations\(\)\s*,\s*config\.params\.salt\(\)\s*,\s*apex_owner\s*,\s*bitmap\s*,\s*nsec3_ttl\.unwrap\(\)" + extra + r"\s*,?\s*\)", g3n)
    if len(calls) != 2:
        raise GenError("generate_nsec3s: the two mk_nsec3(&name, config.params.*, apex_owner, bitmap, nsec3_ttl.unwrap()) calls changed")
    one(r"Nsec3::new\(\s*alg\s*,\s*flags\s*,\s*iterations\s*,\s*salt\.clone\(\)\s*,\s*placeholder_next_owner\s*,\s*bitmap\.finalize\(\)\s*,?\s*\)", mk, "mk_nsec3 Nsec3::new arguments")
    one(r"Record::new\(\s*apex_owner\s*\.try_to_name::<Octs>\(\)\s*\.map_err\([^)]*\)\?\s*\.into\(\)\s*,\s*" + pclass + r"\s*,\s*nsec3param_ttl\s*,\s*config\.params\.clone\(\)\s*,?\s*\)", g3n, "NSEC3PARAM record")
    # ---------------------------------------------------------- record equality used by SortedRecords' dedup
    rd = strip_comments(read("src/base/rdata.rs"))
    ib = impl_body(rd, r"impl<Octs,\s*Other>\s+PartialEq<UnknownRecordData<Other>>\s+for\s+UnknownRecordData<Octs>\s+where[^{]*\{")
    eq = fn_body(ib, "eq")
    if re.fullmatch(r"\s*self\.data\.as_ref\(\)\.eq\(\s*other\.data\.as_ref\(\)\s*\)\s*", eq):
        defs.append(("unknown_eq_checks_rtype", "bool", B(False)))
    elif re.fullmatch(r"\s*self\.rtype\s*==\s*other\.rtype\s*&&\s*self\.data\.as_ref\(\)\.eq\(\s*other\.data\.as_ref\(\)\s*\)\s*", eq):
        defs.append(("unknown_eq_checks_rtype", "bool", B(True)))
    else:
        raise GenError("UnknownRecordData::eq: unrecognised body %r" % eq.strip())
    sr = strip_comments(read("src/dnssec/sign/records.rs"))
    ex = fn_body(sr, "extend", after="impl<N, D, Sort> Extend<Record<N, D>> for SortedRecords<N, D, Sort>")
    one(r"Sort::sort_by\(\s*&mut\s+self\.records\s*,\s*CanonicalOrd::canonical_cmp\s*\)\s*;\s*self\.records\.dedup\(\)\s*;", ex, "SortedRecords::extend sort+dedup")
    rc = strip_comments(read("src/base/record.rs"))
    rb = impl_body(rc, r"impl<N,\s*NN,\s*D,\s*DD>\s+PartialEq<Record<NN,\s*DD>>\s+for\s+Record<N,\s*D>\s+where[^{]*\{")
    one(r"self\.owner\s*==\s*other\.owner\s*&&\s*self\.class\s*==\s*other\.class\s*&&\s*self\.data\s*==\s*other\.data", fn_body(rb, "eq"), "Record::eq")
    cc = fn_body(rc, "canonical_cmp", after="impl<N, NN, D, DD> CanonicalOrd<Record<NN, DD>> for Record<N, D>")
    keys = re.findall(r"match\s+(self\.class\.cmp\(&other\.class\)|self\.owner\.name_cmp\(&other\.owner\)|self\.rtype\(\)\.cmp\(&other\.rtype\(\)\))\s*\{\s*Ordering::Equal\s*=>\s*\{\}\s*res\s*=>\s*return\s+res\s*,?\s*\}", cc)
    if [k.split(".")[1].split("(")[0] for k in keys] != ["class", "owner", "rtype"]:
        raise GenError("Record::canonical_cmp: key order changed: %r" % keys)
    one(r"self\.data\.canonical_cmp\(&other\.data\)\s*$", cc, "Record::canonical_cmp last key")
    defs.append(("record_cmp_class_first", "bool", B(True)))
    return defs

if __name__ == "__main__":
    main("C13", "/repo/src/rdata/dnssec.rs, rdata/nsec3.rs, dnssec/common.rs, dnssec/sign/{records,denial/nsec,denial/nsec3}.rs, base/iana/{rtype,nsec3}.rs", build)
