#!/usr/bin/env python3
"""T1 extractor for C02: the constants and comparison operators of the message
builder and the three name compressors in src/base/message_builder.rs, the
`long data` check of src/base/rdata.rs compose_prefixed, the counter increments
of src/base/header.rs and the default OPT header of src/base/opt/mod.rs."""
import re, sys, os
sys.path.insert(0, os.path.dirname(os.path.abspath(__file__)))
from rs import *

HEX = r"(0x[0-9A-Fa-f_]+|\d[\d_]*)"

def N(v):
    return "%d%%N" % v

def B(b):
    return "true" if b else "false"

def build():
    src = strip_comments(read("src/base/message_builder.rs"))
    defs = []

    # ---- MessageBuilder::push : `new_pos >= self.limit`
    mb = impl_body(src, r"impl<Target:\s*Composer>\s*MessageBuilder<Target>\s*\{(?=\s*fn\s+push<)")
    push = fn_body(mb, "push")
    m = one(r"if\s+new_pos\s*(>=|>|==|<=|<)\s*self\.limit\s*\{", push, "MessageBuilder::push limit test")
    if m.group(1) not in (">=", ">"):
        raise GenError("MessageBuilder::push: limit operator %r is not >= or >" % m.group(1))
    defs.append(("limit_cmp_ge", "bool", B(m.group(1) == ">=")))
    # order of the three failure exits: push error, limit, count
    order = [x.group(1) for x in re.finditer(r"(push\(&mut self\.target\)|new_pos\s*>=?\s*self\.limit|inc\(self\.counts_mut\(\)\))", push)]
    if order != ["push(&mut self.target)", m.group(0)[3:-1].strip(), "inc(self.counts_mut())"]:
        raise GenError("MessageBuilder::push: order of checks changed: %r" % order)
    if len(re.findall(r"self\.target\.truncate\(pos\)", push)) != 3:
        raise GenError("MessageBuilder::push: expected truncate(pos) on each of the three failure exits")
    defs.append(("push_truncates_on_all_three", "bool", "true"))
    one(r"limit:\s*usize::MAX", fn_body(src, "from_target", after="impl<Target: OctetsBuilder + Truncate> MessageBuilder<Target>"), "from_target limit default")

    # ---- rewind of the question section: truncate(size_of::<HeaderSection>())
    qb = fn_body(src, "rewind", after="impl<Target: Composer> QuestionBuilder<Target>")
    one(r"truncate\(\s*mem::size_of::<HeaderSection>\(\)\s*\)", qb, "QuestionBuilder::rewind")
    one(r"set_qdcount\(0\)", qb, "QuestionBuilder::rewind count")
    hs = strip_comments(read("src/base/header.rs"))
    m = one(r"pub struct HeaderSection\s*\{\s*inner:\s*\[u8;\s*(\d+)\]", hs, "HeaderSection size")
    defs.append(("header_len", "N", N(num(m.group(1)))))
    for sec, cnt in (("AnswerBuilder", "ancount"), ("AuthorityBuilder", "nscount"), ("AdditionalBuilder", "arcount")):
        # the rewind of every record section truncates to self.start and zeroes its own counter
        ms = [x for x in re.finditer(r"pub fn rewind\(&mut self\)\s*\{([^}]*)\}", src)]
        bodies = [x.group(1) for x in ms if ("set_%s(0)" % cnt) in x.group(1)]
        if len(bodies) != 1 or not re.search(r"truncate\(self\.start\)", bodies[0]):
            raise GenError("%s::rewind changed" % sec)
    defs.append(("rewind_truncates_to_start", "bool", "true"))

    # ---- section conversions: every shortcut is the composition of single steps
    #      (one rewind per section dropped), every XBuilder::new takes the current length as start
    conv = {
        "pub struct MessageBuilder<Target>": {
            "question": r"QuestionBuilder::new\(self\)", "answer": r"self\.question\(\)\.answer\(\)",
            "authority": r"self\.question\(\)\.answer\(\)\.authority\(\)",
            "additional": r"self\.question\(\)\.answer\(\)\.authority\(\)\.additional\(\)"},
        "pub struct QuestionBuilder<Target>": {
            "builder": r"self\.rewind\(\);\s*self\.builder", "answer": r"AnswerBuilder::new\(self\.builder\)",
            "authority": r"self\.answer\(\)\.authority\(\)", "additional": r"self\.answer\(\)\.authority\(\)\.additional\(\)"},
        "pub struct AnswerBuilder<Target>": {
            "builder": r"self\.question\(\)\.builder\(\)", "question": r"self\.rewind\(\);\s*QuestionBuilder::new\(self\.builder\)",
            "authority": r"AuthorityBuilder::new\(self\)", "additional": r"self\.authority\(\)\.additional\(\)"},
        "pub struct AuthorityBuilder<Target>": {
            "builder": r"self\.question\(\)\.builder\(\)", "question": r"self\.answer\(\)\.question\(\)",
            "answer": r"self\.rewind\(\);\s*self\.answer", "additional": r"AdditionalBuilder::new\(self\)"},
        "pub struct AdditionalBuilder<Target>": {
            "builder": r"self\.question\(\)\.builder\(\)", "question": r"self\.answer\(\)\.question\(\)",
            "answer": r"self\.authority\(\)\.answer\(\)", "authority": r"self\.rewind\(\);\s*self\.authority"},
    }
    nconv = 0
    for after, fns in conv.items():
        for name, pat in fns.items():
            body = fn_body(src, name, after=after)
            if not re.fullmatch(r"\s*" + pat + r"\s*", body, re.S):
                raise GenError("%s ... fn %s: body %r is not the expected composition" % (after, name, " ".join(body.split())[:80]))
            nconv += 1
    for after, pat in (("pub struct AnswerBuilder<Target>", r"start:\s*builder\.target\.as_ref\(\)\.len\(\)"),
                       ("pub struct AuthorityBuilder<Target>", r"start:\s*answer\.as_target\(\)\.as_ref\(\)\.len\(\)"),
                       ("pub struct AdditionalBuilder<Target>", r"start:\s*authority\.as_target\(\)\.as_ref\(\)\.len\(\)")):
        one(pat, fn_body(src, "new", after=after), after + " new: start")
    defs.append(("conversions_anchored", "N", N(nconv)))
    # start_answer / start_error / request_axfr are header setters + question pushes + .answer()
    sa = fn_body(src, "start_answer")
    one(r"header\.set_id\(msg\.header\(\)\.id\(\)\);\s*header\.set_qr\(true\);\s*header\.set_opcode\(msg\.header\(\)\.opcode\(\)\);\s*header\.set_rd\(msg\.header\(\)\.rd\(\)\);\s*header\.set_rcode\(rcode\);", sa, "start_answer header")
    one(r"let mut builder = self\.question\(\);\s*for item in msg\.question\(\)\.flatten\(\)\s*\{\s*builder\.push\(item\)\?;\s*\}\s*Ok\(builder\.answer\(\)\)", sa, "start_answer body")
    se = fn_body(src, "start_error")
    one(r"header\.set_id\(msg\.header\(\)\.id\(\)\);\s*header\.set_qr\(true\);\s*header\.set_opcode\(msg\.header\(\)\.opcode\(\)\);\s*header\.set_rd\(msg\.header\(\)\.rd\(\)\);\s*header\.set_rcode\(rcode\);", se, "start_error header")
    one(r"if builder\.push\(item\)\.is_err\(\)\s*\{\s*builder\.header_mut\(\)\.set_rcode\(Rcode::SERVFAIL\);\s*break;\s*\}\s*\}\s*builder\.answer\(\)", se, "start_error body")
    ra = fn_body(src, "request_axfr")
    one(r"self\.header_mut\(\)\.set_random_id\(\);\s*let mut builder = self\.question\(\);\s*builder\.push\(\(apex, Rtype::AXFR\)\)\?;\s*Ok\(builder\.answer\(\)\)", ra, "request_axfr body")
    defs.append(("start_helpers_anchored", "bool", "true"))

    # ---- counters: checked_add(1) on a u16
    for c in ("qdcount", "ancount", "nscount", "arcount"):
        b = fn_body(hs, "inc_" + c)
        one(r"match\s+self\.%s\(\)\.checked_add\(1\)\s*\{\s*Some\(count\)\s*=>\s*\{\s*self\.set_%s\(count\);\s*Ok\(\(\)\)\s*\}\s*None\s*=>\s*Err\(CountOverflow\(\(\)\)\)" % (c, c), b, "inc_" + c)
        one(r"pub fn %s\(self\)\s*->\s*u16" % c, hs, c + " is u16")
    defs.append(("count_max", "N", N(0xFFFF)))   # u16::MAX: checked_add(1) on u16 fails exactly there

    # ---- StaticCompressor
    m = one(r"entries:\s*\[u16;\s*(\d+)\]", src, "StaticCompressor entries")
    defs.append(("static_capacity", "N", N(num(m.group(1)))))
    sc_impl = impl_body(src, r"impl<Target>\s*StaticCompressor<Target>\s*\{")
    ins = fn_body(sc_impl, "insert")
    m = one(r"if\s+pos\s*(<|<=)\s*" + HEX + r"\s*&&\s*self\.len\s*(<|<=)\s*self\.entries\.len\(\)\s*\{", ins, "StaticCompressor::insert guard")
    defs.append(("static_ptr_limit", "N", N(num(m.group(2)) + (1 if m.group(1) == "<=" else 0))))
    defs.append(("static_cap_lt", "bool", B(m.group(3) == "<")))
    sc_comp = impl_body(src, r"impl<Target:\s*Composer>\s*Composer\s+for\s+StaticCompressor<Target>\s*\{")
    acn = fn_body(sc_comp, "append_compressed_name")
    m = one(r"return\s*\(pos\s*\|\s*" + HEX + r"\)\.compose\(self\)", acn, "StaticCompressor pointer tag")
    defs.append(("static_ptr_tag", "N", N(num(m.group(1)))))
    tr = fn_body(impl_body(src, r"impl<Target:\s*Truncate>\s*Truncate\s+for\s+StaticCompressor<Target>\s*\{"), "truncate")
    m = one(r"if\s+len\s*<\s*" + HEX + r"\s*\{", tr, "StaticCompressor::truncate guard")
    defs.append(("static_trunc_guard", "N", N(num(m.group(1)))))
    one(r"if\s+self\.entries\[i\]\s*>=\s*len\s*\{\s*self\.len\s*=\s*i;\s*break;", tr, "StaticCompressor::truncate loop")

    # ---- TreeCompressor
    tc_impl = impl_body(src, r"impl<Target>\s*TreeCompressor<Target>\s*\{")
    ins = fn_body(tc_impl, "insert")
    m = one(r"if\s+pos\s*(>=|>)\s*" + HEX + r"\s*\{\s*return\s+false;", ins, "TreeCompressor::insert guard")
    defs.append(("tree_ptr_limit", "N", N(num(m.group(2)) + (1 if m.group(1) == ">" else 0))))
    tc_comp = impl_body(src, r"impl<Target:\s*Composer>\s*Composer\s+for\s+TreeCompressor<Target>\s*\{")
    acn = fn_body(tc_comp, "append_compressed_name")
    m = one(r"return\s*\(pos\s*\|\s*" + HEX + r"\)\.compose\(self\)", acn, "TreeCompressor pointer tag")
    defs.append(("tree_ptr_tag", "N", N(num(m.group(1)))))
    tr = fn_body(impl_body(src, r"impl<Target:\s*Composer>\s*Truncate\s+for\s+TreeCompressor<Target>\s*\{"), "truncate")
    m = one(r"if\s+len\s*<\s*" + HEX + r"\s*\{", tr, "TreeCompressor::truncate guard")
    defs.append(("tree_trunc_guard", "N", N(num(m.group(1)))))
    da = fn_body(src, "drop_above", after="impl Node")
    one(r"Some\(value\)\s+if\s+value\s*<\s*len\s*=>\s*Some\(value\)", da, "Node::drop_above")
    tg = fn_body(tc_impl, "get")
    one(r"node\.parents\.get\(label\.as_ref\(\)\)", tg, "TreeCompressor::get keyed by raw label octets")

    # ---- HashCompressor
    hn = fn_body(src, "new", after="impl HashEntry")
    m = one(r"if\s+head\s*(<|<=)\s*" + HEX + r"\s*\{", hn, "HashEntry::new guard")
    defs.append(("hash_ptr_limit", "N", N(num(m.group(2)) + (1 if m.group(1) == "<=" else 0))))
    hc_comp = impl_body(src, r"impl<Target:\s*Composer>\s*Composer\s+for\s+HashCompressor<Target>\s*\{")
    acn = fn_body(hc_comp, "append_compressed_name")
    m = one(r"let\s+mut\s+position\s*=\s*" + HEX + r"\s*;", acn, "HashCompressor root position")
    defs.append(("hash_root_pos", "N", N(num(m.group(1)))))
    m2 = one(r"if\s+position\s*!=\s*" + HEX + r"\s*\{\s*\(position\s*\|\s*" + HEX + r"\)\.compose\(self\)", acn, "HashCompressor terminator")
    if num(m2.group(1)) != num(m.group(1)):
        raise GenError("HashCompressor: initial position and terminator test use different sentinels")
    defs.append(("hash_ptr_tag", "N", N(num(m2.group(2)))))
    one(r"if\s+labels\.peek\(\)\.is_none\(\)\s*\{\s*entry\.tail\s*=\s*position;", acn, "HashCompressor last label tail")
    tr = fn_body(impl_body(src, r"impl<Target:\s*Composer>\s*Truncate\s+for\s+HashCompressor<Target>\s*\{"), "truncate")
    m = one(r"if\s+len\s*<\s*" + HEX + r"\s*\{\s*self\.names\.retain\(\|name\|\s*name\.head\s*<\s*len\s+as\s+u16\)", tr, "HashCompressor::truncate")
    defs.append(("hash_trunc_guard", "N", N(num(m.group(1)))))

    # ---- StreamTarget shim: u16::try_from(len - 2)
    us = fn_body(src, "update_shim")
    one(r"match\s+u16::try_from\(self\.target\.as_ref\(\)\.len\(\)\s*-\s*2\)", us, "StreamTarget::update_shim")
    one(r"Err\(_\)\s*=>\s*Err\(ShortBuf\)", us, "StreamTarget::update_shim error")
    defs.append(("shim_max", "N", N(0xFFFF)))    # u16::try_from succeeds exactly up to u16::MAX
    st = fn_body(impl_body(src, r"impl<Target:\s*Composer>\s*Truncate\s+for\s+StreamTarget<Target>\s*\{"), "truncate")
    one(r"self\.update_shim\(\)\.expect\(", st, "StreamTarget::truncate expect")

    # ---- StreamTarget coordinates: the message lives behind a two octet prefix of the inner buffer
    stt = fn_body(impl_body(src, r"impl<Target:\s*Composer>\s*Truncate\s+for\s+StreamTarget<Target>\s*\{"), "truncate")
    m1 = one(r"self\.target\s*\.truncate\(len\.checked_add\((\d+)\)\.expect\(\"long truncate\"\)\);", stt, "StreamTarget::truncate offset")
    m2 = one(r"u16::try_from\(self\.target\.as_ref\(\)\.len\(\)\s*-\s*(\d+)\)", us, "update_shim offset")
    m3 = one(r"self\.target\.as_mut\(\)\[\.\.(\d+)\]\.copy_from_slice\(&len\.to_be_bytes\(\)\)", us, "update_shim prefix position")
    views = re.findall(r"&(?:mut )?self\.target\.as_(?:ref|mut)\(\)\[(\d+)\.\.\]", src)
    if len(views) != 3:
        raise GenError("StreamTarget as_ref/as_mut/as_dgram_slice: expected three [n..] views, found %d" % len(views))
    vals = set([num(m1.group(1)), num(m2.group(1)), num(m3.group(1))] + [num(v) for v in views])
    if len(vals) != 1:
        raise GenError("StreamTarget: prefix length differs between truncate/update_shim/views: %r" % sorted(vals))
    one(r"target\.truncate\(0\);\s*0u16\.compose\(&mut target\)\?;", fn_body(src, "new", after="impl<Target: Composer> StreamTarget<Target>"), "StreamTarget::new prefix")
    sapp = fn_body(impl_body(src, r"impl<Target>\s*OctetsBuilder\s+for\s+StreamTarget<Target>\s*where[^{]*\{"), "append_slice")
    one(r"^\s*self\.target\.append_slice\(slice\)\.map_err\(Into::into\)\?;\s*self\.update_shim\(\)\s*$", sapp, "StreamTarget::append_slice (no roll back of its own)")
    defs.append(("stream_prefix_len", "N", N(vals.pop())))

    # ---- Header setters: offsets and bit positions
    for nm_, var in (("qr", "hb_qr"), ("aa", "hb_aa"), ("tc", "hb_tc"), ("rd", "hb_rd"), ("ra", "hb_ra"), ("z", "hb_z"), ("ad", "hb_ad"), ("cd", "hb_cd")):
        mm = one(r"pub fn set_%s\(&mut self, set: bool\)\s*\{\s*self\.set_bit\((\d+),\s*(\d+),\s*set\)" % nm_, hs, "Header::set_" + nm_)
        defs.append((var, "N * N", "(%s, %s)" % (N(num(mm.group(1))), N(num(mm.group(2))))))
    one(r"fn set_bit\(&mut self, offset: usize, bit: usize, set: bool\)\s*\{\s*if set\s*\{\s*self\.inner\[offset\]\s*\|=\s*1\s*<<\s*bit\s*\}\s*else\s*\{\s*self\.inner\[offset\]\s*&=\s*!\(1\s*<<\s*bit\)", hs, "Header::set_bit")
    mm = one(r"pub fn set_opcode\(&mut self, opcode: Opcode\)\s*\{\s*self\.inner\[(\d+)\]\s*=\s*self\.inner\[\1\]\s*&\s*" + HEX + r"\s*\|\s*\(opcode\.to_int\(\)\s*<<\s*(\d+)\)", hs, "Header::set_opcode")
    defs.append(("hb_opcode", "N * N * N", "(%s, %s, %s)" % (N(num(mm.group(1))), N(num(mm.group(2))), N(num(mm.group(3))))))
    mm = one(r"pub fn set_rcode\(&mut self, rcode: Rcode\)\s*\{\s*self\.inner\[(\d+)\]\s*=\s*self\.inner\[\1\]\s*&\s*" + HEX + r"\s*\|\s*\(rcode\.to_int\(\)\s*&\s*" + HEX + r"\)", hs, "Header::set_rcode values")
    defs.append(("hb_rcode", "N * N * N", "(%s, %s, %s)" % (N(num(mm.group(1))), N(num(mm.group(2))), N(num(mm.group(3))))))
    one(r"pub fn set_id\(&mut self, value: u16\)\s*\{\s*self\.inner\[\.\.2\]\.copy_from_slice\(&value\.to_be_bytes\(\)\)", hs, "Header::set_id")

    # ---- compose_prefixed: u16::try_from(..).expect("long data")
    rd = strip_comments(read("src/base/rdata.rs"))
    cp = fn_body(rd, "compose_prefixed")
    one(r"target\.append_slice\(&\[0;\s*2\]\)\?;", cp, "compose_prefixed placeholder")
    one(r"u16::try_from\(target\.as_ref\(\)\.len\(\)\s*-\s*pos\)\s*\.expect\(\"long data\"\)", cp, "compose_prefixed long data")
    one(r"target\.as_mut\(\)\[pos\s*-\s*2\.\.pos\]", cp, "compose_prefixed patch position")
    one(r"Err\(err\)\s*=>\s*\{\s*target\.truncate\(pos\);\s*Err\(err\)", cp, "compose_prefixed truncate on error")
    defs.append(("rdlen_max", "N", N(0xFFFF)))
    cl = fn_body(rd, "compose_len_rdata")
    one(r"if\s+let\s+Some\(rdlen\)\s*=\s*self\.rdlen\(target\.can_compress\(\)\)\s*\{\s*rdlen\.compose\(target\)\?;\s*self\.compose_rdata\(target\)\s*\}\s*else\s*\{\s*compose_prefixed", cl, "compose_len_rdata")
    defs.append(("rdlen_known_first", "bool", "true"))

    # ---- OptBuilder::build: length overflow is an error, not a panic; default header
    ob = fn_body(src, "build", after="impl<'a, Target: Composer + ?Sized> OptBuilder<'a, Target>")
    one(r"match\s+u16::try_from\(self\.target\.as_ref\(\)\.len\(\)\s*-\s*pos\)", ob, "OptBuilder::build length")
    if len(re.findall(r"self\.target\.truncate\(pos\);\s*Err\(ShortBuf\)", ob)) != 2:
        raise GenError("OptBuilder::build: expected two truncate(pos); Err(ShortBuf) exits")
    opt = strip_comments(read("src/base/opt/mod.rs"))
    m = one(r"impl Default for OptHeader\s*\{\s*fn default\(\)\s*->\s*Self\s*\{\s*OptHeader\s*\{\s*inner:\s*\[([^\]]*)\]", opt, "OptHeader::default")
    vals = [num(x.strip()) for x in m.group(1).split(",") if x.strip()]
    defs.append(("opt_header_default", "list N", "[" + "; ".join(N(v) for v in vals) + "]"))

    # ---- AdditionalBuilder::opt: one push of OptBuilder::new(..)?.build(op) counted in ARCOUNT;
    #      does it put the header RCODE back when the push fails?
    ob_impl = fn_body(src, "opt", after="impl<Target: Composer> AdditionalBuilder<Target>")
    one(r"\.push\(\s*\|target\|\s*OptBuilder::new\(target\)\?\.build\(op\),\s*\|counts\|\s*counts\.inc_arcount\(\),?\s*\)", ob_impl, "AdditionalBuilder::opt push")
    restores = re.search(r"let\s+rcode\s*=\s*self\.header\(\)\.rcode\(\);.*if\s+res\.is_err\(\)\s*\{\s*self\.header_mut\(\)\.set_rcode\(rcode\);\s*\}\s*res\s*$", ob_impl, re.S) is not None
    defs.append(("opt_restores_rcode_on_err", "bool", B(restores)))
    osr = fn_body(src, "set_rcode", after="impl<'a, Target: Composer + ?Sized> OptBuilder<'a, Target>")
    one(r"Header::for_message_slice_mut\(self\.target\.as_mut\(\)\)\s*\.set_rcode\(rcode\.rcode\(\)\);\s*self\.opt_header_mut\(\)\.set_rcode\(rcode\)", osr, "OptBuilder::set_rcode")
    oh = strip_comments(read("src/base/opt/mod.rs"))
    one(r"pub fn set_udp_payload_size\(&mut self, value: u16\)\s*\{\s*self\.inner\[3\.\.5\]\.copy_from_slice\(&value\.to_be_bytes\(\)\)", oh, "OptHeader::set_udp_payload_size")
    one(r"pub fn set_rcode\(&mut self, rcode: OptRcode\)\s*\{\s*self\.inner\[5\]\s*=\s*rcode\.ext\(\)", oh, "OptHeader::set_rcode")
    one(r"pub fn set_version\(&mut self, version: u8\)\s*\{\s*self\.inner\[6\]\s*=\s*version", oh, "OptHeader::set_version")
    one(r"pub fn set_dnssec_ok\(&mut self, value: bool\)\s*\{\s*if value\s*\{\s*self\.inner\[7\]\s*\|=\s*0x80\s*\}\s*else\s*\{\s*self\.inner\[7\]\s*&=\s*0x7F", oh, "OptHeader::set_dnssec_ok")
    one(r"pub fn set_rcode\(&mut self, rcode: Rcode\)\s*\{\s*self\.inner\[3\]\s*=\s*self\.inner\[3\]\s*&\s*0xF0\s*\|\s*\(rcode\.to_int\(\)\s*&\s*0x0F\)", hs, "Header::set_rcode")
    rc = strip_comments(read("src/base/iana/rcode.rs"))
    one(r"pub fn to_parts\(self\)\s*->\s*\(Rcode, u8\)\s*\{\s*\(Rcode::masked_from_int\(self\.0 as u8\),\s*\(self\.0\s*>>\s*4\)\s*as\s*u8\)", rc, "OptRcode::to_parts")
    one(r"pub fn ext\(self\)\s*->\s*u8\s*\{\s*self\.to_parts\(\)\.1", rc, "OptRcode::ext")
    defs.append(("opt_header_setters_anchored", "bool", "true"))
    # Record::compose writes the TTL as it is (all 32 bits)
    recs = strip_comments(read("src/base/record.rs"))
    rcm = fn_body(recs, "compose", after="impl<N: ToName, D: RecordData + ComposeRecordData> Record<N, D>")
    one(r"target\.append_compressed_name\(&self\.owner\)\?;\s*self\.data\.rtype\(\)\.compose\(target\)\?;\s*self\.class\.compose\(target\)\?;\s*self\.ttl\.compose\(target\)\?;\s*self\.data\.compose_len_rdata\(target\)\s*$", rcm, "Record::compose field order")
    defs.append(("record_compose_fields_in_order", "bool", "true"))

    # ---- OptBuilder::clone_from: drop what build() wrote so far, compose the source record
    cf = fn_body(src, "clone_from", after="impl<'a, Target: Composer + ?Sized> OptBuilder<'a, Target>")
    one(r"^\s*self\.target\.truncate\(self\.start\);\s*source\.as_record\(\)\.compose\(self\.target\)\s*$", cf, "OptBuilder::clone_from")
    one(r"Ttl::from_secs\(\s*\(u32::from\(self\.ext_rcode\)\s*<<\s*24\)\s*\|\s*\(u32::from\(self\.version\)\s*<<\s*16\)\s*\|\s*u32::from\(self\.flags\),?\s*\)", opt, "OptRecord::as_record TTL packing")
    defs.append(("opt_clone_from_anchored", "bool", "true"))

    # ---- RecordSectionBuilder: the trait impl of every record section is that section's own push
    impls = re.findall(r"impl<[^>]*>\s*RecordSectionBuilder<Target>\s*for\s+(\w+)<Target>\s*(?:where[^{]*)?\{\s*fn push\(&mut self, record: impl ComposeRecord\)\s*->\s*Result<\(\), PushError>\s*\{\s*([^}]*?)\s*\}\s*\}", src)
    if sorted(x[0] for x in impls) != ["AdditionalBuilder", "AnswerBuilder", "AuthorityBuilder"]:
        raise GenError("RecordSectionBuilder impls changed: %r" % [x[0] for x in impls])
    for who, body in impls:
        if not re.fullmatch(r"Self::push\(self, record\)", body.strip()):
            raise GenError("RecordSectionBuilder for %s: push is no longer Self::push(self, record): %r" % (who, body))
    defs.append(("section_trait_push_is_own_push", "bool", "true"))

    # ---- HashCompressor: entry and query hash the same (label, tail) pair, the rehash closure
    #      re-reads the label from the message, Label::hash feeds length + lower-cased octets
    one(r"fn hash\(&self, message: &\[u8\], hasher: &DefaultHashBuilder\)\s*->\s*u64\s*\{\s*hasher\.hash_one\(\(self\.head\(message\), self\.tail\)\)\s*\}", src, "HashEntry::hash")
    one(r"fn eq\(&self, message: &\[u8\], query: \(&Label, u16\)\)\s*->\s*bool\s*\{\s*\(self\.head\(message\), self\.tail\)\s*==\s*query\s*\}", src, "HashEntry::eq")
    one(r"let query = \(label, position\);\s*let hash = self\.hasher\.hash_one\(query\);\s*let entry =\s*self\.names\.find\(hash, \|&name\| name\.eq\(message, query\)\);", src, "HashCompressor lookup")
    one(r"let hash = entry\.hash\(message, hasher\);\s*self\.names\.insert_unique\(hash, entry, \|&name\| \{\s*name\.hash\(message, hasher\)\s*\}\);", src, "HashCompressor insert")
    lb0 = strip_comments(read("src/base/name/label.rs"))
    one(r"impl hash::Hash for Label\s*\{\s*fn hash<H: hash::Hasher>\(&self, state: &mut H\)\s*\{\s*\(self\.len\(\) as u8\)\.hash\(state\);\s*for c in self\.iter\(\)\s*\{\s*c\.to_ascii_lowercase\(\)\.hash\(state\)\s*\}\s*\}", lb0, "Label::hash")
    defs.append(("hash_key_anchored", "bool", "true"))

    # ---- Label equality / hashing fold ASCII case (Static and Hash compressors), tree does not
    lb = strip_comments(read("src/base/name/label.rs"))
    one(r"impl<T: AsRef<\[u8\]> \+ \?Sized> PartialEq<T> for Label\s*\{\s*fn eq\(&self, other: &T\)\s*->\s*bool\s*\{\s*self\.as_slice\(\)\.eq_ignore_ascii_case\(other\.as_ref\(\)\)", lb, "Label::eq")
    defs.append(("label_eq_ignores_case", "bool", "true"))
    si = fn_body(lb, "next", after="impl<'a> Iterator for SliceLabelsIter<'a>")
    m = one(r"if\s+pos\s*(>=|>)\s*self\.segment\s*\{", si, "SliceLabelsIter pointer test")
    defs.append(("sli_ptr_ge_segment", "bool", B(m.group(1) == ">=")))
    return defs

if __name__ == "__main__":
    main("C02", "/repo/src/base/{message_builder,rdata,header,opt/mod,name/label}.rs", build)
