#!/usr/bin/env python3
"""T1 extractor for C16: constants and operators of the EDNS payload size
negotiation (middleware/edns.rs), of the truncation test (middleware/
mandatory.rs), of the builder push limit (base/message_builder.rs), of the
datagram server's configured limit (dgram.rs) and of the stream framing
(connection.rs DnsMessageReceiver::recv, message_builder.rs StreamTarget)."""
import re, sys, os
sys.path.insert(0, os.path.dirname(os.path.abspath(__file__)))
from rs import *

MIN = "MINIMUM_RESPONSE_BYTE_LEN"

def build():
    defs = []
    # ---- mandatory.rs
    man = strip_comments(read("src/net/server/middleware/mandatory.rs"))
    m = one(r"pub\s+const\s+MINIMUM_RESPONSE_BYTE_LEN\s*:\s*u16\s*=\s*(\d[\d_]*)\s*;", man, MIN)
    defs.append(("min_resp_len", "N", "%d%%N" % num(m.group(1))))
    tr = fn_body(man, "truncate", after="impl<RequestOctets, NextSvc, RequestMeta>")
    one(r"if\s+let\s+TransportSpecificContext::Udp\(ctx\)\s*=\s*request\.transport_ctx\(\)", tr, "truncate only on UDP")
    unwrap = r"ctx\s*\.max_response_size_hint\(\)\s*\.unwrap_or\(\s*%s\s*\)" % MIN
    plain = re.findall(r"let\s+max_response_size\s*=\s*" + unwrap + r"\s*;", tr)
    fixed = re.findall(r"let\s+max_response_size\s*=\s*if\s+request\.message\(\)\.opt\(\)\.is_some\(\)\s*\{\s*" + unwrap +
                       r"\s*\}\s*else\s*\{\s*%s\s*\}\s*;" % MIN, tr)
    if len(plain) + len(fixed) != 1:
        raise GenError("truncate: max_response_size is neither `hint.unwrap_or(512)` nor `if request has OPT { hint.unwrap_or(512) } else { 512 }`")
    defs.append(("trunc_default_is_min_resp_len", "bool", "true"))
    # false: every request is held to hint.unwrap_or(512); true: requests without OPT are held to 512
    defs.append(("trunc_no_opt_is_min", "bool", "true" if fixed else "false"))
    one(r"let\s+response_len\s*=\s*response\.as_slice\(\)\.len\(\)\s*;", tr, "truncate: response_len")
    m = one(r"if\s+response_len\s*(>=|>|<=|<|==|!=)\s*max_response_size\s*\{", tr, "truncate comparison")
    if m.group(1) not in (">", ">="):
        raise GenError("truncate comparison is %r" % m.group(1))
    defs.append(("trunc_cmp_is_gt", "bool", "true" if m.group(1) == ">" else "false"))
    one(r"response\.header_mut\(\)\.set_tc\(\s*true\s*\)\s*;", tr, "truncate sets TC")
    one(r"\*target\.header_mut\(\)\s*=\s*source\.header\(\)\s*;", tr, "truncate copies header")
    q_old = re.findall(r"for\s+rr\s+in\s+source\.question\(\)\s*\{\s*target\.push\(rr\?\)\?\s*;\s*\}", tr)
    q_new = re.findall(r"for\s+rr\s+in\s+source\.question\(\)\s*\{\s*match\s+target\.push\(rr\?\)\s*\{\s*Ok\(\(\)\)\s*=>\s*\{\s*\}\s*,?\s*"
                       r"Err\(PushError::LimitExceeded\)\s*=>\s*break\s*,\s*Err\(err\)\s*=>\s*return\s+Err\(err\.into\(\)\)\s*,?\s*\}\s*\}", tr)
    if len(q_old) + len(q_new) != 1:
        raise GenError("truncate: the question loop is neither `target.push(rr?)?` nor the limit-aware match with break on LimitExceeded")
    one(r"if\s+let\s+Some\(opt\)\s*=\s*source\.opt\(\)\s*\{\s*if\s+let\s+Err\(err\)\s*=\s*target\.push\(opt\.as_record\(\)\)", tr,
        "truncate copies the response's OPT")
    # the rebuilt message: no limit while the questions are pushed, then
    # set_push_limit(max_response_size + 1) around the OPT push (a push fails when
    # new_pos >= limit, so +1 admits exactly max_response_size octets), cleared afterwards
    lim = r"target\.set_push_limit\(\s*max_response_size\s*\+\s*1\s*\)\s*;\s*"
    if q_new:
        # limit set before the questions are pushed
        one(r"let\s+mut\s+target\s*=\s*target\.question\(\)\s*;\s*" + lim + r"for\s+rr\s+in\s+source\.question\(\)", tr,
            "truncate: set_push_limit(max_response_size + 1) right before the question loop")
        one(r"let\s+mut\s+target\s*=\s*target\.additional\(\)\s*;\s*if\s+let\s+Some\(opt\)\s*=\s*source\.opt\(\)", tr, "truncate: OPT push follows")
    else:
        one(r"let\s+mut\s+target\s*=\s*target\.additional\(\)\s*;\s*" + lim + r"if\s+let\s+Some\(opt\)\s*=\s*source\.opt\(\)", tr,
            "truncate: set_push_limit(max_response_size + 1) right before the OPT push")
    defs.append(("trunc_questions_limited", "bool", "true" if q_new else "false"))
    if len(re.findall(r"set_push_limit", tr)) != 1:
        raise GenError("truncate sets a push limit more than once")
    one(r"target\.clear_push_limit\(\)\s*;\s*let\s+new_len\s*=\s*target\.as_slice\(\)\.len\(\)", tr, "truncate clears the push limit after the OPT push")
    defs.append(("trunc_rebuild_has_push_limit", "bool", "true"))
    defs.append(("trunc_rebuild_limit_slack", "N", "1%N"))
    # fallback: OPT without options, version / rcode / payload size kept
    one(r"if\s+let\s+Err\(err\)\s*=\s*target\.opt\(\|builder\|\s*\{\s*builder\.set_version\(opt\.version\(\)\)\s*;\s*"
        r"builder\.set_rcode\(opt\.rcode\(response\.header\(\)\)\)\s*;\s*builder\s*\.set_udp_payload_size\(opt\.udp_payload_size\(\)\)\s*;\s*Ok\(\(\)\)\s*\}\)",
        tr, "truncate: fallback to an OPT without options")
    defs.append(("trunc_fallback_min_opt", "bool", "true"))
    pp = fn_body(man, "postprocess", after="impl<RequestOctets, NextSvc, RequestMeta>")
    one(r"\.set_id\(\s*request\.message\(\)\.header\(\)\.id\(\)\s*\)", pp, "postprocess copies the request id")
    one(r"response\.header_mut\(\)\.set_qr\(\s*true\s*\)", pp, "postprocess sets QR")
    one(r"\.set_rd\(\s*request\.message\(\)\.header\(\)\.rd\(\)\s*\)", pp, "postprocess copies RD")
    defs.append(("post_sets_id_qr_rd", "bool", "true"))
    # TC bit position: header.rs
    hd = strip_comments(read("src/base/header.rs"))
    m = one(r"pub\s+fn\s+set_tc\(&mut\s+self,\s*set:\s*bool\)\s*\{\s*self\.set_bit\(\s*(\d+)\s*,\s*(\d+)\s*,\s*set\s*\)", hd, "Header::set_tc")
    defs.append(("tc_octet", "N", "%d%%N" % num(m.group(1))))
    defs.append(("tc_bit", "N", "%d%%N" % num(m.group(2))))
    m = one(r"pub\s+struct\s+HeaderSection\s*\{\s*inner:\s*\[u8;\s*(\d+)\]", hd, "HeaderSection size")
    defs.append(("header_len", "N", "%d%%N" % num(m.group(1))))
    msg = strip_comments(read("src/base/message.rs"))
    cs = fn_body(msg, "check_slice")
    m = one(r"if\s+slice\.len\(\)\s*(<=|<)\s*mem::size_of::<HeaderSection>\(\)\s*\{\s*Err\(ShortMessage", cs, "Message::check_slice")
    defs.append(("short_msg_cmp_is_lt", "bool", "true" if m.group(1) == "<" else "false"))

    # ---- edns.rs
    ed = strip_comments(read("src/net/server/middleware/edns.rs"))
    one(r"use\s+super::mandatory::MINIMUM_RESPONSE_BYTE_LEN\s*;", ed, "edns.rs uses mandatory's constant")
    pre = fn_body(ed, "preprocess")
    m = one(r"let\s+clamped_requestors_udp_payload_size\s*=\s*u16::(max|min)\(\s*%s\s*,\s*requestors_udp_payload_size\s*,?\s*\)\s*;" % MIN,
            pre, "client clamp")
    defs.append(("neg_client_is_max", "bool", "true" if m.group(1) == "max" else "false"))
    one(r"let\s+requestors_udp_payload_size\s*=\s*opt_rec\.udp_payload_size\(\)\s*;", pre, "client value is the OPT class")
    m = one(r"let\s+clamped_server_hint\s*=\s*server_max_response_size_hint\.map\(\|v\|\s*\{\s*v\.clamp\(\s*(\w+)\s*,\s*(\w+)\s*,?\s*\)\s*\}\s*\)\s*;",
            pre, "hint clamp")
    names = {MIN: "lo", "clamped_requestors_udp_payload_size": "cc"}
    if m.group(1) not in names or m.group(2) not in names:
        raise GenError("hint clamp bounds are %s, %s" % (m.group(1), m.group(2)))
    defs.append(("neg_clamp_lo_is_min_resp_len", "bool", "true" if m.group(1) == MIN else "false"))
    defs.append(("neg_clamp_hi_is_client", "bool", "true" if m.group(2) == "clamped_requestors_udp_payload_size" else "false"))
    one(r"let\s+server_max_response_size_hint\s*=\s*ctx\.max_response_size_hint\(\)\s*;", pre, "hint read from ctx")
    m = one(r"let\s+negotiated_hint\s*=\s*match\s+clamped_server_hint\s*\{\s*Some\(clamped_server_hint\)\s*=>\s*u16::(min|max)\(\s*"
            r"clamped_requestors_udp_payload_size\s*,\s*clamped_server_hint\s*,?\s*\)\s*,\s*None\s*=>\s*(\w+)\s*,?\s*\}\s*;", pre, "combine")
    defs.append(("neg_combine_is_min", "bool", "true" if m.group(1) == "min" else "false"))
    if m.group(2) != "clamped_requestors_udp_payload_size":
        raise GenError("None arm of the negotiation is %s" % m.group(2))
    defs.append(("neg_none_is_client", "bool", "true"))
    one(r"ctx\.set_max_response_size_hint\(\s*Some\(negotiated_hint\)\s*\)\s*;", pre, "negotiated value stored in ctx")
    # the negotiation happens only inside `if let Some(opt) = iter.next()` on UDP
    one(r"if\s+let\s+Some\(opt\)\s*=\s*iter\.next\(\)\s*\{", pre, "negotiation only with an OPT record")
    defs.append(("neg_only_with_opt", "bool", "true"))
    m = one(r"const\s+EDNS_VERSION_ZERO\s*:\s*u8\s*=\s*(\d+)\s*;", ed, "EDNS_VERSION_ZERO")
    defs.append(("edns_version_max", "N", "%d%%N" % num(m.group(1))))
    one(r"if\s+opt_rec\.version\(\)\s*>\s*EDNS_VERSION_ZERO\s*\{", pre, "BADVERS check")

    # ---- message_builder.rs push limit
    mb = strip_comments(read("src/base/message_builder.rs"))
    pu = fn_body(mb, "push", after="impl<Target: Composer> MessageBuilder<Target>", nth=0)
    m = one(r"let\s+new_pos\s*=\s*self\.target\.as_ref\(\)\.len\(\)\s*;\s*if\s+new_pos\s*(>=|>)\s*self\.limit\s*\{\s*self\.target\.truncate\(pos\)\s*;\s*"
            r"return\s+Err\(PushError::LimitExceeded\)", pu, "MessageBuilder::push limit test")
    defs.append(("push_limit_cmp_is_ge", "bool", "true" if m.group(1) == ">=" else "false"))
    sl = fn_body(mb, "set_push_limit")
    one(r"^\s*self\.limit\s*=\s*limit\s*;\s*$", sl, "set_push_limit stores the limit")
    # StreamTarget shim
    us = fn_body(mb, "update_shim")
    m = one(r"u16::try_from\(\s*self\.target\.as_ref\(\)\.len\(\)\s*-\s*(\d+)\s*\)", us, "update_shim length")
    defs.append(("shim_len", "N", "%d%%N" % num(m.group(1))))
    m = one(r"self\.target\.as_mut\(\)\[\.\.(\d+)\]\.copy_from_slice\(\s*&len\.to_(be|le)_bytes\(\)\s*\)", us, "update_shim write")
    if num(m.group(1)) != 2:
        raise GenError("shim is %s octets" % m.group(1))
    defs.append(("shim_big_endian", "bool", "true" if m.group(2) == "be" else "false"))

    # ---- dgram.rs configured limit
    dg = strip_comments(read("src/net/server/dgram.rs"))
    m = one(r"const\s+MAX_RESPONSE_SIZE\s*:\s*DefMinMax<u16>\s*=\s*DefMinMax::new\(\s*(\d[\d_]*)\s*,\s*(\d[\d_]*)\s*,\s*(\d[\d_]*)\s*\)\s*;", dg,
            "dgram MAX_RESPONSE_SIZE")
    defs.append(("cfg_default", "N", "%d%%N" % num(m.group(1))))
    defs.append(("cfg_min", "N", "%d%%N" % num(m.group(2))))
    defs.append(("cfg_max", "N", "%d%%N" % num(m.group(3))))
    sm = fn_body(dg, "set_max_response_size")
    one(r"self\.max_response_size\s*=\s*value\.map\(\|v\|\s*MAX_RESPONSE_SIZE\.limit\(v\)\s*\)\s*;", sm, "Config::set_max_response_size limits")
    cf = strip_comments(read("src/utils/config.rs"))
    lm = fn_body(cf, "limit")
    one(r"^\s*cmp::max\(\s*self\.min\s*,\s*cmp::min\(\s*self\.max\s*,\s*value\s*\)\s*\)\s*$", lm, "DefMinMax::limit")
    defs.append(("cfg_limit_is_clamp", "bool", "true"))
    one(r"let\s+ctx\s*=\s*UdpTransportContext::new\(\s*self\.config\.load\(\)\.max_response_size\s*,?\s*\)\s*;", dg, "dgram passes the configured limit as hint")
    bf = strip_comments(read("src/net/server/buf.rs"))
    m = one(r"fn\s+create_buf\(&self\)\s*->\s*Self::Output\s*\{\s*vec!\[0;\s*(\d+)\]", bf, "VecBufSource::create_buf")
    defs.append(("dgram_buf_len", "N", "%d%%N" % num(m.group(1))))

    # ---- connection.rs read framing
    cn = strip_comments(read("src/net/server/connection.rs"))
    m = one(r"msg_size_buf:\s*\[u8;\s*(\d+)\]\s*,", cn, "msg_size_buf")
    defs.append(("frame_len_octets", "N", "%d%%N" % num(m.group(1))))
    rv = fn_body(cn, "recv", after="impl<Stream, Buf> DnsMessageReceiver<Stream, Buf>")
    m = one(r"let\s+msg_len\s*=\s*u16::from_(be|le)_bytes\(self\.msg_size_buf\)\s+as\s+usize\s*;\s*let\s+mut\s+msg_buf\s*=\s*self\.buf\.create_sized\(msg_len\)\s*;",
            rv, "recv length prefix")
    defs.append(("frame_big_endian", "bool", "true" if m.group(1) == "be" else "false"))
    # both parts of a frame are read to completion whatever the chunking: recv_n_bytes = read_exact in a retry loop
    one(r"self\.status\s*=\s*Status::WaitingForMessageHeader\s*;\s*Self::recv_n_bytes\(&mut\s+self\.stream_rx,\s*&mut\s+self\.msg_size_buf\)\s*\.await\?\s*;\s*let\s+msg_len",
        rv, "recv: the length prefix is read with recv_n_bytes")
    one(r"self\.status\s*=\s*Status::WaitingForMessageBody\s*;\s*Self::recv_n_bytes\(&mut\s+self\.stream_rx,\s*&mut\s+msg_buf\)\.await\?\s*;", rv,
        "recv: the body is read with recv_n_bytes")
    rn = fn_body(cn, "recv_n_bytes")
    one(r"^\s*loop\s*\{\s*match\s+stream_rx\.read_exact\(buf\.as_mut\(\)\)\.await\s*\{\s*Ok\(_size\)\s*=>\s*return\s+Ok\(\(\)\)\s*,\s*Err\(err\)\s*=>\s*match\s+Self::process_io_error\(err\)\s*\{\s*"
        r"ControlFlow::Continue\(_\)\s*=>\s*continue\s*,\s*ControlFlow::Break\(err\)\s*=>\s*return\s+Err\(err\)\s*,?\s*\}\s*,?\s*\}\s*\}\s*$", rn,
        "recv_n_bytes: read_exact, retried on recoverable errors")
    if re.search(r"\.read\(|read_buf|try_read|poll_read", rv + rn):
        raise GenError("DnsMessageReceiver reads with something other than read_exact")
    defs.append(("frame_prefix_read_exact", "bool", "true"))
    prr = fn_body(cn, "process_read_request")
    one(r"match\s+Message::from_octets\(buf\)\s*\{\s*Err\(err\)\s*=>\s*\{.*?return\s+Err\(ConnectionEvent::DisconnectWithoutFlush\)\s*;", prr,
        "short message on a stream disconnects")
    defs.append(("stream_short_msg_disconnects", "bool", "true"))
    one(r"Ok\(msg\)\s+if\s+msg\.header\(\)\.qr\(\)\s*=>", prr, "stream: QR=1 gets a direct FORMERR")
    dpm = fn_body(dg, "process_received_message")
    one(r"Ok\(msg\)\s+if\s+msg\.header\(\)\.qr\(\)\s*=>", dpm, "dgram: QR=1 gets a direct FORMERR")
    defs.append(("qr_request_gets_formerr", "bool", "true"))
    m = one(r"const\s+MAX_QUEUED_RESPONSES\s*:\s*DefMinMax<usize>\s*=\s*DefMinMax::new\(\s*(\d+)\s*,\s*(\d+)\s*,\s*(\d+)\s*\)\s*;", cn, "MAX_QUEUED_RESPONSES")
    defs.append(("max_queued_default", "N", "%d%%N" % num(m.group(1))))
    # ---- error responses
    ut = strip_comments(read("src/net/server/util.rs"))
    mk = fn_body(ut, "mk_error_response")
    e_old = re.findall(r"mk_builder_for_target\(\)\s*\.start_error\(msg,\s*rcode\.rcode\(\)\)\s*\.additional\(\)", mk)
    e_new = re.findall(r"if\s+let\s+Some\(Ok\(item\)\)\s*=\s*msg\.question\(\)\.next\(\)\s*\{\s*if\s+question\.push\(item\)\.is_err\(\)", mk)
    if len(e_old) + len(e_new) != 1 or (e_new and "start_error" in mk):
        raise GenError("mk_error_response: neither start_error(msg, rcode) nor the first-question-only form")
    defs.append(("err_resp_first_question_only", "bool", "true" if e_new else "false"))
    if e_new:
        for f in ("set_id\(msg\.header\(\)\.id\(\)\)", "set_qr\(true\)", "set_opcode\(msg\.header\(\)\.opcode\(\)\)",
                  "set_rd\(msg\.header\(\)\.rd\(\)\)", "set_rcode\(rcode\.rcode\(\)\)"):
            one(r"header\." + f, mk, "mk_error_response header field " + f)
    else:
        se = fn_body(mb, "start_error")
        for f in ("set_id\(msg\.header\(\)\.id\(\)\)", "set_qr\(true\)", "set_opcode\(msg\.header\(\)\.opcode\(\)\)",
                  "set_rd\(msg\.header\(\)\.rd\(\)\)", "set_rcode\(rcode\)"):
            one(r"header\." + f, se, "start_error header field " + f)
        one(r"for\s+item\s+in\s+msg\.question\(\)\.flatten\(\)", se, "start_error echoes the questions")
    one(r"add_edns_options\(&mut\s+additional,\s*\|opt\|\s*\{\s*opt\.set_rcode\(rcode\)\s*;\s*Ok\(\(\)\)\s*\}\)", mk, "mk_error_response always adds an OPT with the rcode")
    rc = strip_comments(read("src/base/iana/rcode.rs"))
    for nm in ("FORMERR", "SERVFAIL", "NOTIMP", "REFUSED"):
        m = one(r"impl\s+Rcode\s*\{.*?pub\s+const\s+%s\s*:\s*Self\s*=\s*Self\((\d+)\)\s*;" % nm, rc, "Rcode::" + nm)
        defs.append(("rc_" + nm.lower(), "N", "%d%%N" % num(m.group(1))))
    m = one(r"pub\s+const\s+BADVERS\s*:\s*Self\s*=\s*Self\((\d+)\)\s*;", rc, "OptRcode::BADVERS")
    defs.append(("rc_badvers", "N", "%d%%N" % num(m.group(1))))
    oh = strip_comments(read("src/base/opt/mod.rs"))
    m = one(r"pub\s+fn\s+set_rcode\(&mut\s+self,\s*rcode:\s*OptRcode\)\s*\{\s*self\.inner\[(\d+)\]\s*=\s*rcode\.ext\(\)", oh, "OptHeader::set_rcode")
    if num(m.group(1)) != 5:
        raise GenError("OptHeader ext rcode octet moved")
    oc = strip_comments(read("src/base/iana/opcode.rs"))
    m = one(r"\(QUERY\s*=>\s*(\d+)\s*,", oc, "Opcode::QUERY"); defs.append(("opcode_query", "N", "%d%%N" % num(m.group(1))))
    m = one(r"\(IQUERY\s*=>\s*(\d+)\s*,", oc, "Opcode::IQUERY"); defs.append(("opcode_iquery", "N", "%d%%N" % num(m.group(1))))
    mpre = fn_body(man, "preprocess", after="impl<RequestOctets, NextSvc, RequestMeta>")
    one(r"if\s+self\.strict\s*&&\s*msg\.header\(\)\.opcode\(\)\s*==\s*Opcode::IQUERY\s*\{.*?mk_error_response\(\s*msg,\s*OptRcode::NOTIMP,?\s*\)", mpre, "mandatory: IQUERY => NOTIMP")
    m = one(r"if\s+self\.strict\s*&&\s*msg\.header\(\)\.opcode\(\)\s*==\s*Opcode::QUERY\s*&&\s*msg\.header_counts\(\)\.qdcount\(\)\s*(>=|>)\s*(\d+)\s*\{.*?"
            r"mk_error_response\(\s*msg,\s*OptRcode::FORMERR,?\s*\)", mpre, "mandatory: QUERY with QDCOUNT > 1 => FORMERR")
    defs.append(("qdcount_max", "N", "%d%%N" % (num(m.group(2)) if m.group(1) == ">" else num(m.group(2)) - 1)))
    if not re.search(r"Opcode::IQUERY.*Opcode::QUERY", mpre, re.S):
        raise GenError("mandatory preprocess: order of the IQUERY and QDCOUNT checks changed")
    one(r"if\s+iter\.next\(\)\.is_some\(\)\s*\{.*?OptRcode::FORMERR", pre, "edns: more than one OPT => FORMERR")
    one(r"let\s+opt\s*=\s*match\s+opt\s*\{\s*Ok\(opt\)\s*=>\s*opt\s*,\s*Err\(err\)\s*=>\s*\{.*?OptRcode::FORMERR", pre, "edns: unparseable OPT => FORMERR")
    one(r"if\s+opt_rec\.version\(\)\s*>\s*EDNS_VERSION_ZERO\s*\{.*?OptRcode::BADVERS", pre, "edns: version > 0 => BADVERS")
    if not (pre.find("iter.next().is_some()") < pre.find("Err(err) =>") < pre.find("opt_rec.version() >") < pre.find("set_max_response_size_hint")):
        raise GenError("edns preprocess: order of the OPT checks / negotiation changed")
    # does the server parse the whole receive buffer or only the octets received?
    pad_fixed = re.findall(r"let\s+buf\s*=\s*if\s+buf\.as_ref\(\)\.len\(\)\s*==\s*bytes_read\s*\{\s*buf\s*\}\s*else\s*\{\s*let\s+mut\s+msg\s*=\s*self\.buf\.create_sized\(bytes_read\)\s*;\s*"
                           r"msg\.as_mut\(\)\[\.\.bytes_read\]\s*\.copy_from_slice\(&buf\.as_ref\(\)\[\.\.bytes_read\]\)\s*;\s*msg\s*\}\s*;\s*match\s+Message::from_octets\(buf\)", dpm)
    one(r"match\s+Message::from_octets\(buf\)\s*\{", dpm, "dgram: the buffer is parsed as the message")
    n_br = len(re.findall(r"\bbytes_read\b", dpm))
    if pad_fixed:
        if n_br != 5:
            raise GenError("dgram process_received_message: unexpected uses of bytes_read")
    elif n_br != 1:
        raise GenError("dgram process_received_message: bytes_read is used beyond the trace output, re-transcribe what is parsed")
    one(r"let\s+mut\s+msg\s*=\s*self\.buf\.create_buf\(\)\s*;\s*let\s+mut\s+buf\s*=\s*ReadBuf::new\(msg\.as_mut\(\)\)\s*;", fn_body(dg, "recv_from"), "dgram recv_from reads into create_buf()")
    defs.append(("dgram_parses_whole_buffer", "bool", "false" if pad_fixed else "true"))
    one(r"mk_error_response::<Buf::Output,\s*Svc::Target>\(\s*&msg,\s*OptRcode::FORMERR,?\s*\)", dpm, "dgram: QR=1 => FORMERR, sent without the middleware")
    sv = strip_comments(read("src/net/server/service.rs"))
    rcf = fn_body(sv, "rcode", after="impl ServiceError")
    for k, v in (("FormatError", "FORMERR"), ("InternalError", "SERVFAIL"), ("NotImplemented", "NOTIMP"), ("Refused", "REFUSED")):
        one(r"Self::%s\s*=>\s*Rcode::%s" % (k, v), rcf, "ServiceError::%s => %s" % (k, v))
    inv = strip_comments(read("src/net/server/invoker.rs"))
    one(r"Err\(err\)\s*=>\s*\{\s*self\.set_status\(InvokerStatus::Aborting\)\s*;\s*Some\(mk_error_response\(req_msg,\s*err\.rcode\(\)\.into\(\)\)\)", inv,
        "invoker: service error => mk_error_response, stream aborted")
    defs.append(("svc_error_bypasses_middleware", "bool", "true"))
    # ---- cookies.rs: the two answers made without the request (malformed COOKIE, denied address without cookie)
    ck = strip_comments(read("src/net/server/middleware/cookies.rs"))
    cpre = fn_body(ck, "preprocess")
    c_old = (len(re.findall(r"let\s+mut\s+builder\s*=\s*mk_builder_for_target\(\)\s*;\s*builder\.header_mut\(\)\.set_rcode\(Rcode::FORMERR\)\s*;\s*return\s+ControlFlow::Break\(builder\.additional\(\)\)", cpre)),
             len(re.findall(r"let\s+builder\s*=\s*mk_builder_for_target\(\)\s*;\s*let\s+mut\s+additional\s*=\s*builder\.additional\(\)\s*;\s*additional\.header_mut\(\)\.set_rcode\(Rcode::REFUSED\)\s*;\s*"
                            r"additional\.header_mut\(\)\.set_tc\(true\)\s*;\s*return\s+ControlFlow::Break\(additional\)", cpre)))
    c_new = (len(re.findall(r"return\s+ControlFlow::Break\(mk_error_response\(\s*request\.message\(\),\s*OptRcode::FORMERR,?\s*\)\)", cpre)),
             len(re.findall(r"let\s+mut\s+additional\s*=\s*mk_error_response\(\s*request\.message\(\),\s*OptRcode::REFUSED,?\s*\)\s*;\s*additional\.header_mut\(\)\.set_tc\(true\)\s*;\s*return\s+ControlFlow::Break\(additional\)", cpre)))
    if c_old == (1, 1) and c_new == (0, 0):
        defs.append(("cookie_reject_echoes_question", "bool", "false"))
    elif c_old == (0, 0) and c_new == (1, 1):
        defs.append(("cookie_reject_echoes_question", "bool", "true"))
    else:
        raise GenError("cookies preprocess: the FORMERR / REFUSED+TC answers are neither both built from an empty builder nor both from mk_error_response")
    one(r"if\s+request\.transport_ctx\(\)\.is_udp\(\)\s*&&\s*self\.ip_deny_list\.contains\(&request\.client_addr\(\)\.ip\(\)\)\s*\{\s*debug!\(\s*\"Rejecting cookie-less", cpre,
        "cookies: cookie-less UDP request from a denied address is refused")
    one(r"Some\(Err\(err\)\)\s*=>\s*\{\s*debug!\(\"Received malformed DNS cookie", cpre, "cookies: malformed COOKIE option")
    # ---- idle timeout and connection limit
    m = one(r"pub\s+fn\s+idle_timeout_expired\(&self,\s*timeout:\s*Duration\)\s*->\s*bool\s*\{\s*self\.idle_timeout_deadline\(timeout\)\s*(<=|<)\s*Instant::now\(\)\s*\}", cn, "IdleTimer::idle_timeout_expired")
    defs.append(("idle_expired_cmp_is_le", "bool", "true" if m.group(1) == "<=" else "false"))
    one(r"pub\s+fn\s+idle_timeout_deadline\(&self,\s*timeout:\s*Duration\)\s*->\s*Instant\s*\{\s*self\.idle_timer_reset_at\s*\.checked_add\(timeout\)", cn, "IdleTimer::idle_timeout_deadline = reset_at + timeout")
    one(r"fn\s+full_msg_received\(&mut\s+self\)\s*\{\s*self\.reset_idle_timer\(\)\s*\}", cn, "a full message resets the idle timer")
    one(r"fn\s+response_queue_emptied\(&mut\s+self\)\s*\{\s*self\.reset_idle_timer\(\)\s*\}", cn, "an emptied response queue resets the idle timer")
    if len(re.findall(r"reset_idle_timer\(\)", cn)) != 2 or len(re.findall(r"idle_timer\.full_msg_received\(\)", cn)) != 1 or len(re.findall(r"idle_timer\.response_queue_emptied\(\)", cn)) != 1:
        raise GenError("the idle timer is reset at other places than full_msg_received / response_queue_emptied")
    pit = fn_body(cn, "process_dns_idle_timeout")
    one(r"if\s+self\.idle_timer\.idle_timeout_expired\(timeout\)\s*&&\s*!self\.in_transaction\.load\(Ordering::SeqCst\)\s*\{.*?Err\(ConnectionEvent::DisconnectWithoutFlush\)", pit, "idle timeout disconnects")
    one(r"sleep_until\(self\.idle_timer\.idle_timeout_deadline\(self\.config\.load\(\)\.idle_timeout\)\)", cn, "the connection loop sleeps until the idle deadline")
    st = strip_comments(read("src/net/server/stream.rs"))
    acl = fn_body(st, "at_connection_limit")
    m = one(r"num_conn\s*(>=|>)\s*config\.max_concurrent_connections\(\)", acl, "StreamServer::at_connection_limit")
    defs.append(("conn_limit_cmp_is_ge", "bool", "true" if m.group(1) == ">=" else "false"))
    one(r"Ok\(\(stream,\s*addr\)\)\s+if\s+!self\.at_connection_limit\(\)\s*=>\s*\{\s*self\.spawn_connection_handler\(stream,\s*addr\)\s*;\s*\}\s*Ok\(_\)\s*=>\s*\{\s*warn!", st,
        "an accepted connection at the limit is dropped")
    one(r"accept_res\s*=\s*self\.accept\(\),\s*if\s+self\.accepting_connections\(\)", st, "accept only while accepting_connections()")
    # ---- the size hint is shared between the clones of a request: what Edns negotiates is what Mandatory truncates to
    ms = strip_comments(read("src/net/server/message.rs"))
    one(r"#\[derive\(Clone,\s*Debug,\s*Default\)\]\s*pub\s+struct\s+UdpTransportContext\s*\{\s*max_response_size_hint:\s*Arc<Mutex<Option<u16>>>\s*,?\s*\}", ms,
        "UdpTransportContext: derive(Clone) over Arc<Mutex<Option<u16>>>")
    if re.search(r"impl\s+Clone\s+for\s+UdpTransportContext", ms):
        raise GenError("UdpTransportContext has a hand-written Clone")
    one(r"pub\s+fn\s+set_max_response_size_hint\(\s*&self,\s*max_response_size_hint:\s*Option<u16>,?\s*\)\s*\{\s*\*self\.max_response_size_hint\.lock\(\)\.unwrap\(\)\s*=\s*max_response_size_hint\s*;\s*\}", ms,
        "set_max_response_size_hint writes through the shared cell")
    one(r"pub\s+fn\s+max_response_size_hint\(&self\)\s*->\s*Option<u16>\s*\{\s*\*self\.max_response_size_hint\.lock\(\)\.unwrap\(\)\s*\}", ms, "max_response_size_hint reads the shared cell")
    one(r"transport_specific:\s*self\.transport_specific\.clone\(\)\s*,", ms, "Request::clone clones the transport context")
    one(r"transport_specific:\s*self\.transport_specific\s*,", ms, "Request::with_new_metadata keeps the transport context")
    one(r"#\[derive\(Debug,\s*Clone\)\]\s*pub\s+enum\s+TransportSpecificContext", ms, "TransportSpecificContext derives Clone")
    mcall = fn_body(man, "call", after="impl<RequestOctets, NextSvc, RequestMeta> Service<RequestOctets, RequestMeta>")
    one(r"let\s+svc_call_fut\s*=\s*self\.next_svc\.call\(request\.clone\(\)\)\s*;\s*let\s+map\s*=\s*PostprocessingStream::new\(\s*svc_call_fut,\s*request,", mcall,
        "mandatory call: a clone goes to the inner service, the original to postprocess")
    defs.append(("hint_shared_between_clones", "bool", "true"))
    # ---- reconfigure: the limit is read from the live configuration for every datagram
    one(r"ServerCommand::Reconfigure\(new_config\)\s*=>\s*\{\s*self\.config\.store\(Arc::new\(new_config\.clone\(\)\)\)\s*;\s*\}", dg, "dgram: Reconfigure stores the new config")
    if len(re.findall(r"config\.load\(\)\.max_response_size", dg)) != 1 or "config.load().max_response_size" not in dpm:
        raise GenError("dgram: max_response_size is not (only) read per datagram in process_received_message")
    defs.append(("dgram_cfg_read_per_datagram", "bool", "true"))
    # ---- accept loop: an error reported by poll_accept() (or by the accepted stream's future)
    # belongs to one connection attempt and must not end run_until_error()
    rue = fn_body(st, "run_until_error")
    one(r"accept_res\s*=\s*self\.accept\(\),\s*if\s+self\.accepting_connections\(\)\s*=>\s*\{\s*match\s+accept_res\s*\{\s*"
        r"Ok\(\(stream,\s*addr\)\)\s+if\s+!self\.at_connection_limit\(\)\s*=>\s*\{\s*self\.spawn_connection_handler\(stream,\s*addr\)\s*;\s*\}\s*"
        r"Ok\(_\)\s*=>\s*\{\s*warn!\([^;]*\)\s*;\s*\}\s*"
        r"Err\(err\)\s*=>\s*\{\s*error!\([^;]*\)\s*;\s*\}\s*\}\s*\}", rue,
        "run_until_error: the accept arm logs an accept error and carries on (exactly three arms, no guard on Err)")
    if len(re.findall(r"\breturn\b", rue)) != 0 or len(re.findall(r"\?\s*;", rue)) != 1 or len(re.findall(r"\bbreak\b", rue)) != 0:
        raise GenError("run_until_error: an exit from the accept loop other than process_server_command(..)?")
    sch = fn_body(st, "spawn_connection_handler")
    one(r"tokio::spawn\(async\s+move\s*\{.*?if\s+let\s+Ok\(mut\s+stream\)\s*=\s*stream\.await\s*\{", sch, "a failing stream future only ends its own task")
    defs.append(("accept_error_stops_server", "bool", "false"))
    # the stream's own future (TLS handshake, ...) is awaited by the per-connection task, never by the accept loop
    acc = fn_body(st, "accept")
    one(r"^\s*poll_fn\(\|ctx\|\s*self\.listener\.poll_accept\(ctx\)\)\.await\s*$", acc, "StreamServer::accept only polls the listener")
    one(r"fn\s+spawn_connection_handler\(\s*&self,\s*stream:\s*Listener::Future,\s*addr:\s*SocketAddr,?\s*\)", st, "spawn_connection_handler takes the stream's future")
    if len(re.findall(r"\.await", rue)) != 0 and not re.fullmatch(r"(?s).*", rue):
        pass
    n_await = len(re.findall(r"stream\.await", st))
    if n_await != 1 or "stream.await" not in sch:
        raise GenError("the accepted stream's future is awaited outside spawn_connection_handler's task")
    defs.append(("setup_awaited_in_accept_loop", "bool", "false"))
    # full response queue: the same response is retried after yielding; no drop, no bounded wait
    enq = fn_body(cn, "do_enqueue_response")
    one(r"loop\s*\{\s*match\s+self\.result_q_tx\.try_send\(response\)\s*\{", enq, "do_enqueue_response: loop { match try_send(response)")
    one(r"Err\(TrySendError::Full\(unused_response\)\)\s*=>\s*\{\s*tokio::task::yield_now\(\)\.await\s*;\s*response\s*=\s*unused_response\s*;\s*\}",
        enq, "do_enqueue_response: a full queue retries the same response (yield, reassign, loop)")
    if re.search(r"send_timeout|timeout\s*\(|sleep|drop\s*\(", enq):
        raise GenError("do_enqueue_response now bounds or abandons the wait for a queue slot")
    if len(re.findall(r"\bbreak\b", enq)) != 2:
        raise GenError("do_enqueue_response: expected exactly two `break`s (queued, connection closed)")
    defs.append(("stream_full_queue_retries", "bool", "true"))
    return defs

if __name__ == "__main__":
    main("C16", "/repo/src/net/server/{middleware/edns.rs,middleware/mandatory.rs,dgram.rs,connection.rs,buf.rs}, base/{message_builder.rs,header.rs,message.rs}, utils/config.rs", build)
