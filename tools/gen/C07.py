#!/usr/bin/env python3
"""T1 extractor for C07 (zone-file reader): character classes of the
tokenizer (SourceBuf::next_item, next_ascii_symbol, Symbol::is_word_char,
Symbol::from_slice_index, into_octet/into_ascii/into_char), the limits of
convert_label / convert_charstr / scan_name, the initial reader state, the
presence of four guards (over-long UTF-8 rejected, checked digit addition,
require_token in convert_charstr, '@' in scan_name) and the Rtype / Class
mnemonic tables."""
import re, sys, os
sys.path.insert(0, os.path.dirname(os.path.abspath(__file__)))
from rs import *

ESC = {"n": 10, "t": 9, "r": 13, "\\": 92, "'": 39, '"': 34, "0": 0}

def ch(lit):
    """value of a Rust char / byte literal body (between the quotes)"""
    if lit.startswith("\\"):
        if lit[1] == "x":
            return int(lit[2:], 16)
        if lit[1] == "u":
            return int(lit.strip("\\u{}"), 16)
        if lit[1] in ESC:
            return ESC[lit[1]]
        raise GenError("unknown escape %r" % lit)
    if len(lit) != 1:
        raise GenError("bad char literal %r" % lit)
    return ord(lit)

CH = r"'((?:\\.[^']*|[^'\\]))'"
CHN = r"'(?:\\.[^']*|[^'\\])'"

def nlist(xs):
    return "[" + "; ".join("%d%%N" % x for x in xs) + "]"

def bstr(s):
    return nlist([ord(c) for c in s])

def build():
    defs = []
    scan = strip_comments(read("src/base/scan.rs"))
    inp = strip_comments(read("src/zonefile/inplace.rs"))

    # ---- Symbol::is_word_char: the characters that are NOT word characters
    b = fn_body(scan, "is_word_char", after="impl Symbol")
    m = one(r"match\s+self\s*\{\s*Symbol::Char\(ch\)\s*=>\s*\{(.*?)\}\s*_\s*=>\s*true\s*,?\s*\}", b, "is_word_char shape")
    conj = [x.strip() for x in m.group(1).split("&&")]
    excl = []
    for c in conj:
        mm = re.fullmatch(r"ch\s*!=\s*" + CH, c)
        if not mm:
            raise GenError("is_word_char: unexpected conjunct %r" % c)
        excl.append(ch(mm.group(1)))
    defs.append(("word_excluded", "list N", nlist(excl)))

    # ---- Symbol::from_slice_index
    b = fn_body(scan, "from_slice_index", after="impl Symbol")
    m = one(r"if\s+c1\s*==\s*b" + CH + r"\s*\{", b, "escape character")
    defs.append(("esc_char", "N", "%d%%N" % ch(m.group(1))))
    m = one(r"if\s+c1\s*<\s*(\d+)\s*\{\s*return\s+Ok\(Some\(\(Symbol::Char\(c1\.into\(\)\)", b, "ASCII bound")
    defs.append(("ascii_bound", "N", "%d%%N" % num(m.group(1))))
    one(r"if\s+c2\.is_ascii_control\(\)\s*\{[^}]*return\s+Err\(bad_escape\(\)\)", b, "control char after backslash")
    one(r"else\s+if\s+!c2\.is_ascii_digit\(\)\s*\{[^}]*Symbol::SimpleEscape\(c2\)", b, "simple escape")
    one(r"u32::from\(c2\s*-\s*b'0'\)\s*\*\s*100\)\s*\+\s*\(u32::from\(c3\s*-\s*b'0'\)\s*\*\s*10\)\s*\+\s*\(u32::from\(c4\s*-\s*b'0'\)\)", b, "decimal escape value")
    mins = re.findall(r"if\s+value\s*<\s*(0x[0-9A-Fa-f_]+|\d[\d_]*)\s*\{\s*return\s+Err\(bad_utf8\(\)\)", b)
    if len(mins) == 0:
        if len(re.findall(r"\.try_into\(\)\s*\.map_err\(\|_\|\s*bad_utf8\(\)\)", b)) != 3:
            raise GenError("from_slice_index: UTF-8 decoding no longer has three multi-octet cases")
        mins = ["0", "0", "0"]
    elif len(mins) != 3:
        raise GenError("from_slice_index: expected 0 or 3 minimum-value checks, found %d" % len(mins))
    for i, v in enumerate(mins):
        defs.append(("utf8_min%d" % (i + 2), "N", "%d%%N" % num(v)))

    # ---- into_octet / into_ascii / into_char ranges
    b = fn_body(scan, "into_octet", after="impl Symbol")
    m = one(r"ch\.is_ascii\(\)\s*&&\s*ch\s*>=\s*" + CH + r"\s*&&\s*ch\s*<=\s*" + CH, b, "into_octet range")
    defs.append(("octet_lo", "N", "%d%%N" % ch(m.group(1))))
    defs.append(("octet_hi", "N", "%d%%N" % ch(m.group(2))))
    one(r"Symbol::SimpleEscape\(ch\)\s*\|\s*Symbol::DecimalEscape\(ch\)\s*=>\s*Ok\(ch\)", b, "into_octet escapes")
    b = fn_body(scan, "into_ascii", after="impl Symbol")
    m = one(r"ch\.is_ascii\(\)\s*&&\s*ch\s*>=\s*" + CH + r"\s*&&\s*ch\s*<=\s*" + CH, b, "into_ascii char range")
    m2 = one(r"if\s+ch\s*>=\s*(0x[0-9A-Fa-f]+)\s*&&\s*ch\s*<=\s*(0x[0-9A-Fa-f]+)", b, "into_ascii escape range")
    defs.append(("ascii_lo", "N", "%d%%N" % ch(m.group(1))))
    defs.append(("ascii_hi", "N", "%d%%N" % ch(m.group(2))))
    defs.append(("ascii_esc_lo", "N", "%d%%N" % num(m2.group(1))))
    defs.append(("ascii_esc_hi", "N", "%d%%N" % num(m2.group(2))))
    b = fn_body(scan, "into_char", after="impl Symbol")
    m = one(r"Symbol::SimpleEscape\(ch\)\s+if\s+ch\s*>=\s*(0x[0-9A-Fa-f]+)\s*&&\s*ch\s*<\s*(0x[0-9A-Fa-f]+)", b, "into_char range")
    defs.append(("char_esc_lo", "N", "%d%%N" % num(m.group(1))))
    defs.append(("char_esc_hi_excl", "N", "%d%%N" % num(m.group(2))))

    # ---- integer scanning: digit addition checked or not
    mac = one(r"macro_rules!\s+impl_scan_unsigned\s*\{(.*?)\n\}\n", scan, "impl_scan_unsigned").group(1)
    one(r"res\s*=\s*res\.checked_mul\(10\)", mac, "impl_scan_unsigned checked_mul")
    if re.search(r"res\s*\+=", mac):
        chk = False
    elif re.search(r"res\s*=\s*res\s*\.checked_add\(", mac):
        chk = True
    else:
        raise GenError("impl_scan_unsigned: digit addition not recognised")
    defs.append(("int_add_checked", "bool", "true" if chk else "false"))
    tb = fn_body(scan, "scan", after="Scan<S> for Ttl")
    if re.search(r"res\s*\+=", tb):
        chk = False
    elif re.search(r"res\s*=\s*res\s*\.checked_add\(", tb):
        chk = True
    else:
        raise GenError("Ttl::scan: digit addition not recognised")
    defs.append(("ttl_add_checked", "bool", "true" if chk else "false"))

    # ---- SourceBuf::next_item
    b = fn_body(inp, "next_item", after="impl SourceBuf")
    one(r"assert!\(\s*matches!\(self\.cat,\s*ItemCat::None\s*\|\s*ItemCat::LineFeed\)", b, "next_item assertion")
    m = one(r"if\s+matches!\(ch,\s*((?:b" + CHN + r"\s*\|?\s*)+)\)\s*\{\s*self\.has_space\s*=\s*true;\s*self\.start\s*\+=\s*1;", b, "white space set")
    sp = [ch(x) for x in re.findall(r"b" + CH, m.group(1))]
    defs.append(("ni_space", "list N", nlist(sp)))
    chain = re.findall(r"else\s+if\s+ch\s*==\s*b" + CH, b)
    vals = [ch(x) for x in chain]
    # expected order: CR (dead), '(' , ')' , ';' , LF , '"'
    if len(vals) != 6:
        raise GenError("next_item: expected 6 `else if ch == b'..'` branches, found %d" % len(vals))
    for name, v in zip(["ni_cr_dead", "ni_open", "ni_close", "ni_comment", "ni_newline", "ni_quote"], vals):
        defs.append((name, "N", "%d%%N" % v))
    m = one(r"self\.buf\.get\(self\.start\)\.map\(\|ch\|\s*\*ch\s*!=\s*b" + CH + r"\)", b, "comment terminator")
    defs.append(("ni_comment_end", "N", "%d%%N" % ch(m.group(1))))
    one(r"if\s+self\.parens\s*>\s*0\s*\{\s*self\.parens\s*-=\s*1;\s*self\.start\s*\+=\s*1;\s*\}\s*else\s*\{\s*return\s+Err\(EntryError::unbalanced_parens\(\)\)", b, "closing paren")
    one(r"if\s+self\.parens\s*==\s*0\s*\{\s*self\.cat\s*=\s*ItemCat::LineFeed;\s*break;", b, "line feed at depth 0")

    # ---- next_ascii_symbol
    b = fn_body(inp, "next_ascii_symbol", after="impl SourceBuf")
    m = one(r"ItemCat::Unquoted\s*=>\s*\{\s*if\s+ch\s*<\s*(0x[0-9A-Fa-f]+)\s*\|\|\s*ch\s*>\s*(0x[0-9A-Fa-f]+)((?:\s*\|\|\s*ch\s*==\s*b" + CHN + r")*)\s*\{\s*return\s+Ok\(None\)", b, "next_ascii_symbol unquoted")
    defs.append(("asc_lo", "N", "%d%%N" % num(m.group(1))))
    defs.append(("asc_hi", "N", "%d%%N" % num(m.group(2))))
    defs.append(("asc_unq_excluded", "list N", nlist([ch(x) for x in re.findall(r"b" + CH, m.group(3))])))
    m = one(r"ItemCat::Quoted\s*=>\s*\{\s*if\s+ch\s*==\s*b" + CH + r"\s*\{\s*self\.start\s*\+=\s*1;\s*self\.cat\s*=\s*ItemCat::None;\s*return\s+Ok\(None\);\s*\}\s*else\s+if\s+ch\s*<\s*(0x[0-9A-Fa-f]+)\s*\|\|\s*ch\s*>\s*(0x[0-9A-Fa-f]+)((?:\s*\|\|\s*ch\s*==\s*b" + CHN + r")*)\s*\{", b, "next_ascii_symbol quoted")
    defs.append(("asc_q_end", "N", "%d%%N" % ch(m.group(1))))
    if num(m.group(2)) != num(defs[[d[0] for d in defs].index("asc_lo")][2].rstrip("%N")) or \
       num(m.group(3)) != num(defs[[d[0] for d in defs].index("asc_hi")][2].rstrip("%N")):
        raise GenError("next_ascii_symbol: quoted and unquoted bounds differ")
    defs.append(("asc_q_excluded", "list N", nlist([ch(x) for x in re.findall(r"b" + CH, m.group(4))])))

    # ---- convert_label / convert_charstr / scan_name
    b = fn_body(inp, "convert_label")
    m = one(r"let\s+latest\s*=\s*\*write\s*\+\s*(\d+)\s*;", b, "convert_label latest")
    defs.append(("label_latest", "nat", m.group(1)))
    ms = re.findall(r"if\s+\*write\s*(>=|>)\s*latest\s*\{\s*return\s+Err\(EntryError::bad_name\(\)\)", b)
    if len(ms) != 2 or ms[0] != ms[1]:
        raise GenError("convert_label: expected two identical `*write >= latest` checks")
    defs.append(("label_latest_ge", "bool", "true" if ms[0] == ">=" else "false"))
    b = fn_body(inp, "convert_charstr")
    m = one(r"let\s+latest\s*=\s*\*write\s*\+\s*(\d+)\s*;", b, "convert_charstr latest")
    defs.append(("charstr_latest", "nat", m.group(1)))
    ms = re.findall(r"if\s+\*write\s*(>=|>)\s*latest\s*\{\s*return\s+Err\(EntryError::bad_charstr\(\)\)", b)
    if len(ms) != 2 or ms[0] != ms[1]:
        raise GenError("convert_charstr: expected two identical `*write > latest` checks")
    defs.append(("charstr_latest_ge", "bool", "true" if ms[0] == ">=" else "false"))
    defs.append(("charstr_requires_token", "bool",
                 "true" if re.match(r"\s*self\.zonefile\.buf\.require_token\(\)\?;", b) else "false"))
    b = fn_body(inp, "scan_name", after="impl Scanner for EntryScanner")
    m = one(r"if\s+write\s*(>=|>)\s*(\d+)\s*\{\s*return\s+Err\(EntryError::bad_name\(\)\)", b, "scan_name length check")
    defs.append(("name_max", "nat", m.group(2)))
    defs.append(("name_max_ge", "bool", "true" if m.group(1) == ">=" else "false"))
    one(r"if\s+write\s*==\s*1\s*\{", b, "scan_name root check")
    one(r'assert!\(self\.zonefile\.buf\.start\s*>\s*0,\s*"missing token prefix space"\)', b, "scan_name prefix assertion")
    defs.append(("scan_name_handles_at", "bool", "true" if re.search(r"skip_at_token\(\)", b) else "false"))
    n_empty = len(re.findall(r"if\s+write\s*==\s*start\s*\+\s*1\s*\{\s*return\s+Err\(EntryError::bad_name\(\)\)", b))
    if n_empty > 1:
        raise GenError("scan_name: more than one empty-label check")
    defs.append(("name_rejects_empty_label", "bool", "true" if n_empty == 1 else "false"))

    # ---- scan_owner_record: class resolution. An explicit class is the record's class
    #      (checked against the known class only under require_valid), an omitted one is
    #      the known class, the first explicit class becomes the known class.
    b = fn_body(inp, "scan_owner_record")
    one(r"let\s+class\s*=\s*match\s*\(class,\s*self\.zonefile\.last_class\)\s*\{", b, "scan_owner_record class match")
    one(r"\(Some\(class\),\s*Some\(last_class\)\)\s*=>\s*\{\s*if\s+self\.zonefile\.require_valid\s*&&\s*class\s*!=\s*last_class\s*\{\s*"
        r"return\s+Err\(EntryError::different_class\(\s*last_class,\s*class,?\s*\)\);?\s*\}\s*class\s*\}", b,
        "scan_owner_record: explicit class with a known class yields the explicit class")
    one(r"\(None,\s*Some\(last_class\)\)\s*=>\s*last_class\s*,", b, "scan_owner_record: omitted class yields the known class")
    one(r"\(Some\(class\),\s*None\)\s*=>\s*\{\s*self\.zonefile\.last_class\s*=\s*Some\(class\);\s*class\s*\}", b,
        "scan_owner_record: first explicit class is kept and becomes the known class")
    one(r"\(None,\s*None\)\s*=>\s*return\s+Err\(EntryError::missing_last_class\(\)\)", b, "scan_owner_record: no class known")

    # ---- zonetree::parsed: the conversion stops at the reader's first error
    psrc = strip_comments(read("src/zonetree/parsed.rs"))
    pb = impl_body(psrc, r"impl\s+TryFrom<inplace::Zonefile>\s+for\s+Zonefile\s*\{")
    tb = fn_body(pb, "try_from")
    one(r"for\s+res\s+in\s+source\s*\{", tb, "parsed::Zonefile::try_from loop")
    m = one(r"Err\(err\)\s*=>\s*\{(.*?)\n\s{16}\}", tb, "parsed::Zonefile::try_from Err arm")
    defs.append(("parsed_stops_at_error", "bool",
                 "true" if re.search(r"return\s+Err\(errors\)\s*;", m.group(1)) else "false"))
    ib = impl_body(inp, r"impl\s+Iterator\s+for\s+Zonefile\s*\{")
    one(r"self\.next_entry\(\)\.transpose\(\)", ib, "Iterator for Zonefile")

    # ---- the constructors hand the octets over unchanged
    lb = fn_body(inp, "load", after="impl Zonefile")
    copies = bool(re.search(r"let\s+mut\s+buf\s*=\s*Self::new\(\)\.writer\(\);\s*std::io::copy\(read,\s*&mut\s+buf\)\?;\s*Ok\(buf\.into_inner\(\)\)", lb))
    defs.append(("load_copies_octets", "bool", "true" if copies else "false"))
    fb = impl_body(inp, r"impl<'a>\s+From<&'a\s+\[u8\]>\s+for\s+Zonefile\s*\{")
    one(r"let\s+mut\s+res\s*=\s*Self::with_capacity\(src\.len\(\)\s*\+\s*1\);\s*res\.extend_from_slice\(src\);\s*res", fb, "From<&[u8]> for Zonefile")
    sb2 = impl_body(inp, r"impl<'a>\s+From<&'a\s+str>\s+for\s+Zonefile\s*\{")
    one(r"Self::from\(src\.as_bytes\(\)\)", sb2, "From<&str> for Zonefile")

    # ---- scan_string: is the closing quote kept out of the result?
    b = fn_body(inp, "scan_string", after="impl Scanner for EntryScanner")
    if re.search(r"let\s+mut\s+write\s*=\s*self\.zonefile\.buf\.start\s*;", b):
        drops = False
    elif re.search(r"let\s+is_quoted\s*=\s*self\.zonefile\.buf\.cat\s*==\s*ItemCat::Quoted\s*;", b) and \
         re.search(r"let\s+mut\s+write\s*=\s*if\s+is_quoted\s*&&\s*self\.zonefile\.buf\.cat\s*==\s*ItemCat::None\s*\{\s*self\.zonefile\.buf\.start\s*-\s*1\s*\}\s*else\s*\{\s*self\.zonefile\.buf\.start\s*\}\s*;", b):
        drops = True
    else:
        raise GenError("scan_string: initial write position not recognised")
    defs.append(("string_drops_quote", "bool", "true" if drops else "false"))

    # ---- initial state
    b = fn_body(inp, "with_buf", after="impl Zonefile")
    m = one(r"last_ttl:\s*Ttl::from_secs\((\d+)\)", b, "default TTL")
    defs.append(("default_ttl", "N", "%d%%N" % num(m.group(1))))
    one(r"origin:\s*None,\s*last_owner:\s*None,", b, "initial origin / owner")
    one(r"dollar_ttl:\s*None,\s*last_class:\s*None,\s*require_valid:\s*true", b, "initial $TTL / class")
    b = fn_body(inp, "with_empty_buf", after="impl SourceBuf")
    one(r"buf\.put_u8\(0\);", b, "prefix octet")
    m = one(r"start:\s*(\d+),\s*cat:\s*ItemCat::None,\s*has_space:\s*false,\s*parens:\s*0,", b, "initial SourceBuf")
    defs.append(("init_start", "nat", m.group(1)))

    # ---- name chain limit
    chain = strip_comments(read("src/base/name/chain.rs"))
    b = fn_body(chain, "new", after="impl<L: ToLabelIter, R: ToLabelIter> Chain<L, R>")
    m = one(r">\s*(Name::MAX_LEN|\d+)", b, "Chain::new limit")
    if m.group(1) == "Name::MAX_LEN":
        nm = strip_comments(read("src/base/name/absolute.rs"))
        mm = one(r"pub\s+const\s+MAX_LEN:\s*usize\s*=\s*(\d+);", nm, "Name::MAX_LEN")
        lim = num(mm.group(1))
    else:
        lim = num(m.group(1))
    defs.append(("chain_max", "nat", str(lim)))

    # ---- mnemonic tables
    for fname, tname, cname in (("src/base/iana/rtype.rs", "rtype_table", "Rtype"), ("src/base/iana/class.rs", "class_table", "Class")):
        src = strip_comments(read(fname))
        rows = re.findall(r"\(\s*([A-Za-z0-9_]+)\s*=>\s*(0x[0-9A-Fa-f]+|\d+)\s*,\s*\"([^\"]+)\"\s*\)", src)
        if len(rows) < 3:
            raise GenError("%s: mnemonic table not found" % fname)
        val = "[" + "; ".join("(%s, %d%%N)" % (bstr(mn), num(v)) for (_, v, mn) in rows) + "]"
        defs.append((tname, "list (list N * N)", val))
        m = one(r"int_enum_str_with_prefix!\(\s*%s\s*,\s*\"([A-Z]+)\"" % cname, src, "%s prefix" % cname)
        defs.append((tname.replace("_table", "_prefix"), "list N", bstr(m.group(1))))

    # ---- per-type scan sequences (ZoneRecordData variants): the Scanner
    # methods each record type's `scan` calls, in order, as method codes
    #   1 scan_name  2 scan_octets  3 scan_charstr  4 scan_ascii_str
    #   5 u8  6 u16  7 u32 / Serial  8 Ttl  9 scan_charstr_entry
    #   10 convert_entry(base16)  11 convert_entry(base64)
    #   12 while scanner.continues() { Rtype::scan } (RtypeBitmap::scan)
    #   13 convert_token(Nsec3Salt converter)  14 convert_token(OwnerHash base32 converter)
    #   15 while scanner.continues() { scan_svcb_octets } (SvcParams::scan)
    # IPSECKEY has one row per arm of IpseckeyGateway::scan.
    # Types whose scan is not a straight line of these (loops, convert_token,
    # custom converters, SVCB) are listed in type_scans_unresolved.
    import glob
    files = {}
    for f in glob.glob(os.path.join(REPO, "src/rdata/**/*.rs"), recursive=True) + \
             glob.glob(os.path.join(REPO, "src/base/*.rs")) + glob.glob(os.path.join(REPO, "src/base/iana/*.rs")):
        files[f] = strip_comments(open(f).read())
    iana_macros = strip_comments(read("src/base/iana/macros.rs"))
    scan_impl_macros = []
    for mm in re.finditer(r"macro_rules!\s+(\w+)\s*\{", iana_macros):
        body = block_from(iana_macros, mm.end() - 1)
        if "scan_impl!(" in body and mm.group(1) != "scan_impl":
            scan_impl_macros.append(mm.group(1))
    sb = one(r"macro_rules!\s+scan_impl\s*\{", iana_macros, "scan_impl macro")
    if "scanner.scan_ascii_str(" not in block_from(iana_macros, sb.end() - 1):
        raise GenError("scan_impl! no longer uses scan_ascii_str")
    ascii_types = set()
    for txt in files.values():
        for mac in scan_impl_macros:
            for mm in re.finditer(mac + r"!\(\s*(\w+)\s*,", txt):
                ascii_types.add(mm.group(1))
    PRIM = {"u8": [5], "u16": [6], "u32": [7], "Serial": [7], "Ttl": [8]}
    TOK = re.compile(r"scanner\s*\.\s*(scan_name|scan_octets|scan_charstr_entry|scan_charstr|scan_ascii_str|scan_svcb_octets|scan_string|convert_token|convert_entry|continues|scan_symbols|scan_entry_symbols)\s*\(\s*(\w*)|\b([A-Z]\w*|u8|u16|u32|u64)::scan\(\s*scanner\s*\)")

    def find_scan_body(ty):
        for txt in files.values():
            for mm in re.finditer(r"\bimpl\b[^{;]*?\b" + ty + r"\b[^{;]*\{", txt):
                hdr = mm.group(0)
                if re.search(r"\bfor\s+(?!" + ty + r"\b)", hdr) and not re.search(r"Scan<\w+>\s+for\s+" + ty + r"\b", hdr):
                    continue
                blk = block_from(txt, mm.end() - 1)
                fm = re.search(r"\bfn\s+scan\s*(?:<[^{]*?>)?\s*\(\s*scanner\s*:", blk)
                if fm:
                    return fn_body(blk, "scan")
        return None

    def resolve(ty, depth=0):
        if ty in PRIM:
            return PRIM[ty]
        if ty == "Nsec3Salt":
            body = find_scan_body(ty)
            if body is None or not re.search(r"scanner\s*\.convert_token\(Converter::default\(\)\)", body) \
               or "base16::SymbolConverter" not in body or "illegal NSEC3 salt" not in body \
               or len(re.findall(r"\bscanner\s*\.\s*\w+\s*\(", body)) != 1:
                return None
            return [13]
        if ty == "OwnerHash":
            body = find_scan_body(ty)
            if body is None or not re.search(r"scanner\s*\.convert_token\(Converter\(base32::SymbolConverter::new\(\),\s*0\)\)", body) \
               or len(re.findall(r"\bscanner\s*\.\s*\w+\s*\(", body)) != 1:
                return None
            return [14]
        if ty == "RtypeBitmap":
            body = find_scan_body(ty)
            if body is None or not re.search(
                    r"while\s+scanner\.continues\(\)\s*\{\s*builder\s*\.add\(Rtype::scan\(scanner\)\?\)", body) \
               or "Rtype" not in ascii_types:
                return None
            if len(re.findall(r"\bscanner\s*\.\s*\w+\s*\(", body)) != 2 or len(re.findall(r"::scan\s*\(", body)) != 1:
                return None   # octets_builder(), continues() and the one Rtype::scan
            return [12]
        if ty in ascii_types:
            return [4]
        if depth > 4:
            return None
        body = find_scan_body(ty)
        if body is None:
            return None
        return seq_of(body, depth + 1)

    def seq_of(body, depth=0):
        if re.search(r"\b(while|for|loop)\b", body) or "impl<" in body:
            return None
        # every `X::scan(` and every `scanner.method(` must be one we classify
        n_calls = len(re.findall(r"::scan\s*\(", body)) + len(re.findall(r"\bscanner\s*\.\s*\w+\s*\(", body))
        if n_calls != len(TOK.findall(body)):
            return None
        out = []
        for mm in TOK.finditer(body):
            if mm.group(1):
                k = mm.group(1)
                if k == "scan_name": out.append(1)
                elif k == "scan_octets": out.append(2)
                elif k == "scan_charstr": out.append(3)
                elif k == "scan_charstr_entry": out.append(9)
                elif k == "scan_ascii_str": out.append(4)
                elif k == "convert_entry":
                    if mm.group(2) == "base16": out.append(10)
                    elif mm.group(2) == "base64": out.append(11)
                    else: return None
                else:
                    return None
            else:
                r = resolve(mm.group(3), depth)
                if r is None:
                    return None
                out.extend(r)
        return out

    rmod = strip_comments(read("src/rdata/mod.rs"))
    rt = block_from(rmod, one(r"rdata_types!\s*\{", rmod, "rdata_types!").end() - 1)
    variants = re.findall(r"\b([A-Z][A-Za-z0-9]*)\s*(?:<[^>]*>)?\s*,", re.sub(r"\b(zone|pseudo)\s*\{", "{", rt))
    mac = strip_comments(read("src/rdata/macros.rs"))
    nb = block_from(mac, one(r"macro_rules!\s+name_type_base\s*\{", mac, "name_type_base").end() - 1)
    if not re.search(r"scanner\.scan_name\(\)\.map\(Self::new\)", nb):
        raise GenError("name_type_base! scan no longer is scan_name")
    name_types = set()
    for txt in files.values():
        for mm in re.finditer(r"\bname_type(?:_well_known|_canonical)?!\s*\{\s*\(\s*(\w+)\s*,", txt):
            name_types.add(mm.group(1))
    rnum = {}
    rsrc = strip_comments(read("src/base/iana/rtype.rs"))
    for (_, v, mn) in re.findall(r"\(\s*([A-Za-z0-9_]+)\s*=>\s*(0x[0-9A-Fa-f]+|\d+)\s*,\s*\"([^\"]+)\"\s*\)", rsrc):
        rnum[mn.replace("-", "")] = num(v)
    def ipseckey_alts():
        """Ipseckey::scan: three u8, the gateway (one Scanner call per arm of
        IpseckeyGateway::scan's match on the gateway type), the Base 64 key."""
        body = find_scan_body("Ipseckey")
        if body is None:
            return None
        if not re.search(r"u8::scan\(scanner\)\?;.*?u8::scan\(scanner\)\?\.into\(\);.*?u8::scan\(scanner\)\?\.into\(\);\s*"
                         r"let\s+gateway\s*=\s*IpseckeyGateway::scan\(scanner,\s*gateway_type\)\?;\s*"
                         r"let\s+key\s*=\s*scanner\.convert_entry\(base64::SymbolConverter::new\(\)\)\?;", body, re.S):
            return None
        if len(re.findall(r"::scan\s*\(", body)) != 4 or len(re.findall(r"\bscanner\s*\.\s*\w+\s*\(", body)) != 1:
            return None
        gsrc = None
        for txt in files.values():
            mm = re.search(r"pub\s+fn\s+scan<S:\s*Scanner<Name\s*=\s*N>>\(\s*scanner:\s*&mut\s+S,\s*gateway_type:\s*IpseckeyGatewayType,", txt)
            if mm:
                gsrc = txt[mm.start():]
                gsrc = block_from(gsrc, gsrc.index("{", gsrc.index("Result<Self")))
        if gsrc is None:
            return None
        mm = re.search(r"Ok\(match\s+gateway_type\s*\{", gsrc)
        if not mm:
            return None
        arms_txt = block_from(gsrc, mm.end() - 1)
        arms = re.split(r"IpseckeyGatewayType::\w+\s*=>|\b_\s*=>", arms_txt)[1:]
        alts = []
        for arm in arms:
            toks = TOK.findall(arm)
            n_calls = len(re.findall(r"::scan\s*\(", arm)) + len(re.findall(r"\bscanner\s*\.\s*\w+\s*\(", arm))
            if n_calls == 0:
                if "return Err" not in arm:
                    return None
                continue
            if n_calls != 1 or len(toks) != 1:
                return None
            sq = seq_of(arm)
            if sq is None or len(sq) != 1:
                return None
            alts.append([5, 5, 5] + sq + [11])
        return alts if len(alts) == 4 else None

    def svcb_seq(variant):
        """SvcbRdata<Variant>::scan: u16, scan_name, SvcParams::scan (a loop of
        scan_svcb_octets while the entry continues)."""
        src = files.get(os.path.join(REPO, "src/rdata/svcb/rdata.rs"))
        psrc2 = files.get(os.path.join(REPO, "src/rdata/svcb/params.rs"))
        vsrc = files.get(os.path.join(REPO, "src/rdata/svcb/value.rs"))
        if src is None or psrc2 is None or vsrc is None:
            return None
        mm = re.search(r"impl<[^{]*?>\s*SvcbRdata<%s,\s*Octs,\s*Name>\s*\{\s*pub\s+fn\s+scan" % variant, src)
        if not mm:
            return None
        body = fn_body(src[mm.start():], "scan")
        if not re.search(r"let\s+priority\s*=\s*u16::scan\(scanner\)\?;\s*let\s+target\s*=\s*scanner\.scan_name\(\)\?;"
                         r".*?let\s+params\s*=\s*SvcParams::scan\(scanner\)\?;", body, re.S):
            return None
        if len(re.findall(r"::scan\s*\(", body)) != 2 or len(re.findall(r"\bscanner\s*\.\s*\w+\s*\(", body)) != 1:
            return None
        pm = re.search(r"impl<[^{]*>\s*SvcParams<Octs>\s*\{\s*pub\s+fn\s+scan", psrc2)
        if not pm:
            return None
        pbody = fn_body(psrc2[pm.start():], "scan")
        calls = re.findall(r"\bscanner\s*\.\s*(\w+)\s*\(", pbody)
        if sorted(calls) != ["continues", "octets_builder", "scan_svcb_octets"]:
            return None
        if not re.search(r"while\s+scanner\.continues\(\)\s*\{.*?let\s+octs\s*=\s*scanner\.scan_svcb_octets\(\)\?;", pbody, re.S):
            return None
        # the value parsers get the scanner only for an octets builder
        if [c for c in re.findall(r"\bscanner\s*\.\s*(\w+)\s*\(", vsrc) if c != "octets_builder"]:
            return None
        return [6, 1, 15]

    resolved, unresolved = [], []
    for v in variants:
        key = v.upper()
        if key not in rnum:
            continue  # pseudo types without zone-file mnemonic
        if v in name_types:
            seqs = [[1]]
        elif v == "Ipseckey":
            seqs = ipseckey_alts()
        elif v in ("Svcb", "Https"):
            sq = svcb_seq(v + "Variant")
            seqs = [sq] if sq is not None else None
        else:
            body = find_scan_body(v)
            sq = seq_of(body) if body is not None else None
            seqs = [sq] if sq is not None else None
        if seqs is None:
            unresolved.append(rnum[key])
        else:
            for sq in seqs:
                resolved.append((rnum[key], sq))
    if len(resolved) < 20:
        raise GenError("only %d record types resolved to scan sequences" % len(resolved))
    defs.append(("type_scans", "list (N * list N)",
                 "[" + "; ".join("(%d%%N, %s)" % (n, nlist(sq)) for n, sq in sorted(resolved)) + "]"))
    defs.append(("type_scans_unresolved", "list N", nlist(sorted(unresolved))))
    return defs

if __name__ == "__main__":
    main("C07", "/repo/src/zonefile/inplace.rs, base/scan.rs, base/iana/{rtype,class}.rs, base/name/chain.rs", build)
