#!/usr/bin/env python3
"""T1 extractor for C12: field orders of the octet strings that are signed /
verified (validator RrsigExt::signed_data, signer ProtoRrsig::compose_canonical
and Record::compose_canonical), the wildcard label constant and comparison,
the key-tag loop structure, the DS digest input order, IANA numbers used.

Tags used in the generated lists (decoded by coq/C12/Model.v):
  RRSIG RDATA fields   1 type_covered  2 algorithm  3 labels  4 original_ttl
                       5 expiration    6 inception  7 key_tag
                       8 signer_name canonical      9 signer_name NOT canonical
  RR fields            10 owner canonical   11 rtype   12 class
                       13 TTL taken from the RRSIG (original_ttl)
                       14 TTL of the record itself
                       15 RDATA length + canonical RDATA
                       16 RDATA length + non-canonical RDATA
  DNSKEY RDATA fields  21 flags  22 protocol  23 algorithm  24 public key
  DS digest input      30 owner canonical   31 DNSKEY canonical RDATA
  ProtoRrsig::new args 41 rrset.rtype 42 key.algorithm 43 owner.rrsig_label_count
                       44 rrset.ttl 45 expiration 46 inception 47 key tag 48 key owner
"""
import re, sys, os
sys.path.insert(0, os.path.dirname(os.path.abspath(__file__)))
from rs import *

SIG_FIELD = {"type_covered": 1, "algorithm": 2, "labels": 3, "original_ttl": 4,
             "expiration": 5, "inception": 6, "key_tag": 7}


def nlist(xs):
    return "[" + "; ".join("%d%%N" % x for x in xs) + "]"


def statements(body):
    return [s.strip() for s in body.split(";") if s.strip()]


def int_enum_value(src, name, what):
    m = one(r"\(\s*%s\s*=>\s*(\d+)\s*," % re.escape(name), src, what)
    return int(m.group(1))


def block_paren(src, start):
    assert src[start] == "("
    depth = 0
    for i in range(start, len(src)):
        if src[i] == "(":
            depth += 1
        elif src[i] == ")":
            depth -= 1
            if depth == 0:
                return src[start + 1:i]
    raise GenError("unbalanced parentheses")


def build():
    defs = []
    base = strip_comments(read("src/dnssec/validator/base.rs"))
    sd = fn_body(base, "signed_data", after="RrsigExt for Rrsig")

    # ---- validator: RRSIG RDATA prefix ----------------------------------
    head, sep, tail = sd.partition("records.sort_by")
    if not sep:
        raise GenError("signed_data: records.sort_by not found")
    order = []
    for st in statements(head):
        m = re.fullmatch(r"self\.(\w+)\(\)\.(compose|compose_canonical)\(buf\)\?", st)
        if not m:
            raise GenError("signed_data prefix: unrecognised statement %r" % st)
        f, how = m.group(1), m.group(2)
        if f == "signer_name":
            order.append(8 if how == "compose_canonical" else 9)
        elif f in SIG_FIELD and how == "compose":
            order.append(SIG_FIELD[f])
        else:
            raise GenError("signed_data prefix: unknown field %r" % st)
    defs.append(("sd_prefix_order", "list N", nlist(order)))

    # ---- validator: the sort --------------------------------------------
    one(r"^\(\s*\|a,\s*b\|\s*\{\s*a\.as_ref\(\)\.data\(\)\.canonical_cmp\(\s*b\.as_ref\(\)\.data\(\)\s*\)\s*\}\s*\)\s*;",
        tail, "signed_data sort comparator (ascending canonical_cmp on the record data)")
    defs.append(("sd_sorts_ascending_by_canonical_rdata", "bool", "true"))

    # ---- validator: each RR ----------------------------------------------
    loop = one(r"for\s+rr\s+in\s+records\.iter\(\)\.map\(\|r\|\s*r\.as_ref\(\)\)\s*\{", tail, "signed_data RR loop")
    lb = block_from(tail, loop.end() - 1)
    one(r"let\s+rrsig_labels\s*=\s*usize::from\(self\.labels\(\)\)\s*;", lb, "rrsig_labels source")
    one(r"let\s+fqdn\s*=\s*rr\.owner\(\)\s*;", lb, "fqdn source")
    m = one(r"let\s+fqdn_labels\s*=\s*fqdn\.iter_labels\(\)\.count\(\)\s*-\s*(\d+)\s*;", lb, "fqdn_labels")
    defs.append(("sd_root_labels_subtracted", "N", "%d%%N" % num(m.group(1))))
    m = one(r"if\s+rrsig_labels\s*(<=|<|>=|>|==|!=)\s*fqdn_labels\s*\{", lb, "wildcard test")
    if m.group(1) not in ("<", "<="):
        raise GenError("wildcard test uses operator %s" % m.group(1))
    defs.append(("sd_wildcard_test_is_lt", "bool", "true" if m.group(1) == "<" else "false"))
    ib = block_from(lb, m.end() - 1)
    m2 = one(r'buf\.append_slice\(\s*b"((?:\\x[0-9a-fA-F]{2}|[^"\\])*)"\s*\)\?\s*;', ib, "wildcard label literal")
    lit = m2.group(1)
    octs = []
    i = 0
    while i < len(lit):
        if lit.startswith("\\x", i):
            octs.append(int(lit[i + 2:i + 4], 16)); i += 4
        else:
            octs.append(ord(lit[i])); i += 1
    defs.append(("sd_wildcard_label", "list N", nlist(octs)))
    one(r"fqdn\s*\.to_cow\(\)\s*\.iter_suffixes\(\)\s*\.nth\(\s*fqdn_labels\s*-\s*rrsig_labels\s*\)", ib, "suffix index")
    defs.append(("sd_suffix_index_is_fqdn_minus_rrsig", "bool", "true"))
    one(r"Some\(name\)\s*=>\s*name\.compose_canonical\(buf\)\?\s*,\s*None\s*=>\s*fqdn\.compose_canonical\(buf\)\?", ib, "suffix arms")
    # else branch and the remaining fields
    rest = lb[m.end() - 1 + len(ib) + 2:]
    m3 = one(r"^\s*else\s*\{\s*fqdn\.compose_canonical\(buf\)\?\s*;\s*\}", rest, "non-wildcard owner branch")
    rr_order = [10]
    for st in statements(rest[m3.end():]):
        if st == "rr.rtype().compose(buf)?":
            rr_order.append(11)
        elif st == "rr.class().compose(buf)?":
            rr_order.append(12)
        elif st == "self.original_ttl().compose(buf)?":
            rr_order.append(13)
        elif st == "rr.ttl().compose(buf)?":
            rr_order.append(14)
        elif st == "rr.data().compose_canonical_len_rdata(buf)?":
            rr_order.append(15)
        elif st == "rr.data().compose_len_rdata(buf)?":
            rr_order.append(16)
        else:
            raise GenError("signed_data RR loop: unrecognised statement %r" % st)
    defs.append(("sd_rr_order", "list N", nlist(rr_order)))

    # ---- wildcard_closest_encloser uses the same test and index ----------
    wce = fn_body(base, "wildcard_closest_encloser", after="RrsigExt for Rrsig")
    m = one(r"if\s+rrsig_labels\s*(<=|<|>=|>|==|!=)\s*fqdn_labels\s*\{", wce, "wce wildcard test")
    defs.append(("wce_test_is_lt", "bool", "true" if m.group(1) == "<" else "false"))
    one(r"\.nth\(\s*fqdn_labels\s*-\s*rrsig_labels\s*\)", wce, "wce suffix index")
    m = one(r"let\s+fqdn_labels\s*=\s*fqdn\.iter_labels\(\)\.count\(\)\s*-\s*(\d+)\s*;", wce, "wce fqdn_labels")
    defs.append(("wce_root_labels_subtracted", "N", "%d%%N" % num(m.group(1))))

    # ---- verify_signed_data: algorithm must match -------------------------
    vs = fn_body(base, "verify_signed_data", after="RrsigExt for Rrsig")
    one(r"if\s+self\.algorithm\(\)\s*!=\s*dnskey\.algorithm\(\)\s*\{\s*return\s+Err\(AlgorithmError::InvalidData\)\s*;\s*\}", vs, "algorithm match")
    one(r"public_key\.verify\(\s*signed_data\s*,\s*signature\s*\)", vs, "verify argument order")
    defs.append(("verify_checks_algorithm_match", "bool", "true"))

    # ---- DS digest input ---------------------------------------------------
    dg = fn_body(base, "digest", after="DnskeyExt for Dnskey")
    m = one(r"with_infallible\(\|\|\s*\{(.*?)\}\s*\)", dg, "digest input")
    ds_order = []
    for st in statements(m.group(1)):
        if st == "name.compose_canonical(&mut buf)?":
            ds_order.append(30)
        elif st == "self.compose_canonical_rdata(&mut buf)":
            ds_order.append(31)
        else:
            raise GenError("digest input: unrecognised statement %r" % st)
    defs.append(("ds_input_order", "list N", nlist(ds_order)))
    dsrc = strip_comments(read("src/base/iana/digestalg.rs"))
    algs = []
    for nm, tag in (("SHA1", 1), ("SHA256", 2), ("SHA384", 3)):
        ty = {"SHA1": "Sha1", "SHA256": "Sha256", "SHA384": "Sha384"}[nm]
        one(r"DigestAlgorithm::%s\s*=>\s*DigestBuilder::new\(DigestType::%s\)" % (nm, ty), dg, "digest arm " + nm)
        algs.append((int_enum_value(dsrc, nm, "DigestAlgorithm::" + nm), tag))
    if len(re.findall(r"DigestAlgorithm::\w+\s*=>", dg)) != 3:
        raise GenError("digest: number of supported algorithms changed")
    defs.append(("ds_algorithms", "list (N * N)", "[" + "; ".join("(%d%%N, %d%%N)" % a for a in algs) + "]"))

    # ---- rdata/dnssec.rs ----------------------------------------------------
    dn = strip_comments(read("src/rdata/dnssec.rs"))
    # Dnskey::compose_rdata order; canonical form delegates to it
    crd = fn_body(dn, "compose_rdata", after="ComposeRecordData for Dnskey")
    korder = []
    for st in statements(crd):
        m = re.fullmatch(r"self\.(flags|protocol|algorithm)\.compose\(target\)\?", st)
        if m:
            korder.append({"flags": 21, "protocol": 22, "algorithm": 23}[m.group(1)])
        elif st == "target.append_slice(self.public_key.as_ref())":
            korder.append(24)
        else:
            raise GenError("Dnskey::compose_rdata: unrecognised statement %r" % st)
    defs.append(("dnskey_rdata_order", "list N", nlist(korder)))
    ccr = fn_body(dn, "compose_canonical_rdata", after="ComposeRecordData for Dnskey")
    one(r"^\s*self\.compose_rdata\(target\)\s*$", ccr, "Dnskey canonical rdata = rdata")

    # key tag
    kt = fn_body(dn, "key_tag", after="impl<Octs> Dnskey<Octs>")
    m = one(r"if\s+self\.algorithm\s*==\s*SecurityAlgorithm::(\w+)\s*\{", kt, "key_tag special algorithm")
    sa = strip_comments(read("src/base/iana/secalg.rs"))
    defs.append(("kt_special_algorithm", "N", "%d%%N" % int_enum_value(sa, m.group(1), "SecurityAlgorithm::" + m.group(1))))
    m = one(r"if\s+len\s*(>=|>)\s*(\d+)\s*\{\s*u16::from_be_bytes\(\s*self\.public_key\.as_ref\(\)\[\s*len\s*-\s*(\d+)\s*\.\.\s*len\s*-\s*(\d+)\s*\]", kt, "key_tag algorithm-1 slice")
    min_len = num(m.group(2)) + (1 if m.group(1) == ">" else 0)
    defs.append(("kt1_min_len", "N", "%d%%N" % min_len))
    defs.append(("kt1_from_end", "N", "%d%%N" % num(m.group(3))))
    defs.append(("kt1_to_end", "N", "%d%%N" % num(m.group(4))))
    one(r"\}\s*else\s*\{\s*0\s*\}\s*\}\s*else\s*\{", kt, "key_tag algorithm-1 short key gives 0")
    m = one(r"let\s+mut\s+res\s*=\s*u32::from\(self\.flags\)\s*;\s*res\s*\+=\s*u32::from\(self\.protocol\)\s*<<\s*(\d+)\s*;\s*res\s*\+=\s*u32::from\(self\.algorithm\.to_int\(\)\)\s*;", kt, "key_tag header accumulation")
    defs.append(("kt_protocol_shift", "N", "%d%%N" % num(m.group(1))))
    one(r"let\s+mut\s+iter\s*=\s*self\.public_key\(\)\.as_ref\(\)\.iter\(\)\s*;", kt, "key_tag iterates the public key")
    m = one(r"loop\s*\{\s*match\s+iter\.next\(\)\s*\{\s*Some\(&x\)\s*=>\s*res\s*\+=\s*u32::from\(x\)(\s*<<\s*(\d+))?\s*,\s*None\s*=>\s*break\s*,\s*\}"
            r"\s*match\s+iter\.next\(\)\s*\{\s*Some\(&x\)\s*=>\s*res\s*\+=\s*u32::from\(x\)(\s*<<\s*(\d+))?\s*,\s*None\s*=>\s*break\s*,\s*\}\s*\}", kt, "key_tag loop")
    defs.append(("kt_even_shift", "N", "%d%%N" % (num(m.group(2)) if m.group(1) else 0)))
    defs.append(("kt_odd_shift", "N", "%d%%N" % (num(m.group(4)) if m.group(3) else 0)))
    m = one(r"res\s*\+=\s*\(res\s*>>\s*(\d+)\)\s*&\s*(0x[0-9A-Fa-f_]+|\d+)\s*;\s*\(res\s*&\s*(0x[0-9A-Fa-f_]+|\d+)\)\s*as\s+u16", kt, "key_tag fold")
    defs.append(("kt_fold_shift", "N", "%d%%N" % num(m.group(1))))
    defs.append(("kt_fold_mask", "N", "%d%%N" % num(m.group(2))))
    defs.append(("kt_final_mask", "N", "%d%%N" % num(m.group(3))))

    # ProtoRrsig: head order and canonical signer
    ph = fn_body(dn, "compose_head", after="impl<Name: ToName> ProtoRrsig<Name>")
    porder = []
    for st in statements(ph):
        m = re.fullmatch(r"self\.(\w+)\.compose\(target\)\??", st)
        if not m or m.group(1) not in SIG_FIELD:
            raise GenError("ProtoRrsig::compose_head: unrecognised statement %r" % st)
        porder.append(SIG_FIELD[m.group(1)])
    pc = fn_body(dn, "compose_canonical", after="impl<Name: ToName> ProtoRrsig<Name>")
    m = one(r"^\s*self\.compose_head\(target\)\?\s*;\s*self\.signer_name\.(compose_canonical|compose)\(target\)\s*$", pc, "ProtoRrsig::compose_canonical")
    porder.append(8 if m.group(1) == "compose_canonical" else 9)
    defs.append(("proto_order", "list N", nlist(porder)))
    # ProtoRrsig::new parameter order and into_rrsig pass-through
    pn = one(r"pub\s+fn\s+new\(\s*type_covered:\s*Rtype,\s*algorithm:\s*SecurityAlgorithm,\s*labels:\s*u8,\s*original_ttl:\s*Ttl,\s*expiration:\s*Timestamp,\s*inception:\s*Timestamp,\s*key_tag:\s*u16,\s*signer_name:\s*Name,\s*\)\s*->\s*Self\s*\{\s*ProtoRrsig\s*\{\s*type_covered,\s*algorithm,\s*labels,\s*original_ttl,\s*expiration,\s*inception,\s*key_tag,\s*signer_name,\s*\}",
             dn, "ProtoRrsig::new parameter order")
    one(r"Rrsig::new\(\s*self\.type_covered,\s*self\.algorithm,\s*self\.labels,\s*self\.original_ttl,\s*self\.expiration,\s*self\.inception,\s*self\.key_tag,\s*self\.signer_name,\s*signature,\s*\)", dn, "ProtoRrsig::into_rrsig pass-through")
    one(r"Rrsig::new_unchecked\(\s*type_covered,\s*algorithm,\s*labels,\s*original_ttl,\s*expiration,\s*inception,\s*key_tag,\s*signer_name,\s*signature,\s*\)", dn, "Rrsig::new pass-through")

    # every conversion of an Rrsig (new, convert_octets, flatten, OctetsFrom, parse, scan) ends in a positional
    # call of new_unchecked / new: the seven fixed fields must be passed in declaration order
    order = ["type_covered", "algorithm", "labels", "original_ttl", "expiration", "inception", "key_tag"]
    calls = 0
    for m in re.finditer(r"Rrsig::(?:new_unchecked|new)\(", dn):
        args = block_paren(dn, m.end() - 1)
        names = re.findall(r"\b(?:self\.|source\.)?(type_covered|algorithm|labels|original_ttl|expiration|inception|key_tag)\b", args)
        if len(names) < 7:
            continue          # a test or an example with literal values
        if names[:7] != order:
            raise GenError("Rrsig constructor call passes its fields as %s" % ", ".join(names[:7]))
        calls += 1
    if calls < 5:
        raise GenError("expected at least 5 positional Rrsig constructor calls, found %d" % calls)
    defs.append(("rrsig_constructor_calls_in_field_order", "N", "%d%%N" % calls))

    # ---- the signer ----------------------------------------------------------
    sg = strip_comments(read("src/dnssec/sign/signatures/rrsigs.rs"))
    ss = fn_body(sg, "sign_sorted_rrset_in")
    rt = strip_comments(read("src/base/iana/rtype.rs"))
    m = one(r"if\s+rrset\.rtype\(\)\s*==\s*Rtype::(\w+)\s*\{\s*return\s+Err\(SigningError::RrsigRrsMustNotBeSigned\)", ss, "signer RRSIG refusal")
    defs.append(("signer_refused_rtype", "N", "%d%%N" % int_enum_value(rt, m.group(1), "Rtype::" + m.group(1))))
    m = one(r"if\s+(expiration|inception)\s*(<=|<|>=|>)\s*(expiration|inception)\s*\{\s*return\s+Err\(SigningError::InvalidSignatureValidityPeriod", ss, "signer validity period check")
    if (m.group(1), m.group(3)) == ("expiration", "inception") and m.group(2) == "<":
        defs.append(("signer_rejects_exp_lt_inc", "bool", "true"))
    elif (m.group(1), m.group(3)) == ("inception", "expiration") and m.group(2) == ">":
        defs.append(("signer_rejects_exp_lt_inc", "bool", "true"))
    else:
        defs.append(("signer_rejects_exp_lt_inc", "bool", "false"))
    m = one(r"ProtoRrsig::new\(\s*(.*?),\s*\)\s*;", ss, "ProtoRrsig::new call")
    args = [a.strip() for a in re.split(r",\s*(?![^()]*\))", m.group(1))]
    amap = {"rrset.rtype()": 41, "key.algorithm()": 42, "rrset.owner().rrsig_label_count()": 43,
            "rrset.ttl()": 44, "expiration": 45, "inception": 46, "key.dnskey().key_tag()": 47,
            "key.owner().clone().into()": 48}
    tags = []
    for a in args:
        a = " ".join(a.split())
        if a not in amap:
            raise GenError("ProtoRrsig::new call: unrecognised argument %r" % a)
        tags.append(amap[a])
    defs.append(("signer_proto_args", "list N", nlist(tags)))
    one(r"scratch\.clear\(\)\s*;\s*rrsig\.compose_canonical\(scratch\)\.unwrap\(\)\s*;\s*for\s+record\s+in\s+rrset\.iter\(\)\s*\{\s*record\.compose_canonical\(scratch\)\.unwrap\(\)\s*;\s*\}\s*let\s+signature\s*=\s*key\.raw_secret_key\(\)\.sign_raw\(&\*scratch\)\?\s*;",
        ss, "signer scratch composition: prefix then every record in the given order, then sign_raw(scratch)")
    defs.append(("signer_scratch_is_prefix_then_records", "bool", "true"))
    sr = fn_body(sg, "sign_rrset")
    one(r"records\s*\.sort_by\(\|a,\s*b\|\s*a\.as_ref\(\)\.data\(\)\.canonical_cmp\(\s*b\.as_ref\(\)\.data\(\)\s*\)\s*\)\s*;", sr, "sign_rrset sort comparator")
    defs.append(("sign_rrset_sorts_ascending_by_canonical_rdata", "bool", "true"))

    # Rrset constructors: non-empty, equal TTLs or panic, RRSIG exempt
    rs = strip_comments(read("src/dnssec/sign/records.rs"))
    ck = fn_body(rs, "check_ttls", after="impl<'a, N, D> Rrset<'a, N, D>")
    m = one(r"if\s+first\.rtype\(\)\s*==\s*Rtype::(\w+)\s*\{\s*return\s+Ok\(\(\)\)\s*;\s*\}", ck, "check_ttls exemption")
    defs.append(("rrset_ttl_exempt_rtype", "N", "%d%%N" % int_enum_value(rt, m.group(1), "Rtype::" + m.group(1))))
    one(r"let\s+first_ttl\s*=\s*first\.ttl\(\)\s*;\s*if\s+slice\.iter\(\)\.any\(\|r\|\s*r\.ttl\(\)\s*!=\s*first_ttl\)\s*\{\s*return\s+Err\(SigningError::MultipleTtlValues\)", ck, "check_ttls comparison")
    for ctor in ("new", "new_from_refs", "new_from_owned"):
        cb = fn_body(rs, ctor, after="impl<'a, N, D> Rrset<'a, N, D>")
        one(r"if\s+slice\.is_empty\(\)\s*\{\s*Err\(SigningError::EmptyRecordSlice\)", cb, "Rrset::%s empty check" % ctor)
        one(r"Rrset::check_ttls\(&slice\)\.expect\(", cb, "Rrset::%s TTL expect" % ctor)
    defs.append(("rrset_new_panics_on_mixed_ttl", "bool", "true"))

    # ---- public key parsing: rsa_exponent_modulus and key_size ---------------
    cc = strip_comments(read("src/crypto/common.rs"))
    rem = fn_body(cc, "rsa_exponent_modulus")
    m = one(r"\[exp_len\s*@\s*(\d+)\.\.=(\d+),\s*ref\s+rest\s*@\s*\.\.\]\s*=>\s*\(exp_len\s+as\s+usize,\s*rest\)", rem, "rsa one-octet exponent length")
    defs.append(("rsa_short_min", "N", "%d%%N" % num(m.group(1))))
    defs.append(("rsa_short_max", "N", "%d%%N" % num(m.group(2))))
    m = one(r"\[0,\s*hi\s*@\s*(\d+)\.\.=255,\s*lo,\s*ref\s+rest\s*@\s*\.\.\]\s*=>\s*\{\s*let\s+exp_len\s*=\s*u16::from_be_bytes\(\[hi,\s*lo\]\)", rem, "rsa three-octet exponent length")
    defs.append(("rsa_long_hi_min", "N", "%d%%N" % num(m.group(1))))
    one(r"_\s*=>\s*return\s+Err\(AlgorithmError::InvalidData\)", rem, "rsa other prefixes invalid")
    one(r"if\s+rest\.len\(\)\s*<\s*exp_len\s*\{\s*return\s+Err\(AlgorithmError::InvalidData\)", rem, "rsa exponent longer than the key")
    one(r"let\s+\(exp,\s*num\)\s*=\s*rest\.split_at\(exp_len\)", rem, "rsa split")
    m = one(r"if\s+!\((\d+)\.\.=(\d+)\)\.contains\(&i\.len\(\)\)\s*\|\|\s*i\[0\]\s*==\s*0\s*\{\s*return\s+Err\(AlgorithmError::InvalidData\)", rem, "rsa part limits")
    defs.append(("rsa_part_min_len", "N", "%d%%N" % num(m.group(1))))
    defs.append(("rsa_part_max_len", "N", "%d%%N" % num(m.group(2))))
    one(r"if\s+num\.len\(\)\s*<\s*min_len\s*\{\s*return\s+Err\(AlgorithmError::Unsupported\)", rem, "rsa modulus too short for the caller")
    ks = fn_body(base, "key_size", after="DnskeyExt for Dnskey")
    def alg_list(txt, what):
        names = re.findall(r"SecurityAlgorithm::(\w+)", txt)
        if not names:
            raise GenError("key_size: no algorithms in " + what)
        return [int_enum_value(sa, n, "SecurityAlgorithm::" + n) for n in names]
    m = one(r"match\s+self\.algorithm\(\)\s*\{(.*?)=>\s*\{\s*let\s+data\s*=\s*self\.public_key\(\)\.as_ref\(\)\s*;", ks, "key_size RSA arm")
    defs.append(("ks_rsa_algorithms", "list N", nlist(alg_list(m.group(1), "RSA arm"))))
    one(r"\[0,\s*hi,\s*lo,\s*\.\.\]\s*=>\s*\{?\s*\(usize::from\(u16::from_be_bytes\(\[hi,\s*lo\]\)\),\s*3\)", ks, "key_size three-octet exponent length")
    one(r"\[\]\s*\|\s*\[0,\s*\.\.\]\s*=>\s*return\s+Err\(AlgorithmError::InvalidData\)", ks, "key_size short key")
    one(r"\[len,\s*\.\.\]\s*=>\s*\(usize::from\(len\),\s*1\)", ks, "key_size one-octet exponent length")
    one(r"let\s+n\s*=\s*data\s*\.get\(off\s*\+\s*exp_len\.\.\)\s*\.ok_or\(AlgorithmError::InvalidData\)\?\s*;\s*let\s+first\s*=\s*n\.first\(\)\.ok_or\(AlgorithmError::InvalidData\)\?\s*;\s*Ok\(n\.len\(\)\s*\*\s*8\s*-\s*first\.leading_zeros\(\)\s+as\s+usize\)", ks, "key_size modulus access is checked")
    m = one(r"\}\s*((?:SecurityAlgorithm::\w+\s*\|?\s*)+)=>\s*\{\s*Ok\(self\.public_key\(\)\.as_ref\(\)\.len\(\)\s*/\s*2\s*\*\s*8\)", ks, "key_size ECDSA arm")
    defs.append(("ks_ecdsa_algorithms", "list N", nlist(alg_list(m.group(1), "ECDSA arm"))))
    m = one(r"\}\s*((?:SecurityAlgorithm::\w+\s*\|?\s*)+)=>\s*\{\s*Ok\(self\.public_key\(\)\.as_ref\(\)\.len\(\)\s*\*\s*8\)", ks, "key_size EdDSA arm")
    defs.append(("ks_eddsa_algorithms", "list N", nlist(alg_list(m.group(1), "EdDSA arm"))))
    one(r"_\s*=>\s*Err\(AlgorithmError::Unsupported\)", ks, "key_size other algorithms")

    # ---- zone signing: which RRsets get an RRSIG ---------------------------------
    zs = fn_body(sg, "sign_sorted_zone_records")
    one(r"records\.skip_before\(apex_owner\)\s*;\s*for\s+owner_rrs\s+in\s+records\s*\{", zs, "zone: skip_before then iterate owner groups")
    m = one(r"if\s+!owner_rrs\.is_in_zone\(apex_owner\)\s*\{\s*(break|continue)\s*;\s*\}", zs, "zone: out-of-zone owner")
    defs.append(("zs_out_of_zone_stops", "bool", "true" if m.group(1) == "break" else "false"))
    one(r"if\s+let\s+Some\(ref\s+cut\)\s*=\s*cut\s*\{\s*if\s+owner_rrs\.owner\(\)\.ends_with\(cut\)\s*\{\s*continue\s*;\s*\}\s*\}", zs, "zone: below a cut is skipped")
    one(r"let\s+name\s*=\s*owner_rrs\.owner\(\)\.clone\(\)\s*;\s*cut\s*=\s*if\s+owner_rrs\.is_zone_cut\(apex_owner\)\s*\{\s*Some\(name\.clone\(\)\)\s*\}\s*else\s*\{\s*None\s*\}\s*;", zs, "zone: cut bookkeeping")
    m = one(r"for\s+rrset\s+in\s+owner_rrs\.rrsets\(\)\s*\{\s*if\s+cut\.is_some\(\)\s*\{\s*if\s+rrset\.rtype\(\)\s*!=\s*Rtype::(\w+)\s*&&\s*rrset\.rtype\(\)\s*!=\s*Rtype::(\w+)\s*\{\s*continue\s*;\s*\}\s*\}", zs, "zone: types signed at a cut")
    defs.append(("zs_cut_type_a", "N", "%d%%N" % int_enum_value(rt, m.group(1), "Rtype::" + m.group(1))))
    defs.append(("zs_cut_type_b", "N", "%d%%N" % int_enum_value(rt, m.group(2), "Rtype::" + m.group(2))))
    m = one(r"else\s+if\s+\(((?:\s*rrset\.rtype\(\)\s*==\s*Rtype::\w+\s*\|?\|?)+)\)\s*&&\s*name\.canonical_cmp\(apex_owner\)\s*==\s*Ordering::Equal\s*\{\s*continue\s*;\s*\}", zs, "zone: apex key material skipped")
    defs.append(("zs_apex_skipped_types", "list N", nlist([int_enum_value(rt, n, "Rtype::" + n) for n in re.findall(r"Rtype::(\w+)", m.group(1))])))
    m = one(r"else\s*\{\s*if\s+rrset\.rtype\(\)\s*==\s*Rtype::(\w+)\s*\{\s*continue\s*;\s*\}\s*\}\s*for\s+key\s+in\s+keys\s*\{", zs, "zone: RRSIGs never signed, then one signature per key")
    defs.append(("zs_never_signed_type", "N", "%d%%N" % int_enum_value(rt, m.group(1), "Rtype::" + m.group(1))))
    izc = fn_body(rs, "is_zone_cut", after="impl<'a, N, D> OwnerRrs<'a, N, D>")
    m = one(r"^\s*self\.owner\(\)\.ne\(apex\)\s*&&\s*self\.records\(\)\.any\(\|record\|\s*record\.rtype\(\)\s*==\s*Rtype::(\w+)\)\s*$", izc, "is_zone_cut")
    defs.append(("zs_cut_marker_type", "N", "%d%%N" % int_enum_value(rt, m.group(1), "Rtype::" + m.group(1))))
    one(r"^\s*self\.owner\(\)\.ends_with\(&apex\)\s*$", fn_body(rs, "is_in_zone", after="impl<'a, N, D> OwnerRrs<'a, N, D>"), "is_in_zone")
    one(r"if\s+apex\s*==\s*first\s*\|\|\s*first\.ends_with\(apex\)\s*\{\s*break\s*;\s*\}", fn_body(rs, "skip_before", after="impl<'a, N, D> RecordsIter<'a, N, D>"), "skip_before")
    one(r"if\s+!record\.owner\(\)\.name_eq\(first\.owner\(\)\)\s*\{\s*break\s*;\s*\}", fn_body(rs, "next", after="Iterator for RecordsIter<'a, N, D>"), "RecordsIter::next groups by owner")
    one(r"if\s+record\.rtype\(\)\s*!=\s*first\.rtype\(\)\s*\{\s*break\s*;\s*\}", fn_body(rs, "next", after="Iterator for OwnerRrsIter<'a, N, D>"), "OwnerRrsIter::next groups by type")
    ew = fn_body(strip_comments(read("src/base/name/traits.rs")), "ends_with")
    one(r"\(Some\(sl\),\s*Some\(bl\)\)\s*=>\s*\{\s*if\s+sl\s*!=\s*bl\s*\{\s*return\s+false\s*;\s*\}\s*\}\s*\(_,\s*None\)\s*=>\s*return\s+true\s*,\s*\(None,\s*Some\(_\)\)\s*=>\s*return\s+false", ew, "ends_with")

    # Record::compose_canonical
    rc = strip_comments(read("src/base/record.rs"))
    rb = fn_body(rc, "compose_canonical", after="impl<N: ToName, D: RecordData + ComposeRecordData> Record<N, D>")
    rorder = []
    rmap = {"self.owner.compose_canonical(target)?": 10, "self.data.rtype().compose(target)?": 11,
            "self.class.compose(target)?": 12, "self.ttl.compose(target)?": 14,
            "self.data.compose_canonical_len_rdata(target)": 15, "self.data.compose_len_rdata(target)": 16}
    for st in statements(rb):
        if st not in rmap:
            raise GenError("Record::compose_canonical: unrecognised statement %r" % st)
        rorder.append(rmap[st])
    defs.append(("record_canonical_order", "list N", nlist(rorder)))

    # Label::compose_canonical lower-cases, Label::is_wildcard, rrsig_label_count
    lb_src = strip_comments(read("src/base/name/label.rs"))
    lc = fn_body(lb_src, "compose_canonical", after="impl Label")
    one(r"target\.append_slice\(&\[self\.len\(\)\s+as\s+u8\]\)\?\s*;\s*for\s+ch\s+in\s+self\.into_iter\(\)\s*\{\s*target\.append_slice\(&\[ch\.to_ascii_lowercase\(\)\]\)\?\s*;\s*\}", lc, "Label::compose_canonical")
    defs.append(("label_canonical_lowercases", "bool", "true"))
    iw = fn_body(lb_src, "is_wildcard", after="impl Label")
    m = one(r"^\s*self\.0\.len\(\)\s*==\s*(\d+)\s*&&\s*self\.0\[0\]\s*==\s*b'(.)'\s*$", iw, "Label::is_wildcard")
    defs.append(("wildcard_label_len", "N", "%d%%N" % num(m.group(1))))
    defs.append(("wildcard_label_octet", "N", "%d%%N" % ord(m.group(2))))
    tr = strip_comments(read("src/base/name/traits.rs"))
    lcb = fn_body(tr, "rrsig_label_count")
    m = one(r"let\s+mut\s+labels\s*=\s*self\.iter_labels\(\)\s*;\s*if\s+labels\.next\(\)\.unwrap\(\)\.is_wildcard\(\)\s*\{\s*\(labels\.count\(\)\s*-\s*(\d+)\)\s*as\s+u8\s*\}\s*else\s*\{\s*labels\.count\(\)\s*as\s+u8\s*\}", lcb, "rrsig_label_count")
    defs.append(("label_count_wildcard_minus", "N", "%d%%N" % num(m.group(1))))
    nc = fn_body(tr, "compose_canonical", after="pub trait ToName")
    one(r"^\s*for\s+label\s+in\s+self\.iter_labels\(\)\s*\{\s*label\.compose_canonical\(target\)\?\s*;\s*\}\s*Ok\(\(\)\)\s*$", nc, "ToName::compose_canonical")
    return defs


if __name__ == "__main__":
    main("C12", "/repo/src/dnssec/validator/base.rs, dnssec/sign/signatures/rrsigs.rs, rdata/dnssec.rs, base/record.rs, base/name/{label,traits}.rs, base/iana/*", build)
