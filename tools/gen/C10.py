#!/usr/bin/env python3
"""T1 extractor for C10: the conditions of XfrResponseInterpreter::check_response
(as a list of tags in source order), the qdcount rule for the first / later
messages (operator and constant), the Rtype dispatch arms of Inner::new, the
constants of RecordProcessor::{new,process_record} (initial mode, the record
numbers of the start and fallback arms, which mode emits which update) and the
single-SOA condition of XfrZoneUpdateIterator::next, the arms of
ZoneUpdater::apply (which updates commit)."""
import re, sys, os
sys.path.insert(0, os.path.dirname(os.path.abspath(__file__)))
from rs import *

# tags of the header conditions (Model.v check_cond)
COND = [
    (r"resp\.is_error\(\)", 1),
    (r"!\s*resp_header\.qr\(\)", 2),
    (r"resp_header\.opcode\(\)\s*!=\s*Opcode::QUERY", 3),
    (r"resp_header\.tc\(\)", 4),
    (r"resp_counts\.ancount\(\)\s*==\s*0", 5),
    (r"resp_counts\.nscount\(\)\s*!=\s*0", 6),
]
OPS = {"!=": 0, ">": 1, "<": 2, "==": 3, ">=": 4, "<=": 5}

def iana(path, name):
    src = strip_comments(read(path))
    m = one(r"\(\s*%s\s*=>\s*(\d+)\s*," % name, src, "%s in %s" % (name, path))
    return int(m.group(1))

def build():
    defs = []
    src = strip_comments(read("src/net/xfr/protocol/interpreter.rs"))
    cr = fn_body(src, "check_response", after="impl XfrResponseInterpreter")
    m = one(r"if\s+(.*?)\{\s*return\s+Err\(\s*Error::NotValidXfrResponse\s*\)\s*;\s*\}\s*let\s+qdcount", cr, "check_response first if")
    parts = [p.strip() for p in m.group(1).split("||")]
    tags = []
    for p in parts:
        for pat, tag in COND:
            if re.fullmatch(pat, p):
                tags.append(tag); break
        else:
            raise GenError("check_response: unrecognised condition %r" % p)
    defs.append(("check_tags", "list N", "[" + "; ".join("%d%%N" % t for t in tags) + "]"))
    one(r"let\s+first_message\s*=\s*self\.inner\.is_none\(\)\s*;", cr, "first_message definition")
    m = one(r"if\s*\(\s*first_message\s*&&\s*qdcount\s*(!=|==|>=|<=|>|<)\s*(\d+)\s*\)\s*\|\|\s*\(\s*!\s*first_message\s*&&\s*qdcount\s*(!=|==|>=|<=|>|<)\s*(\d+)\s*\)\s*\{\s*return\s+Err\(\s*Error::NotValidXfrResponse\s*\)", cr, "qdcount rule")
    defs.append(("qd_first_op", "N", "%d%%N" % OPS[m.group(1)]))
    defs.append(("qd_first_const", "N", "%d%%N" % int(m.group(2))))
    defs.append(("qd_later_op", "N", "%d%%N" % OPS[m.group(3)]))
    defs.append(("qd_later_const", "N", "%d%%N" % int(m.group(4))))
    # order inside interpret_response: finished test, check_response, initialize
    ir = fn_body(src, "interpret_response", after="impl XfrResponseInterpreter")
    one(r"^\s*if\s+self\.is_finished\(\)\s*\{\s*return\s+Err\(Error::Finished\);\s*\}\s*self\.check_response\(&resp\)\?;\s*if\s+let\s+Some\(inner\)\s*=\s*&mut\s+self\.inner\s*\{\s*inner\.resp\s*=\s*resp;\s*\}\s*else\s*\{\s*self\.initialize\(resp\)\?;\s*\}", ir, "interpret_response order")
    defs.append(("interp_order_finished_check_init", "bool", "true"))
    # Inner::new dispatch
    inn = fn_body(src, "new", after="impl Inner")
    m = one(r"let\s+xfr_type\s*=\s*match\s+resp\.qtype\(\)\s*\{\s*Some\(Rtype::(\w+)\)\s*=>\s*XfrType::(\w+)\s*,\s*Some\(Rtype::(\w+)\)\s*=>\s*XfrType::(\w+)\s*,\s*_\s*=>\s*return\s+Err\(Error::(\w+)\)\s*,\s*\}", inn, "Inner::new qtype dispatch")
    arms = {m.group(2): m.group(1), m.group(4): m.group(3)}
    if set(arms) != {"Axfr", "Ixfr"}:
        raise GenError("Inner::new: dispatch arms are %r" % arms)
    defs.append(("qtype_axfr", "N", "%d%%N" % iana("src/base/iana/rtype.rs", arms["Axfr"])))
    defs.append(("qtype_ixfr", "N", "%d%%N" % iana("src/base/iana/rtype.rs", arms["Ixfr"])))
    defs.append(("wrong_qtype_is_not_valid", "bool", "true" if m.group(5) == "NotValidXfrResponse" else "false"))
    one(r"let\s+Some\(Ok\(record\)\)\s*=\s*records\.next\(\)\s*else\s*\{\s*return\s+Err\(Error::Malformed\);\s*\}", inn, "Inner::new first record")
    one(r"let\s+ZoneRecordData::Soa\(soa\)\s*=\s*record\.into_data\(\)\s*else\s*\{\s*return\s+Err\(Error::NotValidXfrResponse\);\s*\}", inn, "Inner::new first record must be SOA")
    defs.append(("opcode_query", "N", "%d%%N" % iana("src/base/iana/opcode.rs", "QUERY")))
    rc = strip_comments(read("src/base/iana/rcode.rs"))
    m = one(r"pub\s+const\s+NOERROR\s*:\s*Self\s*=\s*Self\((\d+)\)\s*;", rc, "Rcode::NOERROR")
    defs.append(("rcode_noerror", "N", "%d%%N" % int(m.group(1))))
    msg = strip_comments(read("src/base/message.rs"))
    ie = fn_body(msg, "is_error")
    one(r"^\s*self\.header\(\)\.rcode\(\)\s*!=\s*Rcode::NOERROR\s*$", ie, "Message::is_error")
    # RecordProcessor::new
    rp = fn_body(src, "new", after="impl RecordProcessor")
    m = one(r"let\s+ixfr_update_mode\s*=\s*IxfrUpdateMode::(\w+)\s*;", rp, "initial ixfr mode")
    defs.append(("initial_mode_adding", "bool", "true" if m.group(1) == "Adding" else "false"))
    one(r"rr_count\s*:\s*0\s*,", rp, "initial rr_count")
    one(r"axfr_delete_already_returned\s*:\s*false\s*,", rp, "initial axfr_delete_already_returned")
    one(r"finished\s*:\s*false\s*,", rp, "initial finished")
    # width of the per-transfer record counter
    rps = impl_body(src, r"pub\(super\)\s+struct\s+RecordProcessor")
    m = one(r"rr_count\s*:\s*(usize|u64|u32|u16|u8|u128)\s*,", rps, "RecordProcessor.rr_count type")
    # usize is as wide as the target's pointers: read from the compiler, not assumed
    import subprocess
    try:
        cfg = subprocess.run(["rustc", "--print", "cfg"], stdout=subprocess.PIPE, stderr=subprocess.STDOUT, timeout=60).stdout.decode()
    except Exception as e:
        raise GenError("rustc --print cfg failed: %s" % e)
    mw = re.search(r'target_pointer_width="(\d+)"', cfg)
    if not mw:
        raise GenError("rustc --print cfg does not report target_pointer_width")
    ptr = int(mw.group(1))
    defs.append(("target_pointer_width", "N", "%d%%N" % ptr))
    bits = {"usize": ptr, "u64": 64, "u128": 128, "u32": 32, "u16": 16, "u8": 8}[m.group(1)]
    defs.append(("rr_count_is_usize", "bool", "true" if m.group(1) == "usize" else "false"))
    defs.append(("rr_count_bits", "N", "%d%%N" % bits))
    acc = fn_body(src, "rr_count", after="impl RecordProcessor")
    one(r"^\s*self\.rr_count\s*$", acc, "rr_count accessor returns the counter unconverted")
    # process_record
    pr = fn_body(src, "process_record", after="impl RecordProcessor")
    one(r"^\s*if\s+self\.finished\s*\{\s*return\s+Err\(IterationError::AlreadyFinished\);\s*\}\s*self\.rr_count\s*\+=\s*1\s*;", pr, "process_record prologue")
    one(r"let\s+record_matches_initial_soa\s*=\s*soa\s*==\s*Some\(&self\.initial_soa\)\s*;", pr, "record_matches_initial_soa")
    m = one(r"XfrType::Axfr\s*\|\s*XfrType::Ixfr\s+if\s+self\.rr_count\s*==\s*(\d+)\s*=>\s*\{\s*if\s+soa\.is_none\(\)\s*\{\s*return\s+Err\(IterationError::MissingInitialSoa\);\s*\}\s*else\s*\{\s*return\s+Ok\(None\);", pr, "start arm")
    defs.append(("start_count", "N", "%d%%N" % int(m.group(1))))
    one(r"XfrType::Axfr\s+if\s+record_matches_initial_soa\s*=>\s*\{\s*ZoneUpdate::Finished\(rec\)\s*\}\s*XfrType::Axfr\s*=>\s*ZoneUpdate::AddRecord\(rec\)\s*,", pr, "AXFR arms")
    m = one(r"XfrType::Ixfr\s+if\s+self\.rr_count\s*==\s*(\d+)\s*&&\s*rec\.rtype\(\)\s*!=\s*Rtype::SOA\s*=>\s*\{\s*self\.actual_xfr_type\s*=\s*XfrType::Axfr;\s*ZoneUpdate::AddRecord\(rec\)\s*\}", pr, "fallback arm")
    defs.append(("fallback_count", "N", "%d%%N" % int(m.group(1))))
    m = one(r"self\.ixfr_update_mode\.toggle\(\);\s*self\.current_soa\s*=\s*soa\.clone\(\);\s*match\s+self\.ixfr_update_mode\s*\{\s*IxfrUpdateMode::(\w+)\s*=>\s*\{\s*if\s+record_matches_initial_soa\s*\{\s*ZoneUpdate::(\w+)\(rec\)\s*\}\s*else\s*\{\s*ZoneUpdate::(\w+)\(rec\)\s*\}\s*\}\s*IxfrUpdateMode::(\w+)\s*=>\s*\{\s*ZoneUpdate::(\w+)\(rec\)\s*\}", pr, "IXFR SOA arm")
    if (m.group(1), m.group(2), m.group(3), m.group(4), m.group(5)) != ("Deleting", "Finished", "BeginBatchDelete", "Adding", "BeginBatchAdd"):
        raise GenError("IXFR SOA arm changed: %r" % (m.groups(),))
    defs.append(("ixfr_soa_arm_ok", "bool", "true"))
    m = one(r"match\s+self\.ixfr_update_mode\s*\{\s*IxfrUpdateMode::Deleting\s*=>\s*\{\s*ZoneUpdate::(\w+)\(rec\)\s*\}\s*IxfrUpdateMode::Adding\s*=>\s*ZoneUpdate::(\w+)\(rec\)\s*,", pr, "IXFR record arm")
    if (m.group(1), m.group(2)) != ("DeleteRecord", "AddRecord"):
        raise GenError("IXFR record arm changed: %r" % (m.groups(),))
    defs.append(("ixfr_rec_arm_ok", "bool", "true"))
    one(r"if\s+matches!\(update,\s*ZoneUpdate::Finished\(_\)\)\s*\{\s*self\.finished\s*=\s*true;\s*\}", pr, "finished flag")
    one(r"if\s+self\.actual_xfr_type\s*==\s*XfrType::Axfr\s*&&\s*!self\.axfr_delete_already_returned\s*\{\s*self\.axfr_delete_already_returned\s*=\s*true;\s*\(ZoneUpdate::DeleteAllRecords,\s*Some\(update\)\)\s*\}\s*else\s*\{\s*\(update,\s*None\)\s*\}", pr, "one-shot DeleteAllRecords")
    defs.append(("delete_all_once_ok", "bool", "true"))
    ty = strip_comments(read("src/net/xfr/protocol/types.rs"))
    tg = fn_body(ty, "toggle", after="impl IxfrUpdateMode")
    one(r"IxfrUpdateMode::Deleting\s*=>\s*\*self\s*=\s*IxfrUpdateMode::Adding\s*,\s*IxfrUpdateMode::Adding\s*=>\s*\*self\s*=\s*IxfrUpdateMode::Deleting\s*,", tg, "toggle")
    # iterator: single SOA signal
    it = strip_comments(read("src/net/xfr/protocol/iterator.rs"))
    nx = fn_body(it, "next", after="impl Iterator for XfrZoneUpdateIterator")
    m = one(r"if\s+!self\.processor\.is_finished\(\)\s*&&\s*self\.processor\.actual_xfr_type\(\)\s*==\s*XfrType::(\w+)\s*&&\s*self\.processor\.rr_count\(\)\s*==\s*(\d+)\s*\{\s*self\.processor\.finish\(\);\s*return\s+Some\(Err\(\s*IterationError::SingleSoaIxfrTcpRetrySignal,?\s*\)\);", nx, "single SOA signal")
    if m.group(1) != "Ixfr":
        raise GenError("single SOA signal no longer for IXFR")
    defs.append(("single_soa_count", "N", "%d%%N" % int(m.group(2))))
    # ZoneUpdater::apply: which arms commit
    up = strip_comments(read("src/zonetree/update.rs"))
    ap = fn_body(up, "apply", after="impl<N> ZoneUpdater<N>")
    one(r"if\s+self\.state\s*==\s*ZoneUpdaterState::Finished\s*\{\s*return\s+Err\(Error::Finished\);\s*\}", ap, "apply: finished guard")
    commits = []
    for arm in ("DeleteAllRecords", "DeleteRecord", "AddRecord", "BeginBatchDelete", "BeginBatchAdd", "Finished"):
        mm = one(r"ZoneUpdate::%s(?:\(\w+\))?\s*=>\s*(\{.*?\}|[^,{]*)(?=\s*,?\s*(?://|ZoneUpdate::|\}\s*Ok\(None\)))" % arm, ap, "apply arm %s" % arm)
        commits.append((arm, "self.write.commit()" in mm.group(1), "self.update_soa(" in mm.group(1), "self.write.reopen()" in mm.group(1)))
    want = [("DeleteAllRecords", False, False, False), ("DeleteRecord", False, False, False), ("AddRecord", False, False, False),
            ("BeginBatchDelete", True, False, True), ("BeginBatchAdd", False, True, False), ("Finished", True, True, False)]
    if commits != want:
        raise GenError("ZoneUpdater::apply arms changed: %r" % (commits,))
    bd = one(r"ZoneUpdate::BeginBatchDelete\((\w+)\)\s*=>\s*\{(.*?)return\s+Ok\(diff\);", ap, "BeginBatchDelete arm")
    if re.search(r"self\.check_soa_serial\(&%s\)\.await\?;" % re.escape(bd.group(1)), bd.group(2)):
        if not re.search(r"self\.check_soa_serial\(&\w+\)\.await\?;.*self\.write\.commit\(\)", bd.group(2), re.S):
            raise GenError("BeginBatchDelete: the SOA check no longer precedes the commit")
        cs = fn_body(up, "check_soa_serial", after="impl<N> ZoneUpdater<N>")
        one(r"let\s+zone_soa\s*=\s*self\.write\.root\(\)\.get_rrset\(Rtype::SOA\)\.await\?;", cs, "check_soa_serial reads the working SOA")
        one(r"if\s+zone_serial\s*!=\s*Some\(soa\.serial\(\)\)\s*\{\s*return\s+Err\(Error::SoaMismatch\);\s*\}", cs, "check_soa_serial comparison")
        defs.append(("updater_checks_batch_soa", "bool", "true"))
    else:
        if "check_soa_serial" in up or not bd.group(1).startswith("_"):
            raise GenError("BeginBatchDelete: SOA argument is used in an unrecognised way")
        defs.append(("updater_checks_batch_soa", "bool", "false"))
    defs.append(("commit_arms", "list N", "[4%N; 6%N]"))
    defs.append(("update_soa_arms", "list N", "[5%N; 6%N]"))
    # zonetree/in_memory/write.rs: rollback arming and the version the diff is taken against
    wr = strip_comments(read("src/zonetree/in_memory/write.rs"))
    op = fn_body(wr, "open", after="impl WritableZone for WriteZone")
    one(r"if\s+let\s+Ok\(write_node\)\s*=\s*&new_apex\s*\{\s*\*self\.diff\.lock\(\)\.unwrap\(\)\s*=\s*write_node\.diff\(\);\s*self\.dirty\.store\(true,\s*Ordering::SeqCst\);\s*\}", op, "WriteZone::open arms dirty")
    dr = fn_body(wr, "drop", after="impl Drop for WriteZone")
    one(r"^\s*if\s+self\.dirty\.swap\(false,\s*Ordering::SeqCst\)\s*\{\s*self\.apex\.rollback\(self\.new_version\);\s*\}\s*$", dr, "WriteZone::drop rolls back when dirty")
    pv = fn_body(wr, "publish_new_zone_version", after="impl WriteZone")
    one(r"self\.new_version\s*=\s*self\.new_version\.next\(\);\s*self\.dirty\.store\(false,\s*Ordering::SeqCst\);", pv, "publish resets dirty")
    cl = impl_body(wr, r"impl\s+Clone\s+for\s+WriteZone")
    one(r"dirty\s*:\s*Default::default\(\)\s*,", cl, "WriteZone::clone starts clean")
    defs.append(("rollback_armed_on_open", "bool", "true"))
    ur = fn_body(wr, "update_rrset", after="impl WriteNode")
    one(r"rrsets\s*\.get\(new_rrset\.rtype\(\),\s*self\.zone\.last_published_version\(\)\)", ur, "update_rrset compares with the published version")
    one(r"rrsets\.update\(new_rrset,\s*self\.zone\.new_version\);", ur, "update_rrset writes the new version")
    rr = fn_body(wr, "remove_rrset", after="impl WriteNode")
    one(r"if\s+let\s+Some\(removed\)\s*=\s*rrsets\.get\(rtype,\s*self\.zone\.last_published_version\(\)\)\s*\{.*?diff\.lock\(\)\.unwrap\(\)\.remove\(\s*owner\.clone\(\),\s*rtype,\s*removed\.clone\(\),?\s*\);", rr, "remove_rrset records the published RRset")
    one(r"rrsets\.remove_rtype\(rtype,\s*self\.zone\.new_version\);", rr, "remove_rrset edits the new version")
    gr = fn_body(wr, "get_rrset", after="impl WriteNode")
    one(r"Ok\(rrsets\.get\(rtype,\s*self\.zone\.new_version\)\)", gr, "get_rrset reads the new version")
    defs.append(("diff_against_published", "bool", "true"))
    ra = fn_body(wr, "remove_all", after="impl WriteNode")
    if "diff" in ra:
        raise GenError("WriteNode::remove_all now touches the diff: update the model (known class diff_misses_delete_all)")
    defs.append(("remove_all_bypasses_diff", "bool", "true"))
    # WriteZone::commit unwraps the diff Arc: every node handle must be gone by then
    rc = fn_body(up, "commit", after="impl ReopenableZoneWriter")
    one(r"if\s+let\s+Some\(writable\)\s*=\s*self\.writable\.take\(\)\s*\{\s*drop\(writable\);\s*let\s+diff\s*=\s*self\s*\.write\s*\.as_mut\(\)\s*\.ok_or\(Error::Finished\)\?\s*\.commit\(false\)", rc, "ReopenableZoneWriter::commit drops the root handle first")
    for fn in ("delete_record_from_rrset", "add_record_to_rrset"):
        b = fn_body(up, fn, after="impl<N> ZoneUpdater<N>")
        one(r"let\s+tree_node\s*=\s*self\.get_writable_child_node_for_owner\(&rec\)\.await\?;\s*let\s+tree_node\s*=\s*tree_node\.as_ref\(\)\.unwrap_or\(self\.write\.root\(\)\);", b, "%s keeps the node handle local" % fn)
    if re.search(r"Box<dyn WritableZoneNode>", impl_body(up, r"pub struct ZoneUpdater<N")):
        raise GenError("ZoneUpdater now stores a node handle: WriteZone::commit may panic on arc_into_inner")
    defs.append(("commit_after_handles_dropped", "bool", "true"))
    # sender side: record order and the one-record-per-message mode
    sv = strip_comments(read("src/net/server/middleware/xfr/service.rs"))
    one(r"xfr_data\.compatibility_mode\(\)\s*&&\s*q\.qtype\(\)\s*==\s*Rtype::AXFR\s*,", sv, "compatibility mode only for AXFR questions")
    one(r"Rtype::AXFR\s*\|\s*Rtype::IXFR\s+if\s+xfr_data\.diffs\(\)\.is_empty\(\)\s*=>", sv, "fallback arm: no diffs")
    one(r"if\s+query_serial\s*>=\s*soa\.serial\(\)\s*\{", sv, "single SOA reply when the client is up to date")
    # the decision logic of preprocess: which answer for which request / zone state
    ppd = fn_body(sv, "preprocess")
    one(r"let\s+Some\(q\)\s*=\s*Self::get_relevant_question\(msg\)\s*else\s*\{\s*return\s+Ok\(ControlFlow::Continue\(\(\)\)\);\s*\}", ppd, "not an XFR request: Continue")
    grq = fn_body(sv, "get_relevant_question")
    one(r"if\s+Opcode::QUERY\s*==\s*msg\.header\(\)\.opcode\(\)\s*&&\s*!msg\.header\(\)\.qr\(\)\s*\{\s*if\s+let\s+Ok\(q\)\s*=\s*msg\.sole_question\(\)\s*\{\s*if\s+matches!\(q\.qtype\(\),\s*Rtype::AXFR\s*\|\s*Rtype::IXFR\)", grq, "get_relevant_question")
    rcs = strip_comments(read("src/base/iana/rcode.rs"))
    def rcode(name):
        return int(one(r"pub\s+const\s+%s\s*:\s*Self\s*=\s*Self\((\d+)\)\s*;" % name, rcs, "Rcode::%s" % name).group(1))
    m = one(r"if\s+q\.qtype\(\)\s*==\s*Rtype::IXFR\s*&&\s*ixfr_query_serial\.is_none\(\)\s*\{.*?return\s+Err\(OptRcode::(\w+)\);", ppd, "IXFR without SOA")
    defs.append(("rc_ixfr_no_soa", "N", "%d%%N" % rcode(m.group(1))))
    for var, tag in (("ParseError\\(err\\)", "rc_prov_parse"), ("UnknownZone", "rc_prov_unknown"),
                     ("TemporarilyUnavailable", "rc_prov_unavailable"), ("Refused", "rc_prov_refused")):
        m = one(r"XfrDataProviderError::%s\s*=>\s*\{.*?OptRcode::(\w+)\s*\}" % var, ppd, "provider error %s" % tag)
        defs.append((tag, "N", "%d%%N" % rcode(m.group(1))))
    m = one(r"let\s+Ok\(zone_soa_answer\)\s*=\s*read_soa\(&read,\s*q\.qname\(\)\.to_name\(\)\)\.await\s*else\s*\{.*?return\s+Err\(OptRcode::(\w+)\);", ppd, "no SOA at the qname")
    defs.append(("rc_no_soa", "N", "%d%%N" % rcode(m.group(1))))
    m = one(r"match\s+q\.qtype\(\)\s*\{\s*Rtype::AXFR\s+if\s+req\.transport_ctx\(\)\.is_udp\(\)\s*=>\s*\{.*?mk_error_response\(msg,\s*OptRcode::(\w+)\).*?\}\s*Rtype::AXFR\s*\|\s*Rtype::IXFR\s+if\s+xfr_data\.diffs\(\)\.is_empty\(\)\s*=>\s*\{.*?Self::respond_to_axfr_query\(.*?\}\s*Rtype::IXFR\s*=>\s*\{.*?Self::respond_to_ixfr_query\(.*?\}\s*_\s*=>\s*\{\s*unreachable!\(\);\s*\}\s*\}", ppd, "preprocess dispatch arms in order")
    defs.append(("rc_axfr_udp", "N", "%d%%N" % rcode(m.group(1))))
    ix = fn_body(sv, "respond_to_ixfr_query")
    one(r"if\s+query_serial\s*>=\s*soa\.serial\(\)\s*\{.*?zone_soa_answer\.to_message\(msg,\s*builder\)", ix, "single SOA when the client is not behind")
    defs.append(("decision_order_ok", "bool", "true"))
    # the framing SOA and the zone walk use the same ReadableZone snapshot
    pp = fn_body(sv, "preprocess")
    one(r"let\s+read\s*=\s*xfr_data\.zone\(\)\.read\(\);\s*let\s+Ok\(zone_soa_answer\)\s*=\s*read_soa\(&read,\s*q\.qname\(\)\.to_name\(\)\)\.await", pp, "preprocess: SOA read from the snapshot")
    if len(re.findall(r"\.read\(\)", pp)) != 1:
        raise GenError("preprocess opens the zone for reading more than once")
    one(r"Self::respond_to_axfr_query\(\s*zone_walking_semaphore,\s*batcher_semaphore,\s*req,\s*q\.qname\(\)\.to_name\(\),\s*&zone_soa_answer,\s*read,", pp, "preprocess hands the snapshot to the AXFR responder")
    ax0 = fn_body(sv, "respond_to_axfr_query")
    if re.search(r"\.read\(\)", ax0):
        raise GenError("respond_to_axfr_query opens the zone again")
    one(r"ZoneFunneler::new\(\s*read,\s*qname,\s*zone_soa_rrset,\s*batcher_tx,\s*zone_walk_semaphore,?\s*\)", ax0, "the walk gets the snapshot")
    afn = strip_comments(read("src/net/server/middleware/xfr/axfr.rs"))
    if re.search(r"\.read\(\)", afn) or not re.search(r"read\s*:\s*Box<dyn ReadableZone>", afn):
        raise GenError("ZoneFunneler no longer walks the snapshot it is given")
    defs.append(("axfr_soa_and_walk_same_snapshot", "bool", "true"))
    ax = fn_body(sv, "respond_to_axfr_query")
    one(r"batcher_tx\s*\.send\(\(qname\.clone\(\),\s*zone_soa_rrset\.clone\(\)\)\)", ax, "AXFR: leading SOA")
    defs.append(("sender_compat_axfr_only", "bool", "true"))
    rs = strip_comments(read("src/net/server/middleware/xfr/responder.rs"))
    m = one(r"let\s+hard_rr_limit\s*=\s*match\s+self\.compatibility_mode\s*\{\s*true\s*=>\s*Some\((\d+)\)\s*,\s*false\s*=>\s*None\s*,\s*\}", rs, "compatibility mode record limit")
    defs.append(("compat_rr_limit", "N", "%d%%N" % int(m.group(1))))
    one(r"if\s+last_rr_rtype\s*!=\s*Some\(Rtype::SOA\)", rs, "responder: last record must be the SOA")
    af = strip_comments(read("src/net/server/middleware/xfr/axfr.rs"))
    run = fn_body(af, "run", after="impl ZoneFunneler")
    one(r"if\s+rrset\.rtype\(\)\s*!=\s*Rtype::SOA\s*\{", run, "AXFR walk skips the SOA")
    if len(re.findall(r"send\(\(self\.qname,\s*self\.zone_soa_rrset\)\)", run)) != 2:
        raise GenError("AXFR: trailing SOA send sites changed")
    xf = strip_comments(read("src/net/server/middleware/xfr/ixfr.rs"))
    run = fn_body(xf, "run", after="impl<Diff> DiffFunneler<Diff>")
    one(r"^\s*if\s+let\s+Err\(err\)\s*=\s*self\s*\.batcher_tx\s*\.send\(\(self\.qname\.clone\(\),\s*self\.zone_soa_rrset\.clone\(\)\)\)", run, "IXFR: leading SOA")
    one(r"for\s+diff\s+in\s+self\.diffs\s*\{\s*let\s+removed_soa\s*=\s*diff\.get_removed\(qname\.clone\(\),\s*Rtype::SOA\)\.await\.unwrap\(\);\s*Self::send_diff_section\(\s*&qname,\s*&self\.batcher_tx,\s*removed_soa,\s*diff\.removed\(\),?\s*\)\s*\.await\?;\s*let\s+added_soa\s*=\s*diff\.get_added\(qname\.clone\(\),\s*Rtype::SOA\)\.await\.unwrap\(\);\s*Self::send_diff_section\(\s*&qname,\s*&self\.batcher_tx,\s*added_soa,\s*diff\.added\(\),?\s*\)\s*\.await\?;\s*\}", run, "IXFR: removed section before added section")
    one(r"\.send\(\(qname\.clone\(\),\s*self\.zone_soa_rrset\)\)", run, "IXFR: trailing SOA")
    sd = fn_body(xf, "send_diff_section", after="impl<Diff> DiffFunneler<Diff>")
    one(r"^\s*if\s+let\s+Err\(err\)\s*=\s*batcher_tx\.send\(\(qname\.clone\(\),\s*soa\.clone\(\)\)\)\.await", sd, "diff section starts with its SOA")
    one(r"if\s+\*rtype\s*!=\s*Rtype::SOA\s*\{", sd, "diff section skips the SOA entry")
    defs.append(("sender_order_ok", "bool", "true"))
    return defs

if __name__ == "__main__":
    main("C10", "/repo/src/net/xfr/protocol/{interpreter,iterator,types}.rs, zonetree/update.rs, base/iana/{rtype,opcode,rcode}.rs", build)
