#!/usr/bin/env python3
"""T1 extractor for C11 (TSIG): everything in src/tsig/mod.rs and
src/rdata/tsig.rs that the model takes as a constant, a table or an order:
the order and width of the `context.update` calls of Variables::sign and
sign_timers, the 'other' length, the unsigned-run limit and its operator, the
default fudge, the truncation bounds, the algorithm names, the server's
mapping of compare_signatures errors to TSIG rcodes, which MAC (full or
truncated) ServerSequence feeds back into its context, the order of MAC and
time checks, the fudge window operators of Time48::eq_fudged."""
import re, sys, os
sys.path.insert(0, os.path.dirname(os.path.abspath(__file__)))
from rs import *

def rust_bytes(lit):
    """b"..." literal -> list of ints"""
    out = []; i = 0
    while i < len(lit):
        c = lit[i]
        if c == "\\":
            n = lit[i + 1]
            if n == "x":
                out.append(int(lit[i + 2:i + 4], 16)); i += 4
            elif n == "0":
                out.append(0); i += 2
            else:
                raise GenError("escape %r in byte string" % lit[i:i + 2])
        else:
            out.append(ord(c)); i += 1
    return out

def coq_list(xs):
    return "[" + "; ".join("%d%%N" % x for x in xs) + "]"

def build():
    src = strip_comments(read("src/tsig/mod.rs"))
    rd = strip_comments(read("src/rdata/tsig.rs"))
    defs = []

    # ---- Variables::sign: order of context.update calls
    sign = fn_body(src, "sign", after="impl Variables")
    ups = [m.group(1).strip() for m in re.finditer(r"context\.update\(\s*(.*?)\s*\)\s*;", sign, re.S)]
    tags = []
    other_len = None
    for u in ups:
        u1 = re.sub(r"\s+", "", u)
        if u1 == "label.as_wire_slice()":
            one(r"for\s+label\s+in\s+key\.name\.iter_labels\(\)\.map\(\s*Label::to_canonical\s*\)", sign, "key name loop")
            tags.append("FName")
        elif u1 == "&Class::ANY.to_int().to_be_bytes()": tags.append("FClass")
        elif u1 == "&0u32.to_be_bytes()": tags.append("FTtl")
        elif u1 == "key.algorithm().into_wire_slice()": tags.append("FAlg")
        elif u1 == "&self.time_signed.into_octets()": tags.append("FTime")
        elif u1 == "&self.fudge.to_be_bytes()": tags.append("FFudge")
        elif u1 == "&self.error.to_int().to_be_bytes()": tags.append("FError")
        elif re.fullmatch(r"&(\d+)u16\.to_be_bytes\(\)", u1):
            v = int(re.fullmatch(r"&(\d+)u16\.to_be_bytes\(\)", u1).group(1))
            if v != 0:
                if other_len is not None: raise GenError("two non-zero other lengths")
                other_len = v
                tags.append("FOtherLen")
        elif u1 == "&time.into_octets()": tags.append("FOther")
        else:
            raise GenError("Variables::sign: unrecognised context.update(%s)" % u)
    if other_len is None:
        raise GenError("Variables::sign: other length literal not found")
    one(r"if\s+self\.other\.is_some\(\)\s*\{\s*context\.update\(&%du16\.to_be_bytes\(\)\);\s*\}\s*else\s*\{\s*context\.update\(&0u16\.to_be_bytes\(\)\);\s*\}" % other_len, sign, "other-len branch")
    one(r"if\s+let\s+Some\(time\)\s*=\s*self\.other\s*\{\s*context\.update\(&time\.into_octets\(\)\);\s*\}", sign, "other data branch")
    defs.append(("sign_order", "list sign_field", "[" + "; ".join(tags) + "]"))
    defs.append(("other_len_fed", "N", "%d%%N" % other_len))
    m = one(r"pub fn into_octets\(self\)\s*->\s*\[u8;\s*(\d+)\]", rd, "Time48::into_octets width")
    defs.append(("time48_width", "N", "%s%%N" % m.group(1)))
    m = one(r"if\s+self\.other\.as_ref\(\)\.len\(\)\s*==\s*(\d+)\s*\{\s*Some\(Time48::from_slice", rd, "Tsig::other_time")
    defs.append(("other_time_len", "N", "%s%%N" % m.group(1)))

    # ---- sign_timers
    st = fn_body(src, "sign_timers", after="impl Variables")
    ups = [re.sub(r"\s+", "", m.group(1)) for m in re.finditer(r"context\.update\(\s*(.*?)\s*\)\s*;", st, re.S)]
    mp = {"&self.time_signed.into_octets()": "FTime", "&self.fudge.to_be_bytes()": "FFudge"}
    if any(u not in mp for u in ups):
        raise GenError("sign_timers: unrecognised update in %r" % ups)
    defs.append(("timers_order", "list sign_field", "[" + "; ".join(mp[u] for u in ups) + "]"))

    # ---- apply_signature: 16 bit length prefix then data
    ap = fn_body(src, "apply_signature", after="impl<K: AsRef<Key>> SigningContext<K>")
    one(r"^\s*self\.context\.update\(&\(data\.len\(\)\s*as\s*u16\)\.to_be_bytes\(\)\);\s*self\.context\.update\(data\);\s*$", ap, "apply_signature")
    defs.append(("prior_mac_len_prefix_octets", "N", "2%N"))

    # ---- order in which request/answer/... feed message and variables
    for fn, timers in (("request", False), ("answer", False), ("final_answer", False), ("first_answer", False), ("signed_subsequent", True)):
        b = fn_body(src, fn, after="/// Creates a signing context for a request.".replace("/// Creates a signing context for a request.", "fn apply_signature"))
        seq = re.findall(r"(context\.update\(first\)|context\.update\(second\)|variables\.sign_timers\(|variables\.sign\(|context\.sign\(\))", b)
        want = ["context.update(first)", "context.update(second)", "variables.sign_timers(" if timers else "variables.sign(", "context.sign()"]
        if seq != want:
            raise GenError("SigningContext::%s feeds %r, expected %r" % (fn, seq, want))
    us = fn_body(src, "unsigned_subsequent", after="fn apply_signature")
    one(r"^\s*self\.context\.update\(message\)\s*;?\s*$", us, "unsigned_subsequent")
    defs.append(("digest_feed_order_checked", "bool", "true"))

    # ---- unsigned run limit
    sub = fn_body(src, "answer_subsequent", after="impl<K: AsRef<Key>> ClientSequence<K>")
    m = one(r"if\s+self\.unsigned\s*(<=|<)\s*(\d+)\s*\{\s*self\.context\.unsigned_subsequent\(message\.as_slice\(\)\);\s*self\.unsigned\s*\+=\s*1;\s*return\s+Ok\(\(\)\);\s*\}\s*else\s*\{\s*return\s+Err\(ValidationError::TooManyUnsigned\);", sub, "unsigned run guard")
    defs.append(("unsigned_limit", "N", "%s%%N" % m.group(2)))
    defs.append(("unsigned_guard_is_lt", "bool", "true" if m.group(1) == "<" else "false"))
    one(r"self\.unsigned\s*=\s*0\s*;", sub, "unsigned reset on signed answer")
    dn = fn_body(src, "done", after="impl<K: AsRef<Key>> ClientSequence<K>")
    one(r"if\s+self\.unsigned\s*!=\s*0\s*\{\s*Err\(ValidationError::TooManyUnsigned\)", dn, "ClientSequence::done")

    # ---- default fudge
    fudges = set()
    for hdr, fn in (("impl<K: AsRef<Key>> ClientTransaction<K>", "request"), ("impl<K: AsRef<Key>> ServerTransaction<K>", "answer"),
                    ("impl<K: AsRef<Key>> ClientSequence<K>", "request"), ("impl<K: AsRef<Key>> ServerSequence<K>", "answer")):
        b = fn_body(src, fn, after=hdr)
        m = one(r"_with_fudge\(\s*(?:key,\s*)?message,\s*now,\s*(\d+)\s*\)", b, "default fudge in %s::%s" % (hdr, fn))
        fudges.add(int(m.group(1)))
    if len(fudges) != 1:
        raise GenError("default fudge differs between entry points: %r" % fudges)
    defs.append(("default_fudge", "N", "%d%%N" % fudges.pop()))

    # ---- truncation bounds
    wb = fn_body(src, "within_len_bounds", after="impl Algorithm")
    m = one(r"^\s*len\s*>=\s*cmp::max\(\s*(\d+)\s*,\s*self\.native_len\(\)\s*/\s*(\d+)\s*\)\s*&&\s*len\s*<=\s*self\.native_len\(\)\s*$", wb, "within_len_bounds")
    defs.append(("trunc_floor", "N", "%s%%N" % m.group(1)))
    defs.append(("trunc_divisor", "N", "%s%%N" % m.group(2)))
    cs = fn_body(src, "compare_signatures", after="impl Key")
    one(r"if\s+provided\.len\(\)\s*<\s*self\.min_mac_len\s*\{\s*return\s+Err\(ValidationError::BadTrunc\);", cs, "compare_signatures floor")
    one(r"let\s+expected\s*=\s*if\s+provided\.len\(\)\s*<\s*expected\.as_ref\(\)\.len\(\)\s*\{\s*&expected\.as_ref\(\)\[\.\.provided\.len\(\)\]\s*\}\s*else\s*\{\s*expected\.as_ref\(\)\s*\}", cs, "compare_signatures truncation")
    one(r"if\s+!constant_time_eq\(expected,\s*provided\)\s*\{\s*return\s+Err\(ValidationError::BadSig\);", cs, "compare_signatures compare")
    csn = re.sub(r"\s+", "", cs)
    size_chk = "if!self.algorithm().within_len_bounds(provided.len()){returnErr(ValidationError::FormErr);}"
    trunc_chk = "ifprovided.len()<self.min_mac_len{returnErr(ValidationError::BadTrunc);}"
    if csn.startswith(size_chk + trunc_chk): defs.append(("compare_checks_rfc_size", "bool", "true"))
    elif csn.startswith(trunc_chk): defs.append(("compare_checks_rfc_size", "bool", "false"))
    else: raise GenError("compare_signatures: unrecognised sequence of length checks")
    # ---- Key::new / Key::generate: which result of calculate_bounds lands in which field.
    # Both constructors destructure the tuple into locals and build the key with field shorthand;
    # the order of the locals is emitted (the model follows it), everything else is anchored.
    cb = fn_body(src, "calculate_bounds", after="impl Key")
    one(r"Ok\(\(\s*min_mac_len\s*,\s*signing_len\s*\)\)\s*$", cb, "calculate_bounds result tuple")
    for fn, flag in (("new", "new_bounds_swapped"), ("generate", "generate_bounds_swapped")):
        b = fn_body(src, fn, after="impl Key")
        m = one(r"let\s*\(\s*(\w+)\s*,\s*(\w+)\s*\)\s*=\s*Self::calculate_bounds\(\s*algorithm\s*,\s*min_mac_len\s*,\s*signing_len\s*\)\?;", b, "Key::%s bounds destructuring" % fn)
        one(r"Key\s*\{\s*key:\s*hmac::Key::new\([^;]*?\),\s*name,\s*min_mac_len,\s*signing_len,?\s*\}", b, "Key::%s struct literal" % fn)
        if len(re.findall(r"\bmin_mac_len\b", b)) != 3 or len(re.findall(r"\bsigning_len\b", b)) != 3:
            raise GenError("Key::%s: min_mac_len/signing_len used outside bounds call, destructuring and literal" % fn)
        order = (m.group(1), m.group(2))
        if order == ("min_mac_len", "signing_len"): defs.append((flag, "bool", "false"))
        elif order == ("signing_len", "min_mac_len"): defs.append((flag, "bool", "true"))
        else: raise GenError("Key::%s: unrecognised destructuring %r" % (fn, order))
    gb = fn_body(src, "generate", after="impl Key")
    one(r"let\s+algorithm\s*=\s*algorithm\.into_hmac_algorithm\(\);\s*let\s+key_len\s*=\s*algorithm\.len\(\);\s*let\s+mut\s+bytes\s*=\s*BytesMut::with_capacity\(key_len\);\s*bytes\.resize\(key_len,\s*0\);\s*rng\.fill\(&mut\s+bytes\)\?;", gb, "Key::generate secret length")
    one(r"hmac::Key::new\(algorithm,\s*&bytes\)", gb, "Key::generate key octets")
    one(r"Ok\(\(key,\s*bytes\.freeze\(\)\)\)\s*$", gb, "Key::generate result")
    sl = fn_body(src, "signature_slice", after="impl Key")
    one(r"^\s*&signature\.as_ref\(\)\[\.\.self\.signing_len\]\s*$", sl, "signature_slice")
    defs.append(("compare_signatures_checked", "bool", "true"))

    # ---- algorithm names (wire form) and from_name table
    iw = fn_body(src, "into_wire_slice", after="impl Algorithm")
    fnm = fn_body(src, "from_name", after="impl Algorithm")
    for a in ("Sha1", "Sha256", "Sha384", "Sha512"):
        m = one(r'Algorithm::%s\s*=>\s*b"((?:[^"\\]|\\.)*)"' % a, iw, "into_wire_slice %s" % a)
        w = rust_bytes(m.group(1))
        defs.append(("alg_wire_%s" % a.lower(), "list N", coq_list(w)))
        m = one(r'b"([^"]*)"\s*=>\s*Some\(Algorithm::%s\)' % a, fnm, "from_name %s" % a)
        defs.append(("alg_label_%s" % a.lower(), "list N", coq_list(rust_bytes(m.group(1)))))

    # ---- rcodes
    rc = strip_comments(read("src/base/iana/rcode.rs"))
    tr = rc[rc.find("TsigRcode"):]
    for nm in ("FORMERR", "NOTAUTH", "BADSIG", "BADKEY", "BADTIME", "BADTRUNC", "NOERROR"):
        ms = list(re.finditer(r"\(%s\s*=>\s*(\d+)\s*," % nm, rc))
        vals = set(int(m.group(1)) for m in ms)
        if len(vals) != 1:
            raise GenError("rcode %s: values %r" % (nm, vals))
        defs.append(("RC_%s" % nm, "N", "%d%%N" % vals.pop()))

    # ---- server: mapping of compare_signatures errors, order MAC check / time check
    sr = fn_body(src, "server_request", after="impl<K: AsRef<Key>> SigningContext<K>")
    m = one(r"if\s+let\s+Err\(err\)\s*=\s*res\s*\{\s*return\s+Err\(ServerError::unsigned\(match\s+err\s*\{(.*?)\}\)\);", sr, "server error mapping")
    arms = dict((a, b) for a, b in re.findall(r"(ValidationError::\w+|_)\s*=>\s*TsigRcode::(\w+)", m.group(1)))
    if "ValidationError::BadTrunc" not in arms or ("ValidationError::BadSig" not in arms and "_" not in arms):
        raise GenError("server error mapping arms %r" % arms)
    defs.append(("server_code_badtrunc", "N", "RC_%s" % arms["ValidationError::BadTrunc"]))
    defs.append(("server_code_badsig", "N", "RC_%s" % arms.get("ValidationError::BadSig", arms.get("_"))))
    if "_" not in arms and "ValidationError::FormErr" not in arms:
        raise GenError("server error mapping: no arm for the remaining errors")
    defs.append(("server_code_other", "N", "RC_%s" % arms.get("ValidationError::FormErr", arms.get("_"))))
    if arms.get("ValidationError::BadKey", arms.get("_")) != "BADKEY":
        raise GenError("server error mapping: BadKey arm")
    i_mac = sr.find("compare_signatures"); i_time = sr.find("is_valid_at(now)"); i_apply = sr.find("context.apply_signature(")
    if not (0 <= i_mac < i_apply < i_time):
        raise GenError("server_request: expected MAC check, apply_signature, time check in this order")
    defs.append(("server_mac_before_time", "bool", "true"))
    one(r"Variables::new\(\s*variables\.time_signed,\s*variables\.fudge,\s*TsigRcode::BADTIME,\s*Some\(now\),?\s*\)", sr, "BADTIME variables")
    for nm, code in (("Position", "FORMERR"), ("Invalid", "FORMERR"), ("ParseError", "FORMERR")):
        one(r"Err\(TsigError::%s\)\s*=>\s*\{\s*return\s+Err\(ServerError::unsigned\(TsigRcode::%s\)\);" % (nm, code), sr, "server %s" % nm)
    if len(re.findall(r"None\s*=>\s*return\s+Err\(ServerError::unsigned\(TsigRcode::BADKEY\)\)", sr)) != 2:
        raise GenError("server_request: BADKEY arms")

    # ---- ServerError::build_message: is a FORMERR answered without looking for the TSIG record again?
    bm = re.sub(r"\s+", "", fn_body(src, "build_message", after="impl<K: AsRef<Key>> ServerError<K>"))
    plain = "ifmatches!(self.0,ServerErrorInner::Unsigned{error}iferror==TsigRcode::FORMERR){returnOk(builder.start_answer(msg,Rcode::FORMERR)?.additional());}"
    rest = "letbuilder=builder.start_answer(msg,Rcode::NOTAUTH)?;letmutbuilder=builder.additional();matchself.0{ServerErrorInner::Unsigned{error}=>{lettsig={MessageTsig::from_message(msg).expect(\"missingormalformedTSIGrecord\")};"
    if bm.startswith(plain + rest): defs.append(("formerr_plain_response", "bool", "true"))
    elif bm.startswith(rest): defs.append(("formerr_plain_response", "bool", "false"))
    else: raise GenError("ServerError::build_message: unrecognised shape of the unsigned arm")

    # ---- net/client/tsig.rs Request::validate_response: every response goes through TsigClient::answer,
    #      the end of a stream through TsigClient::done
    cw = strip_comments(read("src/net/client/tsig.rs"))
    vr = re.sub(r"\s+", "", fn_body(cw, "validate_response", after="async fn get_response_impl"))
    vr = re.sub(r"trace!\(\"[^\"]*\"\);", "", vr)
    want_vr = ("letres=matchresponse{None=>{letclient=tsig_client.lock().unwrap().take().unwrap();client.done()?;None}"
               "Some(msg)=>{letmutmodifiable_msg=Message::from_octets(msg.as_slice().to_vec())?;"
               "ifletSome(client)=tsig_client.lock().unwrap().deref_mut(){client.answer(&mutmodifiable_msg,Time48::now())?;}"
               "letout_vec=modifiable_msg.into_octets();letout_bytes=Bytes::from(out_vec);"
               "letout_msg=Message::<Bytes>::from_octets(out_bytes)?;Some(out_msg)}};Ok(res)")
    if vr != want_vr:
        raise GenError("net/client/tsig.rs validate_response: unrecognised shape (every response must pass TsigClient::answer, stream end TsigClient::done)")
    ta = re.sub(r"\s+", "", fn_body(cw, "answer", after="impl<K> TsigClient<K>"))
    if ta != "matchself{TsigClient::Transaction(client)=>client.answer(message,now),TsigClient::Sequence(client)=>client.answer(message,now),}.map_err(Error::Authentication)":
        raise GenError("net/client/tsig.rs TsigClient::answer: unrecognised shape")
    td = re.sub(r"\s+", "", fn_body(cw, "done", after="impl<K> TsigClient<K>"))
    if td != "matchself{TsigClient::Transaction(_)=>{Ok(())}TsigClient::Sequence(client)=>{client.done().map_err(Error::Authentication)}}":
        raise GenError("net/client/tsig.rs TsigClient::done: unrecognised shape")
    gi = re.sub(r"\s+", "", fn_body(cw, "get_response_impl", after="fn new_multi"))
    if "letres=Self::validate_response(response,tsig_client)?;" not in gi:
        raise GenError("net/client/tsig.rs get_response_impl no longer validates every response")
    defs.append(("client_wrapper_validates_all", "bool", "true"))

    # ---- remove_tsig: original ID written into the message, last additional record dropped
    rt = re.sub(r"\s+", "", fn_body(src, "remove_tsig"))
    if rt != "message.header_mut().set_id(original_id);message.remove_last_additional();":
        raise GenError("remove_tsig: unrecognised shape (the original ID must be written into the message header)")
    defs.append(("remove_tsig_sets_original_id", "bool", "true"))

    # ---- ServerSequence: which MAC goes back into the context
    sa = re.sub(r"\s+", "", fn_body(src, "answer_with_fudge", after="impl<K: AsRef<Key>> ServerSequence<K>"))
    if "self.context.apply_signature(mac.as_ref());letmac=self.key().signature_slice(&mac);" in sa:
        full = True
    elif "letmac=self.context.key().signature_slice(&mac).to_vec();self.context.apply_signature(&mac);self.key().complete_message(message,&variables,&mac)" in sa:
        full = False
    else:
        raise GenError("ServerSequence::answer_with_fudge: cannot tell which MAC is applied to the context")
    defs.append(("server_seq_applies_full_mac", "bool", "true" if full else "false"))

    # ---- MessageTsig::from_message: CLASS / TTL of the TSIG record
    fm = re.sub(r"\s+", "", fn_body(src, "from_message", after="impl<'a, Octs: Octets + ?Sized> MessageTsig<'a, Octs>"))
    chk = "ifletSome(record)=record{ifrecord.class()!=Class::ANY||record.ttl().as_secs()!=0{returnErr(TsigError::Invalid);}ifsection.next().is_some(){returnErr(TsigError::Position);}returnOk(MessageTsig{record,start});}"
    nochk = "ifletSome(record)=record{ifsection.next().is_some(){returnErr(TsigError::Position);}returnOk(MessageTsig{record,start});}"
    if chk in fm: defs.append(("tsig_class_ttl_checked", "bool", "true"))
    elif nochk in fm: defs.append(("tsig_class_ttl_checked", "bool", "false"))
    else: raise GenError("MessageTsig::from_message: unrecognised handling of a found TSIG record")
    scan_all = ("letmutsection=msg.answer().map_err(|_|TsigError::ParseError)?;for_in0..2{forrecordinsection.by_ref(){"
                "letrecord=record.map_err(|_|TsigError::ParseError)?;ifrecord.rtype()==Rtype::TSIG{returnErr(TsigError::Position);}}"
                "section=section.next_section().map_err(|_|TsigError::ParseError)?.expect(\"answerandauthorityhaveanextsection\");}loop{")
    scan_ar = "letmutsection=msg.additional().map_err(|_|TsigError::ParseError)?;loop{"
    if fm.startswith(scan_all): defs.append(("tsig_scan_all_sections", "bool", "true"))
    elif fm.startswith(scan_ar): defs.append(("tsig_scan_all_sections", "bool", "false"))
    else: raise GenError("MessageTsig::from_message: unrecognised way to reach the additional section")
    for a, b in (("section.next()", "TsigError::Missing"), ("map_err(|_|TsigError::ParseError)?.into_record::<Tsig<_,_>>().map_err(|_|TsigError::Invalid)?", "")):
        if a not in fm: raise GenError("from_message: %s not found" % a)

    # ---- client: order of checks
    for fn, ctxfn in (("answer_first", "first_answer"), ("answer_subsequent", "signed_subsequent")):
        b = fn_body(src, fn, after="impl<K: AsRef<Key>> ClientSequence<K>")
        idx = [b.find(x) for x in ("get_answer_tsig", "self.context.%s(" % ctxfn, "compare_signatures", "apply_signature(tsig.record.data().mac().as_ref())", "check_answer_time", "remove_tsig")]
        if any(i < 0 for i in idx) or idx != sorted(idx):
            raise GenError("ClientSequence::%s: order of steps changed: %r" % (fn, idx))
    b = fn_body(src, "answer", after="impl<K: AsRef<Key>> ClientTransaction<K>")
    idx = [b.find(x) for x in ("get_answer_tsig", "self.context.answer(", "compare_signatures", "check_answer_time", "remove_tsig")]
    if any(i < 0 for i in idx) or idx != sorted(idx):
        raise GenError("ClientTransaction::answer: order of steps changed")
    defs.append(("client_steps_checked", "bool", "true"))

    # ---- Time48::eq_fudged
    ef = fn_body(rd, "eq_fudged", after="impl Time48")
    one(r"^\s*self\.0\.saturating_sub\(fudge\)\s*<=\s*other\.0\s*&&\s*self\.0\.saturating_add\(fudge\)\s*>=\s*other\.0\s*$", ef, "Time48::eq_fudged")
    iv = fn_body(rd, "is_valid_at", after="impl<O, N> Tsig<O, N>")
    one(r"^\s*now\.eq_fudged\(self\.time_signed,\s*self\.fudge\.into\(\)\)\s*$", iv, "Tsig::is_valid_at")
    defs.append(("eq_fudged_checked", "bool", "true"))
    fu = fn_body(rd, "from_u64", after="impl Time48")
    one(r"assert!\(value\s*&\s*0xFFFF_0000_0000_0000\s*==\s*0\)", fu, "Time48::from_u64")
    return defs

def emit_c11(defs):
    verif = os.environ.get("VERIF_DIR", os.path.dirname(os.path.dirname(os.path.dirname(os.path.abspath(__file__)))))
    lines = ["(* GENERATED by tools/gen/C11.py from /repo/src/tsig/mod.rs, rdata/tsig.rs, base/iana/rcode.rs -- do not edit *)",
             "From Coq Require Import NArith List.", "Import ListNotations.",
             "Inductive sign_field := FName | FClass | FTtl | FAlg | FTime | FFudge | FError | FOtherLen | FOther."]
    for name, ty, val in defs:
        lines.append("Definition %s : %s := %s." % (name, ty, val))
    write_if_changed(os.path.join(verif, "coq", "C11", "Gen.v"), "\n".join(lines) + "\n")

if __name__ == "__main__":
    try:
        d = build()
    except GenError as e:
        verif = os.environ.get("VERIF_DIR", os.path.dirname(os.path.dirname(os.path.dirname(os.path.abspath(__file__)))))
        write_if_changed(os.path.join(verif, "coq", "C11", "Gen.v"), "(* T1 extraction failed: %s *)\n" % str(e).replace("*)", "* )"))
        print("T1-FAIL C11: %s" % e)
        sys.exit(2)
    emit_c11(d)
    print("T1-OK C11: %d items" % len(d))
