#!/usr/bin/env python3
"""T1 extractor for C14: comparison arms of nsec_in_range / nsec3_in_range, the
supported NSEC3 hash / DNSSEC algorithm / digest lists, the record type codes
tested by the denial helpers, whether nsec3_label_to_hash still `expect`s the
Base32hex decode, the operators of Group::check_sig (label count, signature
times) and the state on which validate_groups aborts.

Operators are emitted as codes: 0 `<`  1 `<=`  2 `>`  3 `>=`  4 `==`  5 `!=`;
connectives as bool: true `&&`, false `||`."""
import re, sys, os
sys.path.insert(0, os.path.dirname(os.path.abspath(__file__)))
from rs import *

OPS = {"<": 0, "<=": 1, ">": 2, ">=": 3, "==": 4, "!=": 5}
OP = r"(<=|>=|==|!=|<|>)"
CONN = r"(&&|\|\|)"

def opc(s):
    return "%d%%N" % OPS[s]

def conn(s):
    return "true" if s == "&&" else "false"

def iana(rel, names, what):
    src = strip_comments(read(rel))
    out = {}
    for n in names:
        m = one(r"\(\s*%s\s*=>\s*(\d+)\s*," % re.escape(n), src, "%s %s" % (what, n))
        out[n] = int(m.group(1))
    return out

def eq_list(body, enum, what):
    """`x == Enum::A || x == Enum::B ...` as the only expression of a fn."""
    body = body.strip()
    parts = [p.strip() for p in body.split("||")]
    names = []
    for p in parts:
        m = re.fullmatch(r"\*?[a-z]\s*==\s*%s::([A-Z0-9_]+)" % enum, p)
        if not m:
            raise GenError("%s: unexpected term %r" % (what, p))
        names.append(m.group(1))
    return names

def build():
    defs = []
    src = strip_comments(read("src/dnssec/validator/nsec.rs"))

    # ---- nsec_in_range
    b = fn_body(src, "nsec_in_range")
    m = one(r"^\s*if\s+owner\s*%s\s*next_name\s*\{\s*target\s*%s\s*owner\s*%s\s*target\s*%s\s*next_name\s*\}\s*else\s*\{\s*target\s*%s\s*owner\s*\}\s*$"
            % (OP, OP, CONN, OP, OP), b, "nsec_in_range body")
    defs += [("nsec_cond_op", "N", opc(m.group(1))),
             ("nsec_norm_op1", "N", opc(m.group(2))),
             ("nsec_norm_and", "bool", conn(m.group(3))),
             ("nsec_norm_op2", "N", opc(m.group(4))),
             ("nsec_wrap_op", "N", opc(m.group(5)))]

    # ---- nsec3_in_range
    b = fn_body(src, "nsec3_in_range")
    m = one(r"^\s*if\s+\*nexthash\s*%s\s*ownerhash\s*\{\s*ownerhash\s*%s\s*targethash\s*%s\s*targethash\s*%s\s*nexthash\s*\}\s*else\s*\{\s*ownerhash\s*%s\s*targethash\s*%s\s*targethash\s*%s\s*nexthash\s*\}\s*$"
            % (OP, OP, CONN, OP, OP, CONN, OP), b, "nsec3_in_range body")
    defs += [("n3_cond_op", "N", opc(m.group(1))),
             ("n3_norm_op1", "N", opc(m.group(2))),
             ("n3_norm_and", "bool", conn(m.group(3))),
             ("n3_norm_op2", "N", opc(m.group(4))),
             ("n3_wrap_op1", "N", opc(m.group(5))),
             ("n3_wrap_and", "bool", conn(m.group(6))),
             ("n3_wrap_op2", "N", opc(m.group(7)))]
    # OwnerHash ordering is the plain slice ordering
    n3 = strip_comments(read("src/rdata/nsec3.rs"))
    pc = fn_body(n3, "partial_cmp", after="PartialOrd<U> for OwnerHash<T>")
    one(r"^\s*self\.0\.as_ref\(\)\.partial_cmp\(\s*other\.as_ref\(\)\s*\)\s*$", pc, "OwnerHash::partial_cmp is slice order")
    defs.append(("ownerhash_cmp_is_slice_cmp", "bool", "true"))

    # ---- supported lists
    b = fn_body(src, "supported_nsec3_hash")
    names = eq_list(b, "Nsec3HashAlgorithm", "supported_nsec3_hash")
    vals = iana("src/base/iana/nsec3.rs", names, "Nsec3HashAlgorithm")
    defs.append(("supported_nsec3_hashes", "list N", "[" + "; ".join("%d%%N" % vals[n] for n in names) + "]"))
    base = strip_comments(read("src/dnssec/validator/base.rs"))
    names = eq_list(fn_body(base, "supported_algorithm"), "SecurityAlgorithm", "supported_algorithm")
    vals = iana("src/base/iana/secalg.rs", names, "SecurityAlgorithm")
    defs.append(("supported_algorithms", "list N", "[" + "; ".join("%d%%N" % vals[n] for n in names) + "]"))
    names = eq_list(fn_body(base, "supported_digest"), "DigestAlgorithm", "supported_digest")
    vals = iana("src/base/iana/digestalg.rs", names, "DigestAlgorithm")
    defs.append(("supported_digests", "list N", "[" + "; ".join("%d%%N" % vals[n] for n in names) + "]"))

    # ---- record types used by the denial helpers
    rt = iana("src/base/iana/rtype.rs", ["NS", "CNAME", "SOA", "DNAME", "DS", "RRSIG", "NSEC", "NSEC3"], "Rtype")
    for n in ("NS", "CNAME", "SOA", "DNAME", "DS", "RRSIG", "NSEC", "NSEC3"):
        defs.append(("rt_" + n, "N", "%d%%N" % rt[n]))

    # which type bits each helper tests (order of appearance)
    def types_tested(body, what):
        return re.findall(r"types\.contains\(\s*(?:Rtype::([A-Z0-9]+)|(rtype))\s*\)", body)
    nd = fn_body(src, "nsec_for_nodata")
    got = ["rtype" if b_ else a for a, b_ in types_tested(nd, "nsec_for_nodata")]
    if got != ["rtype", "CNAME", "NS", "SOA", "NS", "SOA"]:
        raise GenError("nsec_for_nodata: type bits tested changed: %r" % got)
    one(r"if\s+types\.contains\(rtype\)\s*\|\|\s*types\.contains\(Rtype::CNAME\)", nd, "nodata qtype/CNAME test")
    one(r"if\s+rtype\s*==\s*Rtype::DS\s*&&\s*\*target\s*!=\s*Name::<Vec<u8>>::root\(\)\s*\{\s*if\s+types\.contains\(Rtype::NS\)\s*&&\s*types\.contains\(Rtype::SOA\)", nd, "nodata DS/apex rule")
    one(r"else\s+if\s+types\.contains\(Rtype::NS\)\s*&&\s*!types\.contains\(Rtype::SOA\)", nd, "nodata parent-side rule")
    one(r"if\s+nsec_in_range\(target,\s*&owner,\s*&nsec\.next_name\(\)\)\s*&&\s*nsec\.next_name\(\)\.ends_with\(target\)", nd, "nodata ENT rule")
    defs.append(("nodata_checks_ok", "bool", "true"))
    ne = fn_body(src, "nsec_for_not_exists")
    got = ["rtype" if b_ else a for a, b_ in types_tested(ne, "nsec_for_not_exists")]
    if got != ["DNAME", "NS", "SOA"]:
        raise GenError("nsec_for_not_exists: type bits tested changed: %r" % got)
    one(r"if\s+!nsec_in_range\(target,\s*&owner,\s*nsec\.next_name\(\)\)\s*\{\s*continue;", ne, "not_exists range test")
    one(r"if\s+nsec\.next_name\(\)\.ends_with\(target\)", ne, "not_exists ENT test")
    one(r"if\s+target\.ends_with\(&owner\)\s*\{\s*let\s+types\s*=\s*nsec\.types\(\);\s*if\s+types\.contains\(Rtype::DNAME\)\s*\|\|\s*\(types\.contains\(Rtype::NS\)\s*&&\s*!types\.contains\(Rtype::SOA\)\)", ne, "not_exists ancestor rule")
    defs.append(("not_exists_checks_ok", "bool", "true"))
    gc = fn_body(src, "get_checked_nsec")
    one(r"if\s+group\.rtype\(\)\s*!=\s*Rtype::NSEC", gc, "get_checked_nsec rtype")
    one(r"if\s+rrs\.len\(\)\s*!=\s*1\b", gc, "get_checked_nsec single record")
    one(r"if\s+let\s+ValidationState::Secure\s*=\s*group\.state\(\)\s*\{\s*\}\s*else\s*\{\s*return\s*\(None,\s*None\);", gc, "get_checked_nsec secure")
    one(r"if\s+group\.signer_name\(\)\s*!=\s*signer_name\s*\{\s*return\s*\(None,\s*None\);", gc, "get_checked_nsec signer")
    one(r"if\s+owner\s*!=\s*star_name\s*\{", gc, "get_checked_nsec wildcard")
    defs.append(("checked_nsec_checks_ok", "bool", "true"))
    ce = fn_body(src, "nsec_closest_encloser")
    one(r"if\s+owner_encloser\.label_count\(\)\s*>\s*next_encloser\.label_count\(\)\s*\{\s*owner_encloser\s*\}\s*else\s*\{\s*next_encloser\s*\}", ce, "closest encloser choice")
    defs.append(("ce_prefers_owner_iff_longer", "bool", "true"))

    # ---- nsec3_label_to_hash
    lh = fn_body(src, "nsec3_label_to_hash")
    one(r"core::str::from_utf8\(label\.as_ref\(\)\)", lh, "nsec3_label_to_hash utf8 step")
    one(r"OwnerHash::<Vec<u8>>::from_str\(label_str\)", lh, "nsec3_label_to_hash decode step")
    n_exp = len(re.findall(r"\.(expect|unwrap)\(", lh))
    defs.append(("label_to_hash_expects", "bool", "true" if n_exp > 0 else "false"))
    fs = fn_body(n3, "from_str", after="str::FromStr for OwnerHash<Octs>")
    one(r"base32::decode_hex\(s\)", fs, "OwnerHash::from_str is base32::decode_hex")

    # ---- get_checked_nsec3: order of checks
    g3 = fn_body(src, "get_checked_nsec3")
    one(r"if\s+iterations\s*>\s*config\.nsec3_iter_insecure\(\)\s*\|\|\s*iterations\s*>\s*config\.nsec3_iter_bogus\(\)", g3, "nsec3 iteration limits")
    one(r"if\s+ownerhash\.as_slice\(\)\.len\(\)\s*!=\s*nsec3\.next_owner\(\)\.as_slice\(\)\.len\(\)", g3, "nsec3 hash length check")
    defs.append(("nsec3_iter_cmp_op", "N", opc(">")))
    ctx = strip_comments(read("src/dnssec/validator/context.rs"))
    m = one(r"const\s+NSEC3_ITER_INSECURE:\s*DefMinMax<u16>\s*=\s*DefMinMax::new\(\s*(\d+)\s*,\s*(\d+)\s*,\s*(\d+)\s*\)", ctx, "NSEC3_ITER_INSECURE")
    defs.append(("nsec3_iter_insecure_default", "N", "%d%%N" % int(m.group(1))))
    m = one(r"const\s+NSEC3_ITER_BOGUS:\s*DefMinMax<u16>\s*=\s*DefMinMax::new\(\s*(\d+)\s*,\s*(\d+)\s*,\s*(\d+)\s*\)", ctx, "NSEC3_ITER_BOGUS")
    defs.append(("nsec3_iter_bogus_default", "N", "%d%%N" % int(m.group(1))))
    m = one(r"const\s+MAX_BAD_SIGNATURES:\s*DefMinMax<u8>\s*=\s*DefMinMax::new\(\s*(\d+)\s*,\s*(\d+)\s*,\s*(\d+)\s*\)", ctx, "MAX_BAD_SIGNATURES")
    defs.append(("max_bad_signatures_default", "N", "%d%%N" % int(m.group(1))))
    m = one(r"const\s+MAX_CNAME_DNAME:\s*DefMinMax<u8>\s*=\s*DefMinMax::new\(\s*(\d+)\s*,\s*(\d+)\s*,\s*(\d+)\s*\)", ctx, "MAX_CNAME_DNAME")
    defs.append(("max_cname_dname_default", "N", "%d%%N" % int(m.group(1))))

    # ---- Group::check_sig
    grp = strip_comments(read("src/dnssec/validator/group.rs"))
    cs = fn_body(grp, "check_sig")
    one(r"let\s+labels\s*=\s*owner\.iter\(\)\.count\(\)\s*-\s*1\s*;", cs, "check_sig label count")
    one(r"if\s+!sig\.owner\(\)\.name_eq\(&owner\)\s*\|\|\s*sig\.class\(\)\s*!=\s*self\.class\(\)", cs, "check_sig owner/class")
    one(r"if\s+!owner\.ends_with\(&signer_name\)", cs, "check_sig signer is ancestor")
    one(r"if\s+rrsig\.type_covered\(\)\s*!=\s*rtype\b", cs, "check_sig type covered")
    m = one(r"if\s+labels\s*%s\s*rrsig\.labels\(\)\s+as\s+usize\s*\{\s*return\s+false;" % OP, cs, "check_sig labels")
    defs.append(("sig_labels_reject_op", "N", opc(m.group(1))))
    # signature times: either Timestamp::canonical_* (plain u32 order) or the serial comparison
    # (PartialOrd of Timestamp = RFC 1982) in the shape `!(ts_now <= expiration && ts_now >= inception)`:
    # an incomparable pair (2^31 apart) makes `<=` / `>=` false, so the signature is rejected
    plain = list(re.finditer(r"if\s+ts_now\.(canonical_gt|canonical_ge)\(&rrsig\.expiration\(\)\)\s*\|\|\s*ts_now\.(canonical_lt|canonical_le)\(&rrsig\.inception\(\)\)\s*\{\s*return\s+false;", cs))
    serial = list(re.finditer(r"if\s+!\(\s*ts_now\s*<=\s*rrsig\.expiration\(\)\s*&&\s*ts_now\s*>=\s*rrsig\.inception\(\)\s*\)\s*\{\s*return\s+false;", cs))
    if len(plain) + len(serial) != 1:
        raise GenError("check_sig times: shape not recognised (plain %d, serial %d)" % (len(plain), len(serial)))
    if plain:
        m = plain[0]
        defs.append(("sig_time_is_canonical", "bool", "true"))
        defs.append(("sig_expired_op", "N", opc(">" if m.group(1).endswith("gt") else ">=")))
        defs.append(("sig_early_op", "N", opc("<" if m.group(2).endswith("lt") else "<=")))
    else:
        defs.append(("sig_time_is_canonical", "bool", "false"))
        defs.append(("sig_expired_op", "N", opc(">")))
        defs.append(("sig_early_op", "N", opc("<")))
        one(r"^\s*self\.0\.partial_cmp\(\s*&other\.0\s*\)\s*$", fn_body(strip_comments(read("src/rdata/dnssec.rs")), "partial_cmp", after="PartialOrd for Timestamp"), "Timestamp::partial_cmp is Serial::partial_cmp")
    one(r"if\s+signer_name\s*!=\s*key_name\s*\|\|\s*rrsig\.algorithm\(\)\s*!=\s*key\.algorithm\(\)\s*\|\|\s*rrsig\.key_tag\(\)\s*!=\s*key_tag", cs, "check_sig key match")
    one(r"if\s+!key\.is_zone_key\(\)", cs, "check_sig zone key flag")
    defs.append(("check_sig_checks_ok", "bool", "true"))
    # Timestamp::canonical_cmp delegates to Serial::canonical_cmp = u32 order
    ts = strip_comments(read("src/rdata/dnssec.rs"))
    one(r"^\s*self\.0\.canonical_cmp\(\s*&other\.0\s*\)\s*$", fn_body(ts, "canonical_cmp", after="CanonicalOrd for Timestamp"), "Timestamp::canonical_cmp")
    ser = strip_comments(read("src/base/serial.rs"))
    one(r"^\s*self\.0\.cmp\(\s*&other\.0\s*\)\s*$", fn_body(ser, "canonical_cmp", after="CanonicalOrd for Serial"), "Serial::canonical_cmp")
    defs.append(("timestamp_canonical_is_u32_order", "bool", "true"))

    # ---- signature cache key: the signed data (RRSIG RDATA fields + owner + canonical RRset), the RRSIG and the key
    cc = fn_body(grp, "check_sig_cached")
    one(r"sig\.data\(\)\s*\.signed_data\(&mut\s+signed_data,\s*&mut\s+self\.rr_set\(\)\)", cc, "cache key: signed data of this RRset")
    one(r"with_infallible\(\|\|\s*key\.compose_canonical_rdata\(&mut\s+buf\)\)", cc, "cache key: key rdata")
    one(r"with_infallible\(\|\|\s*sig\.data\(\)\.compose_canonical_rdata\(&mut\s+buf\)\)", cc, "cache key: rrsig rdata")
    one(r"let\s+cache_key\s*=\s*SigKey\(\s*signed_data,\s*sig_hash\.as_ref\(\)\.to_vec\(\),\s*key_hash\.as_ref\(\)\.to_vec\(\),?\s*\);", cc, "cache key components")
    one(r"if\s+let\s+Some\(ce\)\s*=\s*cache\.cache\.get\(&cache_key\)\.await\s*\{\s*return\s+ce;\s*\}\s*let\s+res\s*=\s*self\.check_sig\(sig,\s*signer_name,\s*key,\s*key_name,\s*key_tag\);\s*cache\.cache\.insert\(cache_key,\s*res\)\.await;\s*res\s*$", cc, "cache lookup / fill")
    one(r"struct\s+SigKey\(Vec<u8>,\s*Vec<u8>,\s*Vec<u8>\);", grp, "SigKey shape")
    defs.append(("sig_cache_key_is_signed_data_sig_key", "bool", "true"))
    # does check_sig_cached look at the clock before it trusts a cached verdict?
    pre = list(re.finditer(r"let\s+ts_now\s*=\s*Timestamp::now\(\);\s*if\s+!\(\s*ts_now\s*<=\s*sig\.data\(\)\.expiration\(\)\s*&&\s*ts_now\s*>=\s*sig\.data\(\)\.inception\(\)\s*\)\s*\{\s*return\s+false;\s*\}", cc))
    if len(pre) > 1 or (pre and pre[0].start() > cc.find("cache.cache.get")):
        raise GenError("check_sig_cached: time check not recognised")
    if not pre and ("Timestamp" in cc or "expiration" in cc):
        raise GenError("check_sig_cached: unrecognised use of signature times")
    defs.append(("sig_cache_checks_time_first", "bool", "true" if pre else "false"))
    tfs = fn_body(strip_comments(read("src/dnssec/validator/utilities.rs")), "ttl_for_sig")
    plain_sub = len(re.findall(r"sig\.data\(\)\.expiration\(\)\.into_int\(\)\s*-\s*Timestamp::now\(\)\.into_int\(\)", tfs))
    wrap_sub = len(re.findall(r"sig\s*\.data\(\)\s*\.expiration\(\)\s*\.into_int\(\)\s*\.wrapping_sub\(Timestamp::now\(\)\.into_int\(\)\)", tfs))
    if plain_sub + wrap_sub != 1:
        raise GenError("ttl_for_sig: subtraction not recognised")
    defs.append(("ttl_for_sig_wraps", "bool", "true" if wrap_sub else "false"))

    # ---- a child's DNSKEY RRset is verified with the key matching a DS (trust anchor: a configured key / DS)
    cn = fn_body(ctx, "create_child_node")
    one(r"let\s+r_dnskey\s*=\s*match\s+find_key_for_ds\(ds,\s*dnskey_group\)\s*\{\s*None\s*=>\s*continue,", cn, "child: key selected by DS")
    one(r"let\s+key_tag\s*=\s*dnskey\.key_tag\(\);\s*let\s+key_name\s*=\s*r_dnskey\.owner\(\)\.to_name\(\);\s*for\s+sig\s+in\s+\(\*dnskey_group\)\.clone\(\)\.sig_iter\(\)\s*\{\s*if\s+sig\.data\(\)\.key_tag\(\)\s*!=\s*key_tag\s*\{\s*continue;\s*\}\s*if\s+dnskey_group\s*\.check_sig_cached\(\s*sig,\s*&key_name,\s*dnskey,\s*&key_name,\s*key_tag,\s*&self\.isig_cache,?\s*\)", cn, "child: DNSKEY RRset checked with the DS key only")
    one(r"\.filter\(\|ds\|\s*\{\s*supported_algorithm\(&ds\.algorithm\(\)\)\s*&&\s*supported_digest\(&ds\.digest_type\(\)\)\s*\}\)", cn, "child: only supported DS records")
    fk = fn_body(ctx, "find_key_for_ds")
    one(r"if\s+dnskey\.algorithm\(\)\s*!=\s*ds_alg\s*\{\s*continue;\s*\}\s*if\s+dnskey\.key_tag\(\)\s*!=\s*ds_tag\s*\{\s*continue;\s*\}", fk, "find_key_for_ds algorithm / tag")
    one(r"if\s+ds\.digest\(\)\s*==\s*digest\.as_ref\(\)\s*\{\s*return\s+Some\(key\.clone\(\)\);", fk, "find_key_for_ds digest")
    ta = fn_body(ctx, "trust_anchor")
    one(r"let\s+opt_dnskey_rr\s*=\s*if\s+ta_rr\.rtype\(\)\s*==\s*Rtype::DNSKEY\s*\{\s*has_key\(dnskeys,\s*ta_rr\)\s*\}\s*else\s+if\s+ta_rr\.rtype\(\)\s*==\s*Rtype::DS\s*\{\s*has_ds\(dnskeys,\s*ta_rr\)\s*\}\s*else\s*\{\s*None\s*\};", ta, "anchor: key selected by the anchor")
    one(r"if\s+sig\.data\(\)\.key_tag\(\)\s*!=\s*key_tag\s*\{\s*continue;\s*\}\s*if\s+dnskeys\s*\.check_sig_cached\(\s*sig,\s*&ta_owner,\s*dnskey,\s*&key_name,\s*key_tag,\s*sig_cache,?\s*\)", ta, "anchor: DNSKEY RRset checked with the anchor key only")
    hk = fn_body(ctx, "has_key")
    one(r"if\s+tkey_dnskey\s*!=\s*key_dnskey\s*\{\s*continue;\s*\}", hk, "has_key compares the key")
    hd = fn_body(ctx, "has_ds")
    one(r"find_key_for_ds\(ds,\s*dnskeys\)\s*$", hd, "has_ds is find_key_for_ds")
    for cond in (r"tkey\.owner\(\)\.to_name::<Bytes>\(\)\s*!=\s*key\.owner\(\)", r"tkey\.class\(\)\s*!=\s*key\.class\(\)", r"tkey\.rtype\(\)\s*!=\s*key\.rtype\(\)"):
        one(r"if\s+" + cond + r"\s*\{\s*continue;", hk, "has_key condition")
    # the digest types DnskeyExt::digest can compute are exactly the supported_digest list
    dgf = fn_body(base, "digest", after="impl<Octets> DnskeyExt for Dnskey<Octets>")
    arms = re.findall(r"DigestAlgorithm::([A-Z0-9]+)\s*=>\s*DigestBuilder::new", dgf)
    if arms != eq_list(fn_body(base, "supported_digest"), "DigestAlgorithm", "supported_digest"):
        raise GenError("DnskeyExt::digest arms %r differ from supported_digest" % arms)
    one(r"_\s*=>\s*\{\s*return\s+Err\(AlgorithmError::Unsupported\);", dgf, "digest: other types unsupported")
    defs.append(("dnskey_rrset_verified_with_ds_key", "bool", "true"))

    # ---- validity of cached nodes: which TTLs / signature lifetimes limit a secure node
    def limited(body, pat, what):
        k = len(re.findall(pat, body))
        if k > 1:
            raise GenError("%s: limit applied %d times" % (what, k))
        return "true" if k == 1 else "false"
    SIGL = r"let\s+sig_ttl\s*=\s*ttl_for_sig\(sig\)\.into_duration\(\);\s*let\s+ttl\s*=\s*min\(ttl,\s*sig_ttl\);"
    defs.append(("anchor_node_limited_by_sig", "bool", limited(ta, SIGL, "trust_anchor signature lifetime")))
    defs.append(("anchor_node_limited_by_dnskey_ttl", "bool", limited(ta, r"let\s+ttl\s*=\s*config\.max_node_validity;\s*let\s+dnskey_ttl\s*=\s*dnskeys\.min_ttl\(\)\.into_duration\(\);\s*let\s+ttl\s*=\s*min\(ttl,\s*dnskey_ttl\);", "trust_anchor DNSKEY TTL")))
    if len(re.findall(r"valid_for:\s*ttl,", ta)) + len(re.findall(r"Node::new_delegation\(\s*ta_owner,\s*ValidationState::Secure,\s*\w+,\s*None,\s*ttl,?\s*\)", ta)) != 1:
        raise GenError("trust_anchor: construction of the secure node not recognised")
    defs.append(("child_node_limited_by_dnskey_sig", "bool", limited(cn, SIGL, "create_child_node DNSKEY signature lifetime")))
    defs.append(("child_node_limited_by_dnskey_ttl", "bool", limited(cn, r"let\s+dnskey_ttl\s*=\s*dnskey_group\.min_ttl\(\)\.into_duration\(\);\s*let\s+ttl\s*=\s*min\(ttl,\s*dnskey_ttl\);", "create_child_node DNSKEY TTL")))
    defs.append(("child_node_limited_by_ds", "bool", limited(cn, r"let\s+ds_ttl\s*=\s*ds_group\.min_ttl\(\)\.into_duration\(\);\s*let\s+ttl\s*=\s*min\(parent_ttl,\s*ds_ttl\);\s*let\s*\(state,\s*_wildcard,\s*ede,\s*sig_ttl,\s*_\)\s*=\s*ds_group\s*\.validate_with_node\(node,\s*&self\.isig_cache,\s*&self\.config\)\s*\.await;\s*let\s+ttl\s*=\s*min\(ttl,\s*sig_ttl\);", "create_child_node DS TTL and signature lifetime")))
    one(r"return\s+Ok\(Node::new_delegation\(\s*key_name,\s*ValidationState::Secure,\s*dnskey_vec,\s*None,\s*ttl,?\s*\)\);", cn, "create_child_node secure node")
    vwn = fn_body(grp, "validate_with_node")
    defs.append(("group_ttl_limited_by_sig", "bool", limited(vwn, r"let\s+sig_ttl\s*=\s*ttl_for_sig\(sig_rec\);[^;]*;\s*let\s+ttl\s*=\s*min\(ttl,\s*sig_ttl\.into_duration\(\)\);", "validate_with_node signature lifetime")))
    tfs2 = fn_body(ut, "ttl_for_sig") if False else None
    nd = strip_comments(read("src/dnssec/validator/context.rs"))
    one(r"pub\s+fn\s+expired\(&self\)\s*->\s*bool\s*\{\s*let\s+elapsed\s*=\s*self\.created_at\.elapsed\(\);\s*elapsed\s*>\s*self\.valid_for\s*\}", nd, "Node::expired")
    one(r"let\s+ce\s*=\s*self\.node_cache\.get\(name\)\.await\?;\s*if\s+ce\.expired\(\)\s*\{\s*return\s+None;\s*\}", nd, "cache_lookup drops expired nodes")

    # ---- the validating transport: which header flags the client gets
    vt = strip_comments(read("src/net/client/validator.rs"))
    gri = fn_body(vt, "get_response_impl")
    with_ad = len(re.findall(r"if\s+self\.cd\s*\{\s*if\s+self\.dnssec_ok\s*\{\s*if\s+response_msg\.header\(\)\.ad\(\)\s*\|\|\s*!response_msg\.header\(\)\.cd\(\)\s*\{", gri))
    without_ad = len(re.findall(r"if\s+self\.cd\s*\{\s*if\s+self\.dnssec_ok\s*\{\s*if\s+!response_msg\.header\(\)\.cd\(\)\s*\{", gri))
    if with_ad + without_ad != 1:
        raise GenError("validator transport: CD+DO pass-through condition not recognised")
    defs.append(("conn_cd_do_repairs_ad", "bool", "true" if with_ad else "false"))
    one(r"response_msg\.header_mut\(\)\.set_ad\(false\);\s*response_msg\.header_mut\(\)\.set_cd\(true\);", gri, "transport: CD+DO repair clears AD, sets CD")
    one(r"let\s+msg\s*=\s*remove_dnssec\(&response_msg,\s*false,\s*self\.cd\);", gri, "transport: CD without DO strips DNSSEC, AD false")
    one(r"self\.dnssec_ok\s*=\s*self\.request_msg\.dnssec_ok\(\);", gri, "transport: DO of the request")
    one(r"self\.cd\s*=\s*self\.request_msg\.header\(\)\.cd\(\);", gri, "transport: CD of the request")
    one(r"ValidationState::Secure\s*=>\s*\{\s*if\s+self\.dnssec_ok\s*\{\s*let\s+mut\s+response_msg\s*=\s*Message::from_octets\(\s*response_msg\s*\.as_slice\(\)\s*\.to_vec\(\),?\s*\)\?;\s*response_msg\s*\.header_mut\(\)\s*\.set_ad\(true\);\s*response_msg\s*\.header_mut\(\)\s*\.set_cd\(false\);", gri, "transport: secure sets AD, clears CD")
    one(r"remove_dnssec\(\s*response_msg,\s*self\.request_msg\.header\(\)\.ad\(\),\s*false,?\s*\)", gri, "transport: secure without DO: AD as requested")
    one(r"ValidationState::Bogus\s*=>\s*\{\s*serve_fail\(response_msg,\s*opt_ede\)", gri, "transport: bogus is SERVFAIL")
    if len(re.findall(r"set_ad\(true\)", gri)) != 1:
        raise GenError("validator transport: AD is set in more than one place")
    sfb = fn_body(vt, "serve_fail")
    one(r"target\.header_mut\(\)\.set_rcode\(Rcode::SERVFAIL\);\s*target\.header_mut\(\)\.set_ad\(false\);", sfb, "serve_fail clears AD")
    rdb = fn_body(vt, "remove_dnssec")
    one(r"if\s+ad\s*!=\s*source\.header\(\)\.ad\(\)\s*\{\s*target\.header_mut\(\)\.set_ad\(ad\);\s*\}\s*if\s+cd\s*!=\s*source\.header\(\)\.cd\(\)\s*\{\s*target\.header_mut\(\)\.set_cd\(cd\);", rdb, "remove_dnssec sets AD / CD as told")

    # ---- the node cache path
    gn = fn_body(ctx, "get_node")
    fc = fn_body(ctx, "find_closest_node")
    one(r"^\s*if\s+let\s+Some\(node\)\s*=\s*self\.cache_lookup\(name\)\.await\s*\{\s*return\s+Ok\(node\);\s*\}", gn, "get_node: exact cache hit first")
    one(r"if\s+ta_owner\.name_eq\(name\)\s*\{", gn, "get_node: the anchor itself")
    one(r"let\s+mut\s+signer_node\s*=\s*node\.clone\(\);", gn, "get_node: signer node starts as the closest node")
    one(r"if\s+!node\.intermediate\(\)\s*\{\s*signer_node\s*=\s*node\.clone\(\);\s*\}", gn, "get_node: intermediate nodes do not become signer")
    one(r"ValidationState::Secure\s*=>\s*\(\),\s*ValidationState::Insecure\s*\|\s*ValidationState::Bogus\s*=>\s*\{\s*return\s+Ok\(node\);\s*\}\s*ValidationState::Indeterminate\s*=>\s*\{\s*return\s+Ok\(node\);", gn, "get_node: only secure nodes are descended from")
    one(r"if\s+ta_owner\.name_eq\(&curr\)\s*\{", fc, "find_closest_node: stop at the anchor")
    plain_hit = len(re.findall(r"if\s+let\s+Some\(node\)\s*=\s*self\.cache_lookup\(&curr\)\.await\s*\{\s*return\s+Ok\(\(node,\s*names\)\);\s*\}", fc))
    skip_hit = len(re.findall(r"if\s+let\s+Some\(node\)\s*=\s*self\.cache_lookup\(&curr\)\.await\s*\{\s*if\s+!node\.intermediate\(\)\s*\{\s*return\s+Ok\(\(node,\s*names\)\);\s*\}\s*\}", fc))
    if plain_hit + skip_hit != 1:
        raise GenError("find_closest_node: cache branch not recognised")
    defs.append(("closest_skips_intermediate", "bool", "true" if skip_hit else "false"))
    one(r"names\.push_front\(curr\.clone\(\)\);\s*curr\s*=\s*curr\s*\.parent\(\)", fc, "find_closest_node: walk to the parent")

    # ---- NSEC3 closest-encloser walk: the candidate flag is reset whenever a name is neither matched nor usable
    nx3 = fn_body(src, "nsec3_for_not_exists")
    if len(re.findall(r"maybe_ce_exists\s*=\s*true;", nx3)) != 2 or len(re.findall(r"maybe_ce_exists\s*=\s*false;", nx3)) != 3:
        raise GenError("nsec3_for_not_exists: maybe_ce_exists assignments changed")
    one(r"if\s+n\s*==\s*signer_name\s*\{\s*maybe_ce\s*=\s*n;\s*maybe_ce_exists\s*=\s*true;\s*continue;\s*\}", nx3, "walk: the signer exists")
    one(r"if\s+ownerhash\s*==\s*hash\.as_ref\(\)\s*\{\s*let\s+types\s*=\s*nsec3\.types\(\);\s*if\s+types\.contains\(Rtype::DNAME\)\s*\|\|\s*\(types\.contains\(Rtype::NS\)\s*&&\s*!types\.contains\(Rtype::SOA\)\)", nx3, "walk: match rules out DNAME / delegation")
    one(r"if\s+nsec3_in_range\(hash\.as_ref\(\),\s*&ownerhash,\s*nsec3\.next_owner\(\)\)\s*\{\s*if\s+maybe_ce_exists\s*\{", nx3, "walk: cover counts only right below a matched name")
    one(r"maybe_ce_exists\s*=\s*false;\s*continue\s+'next_name;\s*\}\s*\}\s*maybe_ce_exists\s*=\s*false;\s*\}\s*\(\s*Nsec3NXState::Nothing,", nx3, "walk: flag reset after an unmatched name")
    nxd = fn_body(src, "nsec3_for_nxdomain")
    one(r"nsec3_for_not_exists_no_ce\(\s*&star_name,", nxd, "nsec3 nxdomain: wildcard cover required")
    defs.append(("nsec3_walk_resets_flag", "bool", "true"))

    # ---- insecure-delegation decision (nsec_for_ds / nsec3_for_ds) and the NSEC3 NODATA rules
    nfd = fn_body(ctx, "nsec_for_ds")
    got = ["rtype" if b_ else a for a, b_ in types_tested(nfd, "nsec_for_ds")]
    if got != ["DS", "SOA", "NS", "DNAME", "NS", "SOA"]:
        raise GenError("nsec_for_ds: type bits tested changed: %r" % got)
    if len(re.findall(r"if\s+wildcard\.is_some\(\)", nfd)) != 2:
        raise GenError("nsec_for_ds: wildcard exclusions changed")
    one(r"if\s+types\.contains\(Rtype::NS\)\s*\{\s*return\s*\(CNsecState::InsecureDelegation,\s*ttl,\s*None\);", nfd, "nsec_for_ds: NS without DS/SOA is an insecure delegation")
    one(r"if\s+let\s+Some\(wildcard\)\s*=\s*wildcard\s*\{\s*if\s+\*target\s*!=\s*wildcard", nfd, "nsec_for_ds: ENT wildcard rule")
    if len(re.findall(r"g\.validate_with_node\(node,\s*sig_cache,\s*config\)\.await", nfd)) != 3:
        raise GenError("nsec_for_ds: every branch must validate the record")
    n3d = fn_body(ctx, "nsec3_for_ds")
    got = ["rtype" if b_ else a for a, b_ in types_tested(n3d, "nsec3_for_ds")]
    if got != ["DS", "SOA", "NS"]:
        raise GenError("nsec3_for_ds: type bits tested changed: %r" % got)
    if len(re.findall(r"g\.validate_with_node\(node,\s*sig_cache,\s*config\)\.await", n3d)) != 3:
        raise GenError("nsec3_for_ds: every branch must validate the record")
    one(r"if\s+!nsec3\.opt_out\(\)\s*\{", n3d, "nsec3_for_ds: covering record needs Opt-Out")
    one(r"if\s+!target\.ends_with\(&owner\.parent\(\)\.unwrap_or_else\(Name::root\)\)", n3d, "nsec3_for_ds: zone check")
    one(r"if\s+first\s*==\s*Label::from_slice\(hash\.to_string\(\)\.as_ref\(\)\)", n3d, "nsec3_for_ds: exact match")
    one(r"if\s+iterations\s*>\s*config\.nsec3_iter_bogus\s*\{", n3d, "nsec3_for_ds: bogus iteration limit")
    ccn = fn_body(ctx, "create_child_node")
    one(r"CNsecState::Nothing\s*=>\s*\(\),\s*\}\s*let\s*\(state,\s*ede,\s*ttl\)\s*=\s*nsec3_for_ds\(", ccn, "create_child_node: NSEC3 only after NSEC found nothing")
    n3nd = fn_body(src, "nsec3_for_nodata")
    got = ["rtype" if b_ else a for a, b_ in types_tested(n3nd, "nsec3_for_nodata")]
    if got != ["rtype", "CNAME", "NS", "SOA", "NS", "SOA"]:
        raise GenError("nsec3_for_nodata: type bits tested changed: %r" % got)
    if len(re.findall(r"if\s+nsec3\.opt_out\(\)", fn_body(src, "nsec3_for_not_exists"))) != 1 or len(re.findall(r"if\s+nsec3\.opt_out\(\)", fn_body(src, "nsec3_for_not_exists_no_ce"))) != 1:
        raise GenError("opt-out tests of the NSEC3 non-existence helpers changed")
    g3b = fn_body(src, "get_checked_nsec3")
    one(r"if\s+rrs\.len\(\)\s*!=\s*1\b", g3b, "get_checked_nsec3 single record")
    one(r"if\s+let\s+ValidationState::Secure\s*=\s*group\.state\(\)\s*\{\s*\}\s*else\s*\{\s*return\s+Ok\(None\);", g3b, "get_checked_nsec3 secure")
    one(r"if\s+group\.signer_name\(\)\s*!=\s*signer_name\s*\{\s*return\s+Ok\(None\);", g3b, "get_checked_nsec3 signer")
    one(r"if\s+!supported_nsec3_hash\(nsec3\.hash_algorithm\(\)\)\s*\{\s*return\s+Ok\(None\);", g3b, "get_checked_nsec3 algorithm")
    defs.append(("ds_decision_checks_ok", "bool", "true"))

    # ---- validate_groups / map_maybe_secure
    vg = fn_body(ctx, "validate_groups")
    m = one(r"if\s+let\s+ValidationState::(\w+)\s*=\s*vg\.state\(\)\s*\{\s*return\s+VGResult::Bogus\(vg\.ede\(\)\);", vg, "validate_groups abort state")
    # states: 0 Secure 1 Insecure 2 Bogus 3 Indeterminate
    st = {"Secure": 0, "Insecure": 1, "Bogus": 2, "Indeterminate": 3}
    defs.append(("vg_abort_state", "N", "%d%%N" % st[m.group(1)]))
    # validate_msg: what the verdict of a positive answer starts from: the constant
    # Secure (only the groups on the CNAME chain and the answering group count) or
    # a fold over the states of all answer groups
    vm = fn_body(ctx, "validate_msg")
    n_const = len(re.findall(r"let\s+maybe_secure\s*=\s*ValidationState::Secure\s*;", vm))
    n_fold = len(re.findall(r"let\s+maybe_secure\s*=\s*answers\s*\.iter\(\)\s*\.fold\(\s*ValidationState::Secure\s*,\s*\|acc,\s*g\|\s*\{?\s*map_maybe_secure\(g\.state\(\),\s*acc\)\s*\}?\s*,?\s*\)\s*;", vm))
    if n_const + n_fold != 1:
        raise GenError("validate_msg: initial maybe_secure not recognised (const %d, fold %d)" % (n_const, n_fold))
    one(r"let\s+maybe_secure\s*=\s*map_maybe_secure\(state,\s*maybe_secure\);\s*if\s+maybe_secure\s*==\s*ValidationState::Bogus\s*\{\s*return\s+Ok\(\(maybe_secure,\s*ede\)\);", vm, "validate_msg chain state")
    defs.append(("answer_init_is_const", "bool", "true" if n_const == 1 else "false"))
    ut = strip_comments(read("src/dnssec/validator/utilities.rs"))
    mm = fn_body(ut, "map_maybe_secure")
    one(r"^\s*if\s+let\s+ValidationState::Secure\s*=\s*result\s*\{\s*maybe_secure\s*\}\s*else\s*\{\s*result\s*\}\s*$", mm, "map_maybe_secure")
    defs.append(("map_maybe_secure_ok", "bool", "true"))
    return defs

if __name__ == "__main__":
    main("C14", "/repo/src/dnssec/validator/{nsec,group,context,base,utilities}.rs, base/iana/*.rs, rdata/{nsec3,dnssec}.rs", build)
