#!/usr/bin/env python3
"""tools/muttest.py <Cxx> <patch.diff> [--demo demo.rs [--features F]] [--tier quick] [--keep]

Run the check of property Cxx against a MUTATED copy of /repo without touching
/repo or /verif: a scratch git worktree of /repo gets the patch, /verif is
copied (with its build cache) next to it with the harness pointed at the
scratch repo, and `./check Cxx` runs there with VERIF_REPO set. Optionally
verifies the seeding contract first: pinned test-suite passes with the patch,
the demonstration fails with the patch and passes without it.
Prints a JSON summary; exit 0 if the check raised VIOLATION (mutation caught),
1 if the check stayed silent (missed), 2 on infrastructure trouble."""
import json, os, re, shutil, subprocess, sys, tempfile, time

VERIF = os.path.dirname(os.path.dirname(os.path.abspath(__file__)))
REPO = "/repo"


def sh(cmd, cwd=None, timeout=3600, env=None):
    e = dict(os.environ)
    e["CARGO_NET_OFFLINE"] = "true"
    if env:
        e.update(env)
    p = subprocess.run(cmd, cwd=cwd, shell=isinstance(cmd, str), stdout=subprocess.PIPE, stderr=subprocess.STDOUT,
                       timeout=timeout, env=e)
    return p.returncode, p.stdout.decode("utf-8", "replace")


def main():
    a = sys.argv[1:]
    prop, patch = a[0], os.path.abspath(a[1])
    demo = None
    feats = None
    tier = "quick"
    keep = False
    skip_tests = False
    i = 2
    while i < len(a):
        if a[i] == "--demo":
            demo = os.path.abspath(a[i + 1]); i += 1
        elif a[i] == "--features":
            feats = a[i + 1]; i += 1
        elif a[i] == "--tier":
            tier = a[i + 1]; i += 1
        elif a[i] == "--keep":
            keep = True
        elif a[i] == "--skip-tests":
            skip_tests = True
        i += 1
    root = tempfile.mkdtemp(prefix="mut-", dir="/tmp")
    wt = os.path.join(root, "repo")
    res = dict(property=prop, patch=patch, root=root)
    try:
        rc, out = sh(["git", "-C", REPO, "worktree", "add", "--detach", wt, "HEAD"])
        if rc != 0:
            print(out); return 2
        rc, out = sh(["git", "apply", patch], cwd=wt)
        if rc != 0:
            res["error"] = "patch does not apply: " + out[-500:]
            print(json.dumps(res, indent=1)); return 2
        tgt = os.path.join(root, "repo-target")
        if not skip_tests:
            t0 = time.time()
            rc, out = sh(["cargo", "test", "--workspace", "--no-fail-fast", "--offline"], cwd=wt, env={"CARGO_TARGET_DIR": tgt})
            m = re.search(r"test result: (\w+)\. (\d+) passed; (\d+) failed", out)
            res["suite_with_patch"] = dict(rc=rc, passed=int(m.group(2)) if m else None, failed=int(m.group(3)) if m else None,
                                           wall_s=round(time.time() - t0))
            if demo:
                name = "seed_demo"
                shutil.copy(demo, os.path.join(wt, "tests", name + ".rs"))
                cmd = ["cargo", "test", "--offline", "--test", name]
                if feats:
                    cmd += ["--features", feats]
                rc1, out1 = sh(cmd, cwd=wt, env={"CARGO_TARGET_DIR": tgt})
                res["demo_with_patch"] = dict(rc=rc1, tail=out1[-600:])
                sh(["git", "apply", "-R", patch], cwd=wt)
                rc2, out2 = sh(cmd, cwd=wt, env={"CARGO_TARGET_DIR": tgt})
                res["demo_without_patch"] = dict(rc=rc2, tail=out2[-300:])
                sh(["git", "apply", patch], cwd=wt)
                os.remove(os.path.join(wt, "tests", name + ".rs"))
            shutil.rmtree(tgt, ignore_errors=True)
        # copy /verif
        vc = os.path.join(root, "verif")
        rc, out = sh(["rsync", "-a", "--exclude", ".git", "--exclude", "replays", "--exclude", "build/run",
                      "--exclude", "seeded", "--exclude", "build/target/*/incremental", VERIF + "/", vc + "/"])
        if rc not in (0, 24):
            res["error"] = "rsync failed: " + out[-300:]
            print(json.dumps(res, indent=1)); return 2
        ct = os.path.join(vc, "harness", "Cargo.toml")
        s = open(ct).read().replace('path = "/repo"', 'path = "%s"' % wt)
        open(ct, "w").write(s)
        t0 = time.time()
        rc, out = sh(["./check", prop, "--tier", tier], cwd=vc, env={"VERIF_REPO": wt}, timeout=7200)
        res["check_rc"] = rc
        res["check_wall_s"] = round(time.time() - t0)
        res["check_output"] = out[-3000:]
        m = re.search(r"VIOLATION property=\S+ replay=(\S+)(.*)", out)
        res["violation"] = bool(m)
        res["no_failing_input_found"] = bool(m and "no-failing-input-found" in m.group(2))
        if m:
            rp = os.path.join(vc, m.group(1))
            if os.path.exists(rp):
                res["replay"] = json.load(open(rp))
        print(json.dumps(res, indent=1))
        return 0 if res["violation"] else 1
    finally:
        if not keep:
            sh(["git", "-C", REPO, "worktree", "remove", "--force", wt])
            shutil.rmtree(root, ignore_errors=True)
            sh(["git", "-C", REPO, "worktree", "prune"])


if __name__ == "__main__":
    sys.exit(main())
