(* C17 model: base/serial.rs  Serial::{partial_cmp, add, canonical_cmp},
   rdata/dnssec.rs Timestamp (delegates to Serial),
   zonetree/in_memory/versioned.rs Version::next (= add 1).
   u32 values are N below 2^32; the wrap of wrapping_add is written out. *)
From Coq Require Import NArith Bool.
Local Open Scope bool_scope.
From DV Require Import Base.Outcome C17.Gen.
Local Open Scope N_scope.

Definition M32 : N := 4294967296.

(* u32 subtraction as Rust does it with overflow checks on: a - b panics when
   b > a.  Inside partial_cmp the subtraction is only reached on the branch
   where it cannot underflow; the model keeps the panic so that this is a
   theorem. *)
Definition u32_sub (a b : N) : outcome N :=
  if b <=? a then Ok (a - b) else Panic 1.

Definition serial_partial_cmp (a b : N) : outcome (option comparison) :=
  match a ?= b with
  | Eq => Ok arm_eq
  | Lt =>
      do sub <- (if lt_sub_other_minus_self then u32_sub b a else u32_sub a b);
      Ok (match sub ?= half with
          | Lt => arm_lt_lt | Gt => arm_lt_gt | Eq => arm_lt_eq end)
  | Gt =>
      do sub <- (if gt_sub_self_minus_other then u32_sub a b else u32_sub b a);
      Ok (match sub ?= half with
          | Lt => arm_gt_lt | Gt => arm_gt_gt | Eq => arm_gt_eq end)
  end.

(* Serial::add: assert!(other <= 0x7FFF_FFFF); Serial(self.0.wrapping_add(other)) *)
Definition serial_add (a n : N) : outcome N :=
  if (if add_guard_is_le then n <=? add_max else n <? add_max)
  then Ok (if add_wraps then (a + n) mod M32 else a + n)
  else Panic 2.

Definition serial_canonical_cmp (a b : N) : comparison := a ?= b.

Definition version_next (a : N) : outcome N := serial_add a version_next_addend.

(* RFC 1982 section 3.2, transcribed for SERIAL_BITS = 32:
   i1 < i2 iff (i1 < i2 and i2 - i1 < 2^31) or (i1 > i2 and i1 - i2 > 2^31)
   i1 > i2 iff (i1 < i2 and i2 - i1 > 2^31) or (i1 > i2 and i1 - i2 < 2^31) *)
Definition rfc_lt (i1 i2 : N) : Prop :=
  (i1 < i2 /\ i2 - i1 < 2147483648) \/ (i1 > i2 /\ i1 - i2 > 2147483648).
Definition rfc_gt (i1 i2 : N) : Prop :=
  (i1 < i2 /\ i2 - i1 > 2147483648) \/ (i1 > i2 /\ i1 - i2 < 2147483648).

(* closed form: classification of the wrapped difference (b - a) mod 2^32 *)
Definition classify (d : N) : option comparison :=
  if d =? 0 then Some Eq
  else if d <? 2147483648 then Some Lt
  else if d =? 2147483648 then None
  else Some Gt.
Definition wdiff (a b : N) : N := (b + M32 - a) mod M32.

(* executable entry points for the correspondence driver *)
Definition c17_cmp (a b : N) : outcome (option comparison) := serial_partial_cmp a b.
Definition c17_add (a n : N) : outcome N := serial_add a n.
Definition c17_next (a : N) : outcome N := version_next a.
Definition c17_ccmp (a b : N) : comparison := serial_canonical_cmp a b.

(* ---- call sites deciding "which is newer" with the Serial order ----------
   PartialOrd-derived operators on Serial / Timestamp: `a <= b` is true iff
   partial_cmp is Some(Less | Equal), `a >= b` iff Some(Greater | Equal),
   `a < b` iff Some(Less); all false when the comparison is undefined. *)
Definition serial_le (a b : N) : bool :=
  match serial_partial_cmp a b with Ok (Some Lt) | Ok (Some Eq) => true | _ => false end.
Definition serial_ge (a b : N) : bool :=
  match serial_partial_cmp a b with Ok (Some Gt) | Ok (Some Eq) => true | _ => false end.
Definition serial_lt (a b : N) : bool :=
  match serial_partial_cmp a b with Ok (Some Lt) => true | _ => false end.

(* dnssec/validator/group.rs Group::check_sig:
   if !(ts_now <= rrsig.expiration() && ts_now >= rrsig.inception()) { return false } *)
Definition sig_time_ok (now inception expiration : N) : bool :=
  if sig_time_uses_serial_order
  then serial_le now expiration && serial_ge now inception
  else (now <=? expiration) && (inception <=? now).

(* net/server/middleware/xfr/service.rs: `if query_serial >= soa.serial()` ->
   answer an IXFR query with the single SOA (client is up to date) *)
Definition ixfr_client_up_to_date (query_serial zone_serial : N) : bool :=
  if ixfr_uptodate_is_serial_ge then serial_ge query_serial zone_serial
  else zone_serial <=? query_serial.

(* zonetree/types.rs InMemoryZoneDiffBuilder::build:
   `start_serial == end_serial || end_serial < start_serial` -> error *)
Definition diff_range_rejected (start_serial end_serial : N) : bool :=
  if diff_range_rejects_eq_or_serial_lt
  then (start_serial =? end_serial) || serial_lt end_serial start_serial
  else (end_serial <=? start_serial).

Definition c17_sigtime (now i e : N) : bool := sig_time_ok now i e.
Definition c17_uptodate (q z : N) : bool := ixfr_client_up_to_date q z.
Definition c17_diffrange (s e : N) : bool := diff_range_rejected s e.

(* ---- date notation of signature times (rdata/dnssec.rs Timestamp::scan /
   FromStr): YYYYMMDDHHmmSS -> seconds since the epoch, then `as u32`.
   days_from_civil is the proleptic Gregorian day count (Hinnant's algorithm),
   valid for years >= 1 (the harness uses 1970..9999). *)
From Coq Require Import ZArith.
Definition days_from_civil (y m d : Z) : Z :=
  let y' := (if (m <=? 2)%Z then y - 1 else y)%Z in
  let era := (y' / 400)%Z in
  let yoe := (y' - era * 400)%Z in
  let mp := ((m + 9) mod 12)%Z in
  let doy := ((153 * mp + 2) / 5 + d - 1)%Z in
  let doe := (yoe * 365 + yoe / 4 - yoe / 100 + doy)%Z in
  (era * 146097 + doe - 719468)%Z.
Definition epoch_secs (y mo d h mi s : Z) : Z :=
  (days_from_civil y mo d * 86400 + h * 3600 + mi * 60 + s)%Z.
Definition timestamp_of_secs (secs : Z) : N :=
  if date_cast_wraps then Z.to_N (secs mod 4294967296)%Z
  else Z.to_N (Z.max 0 (Z.min secs 4294967295)).
Definition timestamp_of_date (y mo d h mi s : Z) : N :=
  timestamp_of_secs (epoch_secs y mo d h mi s).
Definition c17_date (y mo d h mi s : N) : N :=
  timestamp_of_date (Z.of_N y) (Z.of_N mo) (Z.of_N d) (Z.of_N h) (Z.of_N mi) (Z.of_N s).

(* ---- Serial from a point in time (base/serial.rs From<jiff::Timestamp>,
   From<chrono::DateTime>): seconds since the epoch (signed, 64 bit), `as u32`.
   Times before 1970 and after 2106 are legal inputs of both conversions. *)
Definition serial_of_time (secs : Z) : N :=
  if from_time_cast_wraps then Z.to_N (secs mod 4294967296)%Z
  else Z.to_N (Z.max 0 (Z.min secs 4294967295)).
Definition c17_fromtime (negative : bool) (magnitude : N) : N :=
  serial_of_time (if negative then (- Z.of_N magnitude)%Z else Z.of_N magnitude).

(* ---- commit(true) of the in-memory zone (zonetree/in_memory/write.rs commit /
   bump_soa_serial): `old` is the published SOA serial; `written` is the serial of
   the SOA the writer put into the new version, if it wrote one (the other SOA
   fields as published). The serial is bumped exactly when the SOA was left alone. *)
Definition commit_serial (old : N) (written : option N) : outcome N :=
  match written with
  | None => serial_add old commit_bump_addend
  | Some z => if commit_bumps_iff_soa_untouched
              then (if z =? old then serial_add old commit_bump_addend else Ok z)
              else (if z <=? old then serial_add old commit_bump_addend else Ok z)
  end.
Definition c17_commit (old : N) (has_written : bool) (z : N) : outcome N :=
  commit_serial old (if has_written then Some z else None).
