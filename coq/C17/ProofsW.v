(* C17 widening round: further property-level theorems over the unchanged model. *)
From Coq Require Import NArith Lia ZArith Bool.
Local Open Scope bool_scope.
From Coq Require Import ZifyN ZifyBool ZifyNat.
From DV Require Import Base.Outcome C17.Gen C17.Model C17.Proofs.
Local Open Scope N_scope.
Ltac Zify.zify_post_hook ::= Z.div_mod_to_equations.

Ltac brk := repeat match goal with
  | |- context [N.eqb ?x ?y] => destruct (N.eqb_spec x y)
  | |- context [N.ltb ?x ?y] => destruct (N.ltb_spec x y)
  | |- context [N.leb ?x ?y] => destruct (N.leb_spec x y) end.

Lemma ok_inj {A} (x y : A) : @Ok A x = Ok y <-> x = y.
Proof. split; [intros H; injection H; auto | intros; subst; auto]. Qed.
Lemma ok_inj1 {A} (x y : A) : @Ok A x = Ok y -> x = y.
Proof. intros H; injection H; auto. Qed.

(* ---- antisymmetry as one equation: swapping the operands mirrors the result *)
Definition flip_cmp (o : option comparison) : option comparison :=
  match o with Some c => Some (CompOpp c) | None => None end.

Lemma wdiff_flip_mod a b : u32 a -> u32 b -> wdiff b a = (M32 - wdiff a b) mod M32.
Proof. unfold u32, wdiff, M32. intros. lia. Qed.

Lemma classify_flip d : d < M32 -> classify ((M32 - d) mod M32) = flip_cmp (classify d).
Proof.
  unfold classify, M32. intros Hd.
  destruct (N.eqb_spec d 0) as [E|E].
  - subst. reflexivity.
  - replace ((4294967296 - d) mod 4294967296) with (4294967296 - d) by lia.
    brk; try reflexivity; lia.
Qed.

Lemma cmp_flip a b : u32 a -> u32 b ->
  exists o, serial_partial_cmp a b = Ok o /\ serial_partial_cmp b a = Ok (flip_cmp o).
Proof.
  intros Ha Hb. exists (classify (wdiff a b)).
  rewrite !cmp_closed_form by assumption. split; [reflexivity|].
  rewrite (wdiff_flip_mod a b) by assumption.
  rewrite classify_flip by (apply wdiff_range; assumption). reflexivity.
Qed.

Example cmp_flip_example :
  serial_partial_cmp 4294967295 5 = Ok (Some Lt) /\ serial_partial_cmp 5 4294967295 = Ok (flip_cmp (Some Lt)).
Proof. vm_compute. auto. Qed.

(* ---- invariance under Serial::add itself on both sides -------------------- *)
Lemma cmp_add_same a b n a' b' : u32 a -> u32 b ->
  serial_add a n = Ok a' -> serial_add b n = Ok b' ->
  serial_partial_cmp a' b' = serial_partial_cmp a b.
Proof.
  intros Ha Hb H1 H2.
  destruct (N.leb_spec n 2147483647) as [L|G].
  - rewrite add_total in H1, H2 by assumption.
    apply ok_inj1 in H1. apply ok_inj1 in H2. subst.
    apply cmp_shift_invariant; assumption.
  - apply (add_panics_iff a n) in G. rewrite G in H1. discriminate.
Qed.

Example cmp_add_same_example :
  serial_add 4294967290 100 = Ok 94 /\ serial_add 10 100 = Ok 110 /\
  serial_partial_cmp 94 110 = serial_partial_cmp 4294967290 10.
Proof. vm_compute. auto. Qed.

(* ---- the addend 0 and composition of additions ----------------------------- *)
Lemma add_zero a : u32 a ->
  serial_add a 0 = Ok a /\ serial_partial_cmp a a = Ok (Some Eq).
Proof.
  intros Ha. split.
  - rewrite add_total by lia. f_equal. unfold u32, M32 in *. lia.
  - apply cmp_antisym; auto.
Qed.

Example add_zero_example : serial_add 4294967295 0 = Ok 4294967295.
Proof. vm_compute. auto. Qed.

Lemma add_add a n m : n + m <= 2147483647 ->
  exists s, serial_add a n = Ok s /\ serial_add s m = serial_add a (n + m).
Proof.
  intros H. exists ((a + n) mod M32).
  rewrite !add_total by lia. split; [reflexivity|]. f_equal. unfold M32. lia.
Qed.

Example add_add_example :
  serial_add 4294967000 200 = Ok 4294967200 /\ serial_add 4294967200 200 = serial_add 4294967000 400.
Proof. vm_compute. auto. Qed.

(* ---- transitivity: holds exactly while the two steps sum below 2^31 -------- *)
Lemma wdiff_add a b c : u32 a -> u32 b -> u32 c ->
  wdiff a c = (wdiff a b + wdiff b c) mod M32.
Proof. unfold u32, wdiff, M32. intros. lia. Qed.

Lemma lt_lt_classified a b c : u32 a -> u32 b -> u32 c ->
  serial_partial_cmp a b = Ok (Some Lt) -> serial_partial_cmp b c = Ok (Some Lt) ->
  serial_partial_cmp a c = Ok (classify (wdiff a b + wdiff b c)).
Proof.
  intros Ha Hb Hc H1 H2.
  rewrite cmp_closed_form in H1, H2 by assumption. apply ok_inj1 in H1. apply ok_inj1 in H2.
  pose proof (classify_cases _ (wdiff_range a b Ha Hb)) as (_ & L1 & _ & _).
  pose proof (classify_cases _ (wdiff_range b c Hb Hc)) as (_ & L2 & _ & _).
  apply L1 in H1. apply L2 in H2.
  rewrite cmp_closed_form by assumption. rewrite (wdiff_add a b c) by assumption.
  do 2 f_equal. unfold M32. lia.
Qed.

Lemma lt_trans_bounded a b c : u32 a -> u32 b -> u32 c ->
  serial_partial_cmp a b = Ok (Some Lt) -> serial_partial_cmp b c = Ok (Some Lt) ->
  (serial_partial_cmp a c = Ok (Some Lt) <-> wdiff a b + wdiff b c < 2147483648).
Proof.
  intros Ha Hb Hc H1 H2.
  rewrite (lt_lt_classified a b c) by assumption.
  rewrite cmp_closed_form in H1, H2 by assumption. apply ok_inj1 in H1. apply ok_inj1 in H2.
  pose proof (classify_cases _ (wdiff_range a b Ha Hb)) as (_ & L1 & _ & _).
  pose proof (classify_cases _ (wdiff_range b c Hb Hc)) as (_ & L2 & _ & _).
  apply L1 in H1. apply L2 in H2.
  assert (R : wdiff a b + wdiff b c < M32) by (unfold M32; lia).
  pose proof (classify_cases _ R) as (_ & L3 & _ & _).
  rewrite ok_inj, L3. lia.
Qed.

Lemma lt_not_transitive : exists a b c, u32 a /\ u32 b /\ u32 c /\
  serial_partial_cmp a b = Ok (Some Lt) /\ serial_partial_cmp b c = Ok (Some Lt) /\
  serial_partial_cmp a c = Ok (Some Gt).
Proof.
  exists 0, 2147483647, 4294967294. unfold u32, M32. vm_compute. repeat split; reflexivity.
Qed.

Example lt_trans_example :
  serial_partial_cmp 4294967290 5 = Ok (Some Lt) /\ serial_partial_cmp 5 100 = Ok (Some Lt) /\
  serial_partial_cmp 4294967290 100 = Ok (Some Lt) /\ wdiff 4294967290 5 + wdiff 5 100 = 106.
Proof. vm_compute. auto. Qed.

(* ---- the derived operators agree with each other --------------------------- *)
Lemma ops_consistent a b : u32 a -> u32 b ->
  serial_le a b = serial_ge b a /\
  serial_lt a b = serial_le a b && negb (a =? b) /\
  ((serial_le a b = false /\ serial_ge a b = false) <-> serial_partial_cmp a b = Ok None).
Proof.
  intros Ha Hb.
  pose proof (classify_cases _ (wdiff_range a b Ha Hb)) as (_ & _ & N1 & _).
  rewrite serial_lt_spec, serial_le_spec, !serial_ge_spec, cmp_closed_form by assumption.
  rewrite ok_inj, N1.
  split; [reflexivity|].
  unfold u32, wdiff, M32 in *.
  split.
  - brk; cbn [andb negb]; try reflexivity; lia.
  - brk; split; try (intros [H1 H2]); try intros H1; try discriminate; try lia; auto.
Qed.

Example ops_example :
  serial_le 0 2147483648 = false /\ serial_ge 0 2147483648 = false /\
  serial_lt 4294967295 0 = true /\ serial_le 4294967295 0 = true /\ serial_ge 0 4294967295 = true.
Proof. vm_compute. auto 10. Qed.

(* ---- the zone-diff range check, characterised completely ------------------- *)
Lemma diff_range_spec s e : u32 s -> u32 e ->
  diff_range_rejected s e = (wdiff s e =? 0) || (2147483648 <? wdiff s e).
Proof.
  intros Hs He. unfold diff_range_rejected. cbv [diff_range_rejects_eq_or_serial_lt].
  rewrite serial_lt_spec by assumption.
  unfold u32, wdiff, M32 in *.
  brk; cbn [andb orb]; try reflexivity; lia.
Qed.

Lemma diff_range_shift s e k : u32 s -> u32 e ->
  diff_range_rejected ((s + k) mod M32) ((e + k) mod M32) = diff_range_rejected s e.
Proof.
  intros Hs He.
  assert (u32 ((s + k) mod M32)) by (unfold u32, M32; lia).
  assert (u32 ((e + k) mod M32)) by (unfold u32, M32; lia).
  rewrite !diff_range_spec by assumption. rewrite wdiff_shift by assumption. reflexivity.
Qed.

Example diff_range_examples :
  diff_range_rejected 7 7 = true /\ diff_range_rejected 5 4294967290 = true /\
  diff_range_rejected 4294967290 5 = false /\ diff_range_rejected 0 2147483648 = false.
Proof. vm_compute. auto. Qed.

(* ---- signature window shorter than 2^31 s: accepted times are exactly the
   window [inception, expiration] measured from inception ---------------------- *)
Lemma sig_time_window_exact now i e : u32 now -> u32 i -> u32 e ->
  wdiff i e < 2147483648 ->
  sig_time_ok now i e = (wdiff i now <=? wdiff i e).
Proof.
  intros Hn Hi He Hw. rewrite sig_time_ok_spec by assumption.
  unfold u32, wdiff, M32 in *.
  brk; cbn [andb]; try reflexivity; lia.
Qed.

Example sig_time_window_example :
  wdiff 4294963200 65536 = 69632 /\
  sig_time_ok 256 4294963200 65536 = true /\ sig_time_ok 65537 4294963200 65536 = false /\
  sig_time_ok 4294963199 4294963200 65536 = false.
Proof. vm_compute. auto. Qed.

(* ---- commit(true) always publishes a serial different from the old one ----- *)
Lemma commit_changes_serial old written : u32 old ->
  match written with Some z => u32 z | None => True end ->
  exists s, commit_serial old written = Ok s /\ u32 s /\ s <> old.
Proof.
  intros Ho Hw. unfold commit_serial. cbv [commit_bumps_iff_soa_untouched commit_bump_addend].
  assert (B : serial_add old 1 = Ok ((old + 1) mod M32)) by (apply add_total; lia).
  assert (U : u32 ((old + 1) mod M32) /\ (old + 1) mod M32 <> old) by (unfold u32, M32 in *; lia).
  destruct written as [z|].
  - destruct (N.eqb_spec z old) as [E|E].
    + exists ((old + 1) mod M32). tauto.
    + exists z. auto.
  - exists ((old + 1) mod M32). tauto.
Qed.

Example commit_changes_example :
  commit_serial 4294967295 (Some 4294967295) = Ok 0 /\ commit_serial 9 (Some 3) = Ok 3.
Proof. vm_compute. auto. Qed.

(* ---- k successive Version::next: closed form by induction ------------------- *)
Fixpoint next_iter (k : nat) (a : N) : outcome N :=
  match k with
  | O => Ok a
  | S k' => match next_iter k' a with Ok s => version_next s | r => r end
  end.

Lemma next_iter_closed k a : u32 a -> next_iter k a = Ok ((a + N.of_nat k) mod M32).
Proof.
  intros Ha. induction k as [|k IH].
  - cbn [next_iter]. f_equal. unfold u32, M32 in *. lia.
  - cbn [next_iter]. rewrite IH. unfold version_next. cbv [version_next_addend].
    rewrite add_total by lia. f_equal. rewrite Nat2N.inj_succ. unfold M32. lia.
Qed.

Lemma next_iter_gt k a : u32 a -> 1 <= N.of_nat k <= 2147483647 ->
  exists s, next_iter k a = Ok s /\ serial_partial_cmp a s = Ok (Some Lt).
Proof.
  intros Ha Hk. rewrite next_iter_closed by assumption.
  destruct (add_gt a (N.of_nat k) Ha Hk) as (s & Hs & _ & Hlt & _).
  rewrite add_total in Hs by lia. apply ok_inj1 in Hs. subst s. eauto.
Qed.

Lemma next_iter_half_undefined k a : u32 a -> N.of_nat k = 2147483648 ->
  exists s, next_iter k a = Ok s /\ serial_partial_cmp a s = Ok None.
Proof.
  intros Ha Hk. rewrite next_iter_closed by assumption. rewrite Hk.
  eexists. split; [reflexivity|]. apply cmp_none_iff; auto. unfold u32, M32. lia.
Qed.

Example next_iter_example :
  next_iter 3 4294967294 = Ok 1 /\ serial_partial_cmp 4294967294 1 = Ok (Some Lt).
Proof. vm_compute. auto. Qed.
