(* C17 -- property theorems only.  Proofs live in C17/Proofs.v and C17/ProofsW.v. *)
From Coq Require Import NArith Bool ZArith.
Local Open Scope bool_scope.
From DV Require Import Base.Outcome C17.Gen C17.Model C17.Proofs C17.ProofsW.
Local Open Scope N_scope.

Theorem C17_add_gt : forall a n, u32 a -> 1 <= n <= 2147483647 ->
  exists s, serial_add a n = Ok s /\ u32 s /\
    serial_partial_cmp a s = Ok (Some Lt) /\
    serial_partial_cmp s a = Ok (Some Gt).
Proof. exact add_gt. Qed.
Print Assumptions C17_add_gt.

Theorem C17_add_panics_iff : forall a n, serial_add a n = Panic 2 <-> 2147483647 < n.
Proof. exact add_panics_iff. Qed.
Print Assumptions C17_add_panics_iff.

Theorem C17_cmp_total : forall a b, u32 a -> u32 b -> no_panic (serial_partial_cmp a b).
Proof. exact cmp_no_panic. Qed.
Print Assumptions C17_cmp_total.

Theorem C17_cmp_antisym : forall a b, u32 a -> u32 b ->
  (serial_partial_cmp a b = Ok (Some Lt) <-> serial_partial_cmp b a = Ok (Some Gt)) /\
  (serial_partial_cmp a b = Ok (Some Gt) <-> serial_partial_cmp b a = Ok (Some Lt)) /\
  (serial_partial_cmp a b = Ok (Some Eq) <-> a = b) /\
  (serial_partial_cmp a b = Ok None <-> serial_partial_cmp b a = Ok None).
Proof. exact cmp_antisym. Qed.
Print Assumptions C17_cmp_antisym.

Theorem C17_cmp_none_iff_2_31_apart : forall a b, u32 a -> u32 b ->
  (serial_partial_cmp a b = Ok None <-> (a + 2147483648) mod M32 = b).
Proof. exact cmp_none_iff. Qed.
Print Assumptions C17_cmp_none_iff_2_31_apart.

Theorem C17_cmp_shift_invariant : forall a b k, u32 a -> u32 b ->
  serial_partial_cmp ((a + k) mod M32) ((b + k) mod M32) = serial_partial_cmp a b.
Proof. exact cmp_shift_invariant. Qed.
Print Assumptions C17_cmp_shift_invariant.

Theorem C17_cmp_is_rfc1982 : forall a b, u32 a -> u32 b ->
  (serial_partial_cmp a b = Ok (Some Lt) <-> rfc_lt a b) /\
  (serial_partial_cmp a b = Ok (Some Gt) <-> rfc_gt a b) /\
  (serial_partial_cmp a b = Ok (Some Eq) <-> a = b).
Proof. exact cmp_is_rfc1982. Qed.
Print Assumptions C17_cmp_is_rfc1982.

Theorem C17_cmp_closed_form : forall a b, u32 a -> u32 b ->
  serial_partial_cmp a b = Ok (classify (wdiff a b)).
Proof. exact cmp_closed_form. Qed.
Print Assumptions C17_cmp_closed_form.

Theorem C17_version_next_gt : forall a, u32 a ->
  exists s, version_next a = Ok s /\ serial_partial_cmp a s = Ok (Some Lt).
Proof. exact version_next_gt. Qed.
Print Assumptions C17_version_next_gt.

Theorem C17_sig_time_window_is_rfc1982 : forall now i e, u32 now -> u32 i -> u32 e ->
  sig_time_ok now i e = (wdiff now e <? 2147483648) && (wdiff i now <? 2147483648).
Proof. exact sig_time_ok_spec. Qed.
Print Assumptions C17_sig_time_window_is_rfc1982.

Theorem C17_sig_time_shift_invariant : forall now i e k, u32 now -> u32 i -> u32 e ->
  sig_time_ok ((now + k) mod M32) ((i + k) mod M32) ((e + k) mod M32) = sig_time_ok now i e.
Proof. exact sig_time_shift_invariant. Qed.
Print Assumptions C17_sig_time_shift_invariant.

Theorem C17_ixfr_up_to_date_is_rfc1982 : forall q z, u32 q -> u32 z ->
  ixfr_client_up_to_date q z = (wdiff z q <? 2147483648).
Proof. exact ixfr_up_to_date_spec. Qed.
Print Assumptions C17_ixfr_up_to_date_is_rfc1982.

Theorem C17_ixfr_up_to_date_shift_invariant : forall q z k, u32 q -> u32 z ->
  ixfr_client_up_to_date ((q + k) mod M32) ((z + k) mod M32) = ixfr_client_up_to_date q z.
Proof. exact ixfr_up_to_date_shift. Qed.
Print Assumptions C17_ixfr_up_to_date_shift_invariant.

Theorem C17_diff_range_accepts_bumped : forall s n, u32 s -> 1 <= n <= 2147483647 ->
  diff_range_rejected s ((s + n) mod M32) = false.
Proof. exact diff_range_accepts_bumped. Qed.
Print Assumptions C17_diff_range_accepts_bumped.

Theorem C17_date_later_is_greater : forall (secs k : Z), (1 <= k <= 2147483647)%Z ->
  serial_partial_cmp (timestamp_of_secs secs) (timestamp_of_secs (secs + k)%Z) = Ok (Some Lt).
Proof. exact date_later_is_greater. Qed.
Print Assumptions C17_date_later_is_greater.

Theorem C17_from_time_commutes_with_add : forall (secs k : Z), (0 <= k <= 2147483647)%Z ->
  serial_add (serial_of_time secs) (Z.to_N k) = Ok (serial_of_time (secs + k)%Z).
Proof. exact from_time_add. Qed.
Print Assumptions C17_from_time_commutes_with_add.

Theorem C17_time_later_is_greater : forall (secs k : Z), (1 <= k <= 2147483647)%Z ->
  serial_partial_cmp (serial_of_time secs) (serial_of_time (secs + k)%Z) = Ok (Some Lt).
Proof. exact time_later_is_greater. Qed.
Print Assumptions C17_time_later_is_greater.

Theorem C17_from_time_is_date_notation : forall secs : Z, serial_of_time secs = timestamp_of_secs secs.
Proof. exact from_time_is_date_notation. Qed.
Print Assumptions C17_from_time_is_date_notation.

Theorem C17_commit_bump_is_newer : forall old, u32 old ->
  commit_serial old None = Ok ((old + 1) mod M32) /\
  serial_partial_cmp old ((old + 1) mod M32) = Ok (Some Lt).
Proof. exact commit_bump_newer. Qed.
Print Assumptions C17_commit_bump_is_newer.

Theorem C17_commit_same_soa_bumps : forall old, u32 old ->
  commit_serial old (Some old) = Ok ((old + 1) mod M32).
Proof. exact commit_same_soa_bumps. Qed.
Print Assumptions C17_commit_same_soa_bumps.

Theorem C17_commit_keeps_written_soa : forall old z, z <> old -> commit_serial old (Some z) = Ok z.
Proof. exact commit_keeps_written_soa. Qed.
Print Assumptions C17_commit_keeps_written_soa.

Theorem C17_cmp_swap_mirrors : forall a b, u32 a -> u32 b ->
  exists o, serial_partial_cmp a b = Ok o /\ serial_partial_cmp b a = Ok (flip_cmp o).
Proof. exact cmp_flip. Qed.
Print Assumptions C17_cmp_swap_mirrors.

Theorem C17_cmp_invariant_under_serial_add : forall a b n a' b', u32 a -> u32 b ->
  serial_add a n = Ok a' -> serial_add b n = Ok b' ->
  serial_partial_cmp a' b' = serial_partial_cmp a b.
Proof. exact cmp_add_same. Qed.
Print Assumptions C17_cmp_invariant_under_serial_add.

Theorem C17_add_zero_is_identity : forall a, u32 a ->
  serial_add a 0 = Ok a /\ serial_partial_cmp a a = Ok (Some Eq).
Proof. exact add_zero. Qed.
Print Assumptions C17_add_zero_is_identity.

Theorem C17_add_composes : forall a n m, n + m <= 2147483647 ->
  exists s, serial_add a n = Ok s /\ serial_add s m = serial_add a (n + m).
Proof. exact add_add. Qed.
Print Assumptions C17_add_composes.

Theorem C17_lt_chain_classified : forall a b c, u32 a -> u32 b -> u32 c ->
  serial_partial_cmp a b = Ok (Some Lt) -> serial_partial_cmp b c = Ok (Some Lt) ->
  serial_partial_cmp a c = Ok (classify (wdiff a b + wdiff b c)).
Proof. exact lt_lt_classified. Qed.
Print Assumptions C17_lt_chain_classified.

Theorem C17_lt_transitive_iff_sum_below_2_31 : forall a b c, u32 a -> u32 b -> u32 c ->
  serial_partial_cmp a b = Ok (Some Lt) -> serial_partial_cmp b c = Ok (Some Lt) ->
  (serial_partial_cmp a c = Ok (Some Lt) <-> wdiff a b + wdiff b c < 2147483648).
Proof. exact lt_trans_bounded. Qed.
Print Assumptions C17_lt_transitive_iff_sum_below_2_31.

Theorem C17_lt_not_transitive_in_general : exists a b c, u32 a /\ u32 b /\ u32 c /\
  serial_partial_cmp a b = Ok (Some Lt) /\ serial_partial_cmp b c = Ok (Some Lt) /\
  serial_partial_cmp a c = Ok (Some Gt).
Proof. exact lt_not_transitive. Qed.
Print Assumptions C17_lt_not_transitive_in_general.

Theorem C17_derived_operators_consistent : forall a b, u32 a -> u32 b ->
  serial_le a b = serial_ge b a /\
  serial_lt a b = serial_le a b && negb (a =? b) /\
  ((serial_le a b = false /\ serial_ge a b = false) <-> serial_partial_cmp a b = Ok None).
Proof. exact ops_consistent. Qed.
Print Assumptions C17_derived_operators_consistent.

Theorem C17_diff_range_rejected_iff : forall s e, u32 s -> u32 e ->
  diff_range_rejected s e = (wdiff s e =? 0) || (2147483648 <? wdiff s e).
Proof. exact diff_range_spec. Qed.
Print Assumptions C17_diff_range_rejected_iff.

Theorem C17_diff_range_shift_invariant : forall s e k, u32 s -> u32 e ->
  diff_range_rejected ((s + k) mod M32) ((e + k) mod M32) = diff_range_rejected s e.
Proof. exact diff_range_shift. Qed.
Print Assumptions C17_diff_range_shift_invariant.

Theorem C17_sig_time_window_exact : forall now i e, u32 now -> u32 i -> u32 e ->
  wdiff i e < 2147483648 ->
  sig_time_ok now i e = (wdiff i now <=? wdiff i e).
Proof. exact sig_time_window_exact. Qed.
Print Assumptions C17_sig_time_window_exact.

Theorem C17_commit_always_changes_serial : forall old written, u32 old ->
  match written with Some z => u32 z | None => True end ->
  exists s, commit_serial old written = Ok s /\ u32 s /\ s <> old.
Proof. exact commit_changes_serial. Qed.
Print Assumptions C17_commit_always_changes_serial.

Theorem C17_version_next_iterated_closed_form : forall k a, u32 a ->
  next_iter k a = Ok ((a + N.of_nat k) mod M32).
Proof. exact next_iter_closed. Qed.
Print Assumptions C17_version_next_iterated_closed_form.

Theorem C17_version_next_iterated_gt : forall k a, u32 a -> 1 <= N.of_nat k <= 2147483647 ->
  exists s, next_iter k a = Ok s /\ serial_partial_cmp a s = Ok (Some Lt).
Proof. exact next_iter_gt. Qed.
Print Assumptions C17_version_next_iterated_gt.

Theorem C17_version_next_2_31_times_undefined : forall k a, u32 a -> N.of_nat k = 2147483648 ->
  exists s, next_iter k a = Ok s /\ serial_partial_cmp a s = Ok None.
Proof. exact next_iter_half_undefined. Qed.
Print Assumptions C17_version_next_2_31_times_undefined.
