From Coq Require Import Extraction ExtrOcamlBasic NArith.
From DV Require Import Base.Outcome C17.Gen C17.Model.
Extraction Language OCaml.
Extraction "../build/ml/C17/model.ml" c17_cmp c17_add c17_next c17_ccmp c17_sigtime c17_uptodate c17_diffrange c17_date c17_fromtime c17_commit.
