From Coq Require Import NArith Lia ZArith Bool.
Local Open Scope bool_scope.
From Coq Require Import ZifyN ZifyBool.
From DV Require Import Base.Outcome C17.Gen C17.Model.
Local Open Scope N_scope.
Ltac Zify.zify_post_hook ::= Z.div_mod_to_equations.

Definition u32 (a : N) : Prop := a < M32.

Lemma cmp_closed_form a b : u32 a -> u32 b ->
  serial_partial_cmp a b = Ok (classify (wdiff a b)).
Proof.
  unfold u32, M32, serial_partial_cmp, classify, wdiff, u32_sub, M32.
  cbv [lt_sub_other_minus_self gt_sub_self_minus_other arm_eq arm_lt_lt arm_lt_gt
       arm_lt_eq arm_gt_lt arm_gt_gt arm_gt_eq half bind].
  intros Ha Hb.
  destruct (N.compare_spec a b) as [E|L|G].
  - subst. replace ((b + 4294967296 - b) mod 4294967296) with 0 by lia. reflexivity.
  - replace ((b + 4294967296 - a) mod 4294967296) with (b - a) by lia.
    destruct (N.leb_spec a b); [|lia].
    destruct (N.compare_spec (b - a) 2147483648) as [E2|L2|G2].
    + rewrite E2. reflexivity.
    + destruct (N.eqb_spec (b - a) 0); [lia|].
      destruct (N.ltb_spec (b - a) 2147483648); [reflexivity|lia].
    + destruct (N.eqb_spec (b - a) 0); [lia|].
      destruct (N.ltb_spec (b - a) 2147483648); [lia|].
      destruct (N.eqb_spec (b - a) 2147483648); [lia|reflexivity].
  - replace ((b + 4294967296 - a) mod 4294967296) with (4294967296 - (a - b)) by lia.
    destruct (N.leb_spec b a); [|lia].
    destruct (N.compare_spec (a - b) 2147483648) as [E2|L2|G2].
    + rewrite E2. reflexivity.
    + destruct (N.eqb_spec (4294967296 - (a - b)) 0); [lia|].
      destruct (N.ltb_spec (4294967296 - (a - b)) 2147483648); [lia|].
      destruct (N.eqb_spec (4294967296 - (a - b)) 2147483648); [lia|reflexivity].
    + destruct (N.eqb_spec (4294967296 - (a - b)) 0); [lia|].
      destruct (N.ltb_spec (4294967296 - (a - b)) 2147483648); [reflexivity|lia].
Qed.

Lemma cmp_no_panic a b : u32 a -> u32 b -> no_panic (serial_partial_cmp a b).
Proof. intros Ha Hb. rewrite cmp_closed_form by assumption. exact I. Qed.

Lemma wdiff_range a b : u32 a -> u32 b -> wdiff a b < M32.
Proof. unfold u32, wdiff, M32. intros. lia. Qed.

Lemma wdiff_zero a b : u32 a -> u32 b -> (wdiff a b = 0 <-> a = b).
Proof. unfold u32, wdiff, M32. intros. lia. Qed.

Lemma wdiff_flip a b : u32 a -> u32 b -> wdiff a b <> 0 ->
  wdiff b a = M32 - wdiff a b.
Proof. unfold u32, wdiff, M32. intros. lia. Qed.

Lemma classify_cases d : d < M32 ->
  (classify d = Some Eq <-> d = 0) /\
  (classify d = Some Lt <-> 0 < d < 2147483648) /\
  (classify d = None <-> d = 2147483648) /\
  (classify d = Some Gt <-> 2147483648 < d).
Proof.
  unfold classify, M32. intros Hd.
  destruct (N.eqb_spec d 0); [subst; repeat split; intros; try discriminate; try lia; auto|].
  destruct (N.ltb_spec d 2147483648);
    [repeat split; intros; try discriminate; try lia; auto|].
  destruct (N.eqb_spec d 2147483648);
    repeat split; intros; try discriminate; try lia; auto.
Qed.

(* adding 1 .. 2^31-1 yields a strictly greater serial, seen from both sides *)
Lemma add_gt a n : u32 a -> 1 <= n <= 2147483647 ->
  exists s, serial_add a n = Ok s /\ u32 s /\
    serial_partial_cmp a s = Ok (Some Lt) /\
    serial_partial_cmp s a = Ok (Some Gt).
Proof.
  intros Ha Hn. unfold serial_add.
  cbv [add_guard_is_le add_max add_wraps].
  destruct (N.leb_spec n 2147483647); [|lia].
  exists ((a + n) mod M32).
  assert (Hs : u32 ((a + n) mod M32)) by (unfold u32, M32 in *; lia).
  split; [reflexivity|]. split; [exact Hs|].
  rewrite !cmp_closed_form by assumption.
  assert (D1 : wdiff a ((a + n) mod M32) = n) by (unfold u32, wdiff, M32 in *; lia).
  assert (D2 : wdiff ((a + n) mod M32) a = M32 - n) by (unfold u32, wdiff, M32 in *; lia).
  rewrite D1, D2. unfold M32.
  split; f_equal.
  - apply (classify_cases n); unfold M32; lia.
  - apply (classify_cases (4294967296 - n)); unfold M32; lia.
Qed.

Lemma add_panics_iff a n : serial_add a n = Panic 2 <-> 2147483647 < n.
Proof.
  unfold serial_add. cbv [add_guard_is_le add_max add_wraps].
  destruct (N.leb_spec n 2147483647); split; intros; try discriminate; try lia; auto.
Qed.

Lemma add_total a n : n <= 2147483647 -> serial_add a n = Ok ((a + n) mod M32).
Proof.
  unfold serial_add. cbv [add_guard_is_le add_max add_wraps]. intros.
  destruct (N.leb_spec n 2147483647); [reflexivity|lia].
Qed.

Lemma cmp_antisym a b : u32 a -> u32 b ->
  (serial_partial_cmp a b = Ok (Some Lt) <-> serial_partial_cmp b a = Ok (Some Gt)) /\
  (serial_partial_cmp a b = Ok (Some Gt) <-> serial_partial_cmp b a = Ok (Some Lt)) /\
  (serial_partial_cmp a b = Ok (Some Eq) <-> a = b) /\
  (serial_partial_cmp a b = Ok None <-> serial_partial_cmp b a = Ok None).
Proof.
  intros Ha Hb. rewrite !cmp_closed_form by assumption.
  pose proof (wdiff_range a b Ha Hb) as R1.
  pose proof (wdiff_range b a Hb Ha) as R2.
  pose proof (classify_cases _ R1) as (E1 & L1 & N1 & G1).
  pose proof (classify_cases _ R2) as (E2 & L2 & N2 & G2).
  pose proof (wdiff_zero a b Ha Hb) as Z1.
  assert (F : wdiff a b <> 0 -> wdiff b a = M32 - wdiff a b) by (apply wdiff_flip; assumption).
  assert (F' : wdiff b a <> 0 -> wdiff a b = M32 - wdiff b a) by (apply wdiff_flip; assumption).
  assert (inj : forall x y : option comparison, Ok x = Ok y <-> x = y)
    by (intros; split; [intros H; injection H; auto | intros; subst; auto]).
  rewrite !inj. unfold M32 in *.
  repeat split; intros H.
  - apply L1 in H. apply G2. lia.
  - apply G2 in H. apply L1. lia.
  - apply G1 in H. apply L2. lia.
  - apply L2 in H. apply G1. lia.
  - apply E1 in H. apply Z1. exact H.
  - apply E1. apply Z1. exact H.
  - apply N1 in H. apply N2. lia.
  - apply N2 in H. apply N1. lia.
Qed.

(* comparison is undefined exactly for values 2^31 apart *)
Lemma cmp_none_iff a b : u32 a -> u32 b ->
  (serial_partial_cmp a b = Ok None <->
   (a + 2147483648) mod M32 = b).
Proof.
  intros Ha Hb. rewrite cmp_closed_form by assumption.
  pose proof (wdiff_range a b Ha Hb) as R1.
  pose proof (classify_cases _ R1) as (E1 & L1 & N1 & G1).
  split; intros H.
  - assert (H' : classify (wdiff a b) = None) by (injection H; auto).
    apply N1 in H'. unfold u32, wdiff, M32 in *. lia.
  - f_equal. apply N1. unfold u32, wdiff, M32 in *. lia.
Qed.

(* invariance under adding the same amount (any k, wrapped) to both sides *)
Lemma cmp_shift_invariant a b k : u32 a -> u32 b ->
  serial_partial_cmp ((a + k) mod M32) ((b + k) mod M32) = serial_partial_cmp a b.
Proof.
  intros Ha Hb.
  assert (u32 ((a + k) mod M32)) by (unfold u32, M32; lia).
  assert (u32 ((b + k) mod M32)) by (unfold u32, M32; lia).
  rewrite !cmp_closed_form by assumption. do 2 f_equal.
  unfold u32, wdiff, M32 in *. lia.
Qed.

(* the code's comparison is the RFC 1982 section 3.2 definition *)
Lemma cmp_is_rfc1982 a b : u32 a -> u32 b ->
  (serial_partial_cmp a b = Ok (Some Lt) <-> rfc_lt a b) /\
  (serial_partial_cmp a b = Ok (Some Gt) <-> rfc_gt a b) /\
  (serial_partial_cmp a b = Ok (Some Eq) <-> a = b).
Proof.
  intros Ha Hb. rewrite !cmp_closed_form by assumption.
  pose proof (wdiff_range a b Ha Hb) as R1.
  pose proof (classify_cases _ R1) as (E1 & L1 & N1 & G1).
  assert (inj : forall x y : option comparison, Ok x = Ok y <-> x = y)
    by (intros; split; [intros H; injection H; auto | intros; subst; auto]).
  rewrite !inj, L1, G1, E1. unfold rfc_lt, rfc_gt, u32, wdiff, M32 in *.
  repeat split; intros; lia.
Qed.

(* Version::next never panics and always moves strictly forward *)
Lemma version_next_gt a : u32 a ->
  exists s, version_next a = Ok s /\ serial_partial_cmp a s = Ok (Some Lt).
Proof.
  intros Ha. unfold version_next. cbv [version_next_addend].
  destruct (add_gt a 1 Ha) as (s & H1 & _ & H2 & _); [lia|]. eauto.
Qed.

(* canonical order on serials is plain u32 order (RFC 4034 6.2 octet order of
   the 4-octet big-endian form) *)
Lemma canonical_is_u32_order a b : serial_canonical_cmp a b = (a ?= b).
Proof. reflexivity. Qed.

(* non-vacuity: the wrap-around case really is covered *)
Example add_gt_wraps :
  serial_add 4294967295 2147483647 = Ok 2147483646 /\
  serial_partial_cmp 4294967295 2147483646 = Ok (Some Lt) /\
  serial_partial_cmp 2147483646 4294967295 = Ok (Some Gt).
Proof. vm_compute. auto. Qed.

Example cmp_none_example :
  serial_partial_cmp 3000000000 852516352 = Ok None /\
  serial_partial_cmp 852516352 3000000000 = Ok None.
Proof. vm_compute. auto. Qed.

(* ---- the call sites ------------------------------------------------------ *)
Lemma serial_le_spec a b : u32 a -> u32 b ->
  serial_le a b = (wdiff a b <? 2147483648).
Proof.
  intros Ha Hb. unfold serial_le. rewrite cmp_closed_form by assumption.
  pose proof (wdiff_range a b Ha Hb) as R. unfold classify, M32 in *.
  destruct (N.eqb_spec (wdiff a b) 0) as [E|E]; [rewrite E; reflexivity|].
  destruct (N.ltb_spec (wdiff a b) 2147483648); [reflexivity|].
  destruct (N.eqb_spec (wdiff a b) 2147483648); reflexivity.
Qed.

Lemma serial_ge_spec a b : u32 a -> u32 b ->
  serial_ge a b = (wdiff b a <? 2147483648).
Proof.
  intros Ha Hb. unfold serial_ge. rewrite cmp_closed_form by assumption.
  pose proof (wdiff_range a b Ha Hb) as R.
  pose proof (wdiff_zero a b Ha Hb) as Z.
  assert (F : wdiff a b <> 0 -> wdiff b a = M32 - wdiff a b) by (apply wdiff_flip; assumption).
  unfold classify, M32 in *.
  destruct (N.eqb_spec (wdiff a b) 0) as [E|E].
  - assert (a = b) by (apply Z; exact E). subst.
    replace (wdiff b b) with 0 by (unfold wdiff, M32; unfold u32, M32 in Hb; lia). reflexivity.
  - rewrite (F E).
    destruct (N.ltb_spec (wdiff a b) 2147483648);
      [destruct (N.ltb_spec (4294967296 - wdiff a b) 2147483648); [lia|reflexivity]|].
    destruct (N.eqb_spec (wdiff a b) 2147483648);
      destruct (N.ltb_spec (4294967296 - wdiff a b) 2147483648); try reflexivity; lia.
Qed.

Lemma serial_lt_spec a b : u32 a -> u32 b ->
  serial_lt a b = (0 <? wdiff a b) && (wdiff a b <? 2147483648).
Proof.
  intros Ha Hb. unfold serial_lt. rewrite cmp_closed_form by assumption.
  unfold classify.
  destruct (N.eqb_spec (wdiff a b) 0) as [E|E]; [rewrite E; reflexivity|].
  destruct (N.ltb_spec (wdiff a b) 2147483648);
    [destruct (N.ltb_spec 0 (wdiff a b)); [reflexivity|lia]|].
  destruct (N.eqb_spec (wdiff a b) 2147483648); rewrite Bool.andb_false_r; reflexivity.
Qed.

(* the validator accepts a signature exactly when now lies in the RFC 1982
   window [inception, expiration]: inception at most 2^31-1 behind, expiration
   at most 2^31-1 ahead (RFC 4034 3.1.5) *)
Lemma sig_time_ok_spec now i e : u32 now -> u32 i -> u32 e ->
  sig_time_ok now i e = (wdiff now e <? 2147483648) && (wdiff i now <? 2147483648).
Proof.
  intros. unfold sig_time_ok. cbv [sig_time_uses_serial_order].
  rewrite serial_le_spec, serial_ge_spec by assumption. reflexivity.
Qed.

Lemma wdiff_shift a b k : u32 a -> u32 b ->
  wdiff ((a + k) mod M32) ((b + k) mod M32) = wdiff a b.
Proof. unfold u32, wdiff, M32. intros. lia. Qed.

(* ... hence the verdict is the same wherever the three times sit relative to
   the 2^32 wrap-around *)
Lemma sig_time_shift_invariant now i e k : u32 now -> u32 i -> u32 e ->
  sig_time_ok ((now + k) mod M32) ((i + k) mod M32) ((e + k) mod M32) = sig_time_ok now i e.
Proof.
  intros Hn Hi He.
  assert (u32 ((now + k) mod M32)) by (unfold u32, M32; lia).
  assert (u32 ((i + k) mod M32)) by (unfold u32, M32; lia).
  assert (u32 ((e + k) mod M32)) by (unfold u32, M32; lia).
  rewrite !sig_time_ok_spec by assumption. rewrite !wdiff_shift by assumption. reflexivity.
Qed.

Lemma ixfr_up_to_date_spec q z : u32 q -> u32 z ->
  ixfr_client_up_to_date q z = (wdiff z q <? 2147483648).
Proof.
  intros. unfold ixfr_client_up_to_date. cbv [ixfr_uptodate_is_serial_ge].
  apply serial_ge_spec; assumption.
Qed.

Lemma ixfr_up_to_date_shift q z k : u32 q -> u32 z ->
  ixfr_client_up_to_date ((q + k) mod M32) ((z + k) mod M32) = ixfr_client_up_to_date q z.
Proof.
  intros Hq Hz.
  assert (u32 ((q + k) mod M32)) by (unfold u32, M32; lia).
  assert (u32 ((z + k) mod M32)) by (unfold u32, M32; lia).
  rewrite !ixfr_up_to_date_spec by assumption. rewrite wdiff_shift by assumption. reflexivity.
Qed.

(* a zone diff is accepted only when its end serial is serially after (or
   undefined relative to) its start serial; a diff produced by bumping the
   serial by 1 .. 2^31-1 is never rejected *)
Lemma diff_range_accepts_bumped s n : u32 s -> 1 <= n <= 2147483647 ->
  diff_range_rejected s ((s + n) mod M32) = false.
Proof.
  intros Hs Hn. unfold diff_range_rejected. cbv [diff_range_rejects_eq_or_serial_lt].
  assert (He : u32 ((s + n) mod M32)) by (unfold u32, M32; lia).
  rewrite serial_lt_spec by assumption.
  assert (D : wdiff ((s + n) mod M32) s = M32 - n) by (unfold u32, wdiff, M32 in *; lia).
  rewrite D. unfold M32.
  destruct (N.eqb_spec s ((s + n) mod 4294967296)) as [E|E]; [unfold u32, M32 in *; lia|].
  destruct (N.ltb_spec (4294967296 - n) 2147483648); [lia|].
  rewrite Bool.andb_false_r. reflexivity.
Qed.

Example sig_time_wrap :
  sig_time_ok 256 4294963200 65536 = true /\            (* inception before the wrap, now and expiration after *)
  sig_time_ok 1790000000 0 4294967295 = false /\        (* expiration more than 2^31 ahead: serially in the past *)
  ixfr_client_up_to_date 5 4294967290 = true /\         (* client serial 5 is newer than 0xFFFFFFFA *)
  diff_range_rejected 4294967295 3 = false.
Proof. vm_compute. auto. Qed.

(* ---- date notation ------------------------------------------------------- *)
Lemma timestamp_of_secs_u32 secs : u32 (timestamp_of_secs secs).
Proof.
  unfold timestamp_of_secs, u32, M32. cbv [date_cast_wraps].
  pose proof (Z.mod_pos_bound secs 4294967296 ltac:(lia)). lia.
Qed.

(* a time k seconds later (1 <= k <= 2^31-1) parses to a strictly greater
   timestamp, wherever the two times sit relative to 2106-02-07 06:28:16 *)
Lemma date_later_is_greater secs k : (1 <= k <= 2147483647)%Z ->
  serial_partial_cmp (timestamp_of_secs secs) (timestamp_of_secs (secs + k)) = Ok (Some Lt).
Proof.
  intros Hk.
  destruct (add_gt (timestamp_of_secs secs) (Z.to_N k) (timestamp_of_secs_u32 secs)) as (s & Hs & _ & Hlt & _);
    [lia|].
  rewrite add_total in Hs by lia. injection Hs as <-.
  replace (timestamp_of_secs (secs + k)) with ((timestamp_of_secs secs + Z.to_N k) mod M32); [exact Hlt|].
  unfold timestamp_of_secs, M32. cbv [date_cast_wraps].
  pose proof (Z.mod_pos_bound secs 4294967296 ltac:(lia)).
  pose proof (Z.mod_pos_bound (secs + k) 4294967296 ltac:(lia)).
  lia.
Qed.

Example date_examples :
  timestamp_of_date 1970 1 1 0 0 0 = 0%N /\
  timestamp_of_date 2106 2 7 6 28 15 = 4294967295%N /\
  timestamp_of_date 2106 2 7 6 28 16 = 0%N /\
  timestamp_of_date 2038 1 19 3 14 8 = 2147483648%N /\
  timestamp_of_date 2026 9 26 0 0 0 = 1790380800%N.
Proof. vm_compute. auto. Qed.

(* ---- Serial from a point in time ----------------------------------------- *)
Lemma serial_of_time_u32 secs : u32 (serial_of_time secs).
Proof.
  unfold serial_of_time, u32, M32. cbv [from_time_cast_wraps].
  pose proof (Z.mod_pos_bound secs 4294967296 ltac:(lia)). lia.
Qed.

(* the conversion commutes with adding seconds: converting a time k seconds
   later is Serial::add of k, for every k the addition accepts *)
Lemma from_time_add secs k : (0 <= k <= 2147483647)%Z ->
  serial_add (serial_of_time secs) (Z.to_N k) = Ok (serial_of_time (secs + k)).
Proof.
  intros Hk. rewrite add_total by lia. f_equal.
  unfold serial_of_time, M32. cbv [from_time_cast_wraps].
  pose proof (Z.mod_pos_bound secs 4294967296 ltac:(lia)).
  pose proof (Z.mod_pos_bound (secs + k) 4294967296 ltac:(lia)).
  lia.
Qed.

(* a later point in time (1 <= k <= 2^31-1 seconds) converts to a strictly
   greater serial, before 1970, across 2038 and across the 2106 wrap alike *)
Lemma time_later_is_greater secs k : (1 <= k <= 2147483647)%Z ->
  serial_partial_cmp (serial_of_time secs) (serial_of_time (secs + k)) = Ok (Some Lt).
Proof.
  intros Hk.
  destruct (add_gt (serial_of_time secs) (Z.to_N k) (serial_of_time_u32 secs)) as (s & Hs & _ & Hlt & _);
    [lia|].
  rewrite from_time_add in Hs by lia. injection Hs as <-. exact Hlt.
Qed.

(* both routes to a signature time agree: the date notation and the conversion *)
Lemma from_time_is_date_notation secs : serial_of_time secs = timestamp_of_secs secs.
Proof. unfold serial_of_time, timestamp_of_secs. cbv [from_time_cast_wraps date_cast_wraps]. reflexivity. Qed.

Example from_time_examples :
  serial_of_time 0 = 0%N /\
  serial_of_time 4294967295 = 4294967295%N /\
  serial_of_time 4294967296 = 0%N /\            (* 2106-02-07 06:28:16 *)
  serial_of_time 4294967297 = 1%N /\
  serial_of_time (-1) = 4294967295%N /\         (* 1969-12-31 23:59:59 *)
  serial_of_time 253402207200 = 4294104032%N /\ (* jiff's maximum *)
  serial_partial_cmp (serial_of_time 4294967290) (serial_of_time 4294967300) = Ok (Some Lt).
Proof. vm_compute. auto 10. Qed.

(* ---- commit(true) ---------------------------------------------------------- *)
(* an untouched SOA: the published serial s becomes (s + 1) mod 2^32, which is
   strictly newer in RFC 1982 order - also at 0xFFFFFFFF, where it becomes 0 *)
Lemma commit_bump_newer old : u32 old ->
  commit_serial old None = Ok ((old + 1) mod M32) /\
  serial_partial_cmp old ((old + 1) mod M32) = Ok (Some Lt).
Proof.
  intros Hu. unfold commit_serial. cbv [commit_bump_addend].
  destruct (add_gt old 1 Hu) as (s & Hs & _ & Hlt & _); [lia|].
  rewrite add_total in Hs by lia. injection Hs as <-.
  rewrite add_total by lia. split; [reflexivity | exact Hlt].
Qed.
(* the same when the writer wrote back an SOA with the published serial *)
Lemma commit_same_soa_bumps old : u32 old ->
  commit_serial old (Some old) = Ok ((old + 1) mod M32).
Proof.
  intros Hu. unfold commit_serial. cbv [commit_bumps_iff_soa_untouched commit_bump_addend].
  rewrite N.eqb_refl. apply add_total; lia.
Qed.
(* an SOA the writer wrote with another serial is kept, whatever the numeric order
   of the two serials - a zone whose serial crosses 2^32 keeps the writer's SOA *)
Lemma commit_keeps_written_soa old z : z <> old -> commit_serial old (Some z) = Ok z.
Proof.
  intros Hn. unfold commit_serial. cbv [commit_bumps_iff_soa_untouched].
  destruct (N.eqb_spec z old) as [E|_]; [contradiction|reflexivity].
Qed.
Example commit_examples :
  commit_serial 4294967295 None = Ok 0 /\
  commit_serial 4294967280 (Some 5) = Ok 5 /\      (* 0xFFFFFFF0 -> 5: the writer's SOA stays *)
  commit_serial 7 (Some 7) = Ok 8.
Proof. vm_compute. auto. Qed.
