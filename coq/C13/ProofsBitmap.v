(* C13 proofs, part 1: the type bitmap builder, finalize and contains. *)
From Coq Require Import NArith ZArith Arith List Bool Lia Sorted.
From Coq Require Import ZifyN ZifyBool ZifyNat.
From DV Require Import Base.Outcome Base.Bytes Base.Lex Base.Names C13.Gen C13.Model.
Import ListNotations.
Local Open Scope N_scope.
Ltac Zify.zify_post_hook ::= Z.div_mod_to_equations.

(* ---- position of a type: window, octet, bit (bit 7 is the leftmost) *)
Definition twin (t : N) : N := t / 256.
Definition toct (t : N) : nat := N.to_nat ((t mod 256) / 8).
Definition tbit (t : N) : N := 7 - t mod 8.

Lemma shr128 k : k < 8 -> 128 / 2 ^ k = 2 ^ (7 - k).
Proof.
  intros H.
  assert (E : k = 0 \/ k = 1 \/ k = 2 \/ k = 3 \/ k = 4 \/ k = 5 \/ k = 6 \/ k = 7) by lia.
  destruct E as [E|[E|[E|[E|[E|[E|[E|E]]]]]]]; subst; reflexivity.
Qed.

Lemma split_rtype_eq t : split_rtype t = (twin t, toct t, 2 ^ tbit t).
Proof.
  unfold split_rtype, twin, toct, tbit.
  cbv [bm_window_shift bm_low_mask bm_octet_shift bm_top_bit bm_bit_mask].
  rewrite !N.shiftr_div_pow2.
  change 255 with (N.ones 8). change (N.land t 7) with (N.land t (N.ones 3)).
  rewrite !N.land_ones.
  change (2 ^ 8) with 256. change (2 ^ 3) with 8.
  rewrite shr128 by (apply N.mod_lt; discriminate). reflexivity.
Qed.

Lemma toct_lt t : (toct t < 32)%nat.
Proof. unfold toct. assert (t mod 256 < 256) by (apply N.mod_lt; discriminate). lia. Qed.
Lemma tbit_lt t : tbit t < 8.
Proof. unfold tbit. lia. Qed.
Lemma twin_lt t : t < 65536 -> twin t < 256.
Proof. unfold twin. lia. Qed.

Lemma pos_inj t t' : twin t = twin t' -> toct t = toct t' -> tbit t = tbit t' -> t = t'.
Proof.
  unfold twin, toct, tbit. intros H1 H2 H3.
  assert (H2' : (t mod 256) / 8 = (t' mod 256) / 8) by lia.
  assert (t mod 8 = t' mod 8) by lia.
  assert (A : t mod 8 = (t mod 256) mod 8) by lia.
  assert (B : t' mod 8 = (t' mod 256) mod 8) by lia.
  lia.
Qed.

Definition same_pos (t t' : N) : bool :=
  (twin t =? twin t') && (toct t =? toct t')%nat && (tbit t =? tbit t').
Lemma same_pos_eq t t' : same_pos t t' = (t =? t').
Proof.
  unfold same_pos. destruct (N.eqb_spec t t') as [->|Hne].
  - rewrite !N.eqb_refl, Nat.eqb_refl. reflexivity.
  - destruct (N.eqb_spec (twin t) (twin t')); [|reflexivity].
    destruct (Nat.eqb_spec (toct t) (toct t')); [|reflexivity].
    destruct (N.eqb_spec (tbit t) (tbit t')); [|reflexivity].
    exfalso. apply Hne. apply pos_inj; assumption.
Qed.

(* ---- single-bit masks *)
Lemma land_pow2_testbit x j : (N.land x (2 ^ j) =? 0) = negb (N.testbit x j).
Proof.
  destruct (N.testbit x j) eqn:E; cbn [negb].
  - apply N.eqb_neq. intros H0.
    assert (H : N.testbit (N.land x (2 ^ j)) j = false) by (rewrite H0; apply N.bits_0).
    rewrite N.land_spec, E, N.pow2_bits_true in H. discriminate.
  - apply N.eqb_eq. apply N.bits_inj. intros i.
    rewrite N.land_spec, N.bits_0, N.pow2_bits_eqb.
    destruct (N.eqb_spec j i); subst; [rewrite E|]; rewrite ?andb_false_r; reflexivity.
Qed.

Lemma in_bytes_range x : x < 256 -> In x (map N.of_nat (seq 0 256)).
Proof. intros H. apply in_map_iff. exists (N.to_nat x). split; [lia|]. apply in_seq. lia. Qed.

Lemma lor_byte_all :
  forallb (fun x => forallb (fun j => N.lor x (2 ^ j) <? 256) [0;1;2;3;4;5;6;7])
          (map N.of_nat (seq 0 256)) = true.
Proof. vm_compute. reflexivity. Qed.

Lemma lor_byte x j : x < 256 -> j < 8 -> N.lor x (2 ^ j) < 256.
Proof.
  intros Hx Hj. pose proof lor_byte_all as A. rewrite forallb_forall in A.
  specialize (A x (in_bytes_range x Hx)). rewrite forallb_forall in A.
  assert (Hin : In j [0;1;2;3;4;5;6;7]) by (simpl; lia).
  specialize (A j Hin). lia.
Qed.

Lemma lor_pow2_nonzero x j : N.lor x (2 ^ j) <> 0.
Proof.
  intros H. assert (T : N.testbit (N.lor x (2 ^ j)) j = false) by (rewrite H; apply N.bits_0).
  rewrite N.lor_spec, N.pow2_bits_true, orb_true_r in T. discriminate.
Qed.

(* ---- set_at *)
Lemma set_at_length l i f : length (set_at l i f) = length l.
Proof. revert i; induction l as [|x l IH]; intros [|i]; simpl; auto. Qed.

Lemma nth_set_at_same l i f d : (i < length l)%nat -> nth i (set_at l i f) d = f (nth i l d).
Proof. revert i; induction l as [|x l IH]; intros [|i] H; simpl in *; try lia; auto. apply IH. lia. Qed.

Lemma nth_set_at_other l i i' f d : i <> i' -> nth i' (set_at l i f) d = nth i' l d.
Proof.
  revert i i'; induction l as [|x l IH]; intros [|i] [|i'] H; simpl; auto; try congruence.
Qed.

Lemma set_at_Forall (P : N -> Prop) l i f :
  Forall P l -> (forall x, P x -> P (f x)) -> Forall P (set_at l i f).
Proof.
  intros Hl Hf. revert i; induction Hl as [|x l Hx Hl IH]; intros [|i]; simpl; constructor; auto.
Qed.

Lemma nth_repeat0 i n : nth i (repeat 0 n) 0 = 0.
Proof. revert i; induction n; intros [|i]; simpl; auto. Qed.

(* ---- block invariants *)
Definition blk_wf (b : block) : Prop :=
  let '(w, (len, data)) := b in
  w < 256 /\ length data = 32%nat /\ len <= 32 /\ Forall (fun x => x < 256) data /\
  (forall i, (N.to_nat len <= i)%nat -> nth i data 0 = 0) /\
  (len = 0 \/ nth (N.to_nat len - 1) data 0 <> 0).
Definition blk_ne (b : block) : Prop := 1 <= fst (snd b).

Lemma zero_data_length : length bm_zero_data = 32%nat.
Proof. reflexivity. Qed.

Lemma fresh_wf w : w < 256 -> blk_wf (w, (0, bm_zero_data)).
Proof.
  intros Hw. unfold blk_wf. repeat split; auto; try lia.
  - unfold bm_zero_data. apply Forall_forall. intros x Hx. apply repeat_spec in Hx. lia.
  - intros i _. apply nth_repeat0.
Qed.

Lemma block_add_wf b o j : blk_wf b -> (o < 32)%nat -> j < 8 ->
  blk_wf (block_add b o (2 ^ j)) /\ blk_ne (block_add b o (2 ^ j)) /\
  fst (block_add b o (2 ^ j)) = fst b.
Proof.
  destruct b as [w [len data]]. intros (Hw & Hl & Hlen & Hb & Hz & Hlast) Ho Hj.
  unfold block_add, blk_ne. cbv [bm_len_plus]. cbn [fst snd].
  split; [|split; [destruct (N.ltb_spec len (N.of_nat o + 1)); lia | reflexivity]].
  unfold blk_wf. split; [exact Hw|]. split; [rewrite set_at_length; exact Hl|].
  split; [destruct (N.ltb_spec len (N.of_nat o + 1)); lia|].
  split; [apply set_at_Forall; [exact Hb|]; intros x Hx; apply lor_byte; assumption|].
  split.
  - intros i Hi. rewrite nth_set_at_other.
    + apply Hz. destruct (N.ltb_spec len (N.of_nat o + 1)); lia.
    + destruct (N.ltb_spec len (N.of_nat o + 1)); lia.
  - right. destruct (N.ltb_spec len (N.of_nat o + 1)) as [Hlt|Hge].
    + replace (N.to_nat (N.of_nat o + 1) - 1)%nat with o by lia.
      rewrite nth_set_at_same by lia. apply lor_pow2_nonzero.
    + destruct (Nat.eq_dec (N.to_nat len - 1) o) as [E|E].
      * rewrite E, nth_set_at_same by lia. apply lor_pow2_nonzero.
      * rewrite nth_set_at_other by lia. destruct Hlast as [H0|Hn]; [lia|exact Hn].
Qed.

Definition bs_inv (bs : list block) : Prop :=
  Forall (fun b => blk_wf b /\ blk_ne b) bs /\ StronglySorted (fun a b => fst a < fst b) bs.

Lemma bs_inv_nil : bs_inv [].
Proof. split; constructor. Qed.

Lemma bm_add_at_lower lo bs w o m :
  Forall (fun x => lo < fst x) bs -> lo < w ->
  (forall b, fst (block_add b o m) = fst b) ->
  Forall (fun x => lo < fst x) (bm_add_at bs w o m).
Proof.
  intros Hbs Hw Hf. induction Hbs as [|b r Hb Hr IH]; cbn [bm_add_at].
  - constructor; [rewrite Hf; exact Hw|constructor].
  - destruct (fst b ?= w).
    + constructor; [rewrite Hf; exact Hb|exact Hr].
    + constructor; [exact Hb|exact IH].
    + constructor; [rewrite Hf; exact Hw|]. constructor; assumption.
Qed.

Lemma block_add_fst b o m : fst (block_add b o m) = fst b.
Proof. destruct b as [w [len data]]. reflexivity. Qed.

Lemma bm_add_at_inv bs w o j : bs_inv bs -> w < 256 -> (o < 32)%nat -> j < 8 ->
  bs_inv (bm_add_at bs w o (2 ^ j)).
Proof.
  intros [Hall Hs] Hw Ho Hj. induction bs as [|b r IH]; cbn [bm_add_at].
  - destruct (block_add_wf _ o j (fresh_wf w Hw) Ho Hj) as (A & B & C).
    split; [constructor; [split; assumption|constructor]|constructor; constructor].
  - inversion Hall as [|? ? [Hbw Hbn] Hall']; subst.
    apply StronglySorted_inv in Hs as [Hs' Hlt].
    destruct (N.compare_spec (fst b) w) as [E|L|G].
    + destruct (block_add_wf _ o j Hbw Ho Hj) as (A & B & C).
      split; [constructor; [split; assumption|exact Hall']|].
      constructor; [exact Hs'|]. rewrite block_add_fst. exact Hlt.
    + destruct (IH Hall' Hs') as [IA IS].
      split; [constructor; [split; assumption|exact IA]|].
      constructor; [exact IS|]. apply bm_add_at_lower; [exact Hlt|exact L|intros; apply block_add_fst].
    + destruct (block_add_wf _ o j (fresh_wf w Hw) Ho Hj) as (A & B & C).
      split; [constructor; [split; assumption|exact Hall]|].
      constructor; [constructor; assumption|]. rewrite block_add_fst. cbn [fst].
      constructor; [exact G|]. eapply Forall_impl; [|exact Hlt]. cbn. intros a Ha. lia.
Qed.

Lemma bm_add_inv bs t : bs_inv bs -> t < 65536 -> bs_inv (bm_add bs t).
Proof.
  intros H Ht. unfold bm_add. rewrite split_rtype_eq.
  apply bm_add_at_inv; [exact H|apply twin_lt; exact Ht|apply toct_lt|apply tbit_lt].
Qed.

(* ---- what the builder holds *)
Fixpoint bs_has (bs : list block) (w : N) (o : nat) (j : N) : bool :=
  match bs with
  | [] => false
  | b :: r => if fst b =? w then N.testbit (nth o (snd (snd b)) 0) j else bs_has r w o j
  end.

Lemma bs_has_above bs w o j : Forall (fun x => w < fst x) bs -> bs_has bs w o j = false.
Proof.
  induction 1 as [|b r Hb Hr IH]; cbn [bs_has]; [reflexivity|].
  destruct (N.eqb_spec (fst b) w); [lia|exact IH].
Qed.

Lemma block_add_bit b o j o' j' : (o < length (snd (snd b)))%nat ->
  N.testbit (nth o' (snd (snd (block_add b o (2 ^ j)))) 0) j' =
  N.testbit (nth o' (snd (snd b)) 0) j' || ((o =? o')%nat && (j =? j')).
Proof.
  destruct b as [w [len data]]. cbn [block_add snd fst]. intros Ho.
  destruct (Nat.eqb_spec o o') as [<-|Hne].
  - rewrite nth_set_at_same by exact Ho. rewrite N.lor_spec, N.pow2_bits_eqb. reflexivity.
  - rewrite nth_set_at_other by exact Hne. cbn [andb]. rewrite orb_false_r. reflexivity.
Qed.

Lemma bs_has_add_at bs w o j w' o' j' : bs_inv bs -> (o < 32)%nat ->
  bs_has (bm_add_at bs w o (2 ^ j)) w' o' j' =
  bs_has bs w' o' j' || ((w =? w') && (o =? o')%nat && (j =? j')).
Proof.
  intros [Hall Hs] Ho. induction bs as [|b r IH]; cbn [bm_add_at].
  - cbn [bs_has]. rewrite block_add_fst. cbn [fst].
    destruct (N.eqb_spec w w'); [|reflexivity].
    rewrite block_add_bit by (cbn [snd]; rewrite zero_data_length; exact Ho).
    cbn [snd]. unfold bm_zero_data. rewrite nth_repeat0, N.bits_0. reflexivity.
  - inversion Hall as [|? ? [Hbw Hbn] Hall']; subst.
    apply StronglySorted_inv in Hs as [Hs' Hlt].
    assert (Hlen : length (snd (snd b)) = 32%nat)
      by (destruct b as [? [? ?]]; cbn [snd]; apply Hbw).
    destruct (N.compare_spec (fst b) w) as [E|L|G]; cbn [bs_has].
    + rewrite block_add_fst. destruct (N.eqb_spec (fst b) w') as [E'|N'].
      * rewrite block_add_bit by lia.
        replace (w =? w') with true by (symmetry; apply N.eqb_eq; congruence). reflexivity.
      * destruct (N.eqb_spec w w'); [lia|]. cbn [andb]. rewrite orb_false_r. reflexivity.
    + destruct (N.eqb_spec (fst b) w') as [E'|N'].
      * destruct (N.eqb_spec w w'); [lia|]. cbn [andb]. rewrite orb_false_r. reflexivity.
      * apply IH; assumption.
    + rewrite block_add_fst. cbn [fst]. destruct (N.eqb_spec w w') as [<-|N'].
      * rewrite block_add_bit by (cbn [snd]; rewrite zero_data_length; exact Ho).
        cbn [snd]. unfold bm_zero_data. rewrite nth_repeat0, N.bits_0. cbn [orb andb].
        destruct (N.eqb_spec (fst b) w); [lia|].
        rewrite bs_has_above; [reflexivity|].
        eapply Forall_impl; [|exact Hlt]. cbn. intros a Ha. lia.
      * cbn [andb]. rewrite orb_false_r. reflexivity.
Qed.

Definition bs_has_type (bs : list block) (t : N) : bool := bs_has bs (twin t) (toct t) (tbit t).

Lemma bs_has_type_add bs t t' : bs_inv bs ->
  bs_has_type (bm_add bs t) t' = bs_has_type bs t' || (t =? t').
Proof.
  intros H. unfold bs_has_type, bm_add. rewrite split_rtype_eq.
  rewrite bs_has_add_at by (auto using toct_lt). f_equal. apply same_pos_eq.
Qed.

Lemma bs_has_type_nil t : bs_has_type [] t = false.
Proof. reflexivity. Qed.

Lemma bm_adds_inv ts : forall bs, bs_inv bs -> Forall (fun t => t < 65536) ts -> bs_inv (bm_adds bs ts).
Proof.
  induction ts as [|t ts IH]; intros bs H Hts; cbn [bm_adds fold_left]; [exact H|].
  inversion Hts; subst. apply IH; [apply bm_add_inv; assumption|assumption].
Qed.

Lemma bm_adds_has ts : forall bs t', bs_inv bs -> Forall (fun t => t < 65536) ts ->
  bs_has_type (bm_adds bs ts) t' = bs_has_type bs t' || existsb (fun t => t =? t') ts.
Proof.
  induction ts as [|t ts IH]; intros bs t' H Hts; cbn [bm_adds fold_left existsb].
  - rewrite orb_false_r. reflexivity.
  - inversion Hts; subst. change (fold_left bm_add ts (bm_add bs t)) with (bm_adds (bm_add bs t) ts).
    rewrite IH by (auto using bm_add_inv). rewrite bs_has_type_add by exact H.
    rewrite orb_assoc. reflexivity.
Qed.

(* ---- finalize and contains *)
Lemma block_wire_eq b : block_wire b =
  fst b :: fst (snd b) :: firstn (N.to_nat (fst (snd b))) (snd (snd b)).
Proof.
  destruct b as [w [len data]]. cbn [block_wire fst snd]. cbv [bm_chunk_plus bm_header].
  replace (len + 2 - 2) with len by lia. reflexivity.
Qed.

Lemma contains_aux_finalize bs w o j fuel : bs_inv bs ->
  (length (bm_finalize bs) < fuel)%nat ->
  bm_contains_aux fuel (bm_finalize bs) w o (2 ^ j) = Ok (bs_has bs w o j).
Proof.
  intros [Hall _]. revert fuel. induction bs as [|b r IH]; intros fuel Hf.
  - destruct fuel; [simpl in Hf; lia|]. reflexivity.
  - inversion Hall as [|? ? [Hbw Hbn] Hall']; subst.
    destruct fuel as [|fuel]; [lia|].
    unfold bm_finalize in *. cbn [flat_map] in *. rewrite block_wire_eq in *.
    destruct b as [bw [len data]]. cbn [fst snd] in *.
    destruct Hbw as (Hw & Hl & Hlen & Hb & Hz & Hlast).
    cbn [app bm_contains_aux].
    assert (Hfl : length (firstn (N.to_nat len) data) = N.to_nat len)
      by (rewrite firstn_length; lia).
    rewrite app_length, Hfl.
    destruct (Nat.ltb_spec (N.to_nat len + length (flat_map block_wire r)) (N.to_nat len)); [lia|].
    rewrite <- Hfl at 1 3. rewrite firstn_app, firstn_all, Nat.sub_diag. cbn [firstn]. rewrite app_nil_r.
    cbn [bs_has fst snd].
    destruct (N.eqb_spec bw w) as [E|NE].
    + f_equal. rewrite land_pow2_testbit, Hfl.
      destruct (Nat.leb_spec (N.to_nat len) o) as [Hle|Hgt].
      * cbn [orb negb]. rewrite (Hz o Hle), N.bits_0. reflexivity.
      * cbn [orb]. rewrite negb_involutive.
        rewrite <- (firstn_skipn (N.to_nat len) data) at 2. rewrite app_nth1 by lia. reflexivity.
    + rewrite <- Hfl at 1. rewrite skipn_app, skipn_all, Nat.sub_diag. cbn [skipn app].
      apply IH; [exact Hall'|]. rewrite app_length in Hf. cbn [length] in Hf. lia.
Qed.

Lemma bm_contains_finalize bs t : bs_inv bs ->
  bm_contains (bm_finalize bs) t = Ok (bs_has_type bs t).
Proof.
  intros H. unfold bm_contains. rewrite split_rtype_eq.
  apply contains_aux_finalize; [exact H|lia].
Qed.

Lemma existsb_eqb_In ts t : existsb (fun x => x =? t) ts = true <-> In t ts.
Proof.
  rewrite existsb_exists. split.
  - intros (x & Hx & E). apply N.eqb_eq in E. subst. exact Hx.
  - intros H. exists t. split; [exact H|apply N.eqb_refl].
Qed.

Theorem bitmap_roundtrip ts t : Forall (fun x => x < 65536) ts ->
  exists b, bm_contains (bm_finalize (bm_adds [] ts)) t = Ok b /\ (b = true <-> In t ts).
Proof.
  intros Hts. eexists. split.
  - apply bm_contains_finalize. apply bm_adds_inv; [apply bs_inv_nil|exact Hts].
  - rewrite bm_adds_has by (auto using bs_inv_nil). rewrite bs_has_type_nil. cbn [orb].
    apply existsb_eqb_In.
Qed.

Lemma last_firstn_nth (l : list N) n : (1 <= n <= length l)%nat ->
  last (firstn n l) 0 = nth (n - 1) l 0.
Proof.
  revert l; induction n as [|n IH]; intros l H; [lia|].
  destruct l as [|x l]; [simpl in H; lia|]. cbn [firstn].
  destruct n as [|n].
  - reflexivity.
  - cbn [length] in H. specialize (IH l ltac:(lia)).
    destruct l as [|y l]; [simpl in H; lia|].
    cbn [firstn] in *. cbn [last]. cbn [last] in IH.
    replace (S (S n) - 1)%nat with (S n) by lia. cbn [nth].
    replace (S n - 1)%nat with n in IH by lia.
    destruct (firstn n l) eqn:E; exact IH.
Qed.

Lemma finalize_wire_ok bs prev : bs_inv bs ->
  (match prev with Some p => Forall (fun b => p < fst b) bs | None => True end) ->
  bm_wire_ok prev (bm_finalize bs).
Proof.
  intros [Hall Hs]. revert prev. induction bs as [|b r IH]; intros prev Hp.
  - constructor.
  - inversion Hall as [|? ? [Hbw Hbn] Hall']; subst.
    apply StronglySorted_inv in Hs as [Hs' Hlt].
    unfold bm_finalize. cbn [flat_map]. rewrite block_wire_eq.
    destruct b as [w [len data]]. cbn [fst snd] in *.
    destruct Hbw as (Hw & Hl & Hlen & Hb & Hz & Hlast). unfold blk_ne in Hbn. cbn [fst snd] in Hbn.
    cbn [app]. apply bwo_window.
    + destruct prev as [p|]; [inversion Hp; subst; assumption|exact I].
    + exact Hw.
    + lia.
    + rewrite firstn_length. lia.
    + apply Forall_forall. intros x Hx. rewrite Forall_forall in Hb. apply Hb.
      rewrite <- (firstn_skipn (N.to_nat len) data). apply in_or_app. left. exact Hx.
    + rewrite last_firstn_nth by lia. destruct Hlast; [lia|assumption].
    + apply IH; assumption.
Qed.

Theorem bitmap_wire_layout ts : Forall (fun x => x < 65536) ts ->
  bm_wire_ok None (bm_finalize (bm_adds [] ts)).
Proof.
  intros Hts. apply finalize_wire_ok; [|exact I].
  apply bm_adds_inv; [apply bs_inv_nil|exact Hts].
Qed.

Example bitmap_example :
  bm_finalize (bm_adds [] [46; 47; 1; 257]) = [0; 6; 64; 0; 0; 0; 0; 3; 1; 1; 64] /\
  bm_contains (bm_finalize (bm_adds [] [46; 47; 1; 257])) 257 = Ok true /\
  bm_contains (bm_finalize (bm_adds [] [46; 47; 1; 257])) 2 = Ok false.
Proof. vm_compute. auto. Qed.

(* ---- RtypeBitmap::from_octets accepts what finalize produces *)
Lemma bm_check_wire_ok : forall w prev fuel, bm_wire_ok prev w -> (length w < fuel)%nat ->
  bm_check fuel w = Ok tt.
Proof.
  intros w prev fuel H. revert fuel. induction H as [prev|prev w len data rest Hp Hw Hlen Hdl Hb Hlast Hrest IH];
    intros fuel Hf; (destruct fuel as [|fuel]; [lia|]); [reflexivity|].
  cbn [bm_check]. cbv [bm_parse_header bm_parse_empty_chunk bm_parse_max_chunk].
  destruct (N.eqb_spec (len + 2) 2); [lia|]. destruct (N.ltb_spec 34 (len + 2)); [lia|].
  cbn [length] in *. rewrite app_length in *.
  destruct (Nat.ltb_spec (S (S (length data + length rest))) (N.to_nat (len + 2))); [lia|].
  replace (N.to_nat (len + 2)) with (S (S (length data))) by lia. cbn [skipn].
  rewrite <- (app_nil_l rest) at 1. rewrite skipn_app, skipn_all, Nat.sub_diag. cbn [skipn app].
  apply IH. lia.
Qed.

Theorem bitmap_reparses ts : Forall (fun x => x < 65536) ts ->
  bm_from_octets (bm_finalize (bm_adds [] ts)) = Ok tt.
Proof.
  intros Hts. unfold bm_from_octets. eapply bm_check_wire_ok; [apply bitmap_wire_layout; exact Hts|lia].
Qed.

Example bm_from_octets_examples :
  bm_from_octets [0; 0] = Err 11 /\ bm_from_octets [0; 33; 1] = Err 11 /\ bm_from_octets [0; 2; 1] = Err 10 /\
  bm_from_octets [7] = Err 10 /\ bm_from_octets [0; 1; 0; 0; 1; 0] = Ok tt.
Proof. vm_compute. auto. Qed.

(* pins of layout constants that no other lemma unfolds *)
Example layout_pins : bm_len_index = 1 /\ bm_block_size = 34 /\ bm_header = 2 /\ bm_data_len = 32%nat.
Proof. repeat split. Qed.
